import Slock.Proofs.TextParse
/-! Helper lemmas for M-TEXT: when may the chunk-local parser state be forgotten (C14 text part, chunking). -/
namespace Slock.Text

/-- A chunk boundary is *clean* when the `case 4` handler is not in the middle of its block copy and, if it is in the
trailing LF scan, the persistent `cargIndex` already equals `cargLen`.  In terms of the byte stream: no earlier boundary
fell strictly inside the current argument's data, and this one does not either. -/
def cleanCut (s : PState) (l : Loc) : Bool :=
  if s.stage = .s4 then
    match l.phase with
    | .entry => true
    | .scan => decide (s.cargLen - (s.got : Int) ≤ 0)
    | .data _ _ => false
  else true

def Step.good : Step → Bool
  | .cont _ _ => true
  | .emit _ _ _ => true
  | _ => false

theorem scanByte_prev (s : PState) (p : Option UInt8) (ph ph' : Phase) (b : UInt8)
    (hg : (scanByte s ⟨p, ph⟩ b).good = true) : scanByte s ⟨none, ph'⟩ b = scanByte s ⟨p, ph⟩ b := by
  unfold scanByte at hg ⊢
  by_cases hb : b = 10
  · simp only [hb, if_true] at hg ⊢
    cases hp : lfBad p with
    | true => simp [hp, Step.good] at hg
    | false => simp [lfBad]
  · simp [hb]

theorem numStep_prev (num : Bytes) (p : Option UInt8) (b : UInt8) (hg : numStep num p b ≠ .err) :
    numStep num none b = numStep num p b := by
  unfold numStep at hg ⊢
  by_cases hb : b = 10
  · simp only [hb, if_true] at hg ⊢
    cases hp : lfBad p with
    | true => simp [hp] at hg
    | false => simp [lfBad]
  · simp [hb]

/-- forgetting the chunk-local state at a clean boundary does not change a step that succeeds -/
theorem step_reset (s : PState) (l : Loc) (b : UInt8) (hc : cleanCut s l = true) (hg : (step s l b).good = true) :
    step s {} b = step s l b := by
  obtain ⟨p, ph⟩ := l
  unfold step at hg ⊢
  cases hs : s.stage with
  | s0 => simp
  | s2 => simp
  | s1 =>
    simp only [hs] at hg ⊢
    have : numStep s.num p b ≠ .err := by
      intro h; simp [h, Step.good] at hg
    rw [numStep_prev s.num p b this]
  | s3 =>
    simp only [hs] at hg ⊢
    have : numStep s.num p b ≠ .err := by
      intro h; simp [h, Step.good] at hg
    rw [numStep_prev s.num p b this]
  | s4 =>
    simp only [hs] at hg ⊢
    unfold cleanCut at hc
    simp only [hs, if_true] at hc
    unfold step4 at hg ⊢
    cases ph with
    | data _ _ => simp at hc
    | entry =>
      simp only at hg ⊢
      by_cases hr : s.cargLen - (s.got : Int) > 0
      · simp only [hr, if_true]
      · simp only [hr, if_false] at hg ⊢
        exact scanByte_prev s p .entry .entry b hg
    | scan =>
      simp only at hg hc ⊢
      have hr : ¬ (s.cargLen - (s.got : Int) > 0) := by
        have := of_decide_eq_true hc
        omega
      simp only [hr, if_false]
      exact scanByte_prev s p .scan .entry b hg

/-- … hence the rest of the run is unchanged -/
theorem runBytes_reset (s : PState) (l : Loc) (acc : Cmds) (ys : Bytes) (hc : cleanCut s l = true)
    (c : Cmds) (sf : PState) (lf : Loc) (h : runBytes s l acc ys = .ok c sf lf) :
    ∃ lf', runBytes s {} acc ys = .ok c sf lf' := by
  cases ys with
  | nil =>
    simp only [runBytes, Run.ok.injEq] at h
    exact ⟨{}, by simp [runBytes, h.1, h.2.1]⟩
  | cons b ys =>
    have hg : (step s l b).good = true := by
      rw [runBytes] at h
      cases hst : step s l b <;> simp [hst, Step.good] at h ⊢
    refine ⟨lf, ?_⟩
    rw [runBytes, step_reset s l b hc hg, ← h, runBytes]

/-- every boundary of the chunked run that is followed by more bytes is clean -/
def allClean (s : PState) (acc : Cmds) : List Bytes → Bool
  | [] => true
  | c :: cs =>
    match runBytes s {} acc c with
    | .ok acc' s' l' => (cs.flatten.isEmpty || cleanCut s' l') && allClean s' acc' cs
    | _ => true

theorem feed_eq_run (chunks : List Bytes) (s : PState) (acc : Cmds) (c : Cmds) (sf : PState) (lf : Loc)
    (href : runBytes s {} acc chunks.flatten = .ok c sf lf) (hclean : allClean s acc chunks = true) :
    ∃ lf', feed s acc chunks = .ok c sf lf' := by
  induction chunks generalizing s acc lf with
  | nil =>
    simp only [List.flatten_nil, runBytes, Run.ok.injEq] at href
    exact ⟨{}, by simp [feed, href.1, href.2.1]⟩
  | cons ch cs ih =>
    simp only [List.flatten_cons] at href
    rw [runBytes_append] at href
    unfold allClean at hclean
    unfold feed
    cases h1 : runBytes s {} acc ch with
    | err a => simp [h1] at href
    | panic a => simp [h1] at href
    | ok acc' s' l' =>
      simp only [h1, Bool.and_eq_true, Bool.or_eq_true, List.isEmpty_iff] at href hclean ⊢
      by_cases hnil : cs.flatten = []
      · rw [hnil] at href
        have href' : runBytes s' {} acc' cs.flatten = .ok c sf {} := by
          simp only [runBytes, Run.ok.injEq] at href
          simp [hnil, runBytes, href.1, href.2.1]
        exact ih s' acc' {} href' hclean.2
      · have hcl : cleanCut s' l' = true := by
          rcases hclean.1 with h | h
          · exact absurd h hnil
          · exact h
        obtain ⟨lf', h2⟩ := runBytes_reset s' l' acc' cs.flatten hcl c sf lf href
        exact ih s' acc' lf' h2 hclean.2

/-- an argument list `BuildRequest`/the parser can carry: at least one argument, sizes representable as Go `int` -/
def sizeOK (args : List Bytes) : Prop :=
  args ≠ [] ∧ args.length < 9223372036854775808 ∧ ∀ a ∈ args, a.length < 9223372036854775808

theorem buildManyRun (cmds : Cmds) (h : ∀ c ∈ cmds, sizeOK c) (l : Loc) (acc : Cmds) :
    ∃ l', runBytes {} l acc (cmds.map buildRequest).flatten = .ok (acc ++ cmds) {} l' := by
  induction cmds generalizing l acc with
  | nil => exact ⟨l, by simp [runBytes]⟩
  | cons c cs ih =>
    have hc := h c (by simp)
    simp only [List.map_cons, List.flatten_cons]
    rw [buildRun c hc.1 hc.2.1 hc.2.2]
    obtain ⟨l', h2⟩ := ih (fun x hx => h x (by simp [hx])) ⟨some 10, .entry⟩ (acc ++ [c])
    exact ⟨l', by simpa using h2⟩

end Slock.Text
