import Slock.Proofs.EngineClock
/-! STATE counters = census (C17): LockedCount = Σ_keys locked, WaitCount = Σ_keys #queued. -/
namespace Slock.Engine

def KN (db : DB) : Prop := (db.keys.map (·.key)).Nodup

def totL (ks : List Key) : Int := (ks.map (fun k => (k.locked : Int))).sum
def totW (ks : List Key) : Int := (ks.map (fun k => (k.waiters.length : Int))).sum

@[simp] theorem totL_nil : totL [] = 0 := rfl
@[simp] theorem totW_nil : totW [] = 0 := rfl
@[simp] theorem totL_cons (k : Key) (ks : List Key) : totL (k :: ks) = k.locked + totL ks := by simp [totL]
@[simp] theorem totW_cons (k : Key) (ks : List Key) : totW (k :: ks) = k.waiters.length + totW ks := by simp [totW]
@[simp] theorem totL_append (a b : List Key) : totL (a ++ b) = totL a + totL b := by simp [totL]
@[simp] theorem totW_append (a b : List Key) : totW (a ++ b) = totW a + totW b := by simp [totW]

/-- with distinct key ids, the list splits into "the entry for n (if any)" and the others, as far as sums go -/
theorem tot_split (f : Key → Int) (ks : List Key) (n : Nat) (hn : (ks.map (·.key)).Nodup) :
    (ks.map f).sum = (match ks.find? (·.key == n) with | some k => f k | none => 0) +
      ((ks.filter (·.key != n)).map f).sum := by
  induction ks with
  | nil => simp
  | cons x xs ih =>
    have hx : x.key ∉ xs.map (·.key) ∧ (xs.map (·.key)).Nodup := List.nodup_cons.mp (by simpa only [List.map_cons] using hn)
    by_cases hk : x.key = n
    · -- x is the entry; no other entry has key n
      have hnone : xs.filter (·.key != n) = xs := by
        apply List.filter_eq_self.mpr
        intro y hy
        have : y.key ≠ n := by
          intro e; apply hx.1; rw [hk, ← e]; exact List.mem_map.mpr ⟨y, hy, rfl⟩
        simpa using this
      simp [List.find?, hk, hnone]
    · have hk' : (x.key == n) = false := by simpa using hk
      have hk2 : (x.key != n) = true := by simpa using hk
      simp only [List.find?, hk', List.filter, hk2, List.map_cons, List.sum_cons]
      rw [ih hx.2]; omega

theorem KN_setKey {db : DB} (h : KN db) (k : Key) : KN (db.setKey k) := by
  unfold KN DB.setKey at *
  simp only []
  have hf : ((db.keys.filter (·.key != k.key)).map (·.key)).Nodup := by
    have : (db.keys.filter (·.key != k.key)).map (·.key) = (db.keys.map (·.key)).filter (· != k.key) := by
      rw [List.filter_map]; rfl
    rw [this]; exact List.Nodup.sublist List.filter_sublist h
  split
  · exact hf
  · rw [List.map_append]
    apply List.nodup_append.mpr
    refine ⟨hf, by simp, ?_⟩
    intro a ha b hb
    simp at hb
    rw [hb]
    obtain ⟨y, hy, e⟩ := List.mem_map.mp ha
    have := (List.mem_filter.mp hy).2
    rw [← e]; simpa using this

/-- census after storing a key: old total − old entry + new entry (an empty key contributes nothing either way) -/
theorem totL_setKey {db : DB} (h : KN db) (k : Key) :
    totL (db.setKey k).keys = totL db.keys - (db.getKey k.key).locked + k.locked := by
  have hs := tot_split (fun k => (k.locked : Int)) db.keys k.key h
  unfold totL at *
  unfold DB.setKey DB.getKey
  simp only []
  cases hf : db.keys.find? (·.key == k.key) with
  | none =>
    rw [hf] at hs; simp only [] at hs
    split
    · rename_i he
      have : k.locked = 0 := by unfold Key.isEmpty at he; simp at he; omega
      simp [emptyKey, this]; omega
    · simp [emptyKey]; omega
  | some k0 =>
    rw [hf] at hs; simp only [] at hs
    split
    · rename_i he
      have : k.locked = 0 := by unfold Key.isEmpty at he; simp at he; omega
      simp [this]; omega
    · simp; omega

theorem totW_setKey {db : DB} (h : KN db) (k : Key) :
    totW (db.setKey k).keys = totW db.keys - (db.getKey k.key).waiters.length + k.waiters.length := by
  have hs := tot_split (fun k => (k.waiters.length : Int)) db.keys k.key h
  unfold totW at *
  unfold DB.setKey DB.getKey
  simp only []
  cases hf : db.keys.find? (·.key == k.key) with
  | none =>
    rw [hf] at hs; simp only [] at hs
    split
    · rename_i he
      have : k.waiters = [] := by unfold Key.isEmpty at he; simp at he; exact he.1.1.2
      simp [emptyKey, this]; omega
    · simp [emptyKey]; omega
  | some k0 =>
    rw [hf] at hs; simp only [] at hs
    split
    · rename_i he
      have : k.waiters = [] := by unfold Key.isEmpty at he; simp at he; exact he.1.1.2
      simp [this]; omega
    · simp; omega

/-- STATE counters equal the census -/
structure CInv (db : DB) : Prop where
  kn : KN db
  locked : db.ctr.lockedCount = totL db.keys
  wait : db.ctr.waitCount = totW db.keys

/-- "in flight": the key `k` (id `n`) has been taken out of `db`, modified together with the counters, not yet stored -/
structure Flight (db : DB) (k : Key) (n : Nat) : Prop where
  kn : KN db
  key : k.key = n
  locked : db.ctr.lockedCount - k.locked = totL db.keys - (db.getKey n).locked
  wait : db.ctr.waitCount - k.waiters.length = totW db.keys - (db.getKey n).waiters.length

theorem Flight.start {db : DB} (h : CInv db) (n : Nat) : Flight db (db.getKey n) n :=
  ⟨h.kn, getKey_key db n, by rw [h.locked], by rw [h.wait]⟩

theorem Flight.close {db : DB} {k : Key} {n : Nat} (h : Flight db k n) : CInv (db.setKey k) := by
  refine ⟨KN_setKey h.kn k, ?_, ?_⟩
  · have := totL_setKey h.kn k
    rw [h.key] at this
    have e := h.locked
    show db.ctr.lockedCount = _
    rw [this]; omega
  · have := totW_setKey h.kn k
    rw [h.key] at this
    have e := h.wait
    show db.ctr.waitCount = _
    rw [this]; omega

end Slock.Engine

namespace Slock.Engine

theorem KN.of_keys_eq {db db' : DB} (h : KN db) (e : db'.keys = db.keys) : KN db' := by unfold KN at *; rw [e]; exact h

theorem getKey_of_keys_eq {db db' : DB} (e : db'.keys = db.keys) (n : Nat) : db'.getKey n = db.getKey n := by
  unfold DB.getKey; rw [e]

/-- generic transport of `Flight` along a step that keeps `keys` and moves counters and key consistently -/
theorem Flight.step {db db' : DB} {k k' : Key} {n : Nat} (h : Flight db k n) (e : db'.keys = db.keys) (ek : k'.key = k.key)
    (hl : db'.ctr.lockedCount - k'.locked = db.ctr.lockedCount - k.locked)
    (hw : db'.ctr.waitCount - k'.waiters.length = db.ctr.waitCount - k.waiters.length) : Flight db' k' n := by
  refine ⟨h.kn.of_keys_eq e, by rw [ek]; exact h.key, ?_, ?_⟩
  · rw [hl, e, getKey_of_keys_eq e]; exact h.locked
  · rw [hw, e, getKey_of_keys_eq e]; exact h.wait

theorem updateHold_ctr (db : DB) (h : Hold) (c : Cmd) : (updateHold db h c).1.ctr = db.ctr := by
  unfold updateHold
  split
  · rfl
  · simp only []
    split
    · split <;> rfl
    · rfl

theorem insertWaiter_length (ws : List Waiter) (w : Waiter) : (insertWaiter ws w).length = ws.length + 1 := by
  obtain ⟨l1, l2, e1, e2, _, _⟩ := insertWaiter_split ws w
  rw [e2, e1]; simp; omega

theorem grantHold_flight (db : DB) (k : Key) (c : Cmd) (n : Nat) (h : Flight db k n) :
    Flight (grantHold db k c).1 (grantHold db k c).2 n := by
  apply h.step (grantHold_db_keys db k c) (grantHold_key db k c)
  · unfold grantHold; simp only []; omega
  · unfold grantHold; rfl

theorem wakeIter_flight {db : DB} {k : Key} {n : Nat} (h : Flight db k n) {db' : DB} {k' : Key} {r : Reply}
    (hw : wakeIter db k = some (db', k', r)) : Flight db' k' n := by
  unfold wakeIter at hw
  cases hws : k.waiters with
  | nil => simp [hws] at hw
  | cons w rest =>
    simp only [hws] at hw
    by_cases hd : doLock k w.cmd = true
    · simp only [hd, Bool.not_true, Bool.false_eq_true, if_false] at hw
      have h1 : Flight { db with ctr := { db.ctr with waitCount := db.ctr.waitCount - 1 } } { k with waiters := rest } n :=
        Flight.step h rfl rfl rfl (by simp only [hws, List.length_cons]; omega)
      by_cases he : w.cmd.expried > 0
      · simp only [he, if_true] at hw
        injection hw with hw; injection hw with e1 e2; injection e2 with e2 e3
        rw [← e1, ← e2]
        exact grantHold_flight _ _ _ _ h1
      · simp only [he, if_false] at hw
        injection hw with hw; injection hw with e1 e2; injection e2 with e2 e3
        rw [← e1, ← e2]
        exact h1.step rfl rfl rfl rfl
    · simp [hd] at hw

theorem wakePass_flight (fuel : Nat) (db : DB) (k : Key) (out : List Reply) (n : Nat) (h : Flight db k n) :
    Flight (wakePass fuel db k out).1 (wakePass fuel db k out).2.1 n := by
  induction fuel generalizing db k out with
  | zero => unfold wakePass; split <;> exact h
  | succ m ih =>
    unfold wakePass
    split
    · exact h
    · cases hw : wakeIter db k with
      | none =>
        simp only []
        split
        · exact h.step rfl rfl rfl rfl
        · exact h
      | some t =>
        obtain ⟨db', k', r⟩ := t
        simp only []
        exact ih db' k' _ (wakeIter_flight h hw)

theorem wake_flight (db : DB) (k : Key) (out : List Reply) (n : Nat) (h : Flight db k n) :
    CInv ((wake db k out).1.setKey (wake db k out).2.1) :=
  (wakePass_flight _ db k out n h).close

theorem opLock_cinv (db : DB) (c : Cmd) (hi : DBInv db) (h : CInv db) : CInv (opLock db c).1 := by
  unfold opLock
  have hf := Flight.start h c.key
  have hk := getKey_inv hi c.key
  cases hb : classifyLock db c with
  | p0a | p0b | stateError | unlockedWaitRefused | timeout => exact h
  | «show» cur | updateEqual h' | relockNoHold h' | relockRefused h' => exact h
  | update h' =>
    simp only [applyLock]
    exact wake_flight _ _ _ c.key (Flight.step hf (updateHold_db_keys _ _ _) rfl (by rw [updateHold_ctr]) (by rw [updateHold_ctr]))
  | relock h' =>
    simp only [applyLock]
    refine wake_flight _ _ _ c.key (Flight.step hf ?_ rfl ?_ ?_)
    · simp [updateHold_db_keys]
    · simp only [updateHold_ctr]; omega
    · simp only [updateHold_ctr]
  | grant =>
    simp only [applyLock]
    have hg := grantHold_flight db (db.getKey c.key) c c.key hf
    split
    · exact wake_flight _ _ _ _ hg
    · exact hg.close
  | grantNoHold =>
    simp only [applyLock]
    have hg : Flight { db with ctr := { db.ctr with lockCount := db.ctr.lockCount + 1 } } (db.getKey c.key) c.key :=
      hf.step rfl rfl rfl rfl
    split
    · exact wake_flight _ _ _ _ hg
    · exact hg.close
  | queue =>
    simp only [applyLock]
    refine Flight.close (n := c.key) (Flight.step hf rfl rfl rfl ?_)
    simp only [insertWaiter_length]
    omega

theorem removeWaiter_length {ws : List Waiter} {w : Waiter} (hm : w ∈ ws) : (removeWaiter ws w).length + 1 = ws.length := by
  induction ws with
  | nil => simp at hm
  | cons x xs ih =>
    unfold removeWaiter
    split
    · simp
    · rename_i hne
      have : w ∈ xs := by
        rcases List.mem_cons.mp hm with h1 | h1
        · exfalso; apply hne; rw [h1]; simp
        · exact h1
      simp only [List.length_cons]; have := ih this; omega

theorem findCancel_mem {ws : List Waiter} {id : Nat} {w : Waiter} (h : findCancel ws id = some w) : w ∈ ws := by
  unfold findCancel at h
  have : w ∈ ws.filter (·.cmd.lockId == id) := List.mem_of_getLast? h
  exact (List.mem_filter.mp this).1

theorem classifyUnlock_cancel_mem (db : DB) (c : Cmd) (w : Waiter) (hb : classifyUnlock db c = .cancel w) :
    w ∈ (db.getKey c.key).waiters := by
  unfold classifyUnlock at hb
  simp only [] at hb
  repeat' split at hb
  all_goals (try (simp at hb))
  all_goals (first | (subst hb; apply findCancel_mem; assumption) | skip)

theorem opUnlock_cinv (db : DB) (c : Cmd) (hi : DBInv db) (h : CInv db) : CInv (opUnlock db c).1 := by
  unfold opUnlock
  have hf := Flight.start h c.key
  have hk := getKey_inv hi c.key
  cases hb : classifyUnlock db c with
  | stateError | notLocked | unown | cancelNone => exact ⟨h.kn, h.locked, h.wait⟩
  | cancel w =>
    have hm := classifyUnlock_cancel_mem db c w hb
    simp only [applyUnlock]
    refine wake_flight _ _ _ c.key (Flight.step hf rfl rfl rfl ?_)
    have := removeWaiter_length hm
    simp only []; omega
  | dec h' c' =>
    have hm := classifyUnlock_mem db c h' (by rw [hb]; rfl)
    have hd := classifyUnlock_dec db c c' h' hb
    have hle := hk.depth_le hm
    simp only [applyUnlock]
    refine wake_flight _ _ _ c.key (Flight.step hf rfl rfl ?_ rfl)
    simp only []; omega
  | release h' c' =>
    have hm := classifyUnlock_mem db c h' (by rw [hb]; rfl)
    have hle := hk.depth_le hm
    simp only [applyUnlock]
    refine wake_flight _ _ _ c.key (Flight.step hf rfl rfl ?_ rfl)
    simp only []; omega

/-- `doTimeOut` of a live waiter -/
theorem fireTimeout_cinv (db : DB) (key : Nat) (w : Waiter) (hm : w ∈ (db.getKey key).waiters) (h : CInv db) :
    CInv (fireTimeout db key w).1 := by
  unfold fireTimeout
  refine wake_flight _ _ _ key (Flight.step (Flight.start h key) rfl rfl rfl ?_)
  have := removeWaiter_length hm
  simp only []; omega

theorem fireExpire_cinv (db : DB) (key : Nat) (hd : Hold) (hm : hd ∈ (db.getKey key).holders) (hi : DBInv db) (h : CInv db) :
    CInv (fireExpire db key hd).1 := by
  unfold fireExpire
  have hle := (getKey_inv hi key).depth_le hm
  refine wake_flight _ _ _ key (Flight.step (Flight.start h key) rfl rfl ?_ rfl)
  simp only []; omega

theorem CInv.of_keys_ctr {db db' : DB} (h : CInv db) (e : db'.keys = db.keys) (ec : db'.ctr = db.ctr) : CInv db' :=
  ⟨h.kn.of_keys_eq e, by rw [ec, e]; exact h.locked, by rw [ec, e]; exact h.wait⟩

theorem updateWaiter_cinv (db : DB) (w w' : Waiter) (h : CInv db) : CInv (updateWaiter db w w') := by
  unfold updateWaiter
  exact Flight.close (n := w.cmd.key) (Flight.step (Flight.start h w.cmd.key) rfl rfl rfl (by simp))

theorem replaceHolder_length (hs : List Hold) (h h' : Hold) : (replaceHolder hs h h').length = hs.length := by
  induction hs with
  | nil => rfl
  | cons x xs ih => unfold replaceHolder; split <;> simp [ih]

theorem updateHoldIn_cinv (db : DB) (hd hd' : Hold) (h : CInv db) : CInv (updateHoldIn db hd hd') := by
  unfold updateHoldIn
  exact Flight.close (n := hd.cmd.key) (Flight.step (Flight.start h hd.cmd.key) rfl rfl rfl rfl)

/-- both invariants together, as carried through the sweeps -/
def Both (db : DB) : Prop := DBInv db ∧ CInv db

theorem timeoutStep_both (acc : DB × List Waiter) (w : Waiter) (h : Both acc.1) : Both (timeoutStep acc w).1 := by
  unfold timeoutStep
  split
  · exact ⟨rearmWaiter_inv _ _ h.1, by unfold rearmWaiter; exact updateWaiter_cinv _ _ _ (h.2.of_keys_ctr rfl rfl)⟩
  · exact h

theorem expireStep_both (acc : DB × List Hold) (hd : Hold) (h : Both acc.1) : Both (expireStep acc hd).1 := by
  unfold expireStep
  split
  · exact ⟨rearmHold_inv _ _ h.1, by unfold rearmHold; exact updateHoldIn_cinv _ _ _ (h.2.of_keys_ctr rfl rfl)⟩
  · exact h

theorem fireTimeoutStep_both (acc : DB × List Reply) (w : Waiter) (h : Both acc.1) : Both (fireTimeoutStep acc w).1 := by
  unfold fireTimeoutStep
  split
  · rename_i w' hf
    exact ⟨fireTimeout_inv _ _ _ h.1, fireTimeout_cinv _ _ _ (List.mem_of_find?_eq_some hf) h.2⟩
  · exact h

theorem fireExpireStep_both (acc : DB × List Reply) (hd : Hold) (h : Both acc.1) : Both (fireExpireStep acc hd).1 := by
  unfold fireExpireStep
  split
  · rename_i h' hf
    have hm := List.mem_of_find?_eq_some hf
    exact ⟨fireExpire_inv _ _ _ hm h.1, fireExpire_cinv _ _ _ hm h.1 h.2⟩
  · exact h

theorem sweepTimeout_both (db : DB) (c : Nat) (h : Both db) : Both (sweepTimeout db c).1 := by
  unfold sweepTimeout timeoutPass1
  exact foldl_P Both _ fireTimeoutStep_both _ _ (foldl_P Both _ timeoutStep_both _ _ h)

theorem sweepExpire_both (db : DB) (c : Nat) (h : Both db) : Both (sweepExpire db c).1 := by
  unfold sweepExpire expirePass1
  exact foldl_P Both _ fireExpireStep_both _ _ (foldl_P Both _ expireStep_both _ _ h)

theorem opTick_both (db : DB) (h : Both db) : Both (opTick db).1 := by
  unfold opTick
  simp only []
  apply sweepExpire_both
  have h1 : Both { db with now := db.now + 1, tCheck := db.now + 1 + 1 } := ⟨h.1.of_keys_eq rfl, h.2.of_keys_ctr rfl rfl⟩
  have h2 := sweepTimeout_both _ (db.now + 1) h1
  exact ⟨h2.1.of_keys_eq rfl, h2.2.of_keys_ctr rfl rfl⟩

end Slock.Engine
