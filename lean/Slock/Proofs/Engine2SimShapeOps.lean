import Slock.Proofs.Engine2SimEnqInv
/-! Simulation stage 2 → stage 1: `KI` + queue shape `QS` through LOCK (and the live raw head `HL` at its end). -/
namespace Slock.Sim
open Slock Slock.Engine2
open Slock.Engine (has)

/-- `KI` and the queue shape of the working state -/
structure W3 (w : W) : Prop where
  wi : WI w
  qs : QS w.k

namespace W3
theorem ik {w w' : W} (h : W3 w) (d : IK w w') : W3 w' := ⟨h.wi.ik d, h.qs.ik d⟩
theorem removeIfZero {w : W} (h : W3 w) : W3 w.removeIfZero := ⟨h.wi.removeIfZero, h.qs.removeIfZero⟩
theorem freeCheck {w : W} (h : W3 w) (rid : Nat) : W3 (w.freeCheck rid) := ⟨h.wi.freeCheck rid, h.qs.freeCheck rid⟩
theorem unrefCheck {w : W} (h : W3 w) (rid : Nat) : W3 (w.unrefCheck rid) := ⟨h.wi.unrefCheck rid, h.qs.unrefCheck rid⟩
theorem dropT {w : W} (h : W3 w) (rid : Nat) : W3 (w.dropT rid) := ⟨h.wi.dropT rid, h.qs.dropT rid⟩
theorem dropE {w : W} (h : W3 w) (rid : Nat) : W3 (w.dropE rid) := ⟨h.wi.dropE rid, h.qs.dropE rid⟩
theorem dropLongE {w : W} (h : W3 w) (rid : Nat) : W3 (w.dropLongE rid) := ⟨h.wi.dropLongE rid, h.qs.dropLongE rid⟩
theorem newLock {w : W} (h : W3 w) (l : Lv w zero) (c : Engine.Cmd) (d : Option Bytes) : W3 (w.newLock c d).1 := ⟨h.wi.newLock l c d, h.qs.newLock l c d⟩
theorem grant {w : W} (h : W3 w) (rid : Nat) (g : Grantable w.k rid) (hnot : rid ∉ w.k.current.toList ++ w.k.locks)
    (hnt : rid ∉ w.k.wait.tail.map (·.rid)) : W3 (w.grant rid) := ⟨h.wi.grant rid g hnot, h.qs.grant rid g hnt⟩
theorem updateLocked {w : W} (h : W3 w) (rid : Nat) (c : Engine.Cmd) (hh : w.k.hasRec rid) (hnw : rid ∉ w.k.wait.map (·.rid)) : W3 (w.updateLocked rid c) :=
  ⟨h.wi.updateLocked rid c hh, h.qs.updateLocked rid c hnw⟩
theorem removeLock {w : W} (h : W3 w) (rid : Nat) : W3 (w.modK (·.removeLock rid)) := ⟨KI.removeLock h.wi rid, h.qs.removeLock rid⟩
theorem settleWait {w : W} (h : W3 w) : W3 (w.modK (·.settleWait)) := ⟨KI.settleWait h.wi, h.qs.settleWait⟩
theorem rearmE {w : W} (h : W3 w) (rid : Nat) (f : Rec → Rec) (hf : ∀ r, (f r).rid = r.rid)
    (hp : ∀ r, (f r).conn = r.conn ∧ (f r).cmd = r.cmd ∧ (f r).depth = r.depth ∧ (f r).hid = r.hid ∧ (f r).timeouted = r.timeouted) :
    W3 ((w.modR rid f).addExpried rid) := ⟨h.wi.rearmE rid f hf hp, h.qs.rearmE rid f hf (fun r => (hp r).2.1)⟩
/-- the wake pass at the end of a branch; afterwards the raw head of the queue is live -/
theorem wake_t {w : W} (h : W3 w) (t : Tight w) (gw : GW w) : W3 w.wake ∧ HL w.wake.k :=
  ⟨⟨h.wi.wake_t t gw, h.qs.wake h.wi t.good gw⟩, hl_wake h.qs (fun hg => ⟨t.good hg, t.cur hg⟩) gw⟩
end W3

/-- the raw head is live, the rest of the queue is not in the holder queue: nothing held is queued -/
theorem holder_not_waiting {seq : Nat} {k : Key} (ki : KI seq k) (qs : QS k) (hl : HL k) (h : Nat) (hm : h ∈ k.current.toList ++ k.locks) :
    h ∉ k.wait.map (·.rid) := by
  intro hw
  obtain ⟨e, he, her⟩ := List.mem_map.mp hw
  cases hk : k.wait with
  | nil => rw [hk] at he; simp at he
  | cons e0 rest =>
    rw [hk] at he
    rcases List.mem_cons.mp he with h1 | h1
    · have hlive := hl e0 rest hk
      have := ki.ht h hm
      rw [← her, h1] at this
      unfold Key.deadWaiter at hlive
      rw [this] at hlive; exact absurd hlive (by simp)
    · exact qs.dj e (by rw [hk]; exact h1) (her ▸ hm)

/-- the raw head stays live under a step that keeps the queue and the tombstone flags (records of queue entries exist afterwards) -/
theorem HL.of_pk {k k' : Key} (h : HL k) (hw : k'.wait = k.wait) (p : PKeep (·.timeouted) k' k) (hrec : ∀ e ∈ k'.wait, k'.hasRec e.rid) : HL k' := by
  intro e rest he
  have := h e rest (hw ▸ he)
  unfold Key.deadWaiter at this ⊢
  rw [p.val e.rid (hrec e (by rw [he]; simp))]; exact this

theorem pkT_of_πI {k k' : Key} (p : PKeep πI k' k) : PKeep (·.timeouted) k' k := ⟨p.sub, fun y hy => congrArg (fun t => t.2.2.2.2.2.2) (p.val y hy)⟩

theorem addTimeOut_live (w : W) (rid : Nat) (hh : w.k.hasRec rid) : ((w.addTimeOut rid).k.getR rid).timeouted = false := by
  show ((w.k.modRec rid (Rec.armT (Engine.wheelAdd w.db.tCheck w.db.seq (w.k.getR rid).timeoutT (w.k.getR rid).tChecked))).getR rid).timeouted = false
  rw [getR_modRec_same w.k rid (Rec.armT (Engine.wheelAdd w.db.tCheck w.db.seq (w.k.getR rid).timeoutT (w.k.getR rid).tChecked)) (fun _ => rfl) hh]
  rfl

theorem addTimeOut_other (w : W) (rid y : Nat) (hne : y ≠ rid) : (w.addTimeOut rid).k.getR y = w.k.getR y :=
  getR_modRec_other _ _ _ _ (fun _ => rfl) hne

theorem addTimeOut_hasRec (w : W) (rid y : Nat) : (w.addTimeOut rid).k.hasRec y ↔ w.k.hasRec y :=
  hasRec_modRec w.k rid y (Rec.armT (Engine.wheelAdd w.db.tCheck w.db.seq (w.k.getR rid).timeoutT (w.k.getR rid).tChecked)) (fun _ => rfl)

theorem ref_timeouted (w : W) (rid y : Nat) : ((w.ref rid).k.getR y).timeouted = (w.k.getR y).timeouted :=
  getR_modRec_proj (·.timeouted) w.k rid y _ (fun _ => rfl) (fun _ => rfl)

theorem hl_ik {w w' : W} (h : HL w.k) (d : IK w w') (hrec : ∀ e ∈ w'.k.wait, w'.k.hasRec e.rid) : HL w'.k :=
  h.of_pk (queues_eq d.q).2.2 (pkT_of_πI d.p) hrec

theorem applyLock_w3 (s : DB) (hdbi : DBI s) (ht : ∀ k ∈ s.keys, KeyTight k) (c : Engine.Cmd) (hk : KI s.seq (s.getKey c.key)) (hqs : QS (s.getKey c.key))
    (hhl : HL (s.getKey c.key)) (data : Option Bytes) (b : LockBranch)
    (hb : ∀ h, b.holderOf = some h → h ∈ (s.getKey c.key).current.toList ++ (s.getKey c.key).locks)
    (hrel : ∀ h, b = .relock h → 0 < ((s.getKey c.key).getR h).depth)
    (huwr : b = .unlockedWaitRefused → (s.getKey c.key).waited = true)
    (hupd : ∀ h, b = .update h → 0 < ((s.getKey c.key).getR h).depth) :
    W3 (applyLock s c data b) ∧ ((applyLock s c data b).gone = false → HL (applyLock s c data b).k) := by
  have he : W3 (s.enter c.key) := ⟨WI.enter s c.key hk, by rw [enter_k]; exact hqs⟩
  have hle : HL (s.enter c.key).k := by rw [enter_k]; exact hhl
  have ho : W3 (s.openKey c.key) := ⟨WI.openKey s c.key hk, hqs⟩
  have ge := Good.enter hdbi ht c.key
  have le := ge.lv
  have tf := applyLock_tight s hdbi ht c data b hb hrel huwr hupd
  have hrecF : (applyLock s c data b).gone = false → ∀ e ∈ (applyLock s c data b).k.wait, (applyLock s c data b).k.hasRec e.rid :=
    fun hg => wait_hasRec (tf.good hg).lv
  have hold : ∀ h, b.holderOf = some h → (s.enter c.key).k.hasRec h := by
    intro h hh
    apply hasRec_of_holder le
    rw [enter_k]; exact hb h hh
  -- a branch that is an `IK` chain from the entered (or opened) state
  have quietE : ∀ (d : IK (s.enter c.key) (applyLock s c data b)), W3 (applyLock s c data b) ∧ ((applyLock s c data b).gone = false → HL (applyLock s c data b).k) :=
    fun d => ⟨he.ik d, fun hg => hl_ik hle d (hrecF hg)⟩
  have quietO : ∀ (d : IK (s.openKey c.key) (applyLock s c data b)), W3 (applyLock s c data b) ∧ ((applyLock s c data b).gone = false → HL (applyLock s c data b).k) :=
    fun d => ⟨ho.ik d, fun hg => hl_ik hhl d (hrecF hg)⟩
  cases b with
  | p0a => exact quietO (IK.reply _ _ _ _ _)
  | p0b => exact quietO (IK.of_k rfl (Nat.le_refl _))
  | stateError =>
    refine ⟨he.removeIfZero.ik (IK.reply _ _ _ _ _), fun hg => ?_⟩
    have hg' : (s.enter c.key).removeIfZero.gone = false := hg
    rcases removeIfZero_cases (s.enter c.key) with e | ⟨e1, _⟩
    · show HL (s.enter c.key).removeIfZero.k
      rw [e]; exact hle
    · rw [e1] at hg'; exact absurd hg' (by simp)
  | «show» cur => exact quietE (IK.reply _ _ _ _ _)
  | updateEqual h => exact quietE (IK.reply _ _ _ _ _)
  | relockNoHold h => exact quietE (IK.reply _ _ _ _ _)
  | relockRefused h => exact quietE (IK.reply _ _ _ _ _)
  | unlockedWaitRefused => exact quietE (IK.reply _ _ _ _ _)
  | updateEqualData h => exact quietE ((IK.procData _ _ _ _ _).trans (IK.reply _ _ _ _ _))
  | update h =>
    simp only [applyLock]
    have hh := hold h rfl
    have hnw : h ∉ (s.enter c.key).k.wait.map (·.rid) := holder_not_waiting he.wi he.qs hle h (by rw [enter_k]; exact hb h rfl)
    have tx := (update_tight_pre s hdbi ht c data h hh (hupd h rfl)).reply (lockCmdOf (s.enter c.key).k c (.update h)) Engine.RESULT_LOCKED_ERROR (((((s.enter c.key).procData .lock (lockCmdOf (s.enter c.key).k c (.update h)) (frameOf (lockCmdOf (s.enter c.key).k c (.update h)) data) h).updateLocked h (lockCmdOf (s.enter c.key).k c (.update h))).when (!has (lockCmdOf (s.enter c.key).k c (.update h)).flag Slock.Engine.F_FROM_AOF) (·.journalLock h AOF_UPDATED)).k.getR h).depth (s.enter c.key).lockData
    have hh1 := (keep_procData (s.enter c.key) .lock (lockCmdOf (s.enter c.key).k c (.update h)) (frameOf (lockCmdOf (s.enter c.key).k c (.update h)) data) h h).1.mpr hh
    have d1 : IK (s.enter c.key) ((s.enter c.key).procData .lock (lockCmdOf (s.enter c.key).k c (.update h)) (frameOf (lockCmdOf (s.enter c.key).k c (.update h)) data) h) := IK.procData _ _ _ _ _
    have hnw1 : h ∉ ((s.enter c.key).procData .lock (lockCmdOf (s.enter c.key).k c (.update h)) (frameOf (lockCmdOf (s.enter c.key).k c (.update h)) data) h).k.wait.map (·.rid) := by rw [(queues_eq d1.q).2.2]; exact hnw
    have h3 := (((he.ik d1).updateLocked h (lockCmdOf (s.enter c.key).k c (.update h)) hh1 hnw1).ik
      (IK.when _ (!has (lockCmdOf (s.enter c.key).k c (.update h)).flag Slock.Engine.F_FROM_AOF) (·.journalLock h AOF_UPDATED) (IK.journalLock _ _ _))).ik
      (IK.reply _ (lockCmdOf (s.enter c.key).k c (.update h)) Engine.RESULT_LOCKED_ERROR (((((s.enter c.key).procData .lock (lockCmdOf (s.enter c.key).k c (.update h)) (frameOf (lockCmdOf (s.enter c.key).k c (.update h)) data) h).updateLocked h (lockCmdOf (s.enter c.key).k c (.update h))).when (!has (lockCmdOf (s.enter c.key).k c (.update h)).flag Slock.Engine.F_FROM_AOF) (·.journalLock h AOF_UPDATED)).k.getR h).depth (s.enter c.key).lockData)
    have hg3 : ((((s.enter c.key).procData .lock (lockCmdOf (s.enter c.key).k c (.update h)) (frameOf (lockCmdOf (s.enter c.key).k c (.update h)) data) h).updateLocked h (lockCmdOf (s.enter c.key).k c (.update h))).when (!has (lockCmdOf (s.enter c.key).k c (.update h)).flag Slock.Engine.F_FROM_AOF) (·.journalLock h AOF_UPDATED)).gone = false := by
      rw [gone_when _ _ _ (fun x => by unfold W.journalLock; exact gone_when _ _ _ (fun y => gone_pushLockAof y _ _)), gone_updateLocked, gone_procData]
      exact enter_gone s c.key
    obtain ⟨r1, r2⟩ := h3.wake_t tx (GW.of_live hg3)
    exact ⟨r1, fun _ => r2⟩
  | relock h =>
    simp only [applyLock]
    have hh := hold h rfl
    have hd : 0 < ((s.enter c.key).k.getR h).depth := by rw [enter_k]; exact hrel h rfl
    have hnw : h ∉ (s.enter c.key).k.wait.map (·.rid) := holder_not_waiting he.wi he.qs hle h (by rw [enter_k]; exact hb h rfl)
    have tx := ((relock_tight_pre s hdbi ht c data h hh (hrel h rfl)).ctr (fun x => { x with lockCount := x.lockCount + 1, lockedCount := x.lockedCount + 1 }))
    have h1 : W3 ((s.enter c.key).modR h (fun r => { r with depth := r.depth + 1 })) :=
      ⟨he.wi.modR1 h _ (fun _ => rfl) (fun x => x) (fun x => x) (fun _ => ⟨hd, rfl⟩) (fun x => x), he.qs.modR1 h _ (fun _ => rfl) (fun _ => rfl)⟩
    have h2 : W3 (((s.enter c.key).modR h (fun r => { r with depth := r.depth + 1 })).modK incLocked) := h1.ik (IK.modK _ _ rfl rfl rfl rfl)
    have hh1 : ((((s.enter c.key).modR h (fun r => { r with depth := r.depth + 1 })).modK incLocked).procData .lock c (frameOf c data) h).k.hasRec h :=
      (keep_procData _ .lock c (frameOf c data) h h).1.mpr ((hasRec_modR _ h h (fun r => { r with depth := r.depth + 1 }) (by intro _; rfl)).mpr hh)
    have hnw1 : h ∉ ((((s.enter c.key).modR h (fun r => { r with depth := r.depth + 1 })).modK incLocked).procData .lock c (frameOf c data) h).k.wait.map (·.rid) := by
      rw [(queues_eq (IK.procData (((s.enter c.key).modR h (fun r => { r with depth := r.depth + 1 })).modK incLocked) .lock c (frameOf c data) h).q).2.2]; exact hnw
    have h5 := ((((h2.ik (IK.procData _ .lock c (frameOf c data) h)).updateLocked h c hh1 hnw1).ik (IK.journalLock _ h AOF_UPDATED)).ik (IK.ctr _ (fun x => { x with lockCount := x.lockCount + 1, lockedCount := x.lockedCount + 1 })))
    have hg5 : (((((((s.enter c.key).modR h (fun r => { r with depth := r.depth + 1 })).modK incLocked).procData .lock c (frameOf c data) h).updateLocked h c).journalLock h AOF_UPDATED).ctr (fun x => { x with lockCount := x.lockCount + 1, lockedCount := x.lockedCount + 1 })).gone = false := by
      show ((((((s.enter c.key).modR h (fun r => { r with depth := r.depth + 1 })).modK incLocked).procData .lock c (frameOf c data) h).updateLocked h c).journalLock h AOF_UPDATED).gone = false
      unfold W.journalLock
      rw [gone_when _ _ _ (fun y => gone_pushLockAof y _ _), gone_updateLocked, gone_procData]
      exact enter_gone s c.key
    obtain ⟨r1, r2⟩ := (h5.ik (IK.reply _ _ _ _ _)).wake_t (tx.reply _ _ _ _) (GW.of_live hg5)
    exact ⟨r1, fun _ => r2⟩
  | grant =>
    simp only [applyLock]
    obtain ⟨ln, hn, _, hq0, _, hg⟩ := le.newLock zero_nonneg c data
    have g := newRec_grantable (s.enter c.key) c data hn hg
    have n0 : Nz ((s.enter c.key).newLock c data).1 (some (s.enter c.key).db.nextRid) := ⟨⟨ln.rc.nodup⟩, nz_addRec ge.nz.nz _⟩
    obtain ⟨l1, hh1⟩ := ln.grant zero_nonneg _ g
    have g1 : Good (((s.enter c.key).newLock c data).1.grant (s.enter c.key).db.nextRid) := ⟨l1, n0.grant _ hn⟩
    have ce := cur_enter ht c.key
    have cn0 : CurLive ((s.enter c.key).newLock c data).1.k := ce.addRec _ (hasRec_current le)
    have cl1 := cur_grant cn0 ln _ g
    have hnot : (s.enter c.key).db.nextRid ∉ ((s.enter c.key).newLock c data).1.k.current.toList ++ ((s.enter c.key).newLock c data).1.k.locks := by
      intro hm
      have := qRefs_pos_of_holder _ _ hm
      omega
    have hnt : (s.enter c.key).db.nextRid ∉ ((s.enter c.key).newLock c data).1.k.wait.tail.map (·.rid) := by
      intro hm
      have hm' : (s.enter c.key).db.nextRid ∈ ((s.enter c.key).newLock c data).1.k.wait.map (·.rid) := (List.Sublist.map _ (List.tail_sublist _)).subset hm
      have := qRefs_pos_of_wait_mem _ _ hm'
      omega
    have h1 := (he.newLock le c data).grant (s.enter c.key).db.nextRid g hnot hnt
    have hg1 : (((s.enter c.key).newLock c data).1.grant (s.enter c.key).db.nextRid).gone = false := by rw [gone_grant]; exact enter_gone s c.key
    unfold W.when
    split
    · obtain ⟨r1, r2⟩ := h1.wake_t (Tight.of_good g1 (recs_ne_of_hasRec hh1) cl1) (GW.of_live hg1)
      exact ⟨r1, fun _ => r2⟩
    · rename_i hwd
      refine ⟨h1, fun _ => HL.of_nil ?_⟩
      have hw0 : (s.enter c.key).k.waited = false := by simpa using hwd
      have : (((s.enter c.key).newLock c data).1.grant (s.enter c.key).db.nextRid).k.waited = false := (grant_wd ((s.enter c.key).newLock c data).1 (s.enter c.key).db.nextRid).1.trans hw0
      exact h1.qs.emp this
  | grantNoHold =>
    simp only [applyLock]
    obtain ⟨ln, hn, _, hq0, _, hg⟩ := le.newLock zero_nonneg c data
    have n0 : Nz ((s.enter c.key).newLock c data).1 (some (s.enter c.key).db.nextRid) := ⟨⟨ln.rc.nodup⟩, nz_addRec ge.nz.nz _⟩
    have l1 := ln.grantNoHold (s.enter c.key).db.nextRid
    have n1 := n0.of_up (up_grantNoHold ((s.enter c.key).newLock c data).1 (s.enter c.key).db.nextRid)
    have ce := cur_enter ht c.key
    have cn : CurLive ((s.enter c.key).newLock c data).1.k := ce.addRec _ (hasRec_current le)
    have t2 := good_freeCheck_clear l1 n1 (by rw [qRefs_of_queues (queues_grantNoHold _ _), hq0]; simp [zero]) (cn.of_dk (dk_grantNoHold _ _) l1)
    have t3 := (t2.ctr (fun x => { x with lockCount := x.lockCount + 1 })).reply c Slock.Engine.RESULT_SUCCED 0 (s.enter c.key).lockData
    have h3 := ((((he.newLock le c data).ik (IK.grantNoHold _ (s.enter c.key).db.nextRid)).freeCheck (s.enter c.key).db.nextRid).ik (IK.ctr _ (fun x => { x with lockCount := x.lockCount + 1 }))).ik
      (IK.reply _ c Slock.Engine.RESULT_SUCCED 0 (s.enter c.key).lockData)
    have gw3 : GW ((((((s.enter c.key).newLock c data).1.grantNoHold (s.enter c.key).db.nextRid).freeCheck (s.enter c.key).db.nextRid).ctr (fun x => { x with lockCount := x.lockCount + 1 })).reply c Slock.Engine.RESULT_SUCCED 0
        (s.enter c.key).lockData) :=
      (((GW.of_live (w := ((s.enter c.key).newLock c data).1.grantNoHold (s.enter c.key).db.nextRid) (by rw [gone_grantNoHold]; exact enter_gone s c.key)).freeCheck (s.enter c.key).db.nextRid).ctr _).reply _ _ _ _
    unfold W.when
    split
    · obtain ⟨r1, r2⟩ := h3.wake_t t3 gw3
      exact ⟨r1, fun _ => r2⟩
    · rename_i hwd
      refine ⟨h3, fun _ => HL.of_nil ?_⟩
      have hw0 : (s.enter c.key).k.waited = false := by simpa using hwd
      apply h3.qs.emp
      show ((((s.enter c.key).newLock c data).1.grantNoHold (s.enter c.key).db.nextRid).freeCheck (s.enter c.key).db.nextRid).k.waited = false
      unfold W.freeCheck
      have e1 : ((((s.enter c.key).newLock c data).1.grantNoHold (s.enter c.key).db.nextRid).modK (·.free (s.enter c.key).db.nextRid)).removeIfZero.k.waited = ((((s.enter c.key).newLock c data).1.grantNoHold (s.enter c.key).db.nextRid).modK (·.free (s.enter c.key).db.nextRid)).k.waited := by
        unfold W.removeIfZero; split <;> rfl
      rw [e1, (IK.free _ _).wd, (IK.grantNoHold _ _).wd]
      exact hw0
  | queue =>
    simp only [applyLock]
    obtain ⟨ln, hn, _, hq0, _, hg⟩ := le.newLock zero_nonneg c data
    have hfresh : ¬ (s.enter c.key).k.hasRec (s.enter c.key).db.nextRid := by
      rintro ⟨r, hr, e⟩
      have := le.side.fresh r hr
      omega
    have hn1 := he.newLock le c data
    have hrw : (s.enter c.key).db.nextRid ∉ ((s.enter c.key).newLock c data).1.k.wait.map (·.rid) := by
      intro hm
      have := qRefs_pos_of_wait_mem _ _ hm
      omega
    have hnh : (s.enter c.key).db.nextRid ∉ ((s.enter c.key).newLock c data).1.k.current.toList ++ ((s.enter c.key).newLock c data).1.k.locks := by
      intro hm
      have := qRefs_pos_of_holder _ _ hm
      omega
    -- the raw head is still live after the new record was added
    have hlN : HL ((s.enter c.key).newLock c data).1.k := by
      intro e rest hw
      have := hle e rest hw
      have hh : (s.enter c.key).k.hasRec e.rid := hasRec_of_liveWaiter this
      unfold Key.deadWaiter at this ⊢
      show (((s.enter c.key).k.addRec _).getR e.rid).timeouted = false
      rw [getR_addRec _ _ _ hh]; exact this
    have hwA : WI (((s.enter c.key).newLock c data).1.modK (·.addWaitLock (s.enter c.key).db.nextRid)) := KI.addWaitLock hn1.wi (s.enter c.key).db.nextRid hrw
    have hqA : QS (((s.enter c.key).newLock c data).1.modK (·.addWaitLock (s.enter c.key).db.nextRid)).k := QS.enqueue hn1.qs hlN hn1.wi (s.enter c.key).db.nextRid hnh
    obtain ⟨_, a2, a3⟩ := addWaitLock_spec ((s.enter c.key).newLock c data).1.k (s.enter c.key).db.nextRid
    have hnot : (s.enter c.key).db.nextRid ∉ (((s.enter c.key).newLock c data).1.modK (·.addWaitLock (s.enter c.key).db.nextRid)).k.current.toList ++ (((s.enter c.key).newLock c data).1.modK (·.addWaitLock (s.enter c.key).db.nextRid)).k.locks := by
      show (s.enter c.key).db.nextRid ∉ (((s.enter c.key).newLock c data).1.k.addWaitLock (s.enter c.key).db.nextRid).current.toList ++ (((s.enter c.key).newLock c data).1.k.addWaitLock (s.enter c.key).db.nextRid).locks
      rw [a2, a3]; exact hnh
    have h4 : W3 ((((((s.enter c.key).newLock c data).1.modK (·.addWaitLock (s.enter c.key).db.nextRid)).addTimeOut (s.enter c.key).db.nextRid).ref (s.enter c.key).db.nextRid).ctr (fun x => { x with waitCount := x.waitCount + 1 })) :=
      (((⟨hwA.addTimeOut (s.enter c.key).db.nextRid hnot, hqA.addTimeOut (s.enter c.key).db.nextRid⟩ : W3 ((((s.enter c.key).newLock c data).1.modK (·.addWaitLock (s.enter c.key).db.nextRid)).addTimeOut (s.enter c.key).db.nextRid)).ik (IK.ref _ _)).ik (IK.ctr _ _))
    refine ⟨h4, fun hgF => ?_⟩
    have hrec := hrecF hgF
    simp only [applyLock] at hrec
    intro x rest hw
    have hw' : (((s.enter c.key).newLock c data).1.k.addWaitLock (s.enter c.key).db.nextRid).wait = x :: rest := hw
    -- the record of `x` at the end
    have hxF : ((((((s.enter c.key).newLock c data).1.modK (·.addWaitLock (s.enter c.key).db.nextRid)).addTimeOut (s.enter c.key).db.nextRid).ref (s.enter c.key).db.nextRid).ctr (fun x => { x with waitCount := x.waitCount + 1 })).k.hasRec x.rid := hrec x (by rw [hw]; simp)
    have hxT : ((((s.enter c.key).newLock c data).1.modK (·.addWaitLock (s.enter c.key).db.nextRid)).addTimeOut (s.enter c.key).db.nextRid).k.hasRec x.rid := (hasRec_modR ((((s.enter c.key).newLock c data).1.modK (·.addWaitLock (s.enter c.key).db.nextRid)).addTimeOut (s.enter c.key).db.nextRid) (s.enter c.key).db.nextRid x.rid (fun r => { r with refCount := r.refCount + 1 }) (fun _ => rfl)).mp hxF
    have hxA : (((s.enter c.key).newLock c data).1.modK (·.addWaitLock (s.enter c.key).db.nextRid)).k.hasRec x.rid := (addTimeOut_hasRec (((s.enter c.key).newLock c data).1.modK (·.addWaitLock (s.enter c.key).db.nextRid)) (s.enter c.key).db.nextRid x.rid).mp hxT
    show (((((((s.enter c.key).newLock c data).1.modK (·.addWaitLock (s.enter c.key).db.nextRid)).addTimeOut (s.enter c.key).db.nextRid).ref (s.enter c.key).db.nextRid).k.getR x.rid).timeouted) = false
    rw [ref_timeouted]
    by_cases hxr : x.rid = (s.enter c.key).db.nextRid
    · rw [hxr] at hxA ⊢
      exact addTimeOut_live (((s.enter c.key).newLock c data).1.modK (·.addWaitLock (s.enter c.key).db.nextRid)) (s.enter c.key).db.nextRid hxA
    · rcases addWaitLock_head hn1.qs hlN (s.enter c.key).db.nextRid x rest hw' with h1 | h1
      · exact absurd h1 hxr
      · rw [addTimeOut_other _ _ _ hxr]
        have := (PKeep.addWaitLock ins_timeouted ((s.enter c.key).newLock c data).1.k (s.enter c.key).db.nextRid).val x.rid hxA
        show ((((s.enter c.key).newLock c data).1.k.addWaitLock (s.enter c.key).db.nextRid).getR x.rid).timeouted = false
        rw [this]; exact h1
  | timeout =>
    simp only [applyLock]
    refine ⟨((he.newLock le c data).freeCheck _).ik (IK.reply _ _ _ _ _), fun hg => ?_⟩
    have hfresh : ¬ (s.enter c.key).k.hasRec (s.enter c.key).db.nextRid := by
      rintro ⟨r, hr, e⟩
      have := le.side.fresh r hr
      omega
    have hg' : ((((s.enter c.key).newLock c data).1.modK (·.free (s.enter c.key).db.nextRid)).removeIfZero).gone = false := hg
    rcases removeIfZero_cases (((s.enter c.key).newLock c data).1.modK (·.free (s.enter c.key).db.nextRid)) with e | ⟨e1, _⟩
    · show HL ((((s.enter c.key).newLock c data).1.modK (·.free (s.enter c.key).db.nextRid)).removeIfZero).k
      rw [e]
      intro x rest hw
      have hw0 : (s.enter c.key).k.wait = x :: rest := by
        have : (((s.enter c.key).newLock c data).1.k.free (s.enter c.key).db.nextRid).wait = ((s.enter c.key).newLock c data).1.k.wait := (free_queues ((s.enter c.key).newLock c data).1.k (s.enter c.key).db.nextRid).2.1
        have h2 : (((s.enter c.key).newLock c data).1.k.free (s.enter c.key).db.nextRid).wait = x :: rest := hw
        rw [this] at h2; exact h2
      have hl0 := hle x rest hw0
      have hh : (s.enter c.key).k.hasRec x.rid := hasRec_of_liveWaiter hl0
      have hne : x.rid ≠ (s.enter c.key).db.nextRid := fun e' => hfresh (e' ▸ hh)
      unfold Key.deadWaiter at hl0 ⊢
      show ((((s.enter c.key).newLock c data).1.k.free (s.enter c.key).db.nextRid).getR x.rid).timeouted = false
      rw [getR_free_other _ _ _ hne]
      show (((s.enter c.key).k.addRec _).getR x.rid).timeouted = false
      rw [getR_addRec _ _ _ hh]; exact hl0
    · rw [e1] at hg'; exact absurd hg' (by simp)

theorem applyUnlock_w3 (s : DB) (hdbi : DBI s) (ht : ∀ k ∈ s.keys, KeyTight k) (c : Engine.Cmd) (hk : KI s.seq (s.getKey c.key)) (hqs : QS (s.getKey c.key))
    (hhl : HL (s.getKey c.key)) (data : Option Bytes) (b : UnlockBranch)
    (hb : ∀ h, b.holderOf = some h → h ∈ (s.getKey c.key).current.toList ++ (s.getKey c.key).locks)
    (hc : ∀ x, b = .cancel x → x ∈ (s.getKey c.key).wait.map (·.rid) ∧ (s.getKey c.key).deadWaiter x = false)
    (hdec : ∀ h c', b = .dec h c' → 1 < ((s.getKey c.key).getR h).depth)
    (hrel : ∀ h c', b = .release h c' → 0 < ((s.getKey c.key).getR h).depth) :
    W3 (applyUnlock s c data b) ∧ ((applyUnlock s c data b).gone = false → HL (applyUnlock s c data b).k) := by
  have ho : W3 (s.openKey c.key) := ⟨WI.openKey s c.key hk, hqs⟩
  have ge := Good.openKey hdbi ht c.key
  have le := ge.lv
  have ce := cur_openKey ht c.key
  have tf := applyUnlock_tight s hdbi ht c data b hb hc hdec hrel
  have hrecF : (applyUnlock s c data b).gone = false → ∀ e ∈ (applyUnlock s c data b).k.wait, (applyUnlock s c data b).k.hasRec e.rid :=
    fun hg => wait_hasRec (tf.good hg).lv
  have quietO : ∀ (d : IK (s.openKey c.key) (applyUnlock s c data b)), W3 (applyUnlock s c data b) ∧ ((applyUnlock s c data b).gone = false → HL (applyUnlock s c data b).k) :=
    fun d => ⟨ho.ik d, fun hg => hl_ik hhl d (hrecF hg)⟩
  have hlive : ∀ y, (s.openKey c.key).k.hasRec y → (s.openKey c.key).gone = false := by
    intro y hy
    cases hg : (s.openKey c.key).gone with
    | false => rfl
    | true =>
      have hkk : s.hasKey c.key = false := by simpa [DB.openKey] using hg
      have : (s.openKey c.key).k.recs = [] := by
        show (s.getKey c.key).recs = []
        rw [getKey_of_not_hasKey s c.key hkk]; rfl
      exact absurd this (recs_ne_of_hasRec hy)
  cases b with
  | noManager => exact quietO (IK.of_k rfl (Nat.le_refl _))
  | stateError => exact quietO ((IK.ctr _ _).trans (IK.reply _ _ _ _ _))
  | notLocked => exact quietO ((IK.ctr _ _).trans (IK.reply _ _ _ _ _))
  | unown => exact quietO ((IK.ctr _ _).trans (IK.reply _ _ _ _ _))
  | cancelNone => exact quietO ((IK.ctr _ _).trans (IK.reply _ _ _ _ _))
  | cancel x =>
    simp only [applyUnlock]
    obtain ⟨hm, hd⟩ := hc x rfl
    have hx : (s.openKey c.key).k.hasRec x := le.rc.dang x (by have := qRefs_pos_of_wait_mem (s.openKey c.key).k x hm; simp only [zero]; omega)
    have tx := ((((cancel_tight_pre s hdbi ht c x hm hd).ctr (fun y => { y with unLockCount := y.unLockCount + 1 }))))
    have h1 : W3 ((s.openKey c.key).modR x (fun r => { r with timeouted := true })) :=
      ⟨ho.wi.modR1 x _ (fun _ => rfl) (fun y => y) (fun y => y) (fun hd => ⟨hd, rfl⟩) (fun _ => rfl), ho.qs.modR1 x _ (fun _ => rfl) (fun _ => rfl)⟩
    have h3 := (h1.ik (IK.dropLongT _ x)).settleWait
    have h5 := ((h3.ik (IK.ctr _ (fun y => { y with waitCount := y.waitCount - 1 }))).removeIfZero).ik (IK.ctr _ (fun y => { y with unLockCount := y.unLockCount + 1 }))
    have gw5 : GW (((((((s.openKey c.key).modR x (fun r => { r with timeouted := true })).dropLongT x).modK (·.settleWait)).ctr
        (fun y => { y with waitCount := y.waitCount - 1 })).removeIfZero).ctr (fun y => { y with unLockCount := y.unLockCount + 1 })) := by
      refine GW.ctr (GW.removeIfZero (GW.of_live ?_)) _
      show (((s.openKey c.key).modR x (fun r => { r with timeouted := true })).dropLongT x).gone = false
      rw [(SC.dropLongT _ x).gone]
      exact hlive x hx
    obtain ⟨r1, r2⟩ := ((h5.ik (IK.reply _ _ _ _ _)).ik (IK.reply _ _ _ _ _)).wake_t ((tx.reply _ _ _ _).reply _ _ _ _) ((gw5.reply _ _ _ _).reply _ _ _ _)
    exact ⟨r1, fun _ => r2⟩
  | dec h c' =>
    simp only [applyUnlock]
    have hm := hb h rfl
    have hd0 := hdec h c' rfl
    have hh := hasRec_of_holder le h hm
    have tx := (dec_tight_pre s hdbi ht c data h c' hm hd0).ctr (fun y => { y with unLockCount := y.unLockCount + 1, lockedCount := y.lockedCount - 1 })
    have h1 : W3 ((s.openKey c.key).modR h (fun r => { r with depth := r.depth - 1 })) :=
      ⟨ho.wi.modR1 h _ (fun _ => rfl) (fun y => y) (fun y => y) (fun _ => ⟨by show 0 < ((s.getKey c.key).getR h).depth; omega, rfl⟩) (fun y => y),
       ho.qs.modR1 h _ (fun _ => rfl) (fun _ => rfl)⟩
    have h4 := (((h1.ik (IK.modK _ (fun k => { k with locked := k.locked - 1 }) rfl rfl rfl rfl)).ik (IK.procData _ .unlock c' (frameOf c' data) h)).ik
      (IK.journalUnlock _ h (has c'.flag Slock.Engine.F_FROM_AOF) true AOF_UPDATED)).ik
      (IK.ctr _ (fun y => { y with unLockCount := y.unLockCount + 1, lockedCount := y.lockedCount - 1 }))
    have hg4 : (((((s.openKey c.key).modR h (fun r => { r with depth := r.depth - 1 })).modK (fun k => { k with locked := k.locked - 1 })).procData .unlock c'
      (frameOf c' data) h).journalUnlock h (has c'.flag Slock.Engine.F_FROM_AOF) true AOF_UPDATED).gone = false := by
      rw [(SC.journalUnlock _ _ _ _ _).gone, gone_procData]
      exact hlive h hh
    obtain ⟨r1, r2⟩ := (h4.ik (IK.reply _ _ _ _ _)).wake_t (tx.reply _ _ _ _) (GW.of_live hg4)
    exact ⟨r1, fun _ => r2⟩
  | release h c' =>
    simp only [applyUnlock]
    have hm := hb h rfl
    have hd0 : 0 < ((s.openKey c.key).k.getR h).depth := hrel h c' rfl
    have hh := hasRec_of_holder le h hm
    have tx := (release_tight ge ce h hh hd0 c' (frameOf c' data) ((s.openKey c.key).k.getR h).depth (has c'.flag Slock.Engine.F_FROM_AOF) _ rfl _ rfl).ctr (fun y => { y with unLockCount := y.unLockCount + ((s.openKey c.key).k.getR h).depth, lockedCount := y.lockedCount - ((s.openKey c.key).k.getR h).depth })
    have h2 : W3 ((((s.openKey c.key).modR h (fun r => { r with expried := true })).modK (fun k => { k with locked := k.locked - ((s.openKey c.key).k.getR h).depth })).procData .unlock c' (frameOf c' data) h) :=
      ((ho.ik (IK.modR _ h (fun r => { r with expried := true }) (fun _ => rfl) (fun _ => rfl))).ik
        (IK.modK _ (fun k => { k with locked := k.locked - ((s.openKey c.key).k.getR h).depth }) rfl rfl rfl rfl)).ik (IK.procData _ .unlock c' (frameOf c' data) h)
    have h5 : W3 (((((((s.openKey c.key).modR h (fun r => { r with expried := true })).modK (fun k => { k with locked := k.locked - ((s.openKey c.key).k.getR h).depth })).procData .unlock c' (frameOf c' data) h).dropLongE h).journalUnlock h (has c'.flag Slock.Engine.F_FROM_AOF) false 0).modK (·.removeLock h)) := ((h2.dropLongE h).ik (IK.journalUnlock _ h (has c'.flag Slock.Engine.F_FROM_AOF) false 0)).removeLock h
    have hg5 : (((((((s.openKey c.key).modR h (fun r => { r with expried := true })).modK (fun k => { k with locked := k.locked - ((s.openKey c.key).k.getR h).depth })).procData .unlock c' (frameOf c' data) h).dropLongE h).journalUnlock h (has c'.flag Slock.Engine.F_FROM_AOF) false 0).modK (·.removeLock h)).gone = false := by
      show ((((((s.openKey c.key).modR h (fun r => { r with expried := true })).modK (fun k => { k with locked := k.locked - ((s.openKey c.key).k.getR h).depth })).procData .unlock c' (frameOf c' data) h).dropLongE h).journalUnlock h (has c'.flag Slock.Engine.F_FROM_AOF) false 0).gone = false
      rw [(SC.journalUnlock _ _ _ _ _).gone, (SC.dropLongE _ _).gone, gone_procData]
      exact hlive h hh
    have hx : W3 ((((((((s.openKey c.key).modR h (fun r => { r with expried := true })).modK (fun k => { k with locked := k.locked - ((s.openKey c.key).k.getR h).depth })).procData .unlock c' (frameOf c' data) h).dropLongE h).journalUnlock h (has c'.flag Slock.Engine.F_FROM_AOF) false 0).modK (·.removeLock h)).when ((((((s.openKey c.key).modR h (fun r => { r with expried := true })).modK (fun k => { k with locked := k.locked - ((s.openKey c.key).k.getR h).depth })).procData .unlock c' (frameOf c' data) h).k.getR h).eLong && ((((((((s.openKey c.key).modR h (fun r => { r with expried := true })).modK (fun k => { k with locked := k.locked - ((s.openKey c.key).k.getR h).depth })).procData .unlock c' (frameOf c' data) h).dropLongE h).journalUnlock h (has c'.flag Slock.Engine.F_FROM_AOF) false 0).modK (·.removeLock h)).k.getR h).refCount == 0) (·.freeCheck h)) ∧ GW ((((((((s.openKey c.key).modR h (fun r => { r with expried := true })).modK (fun k => { k with locked := k.locked - ((s.openKey c.key).k.getR h).depth })).procData .unlock c' (frameOf c' data) h).dropLongE h).journalUnlock h (has c'.flag Slock.Engine.F_FROM_AOF) false 0).modK (·.removeLock h)).when ((((((s.openKey c.key).modR h (fun r => { r with expried := true })).modK (fun k => { k with locked := k.locked - ((s.openKey c.key).k.getR h).depth })).procData .unlock c' (frameOf c' data) h).k.getR h).eLong && ((((((((s.openKey c.key).modR h (fun r => { r with expried := true })).modK (fun k => { k with locked := k.locked - ((s.openKey c.key).k.getR h).depth })).procData .unlock c' (frameOf c' data) h).dropLongE h).journalUnlock h (has c'.flag Slock.Engine.F_FROM_AOF) false 0).modK (·.removeLock h)).k.getR h).refCount == 0) (·.freeCheck h)) := by
      unfold W.when
      split
      · exact ⟨h5.freeCheck h, (GW.of_live hg5).freeCheck h⟩
      · exact ⟨h5, GW.of_live hg5⟩
    obtain ⟨r1, r2⟩ := ((hx.1.ik (IK.ctr _ (fun y => { y with unLockCount := y.unLockCount + ((s.openKey c.key).k.getR h).depth, lockedCount := y.lockedCount - ((s.openKey c.key).k.getR h).depth }))).ik (IK.reply _ _ _ _ _)).wake_t (tx.reply _ _ _ _) ((hx.2.ctr _).reply _ _ _ _)
    exact ⟨r1, fun _ => r2⟩

end Slock.Sim
