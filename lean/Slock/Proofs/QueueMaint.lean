import Slock.Proofs.QueueOps
/-! C20: maintenance operations of the segmented deque — Reset / Rellac ≙ clear, freeQueue ≙ identity. -/
namespace Slock.Queue

/-- node-table part of `QInv` (no cursors, no aliases) -/
structure TInv (q : Q) : Prop where
  lenQ : (shape q.queues).length = q.nodeSize
  lenS : q.sizes.length = q.nodeSize
  niLt : q.nodeIndex < q.nodeSize
  alloc : ∀ j, j ≤ q.nodeIndex → ∃ n, (shape q.queues)[j]? = some (some n) ∧ q.sizes[j]? = some n ∧ 0 < n ∧ n < 1073741824
  free : ∀ j, q.nodeIndex < j → j < q.nodeSize → (shape q.queues)[j]? = some none ∧ q.sizes[j]? = some 0
  base : 1 ≤ q.baseNodeSize

theorem QInv.toTInv {q : Q} (h : QInv q) : TInv q := ⟨h.lenQ, h.lenS, h.niLt, h.alloc, h.free, h.base⟩

@[simp] theorem detach_queues (q : Q) (i : Nat) : (detach q i).queues = q.queues := by
  unfold detach; split <;> (try split) <;> rfl
@[simp] theorem detach_sizes (q : Q) (i : Nat) : (detach q i).sizes = q.sizes := by
  unfold detach; split <;> (try split) <;> rfl
@[simp] theorem detach_nodeIndex (q : Q) (i : Nat) : (detach q i).nodeIndex = q.nodeIndex := by
  unfold detach; split <;> (try split) <;> rfl
@[simp] theorem detach_nodeSize (q : Q) (i : Nat) : (detach q i).nodeSize = q.nodeSize := by
  unfold detach; split <;> (try split) <;> rfl
@[simp] theorem detach_baseNodeSize (q : Q) (i : Nat) : (detach q i).baseNodeSize = q.baseNodeSize := by
  unfold detach; split <;> (try split) <;> rfl

theorem detach_eq_self (q : Q) (i : Nat) (h1 : q.headQueue ≠ .node i) (h2 : q.tailQueue ≠ .node i) : detach q i = q := by
  unfold detach; split
  · simp [h1, h2]
  · rfl

theorem freeNode_eq (q : Q) (i : Nat) (hi : i < q.queues.length) (hs : i < q.sizes.length) :
    freeNode q i = .ok { detach q i with queues := q.queues.set i none, sizes := q.sizes.set i 0 } := by
  simp [freeNode, setSlot, setSize, hi, hs]

theorem shape_set_none (L : List (Option Arr)) (j : Nat) : shape (L.set j none) = (shape L).set j none := by
  simp [shape, List.map_set]

/-- freeing the last allocated node keeps the node table consistent -/
theorem TInv_free_last {q : Q} (t : TInv q) (h1 : 1 ≤ q.nodeIndex) :
    TInv { detach q q.nodeIndex with queues := q.queues.set q.nodeIndex none, sizes := q.sizes.set q.nodeIndex 0,
                                     nodeIndex := q.nodeIndex - 1 } := by
  obtain ⟨t1, t2, t3, t4, t5, t6⟩ := t
  constructor <;> simp only [shape_set_none, List.length_set, detach_nodeSize, detach_baseNodeSize] <;> (try assumption) <;> (try omega)
  case alloc =>
    intro j hj
    obtain ⟨n, a1, a2, a3, a4⟩ := t4 j (by omega)
    refine ⟨n, ?_, ?_, a3, a4⟩
    · rw [List.getElem?_set_ne (by omega)]; exact a1
    · rw [List.getElem?_set_ne (by omega)]; exact a2
  case free =>
    intro j hj1 hj2
    by_cases e : j = q.nodeIndex
    · subst e
      constructor
      · rw [List.getElem?_set_self (by omega)]
      · rw [List.getElem?_set_self (by omega)]
    · obtain ⟨g1, g2⟩ := t5 j (by omega) hj2
      constructor
      · rw [List.getElem?_set_ne (by omega)]; exact g1
      · rw [List.getElem?_set_ne (by omega)]; exact g2

theorem dropLoop_TInv (base : Nat) (hb : 1 ≤ base) (fuel : Nat) (q : Q) (t : TInv q) :
    ∃ q', dropLoop base fuel q = .ok q' ∧ TInv q' := by
  induction fuel generalizing q with
  | zero => exact ⟨q, rfl, t⟩
  | succ fuel ih =>
    unfold dropLoop
    by_cases c : q.nodeIndex ≥ base
    · have hq : q.nodeIndex < q.queues.length := by rw [← shape_length, t.lenQ]; exact t.niLt
      have hs : q.nodeIndex < q.sizes.length := by rw [t.lenS]; exact t.niLt
      have h0 : ¬ q.nodeIndex = 0 := by omega
      simp only [c, if_true, freeNode_eq q _ hq hs, Res.ok_bind, detach_nodeIndex, h0, if_false]
      exact ih _ (TInv_free_last t (by omega))
    · simp only [c, if_false]; exact ⟨q, rfl, t⟩

/-- both cursors put back on cell 0 of node 0 of a consistent table: the invariant holds and the content is empty -/
theorem QInv_rewound {q : Q} (t : TInv q) (n0 : Nat) (h0 : q.sizes[0]? = some n0) (qs : Int) (hq1 : 0 < qs)
    (hq2 : qs < 1073741824) (r : Nat) :
    QInv { q with queueSize := qs, hni := 0, hqi := 0, headQueue := .node 0, tailQueue := .node 0, tni := 0, tqi := 0,
                  hqs := n0, tqs := n0, rellac := r } := by
  obtain ⟨t1, t2, t3, t4, t5, t6⟩ := t
  obtain ⟨n, a1, a2, a3, a4⟩ := t4 0 (by omega)
  have : n0 = n := by rw [h0] at a2; simpa using a2
  constructor <;> simp only [] <;> (try assumption) <;> (try omega)

theorem abs_rewound (L : List (Option Arr)) : absL L 0 0 0 0 = [] := by
  simp [absL, off, F]

/-- **Reset** ≙ clear: from every state satisfying the invariant, no panic, invariant re-established, content empty. -/
theorem reset_spec {q : Q} (h : QInv q) : ∃ q', reset q = .ok q' ∧ QInv q' ∧ abs q' = [] ∧ HeadClean q' := by
  obtain ⟨q1, e1, t1⟩ := dropLoop_TInv q.baseNodeSize h.base (q.nodeIndex + 1) q h.toTInv
  obtain ⟨n, _, a2, a3, a4⟩ := t1.alloc q1.nodeIndex (Nat.le_refl _)
  obtain ⟨n0, b1, b2, _, _⟩ := t1.alloc 0 (Nat.zero_le _)
  obtain ⟨a, ha, _⟩ := shape_some b1
  refine ⟨_, ?_, QInv_rewound t1 n0 b2 (n : Int) (by omega) (by omega) 0, abs_rewound _, HeadClean_origin rfl rfl⟩
  simp only [reset, e1, Res.ok_bind, size, a2, rewind, mkRef, ha, b2, Res.pure_eq]

theorem reset_refines {q : Q} (h : QInv q) : ∃ q', reset q = .ok q' ∧ QInv q' ∧ abs q' = [] := by
  obtain ⟨q', a, b, c, _⟩ := reset_spec h
  exact ⟨q', a, b, c⟩

/-- **Rellac** ≙ clear. -/
theorem rellac_spec {q : Q} (h : QInv q) : ∃ q', rellac q = .ok q' ∧ QInv q' ∧ abs q' = [] ∧ HeadClean q' := by
  unfold rellac
  by_cases c : q.rellac ≥ q.tni
  · simp only [c, if_true]
    generalize hb : (if (q.rellac : Int) + Int.tdiv ((q.nodeIndex : Int) - (q.rellac : Int)) 2 < (q.baseNodeSize : Int)
        then (q.baseNodeSize : Int) else (q.rellac : Int) + Int.tdiv ((q.nodeIndex : Int) - (q.rellac : Int)) 2) = b
    have hb1 : 1 ≤ b.toNat := by
      have := h.base
      rw [← hb]; split <;> omega
    obtain ⟨q1, e1, t1⟩ := dropLoop_TInv b.toNat hb1 (q.nodeIndex + 1) q h.toTInv
    obtain ⟨n, _, a2, a3, a4⟩ := t1.alloc q1.nodeIndex (Nat.le_refl _)
    obtain ⟨n0, b1, b2, _, _⟩ := t1.alloc 0 (Nat.zero_le _)
    obtain ⟨a, ha, _⟩ := shape_some b1
    refine ⟨_, ?_, QInv_rewound t1 n0 b2 (n : Int) (by omega) (by omega) q1.tni, abs_rewound _, HeadClean_origin rfl rfl⟩
    simp only [e1, Res.ok_bind, size, a2, rewind, mkRef, ha, b2, Res.pure_eq]
  · obtain ⟨n0, b1, b2, _, _⟩ := h.alloc 0 (Nat.zero_le _)
    obtain ⟨a, ha, _⟩ := shape_some b1
    refine ⟨_, ?_, QInv_rewound h.toTInv n0 b2 q.queueSize h.qsPos h.qsLt q.tni, abs_rewound _, HeadClean_origin rfl rfl⟩
    simp only [c, if_false, Res.ok_bind, rewind, mkRef, ha, size, b2, Res.pure_eq]

theorem rellac_refines {q : Q} (h : QInv q) : ∃ q', rellac q = .ok q' ∧ QInv q' ∧ abs q' = [] := by
  obtain ⟨q', a, b, c, _⟩ := rellac_spec h
  exact ⟨q', a, b, c⟩


/-- one iteration of `freeQueue`'s loop: the last allocated node lies behind the tail node and is freed -/
theorem QInv_free_last {q : Q} (h : QInv q) (hlt : q.tni < q.nodeIndex) :
    ∃ n : Nat, q.sizes[q.nodeIndex - 1]? = some n ∧
      QInv { q with queues := q.queues.set q.nodeIndex none, sizes := q.sizes.set q.nodeIndex 0,
                    nodeIndex := q.nodeIndex - 1, queueSize := (n : Int) } ∧
      absL (q.queues.set q.nodeIndex none) q.hni q.hqi q.tni q.tqi = abs q := by
  obtain ⟨h1, h2, h3, h4, h5, h6, h7, h8, h9, h10, h11, h12, h13, h14, h15, h16, h17⟩ := h
  obtain ⟨n, a1, a2, a3, a4⟩ := h4 (q.nodeIndex - 1) (by omega)
  refine ⟨n, a2, ?_, ?_⟩
  · constructor <;> simp only [shape_set_none, List.length_set] <;> (try omega) <;> (try assumption)
    case alloc =>
      intro j hj
      obtain ⟨m, b1, b2, b3, b4⟩ := h4 j (by omega)
      refine ⟨m, ?_, ?_, b3, b4⟩
      · rw [List.getElem?_set_ne (by omega)]; exact b1
      · rw [List.getElem?_set_ne (by omega)]; exact b2
    case free =>
      intro j hj1 hj2
      by_cases e : j = q.nodeIndex
      · subst e
        constructor
        · rw [List.getElem?_set_self (by omega)]
        · rw [List.getElem?_set_self (by omega)]
      · obtain ⟨g1, g2⟩ := h5 j (by omega) hj2
        constructor
        · rw [List.getElem?_set_ne (by omega)]; exact g1
        · rw [List.getElem?_set_ne (by omega)]; exact g2
    case hqs => rw [List.getElem?_set_ne (by omega)]; exact h10
    case tqs => rw [List.getElem?_set_ne (by omega)]; exact h11
  · obtain ⟨m, b1, b2, b3, b4⟩ := h4 q.tni h7
    obtain ⟨a, ha, hal⟩ := shape_some b1
    obtain ⟨hl, hle⟩ := getElem_of_getElem? ha
    have hm : m = q.tqs := by rw [h11] at b2; simpa using b2.symm
    unfold abs
    apply absL_congr _ _ _ _ _ _ h6 (by simp only [List.length_set]; exact hl) hl
    · rw [List.take_set_of_le (by omega)]
    · have : (q.queues.set q.nodeIndex none)[q.tni]'(by simp only [List.length_set]; exact hl) = some a := by
        rw [List.getElem_set_ne (by omega)]; exact hle
      rw [this]; simp only [nodeOf]; omega

/-- freeing a node behind the tail node does not touch the cells before the head cursor -/
theorem cleanL_free_behind {q : Q} (h : QInv q) (i : Nat) (hi : q.tni < i) (hc : HeadClean q) :
    cleanL (q.queues.set i none) q.hni q.hqi := by
  obtain ⟨p1, p2, _⟩ := h.pos
  apply cleanL_prefix _ _ (q.tni + 1) _ _ (by rw [List.take_set_of_le (by omega)]) (by have := h.hle; omega) (by omega) hc

theorem freeLoop_spec (t : Nat) (fuel : Nat) (q : Q) (h : QInv q) (ht : q.tni ≤ t) :
    ∃ q', freeLoop t fuel q = .ok q' ∧ QInv q' ∧ abs q' = abs q ∧ (HeadClean q → HeadClean q') := by
  induction fuel generalizing q with
  | zero => exact ⟨q, rfl, h, rfl, id⟩
  | succ fuel ih =>
    unfold freeLoop
    by_cases c : q.nodeIndex > t
    · have hq : q.nodeIndex < q.queues.length := by rw [h.lenQ']; exact h.niLt
      have hs : q.nodeIndex < q.sizes.length := by rw [h.lenS]; exact h.niLt
      have hd : detach q q.nodeIndex = q := by
        apply detach_eq_self
        · rw [h.hq]; intro e; injection e with e; have := h.hle; omega
        · rw [h.tq]; intro e; injection e; omega
      obtain ⟨n, e1, hq', ha'⟩ := QInv_free_last h (by omega)
      have e2 : (q.sizes.set q.nodeIndex 0)[q.nodeIndex - 1]? = some n := by
        rw [List.getElem?_set_ne (by omega)]; exact e1
      simp only [c, if_true, freeNode_eq q _ hq hs, hd, Res.ok_bind, size, e2]
      obtain ⟨q', f1, f2, f3, f4⟩ := ih _ hq' ht
      exact ⟨q', f1, f2, by rw [f3]; exact ha', fun hc => f4 (cleanL_free_behind h _ (by omega) hc)⟩
    · simp only [c, if_false]; exact ⟨q, rfl, h, rfl, id⟩

theorem freeLoop_refines (t : Nat) (fuel : Nat) (q : Q) (h : QInv q) (ht : q.tni ≤ t) :
    ∃ q', freeLoop t fuel q = .ok q' ∧ QInv q' ∧ abs q' = abs q := by
  obtain ⟨q', a, b, c, _⟩ := freeLoop_spec t fuel q h ht
  exact ⟨q', a, b, c⟩

/-- **freeQueue** ≙ identity: spare nodes behind the tail node are released, the content is untouched. -/
theorem freeQueue_spec {q : Q} (h : QInv q) :
    ∃ q', freeQueue q = .ok q' ∧ QInv q' ∧ abs q' = abs q ∧ (HeadClean q → HeadClean q') := by
  unfold freeQueue
  by_cases c : q.nodeSize ≤ q.baseNodeSize
  · simp only [c, if_true]; exact ⟨q, rfl, h, rfl, id⟩
  · simp only [c, if_false]
    apply freeLoop_spec _ _ _ h
    split <;> omega

theorem freeQueue_refines {q : Q} (h : QInv q) : ∃ q', freeQueue q = .ok q' ∧ QInv q' ∧ abs q' = abs q := by
  obtain ⟨q', a, b, c, _⟩ := freeQueue_spec h
  exact ⟨q', a, b, c⟩

end Slock.Queue
