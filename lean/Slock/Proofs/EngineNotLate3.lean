import Slock.Proofs.EngineNotLate2
/-!
C06 not-late, global (continued): the expiry sweep of second `c` leaves no live hold scheduled for `c` or earlier, and the
invariant `HN` (expiry check time = now + 1, record identities unique, wheel facts, scheduled ahead) is kept by every
operation.
-/
namespace Slock.Engine

/-- a hold created by a wake pass on key `n` -/
theorem wakeGrant_ok {d : DB} {n : Nat} {x : Hold} (he : d.eCheck = d.now + 1) (hw : KW d)
    (h : WakeGrant d (d.getKey n).waiters x) : HOKs d.now n x ∧ d.now + 1 ≤ x.sched.visit ∧ SOK d.now x := by
  obtain ⟨d', w, hc, _, hm, e⟩ := h
  have hf := clock_fields hc
  have hk : w.cmd.key = n := hw n w (waitAt_getKey hm)
  have := grantedHold_ok d' { w.cmd with conn := w.conn } (by rw [hf.2.2, hf.1]; exact he)
  rw [e, ← hf.1, ← hk]
  exact this

/-! ### the sweep of second `c` -/

/-- what is kept all through the expiry sweep of second `c` -/
structure EMid (c : Nat) (d : DB) : Prop where
  now : d.now = c
  ec : d.eCheck = c + 1
  kn : KN d
  kw : KW d
  hu : HU d
  ok : ∀ n x, HoldAt d n x → HOKs c n x

/-- every live hold is already scheduled past `c`, or is still to be processed (listed in `P`) -/
def GoodH (c : Nat) (d : DB) (P : List Hold) : Prop := ∀ n x, HoldAt d n x → c + 1 ≤ x.sched.visit ∨ x ∈ P

theorem EMid.ec' {c : Nat} {d : DB} (h : EMid c d) : d.eCheck = d.now + 1 := by rw [h.ec, h.now]

theorem rearmHold_EMid {c : Nat} {d : DB} (h0 : Hold) (hd : h0.expT > d.now) (h : EMid c d) : EMid c (rearmHold d h0) := by
  refine ⟨h.now, h.ec, ?_, h.kw.of_sub (fun _ _ hw => rearmHold_waitAt hw), rearmHold_hu d h0 h.hu, ?_⟩
  · rw [rearmHold_eq]; exact KN_updateHoldIn _ _ _ (h.kn.of_keys_eq rfl)
  · intro n x hx
    rcases rearmHold_holdAt hx with ⟨_, h1⟩ | ⟨hn, h1⟩
    · exact h.ok n x h1
    · subst hn
      rcases mem_replaceHolder h1 with h2 | h2
      · exact h.ok _ x (holdAt_getKey h2)
      · have := (rearmedH_ok d h0 h0.cmd.key h.ec' rfl hd).1
        rw [h.now] at this; rw [h2]; exact this

theorem fireExpire_EMid {c : Nat} {d : DB} (key : Nat) (h0 : Hold) (h : EMid c d) : EMid c (fireExpire d key h0).1 := by
  have hc := clock_fields (clock_fireExpire d key h0)
  refine ⟨by rw [hc.1]; exact h.now, by rw [hc.2.2]; exact h.ec, KN_fireExpire _ _ _ h.kn,
    h.kw.of_sub (fun _ _ hw => fireExpire_waitAt hw), fireExpire_hu d key h0 h.hu, ?_⟩
  intro n x hx
  rcases fireExpire_holdAt hx with ⟨_, h1⟩ | ⟨hn, h1 | h1⟩
  · exact h.ok n x h1
  · subst hn; exact h.ok _ x (holdAt_getKey (mem_removeHolder h1))
  · subst hn
    have := (wakeGrant_ok h.ec' h.kw h1).1
    rw [h.now] at this; exact this

theorem expireStep_good (c : Nat) (L : List Hold) (h0 : Hold) (rest : List Hold) (acc : DB × List Hold)
    (h1 : EMid c acc.1) (h2 : GoodH c acc.1 ((h0 :: rest) ++ acc.2 ++ L)) :
    EMid c (expireStep acc h0).1 ∧ GoodH c (expireStep acc h0).1 (rest ++ (expireStep acc h0).2 ++ L) := by
  unfold expireStep
  split
  · rename_i hd
    refine ⟨rearmHold_EMid h0 hd h1, ?_⟩
    dsimp only
    intro n x hx
    have old : HoldAt acc.1 n x → x ≠ h0 → c + 1 ≤ x.sched.visit ∨ x ∈ rest ++ acc.2 ++ L := by
      intro hx' hne
      rcases h2 n x hx' with h3 | h3
      · exact Or.inl h3
      · simp only [List.mem_append, List.mem_cons] at h3 ⊢
        rcases h3 with ((h3 | h3) | h3) | h3
        · exact absurd h3 hne
        · exact Or.inr (Or.inl (Or.inl h3))
        · exact Or.inr (Or.inl (Or.inr h3))
        · exact Or.inr (Or.inr h3)
    rcases rearmHold_holdAt hx with ⟨hn, h3⟩ | ⟨hn, h3⟩
    · apply old h3
      intro e
      apply hn
      rw [← e]; exact ((h1.ok n x h3).key).symm
    · subst hn
      rcases mem_replaceHolder_ne (nodup_of_hids (getKey_hu h1.hu _).1) h3 with ⟨h4, h5⟩ | h4
      · exact old (holdAt_getKey h4) h5
      · left
        have := (rearmedH_ok acc.1 h0 h0.cmd.key h1.ec' rfl hd).2.1
        rw [h1.now] at this; rw [h4]; exact this
  · refine ⟨h1, ?_⟩
    dsimp only
    intro n x hx
    rcases h2 n x hx with h3 | h3
    · exact Or.inl h3
    · right
      simp only [List.mem_append, List.mem_cons, List.not_mem_nil, or_false] at h3 ⊢
      rcases h3 with ((h3 | h3) | h3) | h3
      · exact Or.inl (Or.inr (Or.inr h3))
      · exact Or.inl (Or.inl h3)
      · exact Or.inl (Or.inr (Or.inl h3))
      · exact Or.inr h3

theorem expirePass1_good (c : Nat) (L : List Hold) :
    ∀ (l : List Hold) (acc : DB × List Hold), EMid c acc.1 → GoodH c acc.1 (l ++ acc.2 ++ L) →
      EMid c (l.foldl expireStep acc).1 ∧ GoodH c (l.foldl expireStep acc).1 ((l.foldl expireStep acc).2 ++ L) := by
  intro l
  induction l with
  | nil => intro acc h1 h2; exact ⟨h1, by simpa using h2⟩
  | cons w rest ih =>
    intro acc h1 h2
    simp only [List.foldl_cons]
    have := expireStep_good c L w rest acc h1 h2
    exact ih _ this.1 this.2

theorem fireExpireStep_good (c : Nat) (h0 : Hold) (rest : List Hold) (acc : DB × List Reply)
    (h1 : EMid c acc.1) (h2 : GoodH c acc.1 (h0 :: rest)) :
    EMid c (fireExpireStep acc h0).1 ∧ GoodH c (fireExpireStep acc h0).1 rest := by
  unfold fireExpireStep
  split
  · rename_i h' hf
    have hm := List.mem_of_find?_eq_some hf
    have hid : h'.hid = h0.hid := by have := List.find?_some hf; simpa using this
    have hul := getKey_hu h1.hu h0.cmd.key
    refine ⟨fireExpire_EMid _ _ h1, ?_⟩
    dsimp only
    intro n x hx
    rcases fireExpire_holdAt hx with ⟨hn, h3⟩ | ⟨hn, h3 | h3⟩
    · rcases h2 n x h3 with h4 | h4
      · exact Or.inl h4
      · rcases List.mem_cons.mp h4 with h4 | h4
        · exfalso; apply hn; rw [← h4]; exact ((h1.ok n x h3).key).symm
        · exact Or.inr h4
    · subst hn
      have hx1 := mem_removeHolder h3
      have hx2 := mem_removeHolder_ne (nodup_of_hids hul.1) h3
      rcases h2 _ x (holdAt_getKey hx1) with h4 | h4
      · exact Or.inl h4
      · rcases List.mem_cons.mp h4 with h4 | h4
        · -- the fired record is the one found by its identity, and it has been removed
          exfalso
          apply hx2
          rw [h4] at hx1 ⊢
          exact hid_inj hul.1 hx1 hm hid.symm
        · exact Or.inr h4
    · subst hn
      left
      have := (wakeGrant_ok h1.ec' h1.kw h3).2.1
      rw [h1.now] at this; exact this
  · rename_i hf
    refine ⟨h1, ?_⟩
    intro n x hx
    rcases h2 n x hx with h3 | h3
    · exact Or.inl h3
    · rcases List.mem_cons.mp h3 with h3 | h3
      · exfalso
        rw [h3] at hx
        have hk := (h1.ok n h0 hx).key
        have hm : h0 ∈ (acc.1.getKey h0.cmd.key).holders := by rw [hk]; exact hx.getKey h1.kn
        have := List.find?_eq_none.mp hf h0 hm
        simp at this
      · exact Or.inr h3

theorem expirePass2_good (c : Nat) :
    ∀ (l : List Hold) (acc : DB × List Reply), EMid c acc.1 → GoodH c acc.1 l →
      EMid c (l.foldl fireExpireStep acc).1 ∧ GoodH c (l.foldl fireExpireStep acc).1 [] := by
  intro l
  induction l with
  | nil => intro acc h1 h2; exact ⟨h1, h2⟩
  | cons w rest ih =>
    intro acc h1 h2
    simp only [List.foldl_cons]
    have := fireExpireStep_good c w rest acc h1 h2
    exact ih _ this.1 this.2

theorem HoldAt.allHolds {db : DB} {n : Nat} {x : Hold} (h : HoldAt db n x) : x ∈ allHolds db := by
  obtain ⟨k, hk, _, hx⟩ := h
  unfold Slock.Engine.allHolds
  exact List.mem_flatMap.mpr ⟨k, hk, hx⟩

/-- **The expiry sweep of second `c` leaves nothing scheduled for `c` or earlier.** -/
theorem sweepExpire_good (c : Nat) (db : DB) (h : EMid c db) (hlb : ∀ n x, HoldAt db n x → c ≤ x.sched.visit) :
    EMid c (sweepExpire db c).1 ∧ ∀ n x, HoldAt (sweepExpire db c).1 n x → c + 1 ≤ x.sched.visit := by
  unfold sweepExpire expirePass1
  simp only []
  have g0 : GoodH c db (slotHolds db c ++ ([] : List Hold) ++ longHolds db c) := by
    intro n x hx
    have h1 := hlb n x hx
    by_cases hv : x.sched.visit = c
    · right
      have hall : x ∈ allHolds db := hx.allHolds
      simp only [List.append_nil, List.mem_append]
      cases hl : x.sched.long with
      | false =>
        left; unfold slotHolds
        rw [mem_sortBySeq_iff]
        exact List.mem_filter.mpr ⟨hall, by simp [hv, hl]⟩
      | true =>
        right; unfold longHolds
        rw [mem_sortBySeq_iff]
        exact List.mem_filter.mpr ⟨hall, by simp [hv, hl]⟩
    · left; omega
  have p1 := expirePass1_good c (longHolds db c) (slotHolds db c) (db, []) h g0
  have p2 := expirePass2_good c _ (((slotHolds db c).foldl expireStep (db, [])).1, []) p1.1 p1.2
  refine ⟨p2.1, ?_⟩
  intro n x hx
  rcases p2.2 n x hx with h1 | h1
  · exact h1
  · simp at h1

/-! ### the timeout sweep of a tick

It runs while the expiry check time is still the old one (`= now` after the clock moved). Since the C04 fix `doTimeOut` ends
with a wake pass, so holds may be created here: they go on the expiry wheel relative to check time `now`, i.e. for a
second `≥ now` — the expiry sweep of this very second (which follows) still sees them. -/

/-- a hold created by a wake pass on key `n` while the expiry check time is `now` or `now + 1` -/
theorem wakeGrant_ok' {d : DB} {n : Nat} {x : Hold} (hc1 : d.now ≤ d.eCheck) (hc2 : d.eCheck ≤ d.now + 1) (hw : KW d)
    (h : WakeGrant d (d.getKey n).waiters x) : HOKs d.now n x ∧ d.eCheck ≤ x.sched.visit ∧ SOK d.now x := by
  obtain ⟨d', w, hc, _, hm, e⟩ := h
  have hf := clock_fields hc
  have hk : w.cmd.key = n := hw n w (waitAt_getKey hm)
  have := grantedHold_ok' d' { w.cmd with conn := w.conn } (by rw [hf.2.2, hf.1]; exact hc1) (by rw [hf.2.2, hf.1]; exact hc2)
  rw [e, ← hf.1, ← hf.2.2, ← hk]
  exact this

/-- what is kept all through the timeout sweep of second `c`; `N` = the key ids for which "wheel entry not after the
deadline" is tracked as well -/
structure SMid (N : Nat → Prop) (c : Nat) (d : DB) : Prop where
  now : d.now = c
  ec : d.eCheck = c
  kn : KN d
  kw : KW d
  hu : HU d
  ok : ∀ n x, HoldAt d n x → HOKs c n x
  lb : ∀ n x, HoldAt d n x → c ≤ x.sched.visit
  ns : ∀ n x, N n → HoldAt d n x → SOK c x

theorem rearmWaiter_SMid {N : Nat → Prop} {c : Nat} {d : DB} (w : Waiter) (h : SMid N c d) : SMid N c (rearmWaiter d w) :=
  ⟨h.now, h.ec, (rearmWaiter_qAt (0, 0) _ d w ⟨h.kn, rfl⟩).1, rearmWaiter_KW d w h.kw, rearmWaiter_hu d w h.hu,
    fun n x hx => h.ok n x (rearmWaiter_holdAt hx), fun n x hx => h.lb n x (rearmWaiter_holdAt hx),
    fun n x hn hx => h.ns n x hn (rearmWaiter_holdAt hx)⟩

theorem fireTimeout_SMid {N : Nat → Prop} {c : Nat} {d : DB} (key : Nat) (w : Waiter) (h : SMid N c d) :
    SMid N c (fireTimeout d key w).1 := by
  have hc := clock_fields (clock_fireTimeout d key w)
  have hg : ∀ n x, HoldAt (fireTimeout d key w).1 n x → HoldAt d n x ∨ (HOKs c n x ∧ c ≤ x.sched.visit ∧ SOK c x) := by
    intro n x hx
    rcases fireTimeout_holdAt hx with h1 | ⟨hn, h1⟩
    · exact Or.inl h1
    · subst hn
      have := wakeGrant_ok' (by rw [h.ec, h.now]; exact Nat.le_refl _) (by rw [h.ec, h.now]; exact Nat.le_succ _) h.kw h1
      rw [h.now, h.ec] at this
      exact Or.inr this
  refine ⟨by rw [hc.1]; exact h.now, by rw [hc.2.2]; exact h.ec, KN_fireTimeout _ _ _ h.kn,
    h.kw.of_sub (fun _ _ hw => fireTimeout_waitAt_sub hw), fireTimeout_hu d key w h.hu, ?_, ?_, ?_⟩
  · intro n x hx
    rcases hg n x hx with h1 | h1
    · exact h.ok n x h1
    · exact h1.1
  · intro n x hx
    rcases hg n x hx with h1 | h1
    · exact h.lb n x h1
    · exact h1.2.1
  · intro n x hn hx
    rcases hg n x hx with h1 | h1
    · exact h.ns n x hn h1
    · exact h1.2.2

theorem sweepTimeout_SMid {N : Nat → Prop} (c : Nat) (db : DB) (c' : Nat) (h : SMid N c db) : SMid N c (sweepTimeout db c').1 := by
  unfold sweepTimeout timeoutPass1
  refine foldl_P (SMid N c) _ (fun acc a ha => by
    unfold fireTimeoutStep; split; exact fireTimeout_SMid _ _ ha; exact ha) _ _ ?_
  exact foldl_P (SMid N c) _ (fun acc a ha => by unfold timeoutStep; split; exact rearmWaiter_SMid _ ha; exact ha) _ _ h

theorem sweepTimeout_KW (db : DB) (c : Nat) (h : KW db) : KW (sweepTimeout db c).1 := by
  unfold sweepTimeout timeoutPass1
  refine foldl_P KW _ (fun acc a ha => by
    unfold fireTimeoutStep; split
    · exact ha.of_sub (fun _ _ hw => fireTimeout_waitAt_sub hw)
    · exact ha) _ _ ?_
  exact foldl_P KW _ (fun acc a ha => by unfold timeoutStep; split; exact rearmWaiter_KW _ _ ha; exact ha) _ _ h

theorem sweepTimeout_hu (db : DB) (c : Nat) (h : HU db) : HU (sweepTimeout db c).1 := by
  unfold sweepTimeout timeoutPass1
  refine foldl_P HU _ (fun acc a ha => by
    unfold fireTimeoutStep; split; exact fireTimeout_hu _ _ _ ha; exact ha) _ _ ?_
  exact foldl_P HU _ (fun acc a ha => by unfold timeoutStep; split; exact rearmWaiter_hu _ _ ha; exact ha) _ _ h

/-! ### the reachable-state invariant -/

/-- expiry check time is `now + 1`; record identities are unique per key and below `seq`; every live hold sits under
its command's key, satisfies the wheel facts, and is scheduled for a second still ahead -/
structure HN (db : DB) : Prop where
  ec : db.eCheck = db.now + 1
  hu : HU db
  ok : ∀ n x, HoldAt db n x → HOKs db.now n x
  lb : ∀ n x, HoldAt db n x → db.now + 1 ≤ x.sched.visit

theorem HN.init (now : Nat) : HN (DB.init now) := by
  refine ⟨rfl, ?_, ?_, ?_⟩
  · intro k hk; simp [DB.init] at hk
  · intro n x hx; obtain ⟨k, hk, _⟩ := hx; simp [DB.init] at hk
  · intro n x hx; obtain ⟨k, hk, _⟩ := hx; simp [DB.init] at hk

theorem opLock_HN (db : DB) (c : Cmd) (hw : KW db) (h : HN db) : HN (opLock db c).1 := by
  have hc := clock_fields (clock_opLock db c)
  have key : ∀ n x, HoldAt (opLock db c).1 n x → HOKs db.now n x ∧ db.now + 1 ≤ x.sched.visit := by
    intro n x hx
    rcases opLock_holdAt db c hx with h1 | ⟨hn, h1 | h1 | ⟨h0, hb, h1⟩ | ⟨h0, hb, h1⟩⟩
    · exact ⟨h.ok n x h1, h.lb n x h1⟩
    · subst hn; rw [h1]; exact ⟨(grantedHold_ok db c h.ec).1, (grantedHold_ok db c h.ec).2.1⟩
    · subst hn; exact ⟨(wakeGrant_ok h.ec hw h1).1, (wakeGrant_ok h.ec hw h1).2.1⟩
    · subst hn
      have hm := holdAt_getKey (classifyLock_mem db c h0 (by rw [hb]; rfl))
      rw [h1]
      exact updateHold_ok db h0 _ c.key h.ec rfl (h.ok _ _ hm) (h.lb _ _ hm)
    · subst hn
      have hm := holdAt_getKey (classifyLock_mem db c h0 (by rw [hb]; rfl))
      have ho := h.ok _ _ hm
      rw [h1]
      exact updateHold_ok db { h0 with depth := h0.depth + 1 } c c.key h.ec rfl
        ⟨ho.key, ho.long, ho.short, ho.near⟩ (h.lb c.key h0 hm)
  refine ⟨by rw [hc.2.2, hc.1]; exact h.ec, opLock_hu db c h.hu, ?_, ?_⟩
  · intro n x hx; rw [hc.1]; exact (key n x hx).1
  · intro n x hx; rw [hc.1]; exact (key n x hx).2

theorem opUnlock_HN (db : DB) (c : Cmd) (hw : KW db) (h : HN db) : HN (opUnlock db c).1 := by
  have hc := clock_fields (clock_opUnlock db c)
  have key : ∀ n x, HoldAt (opUnlock db c).1 n x → HOKs db.now n x ∧ db.now + 1 ≤ x.sched.visit := by
    intro n x hx
    rcases opUnlock_holdAt db c hx with h1 | ⟨hn, h1 | ⟨h0, hm, h1⟩⟩
    · exact ⟨h.ok n x h1, h.lb n x h1⟩
    · subst hn; exact ⟨(wakeGrant_ok h.ec hw h1).1, (wakeGrant_ok h.ec hw h1).2.1⟩
    · subst hn
      have ho := h.ok _ _ (holdAt_getKey hm)
      rw [h1]
      exact ⟨⟨ho.key, ho.long, ho.short, ho.near⟩, h.lb c.key h0 (holdAt_getKey hm)⟩
  refine ⟨by rw [hc.2.2, hc.1]; exact h.ec, opUnlock_hu db c h.hu, ?_, ?_⟩
  · intro n x hx; rw [hc.1]; exact (key n x hx).1
  · intro n x hx; rw [hc.1]; exact (key n x hx).2

/-- the state between the two sweeps of a tick -/
def midTick (db : DB) : DB :=
  { (sweepTimeout { db with now := db.now + 1, tCheck := db.now + 1 + 1 } (db.now + 1)).1 with eCheck := db.now + 1 + 1 }


theorem opTick_eq (db : DB) : (opTick db).1 = (sweepExpire (midTick db) (db.now + 1)).1 := by
  unfold opTick midTick; simp only []

/-- the state in which the timeout sweep of a tick starts -/
def tick0 (db : DB) : DB := { db with now := db.now + 1, tCheck := db.now + 1 + 1 }

theorem tick0_SMid {N : Nat → Prop} (db : DB) (hk : KN db) (hw : KW db) (h : HN db)
    (hns : ∀ n x, N n → HoldAt db n x → SOK db.now x) : SMid N (db.now + 1) (tick0 db) :=
  ⟨rfl, h.ec, hk.of_keys_eq rfl, hw.of_sub (fun _ _ hx => hx.of_keys_eq rfl), h.hu.of_keys_seq rfl (Nat.le_refl _),
    fun n x hx => (h.ok n x (hx.of_keys_eq rfl)).tick, fun n x hx => h.lb n x (hx.of_keys_eq rfl),
    fun n x hn hx => (hns n x hn (hx.of_keys_eq rfl)).tick⟩

theorem midTick_SMid {N : Nat → Prop} (db : DB) (hk : KN db) (hw : KW db) (h : HN db)
    (hns : ∀ n x, N n → HoldAt db n x → SOK db.now x) :
    EMid (db.now + 1) (midTick db) ∧ (∀ n x, HoldAt (midTick db) n x → db.now + 1 ≤ x.sched.visit) ∧
      (∀ n x, N n → HoldAt (midTick db) n x → SOK (db.now + 1) x) := by
  have hs : SMid N (db.now + 1) (sweepTimeout (tick0 db) (db.now + 1)).1 :=
    sweepTimeout_SMid _ _ _ (tick0_SMid db hk hw h hns)
  have hsub : ∀ n x, HoldAt (midTick db) n x → HoldAt (sweepTimeout (tick0 db) (db.now + 1)).1 n x :=
    fun n x hx => hx.of_keys_eq rfl
  refine ⟨⟨hs.now, rfl, hs.kn.of_keys_eq rfl, hs.kw.of_sub (fun _ _ hx => hx.of_keys_eq rfl),
    hs.hu.of_keys_seq rfl (Nat.le_refl _), fun n x hx => hs.ok n x (hsub n x hx)⟩,
    fun n x hx => hs.lb n x (hsub n x hx), fun n x hn hx => hs.ns n x hn (hsub n x hx)⟩

theorem midTick_EMid (db : DB) (hk : KN db) (hw : KW db) (h : HN db) :
    EMid (db.now + 1) (midTick db) ∧ (∀ n x, HoldAt (midTick db) n x → db.now + 1 ≤ x.sched.visit) := by
  have := midTick_SMid (N := fun _ => False) db hk hw h (fun _ _ hn => hn.elim)
  exact ⟨this.1, this.2.1⟩

/-- one second of server time keeps the invariant -/
theorem opTick_HN (db : DB) (hk : KN db) (hw : KW db) (h : HN db) :
    HN (opTick db).1 ∧ KW (opTick db).1 ∧ (opTick db).1.now = db.now + 1 := by
  obtain ⟨hm, hlb⟩ := midTick_EMid db hk hw h
  have hs := sweepExpire_good (db.now + 1) (midTick db) hm hlb
  rw [opTick_eq]
  refine ⟨⟨hs.1.ec', hs.1.hu, ?_, ?_⟩, hs.1.kw, hs.1.now⟩
  · intro n x hx; rw [hs.1.now]; exact hs.1.ok n x hx
  · intro n x hx; rw [hs.1.now]; exact hs.2 n x hx

/-! ### holds whose deadline is never moved back: the wheel entry is never after the deadline -/

/-- does this LOCK move the deadline of the hold it updates / re-locks back? -/
def shortens (db : DB) (c : Cmd) : Bool :=
  match classifyLock db c with
  | .update h => decide ((updateHold db h { c with lockId := h.cmd.lockId }).2.expT < h.expT)
  | .relock h => decide ((updateHold db { h with depth := h.depth + 1 } c).2.expT < h.expT)
  | _ => false

/-- every live hold of key `n` has its wheel entry at or before its deadline -/
def NS (n : Nat) (db : DB) : Prop := ∀ x, HoldAt db n x → SOK db.now x

theorem opLock_NS (db : DB) (c : Cmd) (n : Nat) (hw : KW db) (he : db.eCheck = db.now + 1)
    (hns : c.key = n → shortens db c = false) (h : NS n db) : NS n (opLock db c).1 := by
  have hc := clock_fields (clock_opLock db c)
  intro x hx
  rw [hc.1]
  rcases opLock_holdAt db c hx with h1 | ⟨hn, h1 | h1 | ⟨h0, hb, h1⟩ | ⟨h0, hb, h1⟩⟩
  · exact h x h1
  · rw [h1]; exact (grantedHold_ok db c he).2.2
  · subst hn; exact (wakeGrant_ok he hw h1).2.2
  · subst hn
    have hm := holdAt_getKey (classifyLock_mem db c h0 (by rw [hb]; rfl))
    have hs := hns rfl
    unfold shortens at hs
    rw [hb] at hs
    simp only [decide_eq_false_iff_not, Nat.not_lt] at hs
    rw [h1]
    exact updateHold_sok db h0 _ he (h _ hm) hs
  · subst hn
    have hm := holdAt_getKey (classifyLock_mem db c h0 (by rw [hb]; rfl))
    have hs := hns rfl
    unfold shortens at hs
    rw [hb] at hs
    simp only [decide_eq_false_iff_not, Nat.not_lt] at hs
    rw [h1]
    exact updateHold_sok db { h0 with depth := h0.depth + 1 } c he (h h0 hm) hs

theorem opUnlock_NS (db : DB) (c : Cmd) (n : Nat) (hw : KW db) (he : db.eCheck = db.now + 1) (h : NS n db) :
    NS n (opUnlock db c).1 := by
  have hc := clock_fields (clock_opUnlock db c)
  intro x hx
  rw [hc.1]
  rcases opUnlock_holdAt db c hx with h1 | ⟨hn, h1 | ⟨h0, hm, h1⟩⟩
  · exact h x h1
  · subst hn; exact (wakeGrant_ok he hw h1).2.2
  · subst hn
    rw [h1]
    exact h h0 (holdAt_getKey hm)

/-- `NS` at a fixed second, carried through the expiry sweep together with `EMid` -/
def NSc (c n : Nat) (d : DB) : Prop := EMid c d ∧ ∀ x, HoldAt d n x → SOK c x

theorem expireStep_NSc (c n : Nat) (acc : DB × List Hold) (h0 : Hold) (h : NSc c n acc.1) : NSc c n (expireStep acc h0).1 := by
  unfold expireStep
  split
  · rename_i hd
    refine ⟨rearmHold_EMid h0 hd h.1, ?_⟩
    intro x hx
    rcases rearmHold_holdAt hx with ⟨_, h1⟩ | ⟨hn, h1⟩
    · exact h.2 x h1
    · rcases mem_replaceHolder h1 with h2 | h2
      · exact h.2 x (hn ▸ holdAt_getKey h2)
      · have := (rearmedH_ok acc.1 h0 h0.cmd.key h.1.ec' rfl hd).2.2
        rw [h.1.now] at this; rw [h2]; exact this
  · exact h

theorem fireExpireStep_NSc (c n : Nat) (acc : DB × List Reply) (h0 : Hold) (h : NSc c n acc.1) :
    NSc c n (fireExpireStep acc h0).1 := by
  unfold fireExpireStep
  split
  · refine ⟨fireExpire_EMid _ _ h.1, ?_⟩
    intro x hx
    rcases fireExpire_holdAt hx with ⟨_, h1⟩ | ⟨hn, h1 | h1⟩
    · exact h.2 x h1
    · exact h.2 x (hn ▸ holdAt_getKey (mem_removeHolder h1))
    · subst hn
      have := (wakeGrant_ok h.1.ec' h.1.kw h1).2.2
      rw [h.1.now] at this; exact this
  · exact h

theorem opTick_NS (db : DB) (n : Nat) (hk : KN db) (hw : KW db) (hn : HN db) (h : NS n db) : NS n (opTick db).1 := by
  obtain ⟨hm, _, hns⟩ := midTick_SMid (N := fun m => m = n) db hk hw hn (fun m x hm hx => by subst hm; exact h x hx)
  have h0 : NSc (db.now + 1) n (midTick db) := ⟨hm, fun x hx => hns n x rfl hx⟩
  have h1 : NSc (db.now + 1) n (sweepExpire (midTick db) (db.now + 1)).1 := by
    unfold sweepExpire expirePass1
    exact foldl_P (NSc (db.now + 1) n) _ (fireExpireStep_NSc _ n) _ _ (foldl_P (NSc (db.now + 1) n) _ (expireStep_NSc _ n) _ _ h0)
  intro x hx
  rw [opTick_eq] at hx ⊢
  rw [h1.1.now]
  exact h1.2 x hx

end Slock.Engine
