import Slock.Proofs.Engine2FutRun
/-! Stage-2 engine: the expiry sweep, one second of server time, and `run_fut`: in every reachable state every wheel entry is scheduled
for a second the sweeper has not passed yet. -/
namespace Slock.Engine2

theorem expireStep_fut (slot : Bool) {ct c : Nat} (db : DB) (coll : List Ent) (e : Ent) (X : List Ent) (hs : SwS ct c db)
    (hiT : Inv (·.tSched) ct db []) (hiE : Inv (·.eSched) c db (e :: X ++ coll)) :
    SwS ct c (expireStep slot (db, coll) e).1 ∧ SameClk (expireStep slot (db, coll) e).1 db ∧
    Inv (·.tSched) ct (expireStep slot (db, coll) e).1 [] ∧
    Inv (·.eSched) c (expireStep slot (db, coll) e).1 (X ++ (expireStep slot (db, coll) e).2) := by
  have hdbi := expireStep_dbi slot (db, coll) e hs.dbi
  have h0 : Ok ct c (db.openKey e.key) (db.openKey e.key) := Ok.refl hs.tc hs.ec
  unfold expireStep at hdbi ⊢
  cases hv : (db.openKey e.key).visitExpire slot e.rid with
  | some w' =>
    simp only [hv] at hdbi ⊢
    obtain ⟨ok, own⟩ := visitExpire_ok h0 slot e.rid w' hv
    obtain ⟨a, b, c1, c2, c3⟩ := stepW_fut db hs.dbi e.key w' (W.visitExpire_fr _ _ _ _ hv) (LvG.visitExpire (Lv.openKey hs.dbi e.key) slot e.rid w' hv)
      ok e rfl [] [] (e :: X ++ coll) (X ++ coll)
      (fun x hx => by simp at hx) (fun he => by simp at he)
      (fun x hx => by rcases List.mem_cons.mp hx with h | h; exact Or.inl h; exact Or.inr h)
      (fun _ _ hh => Or.inl (own hh)) hiT hiE
    exact ⟨hs.of_clk hdbi ⟨c1, c2, c3⟩, ⟨c1, c2, c3⟩, a, b⟩
  | none =>
    simp only [hv] at hdbi ⊢
    have hmem : ∀ x ∈ e :: X ++ coll, x ∈ X ++ (coll ++ [e]) := by
      intro x hx
      rcases List.mem_cons.mp hx with h | h
      · rw [h]; simp
      · rcases List.mem_append.mp h with h' | h'
        · exact List.mem_append_left _ h'
        · exact List.mem_append_right _ (List.mem_append_left _ h')
    exact ⟨hs, SameClk.refl _, hiT, hiE.mono hmem⟩

theorem fold_expire_fut (slot : Bool) {ct c : Nat} (es P : List Ent) (db : DB) (coll : List Ent) (hs : SwS ct c db)
    (hiT : Inv (·.tSched) ct db []) (hiE : Inv (·.eSched) c db (es ++ P ++ coll)) :
    SwS ct c (es.foldl (expireStep slot) (db, coll)).1 ∧ SameClk (es.foldl (expireStep slot) (db, coll)).1 db ∧
    Inv (·.tSched) ct (es.foldl (expireStep slot) (db, coll)).1 [] ∧
    Inv (·.eSched) c (es.foldl (expireStep slot) (db, coll)).1 (P ++ (es.foldl (expireStep slot) (db, coll)).2) := by
  induction es generalizing db coll with
  | nil => exact ⟨hs, SameClk.refl _, hiT, by simpa using hiE⟩
  | cons e es ih =>
    simp only [List.foldl_cons]
    have h1 := expireStep_fut slot db coll e (es ++ P) hs hiT (by simpa [List.append_assoc] using hiE)
    have h2 := ih (expireStep slot (db, coll) e).1 (expireStep slot (db, coll) e).2 h1.1 h1.2.2.1 h1.2.2.2
    exact ⟨h2.1, h2.2.1.trans h1.2.1, h2.2.2.1, h2.2.2.2⟩

theorem fireExpireStep_fut {ct c : Nat} (acc : DB × List Reply) (e : Ent) (X : List Ent) (hs : SwS ct c acc.1)
    (hiT : Inv (·.tSched) ct acc.1 []) (hiE : Inv (·.eSched) c acc.1 (e :: X)) :
    SwS ct c (fireExpireStep acc e).1 ∧ SameClk (fireExpireStep acc e).1 acc.1 ∧
    Inv (·.tSched) ct (fireExpireStep acc e).1 [] ∧ Inv (·.eSched) c (fireExpireStep acc e).1 X := by
  have hdbi := fireExpireStep_dbi acc e hs.dbi
  have h0 : Ok ct c (acc.1.openKey e.key) (acc.1.openKey e.key) := Ok.refl hs.tc hs.ec
  unfold fireExpireStep fireExpire at hdbi ⊢
  simp only [] at hdbi ⊢
  obtain ⟨ok, own⟩ := fireExpire_ok h0 e.rid
  obtain ⟨a, b, c1, c2, c3⟩ := stepW_fut acc.1 hs.dbi e.key _ (W.fireExpire_fr _ _) (LvG.fireExpire (Lv.openKey hs.dbi e.key) e.rid)
    ok e rfl [] [] (e :: X) X
    (fun x hx => by simp at hx) (fun he => by simp at he)
    (fun x hx => by rcases List.mem_cons.mp hx with h | h; exact Or.inl h; exact Or.inr h)
    (fun _ _ hh => Or.inl (own hh)) hiT hiE
  exact ⟨hs.of_clk hdbi ⟨c1, c2, c3⟩, ⟨c1, c2, c3⟩, a, b⟩

theorem fold_fireExpire_fut {ct c : Nat} (es : List Ent) (acc : DB × List Reply) (hs : SwS ct c acc.1)
    (hiT : Inv (·.tSched) ct acc.1 []) (hiE : Inv (·.eSched) c acc.1 es) :
    SwS ct c (es.foldl fireExpireStep acc).1 ∧ SameClk (es.foldl fireExpireStep acc).1 acc.1 ∧
    Inv (·.tSched) ct (es.foldl fireExpireStep acc).1 [] ∧ Inv (·.eSched) c (es.foldl fireExpireStep acc).1 [] := by
  induction es generalizing acc with
  | nil => exact ⟨hs, SameClk.refl _, hiT, hiE⟩
  | cons e es ih =>
    simp only [List.foldl_cons]
    have h1 := fireExpireStep_fut acc e es hs hiT hiE
    have h2 := ih (fireExpireStep acc e) h1.1 h1.2.2.1 h1.2.2.2
    exact ⟨h2.1, h2.2.1.trans h1.2.1, h2.2.2.1, h2.2.2.2⟩

/-- entries scheduled for second `c` or later: those for `c` are on one of the sweeper's two lists -/
theorem inv_start_t (db : DB) (c : Nat) (h : ∀ k ∈ db.keys, ∀ r ∈ k.recs, ∀ s, r.tSched = some s → c ≤ s.visit) :
    Inv (·.tSched) c db (tEntries db (fun s => s.visit == c && !s.long) ++ tEntries db (fun s => s.visit == c && s.long) ++ []) := by
  intro k hk r hr s hs
  have := h k hk r hr s hs
  by_cases hv : s.visit = c
  · right
    refine ⟨hv, ?_⟩
    cases hl : s.long with
    | false => exact List.mem_append_left _ (List.mem_append_left _ (mem_tEntries db _ k hk r hr s hs (by simp [hv, hl])))
    | true => exact List.mem_append_left _ (List.mem_append_right _ (mem_tEntries db _ k hk r hr s hs (by simp [hv, hl])))
  · left; omega

theorem inv_start_e (db : DB) (c : Nat) (h : ∀ k ∈ db.keys, ∀ r ∈ k.recs, ∀ s, r.eSched = some s → c ≤ s.visit) :
    Inv (·.eSched) c db (eEntries db (fun s => s.visit == c && !s.long) ++ eEntries db (fun s => s.visit == c && s.long) ++ []) := by
  intro k hk r hr s hs
  have := h k hk r hr s hs
  by_cases hv : s.visit = c
  · right
    refine ⟨hv, ?_⟩
    cases hl : s.long with
    | false => exact List.mem_append_left _ (List.mem_append_left _ (mem_eEntries db _ k hk r hr s hs (by simp [hv, hl])))
    | true => exact List.mem_append_left _ (List.mem_append_right _ (mem_eEntries db _ k hk r hr s hs (by simp [hv, hl])))
  · left; omega

theorem inv_ge {sel : Rec → Option Sched} {c : Nat} {db : DB} (h : Inv sel c db []) : ∀ k ∈ db.keys, ∀ r ∈ k.recs, ∀ s, sel r = some s → c + 1 ≤ s.visit := by
  intro k hk r hr s hs
  rcases h k hk r hr s hs with h1 | ⟨_, h2⟩
  · exact h1
  · simp at h2

theorem sweepTimeout_fut {ce : Nat} (db : DB) (c : Nat) (hs : SwS c ce db)
    (ht : ∀ k ∈ db.keys, ∀ r ∈ k.recs, ∀ s, r.tSched = some s → c ≤ s.visit) (hiE : Inv (·.eSched) ce db []) :
    SwS c ce (sweepTimeout db c).1 ∧ SameClk (sweepTimeout db c).1 db ∧
    Inv (·.tSched) c (sweepTimeout db c).1 [] ∧ Inv (·.eSched) ce (sweepTimeout db c).1 [] := by
  unfold sweepTimeout
  simp only []
  have h1 := fold_timeout_fut true (tEntries db (fun s => s.visit == c && !s.long)) (tEntries db (fun s => s.visit == c && s.long)) db [] hs
    (inv_start_t db c ht) hiE
  have h2 := fold_timeout_fut false (tEntries db (fun s => s.visit == c && s.long)) []
    ((tEntries db (fun s => s.visit == c && !s.long)).foldl (timeoutStep true) (db, [])).1
    ((tEntries db (fun s => s.visit == c && !s.long)).foldl (timeoutStep true) (db, [])).2 h1.1 (by simpa using h1.2.2.1) h1.2.2.2
  have h3 := fold_fireTimeout_fut
    ((tEntries db (fun s => s.visit == c && s.long)).foldl (timeoutStep false) ((tEntries db (fun s => s.visit == c && !s.long)).foldl (timeoutStep true) (db, []))).2
    (((tEntries db (fun s => s.visit == c && s.long)).foldl (timeoutStep false) ((tEntries db (fun s => s.visit == c && !s.long)).foldl (timeoutStep true) (db, []))).1, [])
    h2.1 (by simpa using h2.2.2.1) h2.2.2.2
  exact ⟨h3.1, h3.2.1.trans (h2.2.1.trans h1.2.1), h3.2.2.1, h3.2.2.2⟩

theorem sweepExpire_fut {ct : Nat} (db : DB) (c : Nat) (hs : SwS ct c db)
    (hiT : Inv (·.tSched) ct db []) (he : ∀ k ∈ db.keys, ∀ r ∈ k.recs, ∀ s, r.eSched = some s → c ≤ s.visit) :
    SwS ct c (sweepExpire db c).1 ∧ SameClk (sweepExpire db c).1 db ∧
    Inv (·.tSched) ct (sweepExpire db c).1 [] ∧ Inv (·.eSched) c (sweepExpire db c).1 [] := by
  unfold sweepExpire
  simp only []
  have h1 := fold_expire_fut true (eEntries db (fun s => s.visit == c && !s.long)) (eEntries db (fun s => s.visit == c && s.long)) db [] hs
    hiT (inv_start_e db c he)
  have h2 := fold_expire_fut false (eEntries db (fun s => s.visit == c && s.long)) []
    ((eEntries db (fun s => s.visit == c && !s.long)).foldl (expireStep true) (db, [])).1
    ((eEntries db (fun s => s.visit == c && !s.long)).foldl (expireStep true) (db, [])).2 h1.1 h1.2.2.1 (by simpa using h1.2.2.2)
  have h3 := fold_fireExpire_fut
    ((eEntries db (fun s => s.visit == c && s.long)).foldl (expireStep false) ((eEntries db (fun s => s.visit == c && !s.long)).foldl (expireStep true) (db, []))).2
    (((eEntries db (fun s => s.visit == c && s.long)).foldl (expireStep false) ((eEntries db (fun s => s.visit == c && !s.long)).foldl (expireStep true) (db, []))).1, [])
    h2.1 h2.2.2.1 (by simpa using h2.2.2.2)
  exact ⟨h3.1, h3.2.1.trans (h2.2.1.trans h1.2.1), h3.2.2.1, h3.2.2.2⟩

theorem opTick_fut (db : DB) (h : FutDB db) : FutDB (opTick db).1 := by
  have hdbi := opTick_dbi db h.dbi
  unfold opTick at hdbi ⊢
  simp only [] at hdbi ⊢
  -- the timeout sweep of second now+1: the timeout check second moves to now+2
  have s0 : SwS (db.now + 1) db.now { db with now := db.now + 1, tCheck := db.now + 1 + 1 } :=
    ⟨h.dbi.of_keys rfl rfl rfl, by show db.now + 1 < db.now + 1 + 1; omega, by show db.now < db.eCheck; rw [h.eclk]; omega⟩
  have t1 := sweepTimeout_fut (ce := db.now) { db with now := db.now + 1, tCheck := db.now + 1 + 1 } (db.now + 1) s0 (inv_ge h.t) h.e
  -- the expiry sweep: the expiry check second moves to now+2
  have s1 : SwS (db.now + 1) (db.now + 1) { (sweepTimeout { db with now := db.now + 1, tCheck := db.now + 1 + 1 } (db.now + 1)).1 with eCheck := db.now + 1 + 1 } :=
    ⟨t1.1.dbi.of_keys rfl rfl rfl, by show db.now + 1 < (sweepTimeout _ _).1.tCheck; rw [t1.2.1.t]; show db.now + 1 < db.now + 1 + 1; omega,
     by show db.now + 1 < db.now + 1 + 1; omega⟩
  have t2 := sweepExpire_fut (ct := db.now + 1)
    { (sweepTimeout { db with now := db.now + 1, tCheck := db.now + 1 + 1 } (db.now + 1)).1 with eCheck := db.now + 1 + 1 } (db.now + 1) s1
    t1.2.2.1 (inv_ge t1.2.2.2)
  have hn : (sweepExpire { (sweepTimeout { db with now := db.now + 1, tCheck := db.now + 1 + 1 } (db.now + 1)).1 with eCheck := db.now + 1 + 1 } (db.now + 1)).1.now = db.now + 1 := by
    rw [t2.2.1.n]; show (sweepTimeout _ _).1.now = _; rw [t1.2.1.n]
  refine ⟨hdbi, ?_, ?_, ?_, ?_⟩
  · rw [hn, t2.2.1.t]; show (sweepTimeout _ _).1.tCheck = _; rw [t1.2.1.t]
  · rw [hn, t2.2.1.e]
  · rw [hn]; exact t2.2.2.1
  · rw [hn]; exact t2.2.2.2

theorem FutDB.of_keys {db db' : DB} (h : FutDB db) (h1 : db'.keys = db.keys) (h2 : db'.keyCount = db.keyCount) (h3 : db'.nextRid = db.nextRid)
    (h4 : db'.now = db.now) (h5 : db'.tCheck = db.tCheck) (h6 : db'.eCheck = db.eCheck) : FutDB db' :=
  ⟨h.dbi.of_keys h1 h2 h3, by rw [h5, h4]; exact h.tclk, by rw [h6, h4]; exact h.eclk, by rw [h4]; exact h.t.of_keys h1, by rw [h4]; exact h.e.of_keys h1⟩

theorem step_fut (db : DB) (o : Op) (h : FutDB db) : FutDB (step db o).1 := by
  cases o with
  | lock c d => exact opLock_fut db h c d
  | unlock c d => exact opUnlock_fut db h c d
  | tick => exact opTick_fut db h
  | setLeader b => exact h.of_keys rfl rfl rfl rfl rfl rfl

/-- **every reachable state: every wheel entry is scheduled for a second the sweeper has not passed yet** -/
theorem run_fut (db : DB) (ops : List Op) (h : FutDB db) : FutDB (run db ops) := by
  induction ops generalizing db with
  | nil => exact h
  | cons o os ih => unfold run; simp only [List.foldl_cons]; exact ih _ (step_fut db o h)

end Slock.Engine2
