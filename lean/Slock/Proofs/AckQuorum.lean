import Slock.Proofs.AckKOps4
/-! M-ACK: which replies can be SUCCED for a require-ack request. Everything an operation emits besides its own reply is either not
SUCCED or addressed to a request without the flag (`NAS`); the only other source is the success exit of `DoAckLock(lock, true)`. -/
namespace Slock.Ack

/-- no SUCCED for a require-ack request in `out` -/
def NAS (out : List Reply) : Prop := ∀ rp ∈ out, rp.result = R_SUCCED → rp.ack = false

theorem NAS_nil : NAS [] := by intro rp h; simp at h
theorem NAS_append {a b : List Reply} (ha : NAS a) (hb : NAS b) : NAS (a ++ b) := by
  intro rp h; rcases List.mem_append.mp h with h | h; exact ha rp h; exact hb rp h
theorem NAS_mk_ne (c : Cmd) (res l lr : Nat) (d : Option Bytes) (h : res ≠ R_SUCCED) : NAS [mkReply c res l lr d] := by
  intro rp hr hs; simp at hr; subst hr; exact absurd hs h
theorem NAS_mk_nonack (c : Cmd) (res l lr : Nat) (d : Option Bytes) (h : c.ack = false) : NAS [mkReply c res l lr d] := by
  intro rp hr _; simp at hr; subst hr; exact h

theorem applyWake_nas {db : DB} (ha : InvA db) (k : Nat) : NAS (applyWake db k (classifyWake db k)).2 := by
  have hs := classifyWake_spec (k := k) ha
  cases e : classifyWake db k with
  | stop => exact NAS_nil
  | grant w =>
    unfold applyWake; simp only []
    obtain ⟨l, d, eg⟩ := grant_snd (db.ctrMod (fun x => { x with waitCount := x.waitCount - 1 })) w
    rw [eg, getR_ctrMod]; exact NAS_mk_nonack _ _ _ _ _ (hs.1 w e).2
  | ackGrant w => unfold applyWake; exact NAS_nil
  | ackFail w => unfold applyWake; simp only []; exact NAS_mk_ne _ _ _ _ _ (by decide)

theorem wakeLoop_nas (fuel : Nat) : ∀ {db : DB}, InvA db → ∀ (k : Nat) (out : List Reply), NAS out → NAS (wakeLoop fuel db k out).2 := by
  induction fuel with
  | zero => intro db _ k out h; exact h
  | succ n ih =>
    intro db ha k out h
    unfold wakeLoop
    have h1 := applyWake_nas ha k
    have h2 := ha.applyWake k
    cases e : classifyWake db k with
    | stop => simp only []; exact h
    | grant w => simp only []; rw [e] at h1 h2; exact ih h2 k _ (NAS_append h h1)
    | ackGrant w => simp only []; rw [e] at h1 h2; exact ih h2 k _ (NAS_append h h1)
    | ackFail w => simp only []; rw [e] at h1 h2; exact ih h2 k _ (NAS_append h h1)

theorem wake_nas {db : DB} (ha : InvA db) (k : Nat) (out : List Reply) (h : NAS out) : NAS (db.wake k out).2 := by
  unfold DB.wake; split; exact wakeLoop_nas _ ha k out h; exact h

theorem ackDone_false_nas {db : DB} (ha : InvA db) (hid : Nat) : NAS (ackDone db hid false).2 := by
  unfold ackDone classifyAck
  simp only []
  split
  · unfold applyAck; exact NAS_nil
  · split
    · unfold applyAck; simp only []; exact NAS_mk_ne _ _ _ _ _ (by decide)
    · simp only [Bool.false_eq_true, if_false]
      unfold applyAck; simp only []
      exact wake_nas ((ha.modR_irrel hid _ (irrel_timeouted true)).rollback hid) _ _ (NAS_mk_ne _ _ _ _ _ (by decide))

theorem fireTimeout_nas {db : DB} (ha : InvA db) (hid : Nat) : NAS (fireTimeout db hid).2 := by
  unfold fireTimeout
  simp only []
  split
  · exact wake_nas (((ha.modR_irrel hid _ (irrel_timeouted true)).rollback hid).ctrMod _) _ _ (NAS_mk_ne _ _ _ _ _ (by decide))
  · exact wake_nas (ha.dropWaiter hid) _ _ (NAS_mk_ne _ _ _ _ _ (by decide))

theorem fireExpire_nas {db : DB} (ha : InvA db) (hid : Nat) : NAS (fireExpire db hid).2 := by
  unfold fireExpire
  simp only []
  split
  · exact NAS_nil
  · have ha' : InvA (((((db.modR hid (fun r => { r with expried := true })).modKey (db.getR hid).cmd.key (fun k => { k with locked := k.locked - (db.getR hid).depth })).journalUnlock hid false).removeLock hid).ctrMod
        (fun x => { x with lockedCount := x.lockedCount - (db.getR hid).depth, expriedCount := x.expriedCount + 1 })) := by
      apply InvA.ctrMod; apply InvA.removeLock; apply InvA.journalUnlock; apply InvA.modKey
      exact ha.modR_irrel hid _ (irrel_expried true)
    exact wake_nas ha' _ _ (NAS_mk_ne _ _ _ _ _ (by decide))

theorem sweepTimeout_nas {db : DB} (ha : InvA db) (c : Nat) : NAS (sweepTimeout db c).2 := by
  unfold sweepTimeout
  simp only []
  have h1 := foldl_inv (fun acc : DB × List Nat => InvA acc.1) timeoutStep (fun b a hb => InvA.timeoutStep b a hb) (slotT db c false) (db, []) ha
  have h2 := foldl_inv (fun acc : DB × List Reply => InvA acc.1 ∧ NAS acc.2) fireTimeoutStep
    (fun b a hb => by
      unfold fireTimeoutStep
      split
      · exact hb
      · exact ⟨hb.1.fireTimeout a, NAS_append hb.2 (fireTimeout_nas hb.1 a)⟩)
    (((slotT db c false).foldl timeoutStep (db, [])).2 ++ (slotT db c true).map (·.hid)) (((slotT db c false).foldl timeoutStep (db, [])).1, []) ⟨h1, NAS_nil⟩
  exact h2.2

theorem sweepExpire_nas {db : DB} (ha : InvA db) (c : Nat) : NAS (sweepExpire db c).2 := by
  unfold sweepExpire
  simp only []
  have h1 := foldl_inv (fun acc : DB × List Nat => InvA acc.1) expireStep (fun b a hb => InvA.expireStep b a hb) (slotE db c false) (db, []) ha
  have h2 := foldl_inv (fun acc : DB × List Reply => InvA acc.1 ∧ NAS acc.2) fireExpireStep
    (fun b a hb => by
      unfold fireExpireStep
      split
      · exact hb
      · exact ⟨hb.1.fireExpire a, NAS_append hb.2 (fireExpire_nas hb.1 a)⟩)
    (((slotE db c false).foldl expireStep (db, [])).2 ++ (slotE db c true).map (·.hid)) (((slotE db c false).foldl expireStep (db, [])).1, []) ⟨h1, NAS_nil⟩
  exact h2.2

theorem opTick_nas {db : DB} (ha : InvA db) : NAS (opTick db).2 := by
  rw [opTick_eq]
  have ha0 : InvA (tickT db) := ha.frame rfl rfl rfl rfl
  have ha1 : InvA (tickE (sweepTimeout (tickT db) (db.now + 1)).1 (db.now + 1)) := (ha0.sweepTimeout (db.now + 1)).frame rfl rfl rfl rfl
  exact NAS_append (sweepTimeout_nas ha0 _) (sweepExpire_nas ha1 _)

theorem leaderPushLock_nas {db : DB} (ha : InvA db) (id hid : Nat) : NAS (leaderPushLock db id hid).2 := by
  unfold leaderPushLock
  split
  · exact ackDone_false_nas ha hid
  · split
    · exact ackDone_false_nas ha hid
    · exact NAS_nil

theorem leaderPushUnLock_nas {db : DB} (ha : InvA db) (hid : Nat) : NAS (leaderPushUnLock db hid).2 := by
  unfold leaderPushUnLock
  split
  · rename_i e _; exact ackDone_false_nas (ha.dropEnt e.id) hid
  · exact NAS_nil

theorem opPush_nas {db : DB} (ha : InvA db) (k : Nat) (werr : Bool) : NAS (opPush db k werr).2 := by
  rw [opPush_eq]
  split
  · exact NAS_nil
  · rename_i j hj
    have hjm : j ∈ db.journal := List.mem_of_find?_eq_some hj
    have ha1 := ha.popJ k
    split
    · exact NAS_nil
    · rename_i hid hh
      have h2 : InvA (if (popJ db k).leader = true then (if j.isLock = true then leaderPushLock (popJ db k) (popJ db k).nextId hid
            else leaderPushUnLock (popJ db k) hid) else (popJ db k, [])).1 ∧
          NAS (if (popJ db k).leader = true then (if j.isLock = true then leaderPushLock (popJ db k) (popJ db k).nextId hid
            else leaderPushUnLock (popJ db k) hid) else (popJ db k, [])).2 := by
        split
        · split
          · rename_i hil
            have hjr := ha.jrn j hjm hil hid hh
            exact ⟨ha1.leaderPushLock _ _ hjr.1 (by show (db.getR hid).queued = false; exact hjr.2), leaderPushLock_nas ha1 _ _⟩
          · exact ⟨ha1.leaderPushUnLock _, leaderPushUnLock_nas ha1 _⟩
        · exact ⟨ha1, NAS_nil⟩
      dsimp only
      split
      · exact NAS_append h2.2 (ackDone_false_nas h2.1 hid)
      · exact h2.2

theorem opFailAll_nas {db : DB} (ha : InvA db) (order : List Nat) : NAS (opFailAll db order).2 := by
  unfold opFailAll
  simp only []
  have h1 := foldl_inv (fun acc : DB × List Reply => InvA acc.1 ∧ NAS acc.2) failStep (fun b a hb => by
      unfold failStep; exact ⟨hb.1.ackDone a false, NAS_append hb.2 (ackDone_false_nas hb.1 a)⟩)
    (order.filterMap (fun id => (db.findId id).map (·.hid)) ++ (db.tab.filter (fun e => !order.contains e.id)).map (·.hid)) (db, []) ⟨ha, NAS_nil⟩
  exact h1.2

/-- own reply or harmless -/
def Own (c : Cmd) (out : List Reply) : Prop := ∀ rp ∈ out, rp.rid = c.rid ∨ (rp.result = R_SUCCED → rp.ack = false)

theorem Own_of_nas {c : Cmd} {out : List Reply} (h : NAS out) : Own c out := fun rp hr => Or.inr (h rp hr)
theorem Own_mk (c : Cmd) (res l lr : Nat) (d : Option Bytes) : Own c [mkReply c res l lr d] := by
  intro rp hr; simp at hr; subst hr; left; rfl
theorem Own_append {c : Cmd} {a b : List Reply} (ha : Own c a) (hb : Own c b) : Own c (a ++ b) := by
  intro rp h; rcases List.mem_append.mp h with h | h; exact ha rp h; exact hb rp h

/-- the wake pass only adds harmless replies -/
theorem wake_own {db : DB} (ha : InvA db) (c : Cmd) (k : Nat) (out : List Reply) (h : Own c out) : Own c (db.wake k out).2 := by
  -- the wake pass appends to `out`
  have happ : ∀ (fuel : Nat) {d : DB}, InvA d → ∀ (o : List Reply), Own c o → Own c (wakeLoop fuel d k o).2 := by
    intro fuel
    induction fuel with
    | zero => intro d _ o ho; exact ho
    | succ n ih =>
      intro d hd o ho
      unfold wakeLoop
      have h1 := applyWake_nas hd k
      have h2 := hd.applyWake k
      cases e : classifyWake d k with
      | stop => simp only []; exact ho
      | grant w => simp only []; rw [e] at h1 h2; exact ih h2 _ (Own_append ho (Own_of_nas h1))
      | ackGrant w => simp only []; rw [e] at h1 h2; exact ih h2 _ (Own_append ho (Own_of_nas h1))
      | ackFail w => simp only []; rw [e] at h1 h2; exact ih h2 _ (Own_append ho (Own_of_nas h1))
  unfold DB.wake; split; exact happ _ ha out h; exact h

theorem opLock_own {db : DB} (ha : InvA db) (c : Cmd) : Own c (opLock db c).2 := by
  unfold opLock
  cases e : classifyLock db c with
  | stateError => unfold applyLock; exact Own_mk _ _ _ _ _
  | ackWaiting h => unfold applyLock; exact Own_mk _ _ _ _ _
  | relockRefused h => unfold applyLock; exact Own_mk _ _ _ _ _
  | timeout => unfold applyLock; exact Own_mk _ _ _ _ _
  | relock h => unfold applyLock; simp only []; exact wake_own (ha.relockHold c h (classifyLock_relock ha e)) c _ _ (Own_mk _ _ _ _ _)
  | queue => unfold applyLock; simp only []; intro rp hr; simp at hr
  | grant =>
    obtain ⟨r0, f0, f1, _⟩ := newRec_findR ha c
    obtain ⟨l, d, eg⟩ := grant_snd (db.newRec c).1 (db.newRec c).2
    have hgc : ((db.newRec c).1.getR (db.newRec c).2).cmd = c := by rw [getR_eq, f0]; exact f1
    have h1 : Own c [((db.newRec c).1.grant (db.newRec c).2).2] := by rw [eg, hgc]; exact Own_mk _ _ _ _ _
    unfold applyLock
    simp only []
    split
    · exact wake_own ((ha.newRec c).grant _ (ha.newRec_unref c)) c _ _ h1
    · exact h1
  | ackGrant =>
    unfold applyLock
    simp only []
    split
    · intro rp hr; simp at hr
    · have hai : InvA ((((db.newRec c).1.ackHold (db.newRec c).2).addTimeOut (db.newRec c).2).pushLock (db.newRec c).2).1 := by
        apply InvA.pushLock (((ha.newRec c).ackHold _ (ha.newRec_unref c)).addTimeOut _)
        · rw [addTimeOut_nextHid, ackHold_nextHid, newRec_nextHid, newRec_snd]; omega
        · rw [queued_addTimeOut]; exact queued_ackHold_self _ _
      exact Own_of_nas (ackDone_false_nas hai _)

theorem opUnlock_own {db : DB} (ha : InvA db) (c : Cmd) : Own c (opUnlock db c).2 := by
  unfold opUnlock
  cases e : classifyUnlock db c with
  | stateError => unfold applyUnlock; exact Own_mk _ _ _ _ _
  | notLocked => unfold applyUnlock; exact Own_mk _ _ _ _ _
  | unown => unfold applyUnlock; exact Own_mk _ _ _ _ _
  | ackWaiting h => unfold applyUnlock; exact Own_mk _ _ _ _ _
  | dec h =>
    unfold applyUnlock; simp only []
    have ha1 : InvA ((((db.modR h (fun r => { r with depth := r.depth - 1 })).modKey c.key (fun k => { k with locked := k.locked - 1 })).journalUnlock h true).ctrMod
        (fun x => { x with unLockCount := x.unLockCount + 1, lockedCount := x.lockedCount - 1 })) := by
      apply InvA.ctrMod; apply InvA.journalUnlock; apply InvA.modKey
      exact ha.modR_holder h _ (by intro _; exact ⟨rfl, rfl, rfl⟩) (by intro r hd; simp at hd; omega)
    exact wake_own ha1 c _ _ (Own_mk _ _ _ _ _)
  | release h =>
    unfold applyUnlock; simp only []
    have ha' : InvA ((((db.modR h (fun r => { r with expried := true })).modKey c.key (fun k => { k with locked := k.locked - (db.getR h).depth })).journalUnlock h false).removeLock h |>.ctrMod
        (fun x => { x with unLockCount := x.unLockCount + (db.getR h).depth, lockedCount := x.lockedCount - (db.getR h).depth })) := by
      apply InvA.ctrMod; apply InvA.removeLock; apply InvA.journalUnlock; apply InvA.modKey
      exact ha.modR_irrel h _ (irrel_expried true)
    exact wake_own ha' c _ _ (Own_mk _ _ _ _ _)

/-- **the counting lemma.** A report whose output contains SUCCED for a require-ack request is a positive report, and with it the
number of positive reports noted for that record id reaches the required number. -/
theorem opReport_succ {db : DB} (ha : InvA db) (hk : InvK db) (id : Nat) (who : Option Nat) (ok : Bool) (rp : Reply)
    (hr : rp ∈ (opReport db id who ok).2) (hs : rp.result = R_SUCCED) (hack : rp.ack = true) :
    ok = true ∧ ∃ e, db.findId id = some e ∧ cnt e + 1 = reqAcks db.cfg := by
  unfold opReport at hr
  split at hr
  · simp at hr
  · rename_i e he
    have hem : e ∈ db.tab := List.mem_of_find?_eq_some he
    simp only [] at hr
    split at hr
    · have := ackDone_false_nas (ha.dropEnt id) e.hid rp hr hs
      rw [hack] at this; exact absurd this (by decide)
    · rename_i hc
      have hok : ok = true := by cases ok <;> simp at hc ⊢
      have hp : (db.getR e.hid).pending = true := by
        cases hh : (db.getR e.hid).pending with
        | true => rfl
        | false => simp [hh] at hc
      split at hr
      · simp at hr
      · rename_i hz
        refine ⟨hok, e, he, ?_⟩
        have hpr := present_of (Or.inl hp)
        have hge := (ha.tabOk e hem).2.2 hp
        have hdec : decU8 (db.getR e.hid).ack = (db.getR e.hid).ack - 1 := by unfold decU8; rw [if_neg (by omega)]
        have h1 : (db.getR e.hid).ack = 1 := by rw [hdec] at hz; omega
        -- the record seen by `DoAckLock`
        have hg : ((db.modR e.hid (fun r => { r with ack := decU8 r.ack })).dropEnt id).getR e.hid = ({ (db.getR e.hid) with ack := decU8 (db.getR e.hid).ack } : Rec) := by
          show (db.modR e.hid (fun r => { r with ack := decU8 r.ack })).getR e.hid = _
          rw [getR_modR db e.hid _ (by intro _; rfl)]
          simp [hpr]
        unfold ackDone classifyAck at hr
        rw [hg] at hr
        have hp' : ({ (db.getR e.hid) with ack := decU8 (db.getR e.hid).ack } : Rec).pending = true := by
          unfold Rec.pending; simp only []; rw [hdec, h1]; decide
        simp only [hp', Bool.not_true, Bool.false_eq_true, if_false, if_true] at hr
        split at hr
        · unfold applyAck at hr; simp at hr; rw [hr] at hs; simp [mkReply, R_LOCKED_ERROR, R_SUCCED] at hs
        · rename_i hb
          simp at hb
          have hfp : (db.getR e.hid).fp = true := by unfold Rec.fp; simp [hb.1, hp]; omega
          have := hk.k1 e hem hfp
          omega

end Slock.Ack
