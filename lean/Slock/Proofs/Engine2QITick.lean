import Slock.Proofs.Engine2QIOps
/-! Stage-2 engine: the sweep steps keep the queue invariants; `run_dbq`: they hold in every reachable state. -/
namespace Slock.Engine2
open Slock.Engine (has)

/-- `refCount--`, free at 0, reclaim check -/
def WaitOK (w : W) : Prop := w.gone = false → ∀ e ∈ w.k.wait, w.k.hasRec e.rid

theorem WaitOK.of_tight {w : W} (t : Tight w) : WaitOK w := fun hg => wait_hasRec (t.good hg).lv

theorem QI.of_qk' {w w' : W} (h : QI w.k) (d : QK w' w) (hd : ∀ e ∈ w'.k.wait, w'.k.hasRec e.rid) : QI w'.k :=
  ⟨h.cn.of_q d.q, h.wl.of_keep (queues_eq d.q).2.2 d.t hd⟩

theorem qi_unrefCheck {w : W} (q : QI w.k) (rid : Nat) (g : WaitOK (w.unrefCheck rid)) : QIG (w.unrefCheck rid) := by
  unfold W.unrefCheck at g ⊢
  simp only [] at g ⊢
  unfold W.when at g ⊢
  split
  · rename_i hz
    simp only [hz, if_true] at g
    unfold W.freeCheck at g ⊢
    show QIG (((w.modK (·.unrefOnly rid)).modK (·.free rid)).removeIfZero)
    rcases removeIfZero_cases ((w.modK (·.unrefOnly rid)).modK (·.free rid)) with e | ⟨hg, _⟩
    · rw [e] at g ⊢
      intro hg
      exact q.of_qk' ((qk_free _ rid).trans (qk_unrefOnly w rid)) (g hg)
    · intro hf; rw [hg] at hf; exact absurd hf (by simp)
  · rename_i hz
    simp only [hz, if_false] at g
    intro hg
    exact q.of_qk' (qk_unrefOnly w rid) (g hg)

theorem qi_dropT {w : W} (q : QI w.k) (rid : Nat) (t : WaitOK (w.dropT rid)) : QIG (w.dropT rid) := by
  unfold W.dropT at t ⊢
  have q1 : QI (w.modR rid (fun r => { r with tSched := none })).k := by
    refine ⟨q.cn, ?_⟩
    intro hne
    obtain ⟨e, he, hl⟩ := q.wl hne
    refine ⟨e, he, ?_⟩
    have := getR_modRec_proj (·.timeouted) w.k rid e.rid (fun r => { r with tSched := none }) (by intro _; rfl) (by intro _; rfl)
    exact this.trans hl
  exact qi_unrefCheck q1 rid t

theorem qi_dropE {w : W} (q : QI w.k) (rid : Nat) (t : WaitOK (w.dropE rid)) : QIG (w.dropE rid) := by
  unfold W.dropE at t ⊢
  have q1 : QI (w.modR rid (fun r => { r with eSched := none })).k := by
    refine ⟨q.cn, ?_⟩
    intro hne
    obtain ⟨e, he, hl⟩ := q.wl hne
    refine ⟨e, he, ?_⟩
    have := getR_modRec_proj (·.timeouted) w.k rid e.rid (fun r => { r with eSched := none }) (by intro _; rfl) (by intro _; rfl)
    exact this.trans hl
  exact qi_unrefCheck q1 rid t

theorem qk_addTimeOut_live (w : W) (rid : Nat) (h : (w.k.getR rid).timeouted = false) : QK (w.addTimeOut rid) w :=
  ⟨rfl, PKeep.modRec_at w.k rid _ (fun _ => rfl) (fun _ => by show false = _; rw [h])⟩

theorem qi_visitTimeout {w : W} (g : Good w) (cl : CurLive w.k) (hne : w.k.recs ≠ []) (q : QI w.k) (slot : Bool) (rid : Nat) (w' : W)
    (h : w.visitTimeout slot rid = some w') : QIG w' := by
  have t := tight_visitTimeout g cl hne slot rid w' h
  unfold W.visitTimeout at h
  simp only [] at h
  split at h
  · injection h with h; rw [← h]; exact QIG.of_qi q
  split at h
  · injection h with h; subst h; exact qi_dropT q rid (WaitOK.of_tight t)
  · rename_i hto
    split at h
    · injection h with h
      subst h
      intro hg
      have hto' : (w.k.getR rid).timeouted = false := by simpa using hto
      have d1 : QK (w.modR rid (fun r => { r with tChecked := r.tChecked + 1 })) w := qk_modR w rid _ (by intro _; rfl) (by intro _; rfl)
      have hto1 : ((w.modR rid (fun r => { r with tChecked := r.tChecked + 1 })).k.getR rid).timeouted = false :=
        (getR_modRec_proj (·.timeouted) w.k rid rid (fun r => { r with tChecked := r.tChecked + 1 }) (by intro _; rfl) (by intro _; rfl)).trans hto'
      exact q.of_qk ((qk_addTimeOut_live _ rid hto1).trans d1) (t.good hg).lv
    · simp at h

theorem qi_visitExpire {w : W} (g : Good w) (cl : CurLive w.k) (hne : w.k.recs ≠ []) (q : QI w.k) (slot : Bool) (rid : Nat) (w' : W)
    (h : w.visitExpire slot rid = some w') : QIG w' := by
  have t := tight_visitExpire g cl hne slot rid w' h
  unfold W.visitExpire at h
  simp only [] at h
  split at h
  · injection h with h; rw [← h]; exact QIG.of_qi q
  split at h
  · injection h with h; subst h; exact qi_dropE q rid (WaitOK.of_tight t)
  · split at h
    · injection h with h
      subst h
      intro hg
      have d1 : QK (w.modR rid (fun r => { r with eChecked := r.eChecked + 1 })) w := qk_modR w rid _ (by intro _; rfl) (by intro _; rfl)
      exact q.of_qk ((qk_addExpried _ rid).trans d1) (t.good hg).lv
    · simp at h

theorem qi_fireTimeout {w : W} (g : Good w) (cl : CurLive w.k) (hne : w.k.recs ≠ []) (q : QI w.k) (rid : Nat) : QIG (w.fireTimeout rid) := by
  have t := tight_fireTimeout g cl hne rid
  unfold W.fireTimeout at t ⊢
  simp only [] at t ⊢
  split
  · exact QIG.of_qi q
  rename_i hg
  rw [if_neg hg] at t
  split
  · rename_i hto
    rw [if_pos hto] at t
    exact qi_dropT q rid (WaitOK.of_tight t)
  · rename_i hto
    rw [if_neg hto] at t
    have c1 : CurNone (w.modR rid (fun r => { r with timeouted := true })).k := q.cn
    have q2 : QI (((w.modR rid (fun r => { r with timeouted := true })).modK (·.settleWait)).ctr (fun y => { y with waitCount := y.waitCount - 1 })).k :=
      qi_settleWait_cn c1
    have hs := hasT_spec w.k rid (by simpa using hg)
    have tp := tight_timeout_fire g cl rid hs
    exact qi_wake ((tp.ctr _).reply _ _ _ _) (((qi_dropT q2 rid (WaitOK.of_tight tp)).ctr _).reply _ _ _ _)

theorem qi_fireExpire {w : W} (g : Good w) (cl : CurLive w.k) (hne : w.k.recs ≠ []) (q : QI w.k) (rid : Nat) : QIG (w.fireExpire rid) := by
  have t := tight_fireExpire g cl hne rid
  have l := g.lv
  unfold W.fireExpire at t ⊢
  simp only [] at t ⊢
  split
  · exact QIG.of_qi q
  rename_i hg
  have hs := hasE_spec w.k rid (by simpa using hg)
  rw [if_neg hg] at t
  split
  · rename_i hex
    rw [if_pos hex] at t
    exact qi_dropE q rid (WaitOK.of_tight t)
  · rename_i hex
    rw [if_neg hex] at t
    split
    · rename_i hdf
      rw [if_pos hdf] at t
      intro hgone
      have d1 : QK (w.modR rid (fun r => { r with expT := w.db.now + 30 })) w := qk_modR w rid _ (by intro _; rfl) (by intro _; rfl)
      exact q.of_qk ((qk_addExpried _ rid).trans d1) (t.good hgone).lv
    · have t5 := tight_expire_release g cl rid hs
      have l1 : Lv (w.modR rid (fun r => { r with expried := true })) zero :=
        l.modR_plain rid _ (fun _ => rfl) (fun _ => rfl) (fun _ => rfl) (fun _ => rfl) (fun _ => rfl)
      have l2 : Lv ((w.modR rid (fun r => { r with expried := true })).modK (fun k => { k with locked := k.locked - (w.k.getR rid).depth })) zero :=
        l1.modK _ (l1.rc.transfer rfl rfl (fun _ => rfl)) (RecsLe.of_eq rfl)
      have l3 : Lv (((w.modR rid (fun r => { r with expried := true })).modK (fun k => { k with locked := k.locked - (w.k.getR rid).depth })).when
          (w.k.getR rid).isAof (·.pushUnLockAof rid (w.k.getR rid).cmd false false AOF_EXPRIED)) zero :=
        l2.when _ _ (l2.pushUnLockAof _ _ _ _ _)
      have l4 := l3.modK (·.removeLock rid) (removeLock_rc zero_nonneg l3.rc rid) (RecsLe.removeLock _ _)
      have d3 : QK (((w.modR rid (fun r => { r with expried := true })).modK (fun k => { k with locked := k.locked - (w.k.getR rid).depth })).when
          (w.k.getR rid).isAof (·.pushUnLockAof rid (w.k.getR rid).cmd false false AOF_EXPRIED)) w :=
        (qk_when _ _ (·.pushUnLockAof rid (w.k.getR rid).cmd false false AOF_EXPRIED) (qk_pushUnLockAof _ _ _ _ _ _)).trans
          ((qk_modK _ _ rfl rfl).trans (qk_modR w rid _ (by intro _; rfl) (by intro _; rfl)))
      have q3 := q.of_qk d3 l3
      have q4 : QI ((((w.modR rid (fun r => { r with expried := true })).modK (fun k => { k with locked := k.locked - (w.k.getR rid).depth })).when
          (w.k.getR rid).isAof (·.pushUnLockAof rid (w.k.getR rid).cmd false false AOF_EXPRIED)).modK (·.removeLock rid)).k :=
        q3.removeLock rid (wait_hasRec l4)
      have q5 := qi_dropE q4 rid (WaitOK.of_tight t5)
      exact qi_wake ((t5.ctr _).reply _ _ _ _) ((q5.ctr _).reply _ _ _ _)

/-! ### every reachable state -/

structure DBQ (db : DB) : Prop where
  dbt : DBT db
  qi : ∀ k ∈ db.keys, QI k

theorem DBQ.init (now aofTime : Nat) : DBQ (DB.init now aofTime) := ⟨DBT.init now aofTime, by simp [DB.init]⟩

theorem commit_p {P : Key → Prop} {w : W} (hs : DBside w) (ho : ∀ k ∈ w.db.keys, k.key ≠ w.k.key → P k) (hk : w.gone = false → P w.k) :
    ∀ k ∈ w.commit.keys, P k := by
  unfold W.commit
  cases hg : w.gone with
  | true =>
    simp only [if_true]
    have habs := (hasKey_eq_false_iff w.db w.k.key).mp (hs.absent hg)
    exact fun k hkm => ho k hkm (habs k hkm)
  | false =>
    simp only [Bool.false_eq_true, if_false]
    have hp := hs.present hg
    unfold DB.setKey
    simp only [hp, if_true]
    intro k hkm
    simp only [List.mem_map] at hkm
    obtain ⟨x, hx, e⟩ := hkm
    by_cases hc : (x.key == w.k.key) = true
    · rw [if_pos hc] at e; rw [← e]; exact hk hg
    · rw [if_neg hc] at e; rw [← e]; exact ho x hx (by simpa using hc)

theorem others_enter_p {P : Key → Prop} {db : DB} (ht : ∀ k ∈ db.keys, P k) (n : Nat) :
    ∀ k ∈ (db.enter n).db.keys, k.key ≠ (db.enter n).k.key → P k := by
  intro k hk hne
  rw [enter_db] at hk
  rw [enter_k, getKey_key] at hne
  unfold DB.create at hk
  split at hk
  · exact ht k hk
  · rcases List.mem_append.mp hk with h1 | h1
    · exact ht k h1
    · simp at h1; rw [h1] at hne; exact absurd rfl hne

theorem others_lockBase_p {P : Key → Prop} {db : DB} (ht : ∀ k ∈ db.keys, P k) (c : Cmd) (b : LockBranch) :
    ∀ k ∈ (lockBase db c b).db.keys, k.key ≠ (lockBase db c b).k.key → P k := by
  cases b <;> first | exact (fun k hk _ => ht k hk) | exact others_enter_p ht c.key

theorem opLock_dbq (db : DB) (h : DBQ db) (c : Cmd) (data : Option Bytes) : DBQ (opLock db c data).1 := by
  refine ⟨opLock_dbt db h.dbt c data, ?_⟩
  unfold opLock
  simp only []
  have hs := (DBside.lockBase h.dbt.dbi c (classifyLock db c data)).of_fr (applyLock_fr db c data _)
  have ho := others_of_fr (others_lockBase_p h.qi c (classifyLock db c data)) (applyLock_fr db c data _)
  have t := applyLock_qi db h.dbt.dbi h.dbt.tight h.qi c data (classifyLock db c data) (fun x hx => classifyLock_holder db c data x hx)
    (fun x hx => classifyLock_relock db c data x hx) (fun hx => classifyLock_uwr db c data hx)
    (fun x hx => classifyLock_update_depth db c data x hx (cur_getKey h.dbt.tight c.key))
  exact commit_p hs ho t

theorem opUnlock_dbq (db : DB) (h : DBQ db) (c : Cmd) (data : Option Bytes) : DBQ (opUnlock db c data).1 := by
  refine ⟨opUnlock_dbt db h.dbt c data, ?_⟩
  unfold opUnlock
  simp only []
  have hs := (h.dbt.dbi.openKey c.key).of_fr (applyUnlock_fr db c data (classifyUnlock db c))
  have ho := others_of_fr (P := QI) (w := db.openKey c.key) (fun k hk _ => h.qi k hk) (applyUnlock_fr db c data (classifyUnlock db c))
  have t := applyUnlock_qi db h.dbt.dbi h.dbt.tight h.qi c data (classifyUnlock db c) (fun x hx => classifyUnlock_holder db c x hx)
    (fun x hx => classifyUnlock_cancel db c x hx) (fun x c' hx => classifyUnlock_dec_depth db c c' x hx)
    (fun x c' hx => classifyUnlock_release_depth db c c' x hx (cur_getKey h.dbt.tight c.key))
  exact commit_p hs ho t

theorem qig_of_open {db : DB} (h : DBQ db) (key : Nat) (w' : W) (f : Fr (db.openKey key) w')
    (hstep : Good (db.openKey key) → CurLive (db.openKey key).k → (db.openKey key).k.recs ≠ [] → QI (db.openKey key).k → QIG w') : QIG w' := by
  cases hg : (db.openKey key).gone with
  | true =>
    have := f.gone hg
    exact fun h' => by rw [this] at h'; exact absurd h' (by simp)
  | false =>
    exact hstep (Good.openKey h.dbt.dbi h.dbt.tight key) (cur_openKey h.dbt.tight key) (settled_openKey h.dbt.tight key hg) (qi_openKey h.qi key)

theorem DBQ.stepW {db : DB} (h : DBQ db) (key : Nat) (w' : W) (f : Fr (db.openKey key) w') (hd : DBT w'.commit) (q : QIG w') : DBQ w'.commit :=
  ⟨hd, commit_p ((h.dbt.dbi.openKey key).of_fr f) (others_of_fr (P := QI) (w := db.openKey key) (fun k hk _ => h.qi k hk) f) q⟩

theorem timeoutStep_dbq (slot : Bool) (acc : DB × List Ent) (e : Ent) (h : DBQ acc.1) : DBQ (timeoutStep slot acc e).1 := by
  have hd := timeoutStep_dbt slot acc e h.dbt
  unfold timeoutStep at hd ⊢
  split
  · rename_i w hw
    simp only [hw] at hd
    have f := W.visitTimeout_fr _ _ _ _ hw
    exact h.stepW e.key w f hd (qig_of_open h e.key w f (fun g cl hne q => qi_visitTimeout g cl hne q slot e.rid w hw))
  · rename_i hnone
    simp only [hnone] at hd
    cases slot
    · simp only [Bool.false_eq_true, if_false] at hd ⊢
      refine h.stepW e.key _ (W.collectT_fr _ _) hd (qig_of_open h e.key _ (W.collectT_fr _ _) (fun g cl hne q => ?_))
      intro _
      exact q.of_qk (qk_modR _ e.rid _ (by intro _; rfl) (by intro _; rfl)) (g.lv.collectT e.rid)
    · exact h

theorem expireStep_dbq (slot : Bool) (acc : DB × List Ent) (e : Ent) (h : DBQ acc.1) : DBQ (expireStep slot acc e).1 := by
  have hd := expireStep_dbt slot acc e h.dbt
  unfold expireStep at hd ⊢
  split
  · rename_i w hw
    simp only [hw] at hd
    have f := W.visitExpire_fr _ _ _ _ hw
    exact h.stepW e.key w f hd (qig_of_open h e.key w f (fun g cl hne q => qi_visitExpire g cl hne q slot e.rid w hw))
  · exact h

theorem fireTimeoutStep_dbq (acc : DB × List Reply) (e : Ent) (h : DBQ acc.1) : DBQ (fireTimeoutStep acc e).1 := by
  have hd := fireTimeoutStep_dbt acc e h.dbt
  unfold fireTimeoutStep fireTimeout at hd ⊢
  exact h.stepW e.key _ (W.fireTimeout_fr _ _) hd (qig_of_open h e.key _ (W.fireTimeout_fr _ _) (fun g cl hne q => qi_fireTimeout g cl hne q e.rid))

theorem fireExpireStep_dbq (acc : DB × List Reply) (e : Ent) (h : DBQ acc.1) : DBQ (fireExpireStep acc e).1 := by
  have hd := fireExpireStep_dbt acc e h.dbt
  unfold fireExpireStep fireExpire at hd ⊢
  exact h.stepW e.key _ (W.fireExpire_fr _ _) hd (qig_of_open h e.key _ (W.fireExpire_fr _ _) (fun g cl hne q => qi_fireExpire g cl hne q e.rid))

theorem foldl_dbq {α β} (f : DB × β → α → DB × β) (hf : ∀ acc a, DBQ acc.1 → DBQ (f acc a).1)
    (l : List α) (acc : DB × β) (h : DBQ acc.1) : DBQ (l.foldl f acc).1 := by
  induction l generalizing acc with
  | nil => exact h
  | cons a as ih => simp only [List.foldl_cons]; exact ih _ (hf acc a h)

theorem sweepTimeout_dbq (db : DB) (c : Nat) (h : DBQ db) : DBQ (sweepTimeout db c).1 := by
  unfold sweepTimeout
  simp only []
  refine foldl_dbq _ fireTimeoutStep_dbq _ _ ?_
  exact foldl_dbq _ (timeoutStep_dbq false) _ _ (foldl_dbq _ (timeoutStep_dbq true) _ (db, []) h)

theorem sweepExpire_dbq (db : DB) (c : Nat) (h : DBQ db) : DBQ (sweepExpire db c).1 := by
  unfold sweepExpire
  simp only []
  refine foldl_dbq _ fireExpireStep_dbq _ _ ?_
  exact foldl_dbq _ (expireStep_dbq false) _ _ (foldl_dbq _ (expireStep_dbq true) _ (db, []) h)

theorem DBQ.of_keys {db db' : DB} (h : DBQ db) (h1 : db'.keys = db.keys) (h2 : db'.keyCount = db.keyCount) (h3 : db'.nextRid = db.nextRid) :
    DBQ db' := ⟨h.dbt.of_keys h1 h2 h3, by rw [h1]; exact h.qi⟩

theorem opTick_dbq (db : DB) (h : DBQ db) : DBQ (opTick db).1 := by
  unfold opTick
  simp only []
  apply sweepExpire_dbq
  refine DBQ.of_keys (db := (sweepTimeout { db with now := db.now + 1, tCheck := db.now + 1 + 1 } (db.now + 1)).1) ?_ rfl rfl rfl
  exact sweepTimeout_dbq _ _ (h.of_keys rfl rfl rfl)

theorem step_dbq (db : DB) (o : Op) (h : DBQ db) : DBQ (step db o).1 := by
  cases o with
  | lock c d => exact opLock_dbq db h c d
  | unlock c d => exact opUnlock_dbq db h c d
  | tick => exact opTick_dbq db h
  | setLeader b => exact h.of_keys rfl rfl rfl

/-- **every reachable state: no tombstone outlives the live entries of its queue** -/
theorem run_dbq (db : DB) (ops : List Op) (h : DBQ db) : DBQ (run db ops) := by
  induction ops generalizing db with
  | nil => exact h
  | cons o os ih => unfold run; simp only [List.foldl_cons]; exact ih _ (step_dbq db o h)

end Slock.Engine2
