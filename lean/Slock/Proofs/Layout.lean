import Slock.Model.Layout
/-! Helper lemmas for the generic codec round-trip theorems (C14). -/
namespace Slock.Layout

theorem toUInt8_toNat (n : Nat) (h : n < 256) : n.toUInt8.toNat = n := by
  simp [Nat.toUInt8, UInt8.toNat_ofNat']; omega

theorem getD_map_lt {α β} (l : List α) (g : α → β) (i : Nat) (d : β) (d' : α) (h : i < l.length) :
    (l.map g).getD i d = g (l.getD i d') := by
  simp [List.getD, h]

theorem getD_ge {α} (l : List α) (i : Nat) (d : α) (h : l.length ≤ i) : l.getD i d = d := by
  simp [List.getD, List.getElem?_eq_none h]

theorem encodeAux_length (v : Val) (old : Bytes) (o : Nat) (ss : List Src) :
    (encodeAux v old o ss).length = ss.length := by
  induction ss generalizing o with
  | nil => rfl
  | cons s ss ih => simp [encodeAux, ih]

theorem encodeAux_getD (v : Val) (old : Bytes) (o : Nat) (ss : List Src) (k : Nat) (hk : k < ss.length) :
    (encodeAux v old o ss).getD k 0 = byteOf v old (o + k) (ss.getD k .undef) := by
  induction ss generalizing o k with
  | nil => simp at hk
  | cons s ss ih =>
    cases k with
    | zero => simp [encodeAux]
    | succ k =>
      simp only [encodeAux, List.getD_cons_succ]
      rw [ih (o + 1) k (by simpa using hk)]
      congr 1; omega

theorem encode_length (L : Layout) (v : Val) (old : Bytes) : (encode L v old).length = L.enc.length :=
  encodeAux_length v old 0 L.enc

theorem encode_getD (L : Layout) (v : Val) (old : Bytes) (o : Nat) (ho : o < L.enc.length) :
    (encode L v old).getD o 0 = byteOf v old o (encAt L o) := by
  unfold encode encAt
  rw [encodeAux_getD v old 0 L.enc o ho]; simp

theorem map_range_getD (l : Bytes) (n : Nat) (h : l.length = n) :
    (List.range n).map (fun i => l.getD i 0) = l := by
  subst h
  apply List.ext_getElem
  · simp
  · intro i h1 h2
    simp at h1 h2 ⊢
    simp [h2]

/-- An offset list of the right length maps to the list of its indexed entries. -/
theorem map_eq_map_range (offs : List Nat) (g : Nat → Byte) :
    offs.map g = (List.range offs.length).map (fun i => g (offs.getD i 64)) := by
  apply List.ext_getElem
  · simp
  · intro i h1 h2
    simp at h1 h2 ⊢
    simp [h1]

theorem dropZeros_of_head_ne (x : Byte) (xs : Bytes) (h : x ≠ 0) : dropZeros (x :: xs) = x :: xs := by
  simp [dropZeros, h]

/-- `noEdgeNul s`: `s` neither starts nor ends with a NUL byte (what `strings.Trim` can represent). -/
def noEdgeNul (s : Bytes) : Prop := s.head? ≠ some 0 ∧ s.getLast? ≠ some 0

theorem dropZeros_id (s : Bytes) (h : s.head? ≠ some 0) : dropZeros s = s := by
  cases s with
  | nil => rfl
  | cons x xs =>
    have : x ≠ 0 := by intro hx; apply h; simp [hx]
    simp [dropZeros, this]

theorem dropZeros_replicate_zero (n : Nat) : dropZeros (List.replicate n (0 : Byte)) = [] := by
  induction n with
  | zero => rfl
  | succ n ih => simp [List.replicate_succ, dropZeros, ih]

theorem dropZeros_zeros_append (n : Nat) (s : Bytes) :
    dropZeros (List.replicate n (0 : Byte) ++ s) = dropZeros s := by
  induction n with
  | zero => simp
  | succ n ih => simp [List.replicate_succ, dropZeros, ih]

theorem pad_eq (s : Bytes) (n : Nat) (h : s.length ≤ n) :
    pad s n = s ++ List.replicate (n - s.length) 0 := by
  unfold pad
  apply List.ext_getElem
  · simp; omega
  · intro i h1 h2
    simp at h1
    simp only [List.getElem_map, List.getElem_range]
    by_cases hi : i < s.length
    · simp [List.getD, hi, List.getElem_append_left hi]
    · have : s.length ≤ i := by omega
      simp [List.getD, hi, List.getElem_append_right this]

/-- `trim0 (pad s n) = s` for a string without NUL at its edges that fits. -/
theorem trim0_pad (s : Bytes) (n : Nat) (h : s.length ≤ n) (hs : noEdgeNul s) :
    trim0 (pad s n) = s := by
  rw [pad_eq s n h]
  unfold trim0
  cases s with
  | nil =>
    simp [dropZeros_replicate_zero, dropZeros]
  | cons x xs =>
    have hx : x ≠ 0 := by intro hx; apply hs.1; simp [hx]
    have h1 : dropZeros (x :: xs ++ List.replicate (n - (x :: xs).length) 0)
        = x :: xs ++ List.replicate (n - (x :: xs).length) 0 := by
      simp [dropZeros, hx]
    rw [h1]
    rw [List.reverse_append, List.reverse_replicate, dropZeros_zeros_append]
    rw [dropZeros_id]
    · simp
    · have := hs.2
      rw [List.head?_reverse]; exact this

end Slock.Layout
