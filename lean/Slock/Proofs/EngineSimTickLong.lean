import Slock.Proofs.EngineSimTickCongr
import Slock.Proofs.EngineSimWU
/-! Stage 1 (M-ENGINE): the firing phase of the timeout sweep does not read the `long` flag of a queued request's wheel entry. The
record-level model's sweeper pops a due long-table entry (its `long` flag is cleared) before it fires it; stage 1 does not. `EqL S x y`:
`x` is `y` with the `long` flag cleared on the queued requests whose (key, RequestId, connection) is in `S`. The firing phase keeps it, and
every fired request leaves `S`; with `S = []` it is `Sim.Equiv`. New file for the clock-tick simulation (`sim_tick`). -/
namespace Slock.SimTick
open Slock Slock.Engine Slock.Sim

abbrev WId := Nat × Nat × Nat

def rcId (n : Nat) (w : Waiter) : WId := (n, w.cmd.req, w.conn)
def unlong (w : Waiter) : Waiter := { w with sched := { w.sched with long := false } }
def clr (S : List WId) (n : Nat) (w : Waiter) : Waiter := if rcId n w ∈ S then unlong w else w
def clrK (S : List WId) (k : Key) : Key := { k with waiters := k.waiters.map (clr S k.key) }

theorem clr_cmd (S : List WId) (n : Nat) (w : Waiter) : (clr S n w).cmd = w.cmd := by unfold clr; split <;> rfl
theorem clr_conn (S : List WId) (n : Nat) (w : Waiter) : (clr S n w).conn = w.conn := by unfold clr; split <;> rfl
theorem rcId_clr (S : List WId) (n m : Nat) (w : Waiter) : rcId m (clr S n w) = rcId m w := by unfold rcId; rw [clr_cmd, clr_conn]
theorem unlong_unlong (w : Waiter) : unlong (unlong w) = unlong w := rfl
theorem rcId_unlong (n : Nat) (w : Waiter) : rcId n (unlong w) = rcId n w := rfl

theorem clr_nil (n : Nat) (w : Waiter) : clr [] n w = w := by unfold clr; simp
theorem clrK_nil (k : Key) : clrK [] k = k := by
  unfold clrK
  have : k.waiters.map (clr [] k.key) = k.waiters := by
    rw [List.map_congr_left (fun w _ => clr_nil k.key w)]; simp
  rw [this]

theorem clr_cons (i : WId) (S : List WId) (n : Nat) (w : Waiter) : clr [i] n (clr S n w) = clr (i :: S) n w := by
  unfold clr
  by_cases h : rcId n w ∈ S
  · simp only [h, if_true, rcId_unlong, List.mem_cons, or_true]
    split <;> rfl
  · simp only [h, if_false, List.mem_cons, List.not_mem_nil, or_false]

theorem clrK_key (S : List WId) (k : Key) : (clrK S k).key = k.key := rfl
theorem clrK_locked (S : List WId) (k : Key) : (clrK S k).locked = k.locked := rfl
theorem clrK_holders (S : List WId) (k : Key) : (clrK S k).holders = k.holders := rfl
theorem clrK_waited (S : List WId) (k : Key) : (clrK S k).waited = k.waited := rfl

theorem clrK_cons (i : WId) (S : List WId) (k : Key) : clrK [i] (clrK S k) = clrK (i :: S) k := by
  unfold clrK
  simp only [List.map_map]
  congr 1
  apply List.map_congr_left
  intro w _
  exact clr_cons i S k.key w

theorem clrK_isEmpty (S : List WId) (k : Key) : (clrK S k).isEmpty = k.isEmpty := by
  unfold Key.isEmpty clrK
  simp

/-- clearing is invisible where no queued request of the key is named -/
theorem clrK_congr (S S' : List WId) (k : Key) (h : ∀ w ∈ k.waiters, (rcId k.key w ∈ S ↔ rcId k.key w ∈ S')) : clrK S k = clrK S' k := by
  unfold clrK
  congr 1
  apply List.map_congr_left
  intro w hw
  unfold clr
  by_cases h1 : rcId k.key w ∈ S
  · rw [if_pos h1, if_pos ((h w hw).mp h1)]
  · rw [if_neg h1, if_neg (fun h2 => h1 ((h w hw).mpr h2))]

structure EqL (S : List WId) (x y : DB) : Prop where
  se : SE x y
  keys : ∀ n, x.getKey n = clrK S (y.getKey n)

theorem EqL.of_equiv {x y : DB} (h : Equiv x y) : EqL [] x y := ⟨h.se, fun n => by rw [clrK_nil]; exact h.keys n⟩
theorem EqL.equiv {x y : DB} (h : EqL [] x y) : Equiv x y := Equiv.mk' h.se (fun n => by rw [h.keys n, clrK_nil])
theorem EqL.left {S : List WId} {x' x y : DB} (e : Equiv x' x) (h : EqL S x y) : EqL S x' y :=
  ⟨e.se.trans h.se, fun n => (e.keys n).trans (h.keys n)⟩
theorem EqL.right {S : List WId} {x y y' : DB} (h : EqL S x y) (e : Equiv y y') : EqL S x y' :=
  ⟨h.se.trans e.se, fun n => by rw [h.keys n, e.keys n]⟩

/-! ### the wake pass -/

theorem doLock_clrK (S : List WId) (k : Key) (c : Cmd) : doLock (clrK S k) c = doLock k c := rfl

theorem clrK_waiters (S : List WId) (k : Key) : (clrK S k).waiters = k.waiters.map (clr S k.key) := rfl

theorem wakeIter_clr {a b : DB} (s : SE a b) (S : List WId) (k : Key) :
    (wakeIter a (clrK S k) = none ∧ wakeIter b k = none) ∨
    (∃ a' b' k' r, wakeIter a (clrK S k) = some (a', clrK S k', r) ∧ wakeIter b k = some (b', k', r) ∧ SE a' b' ∧ k'.key = k.key) := by
  unfold wakeIter
  rw [clrK_waiters]
  cases hw : k.waiters with
  | nil => exact Or.inl ⟨rfl, rfl⟩
  | cons w rest =>
    simp only [List.map_cons, clr_cmd, clr_conn, doLock_clrK]
    split
    · exact Or.inl ⟨rfl, rfl⟩
    · split
      · right
        obtain ⟨s1, s2⟩ := grantHold_se (a := { a with ctr := { a.ctr with waitCount := a.ctr.waitCount - 1 } })
          (b := { b with ctr := { b.ctr with waitCount := b.ctr.waitCount - 1 } })
          ⟨s.now, s.tCheck, s.eCheck, s.seq, s.leader, by show ({ a.ctr with waitCount := a.ctr.waitCount - 1 } : Counters) = _; rw [s.ctr]⟩
          { k with waiters := rest } { w.cmd with conn := w.conn }
        refine ⟨_, _, (grantHold { b with ctr := { b.ctr with waitCount := b.ctr.waitCount - 1 } } { k with waiters := rest } { w.cmd with conn := w.conn }).2, _,
          ?_, rfl, s1, rfl⟩
        unfold grantHold
        simp only []
        rw [s.now, s.eCheck, s.seq, s.ctr]
        rfl
      · right
        refine ⟨_, _, { k with waiters := rest }, _, rfl, rfl, ⟨s.now, s.tCheck, s.eCheck, s.seq, s.leader, ?_⟩, rfl⟩
        show ({ ({ a.ctr with waitCount := a.ctr.waitCount - 1 } : Counters) with lockCount := _ } : Counters) = _
        rw [s.ctr]

theorem wakePass_clr (fuel : Nat) {a b : DB} (s : SE a b) (S : List WId) (k : Key) (out : List Reply) :
    SE (wakePass fuel a (clrK S k) out).1 (wakePass fuel b k out).1 ∧
    (wakePass fuel a (clrK S k) out).2.1 = clrK S (wakePass fuel b k out).2.1 ∧
    (wakePass fuel a (clrK S k) out).2.2 = (wakePass fuel b k out).2.2 ∧ (wakePass fuel b k out).2.1.key = k.key := by
  induction fuel generalizing a b k out with
  | zero => unfold wakePass; rw [clrK_waited]; split <;> exact ⟨s, rfl, rfl, rfl⟩
  | succ n ih =>
    unfold wakePass
    rw [clrK_waited]
    split
    · exact ⟨s, rfl, rfl, rfl⟩
    · rcases wakeIter_clr s S k with ⟨e1, e2⟩ | ⟨a', b', k', r, e1, e2, s', hk'⟩
      · rw [e1, e2]
        simp only []
        have : (clrK S k).waiters.isEmpty = k.waiters.isEmpty := by rw [clrK_waiters]; simp
        rw [this]
        split <;> exact ⟨s, rfl, rfl, rfl⟩
      · rw [e1, e2]
        simp only []
        obtain ⟨i1, i2, i3, i4⟩ := ih s' k' (out ++ [r])
        exact ⟨i1, i2, i3, i4.trans hk'⟩

theorem wake_clr {a b : DB} (s : SE a b) (S : List WId) (k : Key) (out : List Reply) :
    SE (wake a (clrK S k) out).1 (wake b k out).1 ∧ (wake a (clrK S k) out).2.1 = clrK S (wake b k out).2.1 ∧
    (wake a (clrK S k) out).2.2 = (wake b k out).2.2 := by
  unfold wake
  have : (clrK S k).waiters.length = k.waiters.length := by rw [clrK_waiters]; simp
  rw [this]
  obtain ⟨i1, i2, i3, _⟩ := wakePass_clr (k.waiters.length + 1) s S k out
  exact ⟨i1, i2, i3⟩

/-- the common end: store the woken key -/
theorem EqL.store {S : List WId} {x y x' y' : DB} (h : EqL S x y) (s : SE x' y') (hx : x'.keys = x.keys) (hy : y'.keys = y.keys) (k : Key) :
    EqL S (x'.setKey (clrK S k)) (y'.setKey k) := by
  refine ⟨((setKey_se x' _).trans s).trans (setKey_se y' k).symm, ?_⟩
  intro n
  by_cases e : n = k.key
  · subst e
    have e1 := getKey_setKey_same x' (clrK S k)
    rw [clrK_key] at e1
    rw [e1, getKey_setKey_same]
  · rw [getKey_setKey_other _ _ _ (by rw [clrK_key]; exact e), getKey_setKey_other _ _ _ e]
    have e1 : x'.getKey n = x.getKey n := by unfold DB.getKey; rw [hx]
    have e2 : y'.getKey n = y.getKey n := by unfold DB.getKey; rw [hy]
    rw [e1, e2]; exact h.keys n

/-! ### firing one collected request -/

theorem removeWaiter_map_clr (S : List WId) (n : Nat) (ws : List Waiter) (w : Waiter) :
    removeWaiter (ws.map (clr S n)) (clr S n w) = (removeWaiter ws w).map (clr S n) := by
  induction ws with
  | nil => rfl
  | cons a as ih =>
    unfold removeWaiter
    simp only [List.map_cons, clr_cmd, clr_conn]
    split
    · rfl
    · simp only [List.map_cons, ih]

theorem outK_clrK (S : List WId) (k : Key) (w : Waiter) : outK (clrK S k) (clr S k.key w) = clrK S (outK k w) := by
  unfold outK clrK
  simp only [removeWaiter_map_clr, List.isEmpty_map]

theorem toReply_clr (S : List WId) (k : Key) (w : Waiter) : toReply (clrK S k) (clr S k.key w) = toReply k w := by
  unfold toReply
  rw [clr_cmd, clr_conn]
  rfl

theorem fireTimeout_eqL {S : List WId} {x y : DB} (h : EqL S x y) (key : Nat) (w : Waiter) :
    EqL S (fireTimeout x key (clr S key w)).1 (fireTimeout y key w).1 ∧ (fireTimeout x key (clr S key w)).2 = (fireTimeout y key w).2 := by
  rw [fireTimeout_eq, fireTimeout_eq, h.keys key]
  have hk : (y.getKey key).key = key := getKey_key _ _
  have e1 : outK (clrK S (y.getKey key)) (clr S key w) = clrK S (outK (y.getKey key) w) := by
    have := outK_clrK S (y.getKey key) w
    rw [hk] at this; exact this
  have e2 : toReply (clrK S (y.getKey key)) (clr S key w) = toReply (y.getKey key) w := by
    have := toReply_clr S (y.getKey key) w
    rw [hk] at this; exact this
  rw [e1, e2]
  obtain ⟨w1, w2, w3⟩ := wake_clr (toDb_se h.se) S (outK (y.getKey key) w) [toReply (y.getKey key) w]
  rw [w2, w3]
  exact ⟨h.store w1 (by rw [wake_keys]; rfl) (by rw [wake_keys]; rfl) _, rfl⟩

theorem find_map_clr (S : List WId) (n : Nat) (ws : List Waiter) (w : Waiter) :
    (ws.map (clr S n)).find? (fun x => x.cmd.req == w.cmd.req && x.conn == w.conn) =
      (ws.find? (fun x => x.cmd.req == w.cmd.req && x.conn == w.conn)).map (clr S n) := by
  rw [List.find?_map]
  congr 2
  funext x
  simp only [Function.comp, clr_cmd, clr_conn]

/-- **firing one collected request keeps `EqL`** -/
theorem fireTimeoutStep_eqL {S : List WId} {x y : DB × List Reply} (h : EqL S x.1 y.1) (ho : x.2 = y.2) (w : Waiter) :
    EqL S (fireTimeoutStep x w).1 (fireTimeoutStep y w).1 ∧ (fireTimeoutStep x w).2 = (fireTimeoutStep y w).2 := by
  unfold fireTimeoutStep
  rw [h.keys, clrK_waiters, find_map_clr, ho]
  have hk : (y.1.getKey w.cmd.key).key = w.cmd.key := getKey_key _ _
  rw [hk]
  cases (y.1.getKey w.cmd.key).waiters.find? (fun x => x.cmd.req == w.cmd.req && x.conn == w.conn) with
  | none => exact ⟨h, ho⟩
  | some w' =>
    simp only [Option.map_some]
    obtain ⟨e1, e2⟩ := fireTimeout_eqL h w.cmd.key w'
    exact ⟨e1, by show y.2 ++ _ = y.2 ++ _; rw [e2]⟩

/-! ### a fired request is gone: it leaves `S` -/

theorem removeWaiter_none (ws : List Waiter) (w : Waiter) (hn : (ws.map rcW).Nodup) (hw : w ∈ ws) :
    ∀ v ∈ removeWaiter ws w, rcW v ≠ rcW w := by
  induction ws with
  | nil => simp at hw
  | cons a as ih =>
    simp only [List.map_cons, List.nodup_cons] at hn
    unfold removeWaiter
    by_cases e : (a.cmd.req == w.cmd.req && a.conn == w.conn) = true
    · rw [if_pos e]
      have ea : rcW a = rcW w := by
        simp only [Bool.and_eq_true, beq_iff_eq] at e
        unfold rcW; rw [e.1, e.2]
      intro v hv hvw
      exact hn.1 (by rw [ea, ← hvw]; exact List.mem_map.mpr ⟨v, hv, rfl⟩)
    · rw [if_neg e]
      have hwa : w ∈ as := by
        rcases List.mem_cons.mp hw with e' | e'
        · exfalso; apply e; rw [e']; simp
        · exact e'
      intro v hv
      rcases List.mem_cons.mp hv with e' | e'
      · rw [e']
        intro ea
        apply e
        unfold rcW at ea
        simp only [Prod.mk.injEq] at ea
        simp [ea.1, ea.2]
      · exact ih hn.2 hwa v e'

/-- after the firing step for `w`, no queued request under `w`'s key carries `w`'s (RequestId, connection) -/
theorem fireTimeoutStep_gone (acc : DB × List Reply) (w : Waiter) (hu : Engine.WU acc.1) :
    ∀ v ∈ ((fireTimeoutStep acc w).1.getKey w.cmd.key).waiters, ¬ (v.cmd.req = w.cmd.req ∧ v.conn = w.conn) := by
  unfold fireTimeoutStep
  cases hf : (acc.1.getKey w.cmd.key).waiters.find? (fun x => x.cmd.req == w.cmd.req && x.conn == w.conn) with
  | none =>
    simp only []
    intro v hv hvw
    have := List.find?_eq_none.mp hf v hv
    simp [hvw.1, hvw.2] at this
  | some w' =>
    simp only []
    rw [fireTimeout_eq]
    simp only []
    have hk : (wake (toDb acc.1) (outK (acc.1.getKey w.cmd.key) w') [toReply (acc.1.getKey w.cmd.key) w']).2.1.key = w.cmd.key := by
      rw [wake_key]; exact getKey_key _ _
    have e := getKey_setKey_same (wake (toDb acc.1) (outK (acc.1.getKey w.cmd.key) w') [toReply (acc.1.getKey w.cmd.key) w']).1
      (wake (toDb acc.1) (outK (acc.1.getKey w.cmd.key) w') [toReply (acc.1.getKey w.cmd.key) w']).2.1
    rw [hk] at e
    rw [e]
    intro v hv hvw
    have hv1 : v ∈ removeWaiter (acc.1.getKey w.cmd.key).waiters w' := (wake_sub _ _ _).subset hv
    have hw' : w' ∈ (acc.1.getKey w.cmd.key).waiters := List.mem_of_find?_eq_some hf
    have hp := List.find?_some hf
    simp only [Bool.and_eq_true, beq_iff_eq] at hp
    have := removeWaiter_none _ w' (getKey_wu hu w.cmd.key) hw' v hv1
    apply this
    unfold rcW
    rw [hvw.1, hvw.2, hp.1, hp.2]

theorem fireTimeout_wu' (db : DB) (key : Nat) (w : Waiter) (h : Engine.WU db) : Engine.WU (fireTimeout db key w).1 := by
  rw [fireTimeout_eq]
  exact wake_setKey_wu _ h rfl ((List.Sublist.map _ (removeWaiter_sublist _ _)).nodup (getKey_wu h key))

/-- names that no queued request carries may be dropped from `S` -/
theorem EqL.shrink {S : List WId} {x y : DB} (h : EqL S x y) (i : WId) (hi : ∀ v ∈ (y.getKey i.1).waiters, rcId i.1 v ≠ i) :
    EqL (S.filter (· != i)) x y := by
  refine ⟨h.se, fun n => ?_⟩
  rw [h.keys n]
  apply clrK_congr
  intro v hv
  rw [getKey_key] at *
  rw [List.mem_filter]
  constructor
  · intro hm
    refine ⟨hm, ?_⟩
    simp only [bne_iff_ne, ne_eq]
    intro e
    have hn : n = i.1 := by rw [← e]; rfl
    subst hn
    exact hi v hv e
  · exact fun hm => hm.1

/-- **the firing phase**: from `EqL S` with every name of `S` among the requests still to be fired, to `Equiv` -/
theorem fire_eqL (P : List Waiter) : ∀ (S : List WId) (x y : DB × List Reply), EqL S x.1 y.1 → x.2 = y.2 → Engine.WU y.1 →
    (∀ i ∈ S, ∃ w ∈ P, rcId w.cmd.key w = i) →
    Equiv (P.foldl fireTimeoutStep x).1 (P.foldl fireTimeoutStep y).1 ∧ (P.foldl fireTimeoutStep x).2 = (P.foldl fireTimeoutStep y).2 := by
  induction P with
  | nil =>
    intro S x y h ho _ hS
    have : S = [] := by
      cases S with
      | nil => rfl
      | cons i _ => obtain ⟨w, hw, _⟩ := hS i (by simp); simp at hw
    subst this
    exact ⟨h.equiv, ho⟩
  | cons w ws ih =>
    intro S x y h ho hu hS
    simp only [List.foldl_cons]
    obtain ⟨e1, e2⟩ := fireTimeoutStep_eqL h ho w
    have hgone := fireTimeoutStep_gone y w hu
    have e3 := e1.shrink (rcId w.cmd.key w) (by
      intro v hv e
      apply hgone v hv
      unfold rcId at e
      simp only [Prod.mk.injEq, true_and] at e
      exact e)
    refine ih _ _ _ e3 e2 ?_ ?_
    · unfold fireTimeoutStep
      split
      · exact fireTimeout_wu' _ _ _ hu
      · exact hu
    · intro i hi
      obtain ⟨hi1, hi2⟩ := List.mem_filter.mp hi
      obtain ⟨v, hv, ev⟩ := hS i hi1
      rcases List.mem_cons.mp hv with e | e
      · exfalso
        rw [e] at ev
        simp only [bne_iff_ne, ne_eq] at hi2
        exact hi2 ev.symm
      · exact ⟨v, e, ev⟩

end Slock.SimTick
