import Slock.Proofs.Engine2SimWake
/-! Simulation stage 2 → stage 1: the wake pass (`wakeUpWaitLocks` = stage 1's `wakePass`). -/
namespace Slock.Sim
open Slock Slock.Engine2
open Slock.Engine (has)

/-- what the wake pass needs of the wait queue: entries are distinct records, a live request is not in the holder queue, and its
connection is the one of its command -/
structure WQ (k : Key) : Prop where
  nd : (k.wait.map (·.rid)).Nodup
  sep : ∀ e ∈ k.wait, k.deadWaiter e.rid = false → e.rid ∉ k.current.toList ++ k.locks
  cs : ∀ e ∈ k.wait, k.deadWaiter e.rid = false → (k.getR e.rid).conn = (k.getR e.rid).cmd.conn

theorem waitSkip_suffix (l : List WEnt) (k : Key) (hl : k.wait = l) : ∃ pre, l = pre ++ (waitSkip l k).1.wait := by
  induction l generalizing k with
  | nil => exact ⟨[], by unfold waitSkip; rw [hl]; rfl⟩
  | cons e rest ih =>
    unfold waitSkip
    split
    · obtain ⟨_, q2, _⟩ := unref_queues { k with wait := rest, waitPopped := if k.waitPrio then k.waitPopped else k.waitPopped + 1 } e.rid
      obtain ⟨pre, hp⟩ := ih _ q2
      exact ⟨e :: pre, by rw [List.cons_append, ← hp]⟩
    · exact ⟨[], by rw [hl]; rfl⟩

theorem timeouted_of_πA {r r' : Rec} (h : πA r' = πA r) : r'.timeouted = r.timeouted := congrArg (fun t => t.2.2) h
theorem conn_of_πA {r r' : Rec} (h : πA r' = πA r) : r'.conn = r.conn := congrArg (fun t => t.2.1.conn) h
theorem cmd_of_πA {r r' : Rec} (h : πA r' = πA r) : r'.cmd = r.cmd := congrArg (fun t => t.2.1.cmd) h

theorem WQ.getWaitLock {w : W} (g : Good w) (q : WQ w.k) : WQ (w.modK (·.getWaitLock.1)).k := by
  have g1 := good_getWaitLock g
  obtain ⟨pre, hp⟩ := waitSkip_suffix w.k.wait w.k rfl
  obtain ⟨c1, c2⟩ := waitSkip_cl w.k.wait w.k
  have pk : PKeep πA w.k.getWaitLock.1 w.k := PKeep.getWaitLock ins_πA w.k
  have hmem : ∀ e ∈ w.k.getWaitLock.1.wait, e ∈ w.k.wait := fun e he => by rw [hp]; exact List.mem_append_right _ he
  have hrec : ∀ e ∈ w.k.getWaitLock.1.wait, w.k.getWaitLock.1.hasRec e.rid := wait_hasRec g1.lv
  have hdead : ∀ e ∈ w.k.getWaitLock.1.wait, w.k.getWaitLock.1.deadWaiter e.rid = w.k.deadWaiter e.rid :=
    fun e he => timeouted_of_πA (pk.val _ (hrec e he))
  refine ⟨?_, ?_, ?_⟩
  · have := q.nd
    rw [hp, List.map_append] at this
    exact (List.nodup_append.mp this).2.1
  · intro e he hd
    show e.rid ∉ w.k.getWaitLock.1.current.toList ++ w.k.getWaitLock.1.locks
    have : w.k.getWaitLock.1.current = w.k.current ∧ w.k.getWaitLock.1.locks = w.k.locks := ⟨c1, c2⟩
    rw [this.1, this.2]
    exact q.sep e (hmem e he) ((hdead e he).symm.trans hd)
  · intro e he hd
    have hv := pk.val _ (hrec e he)
    show (w.k.getWaitLock.1.getR e.rid).conn = (w.k.getWaitLock.1.getR e.rid).cmd.conn
    rw [conn_of_πA hv, cmd_of_πA hv]
    exact q.cs e (hmem e he) ((hdead e he).symm.trans hd)

theorem foldl_unref_queues (d : List Nat) (k : Key) :
    (d.foldl (fun k x => k.unref x) k).locks = k.locks ∧ (d.foldl (fun k x => k.unref x) k).current = k.current := by
  induction d generalizing k with
  | nil => exact ⟨rfl, rfl⟩
  | cons a as ih =>
    obtain ⟨q1, _, q3, _⟩ := unref_queues k a
    obtain ⟨i1, i2⟩ := ih (k.unref a)
    exact ⟨i1.trans q1, i2.trans q3⟩

theorem locksPush_sub (k : Key) (rid y : Nat) (hy : y ∈ (k.locksPush rid).locks) : y ∈ k.locks ∨ y = rid := by
  unfold Key.locksPush at hy
  simp only [] at hy
  split at hy
  · rcases List.mem_append.mp hy with h | h
    · exact Or.inl h
    · exact Or.inr (by simpa using h)
  · split at hy
    · exact Or.inr (by simpa using hy)
    · rw [(foldl_unref_queues _ _).1] at hy
      split at hy
      all_goals
        rcases List.mem_append.mp hy with h | h
        · exact Or.inl (List.mem_filter.mp h).1
        · exact Or.inr (by simpa using h)

theorem addLock_sub (k : Key) (rid y : Nat) (f : Rec → Rec) (hy : y ∈ (k.addLock rid f).current.toList ++ (k.addLock rid f).locks) :
    y ∈ k.current.toList ++ k.locks ∨ y = rid := by
  unfold Key.addLock at hy
  cases hc : k.current with
  | none =>
    rw [hc] at hy
    simp only [] at hy
    rcases List.mem_append.mp hy with h | h
    · exact Or.inr (by simpa using h)
    · exact Or.inl (List.mem_append_right _ h)
  | some c =>
    rw [hc] at hy
    simp only [] at hy
    rw [locksPush_cur] at hy
    rcases List.mem_append.mp hy with h | h
    · have h' : y ∈ k.current.toList := h
      exact Or.inl (List.mem_append_left _ (hc ▸ h'))
    · rcases locksPush_sub _ rid y h with h2 | h2
      · exact Or.inl (List.mem_append_right _ h2)
      · exact Or.inr h2

theorem grant_sub (w : W) (rid y : Nat) (hy : y ∈ (w.grant rid).k.current.toList ++ (w.grant rid).k.locks) :
    y ∈ w.k.current.toList ++ w.k.locks ∨ y = rid := by
  rw [grant_eq] at hy
  obtain ⟨q1, q2, _⟩ := queues_eq (grantTail_sx ((w.addLock rid).modK incLocked) rid).q
  rw [q1, q2] at hy
  exact addLock_sub w.k rid y _ hy

theorem wakeOne_others (w : W) (rid : Nat) : PKeepX πA (· = rid) (w.wakeOne rid).k w.k := by
  rw [wakeOne_eq]
  split
  · exact (grant_others (wakePre w rid) rid).trans (wakePre_sx w rid).p
  · exact ((((wakePre_sx w rid).grantNoHold rid).ctr _).reply _ _ _ _).p

theorem wakeOne_sub (w : W) (rid y : Nat) (hy : y ∈ (w.wakeOne rid).k.current.toList ++ (w.wakeOne rid).k.locks) :
    y ∈ w.k.current.toList ++ w.k.locks ∨ y = rid := by
  obtain ⟨p1, p2, _⟩ := queues_eq (wakePre_sx w rid).q
  rw [wakeOne_eq] at hy
  split at hy
  · have := grant_sub (wakePre w rid) rid y hy
    rw [p1, p2] at this
    exact this
  · obtain ⟨q1, q2, _⟩ := queues_eq ((((wakePre_sx w rid).grantNoHold rid).ctr (fun c => { c with lockCount := c.lockCount + 1 })).reply
      { ((wakePre w rid).k.getR rid).cmd with conn := ((wakePre w rid).k.getR rid).conn } Engine.RESULT_SUCCED 0 (wakePre w rid).lockData).q
    rw [q1, q2] at hy
    exact Or.inl hy

theorem WQ.wakeOne {w : W} (g : Good w) (q : WQ w.k) (rid : Nat) (e : WEnt) (rest : List WEnt) (hw : w.k.wait = e :: rest) (he : e.rid = rid)
    (hd : w.k.deadWaiter rid = false) : WQ (w.wakeOne rid).k := by
  obtain ⟨g2, hh2, _⟩ := g.wakeOne rid e rest hw he hd
  obtain ⟨s1, s2, _⟩ := wakeOne_spec w rid
  have px := wakeOne_others w rid
  have hrec : ∀ x ∈ (w.wakeOne rid).k.wait, (w.wakeOne rid).k.hasRec x.rid := wait_hasRec g2.lv
  have hdead2 : (w.wakeOne rid).k.deadWaiter rid = true := s2 hh2
  have hne : ∀ x ∈ (w.wakeOne rid).k.wait, (w.wakeOne rid).k.deadWaiter x.rid = false → x.rid ≠ rid := by
    intro x _ hx e'
    rw [e', hdead2] at hx
    exact absurd hx (by simp)
  refine ⟨by rw [s1]; exact q.nd, ?_, ?_⟩
  · intro x hx hdx hm
    have hne' := hne x hx hdx
    have hv := px.val x.rid hne' (hrec x hx)
    have hdx0 : w.k.deadWaiter x.rid = false := (timeouted_of_πA hv).symm.trans hdx
    rcases wakeOne_sub w rid x.rid hm with h | h
    · exact q.sep x (s1 ▸ hx) hdx0 h
    · exact hne' h
  · intro x hx hdx
    have hne' := hne x hx hdx
    have hv := px.val x.rid hne' (hrec x hx)
    have hdx0 : w.k.deadWaiter x.rid = false := (timeouted_of_πA hv).symm.trans hdx
    rw [conn_of_πA hv, cmd_of_πA hv]
    exact q.cs x (s1 ▸ hx) hdx0

/-! ### the loop -/

theorem wakeIter_some {db : Engine.DB} {k : Engine.Key} {db' : Engine.DB} {k' : Engine.Key} {r : Engine.Reply}
    (h : Engine.wakeIter db k = some (db', k', r)) : k'.waited = k.waited ∧ k'.waiters.length + 1 = k.waiters.length := by
  unfold Engine.wakeIter at h
  cases hw : k.waiters with
  | nil => simp [hw] at h
  | cons w rest =>
    simp only [hw] at h
    by_cases hd : Engine.doLock k w.cmd = true
    · simp only [hd, Bool.not_true, Bool.false_eq_true, if_false] at h
      by_cases he : w.cmd.expried > 0
      · simp only [he, if_true] at h
        injection h with h; injection h with h1 h2; injection h2 with h2 h3
        rw [← h2]
        exact ⟨rfl, rfl⟩
      · simp only [he, if_false] at h
        injection h with h; injection h with h1 h2; injection h2 with h2 h3
        rw [← h2]
        exact ⟨rfl, rfl⟩
    · simp [hd] at h

/-- the key record as stage 1 sees it after an operation on it: its view if the record is still linked, an empty key if it was reclaimed -/
def Loc (w : W) (k' : Engine.Key) : Prop := (w.gone = false → Key.abs w.k = k') ∧ (w.gone = true → k'.isEmpty = true)

theorem holders_nil_of_recs {k : Key} (h : k.recs = []) : (Key.abs k).holders = [] := by
  rw [abs_holders]
  have : ∀ x, k.liveHolder x = false := by
    intro x
    unfold Key.liveHolder
    rw [getR_of_not_hasRec k x (by intro ⟨r, hr, _⟩; rw [h] at hr; simp at hr)]
    rfl
  simp [this]

/-- **the wake pass of stage 2 is the wake pass of stage 1** (any stage-1 fuel above the number of live requests) -/
theorem sim_wakePass (f2 : Nat) : ∀ (f1 : Nat) (w : W) (g : Good w) (cl : CurLive w.k) (hg : w.gone = false) (cn : CurNone w.k) (q : WQ w.k)
    (hf : FuelOK f2 w.k) (hwd : w.k.waited = true) (a : Engine.DB) (hs : Scal a w.db) (ki : Engine.KeyInv (Key.abs w.k))
    (hf1 : (Key.abs w.k).waiters.length < f1) (out1 : List Engine.Reply) (ho : w.out.map (·.r) = out1),
    Scal (Engine.wakePass f1 a (Key.abs w.k) out1).1 (W.wakePass f2 w).db ∧ Loc (W.wakePass f2 w) (Engine.wakePass f1 a (Key.abs w.k) out1).2.1 ∧
      (W.wakePass f2 w).out.map (·.r) = (Engine.wakePass f1 a (Key.abs w.k) out1).2.2 := by
  induction f2 with
  | zero =>
    intro f1 w g cl hg cn q hf
    exfalso
    rcases hf with h | ⟨h1, e, rest, h2, _⟩
    · omega
    · rw [h2] at h1; simp at h1
  | succ n ih =>
    intro f1 w g cl hg cn q hf hwd a hs ki hf1 out1 ho
    cases f1 with
    | zero => omega
    | succ m =>
    have g1 := good_getWaitLock g
    have habs1 : Key.abs (w.modK (·.getWaitLock.1)).k = Key.abs w.k := abs_getWaitLock w.k g.lv.rc
    have cn1 : CurNone (w.modK (·.getWaitLock.1)).k := by
      obtain ⟨x, y⟩ := waitSkip_cl w.k.wait w.k
      exact cn.of_cl x y
    have cl1 : CurLive (w.modK (·.getWaitLock.1)).k := cl.of_dk (dk_modK w _ (DepthKeep.getWaitLock _)) g1.lv
    have q1 := q.getWaitLock g
    have hwd1 : (Key.abs w.k).waited = true := hwd
    have hu1 : ∀ X, Engine.wakePass (m + 1) a (Key.abs w.k) out1 = X →
        (match Engine.wakeIter a (Key.abs w.k) with
          | some (db', k', r) => Engine.wakePass m db' k' (out1 ++ [r])
          | none => if (Key.abs w.k).waiters.isEmpty then (a, { Key.abs w.k with waited := false }, out1) else (a, Key.abs w.k, out1)) = X := by
      intro X hX
      rw [← hX]
      conv => rhs; unfold Engine.wakePass
      rw [hwd1]
      rfl
    unfold W.wakePass
    simp only []
    cases hr : w.k.getWaitLock.2 with
    | none =>
      -- the queue is empty
      simp only []
      rw [← hu1 _ rfl]
      have hw0 : (w.modK (·.getWaitLock.1)).k.wait = [] := waitSkip_none w.k.wait w.k rfl hr
      have hws : (Key.abs w.k).waiters = [] := by
        rw [← habs1, abs_waiters, hw0]; rfl
      have hit : Engine.wakeIter a (Key.abs w.k) = none := by unfold Engine.wakeIter; rw [hws]
      rw [hit]
      simp only [hws, List.isEmpty_nil, if_true]
      obtain ⟨r1, r2, r3, r4, r5, r6⟩ := removeIfZero_fields ((w.modK (·.getWaitLock.1)).modK clearWaited)
      refine ⟨⟨hs.now.trans r1.symm, hs.tCheck.trans r3.symm, hs.eCheck.trans r4.symm, hs.seq.trans r5.symm, hs.leader.trans r2.symm,
        hs.ctr.trans r6.symm⟩, ?_, by rw [removeIfZero_out]; exact ho⟩
      rcases removeIfZero_cases ((w.modK (·.getWaitLock.1)).modK clearWaited) with e | ⟨e1, _, _, e4, _⟩
      · rw [e]
        refine ⟨fun _ => ?_, fun h => ?_⟩
        · have e0 : Key.abs ((w.modK (·.getWaitLock.1)).modK clearWaited).k = { Key.abs (w.modK (·.getWaitLock.1)).k with waited := false } := rfl
          rw [e0, habs1]
          exact abs_ext rfl rfl rfl hws rfl
        · rw [show ((w.modK (·.getWaitLock.1)).modK clearWaited).gone = w.gone from rfl, hg] at h
          exact absurd h (by simp)
      · refine ⟨fun h => by rw [e1] at h; exact absurd h (by simp), fun _ => ?_⟩
        have hrecs : (w.modK (·.getWaitLock.1)).k.recs = [] := by
          have := g1.lv.rc.mgr
          have e4' : (w.modK (·.getWaitLock.1)).k.refCount = 0 := e4
          rw [e4'] at this
          exact List.length_eq_zero_iff.mp this.symm
        have hh : (Key.abs w.k).holders = [] := by rw [← habs1]; exact holders_nil_of_recs hrecs
        have hl : (Key.abs w.k).locked = 0 := by
          rw [ki.sum, hh]; rfl
        unfold Engine.Key.isEmpty
        simp only []
        rw [hh, hl]; rfl
    | some rid =>
      simp only []
      rw [← hu1 _ rfl]
      obtain ⟨e, rest, hw, he, hd⟩ := getWaitLock_some w.k rid hr
      have hw' : (w.modK (·.getWaitLock.1)).k.wait = e :: rest := hw
      have hd' : (w.modK (·.getWaitLock.1)).k.deadWaiter rid = false := hd
      have hmem : e ∈ (w.modK (·.getWaitLock.1)).k.wait := by rw [hw']; simp
      obtain ⟨hws, _⟩ := wakePre_abs (w.modK (·.getWaitLock.1)) g1.lv rid e rest hw' he hd' q1.nd (he ▸ q1.sep e hmem (he ▸ hd'))
      rw [habs1] at hws
      have hdl := abs_doLock (w.modK (·.getWaitLock.1)).k cl1 cn1 (((w.modK (·.getWaitLock.1)).k.getR rid).cmd)
      rw [habs1] at hdl
      by_cases hdo : doLock (w.modK (·.getWaitLock.1)).k ((w.modK (·.getWaitLock.1)).k.getR rid).cmd = true
      · rw [hdo]
        simp only [Bool.not_true, Bool.false_eq_true, if_false]
        obtain ⟨a', k', r', hit, hs', habs', hout'⟩ := wakeOne_sim (w.modK (·.getWaitLock.1)) g1 cn1 rid e rest hw' he hd' q1.nd
          (he ▸ q1.sep e hmem (he ▸ hd')) (he ▸ q1.cs e hmem (he ▸ hd')) a hs (by rw [habs1, hdl]; exact hdo)
        rw [habs1] at hit
        rw [hit]
        simp only []
        obtain ⟨g2, hh2, c2⟩ := g1.wakeOne rid e rest hw' he hd'
        obtain ⟨s1, s2, s3⟩ := wakeOne_spec (w.modK (·.getWaitLock.1)) rid
        obtain ⟨t1, t2⟩ := wakeIter_some hit
        have hfuel : FuelOK n ((w.modK (·.getWaitLock.1)).wakeOne rid).k := by
          right
          have hlen := waitSkip_len w.k.wait w.k rfl
          refine ⟨?_, e, rest, s1.trans hw', by rw [he]; exact s2 hh2⟩
          rw [s1]
          have hl1 : (w.modK (·.getWaitLock.1)).k.wait.length ≤ w.k.wait.length := hlen.1
          rcases hf with h | ⟨h1, e0, rest0, h2, h3⟩
          · omega
          · have := hlen.2 e0 rest0 h2 (by simpa [Key.deadWaiter] using h3)
            have : (w.modK (·.getWaitLock.1)).k.wait.length < w.k.wait.length := this
            omega
        have := ih m ((w.modK (·.getWaitLock.1)).wakeOne rid) g2 (c2 cl1) ((gone_wakeOne _ rid).trans hg) (s3 cn1)
          (q1.wakeOne g1 rid e rest hw' he hd') hfuel
          (by
            have : (Key.abs ((w.modK (·.getWaitLock.1)).wakeOne rid).k).waited = true := by rw [habs', t1]; exact hwd
            exact this)
          a' hs' (by rw [habs']; exact Engine.wakeIter_inv ki hit) (by rw [habs']; omega) (out1 ++ [r']) (by rw [hout']; show w.out.map (·.r) ++ [r'] = _; rw [ho])
        rw [habs'] at this
        exact this
      · have hdo' : doLock (w.modK (·.getWaitLock.1)).k ((w.modK (·.getWaitLock.1)).k.getR rid).cmd = false := by
          cases h : doLock (w.modK (·.getWaitLock.1)).k ((w.modK (·.getWaitLock.1)).k.getR rid).cmd
          · rfl
          · exact absurd h hdo
        rw [hdo']
        simp only [Bool.not_false, if_true]
        have hit : Engine.wakeIter a (Key.abs w.k) = none := by
          unfold Engine.wakeIter
          rw [hws]
          simp only []
          have : Engine.doLock (Key.abs w.k) (waiterOf (w.modK (·.getWaitLock.1)).k rid).cmd = false := by
            show Engine.doLock (Key.abs w.k) ((w.modK (·.getWaitLock.1)).k.getR rid).cmd = false
            rw [hdl]; exact hdo'
          rw [this]
          rfl
        rw [hit]
        simp only [hws, List.isEmpty_cons, Bool.false_eq_true, if_false]
        exact ⟨hs, ⟨fun _ => habs1, fun h => by rw [show (w.modK (·.getWaitLock.1)).gone = w.gone from rfl, hg] at h; exact absurd h (by simp)⟩, ho⟩

/-- **`wakeUpWaitLocks` refines stage 1's `wake`** -/
theorem sim_wake (w : W) (g : Good w) (cl : CurLive w.k) (hg : w.gone = false) (cn : CurNone w.k) (q : WQ w.k)
    (a : Engine.DB) (hs : Scal a w.db) (ki : Engine.KeyInv (Key.abs w.k)) (out1 : List Engine.Reply) (ho : w.out.map (·.r) = out1) :
    Scal (Engine.wake a (Key.abs w.k) out1).1 w.wake.db ∧ Loc w.wake (Engine.wake a (Key.abs w.k) out1).2.1 ∧
      w.wake.out.map (·.r) = (Engine.wake a (Key.abs w.k) out1).2.2 := by
  unfold W.wake W.when Engine.wake
  cases hwd : w.k.waited with
  | true =>
    simp only [if_true]
    exact sim_wakePass _ _ w g cl hg cn q (Or.inl (Nat.le_refl _)) hwd a hs ki (Nat.lt_succ_self _) out1 ho
  | false =>
    simp only [Bool.false_eq_true, if_false]
    have hwd1 : (Key.abs w.k).waited = false := hwd
    unfold Engine.wakePass
    rw [hwd1]
    simp only [Bool.not_false, if_true]
    exact ⟨hs, ⟨fun _ => rfl, fun h => by rw [hg] at h; exact absurd h (by simp)⟩, ho⟩

end Slock.Sim
