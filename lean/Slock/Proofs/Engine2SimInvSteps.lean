import Slock.Proofs.Engine2SimInv
/-! Simulation stage 2 → stage 1: `KI` through the steps that do touch what it reads. -/
namespace Slock.Sim
open Slock Slock.Engine2
open Slock.Engine (has)

/-- the reclaim check: the reset key record has shorter queues -/
theorem WI.removeIfZero {w : W} (h : WI w) : WI w.removeIfZero := by
  unfold W.removeIfZero
  split
  · refine KI.of_pk_sub (k := w.k) h ?_ ?_ (PKeep.of_eq rfl)
    · show (w.k.current.toList ++ []).Sublist _
      rw [List.append_nil]; exact List.sublist_append_left _ _
    · exact List.nil_sublist _
  · exact h

theorem WI.freeCheck {w : W} (h : WI w) (rid : Nat) : WI (w.freeCheck rid) := by
  unfold W.freeCheck
  exact (h.ik (IK.free w rid)).removeIfZero

theorem WI.unrefCheck {w : W} (h : WI w) (rid : Nat) : WI (w.unrefCheck rid) := by
  unfold W.unrefCheck
  simp only []
  unfold W.when
  split
  · exact (h.ik (IK.unrefOnly w rid)).freeCheck rid
  · exact h.ik (IK.unrefOnly w rid)

theorem WI.dropT {w : W} (h : WI w) (rid : Nat) : WI (w.dropT rid) := by
  unfold W.dropT
  exact (h.ik (IK.modR w rid (fun r => { r with tSched := none }) (fun _ => rfl) (fun _ => rfl))).unrefCheck rid

/-- a new lock record (not in any queue yet) -/
theorem WI.newLock {w : W} (h : WI w) (l : Lv w zero) (c : Engine.Cmd) (d : Option Bytes) : WI (w.newLock c d).1 := by
  have hfresh : ¬ w.k.hasRec w.db.nextRid := by
    rintro ⟨r, hr, e⟩
    have := l.side.fresh r hr
    omega
  have hg : (w.newLock c d).1.k.getR w.db.nextRid = newRec w.db.nextRid w.db.now c d := getR_addRec_same w.k _ hfresh
  refine KI.step1_same (k := w.k) h w.db.nextRid (Nat.le_refl _) (PKeepX.addRec w.k _ rfl) (fun y hy => Or.inl hy) h.ln h.nd ?_ ?_ ?_ ?_
  · intro _; rw [hg]; rfl
  · intro _ sc hsc; rw [hg] at hsc; exact absurd hsc (by simp [newRec])
  · intro _ hd; rw [hg] at hd; exact absurd hd (by simp [newRec])
  · intro hm
    exfalso
    have := qRefs_pos_of_holder w.k _ hm
    exact hfresh (l.rc.dang _ (by simp only [zero]; omega))

/-- one record changes, the queues stay, the record keeps its identity and does not come to life -/
theorem WI.step_q2 {w w' : W} (h : WI w) (rid : Nat) (hs : w.db.seq ≤ w'.db.seq) (px : PKeepX πI (· = rid) w'.k w.k) (q : w'.k.queues = w.k.queues)
    (cs' : w'.k.hasRec rid → (w'.k.getR rid).conn = (w'.k.getR rid).cmd.conn)
    (ck' : w'.k.hasRec rid → ∀ sc, (w'.k.getR rid).eSched = some sc → sc.checked = (w'.k.getR rid).eChecked)
    (hid' : w'.k.hasRec rid → 0 < (w'.k.getR rid).depth → w.k.hasRec rid ∧ 0 < (w.k.getR rid).depth ∧ (w'.k.getR rid).hid = (w.k.getR rid).hid)
    (ht' : w'.k.hasRec rid → rid ∈ w.k.current.toList ++ w.k.locks → (w'.k.getR rid).timeouted = true) : WI w' := by
  obtain ⟨q1, q2, q3⟩ := queues_eq q
  refine KI.step1_same (k := w.k) h rid hs px (fun y hy => Or.inl (by rw [← q1, ← q2]; exact hy)) (by rw [q1, q2]; exact h.ln)
    (by rw [q3]; exact h.nd) cs' ck' hid' ?_
  intro hm
  by_cases hh : w'.k.hasRec rid
  · exact ht' hh (by rw [← q1, ← q2]; exact hm)
  · exact timeouted_dead _ _ hh

theorem WI.step_q {w w' : W} (h : WI w) (rid : Nat) (hs : w.db.seq ≤ w'.db.seq) (px : PKeepX πI (· = rid) w'.k w.k) (q : w'.k.queues = w.k.queues)
    (cs' : w'.k.hasRec rid → (w'.k.getR rid).conn = (w'.k.getR rid).cmd.conn)
    (ck' : w'.k.hasRec rid → ∀ sc, (w'.k.getR rid).eSched = some sc → sc.checked = (w'.k.getR rid).eChecked)
    (hid' : w'.k.hasRec rid → 0 < (w'.k.getR rid).depth → w.k.hasRec rid ∧ 0 < (w.k.getR rid).depth ∧ (w'.k.getR rid).hid = (w.k.getR rid).hid)
    (ht' : w'.k.hasRec rid → (w.k.getR rid).timeouted = true → (w'.k.getR rid).timeouted = true) : WI w' :=
  h.step_q2 rid hs px q cs' ck' hid' (fun hh hm => ht' hh (h.ht rid hm))

/-- an edit of one record -/
theorem WI.modR1 {w : W} (h : WI w) (rid : Nat) (f : Rec → Rec) (hf : ∀ r, (f r).rid = r.rid)
    (cs' : (w.k.getR rid).conn = (w.k.getR rid).cmd.conn → (f (w.k.getR rid)).conn = (f (w.k.getR rid)).cmd.conn)
    (ck' : (∀ sc, (w.k.getR rid).eSched = some sc → sc.checked = (w.k.getR rid).eChecked) →
      ∀ sc, (f (w.k.getR rid)).eSched = some sc → sc.checked = (f (w.k.getR rid)).eChecked)
    (hid' : 0 < (f (w.k.getR rid)).depth → 0 < (w.k.getR rid).depth ∧ (f (w.k.getR rid)).hid = (w.k.getR rid).hid)
    (ht' : (w.k.getR rid).timeouted = true → (f (w.k.getR rid)).timeouted = true) : WI (w.modR rid f) := by
  have key : ∀ hh : (w.modR rid f).k.hasRec rid, w.k.hasRec rid ∧ (w.modR rid f).k.getR rid = f (w.k.getR rid) := by
    intro hh
    have hk := (hasRec_modR w rid rid f hf).mp hh
    exact ⟨hk, getR_modRec_same _ _ _ hf hk⟩
  refine h.step_q rid (Nat.le_refl _) (PKeepX.modRec w.k rid f hf rfl) rfl ?_ ?_ ?_ ?_
  · intro hh; obtain ⟨hk, e⟩ := key hh; rw [e]; exact cs' (h.cs rid hk)
  · intro hh; obtain ⟨hk, e⟩ := key hh; rw [e]; exact ck' (h.ck rid hk)
  · intro hh hd; obtain ⟨hk, e⟩ := key hh; rw [e] at hd ⊢; exact ⟨hk, hid' hd⟩
  · intro hh ht; obtain ⟨hk, e⟩ := key hh; rw [e]; exact ht' ht

theorem wheelAdd_checked (ck seq d n : Nat) : (Engine.wheelAdd ck seq d n).2.checked = n := by
  unfold Engine.wheelAdd; split <;> rfl

/-- `AddExpried(rid)` (possibly after an edit `f` of the back-off counter): the new entry caches the counter -/
theorem WI.rearmE {w : W} (h : WI w) (rid : Nat) (f : Rec → Rec) (hf : ∀ r, (f r).rid = r.rid)
    (hp : ∀ r, (f r).conn = r.conn ∧ (f r).cmd = r.cmd ∧ (f r).depth = r.depth ∧ (f r).hid = r.hid ∧ (f r).timeouted = r.timeouted) :
    WI ((w.modR rid f).addExpried rid) := by
  have pxs1 : PKeepX πI (· = rid) ((w.modR rid f).schedExpried rid).k (w.modR rid f).k := by
    unfold W.schedExpried
    exact PKeepX.modRec _ rid _ (fun _ => rfl) rfl
  have pxs : PKeepX πI (· = rid) ((w.modR rid f).schedExpried rid).k w.k := pxs1.trans (PKeepX.modRec w.k rid f hf rfl)
  have px : PKeepX πI (· = rid) ((w.modR rid f).addExpried rid).k w.k := by
    unfold W.addExpried
    simp only []
    exact (PKeepX.of_pk (pk_when _ _ _ (pk_pushLockAofN ins_πI _ _ _))).trans pxs
  have hseq : w.db.seq ≤ ((w.modR rid f).addExpried rid).db.seq := by
    rw [(addExpried_db (w.modR rid f) rid).1]; exact Nat.le_succ _
  have key : ∀ hh : ((w.modR rid f).addExpried rid).k.hasRec rid, w.k.hasRec rid ∧
      πG (((w.modR rid f).addExpried rid).k.getR rid) =
        πG (Rec.armE (Engine.wheelAdd (w.modR rid f).db.eCheck (w.modR rid f).db.seq (f (w.k.getR rid)).expT (f (w.k.getR rid)).eChecked) (f (w.k.getR rid))) := by
    intro hh
    have h1 : (w.modR rid f).k.hasRec rid := (hasRec_of_ids (ids_addExpried _ rid) rid).mp hh
    have hk := (hasRec_modR w rid rid f hf).mp h1
    obtain ⟨_, e⟩ := addExpried_rec (w.modR rid f) rid h1
    have eg : (w.modR rid f).k.getR rid = f (w.k.getR rid) := getR_modRec_same _ _ _ hf hk
    rw [eg] at e
    exact ⟨hk, e⟩
  have hto : ∀ hh : ((w.modR rid f).addExpried rid).k.hasRec rid,
      (((w.modR rid f).addExpried rid).k.getR rid).timeouted = (w.k.getR rid).timeouted := by
    intro hh
    have h1 : (w.modR rid f).k.hasRec rid := (hasRec_of_ids (ids_addExpried _ rid) rid).mp hh
    have hk := (hasRec_modR w rid rid f hf).mp h1
    have p : PK (·.timeouted) ((w.modR rid f).addExpried rid) (w.modR rid f) := pk_addExpried ins_timeouted _ rid (fun _ _ => rfl)
    rw [p.val rid hh]
    show ((w.k.modRec rid f).getR rid).timeouted = _
    rw [getR_modRec_same _ _ _ hf hk, (hp _).2.2.2.2]
  refine h.step_q rid hseq px ((qk_addExpried _ rid).q.trans rfl) ?_ ?_ ?_ ?_
  · intro hh
    obtain ⟨hk, e⟩ := key hh
    have e3 := congrArg (fun t => t.2.2.1) e
    have e2 := congrArg (fun t => t.2.1) e
    simp only [πG, Rec.armE] at e2 e3
    rw [e3, e2, (hp _).1, (hp _).2.1]
    exact h.cs rid hk
  · intro hh sc hsc
    obtain ⟨hk, e⟩ := key hh
    have e7 := congrArg (fun t => t.2.2.2.2.2.2.1) e
    have e8 := congrArg (fun t => t.2.2.2.2.2.2.2) e
    simp only [πG, Rec.armE] at e7 e8
    rw [e8] at hsc
    have : sc = (Engine.wheelAdd (w.modR rid f).db.eCheck (w.modR rid f).db.seq (f (w.k.getR rid)).expT (f (w.k.getR rid)).eChecked).2 :=
      (Option.some.inj hsc).symm
    rw [this, wheelAdd_checked, e7]
  · intro hh hd
    obtain ⟨hk, e⟩ := key hh
    have e4 := congrArg (fun t => t.2.2.2.1) e
    have e1 := congrArg (fun t => t.1) e
    simp only [πG, Rec.armE] at e4 e1
    rw [e4, (hp _).2.2.1] at hd
    exact ⟨hk, hd, by rw [e1, (hp _).2.2.2.1]⟩
  · intro hh ht
    rw [hto hh]; exact ht

/-- `AddTimeOut(rid)` for a record that is not in the holder queue: it becomes (or stays) a live queued request -/
theorem WI.addTimeOut {w : W} (h : WI w) (rid : Nat) (hnot : rid ∉ w.k.current.toList ++ w.k.locks) : WI (w.addTimeOut rid) := by
  have key : ∀ hh : (w.addTimeOut rid).k.hasRec rid, w.k.hasRec rid ∧
      (w.addTimeOut rid).k.getR rid = Rec.armT (Engine.wheelAdd w.db.tCheck w.db.seq (w.k.getR rid).timeoutT (w.k.getR rid).tChecked) (w.k.getR rid) := by
    intro hh
    have hk : w.k.hasRec rid :=
      (hasRec_modRec w.k rid rid (Rec.armT (Engine.wheelAdd w.db.tCheck w.db.seq (w.k.getR rid).timeoutT (w.k.getR rid).tChecked)) (fun _ => rfl)).mp hh
    exact ⟨hk, getR_modRec_same _ rid (Rec.armT (Engine.wheelAdd w.db.tCheck w.db.seq (w.k.getR rid).timeoutT (w.k.getR rid).tChecked)) (fun _ => rfl) hk⟩
  have px : PKeepX πI (· = rid) (w.addTimeOut rid).k w.k := by
    unfold W.addTimeOut
    exact PKeepX.modRec (X := (· = rid)) w.k rid _ (fun _ => rfl) rfl
  refine h.step_q2 rid (Nat.le_succ _) px rfl ?_ ?_ ?_ ?_
  · intro hh; obtain ⟨hk, e⟩ := key hh; rw [e]; exact h.cs rid hk
  · intro hh; obtain ⟨hk, e⟩ := key hh; rw [e]; exact h.ck rid hk
  · intro hh hd; obtain ⟨hk, e⟩ := key hh; rw [e] at hd ⊢; exact ⟨hk, hd, rfl⟩
  · intro _ hm; exact absurd hm hnot

end Slock.Sim
