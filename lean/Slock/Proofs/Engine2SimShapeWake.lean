import Slock.Proofs.Engine2SimShapeSteps
/-! Simulation stage 2 → stage 1: the queue shape through the wake pass; after it the raw head of the queue is a live request (`HL`). -/
namespace Slock.Sim
open Slock Slock.Engine2
open Slock.Engine (has)

theorem QS.wakePre {w : W} (h : QS w.k) (rid : Nat) : QS (Slock.Sim.wakePre w rid).k := by
  unfold Slock.Sim.wakePre
  have h1 : QS (w.modR rid (fun r => { r with timeouted := true })).k := h.modR1 rid _ (fun _ => rfl) (fun _ => rfl)
  exact QS.ik (QS.ik h1 (IK.dropLongT _ rid)) (IK.ctr _ _)

theorem QS.wakeOne {w : W} (h : QS w.k) (l : Lv w zero) (rid : Nat) (e : WEnt) (rest : List WEnt) (hw : w.k.wait = e :: rest) (he : e.rid = rid)
    (hd : w.k.deadWaiter rid = false) (hnd : (w.k.wait.map (·.rid)).Nodup) : QS (w.wakeOne rid).k := by
  have hh : w.k.hasRec rid := hasRec_of_liveWaiter hd
  obtain ⟨_, g2, _⟩ := wake_prep zero_nonneg l rid hh hd (fun c => { c with waitCount := c.waitCount - 1 })
  have g2' : Grantable (Slock.Sim.wakePre w rid).k rid := g2
  have hp := h.wakePre rid
  have hq3 : (Slock.Sim.wakePre w rid).k.wait = w.k.wait := (queues_eq (wakePre_sx w rid).q).2.2
  have hnt : rid ∉ (Slock.Sim.wakePre w rid).k.wait.tail.map (·.rid) := by
    rw [hq3, hw]
    rw [hw] at hnd
    simp only [List.map_cons, List.nodup_cons, he] at hnd
    exact hnd.1
  rw [wakeOne_eq]
  split
  · exact hp.grant rid g2' hnt
  · exact QS.ik (QS.ik (QS.ik hp (IK.grantNoHold _ rid)) (IK.ctr _ _)) (IK.reply _ _ _ _ _)

theorem QS.wakePass (fuel : Nat) (w : W) (h : QS w.k) (hi : WI w) (g : Good w) : QS (W.wakePass fuel w).k := by
  induction fuel generalizing w with
  | zero => exact h
  | succ n ih =>
    unfold W.wakePass
    simp only []
    have g1 := good_getWaitLock g
    have h1 : QS (w.modK (·.getWaitLock.1)).k := h.getWaitLock
    have hi1 := hi.modK_getWaitLock
    cases hr : w.k.getWaitLock.2 with
    | none =>
      simp only []
      have h2 : QS ((w.modK (·.getWaitLock.1)).modK Engine2.clearWaited).k := QS.clearWaited h1 (waitSkip_none w.k.wait w.k rfl hr)
      exact h2.removeIfZero
    | some rid =>
      simp only []
      split
      · exact h1
      · obtain ⟨e, rest, hw, he, hd⟩ := getWaitLock_some w.k rid hr
        obtain ⟨g2, _, _⟩ := g1.wakeOne rid e rest hw he hd
        have hh : (w.modK (·.getWaitLock.1)).k.hasRec rid := hasRec_of_liveWaiter hd
        exact ih _ (h1.wakeOne g1.lv rid e rest hw he hd hi1.nd) (hi1.wakeOne g1.lv rid hh hd) g2

theorem QS.wakePass_nil (fuel : Nat) (w : W) (h : QS w.k) (hw : w.k.wait = []) : QS (W.wakePass fuel w).k := by
  cases fuel with
  | zero => exact h
  | succ n =>
    unfold W.wakePass
    simp only []
    have e : w.k.getWaitLock = (w.k, none) := by unfold Key.getWaitLock; rw [hw]; rfl
    rw [e]
    simp only []
    have e1 : w.modK (·.getWaitLock.1) = w := by
      show ({ w with k := w.k.getWaitLock.1 } : W) = w
      rw [e]
    rw [e1]
    exact (QS.clearWaited h hw : QS (w.modK Engine2.clearWaited).k).removeIfZero

theorem QS.wake {w : W} (h : QS w.k) (hi : WI w) (g : w.gone = false → Good w) (hgw : GW w) : QS w.wake.k := by
  unfold W.wake W.when
  split
  · cases hg : w.gone with
    | false => exact QS.wakePass _ w h hi (g hg)
    | true => exact QS.wakePass_nil _ w h (hgw hg)
  · exact h

/-! ### the raw head of the queue is live -/

/-- `GetWaitLock` would return the raw head -/
def HL (k : Key) : Prop := ∀ e rest, k.wait = e :: rest → k.deadWaiter e.rid = false

theorem HL.of_nil {k : Key} (h : k.wait = []) : HL k := fun e rest he => by rw [h] at he; simp at he

theorem hl_removeIfZero {w : W} (h : HL w.k) : HL w.removeIfZero.k := by
  unfold W.removeIfZero
  split
  · exact HL.of_nil rfl
  · exact h

theorem hl_wakePass (fuel : Nat) (w : W) (g : Good w) (cl : CurLive w.k) (hf : FuelOK fuel w.k) : HL (W.wakePass fuel w).k := by
  induction fuel generalizing w with
  | zero =>
    exfalso
    rcases hf with h | ⟨h1, e, rest, h2, _⟩
    · omega
    · rw [h2] at h1; simp at h1
  | succ n ih =>
    unfold W.wakePass
    simp only []
    have g1 := good_getWaitLock g
    cases hr : w.k.getWaitLock.2 with
    | none =>
      simp only []
      have hw0 : (w.modK (·.getWaitLock.1)).k.wait = [] := waitSkip_none w.k.wait w.k rfl hr
      exact hl_removeIfZero (w := (w.modK (·.getWaitLock.1)).modK clearWaited) (HL.of_nil hw0)
    | some rid =>
      simp only []
      obtain ⟨e, rest, hw, he, hd⟩ := getWaitLock_some w.k rid hr
      split
      · intro e' rest' he'
        have : (w.modK (·.getWaitLock.1)).k.wait = e :: rest := hw
        rw [this] at he'
        injection he' with a _
        rw [← a, he]; exact hd
      · obtain ⟨g2, hh2, c2⟩ := g1.wakeOne rid e rest hw he hd
        have c1 : CurLive (w.modK (·.getWaitLock.1)).k := cl.of_dk (dk_modK w _ (DepthKeep.getWaitLock _)) g1.lv
        obtain ⟨s1, s2, _⟩ := wakeOne_spec (w.modK (·.getWaitLock.1)) rid
        refine ih _ g2 (c2 c1) ?_
        right
        have hlen := waitSkip_len w.k.wait w.k rfl
        have hw' : (w.modK (·.getWaitLock.1)).k.wait = e :: rest := hw
        refine ⟨?_, e, rest, s1.trans hw', by rw [he]; exact s2 hh2⟩
        rw [s1]
        have hl1 : (w.modK (·.getWaitLock.1)).k.wait.length ≤ w.k.wait.length := hlen.1
        rcases hf with h | ⟨h1, e0, rest0, h2, h3⟩
        · omega
        · have := hlen.2 e0 rest0 h2 (by simpa [Key.deadWaiter] using h3)
          have : (w.modK (·.getWaitLock.1)).k.wait.length < w.k.wait.length := this
          omega

/-- **after the wake pass the raw head of the wait queue is a live request** -/
theorem hl_wake {w : W} (h : QS w.k) (g : w.gone = false → Good w ∧ CurLive w.k) (hgw : GW w) : HL w.wake.k := by
  unfold W.wake W.when
  cases hwd : w.k.waited with
  | false => simp only [Bool.false_eq_true, if_false]; exact HL.of_nil (h.emp hwd)
  | true =>
    simp only [if_true]
    cases hg : w.gone with
    | false => exact hl_wakePass _ w (g hg).1 (g hg).2 (Or.inl (Nat.le_refl _))
    | true =>
      have hw := hgw hg
      have : W.wakePass (w.k.wait.length + 1) w = (w.modK clearWaited).removeIfZero := by
        unfold W.wakePass
        simp only []
        have e : w.k.getWaitLock = (w.k, none) := by unfold Key.getWaitLock; rw [hw]; rfl
        rw [e]
        simp only []
        have e1 : w.modK (·.getWaitLock.1) = w := by
          show ({ w with k := w.k.getWaitLock.1 } : W) = w
          rw [e]
        rw [e1]
      rw [this]
      exact hl_removeIfZero (w := w.modK clearWaited) (HL.of_nil hw)

end Slock.Sim
