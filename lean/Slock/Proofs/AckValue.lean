import Slock.Model.Ack
import Slock.Proofs.ValueBasic
/-! M-ACK: the undo record brings the value back (`ProcessRecoverLockData ∘ ProcessLockData(…, requireRecover)`), per operation —
and where it does not. -/
namespace Slock.Ack
open Slock.Value (leN le32 le64 readLE readLE_le64 le64_length le32_length)

theorem readLE_lt (l : Bytes) : readLE l < 256 ^ l.length := by
  induction l with
  | nil => simp [readLE]
  | cons b bs ih =>
    simp only [readLE, List.length_cons, Nat.pow_succ]
    have := b.toNat_lt
    have h8 : (2 : Nat) ^ 8 = 256 := by decide
    omega

theorem readLE_take8_lt (l : Bytes) : readLE (l.take 8) < 2 ^ 64 := by
  have := readLE_lt (l.take 8)
  have h1 : (l.take 8).length ≤ 8 := by simp; omega
  have h2 : 256 ^ (l.take 8).length ≤ 256 ^ 8 := Nat.pow_le_pow_right (by decide) h1
  have h3 : (256 : Nat) ^ 8 = 2 ^ 64 := by decide
  omega

def frameType (f : Bytes) : Nat := (f.getD 4 0).toNat % 64

/-- what the value is, as a reply shows it, after the operation was undone — `cur` is the cell before the grant -/
def roundTrip (cur : Option Cell) (f : Bytes) : Option Bytes :=
  getData (undoCell (some (applyFrame cur f).1) (applyFrame cur f).2)

/-- a frame that is not a PIPELINE is processed on its own -/
theorem applyFrame_simple (cur : Option Cell) (f : Bytes) (h : frameType f ≠ 6) : applyFrame cur f = applySimple cur f := by
  unfold applyFrame
  have : ((f.getD 4 0).toNat % 64 == 6) = false := by unfold frameType at h; simpa using h
  simp only [this, Bool.false_eq_true, if_false]

/-- **SET is undone exactly** (whatever the cell was). -/
theorem undo_set (cur : Option Cell) (f : Bytes) (h : frameType f = 0) : roundTrip cur f = getData cur := by
  unfold roundTrip
  rw [applyFrame_simple cur f (by rw [h]; decide)]
  unfold applySimple frameType at *
  simp only [h]
  simp only [beq_self_eq_true, if_true]
  unfold undoCell
  simp only []
  cases cur with
  | none => simp [getData, unsetCell, Cell.hasData]
  | some p => simp

/-- **no value before: every undo ends in "no value"** (the cell did not exist yet). -/
theorem undo_fresh (f : Bytes) : roundTrip none f = none := by
  unfold roundTrip applyFrame
  split
  · split <;> (unfold undoCell; simp [getData, unsetCell, Cell.hasData])
  · unfold applySimple
    simp only []
    split
    · unfold undoCell; simp [getData, unsetCell, Cell.hasData]
    · split
      · unfold undoCell; simp [getData, unsetCell, Cell.hasData]
      · unfold undoCell; simp [getData, unsetCell, Cell.hasData]

/-- a number cell as INCR itself leaves it behind: `[10,0,0,0, SET, NUMBER, 8 bytes]` -/
def numberCell (n : Nat) (ctype : Nat) : Cell := ⟨[10, 0, 0, 0, 0, 1] ++ le64 n, ctype⟩

/-- **INCR over a number is undone exactly.** -/
theorem undo_incr_number (n ctype : Nat) (hn : n < 2 ^ 64) (hc : ctype ≠ 1) (f : Bytes) (h : frameType f = 2) (hl : 4 ≤ f.length) :
    roundTrip (some (numberCell n ctype)) f = getData (some (numberCell n ctype)) := by
  unfold roundTrip
  rw [applyFrame_simple _ f (by rw [h]; decide)]
  unfold applySimple frameType at *
  simp only [h]
  have e0 : ((2 : Nat) == 0) = false := by decide
  simp only [e0, Bool.false_eq_true, if_false, beq_self_eq_true, if_true]
  have hbase : (numberCell n ctype).incrValue = n := by
    unfold Cell.incrValue numberCell Cell.hasData
    have : (ctype != 1) = true := by simpa using hc
    simp only [this, if_true]
    have : (([10, 0, 0, 0, 0, 1] ++ le64 n : Bytes).drop 6).take 8 = le64 n := by
      have h6 : ([10, 0, 0, 0, 0, 1] : Bytes).length = 6 := rfl
      rw [Slock.Value.drop_left' _ _ 6 h6]
      exact List.take_of_length_le (by rw [le64_length]; exact Nat.le_refl _)
    rw [this, readLE_le64]; exact Nat.mod_eq_of_lt hn
  rw [hbase]
  unfold undoCell
  simp only []
  have e1 : ((2 : Nat) != 1) = true := by decide
  have e2 : ((2 : Nat) != 2) = false := by decide
  simp only [e1, e2, Bool.and_false, Bool.false_eq_true, if_false, e0, beq_self_eq_true, if_true]
  -- the value the post cell carries is v; v - k = n (mod 2^64)
  have hk := readLE_take8_lt (f.drop 6)
  have hpost : (⟨f.take 4 ++ [0, (f.getD 5 0) ||| 1] ++ le64 ((readLE ((f.drop 6).take 8) + n) % 2 ^ 64), 2⟩ : Cell).incrValue =
      (readLE ((f.drop 6).take 8) + n) % 2 ^ 64 := by
    unfold Cell.incrValue Cell.hasData
    simp only [e1, if_true]
    have hlen : (f.take 4 ++ [0, (f.getD 5 0) ||| 1]).length = 6 := by simp; omega
    rw [Slock.Value.drop_left' _ _ 6 hlen]
    rw [List.take_of_length_le (by rw [le64_length]; exact Nat.le_refl _), readLE_le64]
    exact Nat.mod_mod _ _
  rw [hpost]
  have harith : ((readLE ((f.drop 6).take 8) + n) % 2 ^ 64 + 2 ^ 64 - readLE ((f.drop 6).take 8) % 2 ^ 64) % 2 ^ 64 = n := by
    have := Nat.mod_eq_of_lt hk
    rw [this]
    by_cases hov : readLE ((f.drop 6).take 8) + n < 2 ^ 64
    · rw [Nat.mod_eq_of_lt hov]
      have : readLE ((f.drop 6).take 8) + n + 2 ^ 64 - readLE ((f.drop 6).take 8) = n + 2 ^ 64 := by omega
      rw [this, Nat.add_mod_right]; exact Nat.mod_eq_of_lt hn
    · have h2 : (readLE ((f.drop 6).take 8) + n) % 2 ^ 64 = readLE ((f.drop 6).take 8) + n - 2 ^ 64 := by
        rw [Nat.mod_eq_sub_mod (by omega)]; exact Nat.mod_eq_of_lt (by omega)
      rw [h2]
      have : readLE ((f.drop 6).take 8) + n - 2 ^ 64 + 2 ^ 64 - readLE ((f.drop 6).take 8) = n := by omega
      rw [this]; exact Nat.mod_eq_of_lt hn
  rw [harith]
  unfold getData numberCell Cell.hasData
  have : (ctype != 1) = true := by simpa using hc
  simp [this]

/-- a cell whose length prefix is right and whose operation byte is SET-at-stage-0 (every cell an operation of the subset leaves) -/
def Cell.wf (c : Cell) : Prop := 6 ≤ c.data.length ∧ c.data.take 4 = le32 (c.data.length - 4) ∧ c.data.getD 4 0 = 0

theorem getD_eq_of_take_drop (d : Bytes) (h6 : 6 ≤ d.length) : d = d.take 4 ++ [d.getD 4 0, d.getD 5 0] ++ d.drop 6 := by
  match d, h6 with
  | a :: b :: c :: e :: x :: y :: rest, _ => simp

/-- **APPEND over a (well-formed) value is undone exactly.** -/
theorem undo_append (p : Cell) (hd : p.hasData = true) (hw : p.wf) (f : Bytes) (h : frameType f = 3) (hl : 6 ≤ f.length) :
    roundTrip (some p) f = getData (some p) := by
  obtain ⟨h6, h4, h0⟩ := hw
  unfold roundTrip
  rw [applyFrame_simple _ f (by rw [h]; decide)]
  unfold applySimple frameType at *
  simp only [h]
  have e0 : ((3 : Nat) == 0) = false := by decide
  have e2 : ((3 : Nat) == 2) = false := by decide
  simp only [e0, e2, Bool.false_eq_true, if_false, hd, if_true]
  unfold undoCell
  simp only []
  have e1 : ((3 : Nat) != 1) = true := by decide
  have e3 : ((3 : Nat) != 3) = false := by decide
  simp only [e1, e3, Bool.and_false, Bool.false_eq_true, if_false, e0, e2, beq_self_eq_true, if_true]
  -- lengths
  have hlen : (le32 (p.data.length - 4 + (f.length - 6)) ++ [0, p.data.getD 5 0] ++ p.data.drop 6 ++ f.drop 6).length = p.data.length + (f.length - 6) := by
    simp [le32_length]; omega
  rw [hlen]
  have hidx : p.data.length + (f.length - 6) - f.length + 6 = p.data.length := by omega
  rw [hidx]
  have hge : p.data.length + (f.length - 6) ≥ p.data.length + (f.length - 6) := Nat.le_refl _
  simp only [hge, if_true]
  unfold getData Cell.hasData
  simp only [e1, if_true]
  have hd' : (p.ctype != 1) = true := hd
  simp only [hd', if_true]
  congr 1
  -- the pieces
  have hA : (le32 (p.data.length - 4 + (f.length - 6)) ++ [0, p.data.getD 5 0] ++ p.data.drop 6 ++ f.drop 6).getD 5 0 = p.data.getD 5 0 := by
    have : (le32 (p.data.length - 4 + (f.length - 6))).length = 4 := le32_length _
    match hq : le32 (p.data.length - 4 + (f.length - 6)), this with
    | [a, b, c, d], _ => simp
  have hB : ((le32 (p.data.length - 4 + (f.length - 6)) ++ [0, p.data.getD 5 0] ++ p.data.drop 6 ++ f.drop 6).drop 6).take (p.data.length - 6) = p.data.drop 6 := by
    have h6' : (le32 (p.data.length - 4 + (f.length - 6)) ++ [0, p.data.getD 5 0]).length = 6 := by simp [le32_length]
    rw [List.append_assoc, List.append_assoc, ← List.append_assoc (le32 _), Slock.Value.drop_left' _ _ 6 h6']
    have : (p.data.drop 6).length = p.data.length - 6 := by simp
    rw [← this, Slock.Value.take_left' _ _ _ rfl]
  have hC : (le32 (p.data.length - 4 + (f.length - 6)) ++ [0, p.data.getD 5 0] ++ p.data.drop 6 ++ f.drop 6).drop (p.data.length + (f.length - 6)) = [] := by
    rw [← hlen]; exact List.drop_length
  rw [hA, hB, hC]
  have : p.data.length + (f.length - 6) - 4 - (f.length - 6) = p.data.length - 4 := by omega
  rw [this, ← h4]
  have := getD_eq_of_take_drop p.data h6
  rw [h0] at this
  simp only [List.append_nil]
  exact this.symm

/-! ### PIPELINE: the undo is the cell saved before the pipeline (c3f898d) -/

theorem getD4_append (a : Bytes) (x : UInt8) (r : Bytes) (h : a.length = 4) : (a ++ x :: r).getD 4 0 = x := by
  match a, h with
  | [_, _, _, _], _ => rfl

theorem mem_of_getLast? {α : Type} : ∀ (l : List α) (x : α), l.getLast? = some x → x ∈ l := by
  intro l
  induction l with
  | nil => intro x h; simp at h
  | cons a t ih =>
    intro x h
    cases t with
    | nil => simp at h; subst h; simp
    | cons b t' =>
      rw [List.getLast?_cons_cons] at h
      exact List.mem_cons_of_mem _ (ih x h)

/-- what a simple frame of the subset leaves is a value cell, and its bytes are never those of the UNSET cell -/
theorem applySimple_post (cur : Option Cell) (g : Bytes) (hg : simpleOk g = true) :
    (applySimple cur g).1.ctype ≠ 1 ∧ (applySimple cur g).1.data.getD 4 0 ≠ 1 := by
  unfold simpleOk at hg
  simp only [Bool.and_eq_true, decide_eq_true_eq] at hg
  obtain ⟨⟨⟨h6, _⟩, _⟩, _⟩ := hg
  have ht4 : (g.take 4).length = 4 := by simp; omega
  unfold applySimple
  simp only []
  split
  · rename_i h0
    refine ⟨by simp, ?_⟩
    simp only []
    intro h1
    rw [h1] at h0
    exact absurd h0 (by decide)
  · split
    · refine ⟨by simp, ?_⟩
      simp only []
      rw [List.append_assoc, List.cons_append, getD4_append _ _ _ ht4]
      decide
    · cases cur with
      | none =>
        refine ⟨by simp, ?_⟩
        simp only []
        rw [List.append_assoc, List.cons_append, getD4_append _ _ _ ht4]
        decide
      | some x =>
        simp only []
        split
        · refine ⟨by simp, ?_⟩
          simp only []
          rw [List.append_assoc, List.append_assoc, List.cons_append, getD4_append _ _ _ (le32_length _)]
          decide
        · refine ⟨by simp, ?_⟩
          simp only []
          rw [List.append_assoc, List.cons_append, getD4_append _ _ _ ht4]
          decide

/-- **A PIPELINE is undone exactly**, whatever its last sub-operation is and whatever the cell held (a number, bytes, nothing, the UNSET
cell): the undo record of a pipeline carries no operand, and since c3f898d such a record puts the cell saved before the pipeline back
(before, `ProcessRecoverLockData` ran the last sub-operation's own undo on the missing operand: a panic, or nothing restored). `hw`: a cell
typed UNSET is the UNSET cell (all the code ever makes). -/
theorem undo_pipeline (cur : Option Cell) (f : Bytes) (h : frameType f = 6) (hf : pipeOk f = true)
    (hw : ∀ p, cur = some p → p.ctype = 1 → p = unsetCell) : roundTrip cur f = getData cur := by
  unfold pipeOk at hf
  simp only [Bool.and_eq_true] at hf
  obtain ⟨_, hsub⟩ := hf
  unfold roundTrip applyFrame
  have h6 : ((f.getD 4 0).toNat % 64 == 6) = true := by unfold frameType at h; simpa using h
  simp only [h6, if_true]
  cases hp : pipeSubs f with
  | none => rw [hp] at hsub; simp at hsub
  | some l =>
    rw [hp] at hsub
    cases l with
    | nil => simp at hsub
    | cons g gs =>
      simp only [] at hsub
      have hne : (g :: gs).getLast? = some ((g :: gs).getLast (by simp)) := List.getLast?_eq_getLast (by simp)
      simp only [Option.bind, hne]
      have hm := mem_of_getLast? _ _ hne
      have hok : simpleOk ((g :: gs).getLast (by simp)) = true := (List.all_eq_true.mp hsub) _ hm
      obtain ⟨hc1, hd4⟩ := applySimple_post cur _ hok
      generalize (applySimple cur ((g :: gs).getLast (by simp))).1 = a at hc1 hd4
      unfold undoCell
      simp only []
      have e1 : (a.ctype != 1 && a.ctype != a.ctype) = false := by simp
      simp only [e1, Bool.false_eq_true, if_false]
      cases cur with
      | none => simp [getData, unsetCell, Cell.hasData]
      | some p =>
        simp only []
        split
        · rfl
        · simp only [if_true]
          split
          · rename_i hdat
            have hdat' : a.data = p.data := by simpa using hdat
            have hpc : p.ctype ≠ 1 := by
              intro hu
              have := hw p rfl hu
              rw [this] at hdat'
              rw [hdat'] at hd4
              exact hd4 (by decide)
            unfold getData Cell.hasData
            have ea : (a.ctype != 1) = true := by simpa using hc1
            have ep : (p.ctype != 1) = true := by simpa using hpc
            simp [ea, ep, hdat']
          · rfl

end Slock.Ack
