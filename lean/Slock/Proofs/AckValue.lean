import Slock.Model.Ack
import Slock.Proofs.ValueBasic
/-! M-ACK: the undo record brings the value back (`ProcessRecoverLockData ∘ ProcessLockData(…, requireRecover)`), per operation —
and where it does not. -/
namespace Slock.Ack
open Slock.Value (leN le32 le64 readLE readLE_le64 le64_length le32_length)

theorem readLE_lt (l : Bytes) : readLE l < 256 ^ l.length := by
  induction l with
  | nil => simp [readLE]
  | cons b bs ih =>
    simp only [readLE, List.length_cons, Nat.pow_succ]
    have := b.toNat_lt
    have h8 : (2 : Nat) ^ 8 = 256 := by decide
    omega

theorem readLE_take8_lt (l : Bytes) : readLE (l.take 8) < 2 ^ 64 := by
  have := readLE_lt (l.take 8)
  have h1 : (l.take 8).length ≤ 8 := by simp; omega
  have h2 : 256 ^ (l.take 8).length ≤ 256 ^ 8 := Nat.pow_le_pow_right (by decide) h1
  have h3 : (256 : Nat) ^ 8 = 2 ^ 64 := by decide
  omega

def frameType (f : Bytes) : Nat := (f.getD 4 0).toNat % 64

/-- what the value is, as a reply shows it, after the operation was undone — `cur` is the cell before the grant -/
def roundTrip (cur : Option Cell) (f : Bytes) : Option Bytes :=
  getData (undoCell (some (applyFrame cur f).1) (applyFrame cur f).2)

/-- **SET is undone exactly** (whatever the cell was). -/
theorem undo_set (cur : Option Cell) (f : Bytes) (h : frameType f = 0) : roundTrip cur f = getData cur := by
  unfold roundTrip applyFrame frameType at *
  simp only [h]
  simp only [beq_self_eq_true, if_true]
  unfold undoCell
  simp only []
  cases cur with
  | none => simp [getData, unsetCell, Cell.hasData]
  | some p => simp

/-- **no value before: every undo ends in "no value"** (the cell did not exist yet). -/
theorem undo_fresh (f : Bytes) : roundTrip none f = none := by
  unfold roundTrip applyFrame
  simp only []
  split
  · unfold undoCell; simp [getData, unsetCell, Cell.hasData]
  · split
    · unfold undoCell; simp [getData, unsetCell, Cell.hasData]
    · unfold undoCell; simp [getData, unsetCell, Cell.hasData]

/-- a number cell as INCR itself leaves it behind: `[10,0,0,0, SET, NUMBER, 8 bytes]` -/
def numberCell (n : Nat) (ctype : Nat) : Cell := ⟨[10, 0, 0, 0, 0, 1] ++ le64 n, ctype⟩

/-- **INCR over a number is undone exactly.** -/
theorem undo_incr_number (n ctype : Nat) (hn : n < 2 ^ 64) (hc : ctype ≠ 1) (f : Bytes) (h : frameType f = 2) (hl : 4 ≤ f.length) :
    roundTrip (some (numberCell n ctype)) f = getData (some (numberCell n ctype)) := by
  unfold roundTrip applyFrame frameType at *
  simp only [h]
  have e0 : ((2 : Nat) == 0) = false := by decide
  simp only [e0, Bool.false_eq_true, if_false, beq_self_eq_true, if_true]
  have hbase : (numberCell n ctype).incrValue = n := by
    unfold Cell.incrValue numberCell Cell.hasData
    have : (ctype != 1) = true := by simpa using hc
    simp only [this, if_true]
    have : (([10, 0, 0, 0, 0, 1] ++ le64 n : Bytes).drop 6).take 8 = le64 n := by
      have h6 : ([10, 0, 0, 0, 0, 1] : Bytes).length = 6 := rfl
      rw [Slock.Value.drop_left' _ _ 6 h6]
      exact List.take_of_length_le (by rw [le64_length]; exact Nat.le_refl _)
    rw [this, readLE_le64]; exact Nat.mod_eq_of_lt hn
  rw [hbase]
  unfold undoCell
  simp only []
  have e1 : ((2 : Nat) != 1) = true := by decide
  have e2 : ((2 : Nat) != 2) = false := by decide
  simp only [e1, e2, Bool.and_false, Bool.false_eq_true, if_false, e0, beq_self_eq_true, if_true]
  -- the value the post cell carries is v; v - k = n (mod 2^64)
  have hk := readLE_take8_lt (f.drop 6)
  have hpost : (⟨f.take 4 ++ [0, (f.getD 5 0) ||| 1] ++ le64 ((readLE ((f.drop 6).take 8) + n) % 2 ^ 64), 2⟩ : Cell).incrValue =
      (readLE ((f.drop 6).take 8) + n) % 2 ^ 64 := by
    unfold Cell.incrValue Cell.hasData
    simp only [e1, if_true]
    have hlen : (f.take 4 ++ [0, (f.getD 5 0) ||| 1]).length = 6 := by simp; omega
    rw [Slock.Value.drop_left' _ _ 6 hlen]
    rw [List.take_of_length_le (by rw [le64_length]; exact Nat.le_refl _), readLE_le64]
    exact Nat.mod_mod _ _
  rw [hpost]
  have harith : ((readLE ((f.drop 6).take 8) + n) % 2 ^ 64 + 2 ^ 64 - readLE ((f.drop 6).take 8) % 2 ^ 64) % 2 ^ 64 = n := by
    have := Nat.mod_eq_of_lt hk
    rw [this]
    by_cases hov : readLE ((f.drop 6).take 8) + n < 2 ^ 64
    · rw [Nat.mod_eq_of_lt hov]
      have : readLE ((f.drop 6).take 8) + n + 2 ^ 64 - readLE ((f.drop 6).take 8) = n + 2 ^ 64 := by omega
      rw [this, Nat.add_mod_right]; exact Nat.mod_eq_of_lt hn
    · have h2 : (readLE ((f.drop 6).take 8) + n) % 2 ^ 64 = readLE ((f.drop 6).take 8) + n - 2 ^ 64 := by
        rw [Nat.mod_eq_sub_mod (by omega)]; exact Nat.mod_eq_of_lt (by omega)
      rw [h2]
      have : readLE ((f.drop 6).take 8) + n - 2 ^ 64 + 2 ^ 64 - readLE ((f.drop 6).take 8) = n := by omega
      rw [this]; exact Nat.mod_eq_of_lt hn
  rw [harith]
  unfold getData numberCell Cell.hasData
  have : (ctype != 1) = true := by simpa using hc
  simp [this]

/-- a cell whose length prefix is right and whose operation byte is SET-at-stage-0 (every cell an operation of the subset leaves) -/
def Cell.wf (c : Cell) : Prop := 6 ≤ c.data.length ∧ c.data.take 4 = le32 (c.data.length - 4) ∧ c.data.getD 4 0 = 0

theorem getD_eq_of_take_drop (d : Bytes) (h6 : 6 ≤ d.length) : d = d.take 4 ++ [d.getD 4 0, d.getD 5 0] ++ d.drop 6 := by
  match d, h6 with
  | a :: b :: c :: e :: x :: y :: rest, _ => simp

/-- **APPEND over a (well-formed) value is undone exactly.** -/
theorem undo_append (p : Cell) (hd : p.hasData = true) (hw : p.wf) (f : Bytes) (h : frameType f = 3) (hl : 6 ≤ f.length) :
    roundTrip (some p) f = getData (some p) := by
  obtain ⟨h6, h4, h0⟩ := hw
  unfold roundTrip applyFrame frameType at *
  simp only [h]
  have e0 : ((3 : Nat) == 0) = false := by decide
  have e2 : ((3 : Nat) == 2) = false := by decide
  simp only [e0, e2, Bool.false_eq_true, if_false, hd, if_true]
  unfold undoCell
  simp only []
  have e1 : ((3 : Nat) != 1) = true := by decide
  have e3 : ((3 : Nat) != 3) = false := by decide
  simp only [e1, e3, Bool.and_false, Bool.false_eq_true, if_false, e0, e2, beq_self_eq_true, if_true]
  -- lengths
  have hlen : (le32 (p.data.length - 4 + (f.length - 6)) ++ [0, p.data.getD 5 0] ++ p.data.drop 6 ++ f.drop 6).length = p.data.length + (f.length - 6) := by
    simp [le32_length]; omega
  rw [hlen]
  have hidx : p.data.length + (f.length - 6) - f.length + 6 = p.data.length := by omega
  rw [hidx]
  have hge : p.data.length + (f.length - 6) ≥ p.data.length + (f.length - 6) := Nat.le_refl _
  simp only [hge, if_true]
  unfold getData Cell.hasData
  simp only [e1, if_true]
  have hd' : (p.ctype != 1) = true := hd
  simp only [hd', if_true]
  congr 1
  -- the pieces
  have hA : (le32 (p.data.length - 4 + (f.length - 6)) ++ [0, p.data.getD 5 0] ++ p.data.drop 6 ++ f.drop 6).getD 5 0 = p.data.getD 5 0 := by
    have : (le32 (p.data.length - 4 + (f.length - 6))).length = 4 := le32_length _
    match hq : le32 (p.data.length - 4 + (f.length - 6)), this with
    | [a, b, c, d], _ => simp
  have hB : ((le32 (p.data.length - 4 + (f.length - 6)) ++ [0, p.data.getD 5 0] ++ p.data.drop 6 ++ f.drop 6).drop 6).take (p.data.length - 6) = p.data.drop 6 := by
    have h6' : (le32 (p.data.length - 4 + (f.length - 6)) ++ [0, p.data.getD 5 0]).length = 6 := by simp [le32_length]
    rw [List.append_assoc, List.append_assoc, ← List.append_assoc (le32 _), Slock.Value.drop_left' _ _ 6 h6']
    have : (p.data.drop 6).length = p.data.length - 6 := by simp
    rw [← this, Slock.Value.take_left' _ _ _ rfl]
  have hC : (le32 (p.data.length - 4 + (f.length - 6)) ++ [0, p.data.getD 5 0] ++ p.data.drop 6 ++ f.drop 6).drop (p.data.length + (f.length - 6)) = [] := by
    rw [← hlen]; exact List.drop_length
  rw [hA, hB, hC]
  have : p.data.length + (f.length - 6) - 4 - (f.length - 6) = p.data.length - 4 := by omega
  rw [this, ← h4]
  have := getD_eq_of_take_drop p.data h6
  rw [h0] at this
  simp only [List.append_nil]
  exact this.symm

end Slock.Ack
