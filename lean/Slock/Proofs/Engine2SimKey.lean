import Slock.Proofs.Engine2SimBase
/-! Simulation stage 2 → stage 1, one key record: the holder side of `Key.abs` (who is the current holder, which hold a LockId
names, the admission test) as the record-level model sees it. -/
namespace Slock.Sim
open Slock

/-- the stage-1 view of lock record `x` of `k` -/
def holdOf (k : Engine2.Key) (x : Nat) : Engine.Hold := (k.getR x).toHold
def waiterOf (k : Engine2.Key) (x : Nat) : Engine.Waiter := (k.getR x).toWaiter

theorem abs_holders (k : Engine2.Key) :
    (Engine2.Key.abs k).holders = ((k.current.toList ++ k.locks).filter (fun x => k.liveHolder x)).map (holdOf k) := by
  unfold Engine2.Key.abs Engine2.Key.holders holdOf
  simp only []
  rw [List.filter_map, List.map_map]
  rfl

theorem abs_waiters (k : Engine2.Key) :
    (Engine2.Key.abs k).waiters = ((k.wait.map (·.rid)).filter (fun x => !k.deadWaiter x)).map (waiterOf k) := by
  unfold Engine2.Key.abs Engine2.Key.waiters waiterOf
  simp only []
  rw [List.filter_map, List.map_map, List.filter_map, List.map_map]
  rfl

/-- `currentLock` is the head of the holders stage 1 sees -/
theorem abs_head (k : Engine2.Key) (hl : Engine2.CurLive k) (hn : Engine2.CurNone k) :
    (Engine2.Key.abs k).holders.head? = k.current.map (holdOf k) := by
  rw [abs_holders]
  cases hc : k.current with
  | none => rw [hn hc]; rfl
  | some c =>
    have : k.liveHolder c = true := by
      unfold Engine2.Key.liveHolder
      exact decide_eq_true (hl c hc)
    simp [List.filter, this]

/-- `GetLockedLock` by LockId -/
theorem abs_findHolder (k : Engine2.Key) (lockId : Nat) :
    Engine.findHolder (Engine2.Key.abs k) lockId = (Engine2.findHolder k lockId).map (holdOf k) := by
  unfold Engine.findHolder Engine2.findHolder
  rw [abs_holders]
  generalize k.current.toList ++ k.locks = l
  induction l with
  | nil => rfl
  | cons x xs ih =>
    by_cases hv : k.liveHolder x = true
    · simp only [List.filter, hv, List.map_cons, List.find?_cons, Bool.true_and]
      have : ((holdOf k x).cmd.lockId == lockId) = ((k.getR x).cmd.lockId == lockId) := rfl
      rw [this]
      cases ((k.getR x).cmd.lockId == lockId)
      · exact ih
      · rfl
    · have hv' : k.liveHolder x = false := by simpa using hv
      simp only [List.filter, hv', List.find?_cons, Bool.false_and]
      exact ih

/-- the admission test reads the same things in both models -/
theorem abs_doLock (k : Engine2.Key) (hl : Engine2.CurLive k) (hn : Engine2.CurNone k) (c : Engine.Cmd) :
    Engine.doLock (Engine2.Key.abs k) c = Engine2.doLock k c := by
  unfold Engine.doLock Engine2.doLock
  rw [abs_head k hl hn]
  unfold Engine2.Key.cur
  show (if (k.locked == 0) = true then _ else _) = _
  cases k.current with
  | none => rfl
  | some x => rfl

/-- the cancel scan: last live queued request with the LockId -/
theorem abs_findCancel (k : Engine2.Key) (lockId : Nat) :
    Engine.findCancel (Engine2.Key.abs k).waiters lockId = (Engine2.findCancel k lockId).map (waiterOf k) := by
  unfold Engine.findCancel Engine2.findCancel
  rw [abs_waiters]
  generalize k.wait.map (·.rid) = l
  have hf : ((l.filter (fun x => !k.deadWaiter x)).map (waiterOf k)).filter (fun w => w.cmd.lockId == lockId) =
      (l.filter (fun x => !k.deadWaiter x && (k.getR x).cmd.lockId == lockId)).map (waiterOf k) := by
    induction l with
    | nil => rfl
    | cons x xs ih =>
      by_cases hv : k.deadWaiter x = true
      · simp only [List.filter, hv, Bool.not_true, Bool.false_and]
        exact ih
      · have hv' : k.deadWaiter x = false := by simpa using hv
        simp only [List.filter, hv', Bool.not_false, Bool.true_and, List.map_cons]
        have : ((waiterOf k x).cmd.lockId == lockId) = ((k.getR x).cmd.lockId == lockId) := rfl
        rw [this]
        cases ((k.getR x).cmd.lockId == lockId)
        · exact ih
        · simp only [List.map_cons]; rw [ih]
  rw [hf, List.getLast?_map]

end Slock.Sim
