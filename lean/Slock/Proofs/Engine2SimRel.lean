import Slock.Proofs.Engine2SimWakeLoop
import Slock.Proofs.EngineSimAux
/-! Simulation stage 2 → stage 1: `Rel w a k1 out1` — the working state `w` of a stage-2 operation against the (database, key, replies)
triple stage 1 is working on; the common tails of the branches (reclaim check, counters, reply, wake pass). -/
namespace Slock.Sim
open Slock Slock.Engine2
open Slock.Engine (has)

theorem waiters_nil_of_recs {k : Key} (h : k.recs = []) : (Key.abs k).waiters = [] := by
  rw [abs_waiters]
  have : ∀ x, k.deadWaiter x = true := by
    intro x
    unfold Key.deadWaiter
    rw [getR_of_not_hasRec k x (by intro ⟨r, hr, _⟩; rw [h] at hr; simp at hr)]
    rfl
  simp [this]

/-- a key record without lock records shows an empty key to stage 1, given stage 1's `locked = Σ depth` and `waited ⇒ queue non-empty` -/
theorem isEmpty_of_recs {k : Key} (h : k.recs = []) (ki : Engine.KeyInv (Key.abs k))
    (hfl : (Key.abs k).waited = true → (Key.abs k).waiters ≠ []) : (Key.abs k).isEmpty = true := by
  have h1 := holders_nil_of_recs h
  have h2 := waiters_nil_of_recs h
  have h3 : (Key.abs k).locked = 0 := by rw [ki.sum, h1]; rfl
  have h4 : (Key.abs k).waited = false := by
    cases hw : (Key.abs k).waited with
    | false => rfl
    | true => exact absurd h2 (hfl hw)
  unfold Engine.Key.isEmpty
  rw [h1, h2, h3, h4]; rfl

/-- `WQ` after a step that edits one record `rid` visibly (a tombstone in the wait queue afterwards, if it is there at all), leaves the
wait queue alone and adds at most `rid` to the holder queue -/
theorem WQ.step {k k' : Key} (q : WQ k) (rid : Nat) (hw : k'.wait = k.wait) (px : PKeepX πA (· = rid) k' k)
    (hrec : ∀ x ∈ k'.wait, k'.hasRec x.rid) (hdead : ∀ x ∈ k'.wait, x.rid = rid → k'.deadWaiter rid = true)
    (hsub : ∀ y, y ∈ k'.current.toList ++ k'.locks → y ∈ k.current.toList ++ k.locks ∨ y = rid) : WQ k' := by
  have hne : ∀ x ∈ k'.wait, k'.deadWaiter x.rid = false → x.rid ≠ rid := by
    intro x hxm hx e'
    rw [e', hdead x hxm e'] at hx
    exact absurd hx (by simp)
  refine ⟨by rw [hw]; exact q.nd, ?_, ?_⟩
  · intro x hx hdx hm
    have hne' := hne x hx hdx
    have hv := px.val x.rid hne' (hrec x hx)
    have hdx0 : k.deadWaiter x.rid = false := (timeouted_of_πA hv).symm.trans hdx
    rcases hsub x.rid hm with h | h
    · exact q.sep x (hw ▸ hx) hdx0 h
    · exact hne' h
  · intro x hx hdx
    have hne' := hne x hx hdx
    have hv := px.val x.rid hne' (hrec x hx)
    have hdx0 : k.deadWaiter x.rid = false := (timeouted_of_πA hv).symm.trans hdx
    rw [conn_of_πA hv, cmd_of_πA hv]
    exact q.cs x (hw ▸ hx) hdx0

/-- what the tails need of a linked key record -/
structure Live (w : W) (k1 : Engine.Key) : Prop where
  good : Good w
  cl : CurLive w.k
  cn : CurNone w.k
  wq : WQ w.k
  abs : Key.abs w.k = k1

structure Rel (w : W) (a : Engine.DB) (k1 : Engine.Key) (out1 : List Engine.Reply) : Prop where
  sc : Scal a w.db
  out : w.out.map (·.r) = out1
  lk : w.k.locked = k1.locked
  wd : w.k.waited = k1.waited
  ki : Engine.KeyInv k1
  live : w.gone = false → Live w k1
  dead : w.gone = true → k1.isEmpty = true

namespace Rel
variable {w : W} {a : Engine.DB} {k1 : Engine.Key} {out1 : List Engine.Reply}

theorem loc (h : Rel w a k1 out1) : Loc w k1 := ⟨fun hg => (h.live hg).abs, h.dead⟩

theorem of_live (hg : w.gone = false) (sc : Scal a w.db) (out : w.out.map (·.r) = out1) (ki : Engine.KeyInv k1) (l : Live w k1) : Rel w a k1 out1 :=
  ⟨sc, out, by rw [← l.abs]; rfl, by rw [← l.abs]; rfl, ki, fun _ => l, fun h => by rw [hg] at h; exact absurd h (by simp)⟩

/-- the reclaim check -/
theorem removeIfZero (h : Rel w a k1 out1) (hfl : k1.waited = true → k1.waiters ≠ []) : Rel w.removeIfZero a k1 out1 := by
  obtain ⟨r1, r2, r3, r4, r5, r6⟩ := removeIfZero_fields w
  rcases removeIfZero_cases w with e | ⟨e1, _, e3, e4, _⟩
  · rw [e]; exact h
  · have hl := h.live e3
    have hrecs : w.k.recs = [] := by
      have := hl.good.lv.rc.mgr
      rw [e4] at this
      exact List.length_eq_zero_iff.mp this.symm
    have hem : k1.isEmpty = true := by
      have := hl.abs
      subst this
      exact isEmpty_of_recs hrecs h.ki hfl
    refine ⟨⟨h.sc.now.trans r1.symm, h.sc.tCheck.trans r3.symm, h.sc.eCheck.trans r4.symm, h.sc.seq.trans r5.symm, h.sc.leader.trans r2.symm,
      h.sc.ctr.trans r6.symm⟩, by rw [removeIfZero_out]; exact h.out, by rw [removeIfZero_locked]; exact h.lk, ?_, h.ki,
      fun hg => by rw [e1] at hg; exact absurd hg (by simp), fun _ => hem⟩
    have : w.removeIfZero.k.waited = w.k.waited := by unfold W.removeIfZero; split <;> rfl
    rw [this]; exact h.wd

theorem ctr (h : Rel w a k1 out1) (f : Engine.Counters → Engine.Counters) : Rel (w.ctr f) { a with ctr := f a.ctr } k1 out1 := by
  refine ⟨⟨h.sc.now, h.sc.tCheck, h.sc.eCheck, h.sc.seq, h.sc.leader, ?_⟩, h.out, h.lk, h.wd, h.ki, fun hg => ?_, h.dead⟩
  · show f a.ctr = f w.db.ctr; rw [h.sc.ctr]
  · have l := h.live hg
    exact ⟨l.good.ctr f, l.cl, l.cn, l.wq, l.abs⟩

theorem reply (h : Rel w a k1 out1) (c : Engine.Cmd) (res lr : Nat) (d : Option Bytes) :
    Rel (w.reply c res lr d) a k1 (out1 ++ [Engine.mkReply c res k1.locked lr]) := by
  refine ⟨h.sc, ?_, h.lk, h.wd, h.ki, fun hg => ?_, h.dead⟩
  · unfold W.reply
    simp only [List.map_append, List.map_cons, List.map_nil]
    rw [h.out, h.lk]
  · have l := h.live hg
    exact ⟨l.good.reply c res lr d, l.cl, l.cn, l.wq, l.abs⟩

/-- **the wake pass at the end of a branch** (on a reclaimed key record nothing happens) -/
theorem wake (h : Rel w a k1 out1) :
    Scal (Engine.wake a k1 out1).1 w.wake.db ∧ Loc w.wake (Engine.wake a k1 out1).2.1 ∧ w.wake.out.map (·.r) = (Engine.wake a k1 out1).2.2 := by
  cases hg : w.gone with
  | false =>
    have l := h.live hg
    have := sim_wake w l.good l.cl hg l.cn l.wq a h.sc (by rw [l.abs]; exact h.ki) out1 h.out
    rw [l.abs] at this
    exact this
  | true =>
    have hem := h.dead hg
    have hwd : k1.waited = false := by
      unfold Engine.Key.isEmpty at hem
      simp only [Bool.and_eq_true, Bool.not_eq_true'] at hem
      exact hem.2
    have hw2 : w.k.waited = false := h.wd.trans hwd
    have e2 : w.wake = w := by unfold W.wake W.when; rw [hw2]; rfl
    have e1 : Engine.wake a k1 out1 = (a, k1, out1) := by
      unfold Engine.wake Engine.wakePass
      rw [hwd]; rfl
    rw [e1, e2]
    exact ⟨h.sc, h.loc, h.out⟩

end Rel

end Slock.Sim
