import Slock.Proofs.QueueMaint
/-! C20: the per-operation lemmas lifted to arbitrary operation sequences (induction over the list), from
any state satisfying the invariant and in particular from every constructor call. -/
namespace Slock.Queue

/-- the operations covered by the lifted theorem (everything except Resize, Restructuring, Shrink, iteration, holes) -/
inductive Op
  | push (x : Elem)
  | pushLeft (x : Elem)
  | pop
  | popRight
  | head
  | tail
  | len
  | reset
  | rellac
  | freeQueue
  deriving Repr

inductive Obs
  | unit
  | full
  | elem (e : Elem)
  | int (n : Int)
  deriving Repr, DecidableEq

def stepModel (q : Q) : Op → Res (Q × Obs)
  | .push x => do let q ← push q x; pure (q, .unit)
  | .pushLeft x => do let (q, ok) ← pushLeft q x; pure (q, if ok then .unit else .full)
  | .pop => do let (q, x) ← pop q; pure (q, .elem x)
  | .popRight => do let (q, x) ← popRight q; pure (q, .elem x)
  | .head => do let x ← head q; pure (q, .elem x)
  | .tail => do let x ← tail q; pure (q, .elem x)
  | .len => do let n ← len q; pure (q, .int n)
  | .reset => do let q ← reset q; pure (q, .unit)
  | .rellac => do let q ← rellac q; pure (q, .unit)
  | .freeQueue => do let q ← freeQueue q; pure (q, .unit)

def runModel : Q → List Op → Res (Q × List Obs)
  | q, [] => .ok (q, [])
  | q, op :: ops => do
    let (q1, o) ← stepModel q op
    let (q2, os) ← runModel q1 ops
    pure (q2, o :: os)

/-- One step of the SPEC: a plain double-ended queue over `List (Option Nat)` (`none` = a nil element).
`pushLeft` may be refused with the answer "full", in which case nothing is inserted. -/
def stepSpec : List Elem → Op → Obs → List Elem → Prop
  | l, .push x, o, l' => o = .unit ∧ l' = l ++ [x]
  | l, .pushLeft x, o, l' => (o = .unit ∧ l' = x :: l) ∨ (o = .full ∧ l' = l)
  | l, .pop, o, l' => o = .elem l.head?.join ∧ l' = l.tail
  | l, .popRight, o, l' => o = .elem l.getLast?.join ∧ l' = l.dropLast
  | l, .head, o, l' => o = .elem l.head?.join ∧ l' = l
  | l, .tail, o, l' => o = .elem l.getLast?.join ∧ l' = l
  | l, .len, o, l' => o = .int (l.length : Int) ∧ l' = l
  | _, .reset, o, l' => o = .unit ∧ l' = []
  | _, .rellac, o, l' => o = .unit ∧ l' = []
  | l, .freeQueue, o, l' => o = .unit ∧ l' = l

inductive SpecRun : List Elem → List Op → List Obs → List Elem → Prop
  | nil (l : List Elem) : SpecRun l [] [] l
  | cons {l l1 l2 : List Elem} {op : Op} {o : Obs} {ops : List Op} {os : List Obs} :
      stepSpec l op o l1 → SpecRun l1 ops os l2 → SpecRun l (op :: ops) (o :: os) l2

theorem step_refines {q : Q} (h : QInv q) (op : Op) :
    ∃ q' o, stepModel q op = .ok (q', o) ∧ QInv q' ∧ stepSpec (abs q) op o (abs q') := by
  cases op with
  | push x =>
    obtain ⟨q', e, hq, ha⟩ := push_refines h x
    exact ⟨q', .unit, by simp [stepModel, e], hq, rfl, ha⟩
  | pushLeft x =>
    by_cases hf : q.hni = 0 ∧ q.hqi = 0
    · exact ⟨q, .full, by simp [stepModel, pushLeft_full q x hf], h, Or.inr ⟨rfl, rfl⟩⟩
    · obtain ⟨q', e, hq, ha⟩ := pushLeft_refines h x hf
      exact ⟨q', .unit, by simp [stepModel, e], hq, Or.inl ⟨rfl, ha⟩⟩
  | pop =>
    obtain ⟨q', e, hq, ha⟩ := pop_refines h
    exact ⟨q', _, by simp [stepModel, e], hq, rfl, ha⟩
  | popRight =>
    obtain ⟨q', e, hq, ha⟩ := popRight_refines h
    exact ⟨q', _, by simp [stepModel, e], hq, rfl, ha⟩
  | head => exact ⟨q, _, by simp [stepModel, head_refines h], h, rfl, rfl⟩
  | tail => exact ⟨q, _, by simp [stepModel, tail_refines h], h, rfl, rfl⟩
  | len => exact ⟨q, _, by simp [stepModel, len_refines h], h, rfl, rfl⟩
  | reset =>
    obtain ⟨q', e, hq, ha⟩ := reset_refines h
    exact ⟨q', .unit, by simp [stepModel, e], hq, rfl, ha⟩
  | rellac =>
    obtain ⟨q', e, hq, ha⟩ := rellac_refines h
    exact ⟨q', .unit, by simp [stepModel, e], hq, rfl, ha⟩
  | freeQueue =>
    obtain ⟨q', e, hq, ha⟩ := freeQueue_refines h
    exact ⟨q', .unit, by simp [stepModel, e], hq, rfl, ha⟩

/-- every operation sequence, of any length, from any state satisfying the invariant -/
theorem run_refines {q : Q} (h : QInv q) (ops : List Op) :
    ∃ q' os, runModel q ops = .ok (q', os) ∧ QInv q' ∧ SpecRun (abs q) ops os (abs q') := by
  induction ops generalizing q with
  | nil => exact ⟨q, [], rfl, h, SpecRun.nil _⟩
  | cons op ops ih =>
    obtain ⟨q1, o, e1, h1, s1⟩ := step_refines h op
    obtain ⟨q2, os, e2, h2, s2⟩ := ih h1
    exact ⟨q2, o :: os, by simp [runModel, e1, e2], h2, SpecRun.cons s1 s2⟩

/-- the constructor establishes the invariant with an empty content, for ALL parameters from 1 up -/
theorem newQueue_inv (b n s : Nat) (hb : 1 ≤ b) (hn : 1 ≤ n) (hs : 1 ≤ s) (hs2 : s < 1073741824) :
    ∃ q, newQueue b n s = .ok q ∧ QInv q ∧ abs q = [] := by
  have hn0 : ¬ n = 0 := by omega
  have hb0 : ¬ b = 0 := by omega
  refine ⟨{ hqi := 0, hqs := s, headQueue := .node 0, tqi := 0, tqs := s, tailQueue := .node 0, hni := 0, tni := 0,
             queues := some (List.replicate s none) :: List.replicate (n - 1) none,
             sizes := s :: List.replicate (n - 1) 0,
             baseNodeSize := b, nodeIndex := 0, nodeSize := n, shrinkNodeSize := 0,
             baseQueueSize := s, queueSize := s, rellac := 0, dead := [] },
          by simp only [newQueue, hn0, hb0, if_false], ?_, ?_⟩
  · constructor <;> simp only [shape, List.map_cons, List.length_cons, List.length_map, List.length_replicate, Option.map] <;> (try omega)
    case alloc =>
      intro j hj
      have : j = 0 := by omega
      subst this
      exact ⟨s, by simp, by simp, by omega, by omega⟩
    case free =>
      intro j h1 h2
      cases j with
      | zero => omega
      | succ j =>
        have : j < n - 1 := by omega
        simp [List.getElem?_replicate, this]
    case hqs => simp
    case tqs => simp
  · simp [abs, absL, off, F]

/-- **C20 for the segmented deque, lifted**: from `New…Queue(b, n, s)` with any parameters from 1 up, every
operation sequence runs without panic and its observations are those of a plain deque. -/
theorem run_from_new (b n s : Nat) (hb : 1 ≤ b) (hn : 1 ≤ n) (hs : 1 ≤ s) (hs2 : s < 1073741824) (ops : List Op) :
    ∃ q0 q' os, newQueue b n s = .ok q0 ∧ runModel q0 ops = .ok (q', os) ∧ QInv q' ∧ SpecRun [] ops os (abs q') := by
  obtain ⟨q0, e0, h0, a0⟩ := newQueue_inv b n s hb hn hs hs2
  obtain ⟨q', os, e, h', sr⟩ := run_refines h0 ops
  rw [a0] at sr
  exact ⟨q0, q', os, e0, e, h', sr⟩

end Slock.Queue
