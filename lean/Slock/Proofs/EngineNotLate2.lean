import Slock.Proofs.EngineNotLate
/-!
C06 not-late, global: in reachable states every live hold is scheduled on the expiry wheel for a second still ahead;
long-table entries are keyed by the deadline; slot entries are looked at within `MAX_WAIT` seconds, and (an update or
re-lock may move the deadline while the slot entry stays) within `MAX_WAIT` seconds of the deadline. Identity of lock
records (`hid`) is unique per key and below `db.seq`.
-/
namespace Slock.Engine

/-! ### wheel arithmetic -/

theorem wheelAdd_all (check seq d n : Nat) :
    check ≤ (wheelAdd check seq d n).2.visit ∧
    ((wheelAdd check seq d n).2.long = true → (wheelAdd check seq d n).2.visit = (wheelAdd check seq d n).1) ∧
    ((wheelAdd check seq d n).2.long = false → (wheelAdd check seq d n).2.visit ≤ check + MAX_WAIT) ∧
    (check ≤ d → (wheelAdd check seq d n).1 = d ∧ (wheelAdd check seq d n).2.visit ≤ d) := by
  unfold wheelAdd
  by_cases hn : n > MAX_WAIT <;> by_cases h1 : d < check <;> by_cases h2 : d < check + n <;>
    simp [hn, h1, h2] <;> omega

theorem expiryDeadline_ge (now : Nat) (c : Cmd) (h : now < INF_TIME) : now + 1 ≤ expiryDeadline now c := by
  unfold expiryDeadline
  unfold INF_TIME at *
  split
  · omega
  · split <;> omega

/-! ### per-hold wheel facts -/

/-- wheel facts of a live hold under key id `n` at server time `now` that hold at every moment (also inside a sweep) -/
structure HOKs (now n : Nat) (h : Hold) : Prop where
  key : h.cmd.key = n
  long : h.sched.long = true → h.sched.visit = h.expT
  short : h.sched.long = false → h.sched.visit ≤ now + 1 + MAX_WAIT
  near : now < INF_TIME → h.sched.long = false → h.sched.visit ≤ h.expT + MAX_WAIT

/-- the wheel entry is not after the deadline (true for holds whose deadline was never shortened) -/
def SOK (now : Nat) (h : Hold) : Prop := now < INF_TIME → h.sched.visit ≤ h.expT

theorem HOKs.tick {now n : Nat} {h : Hold} (ho : HOKs now n h) : HOKs (now + 1) n h :=
  ⟨ho.key, ho.long, fun hl => by have := ho.short hl; omega, fun hn hl => ho.near (by omega) hl⟩

theorem SOK.tick {now : Nat} {h : Hold} (ho : SOK now h) : SOK (now + 1) h := fun hn => ho (by omega)

/-- a record put on the wheel at check time `now + 1` with a deadline that is ahead (always, below 2^63−1) -/
theorem wheel_hold_ok (now n seq D N : Nat) (h : Hold) (hk : h.cmd.key = n)
    (he : h.expT = (wheelAdd (now + 1) seq D N).1) (hs : h.sched = (wheelAdd (now + 1) seq D N).2)
    (hD : now < INF_TIME → now + 1 ≤ D) : HOKs now n h ∧ now + 1 ≤ h.sched.visit ∧ SOK now h := by
  have ha := wheelAdd_all (now + 1) seq D N
  rw [← he, ← hs] at ha
  refine ⟨⟨hk, ha.2.1, ha.2.2.1, ?_⟩, ha.1, ?_⟩
  · intro hn _
    have := (ha.2.2.2 (hD hn)).2
    have e := (ha.2.2.2 (hD hn)).1
    omega
  · intro hn
    have := (ha.2.2.2 (hD hn)).2
    have e := (ha.2.2.2 (hD hn)).1
    omega

/-- the same for a check time of `now` or `now + 1` (inside a tick the timeout sweep runs, and since the C04 fix may
grant from its wake passes, while the expiry check time is still the old one) -/
theorem wheel_hold_ok' (now check n seq D N : Nat) (h : Hold) (hk : h.cmd.key = n)
    (he : h.expT = (wheelAdd check seq D N).1) (hs : h.sched = (wheelAdd check seq D N).2)
    (hc1 : now ≤ check) (hc2 : check ≤ now + 1)
    (hD : now < INF_TIME → now + 1 ≤ D) : HOKs now n h ∧ check ≤ h.sched.visit ∧ SOK now h := by
  have ha := wheelAdd_all check seq D N
  rw [← he, ← hs] at ha
  refine ⟨⟨hk, ha.2.1, fun hl => by have := ha.2.2.1 hl; omega, ?_⟩, ha.1, ?_⟩
  · intro hn _
    have := (ha.2.2.2 (by have := hD hn; omega)).2
    have e := (ha.2.2.2 (by have := hD hn; omega)).1
    omega
  · intro hn
    have := (ha.2.2.2 (by have := hD hn; omega)).2
    have e := (ha.2.2.2 (by have := hD hn; omega)).1
    omega

theorem grantedHold_ok' (d : DB) (c : Cmd) (hc1 : d.now ≤ d.eCheck) (hc2 : d.eCheck ≤ d.now + 1) :
    HOKs d.now c.key (grantedHold d c) ∧ d.eCheck ≤ (grantedHold d c).sched.visit ∧ SOK d.now (grantedHold d c) :=
  wheel_hold_ok' d.now d.eCheck c.key d.seq (expiryDeadline d.now c) (initChecked c d.now (expiryDeadline d.now c))
    (grantedHold d c) rfl rfl rfl hc1 hc2 (expiryDeadline_ge _ _)

theorem grantedHold_ok (d : DB) (c : Cmd) (he : d.eCheck = d.now + 1) :
    HOKs d.now c.key (grantedHold d c) ∧ d.now + 1 ≤ (grantedHold d c).sched.visit ∧ SOK d.now (grantedHold d c) := by
  apply wheel_hold_ok d.now c.key d.seq (expiryDeadline d.now c) (initChecked c d.now (expiryDeadline d.now c)) (grantedHold d c) rfl
  · unfold grantedHold; rw [he]
  · unfold grantedHold; rw [he]
  · exact expiryDeadline_ge _ _

theorem rearmedH_ok (d : DB) (h : Hold) (n : Nat) (he : d.eCheck = d.now + 1) (hk : h.cmd.key = n) (hd : h.expT > d.now) :
    HOKs d.now n (rearmedH d h) ∧ d.now + 1 ≤ (rearmedH d h).sched.visit ∧ SOK d.now (rearmedH d h) := by
  apply wheel_hold_ok d.now n d.seq h.expT (h.sched.checked + 1) (rearmedH d h) hk
  · unfold rearmedH; rw [he]
  · unfold rearmedH; rw [he]
  · intro _; omega

theorem rearmedH_hid (d : DB) (h : Hold) : (rearmedH d h).hid = h.hid := rfl

/-- an update / re-lock of a live hold keeps the wheel facts -/
theorem updateHold_ok (d : DB) (h : Hold) (c : Cmd) (n : Nat) (he : d.eCheck = d.now + 1) (hk : c.key = n)
    (ho : HOKs d.now n h) (hl : d.now + 1 ≤ h.sched.visit) :
    HOKs d.now n (updateHold d h c).2 ∧ d.now + 1 ≤ (updateHold d h c).2.sched.visit := by
  unfold updateHold
  split
  · exact ⟨⟨hk, ho.long, ho.short, ho.near⟩, hl⟩
  · simp only []
    split
    · rename_i hlong
      split
      · have := wheel_hold_ok d.now n d.seq (expiryDeadline d.now c)
          (if has c.eflag EF_NO_RESET then h.sched.checked else initChecked c d.now (expiryDeadline d.now c))
          { h with cmd := c, conn := c.conn, startT := d.now,
                   expT := (wheelAdd d.eCheck d.seq (expiryDeadline d.now c)
                     (if has c.eflag EF_NO_RESET then h.sched.checked else initChecked c d.now (expiryDeadline d.now c))).1,
                   sched := (wheelAdd d.eCheck d.seq (expiryDeadline d.now c)
                     (if has c.eflag EF_NO_RESET then h.sched.checked else initChecked c d.now (expiryDeadline d.now c))).2 }
          hk (by rw [he]) (by rw [he]) (expiryDeadline_ge _ _)
        exact ⟨this.1, this.2.1⟩
      · rename_i hne
        have e : expiryDeadline d.now c = h.expT := by simpa using hne
        refine ⟨⟨hk, ?_, ?_, ?_⟩, hl⟩
        · intro _; simp only []; rw [e]; exact ho.long hlong
        · intro hf; simp only [] at hf; rw [hlong] at hf; exact absurd hf (by simp)
        · intro _ hf; simp only [] at hf; rw [hlong] at hf; exact absurd hf (by simp)
    · rename_i hlong
      have hf : h.sched.long = false := by simpa using hlong
      refine ⟨⟨hk, ?_, ?_, ?_⟩, hl⟩
      · intro ht; simp only [] at ht; rw [hf] at ht; exact absurd ht (by simp)
      · intro _; exact ho.short hf
      · intro hn _
        have h1 := ho.short hf
        have h2 := expiryDeadline_ge d.now c hn
        simp only []
        omega

theorem updateHold_hid (d : DB) (h : Hold) (c : Cmd) : (updateHold d h c).2.hid = h.hid := by
  unfold updateHold
  split
  · rfl
  · simp only []
    split
    · split <;> rfl
    · rfl

theorem updateHold_seq_le (d : DB) (h : Hold) (c : Cmd) : d.seq ≤ (updateHold d h c).1.seq := by
  unfold updateHold
  split
  · exact Nat.le_refl _
  · simp only []
    split
    · split
      · exact Nat.le_succ _
      · exact Nat.le_refl _
    · exact Nat.le_refl _

/-- an update / re-lock that does not move the deadline back keeps "wheel entry not after the deadline" -/
theorem updateHold_sok (d : DB) (h : Hold) (c : Cmd) (he : d.eCheck = d.now + 1) (hs : SOK d.now h)
    (hns : h.expT ≤ (updateHold d h c).2.expT) : SOK d.now (updateHold d h c).2 := by
  unfold updateHold at hns ⊢
  split
  · exact hs
  · rename_i htok
    rw [if_neg htok] at hns
    simp only [] at hns ⊢
    split
    · rename_i hlong
      rw [if_pos hlong] at hns
      split
      · have := wheel_hold_ok d.now c.key d.seq (expiryDeadline d.now c)
          (if has c.eflag EF_NO_RESET then h.sched.checked else initChecked c d.now (expiryDeadline d.now c))
          { h with cmd := c, conn := c.conn, startT := d.now,
                   expT := (wheelAdd d.eCheck d.seq (expiryDeadline d.now c)
                     (if has c.eflag EF_NO_RESET then h.sched.checked else initChecked c d.now (expiryDeadline d.now c))).1,
                   sched := (wheelAdd d.eCheck d.seq (expiryDeadline d.now c)
                     (if has c.eflag EF_NO_RESET then h.sched.checked else initChecked c d.now (expiryDeadline d.now c))).2 }
          rfl (by rw [he]) (by rw [he]) (expiryDeadline_ge _ _)
        exact this.2.2
      · rename_i hne
        have e : expiryDeadline d.now c = h.expT := by simpa using hne
        intro hn; simp only []; rw [e]; exact hs hn
    · rename_i hlong
      rw [if_neg hlong] at hns
      intro hn
      have := hs hn
      simp only [] at hns ⊢
      omega

/-! ### identity of lock records -/

/-- the `hid`s of a holder list are pairwise distinct and below `s` -/
def HUl (s : Nat) (hs : List Hold) : Prop := (hs.map (·.hid)).Nodup ∧ ∀ i ∈ hs.map (·.hid), i < s

def HU (db : DB) : Prop := ∀ k ∈ db.keys, HUl db.seq k.holders

theorem HUl.mono {s s' : Nat} {hs : List Hold} (h : HUl s hs) (hle : s ≤ s') : HUl s' hs :=
  ⟨h.1, fun i hi => Nat.lt_of_lt_of_le (h.2 i hi) hle⟩

theorem HUl.nil (s : Nat) : HUl s [] := ⟨by simp, by simp⟩

theorem replaceHolder_hids {hs : List Hold} {h h' : Hold} (e : h'.hid = h.hid) :
    (replaceHolder hs h h').map (·.hid) = hs.map (·.hid) := by
  induction hs with
  | nil => rfl
  | cons x rest ih =>
    unfold replaceHolder
    split
    · rename_i hx; simp [e, hx]
    · simp [ih]

theorem removeHolder_sublist (hs : List Hold) (h : Hold) : (removeHolder hs h).Sublist hs := by
  induction hs with
  | nil => exact List.Sublist.refl _
  | cons x rest ih =>
    unfold removeHolder
    split
    · exact List.sublist_cons_self _ _
    · exact List.Sublist.cons_cons _ ih

theorem HUl.replace {s : Nat} {hs : List Hold} {h h' : Hold} (hu : HUl s hs) (e : h'.hid = h.hid) :
    HUl s (replaceHolder hs h h') := by
  unfold HUl; rw [replaceHolder_hids e]; exact hu

theorem HUl.remove {s : Nat} {hs : List Hold} {h : Hold} (hu : HUl s hs) : HUl s (removeHolder hs h) := by
  have hsub := (removeHolder_sublist hs h).map (·.hid)
  exact ⟨List.Nodup.sublist hsub hu.1, fun i hi => hu.2 i (hsub.subset hi)⟩

theorem HUl.grant {d : DB} {hs : List Hold} (c : Cmd) (hu : HUl d.seq hs) : HUl (d.seq + 1) (hs ++ [grantedHold d c]) := by
  constructor
  · rw [List.map_append]
    apply List.nodup_append.mpr
    refine ⟨hu.1, by simp, ?_⟩
    intro a ha b hb
    simp at hb
    have := hu.2 a ha
    rw [hb]; simp only [grantedHold]; omega
  · intro i hi
    rw [List.map_append] at hi
    rcases List.mem_append.mp hi with h1 | h1
    · have := hu.2 i h1; omega
    · simp at h1; rw [h1]; simp only [grantedHold]; omega

/-- two live holds of one key with the same `hid` are the same record -/
theorem hid_inj {hs : List Hold} (hn : (hs.map (·.hid)).Nodup) {x y : Hold} (hx : x ∈ hs) (hy : y ∈ hs) (e : x.hid = y.hid) :
    x = y := by
  induction hs with
  | nil => simp at hx
  | cons a rest ih =>
    have ha : a.hid ∉ rest.map (·.hid) ∧ (rest.map (·.hid)).Nodup := List.nodup_cons.mp (by simpa only [List.map_cons] using hn)
    rcases List.mem_cons.mp hx with h1 | h1 <;> rcases List.mem_cons.mp hy with h2 | h2
    · rw [h1, h2]
    · exfalso; apply ha.1; rw [← h1, e]; exact List.mem_map.mpr ⟨y, h2, rfl⟩
    · exfalso; apply ha.1; rw [← h2, ← e]; exact List.mem_map.mpr ⟨x, h1, rfl⟩
    · exact ih ha.2 h1 h2

theorem nodup_of_hids {hs : List Hold} (hn : (hs.map (·.hid)).Nodup) : hs.Nodup := by
  have := List.pairwise_map.mp hn
  exact List.Pairwise.imp (fun hne e => hne (by rw [e])) this

/-- in a duplicate-free list, removing a record leaves none equal to it -/
theorem mem_removeHolder_ne {hs : List Hold} {h x : Hold} (hn : hs.Nodup) (hx : x ∈ removeHolder hs h) : x ≠ h := by
  induction hs with
  | nil => simp [removeHolder] at hx
  | cons y rest ih =>
    have hy := List.nodup_cons.mp hn
    unfold removeHolder at hx
    by_cases hyh : y = h
    · simp only [hyh, if_true] at hx
      intro e; apply hy.1; rw [hyh, ← e]; exact hx
    · simp only [hyh, if_false] at hx
      rcases List.mem_cons.mp hx with h1 | h1
      · rw [h1]; exact hyh
      · exact ih hy.2 h1

/-- … and replacing a record by another leaves the old value only if it is the new one -/
theorem mem_replaceHolder_ne {hs : List Hold} {h h' x : Hold} (hn : hs.Nodup) (hx : x ∈ replaceHolder hs h h') :
    (x ∈ hs ∧ x ≠ h) ∨ x = h' := by
  induction hs with
  | nil => simp [replaceHolder] at hx
  | cons y rest ih =>
    have hy := List.nodup_cons.mp hn
    unfold replaceHolder at hx
    by_cases hyh : y = h
    · simp only [hyh, if_true] at hx
      rcases List.mem_cons.mp hx with h1 | h1
      · exact Or.inr h1
      · left
        refine ⟨List.mem_cons_of_mem _ h1, ?_⟩
        intro e; apply hy.1; rw [hyh, ← e]; exact h1
    · simp only [hyh, if_false] at hx
      rcases List.mem_cons.mp hx with h1 | h1
      · left; rw [h1]; exact ⟨by simp, hyh⟩
      · rcases ih hy.2 h1 with ⟨h2, h3⟩ | h2
        · exact Or.inl ⟨List.mem_cons_of_mem _ h2, h3⟩
        · exact Or.inr h2

/-! ### `HU` through the steps -/

theorem getKey_hu {db : DB} (h : HU db) (n : Nat) : HUl db.seq (db.getKey n).holders := by
  rcases getKey_mem_or_empty db n with h1 | h1
  · exact h _ h1
  · rw [h1]; exact HUl.nil _

theorem setKey_hu {db : DB} (h : HU db) {k : Key} (hk : HUl db.seq k.holders) : HU (db.setKey k) := by
  intro x hx
  rcases mem_setKey_keys hx with ⟨h1, _⟩ | h1
  · exact h x h1
  · rw [h1]; exact hk

theorem HU.of_keys_seq {db db' : DB} (h : HU db) (e : db'.keys = db.keys) (hs : db.seq ≤ db'.seq) : HU db' := by
  intro k hk; rw [e] at hk; exact (h k hk).mono hs

theorem wake_hu (db : DB) (k : Key) (out : List Reply) (hk : HUl db.seq k.holders) :
    HUl (wake db k out).1.seq (wake db k out).2.1.holders := by
  apply wake_ind (fun d q => HUl d.seq q.holders)
  · intro d q d' q' r hp hw
    obtain ⟨w, rest, _, _, _, _, _, _, _, hh⟩ := wakeIter_spec hw
    rcases hh with ⟨h1, _, h2⟩ | ⟨h1, _, h2⟩
    · rw [h1, h2]; exact HUl.grant _ hp
    · rw [h1, h2]; exact hp
  · intro d q hp; exact hp
  · exact hk

/-- a wake pass from an in-flight key, stored back -/
theorem wake_store_hu {db0 db : DB} {k : Key} (out : List Reply) (h0 : HU db0) (e : db.keys = db0.keys) (hs : db0.seq ≤ db.seq)
    (hk : HUl db.seq k.holders) : HU ((wake db k out).1.setKey (wake db k out).2.1) :=
  setKey_hu (h0.of_keys_seq (by rw [wake_keys, e]) (Nat.le_trans hs (wake_prov db k out).2.1)) (wake_hu db k out hk)

theorem opLock_hu (db : DB) (c : Cmd) (h : HU db) : HU (opLock db c).1 := by
  unfold opLock
  have hk := getKey_hu h c.key
  cases hb : classifyLock db c with
  | p0a | p0b | stateError | unlockedWaitRefused | timeout => exact h
  | «show» cur | updateEqual h' | relockNoHold h' | relockRefused h' => exact h
  | update h' =>
    simp only [applyLock]
    exact wake_store_hu _ h (updateHold_db_keys _ _ _) (updateHold_seq_le _ _ _)
      ((HUl.replace hk (updateHold_hid _ _ _)).mono (updateHold_seq_le _ _ _))
  | relock h' =>
    simp only [applyLock]
    exact wake_store_hu _ h (by simp [updateHold_db_keys]) (updateHold_seq_le db { h' with depth := h'.depth + 1 } c)
      ((HUl.replace hk (h := h') (updateHold_hid db { h' with depth := h'.depth + 1 } c)).mono
        (updateHold_seq_le db { h' with depth := h'.depth + 1 } c))
  | grant =>
    simp only [applyLock]
    have hg : HUl (grantHold db (db.getKey c.key) c).1.seq (grantHold db (db.getKey c.key) c).2.holders := by
      rw [grantHold_seq, grantHold_holders_eq]; exact HUl.grant c hk
    split
    · exact wake_store_hu _ h (grantHold_db_keys _ _ _) (by rw [grantHold_seq]; omega) hg
    · exact setKey_hu (h.of_keys_seq (grantHold_db_keys db (db.getKey c.key) c) (by rw [grantHold_seq]; omega)) hg
  | grantNoHold =>
    simp only [applyLock]
    split
    · exact wake_store_hu _ h rfl (Nat.le_refl _) hk
    · exact setKey_hu (h.of_keys_seq rfl (Nat.le_refl _)) hk
  | queue =>
    simp only [applyLock]
    apply setKey_hu
    · exact h.of_keys_seq rfl (Nat.le_succ _)
    · exact hk.mono (Nat.le_succ _)

theorem opUnlock_hu (db : DB) (c : Cmd) (h : HU db) : HU (opUnlock db c).1 := by
  unfold opUnlock
  have hk := getKey_hu h c.key
  cases hb : classifyUnlock db c with
  | stateError | notLocked | unown | cancelNone => exact h.of_keys_seq rfl (Nat.le_refl _)
  | cancel w =>
    simp only [applyUnlock]
    exact wake_store_hu _ h rfl (Nat.le_refl _) hk
  | dec h' c' =>
    simp only [applyUnlock]
    exact wake_store_hu _ h rfl (Nat.le_refl _) (HUl.replace hk (h := h') (h' := { h' with depth := h'.depth - 1 }) rfl)
  | release h' c' =>
    simp only [applyUnlock]
    exact wake_store_hu _ h rfl (Nat.le_refl _) hk.remove

theorem fireTimeout_hu (db : DB) (key : Nat) (w : Waiter) (h : HU db) : HU (fireTimeout db key w).1 := by
  unfold fireTimeout
  exact wake_store_hu _ h rfl (Nat.le_refl _) (getKey_hu h key)

theorem fireExpire_hu (db : DB) (key : Nat) (hd : Hold) (h : HU db) : HU (fireExpire db key hd).1 := by
  unfold fireExpire
  exact wake_store_hu _ h rfl (Nat.le_refl _) (getKey_hu h key).remove

theorem rearmWaiter_hu (db : DB) (w : Waiter) (h : HU db) : HU (rearmWaiter db w) := by
  rw [rearmWaiter_eq]; unfold updateWaiter
  have h' : HU { db with seq := db.seq + 1 } := h.of_keys_seq rfl (Nat.le_succ _)
  exact setKey_hu h' (getKey_hu h' _)

theorem rearmHold_hu (db : DB) (hd : Hold) (h : HU db) : HU (rearmHold db hd) := by
  rw [rearmHold_eq]; unfold updateHoldIn
  have h' : HU { db with seq := db.seq + 1 } := h.of_keys_seq rfl (Nat.le_succ _)
  exact setKey_hu h' (HUl.replace (getKey_hu h' _) (rearmedH_hid db hd))

end Slock.Engine
