import Slock.Proofs.Engine2Tick
/-! Stage-2 engine: looking up and editing lock records of one key record. -/
namespace Slock.Engine2

def Key.hasRec (k : Key) (rid : Nat) : Prop := ∃ r ∈ k.recs, r.rid = rid

theorem find_map_mod (l : List Rec) (rid : Nat) (f : Rec → Rec) (hf : ∀ r, r.rid = rid → (f r).rid = rid) :
    (l.map (fun x => if x.rid == rid then f x else x)).find? (·.rid == rid) = (l.find? (·.rid == rid)).map f := by
  induction l with
  | nil => rfl
  | cons a as ih =>
    by_cases h : (a.rid == rid) = true
    · have h2 : ((f a).rid == rid) = true := by rw [hf a (by simpa using h)]; simp
      simp only [List.map_cons, h, if_true, List.find?_cons, h2, Option.map_some]
    · have h' : (a.rid == rid) = false := by simpa using h
      simp only [List.map_cons, h', Bool.false_eq_true, if_false, List.find?_cons]
      exact ih

theorem find_map_mod_other (l : List Rec) (rid rid' : Nat) (f : Rec → Rec) (hf : ∀ r, (f r).rid = r.rid) (hne : rid' ≠ rid) :
    (l.map (fun x => if x.rid == rid then f x else x)).find? (·.rid == rid') = l.find? (·.rid == rid') := by
  induction l with
  | nil => rfl
  | cons a as ih =>
    by_cases h : (a.rid == rid) = true
    · have e : a.rid = rid := by simpa using h
      have h1 : (a.rid == rid') = false := by rw [e]; simpa using (fun e' : rid = rid' => hne e'.symm)
      have h2 : ((f a).rid == rid') = false := by rw [hf]; exact h1
      simp only [List.map_cons, h, if_true, List.find?_cons, h1, h2]
      exact ih
    · have h' : (a.rid == rid) = false := by simpa using h
      simp only [List.map_cons, h', Bool.false_eq_true, if_false, List.find?_cons]
      cases (a.rid == rid')
      · exact ih
      · rfl

theorem hasRec_find (k : Key) (rid : Nat) (h : k.hasRec rid) : ∃ r, k.recs.find? (·.rid == rid) = some r := by
  obtain ⟨r, hr, e⟩ := h
  cases hf : k.recs.find? (·.rid == rid) with
  | some x => exact ⟨x, rfl⟩
  | none =>
    have := List.find?_eq_none.mp hf r hr
    simp [e] at this

theorem getR_modRec_same (k : Key) (rid : Nat) (f : Rec → Rec) (hf : ∀ r, (f r).rid = r.rid) (h : k.hasRec rid) :
    (k.modRec rid f).getR rid = f (k.getR rid) := by
  obtain ⟨x, hx⟩ := hasRec_find k rid h
  unfold Key.getR Key.modRec
  simp only []
  rw [find_map_mod _ _ _ (fun r e => by rw [hf, e]), hx]; rfl

theorem getR_modRec_other (k : Key) (rid rid' : Nat) (f : Rec → Rec) (hf : ∀ r, (f r).rid = r.rid) (hne : rid' ≠ rid) :
    (k.modRec rid f).getR rid' = k.getR rid' := by
  unfold Key.getR Key.modRec
  simp only []
  rw [find_map_mod_other _ _ _ _ hf hne]

theorem getR_rid (k : Key) (rid : Nat) : (k.getR rid).rid = rid := by
  unfold Key.getR
  cases h : k.recs.find? (·.rid == rid) with
  | none => rfl
  | some r => have := List.find?_some h; simpa using this

theorem getR_setRec_same (k : Key) (r : Rec) (h : k.hasRec r.rid) : (k.setRec r).getR r.rid = r := by
  obtain ⟨x, hx⟩ := hasRec_find k r.rid h
  unfold Key.getR Key.setRec Key.modRec
  simp only []
  rw [find_map_mod _ _ _ (fun _ _ => rfl), hx]; rfl

theorem hasRec_modRec (k : Key) (rid rid' : Nat) (f : Rec → Rec) (hf : ∀ r, (f r).rid = r.rid) :
    (k.modRec rid f).hasRec rid' ↔ k.hasRec rid' := by
  unfold Key.hasRec Key.modRec
  simp only [List.mem_map]
  constructor
  · rintro ⟨r, ⟨x, hx, e⟩, hr⟩
    refine ⟨x, hx, ?_⟩
    rw [← hr, ← e]; split
    · rw [hf]
    · rfl
  · rintro ⟨r, hr, e⟩
    refine ⟨_, ⟨r, hr, rfl⟩, ?_⟩
    split
    · rw [hf]; exact e
    · exact e

/-- off-leader `PushLockAof` does nothing at all -/
theorem pushLockAof_off_leader (w : W) (rid flag : Nat) (h : w.db.leader = false) : w.pushLockAof rid flag = w := by
  unfold W.pushLockAof; simp [h]
theorem pushLockAofN_off_leader (n : Nat) (w : W) (rid : Nat) (h : w.db.leader = false) : W.pushLockAofN n w rid = w := by
  induction n with
  | zero => rfl
  | succ n ih => unfold W.pushLockAofN; rw [pushLockAof_off_leader w rid 0 h]; exact ih
theorem pushUnLockAof_off_leader (w : W) (rid : Nat) (lc : Cmd) (fa ia : Bool) (flag : Nat) (h : w.db.leader = false) :
    w.pushUnLockAof rid lc fa ia flag = w := by
  unfold W.pushUnLockAof; simp [h]

theorem addExpried_off_leader (w : W) (rid : Nat) (h : w.db.leader = false) : w.addExpried rid = w.schedExpried rid := by
  unfold W.addExpried
  simp only []
  cases (!(w.k.getR rid).isAof && (w.k.getR rid).aofTime != 0xff && decide (w.db.now - (w.k.getR rid).startT ≥ (w.k.getR rid).aofTime))
  · rfl
  · simp only [W.when, if_true]
    exact pushLockAofN_off_leader _ _ _ (by simpa [W.schedExpried] using h)

/-- the deferral branch of `doExpried`, spelled out -/
theorem fireExpire_deferred (w : W) (rid : Nat) (hm : w.k.hasRec rid) (hs : (w.k.getR rid).eSched.isSome = true) (hl : w.db.leader = false)
    (hd : deferExpiry w.db (w.k.getR rid) = true) (he : (w.k.getR rid).expried = false) :
    (w.fireExpire rid).out = w.out ∧ (w.fireExpire rid).gone = w.gone ∧ (w.fireExpire rid).k.key = w.k.key ∧
    (w.fireExpire rid).k.getR rid =
      { (w.k.getR rid) with expried := false,
                            expT := (Slock.Engine.wheelAdd w.db.eCheck w.db.seq (w.db.now + 30) (w.k.getR rid).eChecked).1,
                            eSched := some (Slock.Engine.wheelAdd w.db.eCheck w.db.seq (w.db.now + 30) (w.k.getR rid).eChecked).2 } ∧
    (w.fireExpire rid).k.locked = w.k.locked ∧ (w.fireExpire rid).k.current = w.k.current ∧ (w.fireExpire rid).k.locks = w.k.locks ∧
    (w.fireExpire rid).db.keys = w.db.keys := by
  have hE : w.k.hasE rid = true := by
    unfold Key.hasE
    simp only [hs, Bool.and_true]
    obtain ⟨r, hr, e⟩ := hm
    exact List.any_eq_true.mpr ⟨r, hr, by simp [e]⟩
  unfold W.fireExpire
  simp only [hE, he, hd, Bool.not_true, Bool.false_eq_true, if_false, if_true]
  rw [addExpried_off_leader _ _ (by simpa using hl)]
  have h2 : (w.k.modRec rid fun r => { r with expT := w.db.now + 30 }).hasRec rid := by
    rw [hasRec_modRec _ _ _ _ (by intro _; rfl)]; exact hm
  have hr : (w.k.modRec rid fun r => { r with expT := w.db.now + 30 }).getR rid = { (w.k.getR rid) with expT := w.db.now + 30 } := by
    rw [getR_modRec_same _ _ _ (by intro _; rfl) hm]
  unfold W.schedExpried
  simp only [modR_k, modR_db, modR_out, modR_gone, hr]
  refine ⟨trivial, trivial, rfl, ?_, rfl, rfl, rfl, trivial⟩
  rw [getR_modRec_same _ _ _ (by intro _; rfl) h2, hr]
  rfl

end Slock.Engine2
