import Slock.Proofs.EngineInv
/-! Stage-1 frame facts used by the simulation stage 2 → stage 1 (new file: the stage-1 proof files are not edited). -/
namespace Slock.Engine

theorem wakeIter_key {db : DB} {k : Key} {db' : DB} {k' : Key} {r : Reply}
    (h : wakeIter db k = some (db', k', r)) : k'.key = k.key := by
  unfold wakeIter at h
  cases hw : k.waiters with
  | nil => simp [hw] at h
  | cons w rest =>
    simp only [hw] at h
    by_cases hd : doLock k w.cmd = true
    · simp only [hd, Bool.not_true, Bool.false_eq_true, if_false] at h
      by_cases he : w.cmd.expried > 0
      · simp only [he, if_true] at h
        injection h with h; injection h with h1 h2; injection h2 with h2 h3
        rw [← h2]; rfl
      · simp only [he, if_false] at h
        injection h with h; injection h with h1 h2; injection h2 with h2 h3
        rw [← h2]
    · simp [hd] at h

theorem wakePass_key (fuel : Nat) (db : DB) (k : Key) (out : List Reply) : (wakePass fuel db k out).2.1.key = k.key := by
  induction fuel generalizing db k out with
  | zero => unfold wakePass; split <;> rfl
  | succ n ih =>
    unfold wakePass
    split
    · rfl
    · cases hw : wakeIter db k with
      | none => simp only []; split <;> rfl
      | some t =>
        obtain ⟨db', k', r⟩ := t
        simp only []
        rw [ih db' k' _, wakeIter_key hw]

theorem wake_key (db : DB) (k : Key) (out : List Reply) : (wake db k out).2.1.key = k.key := wakePass_key _ db k out

end Slock.Engine
