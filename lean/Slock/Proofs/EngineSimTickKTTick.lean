import Slock.Proofs.EngineSimTickKTWake
/-! `KT` pass, part 4: `DBKT` through the two sweeps and the clock tick. -/
namespace Slock.SimTick
open Slock Slock.Sim Slock.Engine2
open Slock.Engine (has)
set_option linter.unusedVariables false

/-- the common end: store the key record -/
theorem DBKT.commit (w0 w : W) (f : Fr w0 w) (ho0 : ∀ k ∈ w0.db.keys, k.key ≠ w0.k.key → KT k) (hs : DBside w) (hw : WT w) : DBKT w.commit :=
  commit_p (P := KT) hs (others_of_fr ho0 f) hw

theorem WT.openKey {s : DB} (h : DBKT s) (n : Nat) : WT (s.openKey n) := fun _ => h.getKey n

/-- a step of a sweep on the key record `key` -/
theorem DBKT.stepW {s : DB} (hq : DBQ s) (h : DBKT s) (key : Nat) (w' : W) (f : Fr (s.openKey key) w')
    (hstep : WT (s.openKey key) → WT w') : DBKT w'.commit :=
  DBKT.commit (s.openKey key) _ f (fun k hk _ => h k hk) ((hq.dbt.dbi.openKey key).of_fr f) (hstep (WT.openKey h key))

theorem timeoutStep_dbkt (slot : Bool) (acc : DB × List Ent) (e : Ent) (hq : DBQ acc.1) (hk : DBK acc.1) (h : DBKT acc.1) :
    DBKT (timeoutStep slot acc e).1 := by
  unfold timeoutStep
  split
  · rename_i w hw
    exact DBKT.stepW hq h e.key w (W.visitTimeout_fr _ _ _ _ hw) (fun h0 => visitTimeout_wt h0 slot e.rid w hw)
  · cases slot
    · simp only [Bool.false_eq_true, if_false]
      exact DBKT.stepW hq h e.key _ (W.collectT_fr _ _) (fun h0 => collectT_wt h0 e.rid)
    · exact h

theorem expireStep_dbkt (slot : Bool) (acc : DB × List Ent) (e : Ent) (hq : DBQ acc.1) (hk : DBK acc.1) (h : DBKT acc.1) :
    DBKT (expireStep slot acc e).1 := by
  unfold expireStep
  split
  · rename_i w hw
    exact DBKT.stepW hq h e.key w (W.visitExpire_fr _ _ _ _ hw) (fun h0 => visitExpire_wt h0 slot e.rid w hw)
  · exact h

theorem fireTimeoutStep_dbkt (acc : DB × List Reply) (e : Ent) (hq : DBQ acc.1) (hk : DBK acc.1) (h : DBKT acc.1) :
    DBKT (fireTimeoutStep acc e).1 := by
  unfold fireTimeoutStep fireTimeout
  exact DBKT.stepW hq h e.key _ (W.fireTimeout_fr _ _) (fun h0 => fireTimeout_wt h0 e.rid)

theorem fireExpireStep_dbkt (acc : DB × List Reply) (e : Ent) (hq : DBQ acc.1) (hk : DBK acc.1) (h : DBKT acc.1) :
    DBKT (fireExpireStep acc e).1 := by
  unfold fireExpireStep fireExpire
  exact DBKT.stepW hq h e.key _ (W.fireExpire_fr _ _) (fun h0 => fireExpire_wt h0 e.rid)

/-- `DBQ`, `DBK` and `DBKT` together through a fold -/
theorem foldl_qkt {α β} (f : DB × β → α → DB × β) (hq : ∀ acc a, DBQ acc.1 → DBQ (f acc a).1)
    (hk : ∀ acc a, DBQ acc.1 → DBK acc.1 → DBK (f acc a).1) (ht : ∀ acc a, DBQ acc.1 → DBK acc.1 → DBKT acc.1 → DBKT (f acc a).1)
    (l : List α) (acc : DB × β) (h1 : DBQ acc.1) (h2 : DBK acc.1) (h3 : DBKT acc.1) :
    DBQ (l.foldl f acc).1 ∧ DBK (l.foldl f acc).1 ∧ DBKT (l.foldl f acc).1 := by
  induction l generalizing acc with
  | nil => exact ⟨h1, h2, h3⟩
  | cons a as ih => simp only [List.foldl_cons]; exact ih _ (hq acc a h1) (hk acc a h1 h2) (ht acc a h1 h2 h3)

theorem sweepTimeout_dbkt (s : DB) (c : Nat) (hq : DBQ s) (hk : DBK s) (h : DBKT s) : DBKT (sweepTimeout s c).1 := by
  unfold sweepTimeout
  simp only []
  obtain ⟨q1, k1, t1⟩ := foldl_qkt _ (timeoutStep_dbq true) (timeoutStep_dbk true) (timeoutStep_dbkt true) _ (s, []) hq hk h
  obtain ⟨q2, k2, t2⟩ := foldl_qkt _ (timeoutStep_dbq false) (timeoutStep_dbk false) (timeoutStep_dbkt false) _ _ q1 k1 t1
  exact (foldl_qkt _ fireTimeoutStep_dbq fireTimeoutStep_dbk fireTimeoutStep_dbkt _ _ q2 k2 t2).2.2

theorem sweepExpire_dbkt (s : DB) (c : Nat) (hq : DBQ s) (hk : DBK s) (h : DBKT s) : DBKT (sweepExpire s c).1 := by
  unfold sweepExpire
  simp only []
  obtain ⟨q1, k1, t1⟩ := foldl_qkt _ (expireStep_dbq true) (expireStep_dbk true) (expireStep_dbkt true) _ (s, []) hq hk h
  obtain ⟨q2, k2, t2⟩ := foldl_qkt _ (expireStep_dbq false) (expireStep_dbk false) (expireStep_dbkt false) _ _ q1 k1 t1
  exact (foldl_qkt _ fireExpireStep_dbq fireExpireStep_dbk fireExpireStep_dbkt _ _ q2 k2 t2).2.2

theorem opTick_dbkt (s : DB) (hq : DBQ s) (hk : DBK s) (h : DBKT s) : DBKT (opTick s).1 := by
  unfold opTick
  simp only []
  have hq0 : DBQ { s with now := s.now + 1, tCheck := s.now + 1 + 1 } := hq.of_keys rfl rfl rfl
  have hk0 : DBK { s with now := s.now + 1, tCheck := s.now + 1 + 1 } := hk.of_keys rfl rfl
  have ht0 : DBKT { s with now := s.now + 1, tCheck := s.now + 1 + 1 } := h.of_keys rfl
  have hq1 := sweepTimeout_dbq _ (s.now + 1) hq0
  have hk1 := sweepTimeout_dbk _ (s.now + 1) hq0 hk0
  have ht1 := sweepTimeout_dbkt _ (s.now + 1) hq0 hk0 ht0
  apply sweepExpire_dbkt
  · exact hq1.of_keys rfl rfl rfl
  · exact hk1.of_keys rfl rfl
  · exact ht1.of_keys rfl

end Slock.SimTick
