import Slock.Proofs.Engine2SimShapeOps
/-! Simulation stage 2 → stage 1: `KI` + queue shape + live raw head through the two sweeps. -/
namespace Slock.Sim
open Slock Slock.Engine2
open Slock.Engine (has)

theorem removeIfZero_wait_live (w : W) (hg : w.removeIfZero.gone = false) : w.removeIfZero.k.wait = w.k.wait := by
  rcases removeIfZero_cases w with e | ⟨e1, _⟩
  · rw [e]
  · rw [e1] at hg; exact absurd hg (by simp)

theorem removeIfZero_gone_back (w : W) (hg : w.removeIfZero.gone = false) : w.removeIfZero = w := by
  rcases removeIfZero_cases w with e | ⟨e1, _⟩
  · exact e
  · rw [e1] at hg; exact absurd hg (by simp)

theorem unrefCheck_wait_live (w : W) (rid : Nat) (hg : (w.unrefCheck rid).gone = false) : (w.unrefCheck rid).k.wait = w.k.wait := by
  unfold W.unrefCheck at hg ⊢
  simp only [] at hg ⊢
  unfold W.when at hg ⊢
  split
  · rename_i hc
    rw [if_pos hc] at hg
    unfold W.freeCheck at hg ⊢
    rw [removeIfZero_wait_live _ hg]
    exact (free_queues _ rid).2.1
  · rfl

/-- the raw head stays live under `dropT` / `dropE`-like steps that end in the reclaim check -/
theorem hl_dropT {w : W} (h : HL w.k) (rid : Nat) (hg : (w.dropT rid).gone = false) (hrec : ∀ e ∈ (w.dropT rid).k.wait, (w.dropT rid).k.hasRec e.rid) :
    HL (w.dropT rid).k := by
  refine h.of_pk ?_ (pk_dropT ins_timeouted w rid (fun _ _ => rfl)) hrec
  unfold W.dropT at hg ⊢
  exact unrefCheck_wait_live _ rid hg

theorem hl_dropE {w : W} (h : HL w.k) (rid : Nat) (hg : (w.dropE rid).gone = false) (hrec : ∀ e ∈ (w.dropE rid).k.wait, (w.dropE rid).k.hasRec e.rid) :
    HL (w.dropE rid).k := by
  refine h.of_pk ?_ (pk_dropE ins_timeouted w rid (fun _ _ => rfl)) hrec
  unfold W.dropE at hg ⊢
  exact unrefCheck_wait_live _ rid hg

theorem hl_rearmE {w : W} (h : HL w.k) (rid : Nat) (f : Rec → Rec) (hf : ∀ r, (f r).rid = r.rid) (hp : ∀ r, (f r).timeouted = r.timeouted)
    (hrec : ∀ e ∈ ((w.modR rid f).addExpried rid).k.wait, ((w.modR rid f).addExpried rid).k.hasRec e.rid) : HL ((w.modR rid f).addExpried rid).k :=
  h.of_pk ((queues_eq (qk_addExpried (w.modR rid f) rid).q).2.2.trans rfl)
    ((pk_addExpried ins_timeouted _ rid (fun _ _ => rfl)).trans (pk_modR w rid f hf hp)) hrec

theorem fireTimeout_w3 {w : W} (h : W3 w) (hl : HL w.k) (g : Good w) (cl : CurLive w.k) (hg : w.gone = false) (hne : w.k.recs ≠ []) (rid : Nat) :
    W3 (w.fireTimeout rid) ∧ ((w.fireTimeout rid).gone = false → HL (w.fireTimeout rid).k) := by
  have tf := tight_fireTimeout g cl hne rid
  have hrecF : (w.fireTimeout rid).gone = false → ∀ e ∈ (w.fireTimeout rid).k.wait, (w.fireTimeout rid).k.hasRec e.rid :=
    fun hgF => wait_hasRec (tf.good hgF).lv
  unfold W.fireTimeout at hrecF ⊢
  simp only [] at hrecF ⊢
  split
  · exact ⟨⟨h.wi.wheelBroken, h.qs⟩, fun _ => hl⟩
  rename_i hgT
  have hs := hasT_spec w.k rid (by simpa using hgT)
  simp only [hgT, if_false] at hrecF
  split
  · rename_i hto
    simp only [hto, if_true] at hrecF
    exact ⟨h.dropT rid, fun hgF => hl_dropT hl rid hgF (hrecF hgF)⟩
  · have tx := ((tight_timeout_fire g cl rid hs).ctr (fun y => { y with timeoutedCount := y.timeoutedCount + 1 }))
    have h1 : W3 (w.modR rid (fun r => { r with timeouted := true })) :=
      ⟨h.wi.modR1 rid _ (fun _ => rfl) (fun y => y) (fun y => y) (fun hd => ⟨hd, rfl⟩) (fun _ => rfl), h.qs.modR1 rid _ (fun _ => rfl) (fun _ => rfl)⟩
    have h5 := ((((h1.settleWait).ik (IK.ctr _ (fun y => { y with waitCount := y.waitCount - 1 }))).dropT rid).ik
      (IK.ctr _ (fun y => { y with timeoutedCount := y.timeoutedCount + 1 })))
    have gw5 : GW (((((w.modR rid (fun r => { r with timeouted := true })).modK (·.settleWait)).ctr (fun y => { y with waitCount := y.waitCount - 1 })).dropT rid).ctr
        (fun y => { y with timeoutedCount := y.timeoutedCount + 1 })) :=
      ((GW.of_live (w := ((w.modR rid (fun r => { r with timeouted := true })).modK (·.settleWait)).ctr (fun y => { y with waitCount := y.waitCount - 1 })) hg).dropT rid).ctr _
    obtain ⟨r1, r2⟩ := (h5.ik (IK.reply _ _ _ _ _)).wake_t (tx.reply _ _ _ _) (gw5.reply _ _ _ _)
    exact ⟨r1, fun _ => r2⟩

theorem fireExpire_w3 {w : W} (h : W3 w) (hl : HL w.k) (g : Good w) (cl : CurLive w.k) (hg : w.gone = false) (hne : w.k.recs ≠ []) (rid : Nat) :
    W3 (w.fireExpire rid) ∧ ((w.fireExpire rid).gone = false → HL (w.fireExpire rid).k) := by
  have tf := tight_fireExpire g cl hne rid
  have hrecF : (w.fireExpire rid).gone = false → ∀ e ∈ (w.fireExpire rid).k.wait, (w.fireExpire rid).k.hasRec e.rid :=
    fun hgF => wait_hasRec (tf.good hgF).lv
  unfold W.fireExpire at hrecF ⊢
  simp only [] at hrecF ⊢
  split
  · exact ⟨⟨h.wi.wheelBroken, h.qs⟩, fun _ => hl⟩
  rename_i hgE
  have hs := hasE_spec w.k rid (by simpa using hgE)
  simp only [hgE, if_false] at hrecF
  split
  · rename_i hex
    simp only [hex, if_true] at hrecF
    exact ⟨h.dropE rid, fun hgF => hl_dropE hl rid hgF (hrecF hgF)⟩
  · rename_i hex
    simp only [hex, if_false] at hrecF
    split
    · rename_i hdf
      simp only [hdf, if_true] at hrecF
      exact ⟨h.rearmE rid (fun r => { r with expT := w.db.now + 30 }) (fun _ => rfl) (fun _ => ⟨rfl, rfl, rfl, rfl, rfl⟩),
        fun hgF => hl_rearmE hl rid _ (fun _ => rfl) (fun _ => rfl) (hrecF hgF)⟩
    · have tx := ((tight_expire_release g cl rid hs).ctr
        (fun y => { y with lockedCount := y.lockedCount - (w.k.getR rid).depth, expriedCount := y.expriedCount + 1 }))
      have h3 : W3 (((w.modR rid (fun r => { r with expried := true })).modK (fun k => { k with locked := k.locked - (w.k.getR rid).depth })).when (w.k.getR rid).isAof
          (·.pushUnLockAof rid (w.k.getR rid).cmd false false AOF_EXPRIED)) :=
        ((h.ik (IK.modR _ rid (fun r => { r with expried := true }) (fun _ => rfl) (fun _ => rfl))).ik
          (IK.modK _ (fun k => { k with locked := k.locked - (w.k.getR rid).depth }) rfl rfl rfl rfl)).ik
          (IK.when _ _ _ (IK.pushUnLockAof _ _ _ _ _ _))
      have h4 := h3.removeLock rid
      have hg4 : ((((w.modR rid (fun r => { r with expried := true })).modK (fun k => { k with locked := k.locked - (w.k.getR rid).depth })).when (w.k.getR rid).isAof
          (·.pushUnLockAof rid (w.k.getR rid).cmd false false AOF_EXPRIED)).modK (·.removeLock rid)).gone = false := by
        show (((w.modR rid (fun r => { r with expried := true })).modK (fun k => { k with locked := k.locked - (w.k.getR rid).depth })).when (w.k.getR rid).isAof
          (·.pushUnLockAof rid (w.k.getR rid).cmd false false AOF_EXPRIED)).gone = false
        rw [(SC.when _ _ _ (SC.pushUnLockAof _ _ _ _ _ _)).gone]
        exact hg
      have h5 := ((h4.dropE rid).ik (IK.ctr _ (fun y => { y with lockedCount := y.lockedCount - (w.k.getR rid).depth, expriedCount := y.expriedCount + 1 })))
      obtain ⟨r1, r2⟩ := (h5.ik (IK.reply _ _ _ _ _)).wake_t (tx.reply _ _ _ _) ((((GW.of_live hg4).dropE rid).ctr _).reply _ _ _ _)
      exact ⟨r1, fun _ => r2⟩

theorem visitTimeout_w3 {w : W} (h : W3 w) (hl : HL w.k) (g : Good w) (cl : CurLive w.k) (hne : w.k.recs ≠ []) (slot : Bool) (rid : Nat) (w' : W)
    (hv : w.visitTimeout slot rid = some w') : W3 w' ∧ (w'.gone = false → HL w'.k) := by
  have tf := tight_visitTimeout g cl hne slot rid w' hv
  have hrecF : w'.gone = false → ∀ e ∈ w'.k.wait, w'.k.hasRec e.rid := fun hgF => wait_hasRec (tf.good hgF).lv
  unfold W.visitTimeout at hv
  simp only [] at hv
  split at hv
  · injection hv with hv; rw [← hv]; exact ⟨⟨h.wi.wheelBroken, h.qs⟩, fun _ => hl⟩
  split at hv
  · injection hv with hv; rw [← hv] at hrecF ⊢; exact ⟨h.dropT rid, fun hgF => hl_dropT hl rid hgF (hrecF hgF)⟩
  · rename_i hto
    split at hv
    · injection hv with hv; rw [← hv] at hrecF ⊢
      have h1 : W3 (w.modR rid (fun r => { r with tChecked := r.tChecked + 1 })) := h.ik (IK.modR _ rid _ (fun _ => rfl) (fun _ => rfl))
      have hnot : rid ∉ (w.modR rid (fun r => { r with tChecked := r.tChecked + 1 })).k.current.toList ++ (w.modR rid (fun r => { r with tChecked := r.tChecked + 1 })).k.locks := by
        intro hm
        have := h.wi.ht rid hm
        rw [this] at hto; exact hto rfl
      refine ⟨⟨h1.wi.addTimeOut rid hnot, h1.qs.addTimeOut rid⟩, fun hgF => ?_⟩
      refine hl.of_pk rfl ?_ (hrecF hgF)
      refine PKeep.trans (b := (w.modR rid (fun r => { r with tChecked := r.tChecked + 1 })).k) ?_ (PKeep.modRec w.k rid _ (fun _ => rfl) (fun _ => rfl))
      refine PKeep.modRec_at _ rid _ (fun _ => rfl) (fun hh => ?_)
      show (Rec.armT _ _).timeouted = _
      have : ((w.modR rid (fun r => { r with tChecked := r.tChecked + 1 })).k.getR rid).timeouted = (w.k.getR rid).timeouted :=
        getR_modRec_proj (·.timeouted) w.k rid rid _ (fun _ => rfl) (fun _ => rfl)
      rw [this]
      cases ht : (w.k.getR rid).timeouted with
      | false => rfl
      | true => exact absurd ht hto
    · exact absurd hv (by simp)

theorem visitExpire_w3 {w : W} (h : W3 w) (hl : HL w.k) (g : Good w) (cl : CurLive w.k) (hne : w.k.recs ≠ []) (slot : Bool) (rid : Nat) (w' : W)
    (hv : w.visitExpire slot rid = some w') : W3 w' ∧ (w'.gone = false → HL w'.k) := by
  have tf := tight_visitExpire g cl hne slot rid w' hv
  have hrecF : w'.gone = false → ∀ e ∈ w'.k.wait, w'.k.hasRec e.rid := fun hgF => wait_hasRec (tf.good hgF).lv
  unfold W.visitExpire at hv
  simp only [] at hv
  split at hv
  · injection hv with hv; rw [← hv]; exact ⟨⟨h.wi.wheelBroken, h.qs⟩, fun _ => hl⟩
  split at hv
  · injection hv with hv; rw [← hv] at hrecF ⊢; exact ⟨h.dropE rid, fun hgF => hl_dropE hl rid hgF (hrecF hgF)⟩
  · split at hv
    · injection hv with hv; rw [← hv] at hrecF ⊢
      exact ⟨h.rearmE rid (fun r => { r with eChecked := r.eChecked + 1 }) (fun _ => rfl) (fun _ => ⟨rfl, rfl, rfl, rfl, rfl⟩),
        fun hgF => hl_rearmE hl rid _ (fun _ => rfl) (fun _ => rfl) (hrecF hgF)⟩
    · exact absurd hv (by simp)

theorem collectT_w3 {w : W} (h : W3 w) (hl : HL w.k) (g : Good w) (rid : Nat) : W3 (w.collectT rid) ∧ HL (w.collectT rid).k :=
  ⟨h.ik (IK.modR _ rid _ (fun _ => rfl) (fun _ => rfl)),
   hl.of_pk rfl (PKeep.modRec w.k rid _ (fun _ => rfl) (fun _ => rfl)) (wait_hasRec (g.lv.collectT rid))⟩

/-! ### every reachable state -/

/-- `KI`, the queue shape and the live raw head, for every key record -/
structure KS (seq : Nat) (k : Key) : Prop where
  ki : KI seq k
  qs : QS k
  hl : HL k

def DBS (s : DB) : Prop := ∀ k ∈ s.keys, KS s.seq k

theorem KS.newKey (seq n : Nat) : KS seq (Engine2.newKey n) := ⟨KI.newKey seq n, QS.newKey n, HL.of_nil rfl⟩
theorem KS.mono {seq seq' : Nat} {k : Key} (h : KS seq k) (hs : seq ≤ seq') : KS seq' k := ⟨h.ki.mono hs, h.qs, h.hl⟩

theorem DBS.init (now aofTime : Nat) : DBS (DB.init now aofTime) := by intro k hk; simp [DB.init] at hk

theorem DBS.getKey {s : DB} (h : DBS s) (n : Nat) : KS s.seq (s.getKey n) := by
  cases hh : s.hasKey n with
  | true => exact h _ (getKey_mem s n hh)
  | false => rw [getKey_of_not_hasKey s n hh]; exact KS.newKey _ _

theorem DBS.commit {s : DB} (h : DBS s) (w0 w : W) (f : Fr w0 w) (hs0 : w0.db.seq = s.seq)
    (ho0 : ∀ k ∈ w0.db.keys, k.key ≠ w0.k.key → KS s.seq k) (hs : DBside w) (hw : w.gone = false → W3 w ∧ HL w.k) : DBS w.commit := by
  intro k hk
  rw [commit_seq]
  have hle : s.seq ≤ w.db.seq := by rw [← hs0]; exact f.seq
  exact commit_p (P := KS w.db.seq) hs (fun k hk hne => (others_of_fr ho0 f k hk hne).mono hle) (fun hg => ⟨(hw hg).1.wi, (hw hg).1.qs, (hw hg).2⟩) k hk

theorem opLock_dbs (s : DB) (hq : DBQ s) (h : DBS s) (c : Engine.Cmd) (data : Option Bytes) : DBS (opLock s c data).1 := by
  unfold opLock
  simp only []
  have hdbi := hq.dbt.dbi
  have f := applyLock_fr s c data (classifyLock s c data)
  have hs := (DBside.lockBase hdbi c (classifyLock s c data)).of_fr f
  have hk := h.getKey c.key
  obtain ⟨hw, hl⟩ := applyLock_w3 s hdbi hq.dbt.tight c hk.ki hk.qs hk.hl data (classifyLock s c data) (fun x hx => classifyLock_holder s c data x hx)
    (fun x hx => classifyLock_relock s c data x hx) (fun hx => classifyLock_uwr s c data hx)
    (fun x hx => classifyLock_update_depth s c data x hx (cur_getKey hq.dbt.tight c.key))
  refine h.commit _ _ f ?_ (others_lockBase_p h c (classifyLock s c data)) hs (fun hg => ⟨hw, hl hg⟩)
  cases classifyLock s c data <;> first | rfl | exact (enter_fields s c.key).2.2.2.2.1

theorem opUnlock_dbs (s : DB) (hq : DBQ s) (h : DBS s) (c : Engine.Cmd) (data : Option Bytes) : DBS (opUnlock s c data).1 := by
  unfold opUnlock
  simp only []
  have hdbi := hq.dbt.dbi
  have f := applyUnlock_fr s c data (classifyUnlock s c)
  have hs := (hdbi.openKey c.key).of_fr f
  have hk := h.getKey c.key
  obtain ⟨hw, hl⟩ := applyUnlock_w3 s hdbi hq.dbt.tight c hk.ki hk.qs hk.hl data (classifyUnlock s c) (fun x hx => classifyUnlock_holder s c x hx)
    (fun x hx => classifyUnlock_cancel s c x hx) (fun x c' hx => classifyUnlock_dec_depth s c c' x hx)
    (fun x c' hx => classifyUnlock_release_depth s c c' x hx (cur_getKey hq.dbt.tight c.key))
  exact h.commit (s.openKey c.key) _ f rfl (fun k hk _ => h k hk) hs (fun hg => ⟨hw, hl hg⟩)

/-- a step of a sweep on the key record `key` -/
theorem DBS.stepW {s : DB} (hq : DBQ s) (h : DBS s) (key : Nat) (w' : W) (f : Fr (s.openKey key) w')
    (hstep : Good (s.openKey key) → CurLive (s.openKey key).k → (s.openKey key).gone = false → (s.openKey key).k.recs ≠ [] →
      W3 (s.openKey key) → HL (s.openKey key).k → W3 w' ∧ (w'.gone = false → HL w'.k)) : DBS w'.commit := by
  refine h.commit (s.openKey key) _ f rfl (fun k hk _ => h k hk) ((hq.dbt.dbi.openKey key).of_fr f) (fun hg' => ?_)
  cases hg : (s.openKey key).gone with
  | true => have := f.gone hg; rw [this] at hg'; exact absurd hg' (by simp)
  | false =>
    have hk := h.getKey key
    obtain ⟨hw, hl⟩ := hstep (Good.openKey hq.dbt.dbi hq.dbt.tight key) (cur_openKey hq.dbt.tight key) hg (settled_openKey hq.dbt.tight key hg)
      ⟨WI.openKey s key hk.ki, hk.qs⟩ hk.hl
    exact ⟨hw, hl hg'⟩

theorem timeoutStep_dbs (slot : Bool) (acc : DB × List Ent) (e : Ent) (hq : DBQ acc.1) (h : DBS acc.1) : DBS (timeoutStep slot acc e).1 := by
  unfold timeoutStep
  split
  · rename_i w hw
    exact DBS.stepW hq h e.key w (W.visitTimeout_fr _ _ _ _ hw) (fun g cl _ hne h0 hl0 => visitTimeout_w3 h0 hl0 g cl hne slot e.rid w hw)
  · cases slot
    · simp only [Bool.false_eq_true, if_false]
      exact DBS.stepW hq h e.key _ (W.collectT_fr _ _) (fun g _ _ _ h0 hl0 => ⟨(collectT_w3 h0 hl0 g e.rid).1, fun _ => (collectT_w3 h0 hl0 g e.rid).2⟩)
    · exact h

theorem expireStep_dbs (slot : Bool) (acc : DB × List Ent) (e : Ent) (hq : DBQ acc.1) (h : DBS acc.1) : DBS (expireStep slot acc e).1 := by
  unfold expireStep
  split
  · rename_i w hw
    exact DBS.stepW hq h e.key w (W.visitExpire_fr _ _ _ _ hw) (fun g cl _ hne h0 hl0 => visitExpire_w3 h0 hl0 g cl hne slot e.rid w hw)
  · exact h

theorem fireTimeoutStep_dbs (acc : DB × List Reply) (e : Ent) (hq : DBQ acc.1) (h : DBS acc.1) : DBS (fireTimeoutStep acc e).1 := by
  unfold fireTimeoutStep fireTimeout
  exact DBS.stepW hq h e.key _ (W.fireTimeout_fr _ _) (fun g cl hg hne h0 hl0 => fireTimeout_w3 h0 hl0 g cl hg hne e.rid)

theorem fireExpireStep_dbs (acc : DB × List Reply) (e : Ent) (hq : DBQ acc.1) (h : DBS acc.1) : DBS (fireExpireStep acc e).1 := by
  unfold fireExpireStep fireExpire
  exact DBS.stepW hq h e.key _ (W.fireExpire_fr _ _) (fun g cl hg hne h0 hl0 => fireExpire_w3 h0 hl0 g cl hg hne e.rid)

theorem foldl_qs {α β} (f : DB × β → α → DB × β) (hq : ∀ acc a, DBQ acc.1 → DBQ (f acc a).1) (hk : ∀ acc a, DBQ acc.1 → DBS acc.1 → DBS (f acc a).1)
    (l : List α) (acc : DB × β) (h1 : DBQ acc.1) (h2 : DBS acc.1) : DBQ (l.foldl f acc).1 ∧ DBS (l.foldl f acc).1 := by
  induction l generalizing acc with
  | nil => exact ⟨h1, h2⟩
  | cons a as ih => simp only [List.foldl_cons]; exact ih _ (hq acc a h1) (hk acc a h1 h2)

theorem sweepTimeout_dbs (s : DB) (c : Nat) (hq : DBQ s) (h : DBS s) : DBS (sweepTimeout s c).1 := by
  unfold sweepTimeout
  simp only []
  obtain ⟨q1, k1⟩ := foldl_qs _ (timeoutStep_dbq true) (timeoutStep_dbs true) _ (s, []) hq h
  obtain ⟨q2, k2⟩ := foldl_qs _ (timeoutStep_dbq false) (timeoutStep_dbs false) _ _ q1 k1
  exact (foldl_qs _ fireTimeoutStep_dbq fireTimeoutStep_dbs _ _ q2 k2).2

theorem sweepExpire_dbs (s : DB) (c : Nat) (hq : DBQ s) (h : DBS s) : DBS (sweepExpire s c).1 := by
  unfold sweepExpire
  simp only []
  obtain ⟨q1, k1⟩ := foldl_qs _ (expireStep_dbq true) (expireStep_dbs true) _ (s, []) hq h
  obtain ⟨q2, k2⟩ := foldl_qs _ (expireStep_dbq false) (expireStep_dbs false) _ _ q1 k1
  exact (foldl_qs _ fireExpireStep_dbq fireExpireStep_dbs _ _ q2 k2).2

theorem DBS.of_keys {s s' : DB} (h : DBS s) (h1 : s'.keys = s.keys) (h2 : s'.seq = s.seq) : DBS s' := by
  intro k hk; rw [h2]; rw [h1] at hk; exact h k hk

theorem opTick_dbs (s : DB) (hq : DBQ s) (h : DBS s) : DBS (opTick s).1 := by
  unfold opTick
  simp only []
  have hq0 : DBQ { s with now := s.now + 1, tCheck := s.now + 1 + 1 } := hq.of_keys rfl rfl rfl
  have hk0 : DBS { s with now := s.now + 1, tCheck := s.now + 1 + 1 } := h.of_keys rfl rfl
  have hq1 := sweepTimeout_dbq _ (s.now + 1) hq0
  have hk1 := sweepTimeout_dbs _ (s.now + 1) hq0 hk0
  apply sweepExpire_dbs
  · exact hq1.of_keys rfl rfl rfl
  · exact hk1.of_keys rfl rfl

theorem step_dbs (s : DB) (o : Op) (hq : DBQ s) (h : DBS s) : DBS (step s o).1 := by
  cases o with
  | lock c d => exact opLock_dbs s hq h c d
  | unlock c d => exact opUnlock_dbs s hq h c d
  | tick => exact opTick_dbs s hq h
  | setLeader b => exact h.of_keys rfl rfl

/-- **every reachable state: `KI`, the queue shape, and a live raw head of every wait queue** -/
theorem run_dbs (s : DB) (ops : List Op) (hq : DBQ s) (h : DBS s) : DBS (run s ops) := by
  induction ops generalizing s with
  | nil => exact h
  | cons o os ih => unfold run; simp only [List.foldl_cons]; exact ih _ (step_dbq s o hq) (step_dbs s o hq h)

end Slock.Sim
