import Slock.Proofs.Engine2Nz
/-! Stage-2 engine: nothing leaks — through the helpers of an operation. -/
namespace Slock.Engine2

/-- the records of `k'` are those of `k`, edited one by one without lowering a count -/
def RecsUp (k' k : Key) : Prop :=
  ∃ g : Rec → Rec, k'.recs = k.recs.map g ∧ ∀ r, (g r).rid = r.rid ∧ (RecFine r → RecFine (g r)) ∧ (g r).depth = r.depth

theorem RecsUp.refl (k : Key) : RecsUp k k := ⟨id, by simp, fun _ => ⟨rfl, id, rfl⟩⟩
theorem RecsUp.of_eq {k' k : Key} (h : k'.recs = k.recs) : RecsUp k' k := ⟨id, by simp [h], fun _ => ⟨rfl, id, rfl⟩⟩
theorem RecsUp.trans {a b c : Key} (h1 : RecsUp a b) (h2 : RecsUp b c) : RecsUp a c := by
  obtain ⟨g1, e1, p1⟩ := h1
  obtain ⟨g2, e2, p2⟩ := h2
  refine ⟨g1 ∘ g2, by rw [e1, e2, List.map_map], fun r => ⟨?_, ?_, ?_⟩⟩
  · simp only [Function.comp]; rw [(p1 _).1, (p2 r).1]
  · intro h; exact (p1 _).2.1 ((p2 r).2.1 h)
  · simp only [Function.comp]; rw [(p1 _).2.2, (p2 r).2.2]
theorem RecsUp.modRec (k : Key) (rid : Nat) (f : Rec → Rec) (hf : ∀ r, (f r).rid = r.rid) (hc : ∀ r, RecFine r → RecFine (f r))
    (hd : ∀ r, (f r).depth = r.depth := by intro _; rfl) : RecsUp (k.modRec rid f) k :=
  ⟨fun x => if x.rid == rid then f x else x, rfl, fun r => by
    by_cases h : (r.rid == rid) = true
    · simp only [h, if_true]; exact ⟨hf r, hc r, hd r⟩
    · simp only [h, if_false]; exact ⟨rfl, id, rfl⟩⟩

/-- lookups see the same depth -/
theorem RecsUp.depth {k' k : Key} (h : RecsUp k' k) (y : Nat) : (k'.getR y).depth = (k.getR y).depth := by
  obtain ⟨g, e, p⟩ := h
  unfold Key.getR
  rw [e]
  have : ∀ l : List Rec, ((l.map g).find? (·.rid == y)) = (l.find? (·.rid == y)).map g := by
    intro l
    induction l with
    | nil => rfl
    | cons a as ih =>
      simp only [List.map_cons, List.find?_cons, (p a).1]
      cases (a.rid == y)
      · exact ih
      · rfl
  rw [this]
  cases k.recs.find? (·.rid == y) with
  | none => rfl
  | some r => exact (p r).2.2

theorem RecsUp.ids {k' k : Key} (h : RecsUp k' k) : k'.ids = k.ids := by
  obtain ⟨g, e, p⟩ := h
  unfold Key.ids; rw [e, List.map_map]
  apply List.map_congr_left; intro r _; exact (p r).1

theorem NZx.of_up {k' k : Key} {x : Option Nat} (h : NZx k x) (u : RecsUp k' k) : NZx k' x := by
  obtain ⟨g, e, p⟩ := u
  intro r hr hx
  rw [e] at hr
  obtain ⟨r0, hr0, e0⟩ := List.mem_map.mp hr
  rw [← e0] at hx ⊢
  rw [(p r0).1] at hx
  exact (p r0).2.1 (h r0 hr0 hx)

/-! ### helpers that only edit records upwards -/

theorem up_procData (w : W) (ct : Slock.Value.CmdType) (c : Cmd) (f : Option Bytes) (rid : Nat) : RecsUp (w.procData ct c f rid).k w.k := by
  unfold W.procData
  split
  · exact RecsUp.refl _
  · simp only []
    split
    · exact RecsUp.refl _
    · rename_i cell' _
      split
      · exact (RecsUp.modRec ({ w.k with cell := cell' } : Key) rid (fun r => { r with aofData := true }) (by intro _; rfl)
          (by intro _ h; exact ⟨h.pos, h.hold, h.ended, h.fin⟩)).trans (RecsUp.of_eq rfl)
      · exact RecsUp.of_eq rfl

theorem up_aofLockData (k : Key) (b : Bool) (rid : Nat) : RecsUp (aofLockData k b rid).1 k := by
  unfold aofLockData
  split
  · exact RecsUp.modRec _ rid _ (fun _ => rfl) (fun _ h => ⟨h.pos, h.hold, h.ended, h.fin⟩)
  · split
    · split
      · exact RecsUp.of_eq rfl
      · exact RecsUp.refl _
    · exact RecsUp.refl _

theorem up_pushLockAof (w : W) (rid flag : Nat) : RecsUp (w.pushLockAof rid flag).k w.k := by
  unfold W.pushLockAof
  split
  · exact RecsUp.refl _
  · simp only []
    split
    · exact RecsUp.modRec _ rid _ (fun _ => rfl) (fun _ h => ⟨h.pos, h.hold, h.ended, h.fin⟩)
    · exact (RecsUp.modRec (aofLockData w.k true rid).1 rid _ (by intro _; rfl) (by intro _ h; exact ⟨h.pos, h.hold, h.ended, h.fin⟩)).trans (up_aofLockData _ _ _)

theorem up_pushLockAofN (n : Nat) (w : W) (rid : Nat) : RecsUp (W.pushLockAofN n w rid).k w.k := by
  induction n generalizing w with
  | zero => exact RecsUp.refl _
  | succ n ih => unfold W.pushLockAofN; exact (ih _).trans (up_pushLockAof _ _ _)

theorem up_pushUnLockAof (w : W) (rid : Nat) (lc : Cmd) (fa ia : Bool) (flag : Nat) : RecsUp (w.pushUnLockAof rid lc fa ia flag).k w.k := by
  unfold W.pushUnLockAof
  split
  · exact RecsUp.refl _
  · split
    · exact RecsUp.modRec _ rid _ (fun _ => rfl) (fun _ h => ⟨h.pos, h.hold, h.ended, h.fin⟩)
    · exact (RecsUp.modRec (aofLockData w.k false rid).1 rid _ (by intro _; rfl) (by intro _ h; exact ⟨h.pos, h.hold, h.ended, h.fin⟩)).trans (up_aofLockData _ _ _)

theorem up_when (w : W) (b : Bool) (f : W → W) (h : RecsUp (f w).k w.k) : RecsUp (w.when b f).k w.k := by
  cases b
  · exact RecsUp.refl _
  · exact h

theorem up_journalLock (w : W) (rid flag : Nat) : RecsUp (w.journalLock rid flag).k w.k := up_when _ _ _ (up_pushLockAof _ _ _)
theorem up_journalUnlock (w : W) (rid : Nat) (fa ia : Bool) (flag : Nat) : RecsUp (w.journalUnlock rid fa ia flag).k w.k :=
  up_when _ _ _ (up_pushUnLockAof _ _ _ _ _ _)
theorem up_addTimeOut (w : W) (rid : Nat) : RecsUp (w.addTimeOut rid).k w.k := RecsUp.modRec _ rid _ (fun _ => rfl) (fun _ h => ⟨h.pos, h.hold, h.ended, h.fin⟩)
theorem up_ref (w : W) (rid : Nat) : RecsUp (w.ref rid).k w.k :=
  RecsUp.modRec _ rid _ (fun _ => rfl) (fun r h => ⟨Nat.le_succ_of_le h.pos, h.hold, h.ended, h.fin⟩)
theorem up_grantNoHold (w : W) (rid : Nat) : RecsUp (w.grantNoHold rid).k w.k := by
  unfold W.grantNoHold
  simp only []
  exact (RecsUp.modRec _ rid (fun r => { r with data := none }) (by intro _; rfl) (by intro _ h; exact ⟨h.pos, h.hold, h.ended, h.fin⟩)).trans
    ((up_when _ _ (·.pushLockAof rid 0) (up_pushLockAof _ _ _)).trans (up_procData _ _ _ _ _))

/-! ### the working invariant -/

structure Nz (w : W) (x : Option Nat) : Prop where
  nd : w.k.NoDup
  nz : NZx w.k x

theorem Nz.of_up {w w' : W} {x : Option Nat} (h : Nz w x) (u : RecsUp w'.k w.k) : Nz w' x :=
  ⟨⟨by have := u.ids; unfold Key.ids at this; rw [this]; exact h.nd.nd⟩, h.nz.of_up u⟩

theorem Nz.weaken {w : W} (h : Nz w none) (x : Option Nat) : Nz w x := ⟨h.nd, h.nz.weaken x⟩

/-- editing the exempt record only -/
theorem Nz.modR_ex {w : W} (rid : Nat) (h : Nz w (some rid)) (f : Rec → Rec) (hf : ∀ r, (f r).rid = r.rid) : Nz (w.modR rid f) (some rid) :=
  ⟨h.nd.modRec rid f hf, NZx.modRec_ex rid h.nz f hf⟩

/-- `AddExpried` of the exempt record (arming an expiry entry is in order for a hold only) -/
theorem Nz.addExpried_ex {w : W} (rid : Nat) (h : Nz w (some rid)) : Nz (w.addExpried rid) (some rid) := by
  unfold W.addExpried
  simp only []
  have h1 : Nz (w.schedExpried rid) (some rid) := by
    have := h.modR_ex rid (Rec.armE (Slock.Engine.wheelAdd w.db.eCheck w.db.seq (w.k.getR rid).expT (w.k.getR rid).eChecked)) (fun _ => rfl)
    exact ⟨this.nd, this.nz⟩
  exact h1.of_up (up_when _ _ _ (up_pushLockAofN _ _ _))

theorem Nz.modK_eq {w : W} {x : Option Nat} (h : Nz w x) (f : Key → Key) (e : (f w.k).recs = w.k.recs) : Nz (w.modK f) x :=
  ⟨h.nd.of_recs e, h.nz.of_recs e⟩

theorem Nz.removeIfZero {w : W} {x : Option Nat} (h : Nz w x) : Nz w.removeIfZero x := by
  unfold W.removeIfZero
  split
  · exact ⟨h.nd.of_recs rfl, h.nz.of_recs rfl⟩
  · exact h

/-- `refCount--` + free at 0 + reclaim -/
theorem Nz.unrefCheck {w : W} {x : Option Nat} (h : Nz w x) (rid : Nat) : Nz (w.unrefCheck rid) x := by
  have hr : (w.unrefCheck rid).k.recs = (w.k.unref rid).recs := by
    unfold W.unrefCheck Key.unref
    simp only [modK_k]
    cases hb : ((w.k.unrefOnly rid).getR rid).refCount == 0
    · simp [W.when, hb]
    · simp only [W.when, hb, if_true, W.freeCheck]
      unfold W.removeIfZero
      split <;> rfl
  exact ⟨(h.nd.unref rid).of_recs hr, (NZx.unref h.nd.nd h.nz rid).of_recs hr⟩

theorem Nz.freeCheck_clear {w : W} (rid : Nat) (h : Nz w (some rid)) : Nz (w.freeCheck rid) none := by
  unfold W.freeCheck
  apply Nz.removeIfZero
  exact ⟨h.nd.free rid, NZx.free_clear rid h.nz⟩

theorem Nz.dropT {w : W} {x : Option Nat} (h : Nz w x) (rid : Nat) : Nz (w.dropT rid) x := by
  unfold W.dropT
  exact (h.of_up (w' := w.modR rid (fun r => { r with tSched := none })) (RecsUp.modRec _ rid _ (fun _ => rfl)
    (fun _ h => ⟨h.pos, h.hold, h.ended, h.fin⟩))).unrefCheck rid

/-- dropping the expiry entry of the exempt record -/
theorem Nz.dropE_ex {w : W} (rid : Nat) (h : Nz w (some rid)) : Nz (w.dropE rid) (some rid) := by
  unfold W.dropE
  exact (h.modR_ex rid (fun r => { r with eSched := none }) (by intro _; rfl)).unrefCheck rid

/-- the exemption ends for a record that is gone or in order -/
theorem Nz.clear {w : W} (rid : Nat) (h : Nz w (some rid)) (hy : w.k.hasRec rid → RecFine (w.k.getR rid)) : Nz w none :=
  ⟨h.nd, NZx.clear h.nd.nd rid h.nz hy⟩

/-- long-table removal of a record that is NOT a hold: it is still referenced by the queue it sits in, so its count stays ≥ 1 -/
theorem Nz.removeLongT {w : W} {ex : Nat → Int} {x : Option Nat} (hex : ∀ y, 0 ≤ ex y) (l : Lv w ex) (h : Nz w x) (rid : Nat) (hq : 0 < w.k.qRefs rid)
    (ht : (w.k.getR rid).tSched.isSome = true) : Nz (w.removeLongT rid) x := by
  unfold W.removeLongT
  have hh := l.rc.dang rid (by have := hex rid; omega)
  have hrc := l.rc.refCount_of hh
  have hw : 1 ≤ (w.k.getR rid).wheelRefs := wheel_of_t ht
  have hn1 : (w.k.modRec rid fun r => { r with tSched := none }).NoDup := h.nd.modRec rid _ (by intro _; rfl)
  have hz1 : NZx (w.k.modRec rid fun r => { r with tSched := none }) x :=
    h.nz.modRec rid (fun r => { r with tSched := none }) (by intro _; rfl) (by intro _ h; exact ⟨h.pos, h.hold, h.ended, h.fin⟩)
  refine ⟨hn1.modRec rid _ (by intro _; rfl), ?_⟩
  refine NZx.unrefOnly hn1.nd hz1 rid ?_
  intro _
  rw [getR_modRec_same _ _ _ (by intro _; rfl) hh]
  show 2 ≤ (w.k.getR rid).refCount
  have := hex rid; omega

/-- long-table removal of the expiry entry of the exempt record -/
theorem Nz.removeLongE_ex {w : W} (rid : Nat) (h : Nz w (some rid)) : Nz (w.removeLongE rid) (some rid) := by
  unfold W.removeLongE
  have h1 := NZx.modRec_ex rid h.nz (fun r => { r with eSched := none }) (by intro _; rfl)
  exact ⟨(h.nd.modRec rid _ (by intro _; rfl)).modRec rid _ (by intro _; rfl), by
    unfold Key.unrefOnly; exact NZx.modRec_ex rid h1 _ (by intro _; rfl)⟩

theorem Nz.dropLongE_ex {w : W} (rid : Nat) (h : Nz w (some rid)) : Nz (w.dropLongE rid) (some rid) := by
  unfold W.dropLongE W.when
  split
  · exact h.removeLongE_ex rid
  · exact h

/-! ### the grant: the record is exempt from `AddLock` (a hold without expiry entry) until `AddExpried` + `refCount++` -/

theorem aofLockData_proj {α : Type} (π : Rec → α) (hπ : ∀ r b, π { r with aofData := b } = π r) (k : Key) (b : Bool) (rid y : Nat) :
    π ((aofLockData k b rid).1.getR y) = π (k.getR y) := by
  unfold aofLockData
  split
  · exact getR_modRec_proj π k rid y _ (fun _ => rfl) (fun r => hπ r false)
  · split
    · split <;> rfl
    · rfl

theorem pushLockAof_proj {α : Type} (π : Rec → α) (hπ : ∀ r b, π { r with aofData := b } = π r) (hπ2 : ∀ r b, π { r with isAof := b } = π r)
    (w : W) (rid flag y : Nat) : π ((w.pushLockAof rid flag).k.getR y) = π (w.k.getR y) := by
  unfold W.pushLockAof
  split
  · rfl
  · simp only []
    split
    · exact getR_modRec_proj π w.k rid y _ (fun _ => rfl) (fun r => hπ2 r true)
    · exact (getR_modRec_proj π (aofLockData w.k true rid).1 rid y _ (by intro _; rfl) (by intro r; exact hπ2 r true)).trans
        (aofLockData_proj π hπ _ _ _ _)

theorem pushLockAofN_proj {α : Type} (π : Rec → α) (hπ : ∀ r b, π { r with aofData := b } = π r) (hπ2 : ∀ r b, π { r with isAof := b } = π r)
    (n : Nat) (w : W) (rid y : Nat) : π ((W.pushLockAofN n w rid).k.getR y) = π (w.k.getR y) := by
  induction n generalizing w with
  | zero => rfl
  | succ n ih => unfold W.pushLockAofN; exact (ih _).trans (pushLockAof_proj π hπ hπ2 _ _ _ _)

/-- after `AddExpried(rid)` the record has an expiry entry and is not marked ended -/
theorem getR_addExpried (w : W) (rid : Nat) (hh : w.k.hasRec rid) :
    ((w.addExpried rid).k.getR rid).eSched.isSome = true ∧ ((w.addExpried rid).k.getR rid).expried = false ∧
    ((w.addExpried rid).k.getR rid).depth = (w.k.getR rid).depth := by
  have h1 : (w.schedExpried rid).k.getR rid =
      Rec.armE (Slock.Engine.wheelAdd w.db.eCheck w.db.seq (w.k.getR rid).expT (w.k.getR rid).eChecked) (w.k.getR rid) :=
    getR_modRec_same _ _ _ (fun _ => rfl) hh
  unfold W.addExpried W.when
  simp only []
  split
  · have a := pushLockAofN_proj (·.eSched) (fun _ _ => rfl) (fun _ _ => rfl) (w.k.getR rid).depth (w.schedExpried rid) rid rid
    have b := pushLockAofN_proj (·.expried) (fun _ _ => rfl) (fun _ _ => rfl) (w.k.getR rid).depth (w.schedExpried rid) rid rid
    have c := pushLockAofN_proj (·.depth) (fun _ _ => rfl) (fun _ _ => rfl) (w.k.getR rid).depth (w.schedExpried rid) rid rid
    rw [a, b, c, h1]; exact ⟨rfl, rfl, rfl⟩
  · rw [h1]; exact ⟨rfl, rfl, rfl⟩

theorem Nz.grant {w : W} (rid : Nat) (h : Nz w (some rid)) (hh : w.k.hasRec rid) : Nz (w.grant rid) none := by
  unfold W.grant
  simp only []
  have hf := addLockF_fields w.db w.k
  have a1 := nz_addLock_ex h.nd rid (addLockF w.db w.k) (fun r => (hf r).1) h.nz
  have l2 : Nz ((w.addLock rid).modK incLocked) (some rid) := ⟨a1.1.of_recs rfl, a1.2.of_recs rfl⟩
  obtain ⟨hg1, hh1⟩ := keep_addLock w.k rid (addLockF w.db w.k) (fun r => (hf r).1) (fun r => (hf r).2.2.2.2.2.1) hh
  have hh2 : ((w.addLock rid).modK incLocked).k.hasRec rid := hh1
  have hd2 : (((w.addLock rid).modK incLocked).k.getR rid).depth = 1 := by
    show ((w.k.addLock rid (addLockF w.db w.k)).getR rid).depth = 1
    rw [hg1]; exact (hf _).2.2.2.2.2.1
  -- value op, data consumed, expiry entry
  have l3 := l2.of_up (up_procData ((w.addLock rid).modK incLocked) .lock (((w.addLock rid).modK incLocked).k.getR rid).cmd
    (frameOf (((w.addLock rid).modK incLocked).k.getR rid).cmd (((w.addLock rid).modK incLocked).k.getR rid).data) rid)
  have hh3 := (keep_procData ((w.addLock rid).modK incLocked) .lock (((w.addLock rid).modK incLocked).k.getR rid).cmd
    (frameOf (((w.addLock rid).modK incLocked).k.getR rid).cmd (((w.addLock rid).modK incLocked).k.getR rid).data) rid rid).1.mpr hh2
  have l4 := l3.modR_ex rid (fun r => { r with data := none }) (fun _ => rfl)
  have hh4 := (hasRec_modR _ rid rid (fun r => { r with data := none }) (by intro _; rfl)).mpr hh3
  have l5 := l4.addExpried_ex rid
  have hh5 := (hasRec_of_ids (ids_addExpried _ rid) rid).mpr hh4
  obtain ⟨e5, x5, d5⟩ := getR_addExpried _ rid hh4
  have hd4 : (((((w.addLock rid).modK incLocked).procData .lock (((w.addLock rid).modK incLocked).k.getR rid).cmd
      (frameOf (((w.addLock rid).modK incLocked).k.getR rid).cmd (((w.addLock rid).modK incLocked).k.getR rid).data) rid).modR rid
      (fun r => { r with data := none })).k.getR rid).depth = 1 := by
    rw [modR_k, getR_modRec_proj (·.depth) _ rid rid (fun r => { r with data := none }) (by intro _; rfl) (by intro _; rfl)]
    rw [(keep_procData ((w.addLock rid).modK incLocked) .lock (((w.addLock rid).modK incLocked).k.getR rid).cmd
      (frameOf (((w.addLock rid).modK incLocked).k.getR rid).cmd (((w.addLock rid).modK incLocked).k.getR rid).data) rid rid).2.2.2.2.2.2.1]
    exact hd2
  have l6 := l5.modR_ex rid (fun r => { r with refCount := r.refCount + 1 }) (fun _ => rfl)
  have g6 := getR_modRec_same _ rid (fun r => { r with refCount := r.refCount + 1 }) (fun _ => rfl) hh5
  have l7 : Nz (_ : W) none := l6.clear rid (fun _ => by
    rw [modR_k, g6]
    exact ⟨Nat.le_add_left 1 _, fun _ => e5, fun hx => by simp only [] at hx; rw [x5] at hx; exact absurd hx (by simp),
      fun hz => by simp only [] at hz; rw [d5, hd4] at hz; exact absurd hz (by simp)⟩)
  exact ⟨l7.nd, l7.nz⟩

end Slock.Engine2
