import Slock.Proofs.Engine2SimInvQueue
/-! Simulation stage 2 → stage 1: `KI` through LOCK and UNLOCK. -/
namespace Slock.Sim
open Slock Slock.Engine2
open Slock.Engine (has)

/-- a reclaimed key record has an empty wait queue -/
def GW (w : W) : Prop := w.gone = true → w.k.wait = []

theorem GW.of_live {w : W} (h : w.gone = false) : GW w := fun hg => by rw [h] at hg; exact absurd hg (by simp)
theorem GW.removeIfZero {w : W} (h : GW w) : GW w.removeIfZero := by
  unfold W.removeIfZero
  split
  · intro _; rfl
  · exact h
theorem GW.of_k {w w' : W} (h : GW w) (e1 : w'.gone = w.gone) (e2 : w'.k.wait = w.k.wait) : GW w' := fun hg => by rw [e2]; exact h (e1 ▸ hg)
theorem GW.ctr {w : W} (h : GW w) (f : Engine.Counters → Engine.Counters) : GW (w.ctr f) := h.of_k rfl rfl
theorem GW.reply {w : W} (h : GW w) (c : Engine.Cmd) (a b : Nat) (d : Option Bytes) : GW (w.reply c a b d) := h.of_k rfl rfl
theorem GW.freeCheck {w : W} (h : GW w) (rid : Nat) : GW (w.freeCheck rid) := by
  unfold W.freeCheck
  exact (h.of_k (w' := w.modK (·.free rid)) rfl (free_queues w.k rid).2.1).removeIfZero
theorem GW.unrefCheck {w : W} (h : GW w) (rid : Nat) : GW (w.unrefCheck rid) := by
  unfold W.unrefCheck
  simp only []
  unfold W.when
  split
  · exact (h.of_k (w' := w.modK (·.unrefOnly rid)) rfl rfl).freeCheck rid
  · exact h.of_k rfl rfl

theorem WI.enter (s : DB) (n : Nat) (hk : KI s.seq (s.getKey n)) : WI (s.enter n) := by
  unfold WI
  rw [enter_k, (enter_fields s n).2.2.2.2.1]
  exact hk

theorem WI.openKey (s : DB) (n : Nat) (hk : KI s.seq (s.getKey n)) : WI (s.openKey n) := hk

theorem WI.wake_t {w : W} (h : WI w) (t : Tight w) (gw : GW w) : WI w.wake := h.wake t.good gw

theorem applyLock_wi (s : DB) (hdbi : DBI s) (ht : ∀ k ∈ s.keys, KeyTight k) (c : Engine.Cmd) (hk : KI s.seq (s.getKey c.key)) (data : Option Bytes)
    (b : LockBranch)
    (hb : ∀ h, b.holderOf = some h → h ∈ (s.getKey c.key).current.toList ++ (s.getKey c.key).locks)
    (hrel : ∀ h, b = .relock h → 0 < ((s.getKey c.key).getR h).depth)
    (hupd : ∀ h, b = .update h → 0 < ((s.getKey c.key).getR h).depth) :
    WI (applyLock s c data b) := by
  have he := WI.enter s c.key hk
  have ge := Good.enter hdbi ht c.key
  have le := ge.lv
  have hold : ∀ h, b.holderOf = some h → (s.enter c.key).k.hasRec h := by
    intro h hh
    apply hasRec_of_holder le
    rw [enter_k]; exact hb h hh
  cases b with
  | p0a => exact (WI.openKey s c.key hk).ik (IK.reply _ _ _ _ _)
  | p0b => exact WI.openKey s c.key hk
  | stateError => exact he.removeIfZero.ik (IK.reply _ _ _ _ _)
  | «show» cur => exact he.ik (IK.reply _ _ _ _ _)
  | updateEqual h => exact he.ik (IK.reply _ _ _ _ _)
  | relockNoHold h => exact he.ik (IK.reply _ _ _ _ _)
  | relockRefused h => exact he.ik (IK.reply _ _ _ _ _)
  | unlockedWaitRefused => exact he.ik (IK.reply _ _ _ _ _)
  | updateEqualData h => exact (he.ik (IK.procData _ _ _ _ _)).ik (IK.reply _ _ _ _ _)
  | update h =>
    simp only [applyLock]
    have hh := hold h rfl
    have tx := (update_tight_pre s hdbi ht c data h hh (hupd h rfl)).reply (lockCmdOf (s.enter c.key).k c (.update h)) Engine.RESULT_LOCKED_ERROR
      (((((s.enter c.key).procData .lock (lockCmdOf (s.enter c.key).k c (.update h)) (frameOf (lockCmdOf (s.enter c.key).k c (.update h)) data) h).updateLocked h
        (lockCmdOf (s.enter c.key).k c (.update h))).when (!has (lockCmdOf (s.enter c.key).k c (.update h)).flag Slock.Engine.F_FROM_AOF)
        (·.journalLock h AOF_UPDATED)).k.getR h).depth (s.enter c.key).lockData
    have hh1 := (keep_procData (s.enter c.key) .lock (lockCmdOf (s.enter c.key).k c (.update h))
      (frameOf (lockCmdOf (s.enter c.key).k c (.update h)) data) h h).1.mpr hh
    have h3 := (((he.ik (IK.procData _ _ _ _ _)).updateLocked h (lockCmdOf (s.enter c.key).k c (.update h)) hh1).ik
      (IK.when _ (!has (lockCmdOf (s.enter c.key).k c (.update h)).flag Slock.Engine.F_FROM_AOF) (·.journalLock h AOF_UPDATED) (IK.journalLock _ _ _))).ik
      (IK.reply _ (lockCmdOf (s.enter c.key).k c (.update h)) Engine.RESULT_LOCKED_ERROR
      (((((s.enter c.key).procData .lock (lockCmdOf (s.enter c.key).k c (.update h)) (frameOf (lockCmdOf (s.enter c.key).k c (.update h)) data) h).updateLocked h
        (lockCmdOf (s.enter c.key).k c (.update h))).when (!has (lockCmdOf (s.enter c.key).k c (.update h)).flag Slock.Engine.F_FROM_AOF)
        (·.journalLock h AOF_UPDATED)).k.getR h).depth (s.enter c.key).lockData)
    have hgo : (s.enter c.key).gone = false := enter_gone s c.key
    refine h3.wake_t tx (GW.of_live ?_)
    show ((((s.enter c.key).procData .lock (lockCmdOf (s.enter c.key).k c (.update h)) (frameOf (lockCmdOf (s.enter c.key).k c (.update h)) data) h).updateLocked h
        (lockCmdOf (s.enter c.key).k c (.update h))).when (!has (lockCmdOf (s.enter c.key).k c (.update h)).flag Slock.Engine.F_FROM_AOF)
        (·.journalLock h AOF_UPDATED)).gone = false
    rw [gone_when _ _ _ (fun x => by unfold W.journalLock; exact gone_when _ _ _ (fun y => gone_pushLockAof y _ _)), gone_updateLocked, gone_procData]
    exact hgo
  | relock h =>
    simp only [applyLock]
    have hh := hold h rfl
    have hd : 0 < ((s.enter c.key).k.getR h).depth := by rw [enter_k]; exact hrel h rfl
    have tx := ((relock_tight_pre s hdbi ht c data h hh (hrel h rfl)).ctr
      (fun x => { x with lockCount := x.lockCount + 1, lockedCount := x.lockedCount + 1 }))
    have h1 : WI ((s.enter c.key).modR h (fun r => { r with depth := r.depth + 1 })) :=
      he.modR1 h _ (fun _ => rfl) (fun x => x) (fun x => x) (fun _ => ⟨hd, rfl⟩) (fun x => x)
    have h2 : WI (((s.enter c.key).modR h (fun r => { r with depth := r.depth + 1 })).modK incLocked) := h1.ik (IK.modK _ _ rfl rfl rfl rfl)
    have hh1 : ((((s.enter c.key).modR h (fun r => { r with depth := r.depth + 1 })).modK incLocked).procData .lock c (frameOf c data) h).k.hasRec h :=
      (keep_procData _ .lock c (frameOf c data) h h).1.mpr ((hasRec_modR _ h h (fun r => { r with depth := r.depth + 1 }) (by intro _; rfl)).mpr hh)
    have h5 := ((((h2.ik (IK.procData _ .lock c (frameOf c data) h)).updateLocked h c hh1).ik (IK.journalLock _ h AOF_UPDATED)).ik
      (IK.ctr _ (fun x => { x with lockCount := x.lockCount + 1, lockedCount := x.lockedCount + 1 })))
    have hg5 : ((((((((s.enter c.key).modR h (fun r => { r with depth := r.depth + 1 })).modK incLocked).procData .lock c (frameOf c data) h).updateLocked h c).journalLock h
      AOF_UPDATED).ctr (fun x => { x with lockCount := x.lockCount + 1, lockedCount := x.lockedCount + 1 }))).gone = false := by
      show (((((((s.enter c.key).modR h (fun r => { r with depth := r.depth + 1 })).modK incLocked).procData .lock c (frameOf c data) h).updateLocked h c).journalLock h
        AOF_UPDATED)).gone = false
      unfold W.journalLock
      rw [gone_when _ _ _ (fun y => gone_pushLockAof y _ _), gone_updateLocked, gone_procData]
      exact enter_gone s c.key
    exact (h5.ik (IK.reply _ _ _ _ _)).wake_t (tx.reply _ _ _ _) (GW.of_live hg5)
  | grant =>
    simp only [applyLock]
    obtain ⟨ln, hn, _, hq0, _, hg⟩ := le.newLock zero_nonneg c data
    have g := newRec_grantable (s.enter c.key) c data hn hg
    have n0 : Nz ((s.enter c.key).newLock c data).1 (some (s.enter c.key).db.nextRid) := ⟨⟨ln.rc.nodup⟩, nz_addRec ge.nz.nz _⟩
    obtain ⟨l1, hh1⟩ := ln.grant zero_nonneg _ g
    have g1 : Good (((s.enter c.key).newLock c data).1.grant (s.enter c.key).db.nextRid) := ⟨l1, n0.grant _ hn⟩
    have hnot : (s.enter c.key).db.nextRid ∉ ((s.enter c.key).newLock c data).1.k.current.toList ++ ((s.enter c.key).newLock c data).1.k.locks := by
      intro hm
      have := qRefs_pos_of_holder _ _ hm
      omega
    have h1 := (he.newLock le c data).grant (s.enter c.key).db.nextRid g hnot
    unfold W.when
    split
    · exact h1.wake (fun _ => g1) (GW.of_live (by rw [gone_grant]; exact enter_gone s c.key))
    · exact h1
  | grantNoHold =>
    simp only [applyLock]
    obtain ⟨ln, hn, _, hq0, _, hg⟩ := le.newLock zero_nonneg c data
    have n0 : Nz ((s.enter c.key).newLock c data).1 (some (s.enter c.key).db.nextRid) := ⟨⟨ln.rc.nodup⟩, nz_addRec ge.nz.nz _⟩
    have l1 := ln.grantNoHold (s.enter c.key).db.nextRid
    have n1 := n0.of_up (up_grantNoHold ((s.enter c.key).newLock c data).1 (s.enter c.key).db.nextRid)
    have ce := cur_enter ht c.key
    have cn : CurLive ((s.enter c.key).newLock c data).1.k := ce.addRec _ (hasRec_current le)
    have t2 := good_freeCheck_clear l1 n1 (by rw [qRefs_of_queues (queues_grantNoHold _ _), hq0]; simp [zero]) (cn.of_dk (dk_grantNoHold _ _) l1)
    have t3 := (t2.ctr (fun x => { x with lockCount := x.lockCount + 1 })).reply c Slock.Engine.RESULT_SUCCED 0 (s.enter c.key).lockData
    have h3 := ((((he.newLock le c data).ik (IK.grantNoHold _ (s.enter c.key).db.nextRid)).freeCheck (s.enter c.key).db.nextRid).ik (IK.ctr _ (fun x => { x with lockCount := x.lockCount + 1 }))).ik
      (IK.reply _ c Slock.Engine.RESULT_SUCCED 0 (s.enter c.key).lockData)
    have gw3 : GW ((((((s.enter c.key).newLock c data).1.grantNoHold (s.enter c.key).db.nextRid).freeCheck (s.enter c.key).db.nextRid).ctr (fun x => { x with lockCount := x.lockCount + 1 })).reply c Slock.Engine.RESULT_SUCCED 0
        (s.enter c.key).lockData) :=
      (((GW.of_live (w := ((s.enter c.key).newLock c data).1.grantNoHold (s.enter c.key).db.nextRid) (by rw [gone_grantNoHold]; exact enter_gone s c.key)).freeCheck (s.enter c.key).db.nextRid).ctr _).reply _ _ _ _
    unfold W.when
    split
    · exact h3.wake_t t3 gw3
    · exact h3
  | queue =>
    simp only [applyLock]
    obtain ⟨ln, hn, _, hq0, _, hg⟩ := le.newLock zero_nonneg c data
    have hn1 := he.newLock le c data
    have hrw : (s.enter c.key).db.nextRid ∉ ((s.enter c.key).newLock c data).1.k.wait.map (·.rid) := by
      intro hm
      have := qRefs_pos_of_wait_mem _ _ hm
      omega
    have h2 : WI (((s.enter c.key).newLock c data).1.modK (·.addWaitLock (s.enter c.key).db.nextRid)) := KI.addWaitLock hn1 (s.enter c.key).db.nextRid hrw
    obtain ⟨_, a2, a3⟩ := addWaitLock_spec ((s.enter c.key).newLock c data).1.k (s.enter c.key).db.nextRid
    have hnot : (s.enter c.key).db.nextRid ∉ (((s.enter c.key).newLock c data).1.modK (·.addWaitLock (s.enter c.key).db.nextRid)).k.current.toList ++ (((s.enter c.key).newLock c data).1.modK (·.addWaitLock (s.enter c.key).db.nextRid)).k.locks := by
      show (s.enter c.key).db.nextRid ∉ (((s.enter c.key).newLock c data).1.k.addWaitLock (s.enter c.key).db.nextRid).current.toList ++ (((s.enter c.key).newLock c data).1.k.addWaitLock (s.enter c.key).db.nextRid).locks
      rw [a2, a3]
      intro hm
      have := qRefs_pos_of_holder _ _ hm
      omega
    exact (((h2.addTimeOut (s.enter c.key).db.nextRid hnot).ik (IK.ref _ _)).ik (IK.ctr _ _))
  | timeout =>
    simp only [applyLock]
    exact ((he.newLock le c data).freeCheck _).ik (IK.reply _ _ _ _ _)

/-! ### UNLOCK -/

theorem WI.removeLongE {w : W} (h : WI w) (rid : Nat) : WI (w.removeLongE rid) := by
  have px : PKeepX πI (· = rid) (w.removeLongE rid).k w.k := by
    show PKeepX πI (· = rid) ((w.k.modRec rid (fun r => { r with eSched := none })).modRec rid (fun r => { r with refCount := decU8 r.refCount })) w.k
    exact (PKeepX.modRec (X := (· = rid)) _ rid (fun r => { r with refCount := decU8 r.refCount }) (fun _ => rfl) rfl).trans
      (PKeepX.modRec (X := (· = rid)) _ rid (fun r => { r with eSched := none }) (fun _ => rfl) rfl)
  have key : ∀ hh : (w.removeLongE rid).k.hasRec rid, w.k.hasRec rid ∧ (w.removeLongE rid).k.getR rid =
      { ({ w.k.getR rid with eSched := none } : Rec) with refCount := decU8 (w.k.getR rid).refCount } := by
    intro hh
    have h1 : (w.k.modRec rid (fun r => { r with eSched := none })).hasRec rid :=
      (hasRec_modRec _ rid rid (fun r => { r with refCount := decU8 r.refCount }) (fun _ => rfl)).mp hh
    have hk : w.k.hasRec rid := (hasRec_modRec _ rid rid (fun r => { r with eSched := none }) (fun _ => rfl)).mp h1
    refine ⟨hk, ?_⟩
    show ((w.k.modRec rid (fun r => { r with eSched := none })).modRec rid (fun r => { r with refCount := decU8 r.refCount })).getR rid = _
    rw [getR_modRec_same _ rid (fun r => { r with refCount := decU8 r.refCount }) (fun _ => rfl) h1,
      getR_modRec_same _ rid (fun r => { r with eSched := none }) (fun _ => rfl) hk]
  refine h.step_q rid (Nat.le_refl _) px rfl ?_ ?_ ?_ ?_
  · intro hh; obtain ⟨hk, e⟩ := key hh; rw [e]; exact h.cs rid hk
  · intro hh sc hsc; obtain ⟨hk, e⟩ := key hh; rw [e] at hsc; exact absurd hsc (by simp)
  · intro hh hd; obtain ⟨hk, e⟩ := key hh; rw [e] at hd ⊢; exact ⟨hk, hd, rfl⟩
  · intro hh ht; obtain ⟨hk, e⟩ := key hh; rw [e]; exact ht

theorem WI.dropLongE {w : W} (h : WI w) (rid : Nat) : WI (w.dropLongE rid) := by
  unfold W.dropLongE W.when
  split
  · exact h.removeLongE rid
  · exact h

theorem WI.dropE {w : W} (h : WI w) (rid : Nat) : WI (w.dropE rid) := by
  unfold W.dropE
  have h1 : WI (w.modR rid (fun r => { r with eSched := none })) :=
    h.modR1 rid _ (fun _ => rfl) (fun x => x) (fun _ sc hsc => by simp at hsc) (fun hd => ⟨hd, rfl⟩) (fun x => x)
  exact h1.unrefCheck rid

theorem GW.dropT {w : W} (h : GW w) (rid : Nat) : GW (w.dropT rid) := by
  unfold W.dropT
  exact (h.of_k (w' := w.modR rid (fun r => { r with tSched := none })) rfl rfl).unrefCheck rid
theorem GW.dropE {w : W} (h : GW w) (rid : Nat) : GW (w.dropE rid) := by
  unfold W.dropE
  exact (h.of_k (w' := w.modR rid (fun r => { r with eSched := none })) rfl rfl).unrefCheck rid

/-- the state of the one-level unlock before counters / reply / wake pass (the chain of `applyUnlock_tight`) -/
theorem dec_tight_pre (s : DB) (hdb : DBI s) (ht : ∀ k ∈ s.keys, KeyTight k) (c : Engine.Cmd) (data : Option Bytes) (h : Nat) (c' : Engine.Cmd)
    (hm : h ∈ (s.getKey c.key).current.toList ++ (s.getKey c.key).locks) (hd0 : 1 < ((s.getKey c.key).getR h).depth) :
    Tight (((((s.openKey c.key).modR h (fun r => { r with depth := r.depth - 1 })).modK (fun k => { k with locked := k.locked - 1 })).procData .unlock c'
      (frameOf c' data) h).journalUnlock h (has c'.flag Slock.Engine.F_FROM_AOF) true AOF_UPDATED) := by
  have ge := Good.openKey hdb ht c.key
  have le := ge.lv
  have ce := cur_openKey ht c.key
  have hh := hasRec_of_holder le h hm
  have hd : 1 < ((s.openKey c.key).k.getR h).depth := hd0
  have l1 : Lv ((s.openKey c.key).modR h (fun r => { r with depth := r.depth - 1 })) zero :=
    le.modR_plain h _ (fun _ => rfl) (fun _ => rfl) (fun _ => rfl) (fun _ => rfl) (fun _ => rfl)
  have n1 : Nz ((s.openKey c.key).modR h (fun r => { r with depth := r.depth - 1 })) none :=
    ge.nz.modR_at h _ (fun _ => rfl) (fun _ hf => ⟨hf.pos, fun _ => hf.hold (by omega), fun hx => by
      have := hf.ended hx; simp only []; omega, fun hz => by simp only [] at hz; omega⟩)
  have c1 : CurLive ((s.openKey c.key).modR h (fun r => { r with depth := r.depth - 1 })).k :=
    ce.modDepth h _ (fun _ => rfl) hh (by simp only []; omega)
  have hh1 : ((s.openKey c.key).modR h (fun r => { r with depth := r.depth - 1 })).k.hasRec h := (hasRec_modR _ h h _ (by intro _; rfl)).mpr hh
  have g2 : Good (((s.openKey c.key).modR h (fun r => { r with depth := r.depth - 1 })).modK (fun k => { k with locked := k.locked - 1 })) :=
    ⟨l1.modK _ (l1.rc.transfer rfl rfl (fun _ => rfl)) (RecsLe.of_eq rfl), n1.modK_eq _ rfl⟩
  have c2 : CurLive (((s.openKey c.key).modR h (fun r => { r with depth := r.depth - 1 })).modK (fun k => { k with locked := k.locked - 1 })).k := c1
  have g3 := g2.of_up (g2.lv.procData .unlock c' (frameOf c' data) h) (up_procData _ _ _ _ _)
  have c3 := c2.of_dk (dk_procData _ .unlock c' (frameOf c' data) h) g3.lv
  have hh3 := (keep_procData (((s.openKey c.key).modR h (fun r => { r with depth := r.depth - 1 })).modK (fun k => { k with locked := k.locked - 1 }))
    .unlock c' (frameOf c' data) h h).1.mpr hh1
  have g4 := g3.of_up (g3.lv.journalUnlock h (has c'.flag Slock.Engine.F_FROM_AOF) true AOF_UPDATED) (up_journalUnlock _ _ _ _ _)
  have c4 := c3.of_dk (dk_journalUnlock _ h (has c'.flag Slock.Engine.F_FROM_AOF) true AOF_UPDATED) g4.lv
  have hh4 := (hasRec_of_ids (ids_journalUnlock _ h (has c'.flag Slock.Engine.F_FROM_AOF) true AOF_UPDATED) h).mpr hh3
  exact Tight.of_good g4 (recs_ne_of_hasRec hh4) c4

theorem applyUnlock_wi (s : DB) (hdbi : DBI s) (ht : ∀ k ∈ s.keys, KeyTight k) (c : Engine.Cmd) (hk : KI s.seq (s.getKey c.key)) (data : Option Bytes)
    (b : UnlockBranch)
    (hb : ∀ h, b.holderOf = some h → h ∈ (s.getKey c.key).current.toList ++ (s.getKey c.key).locks)
    (hc : ∀ x, b = .cancel x → x ∈ (s.getKey c.key).wait.map (·.rid) ∧ (s.getKey c.key).deadWaiter x = false)
    (hdec : ∀ h c', b = .dec h c' → 1 < ((s.getKey c.key).getR h).depth)
    (hrel : ∀ h c', b = .release h c' → 0 < ((s.getKey c.key).getR h).depth) :
    WI (applyUnlock s c data b) := by
  have ho : WI (s.openKey c.key) := WI.openKey s c.key hk
  have ge := Good.openKey hdbi ht c.key
  have le := ge.lv
  have ce := cur_openKey ht c.key
  have hlive : ∀ y, (s.openKey c.key).k.hasRec y → (s.openKey c.key).gone = false := by
    intro y hy
    cases hg : (s.openKey c.key).gone with
    | false => rfl
    | true =>
      have hkk : s.hasKey c.key = false := by simpa [DB.openKey] using hg
      have : (s.openKey c.key).k.recs = [] := by
        show (s.getKey c.key).recs = []
        rw [getKey_of_not_hasKey s c.key hkk]; rfl
      exact absurd this (recs_ne_of_hasRec hy)
  cases b with
  | noManager => exact ho
  | stateError => exact (ho.ik (IK.ctr _ _)).ik (IK.reply _ _ _ _ _)
  | notLocked => exact (ho.ik (IK.ctr _ _)).ik (IK.reply _ _ _ _ _)
  | unown => exact (ho.ik (IK.ctr _ _)).ik (IK.reply _ _ _ _ _)
  | cancelNone => exact (ho.ik (IK.ctr _ _)).ik (IK.reply _ _ _ _ _)
  | cancel x =>
    simp only [applyUnlock]
    obtain ⟨hm, hd⟩ := hc x rfl
    have hx : (s.openKey c.key).k.hasRec x := le.rc.dang x (by have := qRefs_pos_of_wait_mem (s.openKey c.key).k x hm; simp only [zero]; omega)
    have tx := ((((cancel_tight_pre s hdbi ht c x hm hd).ctr (fun y => { y with unLockCount := y.unLockCount + 1 }))))
    have h1 : WI ((s.openKey c.key).modR x (fun r => { r with timeouted := true })) :=
      ho.modR1 x _ (fun _ => rfl) (fun y => y) (fun y => y) (fun hd => ⟨hd, rfl⟩) (fun _ => rfl)
    have h3 : WI ((((s.openKey c.key).modR x (fun r => { r with timeouted := true })).dropLongT x).modK (·.settleWait)) := KI.settleWait (h1.ik (IK.dropLongT _ x))
    have h5 := ((h3.ik (IK.ctr _ (fun y => { y with waitCount := y.waitCount - 1 }))).removeIfZero).ik (IK.ctr _ (fun y => { y with unLockCount := y.unLockCount + 1 }))
    have gw5 : GW (((((((s.openKey c.key).modR x (fun r => { r with timeouted := true })).dropLongT x).modK (·.settleWait)).ctr
        (fun y => { y with waitCount := y.waitCount - 1 })).removeIfZero).ctr (fun y => { y with unLockCount := y.unLockCount + 1 })) := by
      refine GW.ctr (GW.removeIfZero (GW.of_live ?_)) _
      show (((s.openKey c.key).modR x (fun r => { r with timeouted := true })).dropLongT x).gone = false
      rw [(SC.dropLongT _ x).gone]
      exact hlive x hx
    exact ((h5.ik (IK.reply _ _ _ _ _)).ik (IK.reply _ _ _ _ _)).wake_t ((tx.reply _ _ _ _).reply _ _ _ _) ((gw5.reply _ _ _ _).reply _ _ _ _)
  | dec h c' =>
    simp only [applyUnlock]
    have hm := hb h rfl
    have hd0 := hdec h c' rfl
    have hh := hasRec_of_holder le h hm
    have tx := (dec_tight_pre s hdbi ht c data h c' hm hd0).ctr (fun y => { y with unLockCount := y.unLockCount + 1, lockedCount := y.lockedCount - 1 })
    have h1 : WI ((s.openKey c.key).modR h (fun r => { r with depth := r.depth - 1 })) :=
      ho.modR1 h _ (fun _ => rfl) (fun y => y) (fun y => y) (fun _ => ⟨by show 0 < ((s.getKey c.key).getR h).depth; omega, rfl⟩) (fun y => y)
    have h4 := (((h1.ik (IK.modK _ (fun k => { k with locked := k.locked - 1 }) rfl rfl rfl rfl)).ik (IK.procData _ .unlock c' (frameOf c' data) h)).ik
      (IK.journalUnlock _ h (has c'.flag Slock.Engine.F_FROM_AOF) true AOF_UPDATED)).ik
      (IK.ctr _ (fun y => { y with unLockCount := y.unLockCount + 1, lockedCount := y.lockedCount - 1 }))
    refine (h4.ik (IK.reply _ _ _ _ _)).wake_t (tx.reply _ _ _ _) (GW.of_live ?_)
    show (((((s.openKey c.key).modR h (fun r => { r with depth := r.depth - 1 })).modK (fun k => { k with locked := k.locked - 1 })).procData .unlock c'
      (frameOf c' data) h).journalUnlock h (has c'.flag Slock.Engine.F_FROM_AOF) true AOF_UPDATED).gone = false
    rw [(SC.journalUnlock _ _ _ _ _).gone, gone_procData]
    exact hlive h hh
  | release h c' =>
    simp only [applyUnlock]
    have hm := hb h rfl
    have hd0 : 0 < ((s.openKey c.key).k.getR h).depth := hrel h c' rfl
    have hh := hasRec_of_holder le h hm
    have tx := (release_tight ge ce h hh hd0 c' (frameOf c' data) ((s.openKey c.key).k.getR h).depth (has c'.flag Slock.Engine.F_FROM_AOF) _ rfl _ rfl).ctr (fun y => { y with unLockCount := y.unLockCount + ((s.openKey c.key).k.getR h).depth, lockedCount := y.lockedCount - ((s.openKey c.key).k.getR h).depth })
    have h2 : WI ((((s.openKey c.key).modR h (fun r => { r with expried := true })).modK (fun k => { k with locked := k.locked - ((s.openKey c.key).k.getR h).depth })).procData .unlock c' (frameOf c' data) h) :=
      ((ho.ik (IK.modR _ h (fun r => { r with expried := true }) (fun _ => rfl) (fun _ => rfl))).ik
        (IK.modK _ (fun k => { k with locked := k.locked - ((s.openKey c.key).k.getR h).depth }) rfl rfl rfl rfl)).ik (IK.procData _ .unlock c' (frameOf c' data) h)
    have h5 : WI (((((((s.openKey c.key).modR h (fun r => { r with expried := true })).modK (fun k => { k with locked := k.locked - ((s.openKey c.key).k.getR h).depth })).procData .unlock c' (frameOf c' data) h).dropLongE h).journalUnlock h (has c'.flag Slock.Engine.F_FROM_AOF) false 0).modK (·.removeLock h)) := KI.removeLock ((h2.dropLongE h).ik (IK.journalUnlock _ h (has c'.flag Slock.Engine.F_FROM_AOF) false 0)) h
    have hg5 : (((((((s.openKey c.key).modR h (fun r => { r with expried := true })).modK (fun k => { k with locked := k.locked - ((s.openKey c.key).k.getR h).depth })).procData .unlock c' (frameOf c' data) h).dropLongE h).journalUnlock h (has c'.flag Slock.Engine.F_FROM_AOF) false 0).modK (·.removeLock h)).gone = false := by
      show ((((((s.openKey c.key).modR h (fun r => { r with expried := true })).modK (fun k => { k with locked := k.locked - ((s.openKey c.key).k.getR h).depth })).procData .unlock c' (frameOf c' data) h).dropLongE h).journalUnlock h (has c'.flag Slock.Engine.F_FROM_AOF) false 0).gone = false
      rw [(SC.journalUnlock _ _ _ _ _).gone, (SC.dropLongE _ _).gone, gone_procData]
      exact hlive h hh
    have hx : WI ((((((((s.openKey c.key).modR h (fun r => { r with expried := true })).modK (fun k => { k with locked := k.locked - ((s.openKey c.key).k.getR h).depth })).procData .unlock c' (frameOf c' data) h).dropLongE h).journalUnlock h (has c'.flag Slock.Engine.F_FROM_AOF) false 0).modK (·.removeLock h)).when ((((((s.openKey c.key).modR h (fun r => { r with expried := true })).modK (fun k => { k with locked := k.locked - ((s.openKey c.key).k.getR h).depth })).procData .unlock c' (frameOf c' data) h).k.getR h).eLong && ((((((((s.openKey c.key).modR h (fun r => { r with expried := true })).modK (fun k => { k with locked := k.locked - ((s.openKey c.key).k.getR h).depth })).procData .unlock c' (frameOf c' data) h).dropLongE h).journalUnlock h (has c'.flag Slock.Engine.F_FROM_AOF) false 0).modK (·.removeLock h)).k.getR h).refCount == 0) (·.freeCheck h)) ∧ GW ((((((((s.openKey c.key).modR h (fun r => { r with expried := true })).modK (fun k => { k with locked := k.locked - ((s.openKey c.key).k.getR h).depth })).procData .unlock c' (frameOf c' data) h).dropLongE h).journalUnlock h (has c'.flag Slock.Engine.F_FROM_AOF) false 0).modK (·.removeLock h)).when ((((((s.openKey c.key).modR h (fun r => { r with expried := true })).modK (fun k => { k with locked := k.locked - ((s.openKey c.key).k.getR h).depth })).procData .unlock c' (frameOf c' data) h).k.getR h).eLong && ((((((((s.openKey c.key).modR h (fun r => { r with expried := true })).modK (fun k => { k with locked := k.locked - ((s.openKey c.key).k.getR h).depth })).procData .unlock c' (frameOf c' data) h).dropLongE h).journalUnlock h (has c'.flag Slock.Engine.F_FROM_AOF) false 0).modK (·.removeLock h)).k.getR h).refCount == 0) (·.freeCheck h)) := by
      unfold W.when
      split
      · exact ⟨h5.freeCheck h, (GW.of_live hg5).freeCheck h⟩
      · exact ⟨h5, GW.of_live hg5⟩
    exact ((hx.1.ik (IK.ctr _ (fun y => { y with unLockCount := y.unLockCount + ((s.openKey c.key).k.getR h).depth, lockedCount := y.lockedCount - ((s.openKey c.key).k.getR h).depth }))).ik (IK.reply _ _ _ _ _)).wake_t (tx.reply _ _ _ _) ((hx.2.ctr _).reply _ _ _ _)

end Slock.Sim
