import Slock.Proofs.EngineClock
/-! Expiry-wheel invariant for holds (C06): long-table entries are keyed by the deadline. -/
namespace Slock.Engine

def HOK (h : Hold) : Prop := h.sched.long = true → h.sched.visit = h.expT

def KeyHOK (k : Key) : Prop := ∀ h ∈ k.holders, HOK h

def HInv (db : DB) : Prop := ∀ k ∈ db.keys, KeyHOK k

theorem wheelAdd_hok (check seq d n : Nat) :
    (wheelAdd check seq d n).2.long = true → (wheelAdd check seq d n).2.visit = (wheelAdd check seq d n).1 := by
  unfold wheelAdd
  by_cases hn : n > MAX_WAIT
  · simp [hn]
  · simp [hn]

theorem KeyHOK.empty (n : Nat) : KeyHOK (emptyKey n) := by intro h hm; simp [emptyKey] at hm

theorem getKey_hok {db : DB} (h : HInv db) (n : Nat) : KeyHOK (db.getKey n) := by
  unfold DB.getKey
  cases hf : db.keys.find? (·.key == n) with
  | none => exact KeyHOK.empty n
  | some k => exact h k (List.mem_of_find?_eq_some hf)

theorem setKey_hok {db : DB} (h : HInv db) {k : Key} (hk : KeyHOK k) : HInv (db.setKey k) := by
  unfold DB.setKey
  intro x hx
  simp only [] at hx
  split at hx
  · exact h x (List.mem_filter.mp hx).1
  · rcases List.mem_append.mp hx with h1 | h1
    · exact h x (List.mem_filter.mp h1).1
    · simp at h1; rw [h1]; exact hk

theorem HInv.of_keys_eq {db db' : DB} (h : HInv db) (e : db'.keys = db.keys) : HInv db' := by
  intro k hk; rw [e] at hk; exact h k hk

theorem grantHold_hok (db : DB) (k : Key) (c : Cmd) (hk : KeyHOK k) : KeyHOK (grantHold db k c).2 := by
  unfold grantHold
  intro h hm
  simp only [List.mem_append, List.mem_singleton] at hm
  rcases hm with hm | hm
  · exact hk h hm
  · rw [hm]; unfold HOK; simp only []; exact wheelAdd_hok _ _ _ _

theorem updateHold_hok (db : DB) (h : Hold) (c : Cmd) (hh : HOK h) : HOK (updateHold db h c).2 := by
  unfold updateHold
  split
  · exact hh
  · simp only []
    split
    · rename_i hl
      split
      · unfold HOK; simp only []; exact wheelAdd_hok _ _ _ _
      · rename_i he
        have he' : expiryDeadline db.now c = h.expT := by simpa using he
        unfold HOK; simp only []; intro _; rw [he']; exact hh hl
    · rename_i hl
      unfold HOK; simp only []
      intro hl'; rw [hl'] at hl; exact absurd rfl hl

theorem replace_hok {k : Key} (hk : KeyHOK k) {h h' : Hold} (hh : HOK h') :
    KeyHOK { k with holders := replaceHolder k.holders h h' } := by
  intro x hx
  rcases mem_replaceHolder hx with h1 | h1
  · exact hk x h1
  · rw [h1]; exact hh

theorem remove_hok {k : Key} (hk : KeyHOK k) {h : Hold} :
    KeyHOK { k with holders := removeHolder k.holders h } := fun x hx => hk x (mem_removeHolder hx)

theorem wakeIter_hok {db : DB} {k : Key} (hk : KeyHOK k) {db' : DB} {k' : Key} {r : Reply}
    (h : wakeIter db k = some (db', k', r)) : KeyHOK k' := by
  unfold wakeIter at h
  cases hw : k.waiters with
  | nil => simp [hw] at h
  | cons w rest =>
    simp only [hw] at h
    by_cases hd : doLock k w.cmd = true
    · simp only [hd, Bool.not_true, Bool.false_eq_true, if_false] at h
      by_cases he : w.cmd.expried > 0
      · simp only [he, if_true] at h
        injection h with h; injection h with h1 h2; injection h2 with h2 h3
        rw [← h2]
        exact grantHold_hok _ _ _ hk
      · simp only [he, if_false] at h
        injection h with h; injection h with h1 h2; injection h2 with h2 h3
        rw [← h2]
        exact hk
    · simp [hd] at h

theorem wakePass_hok (fuel : Nat) (db : DB) (k : Key) (out : List Reply) (hk : KeyHOK k) :
    KeyHOK (wakePass fuel db k out).2.1 := by
  induction fuel generalizing db k out with
  | zero => unfold wakePass; split <;> exact hk
  | succ n ih =>
    unfold wakePass
    split
    · exact hk
    · cases hw : wakeIter db k with
      | none => simp only []; split <;> exact hk
      | some t =>
        obtain ⟨db', k', r⟩ := t
        simp only []
        exact ih db' k' _ (wakeIter_hok hk hw)

theorem wake_hok (db : DB) (k : Key) (out : List Reply) (hk : KeyHOK k) : KeyHOK (wake db k out).2.1 :=
  wakePass_hok _ db k out hk

theorem wake_setKey_hok {db0 db : DB} {k : Key} (out : List Reply) (h0 : HInv db0) (e : db.keys = db0.keys) (hk : KeyHOK k) :
    HInv ((wake db k out).1.setKey (wake db k out).2.1) :=
  setKey_hok (h0.of_keys_eq (by rw [wake_keys, e])) (wake_hok db k out hk)

theorem opLock_hok (db : DB) (c : Cmd) (h : HInv db) : HInv (opLock db c).1 := by
  unfold opLock
  have hk := getKey_hok h c.key
  cases hb : classifyLock db c with
  | p0a | p0b | stateError | unlockedWaitRefused | timeout => exact h
  | «show» cur | updateEqual h' | relockNoHold h' | relockRefused h' => exact h
  | update h' =>
    have hm := classifyLock_mem db c h' (by rw [hb]; rfl)
    simp only [applyLock]
    exact wake_setKey_hok _ h (updateHold_db_keys _ _ _) (replace_hok hk (updateHold_hok _ _ _ (hk h' hm)))
  | relock h' =>
    have hm := classifyLock_mem db c h' (by rw [hb]; rfl)
    simp only [applyLock]
    exact wake_setKey_hok _ h (by simp [updateHold_db_keys])
      (fun x hx => replace_hok hk (h := h') (updateHold_hok db { h' with depth := h'.depth + 1 } c (hk h' hm)) x hx)
  | grant =>
    simp only [applyLock]
    have hg := grantHold_hok db (db.getKey c.key) c hk
    split
    · exact wake_setKey_hok _ h (grantHold_db_keys _ _ _) hg
    · exact setKey_hok (h.of_keys_eq (grantHold_db_keys db (db.getKey c.key) c)) hg
  | grantNoHold =>
    simp only [applyLock]
    split
    · exact wake_setKey_hok _ h rfl hk
    · exact setKey_hok (h.of_keys_eq rfl) hk
  | queue =>
    simp only [applyLock]
    exact setKey_hok (h.of_keys_eq rfl) hk

theorem opUnlock_hok (db : DB) (c : Cmd) (h : HInv db) : HInv (opUnlock db c).1 := by
  unfold opUnlock
  have hk := getKey_hok h c.key
  cases hb : classifyUnlock db c with
  | stateError | notLocked | unown | cancelNone => exact h.of_keys_eq rfl
  | cancel w =>
    simp only [applyUnlock]
    exact wake_setKey_hok _ h rfl hk
  | dec h' c' =>
    have hm := classifyUnlock_mem db c h' (by rw [hb]; rfl)
    simp only [applyUnlock]
    exact wake_setKey_hok _ h rfl (fun x hx => replace_hok hk (h' := { h' with depth := h'.depth - 1 }) (hk h' hm) x hx)
  | release h' c' =>
    simp only [applyUnlock]
    exact wake_setKey_hok _ h rfl (fun x hx => remove_hok hk x hx)

theorem fireTimeout_hok (db : DB) (key : Nat) (w : Waiter) (h : HInv db) : HInv (fireTimeout db key w).1 := by
  unfold fireTimeout
  exact wake_setKey_hok _ h rfl (getKey_hok h _)

theorem fireExpire_hok (db : DB) (key : Nat) (hd : Hold) (h : HInv db) : HInv (fireExpire db key hd).1 := by
  unfold fireExpire
  exact wake_setKey_hok _ h rfl (fun x hx => remove_hok (getKey_hok h _) x hx)

theorem rearmWaiter_hok (db : DB) (w : Waiter) (h : HInv db) : HInv (rearmWaiter db w) := by
  unfold rearmWaiter updateWaiter
  exact setKey_hok (h.of_keys_eq rfl) (getKey_hok (h.of_keys_eq rfl) _)

theorem rearmHold_hok (db : DB) (hd : Hold) (h : HInv db) : HInv (rearmHold db hd) := by
  unfold rearmHold updateHoldIn
  apply setKey_hok (h.of_keys_eq rfl)
  apply replace_hok (getKey_hok (h.of_keys_eq rfl) _)
  unfold HOK; simp only []; exact wheelAdd_hok _ _ _ _

theorem sweepTimeout_hok (db : DB) (c : Nat) (h : HInv db) : HInv (sweepTimeout db c).1 := by
  unfold sweepTimeout timeoutPass1
  refine foldl_P HInv _ (fun acc a ha => by unfold fireTimeoutStep; split; exact fireTimeout_hok _ _ _ ha; exact ha) _ _ ?_
  exact foldl_P HInv _ (fun acc a ha => by unfold timeoutStep; split; exact rearmWaiter_hok _ _ ha; exact ha) _ _ h

theorem sweepExpire_hok (db : DB) (c : Nat) (h : HInv db) : HInv (sweepExpire db c).1 := by
  unfold sweepExpire expirePass1
  refine foldl_P HInv _ (fun acc a ha => by
    unfold fireExpireStep; split; exact fireExpire_hok _ _ _ ha; exact ha) _ _ ?_
  exact foldl_P HInv _ (fun acc a ha => by unfold expireStep; split; exact rearmHold_hok _ _ ha; exact ha) _ _ h

theorem opTick_hok (db : DB) (h : HInv db) : HInv (opTick db).1 := by
  unfold opTick
  simp only []
  apply sweepExpire_hok
  apply HInv.of_keys_eq (db := (sweepTimeout { db with now := db.now + 1, tCheck := db.now + 1 + 1 } (db.now + 1)).1) _ rfl
  exact sweepTimeout_hok _ _ (h.of_keys_eq rfl)

/-- the sort used for firing order only permutes -/
theorem mem_sortBySeq {α} (seqOf : α → Nat) (l : List α) (x : α) (hx : x ∈ sortBySeq seqOf l) : x ∈ l := by
  unfold sortBySeq at hx
  have ins : ∀ (y : α) (acc : List α), x ∈ insertBySeq seqOf y acc → x = y ∨ x ∈ acc := by
    intro y acc
    induction acc with
    | nil => intro h; simp [insertBySeq] at h; exact Or.inl h
    | cons z zs ihz =>
      intro h
      unfold insertBySeq at h
      split at h
      · rcases List.mem_cons.mp h with h | h
        · exact Or.inl h
        · exact Or.inr h
      · rcases List.mem_cons.mp h with h | h
        · exact Or.inr (by simp [h])
        · rcases ihz h with h | h
          · exact Or.inl h
          · exact Or.inr (List.mem_cons_of_mem _ h)
  have gen : ∀ (l acc : List α), x ∈ l.foldl (fun acc y => insertBySeq seqOf y acc) acc → x ∈ l ∨ x ∈ acc := by
    intro l
    induction l with
    | nil => intro acc h; exact Or.inr h
    | cons y ys ih =>
      intro acc h
      simp only [List.foldl_cons] at h
      rcases ih _ h with h | h
      · exact Or.inl (List.mem_cons_of_mem _ h)
      · rcases ins y acc h with h | h
        · exact Or.inl (by simp [h])
        · exact Or.inr h
  rcases gen l [] hx with h | h
  · exact h
  · simp at h

/-- what pass 1 hands to `doExpried`: only holds whose deadline has been reached -/
theorem expirePass1_due (db : DB) (c : Nat) (h : HInv db) (hc : c = db.now) :
    ∀ hd ∈ (expirePass1 db c).2, hd.expT ≤ db.now := by
  unfold expirePass1
  simp only []
  have key : ∀ (l : List Hold) (acc : DB × List Hold), acc.1.now = db.now → (∀ x ∈ acc.2, x.expT ≤ db.now) →
      ∀ x ∈ (l.foldl expireStep acc).2, x.expT ≤ db.now := by
    intro l
    induction l with
    | nil => intro acc _ h2; exact h2
    | cons a as ih =>
      intro acc h1 h2
      simp only [List.foldl_cons]
      apply ih
      · unfold expireStep; split
        · have := clock_rearmHold acc.1 a; unfold clock at this; simp only [Prod.mk.injEq] at this; rw [this.1]; exact h1
        · exact h1
      · unfold expireStep; split
        · exact h2
        · rename_i hnd
          intro x hx
          rcases List.mem_append.mp hx with hx | hx
          · exact h2 x hx
          · simp at hx; rw [hx]; omega
  intro x hx
  rcases List.mem_append.mp hx with hx | hx
  · exact key _ (db, []) rfl (by simp) x hx
  · unfold longHolds at hx
    have hm := mem_sortBySeq _ _ _ hx
    have hf := List.mem_filter.mp hm
    have hvis : x.sched.visit = c ∧ x.sched.long = true := by simpa using hf.2
    have hmem : ∃ k ∈ db.keys, x ∈ k.holders := by
      have := hf.1; unfold allHolds at this; simpa [List.mem_flatMap] using this
    obtain ⟨k, hk, hxk⟩ := hmem
    have := h k hk x hxk hvis.2
    omega

end Slock.Engine
