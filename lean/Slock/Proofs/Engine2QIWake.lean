import Slock.Proofs.Engine2QI
/-! Stage-2 engine: the wake pass leaves the wait queue empty or with a live request in it (its fuel — queue length + 1 — is
enough to pop every entry it tombstones). -/
namespace Slock.Engine2
open Slock.Engine (has)

/-- the fuel the wake pass still has covers the queue: one iteration per entry plus the closing one, or one less when the head is a
tombstone (the next iteration pops it without waking anything) -/
def FuelOK (fuel : Nat) (k : Key) : Prop :=
  k.wait.length + 1 ≤ fuel ∨ (k.wait.length ≤ fuel ∧ ∃ e rest, k.wait = e :: rest ∧ (k.getR e.rid).timeouted = true)

theorem waitSkip_len (l : List WEnt) (k : Key) (hl : k.wait = l) :
    (waitSkip l k).1.wait.length ≤ l.length ∧
    (∀ e rest, l = e :: rest → k.deadWaiter e.rid = true → (waitSkip l k).1.wait.length < l.length) := by
  induction l generalizing k with
  | nil => exact ⟨by simp [waitSkip, hl], fun e rest h => by simp at h⟩
  | cons e rest ih =>
    unfold waitSkip
    split
    · obtain ⟨_, q2, _⟩ := unref_queues { k with wait := rest, waitPopped := if k.waitPrio then k.waitPopped else k.waitPopped + 1 } e.rid
      have := (ih _ q2).1
      exact ⟨by simp only [List.length_cons]; omega, fun _ _ _ _ => by simp only [List.length_cons]; omega⟩
    · rename_i hv
      refine ⟨by show k.wait.length ≤ _; rw [hl]; exact Nat.le_refl _, fun e' rest' he hd => ?_⟩
      injection he with h1 h2
      rw [← h1] at hd
      exact absurd hd hv

theorem gone_when (w : W) (b : Bool) (f : W → W) (h : ∀ w, (f w).gone = w.gone) : (w.when b f).gone = w.gone := by
  cases b
  · rfl
  · exact h w

theorem gone_procData (w : W) (ct : Slock.Value.CmdType) (c : Cmd) (f : Option Bytes) (rid : Nat) : (w.procData ct c f rid).gone = w.gone := by
  unfold W.procData
  split
  · rfl
  · simp only []
    split <;> rfl

theorem gone_pushLockAof (w : W) (rid flag : Nat) : (w.pushLockAof rid flag).gone = w.gone := by
  unfold W.pushLockAof
  split
  · rfl
  · simp only []
    split <;> rfl

theorem gone_pushLockAofN (n : Nat) (w : W) (rid : Nat) : (W.pushLockAofN n w rid).gone = w.gone := by
  induction n generalizing w with
  | zero => rfl
  | succ n ih => unfold W.pushLockAofN; exact (ih _).trans (gone_pushLockAof _ _ _)

theorem gone_addExpried (w : W) (rid : Nat) : (w.addExpried rid).gone = w.gone := by
  unfold W.addExpried
  simp only []
  exact (gone_when _ _ _ (fun w => gone_pushLockAofN _ w rid)).trans rfl

theorem gone_grant (w : W) (rid : Nat) : (w.grant rid).gone = w.gone := by
  unfold W.grant
  simp only []
  show (((((w.addLock rid).modK incLocked).procData _ _ _ rid).modR rid _).addExpried rid).gone = w.gone
  rw [gone_addExpried]
  show (((w.addLock rid).modK incLocked).procData _ _ _ rid).gone = w.gone
  rw [gone_procData]; rfl

theorem gone_grantNoHold (w : W) (rid : Nat) : (w.grantNoHold rid).gone = w.gone := by
  unfold W.grantNoHold
  simp only []
  show ((w.procData _ _ _ rid).when _ _).gone = w.gone
  rw [gone_when _ _ _ (fun w => gone_pushLockAof w rid 0), gone_procData]

theorem gone_wakeOne (w : W) (rid : Nat) : (w.wakeOne rid).gone = w.gone := by
  unfold W.wakeOne
  simp only []
  have h2 : (((w.modR rid (fun r => { r with timeouted := true })).dropLongT rid).ctr (fun c => { c with waitCount := c.waitCount - 1 })).gone = w.gone := by
    show ((w.modR rid (fun r => { r with timeouted := true })).dropLongT rid).gone = w.gone
    unfold W.dropLongT
    exact gone_when _ _ _ (fun _ => rfl)
  split
  · rw [gone_grant]; exact h2
  · show ((((w.modR rid (fun r => { r with timeouted := true })).dropLongT rid).ctr (fun c => { c with waitCount := c.waitCount - 1 })).grantNoHold rid).gone = w.gone
    rw [gone_grantNoHold]; exact h2

/-- after `AddLock`, the rest of the grant -/
theorem qk_grant_tail (w : W) (rid : Nat) : QK (w.grant rid) (w.addLock rid) := by
  have d1 : QK ((w.addLock rid).modK incLocked) (w.addLock rid) := qk_modK _ incLocked rfl rfl
  have d2 := (qk_procData ((w.addLock rid).modK incLocked) .lock (((w.addLock rid).modK incLocked).k.getR rid).cmd
    (frameOf (((w.addLock rid).modK incLocked).k.getR rid).cmd (((w.addLock rid).modK incLocked).k.getR rid).data) rid).trans d1
  have d3 := (qk_modR _ rid (fun r => { r with data := none }) (by intro _; rfl) (by intro _; rfl)).trans d2
  have d4 := (qk_addExpried _ rid).trans d3
  have d5 := (qk_ref _ rid).trans d4
  exact ⟨d5.q, d5.t⟩

/-- queue and `timeouted` bookkeeping of the grant as a whole: the wait queue is not touched -/
theorem grant_wait_t (w : W) (rid : Nat) : (w.grant rid).k.wait = w.k.wait ∧ PKeep (·.timeouted) (w.grant rid).k w.k ∧ (w.grant rid).k.current ≠ none := by
  have d := qk_grant_tail w rid
  obtain ⟨q1, _, q3⟩ := queues_eq d.q
  have hf := addLockF_fields w.db w.k
  refine ⟨q3.trans (addLock_wait _ _ _), d.t.trans (PKeep.addLock ins_timeouted w.k rid _ (fun r => (hf r).1) (fun r => (hf r).2.1)), ?_⟩
  rw [q1]; exact addLock_current _ _ _

theorem wakeOne_spec (w : W) (rid : Nat) :
    (w.wakeOne rid).k.wait = w.k.wait ∧ ((w.wakeOne rid).k.hasRec rid → ((w.wakeOne rid).k.getR rid).timeouted = true) ∧
    (CurNone w.k → CurNone (w.wakeOne rid).k) := by
  have d0 : QK (((w.modR rid (fun r => { r with timeouted := true })).dropLongT rid).ctr (fun c => { c with waitCount := c.waitCount - 1 }))
      (w.modR rid (fun r => { r with timeouted := true })) := by
    have := qk_dropLongT (w.modR rid (fun r => { r with timeouted := true })) rid
    exact ⟨this.q, this.t⟩
  have key : ∀ w2 : W, w2.k.wait = (w.modR rid (fun r => { r with timeouted := true })).k.wait →
      PKeep (·.timeouted) w2.k (w.modR rid (fun r => { r with timeouted := true })).k →
      w2.k.wait = w.k.wait ∧ (w2.k.hasRec rid → (w2.k.getR rid).timeouted = true) := by
    intro w2 hw ht
    refine ⟨hw, fun hh => ?_⟩
    have h1 := ht.sub rid hh
    have h0 : w.k.hasRec rid := (hasRec_modR _ rid rid _ (by intro _; rfl)).mp h1
    have := ht.val rid hh
    rw [this]
    show ((w.k.modRec rid _).getR rid).timeouted = true
    rw [getR_modRec_same _ _ _ (by intro _; rfl) h0]
  unfold W.wakeOne
  simp only []
  split
  · obtain ⟨a, b, c⟩ := grant_wait_t (((w.modR rid (fun r => { r with timeouted := true })).dropLongT rid).ctr (fun c => { c with waitCount := c.waitCount - 1 })) rid
    obtain ⟨k1, k2⟩ := key _ (a.trans (queues_eq d0.q).2.2) (b.trans d0.t)
    exact ⟨k1, k2, fun _ hc => absurd hc c⟩
  · have d1 := (qk_grantNoHold (((w.modR rid (fun r => { r with timeouted := true })).dropLongT rid).ctr (fun c => { c with waitCount := c.waitCount - 1 })) rid).trans d0
    obtain ⟨k1, k2⟩ := key ((((w.modR rid (fun r => { r with timeouted := true })).dropLongT rid).ctr (fun c => { c with waitCount := c.waitCount - 1 })).grantNoHold rid)
      (queues_eq d1.q).2.2 d1.t
    exact ⟨k1, k2, fun hc => hc.of_q d1.q⟩

theorem good_getWaitLock {w : W} (g : Good w) : Good (w.modK (·.getWaitLock.1)) := by
  refine ⟨g.lv.modK _ (getWaitLock_rc zero_nonneg g.lv.rc) (RecsLe.getWaitLock _), ?_⟩
  have := nz_getWaitLock g.nz.nd g.nz.nz
  exact ⟨this.1, this.2⟩

theorem qi_wakePass (fuel : Nat) (w : W) (g : Good w) (cl : CurLive w.k) (hg : w.gone = false) (hq : CurNone w.k) (hf : FuelOK fuel w.k) :
    QIG (W.wakePass fuel w) := by
  induction fuel generalizing w with
  | zero =>
    exfalso
    rcases hf with h | ⟨h1, e, rest, h2, _⟩
    · omega
    · rw [h2] at h1; simp at h1
  | succ n ih =>
    unfold W.wakePass
    simp only []
    have g1 := good_getWaitLock g
    have q1 : QI (w.modK (·.getWaitLock.1)).k := by
      obtain ⟨a, b⟩ := waitSkip_cl w.k.wait w.k
      exact ⟨hq.of_cl a b, wl_getWaitLock w.k⟩
    split
    · exact QIG.removeIfZero (QIG.of_qi (q1.of_same rfl rfl))
    · rename_i rid hr
      split
      · exact QIG.of_qi q1
      · obtain ⟨e, rest, hw, he, hd⟩ := getWaitLock_some w.k rid hr
        obtain ⟨g2, hh2, c2⟩ := g1.wakeOne rid e rest hw he hd
        have c1 : CurLive (w.modK (·.getWaitLock.1)).k := cl.of_dk (dk_modK w _ (DepthKeep.getWaitLock _)) g1.lv
        obtain ⟨s1, s2, s3⟩ := wakeOne_spec (w.modK (·.getWaitLock.1)) rid
        refine ih _ g2 (c2 c1) ((gone_wakeOne _ rid).trans hg) (s3 q1.cn) ?_
        right
        have hlen := waitSkip_len w.k.wait w.k rfl
        have hw' : (w.modK (·.getWaitLock.1)).k.wait = e :: rest := hw
        refine ⟨?_, e, rest, s1.trans hw', by rw [he]; exact s2 hh2⟩
        rw [s1]
        have hl1 : (w.modK (·.getWaitLock.1)).k.wait.length ≤ w.k.wait.length := hlen.1
        rcases hf with h | ⟨h1, e0, rest0, h2, h3⟩
        · omega
        · have := hlen.2 e0 rest0 h2 (by simpa [Key.deadWaiter] using h3)
          have : (w.modK (·.getWaitLock.1)).k.wait.length < w.k.wait.length := this
          omega

theorem qi_wake {w : W} (t : Tight w) (h : QIG w) : QIG w.wake := by
  intro hg
  have hg0 : w.gone = false := gone_of_fr (Fr.wake w) hg
  revert hg
  unfold W.wake W.when
  split
  · intro hg
    exact qi_wakePass _ w (t.good hg0) (t.cur hg0) hg0 (h hg0).cn (Or.inl (Nat.le_refl _)) hg
  · intro _
    exact h hg0

end Slock.Engine2
