import Slock.Model.Repl
/-! The sender's batch buffer keeps the record order (with the code's flush-before-direct-write rule). Core Lean only. -/
namespace Slock.Repl

/-- everything handed to the sender so far, in order: what is on the wire followed by what waits in the buffer -/
def Batch.all (b : Batch) : List Nat := b.wire ++ b.wbuf

theorem flush_all (b : Batch) : b.flush.all = b.all := by simp [Batch.flush, Batch.all]

theorem fin_all (b1 : Batch) :
    (if b1.windex > 4032 then b1.flush else b1).all = b1.all ∧ (if b1.windex > 4032 then b1.flush else b1).windex ≤ 4032 := by
  by_cases h : b1.windex > 4032
  · rw [if_pos h]; exact ⟨flush_all b1, Nat.zero_le _⟩
  · rw [if_neg h]; exact ⟨rfl, by omega⟩

theorem sendRec_code (b : Batch) (id d : Nat) (_hw : b.windex ≤ 4032) :
    (sendRec codeRule b id d).all = b.all ++ [id] ∧ (sendRec codeRule b id d).windex ≤ 4032 := by
  unfold sendRec
  refine ⟨?_, (fin_all _).2⟩
  rw [(fin_all _).1]
  by_cases hd : d > 0
  · rw [if_pos hd]
    by_cases hr : codeRule b.windex d = true
    · rw [if_pos hr]
      by_cases hbig : 64 + d > 4096
      · rw [if_pos hbig]; simp [Batch.flush, Batch.all]
      · rw [if_neg hbig]; simp [Batch.flush, Batch.all]
    · rw [if_neg hr]
      have hr' : ¬ (b.windex + 64 + d > 4096) := by simpa [codeRule] using hr
      have hbig : ¬ (64 + d > 4096) := by omega
      rw [if_neg hbig]; simp [Batch.all]
  · rw [if_neg hd]; simp [Batch.all]

theorem sendAll_code (b : Batch) (rs : List (Nat × Nat)) (hw : b.windex ≤ 4032) :
    (sendAll codeRule b rs).all = b.all ++ rs.map (·.1) ∧ (sendAll codeRule b rs).windex ≤ 4032 := by
  induction rs generalizing b with
  | nil => simp [sendAll, hw]
  | cons r rs ih =>
    obtain ⟨id, d⟩ := r
    obtain ⟨h1, h2⟩ := sendRec_code b id d hw
    obtain ⟨i1, i2⟩ := ih (sendRec codeRule b id d) h2
    refine ⟨?_, i2⟩
    simp only [sendAll, List.map_cons]
    rw [i1, h1]; simp

end Slock.Repl
