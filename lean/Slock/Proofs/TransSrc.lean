import Slock.Proofs.TransStep
/-! M-TRANS: per-step source theorems — every lock / unlock result a client receives, and every frame the leader is
sent, classified by where it comes from. Any state `s` (reachable or not), any event. -/
namespace Slock.Trans
open Slock.Gen

/-- where a lock / unlock result handed to the client of connection `c` by the step `e` from state `s` comes from:
a refusal built from the request itself (UNKNOWN_DB / STATE_ERROR), the node's own lock table (`CheckProbableLock`:
TIMEOUT), the rollback of the latest in-flight command at a link loss (ERROR, every other field zero), or the relay of
the leader's frame — there is no fifth source. -/
def Src (s : Node) (e : Event) (c : Nat) (r : LockRes) : Prop :=
  (∃ short ct md cmd rep, e = .request c short (.lk ct md cmd rep) ∧
      (r = localRes ct cmd C.RESULT_UNKNOWN_DB 0 0 [] ∨ r = localRes ct cmd C.RESULT_STATE_ERROR 0 0 [])) ∨
  (∃ short md cmd rep lc d, e = .request c short (.lk .lock md cmd rep) ∧ probe cmd rep = some (lc, d) ∧
      r = localRes .lock cmd C.RESULT_TIMEOUT lc 0 d) ∨
  (∃ x l ct, s.conns[c]? = some x ∧ x.link = some l ∧ l.latestT = some ct ∧ r = rollbackRes ct l.latestR ∧
      (e = .linkDown c ∨ ∃ a, e = .leader a)) ∨
  (∃ early x l, e = .leaderMsg c (.lockRes r) early ∧ s.conns[c]? = some x ∧ x.link = some l)

theorem applyConn_client {s : Node} {c : Nat} {x : Conn} {rid : Option Nat} {b : Branch} {c' : Nat} {m : ToClient}
    (h : (c', m) ∈ (applyConn s c x rid b).2.client) :
    c' = c ∧ (b = .refuse m ∨ (∃ r, b = .probed r ∧ m = .lockRes r) ∨
      (∃ ct cmd l n pre aw, b = .fwdLk ct cmd l n pre aw (some m)) ∨
      (∃ rid' cid, b = .initRefused rid' cid ∧ m = .initRes rid' C.RESULT_STATE_ERROR (2 ||| initState s.role s.addr))) := by
  cases b <;> simp [applyConn] at h
  · obtain ⟨rfl, rfl⟩ := h; exact ⟨rfl, Or.inl rfl⟩
  · obtain ⟨rfl, rfl⟩ := h; exact ⟨rfl, Or.inr (Or.inl ⟨_, rfl, rfl⟩)⟩
  · rename_i ct cmd l n pre aw ack
    cases ack <;> simp at h
    obtain ⟨rfl, rfl⟩ := h
    exact ⟨rfl, Or.inr (Or.inr (Or.inl ⟨_, _, _, _, _, _, rfl⟩))⟩
  · obtain ⟨rfl, rfl⟩ := h; exact ⟨rfl, Or.inr (Or.inr (Or.inr ⟨_, _, rfl, rfl⟩))⟩

theorem applyConn_fwd {s : Node} {c : Nat} {x : Conn} {rid : Option Nat} {b : Branch} {c' : Nat} {f : Fwd}
    (h : (c', f) ∈ (applyConn s c x rid b).2.fwd) :
    c' = c ∧ ((∃ ct cmd l n pre aw ack, b = .fwdLk ct cmd l n pre aw ack ∧ (f ∈ pre ∨ f = .lk ct cmd)) ∨
      (∃ rid' cid l n, b = .fwdInit rid' cid l n ∧ f = .init rid' cid) ∨
      (∃ rid' l n pre, b = .fwdCall rid' l n pre ∧ (f ∈ pre ∨ f = .call rid'))) := by
  cases b <;> simp [applyConn] at h
  · rename_i ct cmd l n pre aw ack
    rcases h with ⟨hg, rfl⟩ | ⟨rfl, rfl⟩
    · exact ⟨rfl, Or.inl ⟨_, _, _, _, _, _, _, rfl, Or.inl hg⟩⟩
    · exact ⟨rfl, Or.inl ⟨_, _, _, _, _, _, _, rfl, Or.inr rfl⟩⟩
  · obtain ⟨rfl, rfl⟩ := h; exact ⟨rfl, Or.inr (Or.inl ⟨_, _, _, _, rfl, rfl⟩)⟩
  · rename_i rid' l n pre
    rcases h with ⟨hg, rfl⟩ | ⟨rfl, rfl⟩
    · exact ⟨rfl, Or.inr (Or.inr ⟨_, _, _, _, rfl, Or.inl hg⟩)⟩
    · exact ⟨rfl, Or.inr (Or.inr ⟨_, _, _, _, rfl, Or.inr rfl⟩)⟩

/-- **No third source**: every lock / unlock result any step hands to a client is a refusal fabricated from the request,
a TIMEOUT from the node's own lock table, the rollback of the latest in-flight command, or the leader's own frame. -/
theorem client_source (s : Node) (e : Event) (c : Nat) (m : ToClient) (r : LockRes)
    (h : (c, m) ∈ (step s e).2.client) (hc : Carries m r) : Src s e c r := by
  cases e with
  | accept k => simp [step] at h
  | role r => simp [step] at h
  | unattached d => simp [step] at h
  | close d =>
    simp only [step, stepClose] at h
    repeat' split at h
    all_goals simp at h
  | closeCut d k =>
    simp only [step, stepClose] at h
    repeat' split at h
    all_goals simp at h
  | request d short q =>
    simp only [step] at h
    rcases will_or_not q with ⟨wct, wcmd, rfl⟩ | hq
    · rw [stepRequest_will] at h
      split at h
      · simp at h
      · obtain ⟨_, rfl⟩ := willConn_client h
        rcases hc with hc | hc | hc <;> cases hc
    rw [stepRequest_eq hq] at h
    split at h
    · simp at h
    · rename_i x hx
      simp only at h
      obtain ⟨rfl, hb⟩ := applyConn_client h
      rcases hb with hb | ⟨r', hb, rfl⟩ | ⟨ct, cmd, l, n, pre, aw, hb⟩ | ⟨rid', cid, hb, rfl⟩
      · cases q with
        | lk ct md cmd rep =>
          rcases classify_lk_refuse hb with rfl | rfl | rfl | rfl
          · rcases hc with hc | hc | hc <;> cases hc
            exact Or.inl ⟨_, _, _, _, _, rfl, Or.inl rfl⟩
          · rcases hc with hc | hc | hc <;> cases hc
            exact Or.inl ⟨_, _, _, _, _, rfl, Or.inr rfl⟩
          · rcases hc with hc | hc | hc <;> cases hc
          · rcases hc with hc | hc | hc <;> cases hc
        | init rid cid =>
          rcases classify_init_shape (s := s) (x := x) (short := short) (rid := rid) (cid := cid) with h1 | h1 | h1 | h1 | ⟨_, _, _, h1, _⟩ <;>
            rw [h1] at hb <;> cases hb
        | call rid fw =>
          rcases classify_call_shape (s := s) (x := x) (short := short) (rid := rid) (fw := fw) with h1 | h1 | h1 | h1 | ⟨_, _, _, h1, _⟩ <;>
            rw [h1] at hb <;> cases hb
          rcases hc with hc | hc | hc <;> cases hc
        | will wct wcmd => exact absurd rfl (hq wct wcmd)
        | other =>
          rcases classify_other_shape (s := s) (x := x) (short := short) with h1 | h1 | h1 <;> rw [h1] at hb <;> cases hb
      · cases q with
        | lk ct md cmd rep =>
          obtain ⟨rfl, _, lc, dd, hp, rfl⟩ := classify_lk_probed hb
          rcases hc with hc | hc | hc <;> cases hc
          exact Or.inr (Or.inl ⟨_, _, _, _, _, _, rfl, hp, rfl⟩)
        | init rid cid =>
          rcases classify_init_shape (s := s) (x := x) (short := short) (rid := rid) (cid := cid) with h1 | h1 | h1 | h1 | ⟨_, _, _, h1, _⟩ <;>
            rw [h1] at hb <;> cases hb
        | call rid fw =>
          rcases classify_call_shape (s := s) (x := x) (short := short) (rid := rid) (fw := fw) with h1 | h1 | h1 | h1 | ⟨_, _, _, h1, _⟩ <;>
            rw [h1] at hb <;> cases hb
        | will wct wcmd => exact absurd rfl (hq wct wcmd)
        | other =>
          rcases classify_other_shape (s := s) (x := x) (short := short) with h1 | h1 | h1 <;> rw [h1] at hb <;> cases hb
      · -- the acknowledgement of a text PUSH: `+OK`, not a lock result
        cases q with
        | lk ct' md cmd' rep =>
          obtain ⟨_, _, _, _, _, hk⟩ := classify_lk_fwd hb
          rcases hk with ⟨_, _, _, hack⟩ | ⟨_, _, hmd⟩
          · cases hack
          · rcases hmd with ⟨_, _, hack⟩ | ⟨_, _, hack⟩
            · cases hack; rcases hc with hc | hc | hc <;> cases hc
            · cases hack
        | init rid cid =>
          rcases classify_init_shape (s := s) (x := x) (short := short) (rid := rid) (cid := cid) with h1 | h1 | h1 | h1 | ⟨_, _, _, h1, _⟩ <;>
            rw [h1] at hb <;> cases hb
        | call rid fw =>
          rcases classify_call_shape (s := s) (x := x) (short := short) (rid := rid) (fw := fw) with h1 | h1 | h1 | h1 | ⟨_, _, _, h1, _⟩ <;>
            rw [h1] at hb <;> cases hb
        | will wct wcmd => exact absurd rfl (hq wct wcmd)
        | other =>
          rcases classify_other_shape (s := s) (x := x) (short := short) with h1 | h1 | h1 <;> rw [h1] at hb <;> cases hb
      · rcases hc with hc | hc | hc <;> cases hc
  | leaderMsg d msg early =>
    simp only [step, stepLeaderMsg] at h
    split at h
    · simp at h
    · rename_i x hx
      split at h
      · simp at h
      · rename_i l hl
        simp only at h
        obtain ⟨rfl, hsrc⟩ := relay_client h
        rcases hsrc with ⟨r', rfl, hc'⟩ | ⟨_, _, _, _, rfl⟩ | ⟨_, _, _, _, rfl⟩
        · have := carries_inj hc hc'; subst this
          exact Or.inr (Or.inr (Or.inr ⟨early, x, l, rfl, hx, hl⟩))
        · rcases hc with hc | hc | hc <;> cases hc
        · rcases hc with hc | hc | hc <;> cases hc
  | linkDown d =>
    simp only [step, stepLinkDown] at h
    split at h
    · simp at h
    · rename_i x hx
      split at h
      · simp at h
      · rename_i l hl
        simp only at h
        obtain ⟨rfl, ct, hct, hcase⟩ := dropLink_client h
        rcases hcase with ⟨_, rfl⟩ | ⟨_, hc'⟩
        · rcases hc with hc | hc | hc <;> cases hc
        · have := carries_inj hc hc'; subst this
          exact Or.inr (Or.inr (Or.inl ⟨x, l, ct, hx, hl, hct, rfl, Or.inl rfl⟩))
  | leader a =>
    simp only [step, stepLeader] at h
    split at h
    · simp only at h
      obtain ⟨j, x, l, hj, hcj, hl, hm⟩ := dropAll_client h
      obtain ⟨_, ct, hct, hcase⟩ := dropLink_client hm
      have hj' : s.conns[c]? = some x := by rw [hcj]; simpa using hj
      rcases hcase with ⟨_, rfl⟩ | ⟨_, hc'⟩
      · rcases hc with hc | hc | hc <;> cases hc
      · have := carries_inj hc hc'; subst this
        exact Or.inr (Or.inr (Or.inl ⟨x, l, ct, hj', hl, hct, rfl, Or.inr ⟨a, rfl⟩⟩))
    · simp at h

end Slock.Trans
