import Slock.Proofs.AckQuorum
/-! M-ACK: which operations touch the ack table (only journal delivery, reports, demotion), and the link between the positive reports
noted in an entry and the events of the run. -/
namespace Slock.Ack

@[simp] theorem removeLock_tab (db : DB) (h : Nat) : (db.removeLock h).tab = db.tab := rfl
@[simp] theorem journalUnlock_tab (db : DB) (h : Nat) (b : Bool) : (db.journalUnlock h b).tab = db.tab := by
  unfold DB.journalUnlock; split
  · simp only []; split <;> simp [pushJ_tab]
  · rfl
@[simp] theorem pushLock_tab (db : DB) (h : Nat) : (db.pushLock h).1.tab = db.tab := by
  unfold DB.pushLock; simp only []; split <;> simp [pushJ_tab]
@[simp] theorem addExpried_tab (db : DB) (h : Nat) : (db.addExpried h).tab = db.tab := rfl
@[simp] theorem addTimeOut_tab (db : DB) (h : Nat) : (db.addTimeOut h).tab = db.tab := rfl
@[simp] theorem rollback_tab (db : DB) (h : Nat) : (db.rollback h).tab = db.tab := by
  unfold DB.rollback; simp only []; split <;> simp
@[simp] theorem grant_tab (db : DB) (h : Nat) : (db.grant h).1.tab = db.tab := by
  unfold DB.grant; simp [valueOp_tab, addLock_tab']
@[simp] theorem updateHold_tab (db : DB) (h : Nat) (c : Cmd) : (db.updateHold h c).tab = db.tab := by
  unfold DB.updateHold; simp only []; split <;> simp
@[simp] theorem ackHold_tab'' (db : DB) (h : Nat) : (db.ackHold h).tab = db.tab := ackHold_tab db h
@[simp] theorem newRec_tab' (db : DB) (c : Cmd) : (db.newRec c).1.tab = db.tab := rfl

theorem applyWake_tab (db : DB) (k : Nat) (b : WakeBranch) : (applyWake db k b).1.tab = db.tab := by
  cases b <;> unfold applyWake <;> simp

theorem wakeLoop_tab (fuel : Nat) : ∀ (db : DB) (k : Nat) (out : List Reply), (wakeLoop fuel db k out).1.tab = db.tab := by
  induction fuel with
  | zero => intro db k out; rfl
  | succ n ih =>
    intro db k out
    unfold wakeLoop
    cases e : classifyWake db k with
    | stop => simp only []; split <;> simp
    | grant w => simp only []; rw [ih, applyWake_tab]
    | ackGrant w => simp only []; rw [ih, applyWake_tab]
    | ackFail w => simp only []; rw [ih, applyWake_tab]

@[simp] theorem wake_tab (db : DB) (k : Nat) (out : List Reply) : (db.wake k out).1.tab = db.tab := by
  unfold DB.wake; split; exact wakeLoop_tab _ _ _ _; rfl

@[simp] theorem ackDone_tab (db : DB) (hid : Nat) (ok : Bool) : (ackDone db hid ok).1.tab = db.tab := by
  unfold ackDone
  cases classifyAck db hid ok <;> unfold applyAck <;> simp

@[simp] theorem relockHold_tab (db : DB) (c : Cmd) (h : Nat) : (db.relockHold c h).tab = db.tab := by
  unfold DB.relockHold; simp only []; split <;> split <;> simp [pushJ_tab, pushJ_cfg]
@[simp] theorem dropWaiter_tab (db : DB) (hid : Nat) : (db.dropWaiter hid).tab = db.tab := by
  unfold DB.dropWaiter; simp only []; split <;> simp

theorem opLock_tab (db : DB) (c : Cmd) : (opLock db c).1.tab = db.tab := by
  unfold opLock
  cases classifyLock db c with
  | stateError => rfl
  | ackWaiting h => rfl
  | relockRefused h => rfl
  | timeout => rfl
  | relock h => unfold applyLock; simp
  | grant => unfold applyLock; simp only []; split <;> simp
  | ackGrant => unfold applyLock; simp only []; split <;> simp
  | queue => unfold applyLock; simp

theorem opUnlock_tab (db : DB) (c : Cmd) : (opUnlock db c).1.tab = db.tab := by
  unfold opUnlock
  cases classifyUnlock db c <;> unfold applyUnlock <;> simp [DB.bumpErr]

theorem fireTimeout_tab (db : DB) (hid : Nat) : (fireTimeout db hid).1.tab = db.tab := by
  unfold fireTimeout; simp only []; split
  · simp
  · simp

theorem fireExpire_tab (db : DB) (hid : Nat) : (fireExpire db hid).1.tab = db.tab := by
  unfold fireExpire; simp only []; split <;> simp

theorem sweepTimeout_tab (db : DB) (c : Nat) : (sweepTimeout db c).1.tab = db.tab := by
  unfold sweepTimeout
  simp only []
  have h1 := foldl_inv (fun acc : DB × List Nat => acc.1.tab = db.tab) timeoutStep (fun b a hb => by
    unfold timeoutStep; simp only []; split; exact hb; exact hb) (slotT db c false) (db, []) rfl
  exact foldl_inv (fun acc : DB × List Reply => acc.1.tab = db.tab) fireTimeoutStep (fun b a hb => by
    unfold fireTimeoutStep; split; exact hb; simp only []; rw [fireTimeout_tab]; exact hb) _ _ h1

theorem sweepExpire_tab (db : DB) (c : Nat) : (sweepExpire db c).1.tab = db.tab := by
  unfold sweepExpire
  simp only []
  have h1 := foldl_inv (fun acc : DB × List Nat => acc.1.tab = db.tab) expireStep (fun b a hb => by
    unfold expireStep; simp only []; split; exact hb; exact hb) (slotE db c false) (db, []) rfl
  exact foldl_inv (fun acc : DB × List Reply => acc.1.tab = db.tab) fireExpireStep (fun b a hb => by
    unfold fireExpireStep; split; exact hb; simp only []; rw [fireExpire_tab]; exact hb) _ _ h1

theorem opTick_tab (db : DB) : (opTick db).1.tab = db.tab := by
  rw [opTick_eq]; dsimp only; rw [sweepExpire_tab]; show (sweepTimeout (tickT db) (db.now + 1)).1.tab = db.tab; rw [sweepTimeout_tab]; rfl

/-- the positive report an event carries -/
def reportOf : Ev → Option (Nat × Option Nat)
  | .aofed id true => some (id, none)
  | .acked id f true => some (id, some f)
  | _ => none

/-- where an entry of the table after an event comes from -/
def FromEv (ev : Ev) (t : List Ent) (e' : Ent) : Prop :=
  e' ∈ t ∨ e'.oks = [] ∨ ∃ e ∈ t, e'.id = e.id ∧ ∃ who, e'.oks = e.oks ++ [who] ∧ reportOf ev = some (e.id, who)

theorem opPush_from (db : DB) (k : Nat) (werr : Bool) (ev : Ev) : ∀ e' ∈ (opPush db k werr).1.tab, FromEv ev db.tab e' := by
  rw [opPush_eq]
  intro e' he'
  split at he'
  · exact Or.inl he'
  · split at he'
    · exact Or.inl he'
    · rename_i j _ _ hid _
      have h2 : ∀ x ∈ (if (popJ db k).leader = true then (if j.isLock = true then leaderPushLock (popJ db k) (popJ db k).nextId hid
            else leaderPushUnLock (popJ db k) hid) else (popJ db k, [])).1.tab, FromEv ev db.tab x := by
        intro x hx
        split at hx
        · split at hx
          · unfold leaderPushLock at hx
            split at hx
            · rw [ackDone_tab] at hx; exact Or.inl hx
            · split at hx
              · rw [ackDone_tab] at hx; exact Or.inl hx
              · simp only [] at hx
                rcases List.mem_append.mp hx with h | h
                · exact Or.inl h
                · simp at h; subst h; exact Or.inr (Or.inl rfl)
          · unfold leaderPushUnLock at hx
            split at hx
            · rw [ackDone_tab] at hx; exact Or.inl (List.mem_filter.mp hx).1
            · exact Or.inl hx
        · exact Or.inl hx
      dsimp only at he'
      split at he'
      · rw [ackDone_tab] at he'; exact h2 e' he'
      · exact h2 e' he'

theorem opReport_from (db : DB) (id : Nat) (who : Option Nat) (ok : Bool) (ev : Ev) (hev : ok = true → reportOf ev = some (id, who)) :
    ∀ e' ∈ (opReport db id who ok).1.tab, FromEv ev db.tab e' := by
  intro e' he'
  unfold opReport at he'
  split at he'
  · exact Or.inl he'
  · rename_i e he
    simp only [] at he'
    split at he'
    · rw [ackDone_tab] at he'; exact Or.inl (List.mem_filter.mp he').1
    · rename_i hc
      have hok : ok = true := by cases ok <;> simp at hc ⊢
      split at he'
      · obtain ⟨l1, l2, e1, a1, a2, a3, a4, a5⟩ := noteOk_split (who := who) he
        have hx : e' ∈ noteOk id who db.tab := he'
        rw [a2] at hx
        have hem : e ∈ db.tab := List.mem_of_find?_eq_some he
        have hid : e.id = id := by have := List.find?_some he; simpa using this
        rcases List.mem_append.mp hx with h | h
        · exact Or.inl (by rw [a1]; exact List.mem_append_left _ h)
        · rcases List.mem_cons.mp h with h | h
          · subst h
            exact Or.inr (Or.inr ⟨e, hem, a4, who, a5, by rw [hid]; exact hev hok⟩)
          · exact Or.inl (by rw [a1]; exact List.mem_append_right _ (List.mem_cons_of_mem _ h))
      · rw [ackDone_tab] at he'; exact Or.inl (List.mem_filter.mp he').1

theorem step_from (db : DB) (ev : Ev) : ∀ e' ∈ (step db ev).1.tab, FromEv ev db.tab e' := by
  intro e' he'
  cases ev with
  | lock c => exact Or.inl (by have : (step db (.lock c)).1.tab = db.tab := opLock_tab db c; rw [this] at he'; exact he')
  | unlock c => exact Or.inl (by have : (step db (.unlock c)).1.tab = db.tab := opUnlock_tab db c; rw [this] at he'; exact he')
  | tick => exact Or.inl (by have : (step db .tick).1.tab = db.tab := opTick_tab db; rw [this] at he'; exact he')
  | push k => exact opPush_from db k false _ e' he'
  | pushW k => exact opPush_from db k true _ e' he'
  | aofed id ok =>
    have he'' : e' ∈ (opAofed db id ok).1.tab := he'
    unfold opAofed at he''
    split at he''
    · exact opReport_from db id none ok _ (by intro h; subst h; rfl) e' he''
    · exact Or.inl he''
  | acked id f ok => exact opReport_from db id (some f) ok _ (by intro h; subst h; rfl) e' he'
  | role b => exact Or.inl he'
  | closed b => exact Or.inl he'
  | demote o => have : (step db (.demote o)).1.tab = [] := rfl; rw [this] at he'; simp at he'
  | flush o => have : (step db (.flush o)).1.tab = [] := rfl; rw [this] at he'; simp at he'

end Slock.Ack
