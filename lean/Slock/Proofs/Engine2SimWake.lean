import Slock.Proofs.Engine2SimGrant3
import Slock.Proofs.Engine
/-! Simulation stage 2 → stage 1: one iteration of the wake pass (`wakeUpWaitLock` = stage 1's `wakeIter`). -/
namespace Slock.Sim
open Slock Slock.Engine2
open Slock.Engine (has)

/-- the head of the wake-up: tombstone the request, take it off the long table, `WaitCount--` -/
def wakePre (w : W) (rid : Nat) : W :=
  ((w.modR rid (fun r => { r with timeouted := true })).dropLongT rid).ctr (fun c => { c with waitCount := c.waitCount - 1 })

theorem wakeOne_eq (w : W) (rid : Nat) :
    w.wakeOne rid = if ((wakePre w rid).k.getR rid).cmd.expried > 0 then (wakePre w rid).grant rid
      else (((wakePre w rid).grantNoHold rid).ctr (fun c => { c with lockCount := c.lockCount + 1 })).reply
        { ((wakePre w rid).k.getR rid).cmd with conn := ((wakePre w rid).k.getR rid).conn } Engine.RESULT_SUCCED 0 (wakePre w rid).lockData := rfl

theorem wakePre_sx (w : W) (rid : Nat) : SX (· = rid) w (wakePre w rid) :=
  (((SX.refl (X := (· = rid)) w).modR_in rid (fun r => { r with timeouted := true }) (by intro _; rfl) rfl).dropLongT rid rfl).ctr _

theorem wakePre_db (w : W) (rid : Nat) :
    (wakePre w rid).db.seq = w.db.seq ∧ (wakePre w rid).db.eCheck = w.db.eCheck ∧ (wakePre w rid).db.tCheck = w.db.tCheck ∧
    (wakePre w rid).db.now = w.db.now ∧ (wakePre w rid).db.leader = w.db.leader ∧
    (wakePre w rid).db.ctr = { w.db.ctr with waitCount := w.db.ctr.waitCount - 1 } := by
  have h : ((w.modR rid (fun r => { r with timeouted := true })).dropLongT rid).db = w.db := by
    unfold W.dropLongT W.when; split <;> rfl
  unfold wakePre W.ctr
  simp [h]

theorem wakePre_locked (w : W) (rid : Nat) : (wakePre w rid).k.locked = w.k.locked :=
  ((FQ.modR w rid _).trans ((FQ.dropLongT _ rid).trans (FQ.ctr _ _))).qt.locked

/-- what stage 1 sees of the key record after the head of the wake-up: the request has left the queue -/
theorem wakePre_abs (w : W) (l : Lv w zero) (rid : Nat) (e : WEnt) (rest : List WEnt) (hw : w.k.wait = e :: rest) (he : e.rid = rid)
    (hd : w.k.deadWaiter rid = false) (hnd : (w.k.wait.map (·.rid)).Nodup) (hnot : rid ∉ w.k.current.toList ++ w.k.locks) :
    (Key.abs w.k).waiters = waiterOf w.k rid :: (((rest.map (·.rid)).filter (fun x => !w.k.deadWaiter x)).map (waiterOf w.k)) ∧
    Key.abs (wakePre w rid).k =
      { Key.abs w.k with waiters := ((rest.map (·.rid)).filter (fun x => !w.k.deadWaiter x)).map (waiterOf w.k) } := by
  have hh : w.k.hasRec rid := by
    apply l.rc.dang
    have := qRefs_pos_of_wait_mem w.k rid (by rw [hw, ← he]; simp)
    simp only [zero]; omega
  obtain ⟨l2, g2, _⟩ := wake_prep zero_nonneg l rid hh hd (fun c => { c with waitCount := c.waitCount - 1 })
  have sx := wakePre_sx w rid
  obtain ⟨q1, q2, q3⟩ := queues_eq sx.q
  have hw1 : (Key.abs w.k).waiters = waiterOf w.k rid :: (((rest.map (·.rid)).filter (fun x => !w.k.deadWaiter x)).map (waiterOf w.k)) := by
    rw [abs_waiters, hw]
    simp only [List.map_cons, List.filter, he, hd, Bool.not_false]
  refine ⟨hw1, ?_⟩
  apply abs_ext
  · exact sx.key
  · exact wakePre_locked w rid
  · refine abs_holders_congr q1 q2 sx.p (fun y hy e' => hnot (e' ▸ hy)) ?_
    intro y hy
    apply l2.rc.dang
    have : 0 < (wakePre w rid).k.qRefs y := by
      apply qRefs_pos_of_holder
      show y ∈ (wakePre w rid).k.current.toList ++ (wakePre w rid).k.locks
      rw [q1, q2]; exact hy
    show 0 < ((wakePre w rid).k.qRefs y : Int) + 0
    omega
  · -- the waiters: the head is a tombstone now, the rest is as it was
    show (Key.abs (wakePre w rid).k).waiters = _
    rw [abs_waiters, q3, hw]
    have hdead2 : (wakePre w rid).k.deadWaiter rid = true := by
      unfold Key.deadWaiter; exact g2.tomb
    simp only [List.map_cons, List.filter, he, hdead2, Bool.not_true]
    apply filter_map_congr_on
    intro y hy
    have hne : y ≠ rid := by
      intro e'
      rw [hw] at hnd
      simp only [List.map_cons, List.nodup_cons, he] at hnd
      exact hnd.1 (e' ▸ hy)
    have hy2 : (wakePre w rid).k.hasRec y := by
      apply l2.rc.dang
      have := qRefs_pos_of_wait_mem (wakePre w rid).k y (by rw [q3, hw]; simp [hy])
      show 0 < ((wakePre w rid).k.qRefs y : Int) + 0
      omega
    have := sx.p.val y hne hy2
    refine ⟨?_, fun _ => congrArg (fun t => t.2.1) this⟩
    unfold Key.deadWaiter
    rw [show ((wakePre w rid).k.getR y).timeouted = (w.k.getR y).timeouted from congrArg (fun t => t.2.2) this]
  · exact sx.waited

/-- the hold stage 1's `grantHold` creates -/
def hold1 (a : Engine.DB) (c : Engine.Cmd) : Engine.Hold :=
  let x := Engine.wheelAdd a.eCheck a.seq (Engine.expiryDeadline a.now c) (Engine.initChecked c a.now (Engine.expiryDeadline a.now c))
  { hid := a.seq, cmd := c, conn := c.conn, depth := 1, startT := a.now, expT := x.1, sched := x.2 }

def ctrG (c : Engine.Counters) : Engine.Counters := { c with lockCount := c.lockCount + 1, lockedCount := c.lockedCount + 1 }

theorem grantHold_eq (a : Engine.DB) (k : Engine.Key) (c : Engine.Cmd) :
    Engine.grantHold a k c =
      ({ a with seq := a.seq + 1, ctr := ctrG a.ctr }, { k with holders := k.holders ++ [hold1 a c], locked := k.locked + 1 }) := rfl

theorem cmd_conn_self (c : Engine.Cmd) (n : Nat) (h : n = c.conn) : ({ c with conn := n } : Engine.Cmd) = c := by
  subst h; cases c; rfl

/-- the reply of the grant -/
theorem grant_out_r (w : W) (rid : Nat) (hh : w.k.hasRec rid) :
    (w.grant rid).out.map (·.r) = w.out.map (·.r) ++
      [Engine.mkReply { (w.k.getR rid).cmd with conn := (w.k.getR rid).conn } Engine.RESULT_SUCCED (w.k.locked + 1) 1] := by
  have hf := addLockF_fields w.db w.k
  obtain ⟨g0, _⟩ := keep_addLock w.k rid (addLockF w.db w.k) (fun r => (hf r).1) (fun r => (hf r).2.2.2.2.2.1) hh
  have g0' : ((w.addLock rid).modK incLocked).k.getR rid = addLockF w.db w.k (w.k.getR rid) := g0
  rw [grant_eq]
  unfold grantTail W.reply
  simp only [List.map_append, List.map_cons, List.map_nil]
  have ho : ((((grantMid ((w.addLock rid).modK incLocked) rid).addExpried rid).ref rid).ctr
      (fun c => { c with lockCount := c.lockCount + 1, lockedCount := c.lockedCount + 1 })).out = w.out := by
    rw [ctr_out, (FQ.ref _ rid).qt.out, (FQ.addExpried _ rid).qt.out]
    unfold grantMid
    rw [modR_out, procData_out, modK_out, (FQ.addLock w rid).qt.out]
  have hl : ((((grantMid ((w.addLock rid).modK incLocked) rid).addExpried rid).ref rid).ctr
      (fun c => { c with lockCount := c.lockCount + 1, lockedCount := c.lockedCount + 1 })).k.locked = w.k.locked + 1 := by
    have := grantTail_locked ((w.addLock rid).modK incLocked) rid
    unfold grantTail at this
    rw [reply_k] at this
    rw [this]
    show (w.addLock rid).k.locked + 1 = _
    rw [(FQ.addLock w rid).qt.locked]
  rw [ho, hl, g0', (hf _).2.2.2.2.2.2.1, (hf _).2.2.2.2.2.2.2.2]

theorem grantNoHold_db (w : W) (rid : Nat) :
    (w.grantNoHold rid).db.seq = w.db.seq ∧ (w.grantNoHold rid).db.eCheck = w.db.eCheck ∧ (w.grantNoHold rid).db.tCheck = w.db.tCheck ∧
    (w.grantNoHold rid).db.now = w.db.now ∧ (w.grantNoHold rid).db.ctr = w.db.ctr ∧ (w.grantNoHold rid).db.leader = w.db.leader := by
  unfold W.grantNoHold
  simp only []
  have h1 := procData_db w .lock (w.k.getR rid).cmd (frameOf (w.k.getR rid).cmd (w.k.getR rid).data) rid
  generalize w.procData .lock (w.k.getR rid).cmd (frameOf (w.k.getR rid).cmd (w.k.getR rid).data) rid = w1 at h1 ⊢
  show (w1.when _ _).db.seq = _ ∧ (w1.when _ _).db.eCheck = _ ∧ (w1.when _ _).db.tCheck = _ ∧ (w1.when _ _).db.now = _ ∧
    (w1.when _ _).db.ctr = _ ∧ (w1.when _ _).db.leader = _
  unfold W.when
  split
  · obtain ⟨a1, a2, a3, a4, a5, a6⟩ := pushLockAof_db w1 rid 0
    obtain ⟨b1, b2, b3, b4, b5, b6⟩ := h1
    exact ⟨a1.trans b1, a2.trans b2, a3.trans b3, a4.trans b4, a5.trans b5, a6.trans b6⟩
  · exact h1

theorem grantNoHold_locked (w : W) (rid : Nat) : (w.grantNoHold rid).k.locked = w.k.locked := by
  unfold W.grantNoHold
  simp only []
  rw [(FQ.modR _ rid _).qt.locked, (FQ.when _ _ (·.pushLockAof rid 0) (FQ.pushLockAof _ _ _)).qt.locked, procData_locked]

/-- **one iteration of the wake pass is stage 1's `wakeIter`** -/
theorem wakeOne_sim (w : W) (g : Good w) (cn : CurNone w.k) (rid : Nat) (e : WEnt) (rest : List WEnt) (hw : w.k.wait = e :: rest) (he : e.rid = rid)
    (hd : w.k.deadWaiter rid = false) (hnd : (w.k.wait.map (·.rid)).Nodup) (hnot : rid ∉ w.k.current.toList ++ w.k.locks)
    (hconn : (w.k.getR rid).conn = (w.k.getR rid).cmd.conn)
    (a : Engine.DB) (hs : Scal a w.db)
    (hdl : Engine.doLock (Key.abs w.k) (w.k.getR rid).cmd = true) :
    ∃ a' k' r', Engine.wakeIter a (Key.abs w.k) = some (a', k', r') ∧ Scal a' (w.wakeOne rid).db ∧ Key.abs (w.wakeOne rid).k = k' ∧
      (w.wakeOne rid).out.map (·.r) = w.out.map (·.r) ++ [r'] := by
  have l := g.lv
  have hh : w.k.hasRec rid := by
    apply l.rc.dang
    have := qRefs_pos_of_wait_mem w.k rid (by rw [hw, ← he]; simp)
    simp only [zero]; omega
  obtain ⟨hw1, habs⟩ := wakePre_abs w l rid e rest hw he hd hnd hnot
  obtain ⟨l2, g2, hcmd⟩ := wake_prep zero_nonneg l rid hh hd (fun c => { c with waitCount := c.waitCount - 1 })
  have l2' : Lv (wakePre w rid) zero := l2
  have g2' : Grantable (wakePre w rid).k rid := g2
  have hcmd' : ((wakePre w rid).k.getR rid).cmd = (w.k.getR rid).cmd := hcmd
  clear l2 g2 hcmd
  have sx := wakePre_sx w rid
  obtain ⟨q1, q2, q3⟩ := queues_eq sx.q
  have cn2 : CurNone (wakePre w rid).k := cn.of_cl q1 q2
  have hnot2 : rid ∉ (wakePre w rid).k.current.toList ++ (wakePre w rid).k.locks := by rw [q1, q2]; exact hnot
  obtain ⟨d1, d2, d3, d4, d5, d6⟩ := wakePre_db w rid
  -- conn of the record after the head of the wake-up
  have hconn2 : ((wakePre w rid).k.getR rid).conn = (w.k.getR rid).conn := by
    have p : PK (·.conn) (wakePre w rid) w := by
      unfold wakePre
      have p1 : PK (·.conn) (w.modR rid (fun r => { r with timeouted := true })) w := pk_modR w rid _ (by intro _; rfl) (by intro _; rfl)
      have p2 := pk_dropLongT (π := (·.conn)) ⟨fun _ _ => rfl, fun _ _ => rfl, fun _ _ => rfl, fun _ _ => rfl⟩
        (w.modR rid (fun r => { r with timeouted := true })) rid (fun _ _ => rfl)
      exact (PK.of_k (w := (w.modR rid (fun r => { r with timeouted := true })).dropLongT rid) rfl).trans (p2.trans p1)
    exact p.val rid g2'.has
  -- stage 1
  unfold Engine.wakeIter
  rw [hw1]
  simp only []
  have hdl' : Engine.doLock (Key.abs w.k) (waiterOf w.k rid).cmd = true := hdl
  rw [hdl']
  simp only [Bool.not_true, Bool.false_eq_true, if_false]
  have hexp : (waiterOf w.k rid).cmd.expried = ((wakePre w rid).k.getR rid).cmd.expried := by rw [hcmd']; rfl
  rw [wakeOne_eq]
  have hcc : ({ (waiterOf w.k rid).cmd with conn := (waiterOf w.k rid).conn } : Engine.Cmd) = (w.k.getR rid).cmd :=
    cmd_conn_self _ _ hconn
  by_cases hx : ((wakePre w rid).k.getR rid).cmd.expried > 0
  · have hx' : (waiterOf w.k rid).cmd.expried > 0 := by rw [hexp]; exact hx
    rw [if_pos hx, if_pos hx', grantHold_eq]
    simp only []
    obtain ⟨s1, s2, s3, s4, s5, s6⟩ := grant_scal (wakePre w rid) rid
    obtain ⟨_, hhold, _⟩ := grant_rec (wakePre w rid) rid g2'.has
    refine ⟨_, _, _, rfl, ?_, ?_, ?_⟩
    · exact ⟨by show a.now = _; rw [s4, d4]; exact hs.now, by show a.tCheck = _; rw [s3, d3]; exact hs.tCheck,
        by show a.eCheck = _; rw [s2, d2]; exact hs.eCheck, by show a.seq + 1 = _; rw [s1, d1, hs.seq],
        by show a.leader = _; rw [s5, d5]; exact hs.leader, by rw [s6, d6]; show _ = _; rw [hs.ctr]; rfl⟩
    · rw [grant_abs (wakePre w rid) l2' cn2 rid g2' hnot2, habs, hhold, hcc, hcmd', hconn2, d1, d2, d4, wakePre_locked, ← hs.seq, ← hs.eCheck, ← hs.now, hconn]
      rfl
    · rw [grant_out_r (wakePre w rid) rid g2'.has, hcmd', hconn2, wakePre_locked, hcc]
      have ho : (wakePre w rid).out = w.out := by
        unfold wakePre
        rw [ctr_out, (FQ.dropLongT _ rid).qt.out, modR_out]
      rw [ho, cmd_conn_self _ _ hconn]
      rfl
  · have hx' : ¬ (waiterOf w.k rid).cmd.expried > 0 := by rw [hexp]; exact hx
    rw [if_neg hx, if_neg hx']
    have sx2 : SX (· = rid) w (((wakePre w rid).grantNoHold rid).ctr (fun c => { c with lockCount := c.lockCount + 1 })) := (sx.grantNoHold rid).ctr _
    have sx0 : SX (fun _ => False) (wakePre w rid) (((wakePre w rid).grantNoHold rid).ctr (fun c => { c with lockCount := c.lockCount + 1 })) :=
      ((SX.refl (X := fun _ => False) (wakePre w rid)).grantNoHold rid).ctr _
    have l3 : Lv (((wakePre w rid).grantNoHold rid).ctr (fun c => { c with lockCount := c.lockCount + 1 })) zero := (l2'.grantNoHold rid).ctr _
    obtain ⟨n1, n2, n3, n4, n5, n6⟩ := grantNoHold_db (wakePre w rid) rid
    refine ⟨_, _, _, rfl, ?_, ?_, ?_⟩
    · exact ⟨by show a.now = ((wakePre w rid).grantNoHold rid).db.now; rw [n4, d4]; exact hs.now,
        by show a.tCheck = ((wakePre w rid).grantNoHold rid).db.tCheck; rw [n3, d3]; exact hs.tCheck,
        by show a.eCheck = ((wakePre w rid).grantNoHold rid).db.eCheck; rw [n2, d2]; exact hs.eCheck,
        by show a.seq = ((wakePre w rid).grantNoHold rid).db.seq; rw [n1, d1, hs.seq],
        by show a.leader = ((wakePre w rid).grantNoHold rid).db.leader; rw [n6, d5]; exact hs.leader, by
          show _ = ({ ((wakePre w rid).grantNoHold rid).db.ctr with lockCount := ((wakePre w rid).grantNoHold rid).db.ctr.lockCount + 1 } : Engine.Counters)
          rw [n5, d6, hs.ctr]⟩
    · show Key.abs (((wakePre w rid).grantNoHold rid).ctr (fun c => { c with lockCount := c.lockCount + 1 })).k = _
      rw [← habs]
      refine abs_eq_of sx0.key (grantNoHold_locked _ rid) sx0.waited sx0.q ⟨fun y h => sx0.p.sub y id h, fun y h => sx0.p.val y id h⟩ ?_
      intro x hx
      apply l3.rc.dang
      have : 0 < (((wakePre w rid).grantNoHold rid).ctr (fun c => { c with lockCount := c.lockCount + 1 })).k.qRefs x := by
        rcases List.mem_append.mp hx with h | h
        · exact qRefs_pos_of_holder _ _ h
        · exact qRefs_pos_of_wait_mem _ _ h
      show 0 < ((((wakePre w rid).grantNoHold rid).ctr (fun c => { c with lockCount := c.lockCount + 1 })).k.qRefs x : Int) + 0
      omega
    · unfold W.reply
      simp only [List.map_append, List.map_cons, List.map_nil]
      have ho : (((wakePre w rid).grantNoHold rid).ctr (fun c => { c with lockCount := c.lockCount + 1 })).out = w.out := by
        rw [ctr_out, grantNoHold_qt_out]
        unfold wakePre
        rw [ctr_out, (FQ.dropLongT _ rid).qt.out, modR_out]
      have hl : (((wakePre w rid).grantNoHold rid).ctr (fun c => { c with lockCount := c.lockCount + 1 })).k.locked = w.k.locked := by
        show ((wakePre w rid).grantNoHold rid).k.locked = _
        rw [grantNoHold_locked, wakePre_locked]
      rw [ho, hl, hcmd', hconn2, hcc, cmd_conn_self _ _ hconn]
      rfl

end Slock.Sim
