import Slock.Proofs.Engine2SimRel
/-! Simulation stage 2 → stage 1: `SC w w'` — a helper step that leaves the six scalar fields stage 1 shares with stage 2 alone (clock, the
two wheel positions, sequence number, role, counters), the `gone` flag and the reply list. -/
namespace Slock.Sim
open Slock Slock.Engine2
open Slock.Engine (has)

structure SC (w w' : W) : Prop where
  seq : w'.db.seq = w.db.seq
  eCheck : w'.db.eCheck = w.db.eCheck
  tCheck : w'.db.tCheck = w.db.tCheck
  now : w'.db.now = w.db.now
  ctr : w'.db.ctr = w.db.ctr
  leader : w'.db.leader = w.db.leader
  gone : w'.gone = w.gone
  out : w'.out = w.out

namespace SC
theorem refl (w : W) : SC w w := ⟨rfl, rfl, rfl, rfl, rfl, rfl, rfl, rfl⟩
theorem trans {a b c : W} (h1 : SC a b) (h2 : SC b c) : SC a c :=
  ⟨h2.seq.trans h1.seq, h2.eCheck.trans h1.eCheck, h2.tCheck.trans h1.tCheck, h2.now.trans h1.now, h2.ctr.trans h1.ctr,
   h2.leader.trans h1.leader, h2.gone.trans h1.gone, h2.out.trans h1.out⟩
theorem of_db {w w' : W} (h1 : w'.db = w.db) (h2 : w'.gone = w.gone) (h3 : w'.out = w.out) : SC w w' := by
  refine ⟨?_, ?_, ?_, ?_, ?_, ?_, h2, h3⟩ <;> rw [h1]
theorem modR (w : W) (rid : Nat) (f : Rec → Rec) : SC w (w.modR rid f) := of_db rfl rfl rfl
theorem modK (w : W) (f : Key → Key) : SC w (w.modK f) := of_db rfl rfl rfl
theorem when (w : W) (b : Bool) (f : W → W) (h : SC w (f w)) : SC w (w.when b f) := by
  cases b
  · exact refl w
  · exact h
theorem procData (w : W) (t : Slock.Value.CmdType) (c : Engine.Cmd) (f : Option Bytes) (rid : Nat) : SC w (w.procData t c f rid) := by
  obtain ⟨a1, a2, a3, a4, a5, a6⟩ := procData_db w t c f rid
  exact ⟨a1, a2, a3, a4, a5, a6, gone_procData w t c f rid, procData_out w t c f rid⟩
theorem pushLockAof (w : W) (rid flag : Nat) : SC w (w.pushLockAof rid flag) := by
  obtain ⟨a1, a2, a3, a4, a5, a6⟩ := pushLockAof_db w rid flag
  exact ⟨a1, a2, a3, a4, a5, a6, gone_pushLockAof w rid flag, (FQ.pushLockAof w rid flag).qt.out⟩
theorem pushUnLockAof (w : W) (rid : Nat) (lc : Engine.Cmd) (fa ia : Bool) (flag : Nat) : SC w (w.pushUnLockAof rid lc fa ia flag) := by
  unfold W.pushUnLockAof
  split
  · exact refl w
  · split
    · exact ⟨rfl, rfl, rfl, rfl, rfl, rfl, rfl, rfl⟩
    · exact ⟨rfl, rfl, rfl, rfl, rfl, rfl, rfl, rfl⟩
theorem journalLock (w : W) (rid flag : Nat) : SC w (w.journalLock rid flag) := when _ _ _ (pushLockAof _ _ _)
theorem journalUnlock (w : W) (rid : Nat) (fa ia : Bool) (flag : Nat) : SC w (w.journalUnlock rid fa ia flag) := when _ _ _ (pushUnLockAof _ _ _ _ _ _)
theorem removeLongT (w : W) (rid : Nat) : SC w (w.removeLongT rid) := modK _ _
theorem removeLongE (w : W) (rid : Nat) : SC w (w.removeLongE rid) := modK _ _
theorem dropLongT (w : W) (rid : Nat) : SC w (w.dropLongT rid) := when _ _ _ (removeLongT _ _)
theorem dropLongE (w : W) (rid : Nat) : SC w (w.dropLongE rid) := when _ _ _ (removeLongE _ _)
theorem ref (w : W) (rid : Nat) : SC w (w.ref rid) := modR _ _ _

theorem scal {w w' : W} {a : Engine.DB} (h : SC w w') (s : Scal a w.db) : Scal a w'.db :=
  ⟨s.now.trans h.now.symm, s.tCheck.trans h.tCheck.symm, s.eCheck.trans h.eCheck.symm, s.seq.trans h.seq.symm, s.leader.trans h.leader.symm,
   s.ctr.trans h.ctr.symm⟩
end SC

end Slock.Sim
