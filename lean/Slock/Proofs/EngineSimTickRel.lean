import Slock.Proofs.Engine2SimQueue
import Slock.Proofs.Engine2SimInvRun
/-! Clock-tick simulation (`sim_tick`), record-level side, generic pieces: the working state of a sweep step on one key record against
stage 1 (`Sim.Rel`), the sweeper dropping its reference to a tombstoned record (`dropT` / `dropE`: a stuttering step — the record may
be freed and the key record reclaimed), storing the key record back. -/
namespace Slock.SimTick
open Slock Slock.Sim Slock.Engine2
open Slock.Engine (has)

/-- same queues, every other record reads the same, and record `rid` is not seen by stage 1 differently: its depth and (if it is a hold)
its hold view, its tombstone flag and (if it is a live request) its waiter view are unchanged -/
theorem abs_eq_hidden {k' k : Key} (rid : Nat) (h1 : k'.key = k.key) (h2 : k'.locked = k.locked) (h3 : k'.waited = k.waited)
    (q : k'.queues = k.queues) (p : PKeepX πA (· = rid) k' k)
    (hrec : ∀ y ∈ k.current.toList ++ k.locks ++ k.wait.map (·.rid), y ≠ rid → k'.hasRec y)
    (hd : (k'.getR rid).depth = (k.getR rid).depth) (hH : 0 < (k.getR rid).depth → (k'.getR rid).toHold = (k.getR rid).toHold)
    (ht : (k'.getR rid).timeouted = (k.getR rid).timeouted)
    (hW : (k.getR rid).timeouted = false → (k'.getR rid).toWaiter = (k.getR rid).toWaiter) : Key.abs k' = Key.abs k := by
  obtain ⟨q1, q2, q3⟩ := queues_eq q
  refine abs_ext h1 h2 ?_ ?_ h3
  · rw [abs_holders, abs_holders, q1, q2]
    apply filter_map_congr_on
    intro y hy
    by_cases e : y = rid
    · subst e
      unfold Key.liveHolder
      rw [hd]
      refine ⟨rfl, fun hl => ?_⟩
      exact hH (by simpa using hl)
    · have hv := p.val y e (hrec y (List.mem_append_left _ hy) e)
      unfold Key.liveHolder
      have e1 : (k'.getR y).depth = (k.getR y).depth := congrArg (fun t => t.1.depth) hv
      rw [e1]
      exact ⟨rfl, fun _ => congrArg (fun t => t.1) hv⟩
  · rw [abs_waiters, abs_waiters, q3]
    apply filter_map_congr_on
    intro y hy
    by_cases e : y = rid
    · subst e
      unfold Key.deadWaiter
      rw [ht]
      refine ⟨rfl, fun hl => ?_⟩
      exact hW (by simpa using hl)
    · have hv := p.val y e (hrec y (List.mem_append_right _ hy) e)
      unfold Key.deadWaiter
      have e1 : (k'.getR y).timeouted = (k.getR y).timeouted := congrArg (fun t => t.2.2) hv
      rw [e1]
      exact ⟨rfl, fun _ => congrArg (fun t => t.2.1) hv⟩

/-- the working state of a sweep step when the key record is opened -/
theorem rel_open (s : DB) (hq : DBQ s) (key : Nat) (hk : KI s.seq (s.getKey key)) (ki : Engine.KeyInv (Key.abs (s.getKey key))) :
    Rel (s.openKey key) (Engine2.abs s) (Key.abs (s.getKey key)) [] := by
  cases hh : s.hasKey key with
  | true =>
    have hg : (s.openKey key).gone = false := by simp [DB.openKey, hh]
    exact Rel.of_live hg (scal_openKey s key) rfl ki
      ⟨Good.openKey hq.dbt.dbi hq.dbt.tight key, cur_openKey hq.dbt.tight key, (qi_getKey hq.qi key).cn, hk.wq, rfl⟩
  | false =>
    have hg : (s.openKey key).gone = true := by simp [DB.openKey, hh]
    refine ⟨scal_openKey s key, rfl, rfl, rfl, ki, fun h => by rw [hg] at h; exact absurd h (by simp), fun _ => ?_⟩
    rw [getKey_of_not_hasKey s key hh]; exact abs_isEmpty_newKey key

/-- a step that only edits the key record of a linked working state -/
theorem rel_stepK {w w' : W} {a : Engine.DB} {k1 : Engine.Key} {out1 : List Engine.Reply} (h : Rel w a k1 out1) (hg : w.gone = false)
    (hdb : w'.db = w.db) (hgo : w'.gone = w.gone) (hout : w'.out = w.out) (l : Live w' k1) : Rel w' a k1 out1 :=
  Rel.of_live (hgo.trans hg) (by rw [hdb]; exact h.sc) (by rw [hout]; exact h.out) h.ki l

theorem dropT_eq (w : W) (rid : Nat) :
    w.dropT rid = ((w.modR rid (fun r => { r with tSched := none })).modK (·.unrefOnly rid)).when
      ((((w.modR rid (fun r => { r with tSched := none })).modK (·.unrefOnly rid)).k.getR rid).refCount == 0) (·.freeCheck rid) := rfl

theorem dropE_eq (w : W) (rid : Nat) :
    w.dropE rid = ((w.modR rid (fun r => { r with eSched := none })).modK (·.unrefOnly rid)).when
      ((((w.modR rid (fun r => { r with eSched := none })).modK (·.unrefOnly rid)).k.getR rid).refCount == 0) (·.freeCheck rid) := rfl

/-- the common part of `dropT` / `dropE`: the record's wheel entry is cleared by `f` (one reference less), `refCount--`, freed at 0,
reclaim check — given that stage 1 does not see the edit -/
theorem Rel.dropGen {w : W} {a : Engine.DB} {k1 : Engine.Key} {out1 : List Engine.Reply} (h : Rel w a k1 out1)
    (hfl : k1.waited = true → k1.waiters ≠ []) (rid : Nat) (f : Rec → Rec) (hf : ∀ r, (f r).rid = r.rid) (hrc : ∀ r, (f r).refCount = r.refCount)
    (hwh : w.gone = false → ((f (w.k.getR rid)).wheelRefs : Int) = (w.k.getR rid).wheelRefs + (-1))
    (hh : w.gone = false → w.k.hasRec rid)
    (hok : ∀ r ∈ w.k.recs, r.rid = rid → RecOk r → RecOk (f r))
    (hdep : ∀ r, (f r).depth = r.depth) (hto : ∀ r, (f r).timeouted = r.timeouted)
    (hfine : w.gone = false → RecFine (w.k.getR rid) → 1 ≤ (f (w.k.getR rid)).refCount - 1 → RecFine { f (w.k.getR rid) with refCount := decU8 (f (w.k.getR rid)).refCount })
    (hH : w.gone = false → 0 < (w.k.getR rid).depth → (f (w.k.getR rid)).toHold = (w.k.getR rid).toHold)
    (hW : w.gone = false → (w.k.getR rid).timeouted = false → (f (w.k.getR rid)).toWaiter = (w.k.getR rid).toWaiter)
    (hdw : w.gone = false → w.k.deadWaiter rid = true) :
    Rel (((w.modR rid f).modK (·.unrefOnly rid)).when ((((w.modR rid f).modK (·.unrefOnly rid)).k.getR rid).refCount == 0) (·.freeCheck rid)) a k1 out1 := by
  cases hg : w.gone with
  | true =>
    -- a reclaimed key record: nothing stage 1 sees changes
    have hgone : ∀ b, (((w.modR rid f).modK (·.unrefOnly rid)).when b (·.freeCheck rid)).gone = true := by
      intro b
      cases b
      · exact hg
      · show (((w.modR rid f).modK (·.unrefOnly rid)).freeCheck rid).gone = true
        exact (Fr.freeCheck _ _).gone hg
    have hdb : ∀ b, Scal a (((w.modR rid f).modK (·.unrefOnly rid)).when b (·.freeCheck rid)).db := by
      intro b
      cases b
      · exact h.sc
      · show Scal a (((w.modR rid f).modK (·.unrefOnly rid)).modK (·.free rid)).removeIfZero.db
        obtain ⟨r1, r2, r3, r4, r5, r6⟩ := removeIfZero_fields (((w.modR rid f).modK (·.unrefOnly rid)).modK (·.free rid))
        exact ⟨h.sc.now.trans r1.symm, h.sc.tCheck.trans r3.symm, h.sc.eCheck.trans r4.symm, h.sc.seq.trans r5.symm, h.sc.leader.trans r2.symm,
          h.sc.ctr.trans r6.symm⟩
    have hout : ∀ b, (((w.modR rid f).modK (·.unrefOnly rid)).when b (·.freeCheck rid)).out = w.out := by
      intro b
      cases b
      · rfl
      · show (((w.modR rid f).modK (·.unrefOnly rid)).freeCheck rid).out = w.out
        rw [freeCheck_out]; rfl
    have hlk : ∀ b, (((w.modR rid f).modK (·.unrefOnly rid)).when b (·.freeCheck rid)).k.locked = w.k.locked := by
      intro b
      cases b
      · rfl
      · show (((w.modR rid f).modK (·.unrefOnly rid)).modK (·.free rid)).removeIfZero.k.locked = w.k.locked
        rw [removeIfZero_locked]
        exact free_locked _ _
    have hwd : ∀ b, (((w.modR rid f).modK (·.unrefOnly rid)).when b (·.freeCheck rid)).k.waited = w.k.waited := by
      intro b
      cases b
      · rfl
      · show (((w.modR rid f).modK (·.unrefOnly rid)).modK (·.free rid)).removeIfZero.k.waited = w.k.waited
        have : (((w.modR rid f).modK (·.unrefOnly rid)).modK (·.free rid)).removeIfZero.k.waited = (((w.modR rid f).modK (·.unrefOnly rid)).modK (·.free rid)).k.waited := by
          unfold W.removeIfZero; split <;> rfl
        rw [this]
        exact (free_queues _ _).2.2.2.1
    exact ⟨hdb _, by rw [hout]; exact h.out, by rw [hlk]; exact h.lk, by rw [hwd]; exact h.wd, h.ki,
      fun hf' => by rw [hgone] at hf'; exact absurd hf' (by simp), fun _ => h.dead hg⟩
  | false =>
    have l := h.live hg
    have g := l.good
    have hh0 := hh hg
    have hfine0 : RecFine (w.k.getR rid) := g.nz.nz _ (getR_mem hh0) (by simp)
    -- the edit
    have l1 : Lv (w.modR rid f) (fun y => zero y - (-1) * delta rid y) :=
      g.lv.wheel rid f hf hrc (-1) (hwh hg) hh0 (fun r hr e => hok r hr e (g.lv.side.ok r hr))
    have hh1 : (w.modR rid f).k.hasRec rid := (hasRec_modR w rid rid f hf).mpr hh0
    have g1 : (w.modR rid f).k.getR rid = f (w.k.getR rid) := getR_modRec_same _ _ _ hf hh0
    have n1 : Nz (w.modR rid f) (some rid) := (g.nz.weaken (some rid)).modR_ex rid f hf
    -- `refCount--`
    have hpos1 : 0 < ((w.modR rid f).k.qRefs rid : Int) + ((w.modR rid f).k.getR rid).wheelRefs + (zero rid - (-1) * delta rid rid) := by
      simp only [zero, delta, if_true]; omega
    have l2 : Lv ((w.modR rid f).modK (·.unrefOnly rid)) zero :=
      (l1.modK _ (l1.rc.unrefOnly rid hh1 hpos1) (RecsLe.unrefOnly _ _)).congr (fun y => by simp only [zero, delta]; split <;> omega)
    have n2 : Nz ((w.modR rid f).modK (·.unrefOnly rid)) (some rid) := n1.modR_ex rid _ (fun _ => rfl)
    have hh2 : ((w.modR rid f).modK (·.unrefOnly rid)).k.hasRec rid := by
      show ((w.modR rid f).k.unrefOnly rid).hasRec rid
      unfold Key.unrefOnly; rw [hasRec_modRec _ _ _ _ (by intro _; rfl)]; exact hh1
    have g2 : ((w.modR rid f).modK (·.unrefOnly rid)).k.getR rid = { f (w.k.getR rid) with refCount := decU8 (f (w.k.getR rid)).refCount } := by
      show ((w.modR rid f).k.unrefOnly rid).getR rid = _
      unfold Key.unrefOnly
      rw [getR_modRec_same _ _ _ (by intro _; rfl) hh1, g1]
    have dk2 : DK ((w.modR rid f).modK (·.unrefOnly rid)) w :=
      DK.trans (b := w.modR rid f) (dk_modK _ _ (DepthKeep.modRec _ rid _ (fun _ => rfl) (fun _ => rfl))) (dk_modR w rid f hf hdep)
    have c2 : CurLive ((w.modR rid f).modK (·.unrefOnly rid)).k := l.cl.of_dk dk2 l2
    have cn2 : CurNone ((w.modR rid f).modK (·.unrefOnly rid)).k := l.cn.of_cl rfl rfl
    have px2 : PKeepX πA (· = rid) ((w.modR rid f).modK (·.unrefOnly rid)).k w.k := by
      show PKeepX πA (· = rid) ((w.k.modRec rid f).unrefOnly rid) w.k
      unfold Key.unrefOnly
      exact (PKeepX.modRec (X := (· = rid)) (w.k.modRec rid f) rid (fun r => { r with refCount := decU8 r.refCount }) (fun _ => rfl) rfl).trans
        (PKeepX.modRec w.k rid f hf rfl)
    have hrecs2 : ∀ y ∈ w.k.current.toList ++ w.k.locks ++ w.k.wait.map (·.rid), ((w.modR rid f).modK (·.unrefOnly rid)).k.hasRec y := by
      intro y hy
      apply l2.rc.dang
      have := qRefs_pos_of_any w.k y hy
      show 0 < (((w.modR rid f).modK (·.unrefOnly rid)).k.qRefs y : Int) + 0
      have e : ((w.modR rid f).modK (·.unrefOnly rid)).k.qRefs y = w.k.qRefs y := rfl
      omega
    have hdead2 : ((w.modR rid f).modK (·.unrefOnly rid)).k.deadWaiter rid = true := by
      unfold Key.deadWaiter; rw [g2]; show (f (w.k.getR rid)).timeouted = true
      rw [hto]; exact hdw hg
    have wq2 : WQ ((w.modR rid f).modK (·.unrefOnly rid)).k :=
      WQ.step (k := w.k) l.wq rid rfl px2 (fun x hx => hrecs2 x.rid (List.mem_append_right _ (List.mem_map.mpr ⟨x, hx, rfl⟩)))
        (fun _ _ _ => hdead2) (fun y hy => Or.inl hy)
    have habs2 : Key.abs ((w.modR rid f).modK (·.unrefOnly rid)).k = Key.abs w.k := by
      refine abs_eq_hidden rid rfl rfl rfl rfl px2 (fun y hy _ => hrecs2 y hy) ?_ ?_ ?_ ?_
      · rw [g2]; exact hdep _
      · intro hd; rw [g2]; exact hH hg hd
      · rw [g2]; exact hto _
      · intro ht; rw [g2]; exact hW hg ht
    cases hz : ((((w.modR rid f).modK (·.unrefOnly rid)).k.getR rid).refCount == 0) with
    | false =>
      show Rel ((w.modR rid f).modK (·.unrefOnly rid)) a k1 out1
      have hnz : (((w.modR rid f).modK (·.unrefOnly rid)).k.getR rid).refCount ≠ 0 := by simpa using hz
      have n2' : Nz ((w.modR rid f).modK (·.unrefOnly rid)) none := by
        refine n2.clear rid (fun _ => ?_)
        rw [g2]
        refine hfine hg hfine0 ?_
        rw [g2] at hnz
        have hp := hfine0.pos
        rw [← hrc] at hp
        simp only [decU8] at hnz
        split at hnz
        · rename_i h0; omega
        · omega
      exact rel_stepK h hg rfl rfl rfl ⟨⟨l2, n2'⟩, c2, cn2, wq2, habs2.trans l.abs⟩
    | true =>
      show Rel (((w.modR rid f).modK (·.unrefOnly rid)).modK (·.free rid)).removeIfZero a k1 out1
      have hz0 : (((w.modR rid f).modK (·.unrefOnly rid)).k.getR rid).refCount = 0 := by simpa using hz
      have hq0 : (((w.modR rid f).modK (·.unrefOnly rid)).k.qRefs rid : Int) + zero rid ≤ 0 := by
        have := l2.rc.refCount_of hh2
        rw [hz0] at this
        simp only [zero] at this ⊢
        omega
      have l3 : Lv (((w.modR rid f).modK (·.unrefOnly rid)).modK (·.free rid)) zero := l2.modK _ (l2.rc.free rid hq0) (RecsLe.free _ _)
      have n3 : Nz (((w.modR rid f).modK (·.unrefOnly rid)).modK (·.free rid)) none := ⟨n2.nd.free rid, NZx.free_clear rid n2.nz⟩
      have c3 : CurLive (((w.modR rid f).modK (·.unrefOnly rid)).modK (·.free rid)).k := c2.of_dk (dk_modK _ _ (DepthKeep.free _ _)) l3
      obtain ⟨f1, f2, f3, f4, _⟩ := free_queues ((w.modR rid f).modK (·.unrefOnly rid)).k rid
      have hq3 : (((w.modR rid f).modK (·.unrefOnly rid)).modK (·.free rid)).k.queues = ((w.modR rid f).modK (·.unrefOnly rid)).k.queues := queues_mk f3 f1 f2
      have hrecs3 : ∀ y ∈ ((w.modR rid f).modK (·.unrefOnly rid)).k.current.toList ++ ((w.modR rid f).modK (·.unrefOnly rid)).k.locks ++
          ((w.modR rid f).modK (·.unrefOnly rid)).k.wait.map (·.rid), (((w.modR rid f).modK (·.unrefOnly rid)).modK (·.free rid)).k.hasRec y := by
        intro y hy
        apply l3.rc.dang
        have := qRefs_pos_of_any _ y hy
        have h0 := qRefs_of_queues hq3 y
        show 0 < ((((w.modR rid f).modK (·.unrefOnly rid)).modK (·.free rid)).k.qRefs y : Int) + 0
        omega
      have hnotq : ∀ y ∈ ((w.modR rid f).modK (·.unrefOnly rid)).k.current.toList ++ ((w.modR rid f).modK (·.unrefOnly rid)).k.locks ++
          ((w.modR rid f).modK (·.unrefOnly rid)).k.wait.map (·.rid), ¬ y = rid := by
        intro y hy e
        have := qRefs_pos_of_any _ y hy
        rw [e] at this
        simp only [zero, Int.add_zero] at hq0
        omega
      have habs3 : Key.abs (((w.modR rid f).modK (·.unrefOnly rid)).modK (·.free rid)).k = Key.abs ((w.modR rid f).modK (·.unrefOnly rid)).k := by
        refine abs_eq_x (X := (· = rid)) ?_ (free_locked _ _) f4 hq3 (PKeepX.of_pk (PKeep.free _ _)) hnotq hrecs3
        show (((w.modR rid f).modK (·.unrefOnly rid)).k.free rid).key = ((w.modR rid f).modK (·.unrefOnly rid)).k.key
        unfold Key.free; split <;> rfl
      have wq3 : WQ (((w.modR rid f).modK (·.unrefOnly rid)).modK (·.free rid)).k := by
        refine WQ.step (k := ((w.modR rid f).modK (·.unrefOnly rid)).k) wq2 rid f2 (PKeepX.of_pk (PKeep.free _ _))
          (fun x hx => hrecs3 x.rid (List.mem_append_right _ (List.mem_map.mpr ⟨x, by rw [← f2]; exact hx, rfl⟩))) ?_ (fun y hy => Or.inl (by rw [← f3, ← f1]; exact hy))
        intro x hx hxe
        exfalso
        exact hnotq x.rid (List.mem_append_right _ (List.mem_map.mpr ⟨x, by rw [← f2]; exact hx, rfl⟩)) hxe
      have rel3 : Rel (((w.modR rid f).modK (·.unrefOnly rid)).modK (·.free rid)) a k1 out1 :=
        rel_stepK h hg rfl rfl rfl ⟨⟨l3, n3⟩, c3, cn2.of_cl f3 f1, wq3, habs3.trans (habs2.trans l.abs)⟩
      exact rel3.removeIfZero hfl

/-- **the sweeper drops its reference to a record that is not a live queued request any more** (`dropT`): nothing stage 1 sees changes -/
theorem rel_dropT {w : W} {a : Engine.DB} {k1 : Engine.Key} {out1 : List Engine.Reply} (h : Rel w a k1 out1)
    (hfl : k1.waited = true → k1.waiters ≠ []) (rid : Nat)
    (hs : w.gone = false → w.k.hasRec rid ∧ (w.k.getR rid).tSched.isSome = true ∧ (w.k.getR rid).timeouted = true) :
    Rel (w.dropT rid) a k1 out1 := by
  rw [dropT_eq]
  refine Rel.dropGen h hfl rid (fun r => { r with tSched := none }) (fun _ => rfl) (fun _ => rfl) ?_ (fun hg => (hs hg).1) (fun _ _ _ h => h)
    (fun _ => rfl) (fun _ => rfl) ?_ (fun _ _ => rfl) ?_ (fun hg => (hs hg).2.2)
  · intro hg
    rw [wheelRefs_tNone, (hs hg).2.1]; simp; omega
  · intro _ hf hp
    refine ⟨?_, hf.hold, hf.ended, hf.fin⟩
    show 1 ≤ decU8 (w.k.getR rid).refCount
    have hp' : 1 ≤ (w.k.getR rid).refCount - 1 := hp
    unfold decU8; split <;> omega
  · intro hg ht
    rw [(hs hg).2.2] at ht; exact absurd ht (by simp)

/-- **the sweeper drops its reference to a record whose hold has ended** (`dropE`) -/
theorem rel_dropE {w : W} {a : Engine.DB} {k1 : Engine.Key} {out1 : List Engine.Reply} (h : Rel w a k1 out1)
    (hfl : k1.waited = true → k1.waiters ≠ []) (rid : Nat)
    (hs : w.gone = false → w.k.hasRec rid ∧ (w.k.getR rid).eSched.isSome = true ∧ (w.k.getR rid).depth = 0) :
    Rel (w.dropE rid) a k1 out1 := by
  rw [dropE_eq]
  refine Rel.dropGen h hfl rid (fun r => { r with eSched := none }) (fun _ => rfl) (fun _ => rfl) ?_ (fun hg => (hs hg).1) (fun _ _ _ _ _ => rfl)
    (fun _ => rfl) (fun _ => rfl) ?_ ?_ (fun _ _ => rfl) ?_
  · intro hg
    rw [wheelRefs_eNone, (hs hg).2.1]; simp; omega
  · intro hg hf hp
    refine ⟨?_, ?_, hf.ended, ?_⟩
    · show 1 ≤ decU8 (w.k.getR rid).refCount
      have hp' : 1 ≤ (w.k.getR rid).refCount - 1 := hp
      unfold decU8; split <;> omega
    · intro hd
      have hd' : 0 < (w.k.getR rid).depth := hd
      rw [(hs hg).2.2] at hd'; exact absurd hd' (by simp)
    · intro _ he
      have he' : (none : Option Sched).isSome = true := he
      exact absurd he' (by simp)
  · intro hg hd
    rw [(hs hg).2.2] at hd; exact absurd hd (by simp)
  · intro hg
    have l := h.live hg
    have hok := l.good.lv.side.ok _ (getR_mem (hs hg).1)
    unfold Key.deadWaiter
    cases ht : (w.k.getR rid).timeouted with
    | true => rfl
    | false => have := hok ht; rw [(hs hg).2.1] at this; exact absurd this (by simp)

/-- **storing the key record back** after a sweep step on the key record `key` of `s` -/
theorem rel_commit (s : DB) (hq : DBQ s) (key : Nat) (w : W) (f : Fr (s.openKey key) w) {a1 : Engine.DB} {k1 : Engine.Key} {out1 : List Engine.Reply}
    (h : Rel w a1 k1 out1) (hkeys : ∀ n, a1.getKey n = (Engine2.abs s).getKey n) (hk1 : k1.key = key) :
    Equiv (Engine2.abs w.commit) (a1.setKey k1) := by
  have hdbi := hq.dbt.dbi
  have hs := (hdbi.openKey key).of_fr f
  have hkn' := (DBI.commit hs (fun hg => (h.live hg).good.lv.toKeyOK)).kn
  exact sim_commit s key _ _ f (getKey_key _ _) (fun _ _ => rfl) hs hdbi.kn hkn' a1 k1 hk1 hkeys h.sc.now h.sc.tCheck h.sc.eCheck
    h.sc.seq h.sc.leader h.sc.ctr h.loc

/-- a stuttering sweep step: stage 1's view is unchanged -/
theorem rel_commit_same (s : DB) (hq : DBQ s) (key : Nat) (w : W) (f : Fr (s.openKey key) w) {out1 : List Engine.Reply}
    (h : Rel w (Engine2.abs s) (Key.abs (s.getKey key)) out1) : Equiv (Engine2.abs w.commit) (Engine2.abs s) := by
  have e1 := rel_commit s hq key w f h (fun _ => rfl) (getKey_key _ _)
  have e2 := Equiv.setKey_self (Engine2.abs s) key
  rw [abs_getKey s hq.dbt.dbi.kn key] at e2
  exact e1.trans e2

end Slock.SimTick
