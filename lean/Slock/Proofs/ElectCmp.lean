import Slock.Model.Elect
/-!
Facts about `compareAofId`, the candidate selection of `DoVote` and the two acceptor handlers (no state machine yet).
-/
namespace Slock.Elect

/-! ### CompareAofId -/

theorem compareAofId_refl (a : AofId) : compareAofId a a = 0 := by
  simp [compareAofId]

theorem compareAofId_ne_zero {a b : AofId} (h : a ≠ b) : compareAofId a b = 1 ∨ compareAofId a b = -1 := by
  unfold compareAofId
  simp only [h, if_false]
  split
  · split <;> simp
  · split
    · split <;> simp
    · split <;> simp

theorem compareAofId_eq_zero_iff (a b : AofId) : compareAofId a b = 0 ↔ a = b := by
  constructor
  · intro h
    by_cases hab : a = b
    · exact hab
    · rcases compareAofId_ne_zero hab with h1 | h1 <;> rw [h1] at h <;> simp at h
  · intro h; rw [h]; exact compareAofId_refl b

theorem AofId.eq_of_fields {a b : AofId} (h1 : a.index = b.index) (h2 : a.offset = b.offset) (h3 : a.time = b.time) : a = b := by
  cases a; cases b; simp_all

/-- decoded ids with the same `aid` have the same index and offset -/
theorem aid_inj {a b : AofId} (ha : a.WF) (hb : b.WF) (h : a.aid = b.aid) : a.index = b.index ∧ a.offset = b.offset := by
  unfold AofId.aid at h
  unfold AofId.WF at ha hb
  omega

/-- antisymmetry on decoded ids: swapping the arguments flips the sign -/
theorem compareAofId_antisymm {a b : AofId} (ha : a.WF) (hb : b.WF) : compareAofId a b = - compareAofId b a := by
  by_cases hab : a = b
  · rw [hab, compareAofId_refl]; rfl
  · have hba : b ≠ a := fun h => hab h.symm
    unfold compareAofId
    simp only [hab, hba, if_false]
    by_cases h1 : a.aid > b.aid
    · have h2 : ¬ b.aid > a.aid := by omega
      have h3 : b.aid < a.aid := h1
      simp only [h1, h2, if_true, if_false]
      split <;> simp
    · by_cases h2 : a.aid < b.aid
      · have h3 : b.aid > a.aid := h2
        simp only [h1, h2, if_true, if_false]
        split <;> simp
      · have h3 : ¬ b.aid > a.aid := by omega
        have h4 : ¬ b.aid < a.aid := by omega
        simp only [h1, h2, if_false]
        have he : a.aid = b.aid := by omega
        obtain ⟨hi, ho⟩ := aid_inj ha hb he
        have ht : a.time ≠ b.time := fun ht => hab (AofId.eq_of_fields hi ho ht)
        by_cases h5 : a.time > b.time
        · have h6 : ¬ b.time > a.time := by omega
          simp [h5, h6]
        · have h6 : b.time > a.time := by omega
          simp [h5, h6]

/-- both positions lie within one comparison window of each other -/
def InWindow (a b : AofId) : Prop := a.aid < b.aid + WINDOW ∧ b.aid < a.aid + WINDOW

instance (a b : AofId) : Decidable (InWindow a b) := by unfold InWindow; exact inferInstance

instance (a : AofId) : Decidable a.WF := by unfold AofId.WF; exact inferInstance

/-- (aid, time) lexicographically greater -/
def LexGt (a b : AofId) : Prop := a.aid > b.aid ∨ (a.aid = b.aid ∧ a.time > b.time)

/-- inside one window `CompareAofId` is the lexicographic order on (position, time) -/
theorem compareAofId_pos_iff {a b : AofId} (hw : InWindow a b) : compareAofId a b > 0 ↔ LexGt a b := by
  unfold InWindow at hw
  unfold LexGt
  by_cases hab : a = b
  · subst hab; rw [compareAofId_refl]; simp
  · unfold compareAofId
    rw [if_neg hab]
    by_cases h1 : a.aid > b.aid
    · have h2 : ¬ a.aid - b.aid ≥ WINDOW := by omega
      rw [if_pos h1, if_neg h2]
      constructor
      · intro _; exact Or.inl h1
      · intro _; decide
    · rw [if_neg h1]
      by_cases h2 : a.aid < b.aid
      · have h3 : ¬ b.aid - a.aid ≥ WINDOW := by omega
        rw [if_pos h2, if_neg h3]
        constructor
        · intro h; exact absurd h (by decide)
        · intro h; rcases h with h | ⟨h, _⟩ <;> omega
      · rw [if_neg h2]
        by_cases h5 : a.time > b.time
        · rw [if_pos h5]
          constructor
          · intro _; exact Or.inr ⟨by omega, h5⟩
          · intro _; decide
        · rw [if_neg h5]
          constructor
          · intro h; exact absurd h (by decide)
          · intro h; rcases h with h | ⟨_, h⟩ <;> omega

theorem LexGt_trans {a b c : AofId} (h1 : LexGt a b) (h2 : LexGt b c) : LexGt a c := by
  unfold LexGt at *; omega

theorem LexGt_irrefl (a : AofId) : ¬ LexGt a a := by
  unfold LexGt; omega

/-! ### the candidate selection of DoVote -/

/-- `x` is strictly preferred to `y` by the selection loop: newer log; same log and larger weight; same and larger host -/
def Better (x y : VoteResp) : Prop :=
  compareAofId x.aof y.aof > 0 ∨ (x.aof = y.aof ∧ (x.weight > y.weight ∨ (x.weight = y.weight ∧ x.rank > y.rank)))

theorem Better_irrefl (x : VoteResp) : ¬ Better x x := by
  unfold Better
  rw [compareAofId_refl]
  intro h
  rcases h with h | ⟨_, h⟩
  · simp at h
  · omega

theorem pick_spec (sel r : VoteResp) : (pick sel r = r ∧ Better r sel) ∨ (pick sel r = sel ∧ ¬ Better r sel) := by
  by_cases hb : Better r sel
  · left
    refine ⟨?_, hb⟩
    unfold Better at hb
    unfold pick
    by_cases he : sel.aof = r.aof
    · rw [if_pos he]
      have hc : ¬ compareAofId r.aof sel.aof > 0 := by rw [he, compareAofId_refl]; decide
      have hb2 : r.weight > sel.weight ∨ (r.weight = sel.weight ∧ r.rank > sel.rank) := by
        rcases hb with hb | ⟨_, hb⟩
        · exact absurd hb hc
        · exact hb
      by_cases hw : sel.weight < r.weight
      · simp [hw]
      · have hw2 : sel.weight = r.weight := by omega
        have hr : sel.rank < r.rank := by omega
        simp [hw2, hr]
    · rw [if_neg he]
      have hc : compareAofId r.aof sel.aof > 0 := by
        rcases hb with hb | ⟨hb, _⟩
        · exact hb
        · exact absurd hb.symm he
      rw [if_pos hc]
  · right
    refine ⟨?_, hb⟩
    unfold Better at hb
    unfold pick
    by_cases he : sel.aof = r.aof
    · rw [if_pos he]
      have hb2 : ¬ (r.weight > sel.weight ∨ (r.weight = sel.weight ∧ r.rank > sel.rank)) :=
        fun h => hb (Or.inr ⟨he.symm, h⟩)
      have hw : ¬ sel.weight < r.weight := by omega
      by_cases hw2 : sel.weight = r.weight
      · have hr : ¬ sel.rank < r.rank := by omega
        simp [hw2, hr]
      · simp [hw, hw2]
    · rw [if_neg he]
      have hc : ¬ compareAofId r.aof sel.aof > 0 := fun h => hb (Or.inl h)
      rw [if_neg hc]

/-- every two responses of the list lie within one comparison window -/
def AllInWindow (l : List VoteResp) : Prop := ∀ x ∈ l, ∀ y ∈ l, InWindow x.aof y.aof

theorem Better_trans {l : List VoteResp} (hw : AllInWindow l) {x y z : VoteResp} (hx : x ∈ l) (hy : y ∈ l) (hz : z ∈ l)
    (h1 : Better x y) (h2 : Better y z) : Better x z := by
  unfold Better at *
  rw [compareAofId_pos_iff (hw x hx y hy)] at h1
  rw [compareAofId_pos_iff (hw y hy z hz)] at h2
  rw [compareAofId_pos_iff (hw x hx z hz)]
  rcases h1 with h1 | ⟨e1, h1⟩
  · rcases h2 with h2 | ⟨e2, h2⟩
    · left; exact LexGt_trans h1 h2
    · left; rw [← e2]; exact h1
  · rcases h2 with h2 | ⟨e2, h2⟩
    · left; rw [e1]; exact h2
    · right; exact ⟨e1.trans e2, by omega⟩

theorem choose_some_aux {l : List VoteResp} (hw : AllInWindow l) :
    ∀ (rs : List VoteResp) (s r : VoteResp), (∀ x ∈ rs, x ∈ l) → s ∈ l → eligible s = true → choose (some s) rs = some r →
      (r = s ∨ (r ∈ rs ∧ Better r s)) ∧ eligible r = true ∧ (∀ y ∈ rs, eligible y = true → ¬ Better y r) := by
  intro rs
  induction rs with
  | nil =>
    intro s r _ _ hs h
    simp only [choose] at h
    injection h with h
    subst h
    exact ⟨Or.inl rfl, hs, by simp⟩
  | cons x rs ih =>
    intro s r hsub hs hse h
    have hxl : x ∈ l := hsub x (by simp)
    have hsub' : ∀ y ∈ rs, y ∈ l := fun y hy => hsub y (by simp [hy])
    simp only [choose] at h
    by_cases hx : eligible x = true
    · simp only [hx, if_true] at h
      rcases pick_spec s x with ⟨hp, hb⟩ | ⟨hp, hb⟩
      · rw [hp] at h
        obtain ⟨h1, h2, h3⟩ := ih x r hsub' hxl hx h
        have hrl : r ∈ l := by
          rcases h1 with h1 | ⟨h1, _⟩
          · rw [h1]; exact hxl
          · exact hsub' r h1
        refine ⟨?_, h2, ?_⟩
        · right
          rcases h1 with h1 | ⟨h1, h1b⟩
          · rw [h1]; exact ⟨by simp, hb⟩
          · exact ⟨by simp [h1], Better_trans hw hrl hxl hs h1b hb⟩
        · intro y hy hye
          rcases List.mem_cons.mp hy with hy | hy
          · subst hy
            rcases h1 with h1 | ⟨_, h1b⟩
            · rw [h1]; exact Better_irrefl y
            · intro hc; exact Better_irrefl y (Better_trans hw hxl hrl hxl hc h1b)
          · exact h3 y hy hye
      · rw [hp] at h
        obtain ⟨h1, h2, h3⟩ := ih s r hsub' hs hse h
        have hrl : r ∈ l := by
          rcases h1 with h1 | ⟨h1, _⟩
          · rw [h1]; exact hs
          · exact hsub' r h1
        refine ⟨?_, h2, ?_⟩
        · rcases h1 with h1 | ⟨h1, h1b⟩
          · exact Or.inl h1
          · exact Or.inr ⟨by simp [h1], h1b⟩
        · intro y hy hye
          rcases List.mem_cons.mp hy with hy | hy
          · subst hy
            rcases h1 with h1 | ⟨_, h1b⟩
            · rw [h1]; exact hb
            · intro hc; exact hb (Better_trans hw hxl hrl hs hc h1b)
          · exact h3 y hy hye
    · simp only [hx] at h
      obtain ⟨h1, h2, h3⟩ := ih s r hsub' hs hse h
      refine ⟨?_, h2, ?_⟩
      · rcases h1 with h1 | ⟨h1, h1b⟩
        · exact Or.inl h1
        · exact Or.inr ⟨by simp [h1], h1b⟩
      · intro y hy hye
        rcases List.mem_cons.mp hy with hy | hy
        · subst hy; exact absurd hye hx
        · exact h3 y hy hye

/-- The response `DoVote` selects is an answer it received, is data-bearing with weight ≠ 0, and no other such answer
is preferred to it — provided all answers lie within one comparison window. -/
theorem choose_max {rs : List VoteResp} (hw : AllInWindow rs) {r : VoteResp} (h : choose none rs = some r) :
    r ∈ rs ∧ eligible r = true ∧ ∀ y ∈ rs, eligible y = true → ¬ Better y r := by
  suffices H : ∀ (pre rs' : List VoteResp), rs = pre ++ rs' → (∀ y ∈ pre, eligible y ≠ true) → choose none rs' = some r →
      r ∈ rs ∧ eligible r = true ∧ ∀ y ∈ rs, eligible y = true → ¬ Better y r from H [] rs rfl (by simp) h
  intro pre rs'
  induction rs' generalizing pre with
  | nil => intro _ _ h; simp [choose] at h
  | cons x rs' ih =>
    intro hsplit hpre h
    simp only [choose] at h
    by_cases hx : eligible x = true
    · simp only [hx, if_true] at h
      have hxl : x ∈ rs := by rw [hsplit]; simp
      have hsub : ∀ y ∈ rs', y ∈ rs := fun y hy => by rw [hsplit]; simp [hy]
      obtain ⟨h1, h2, h3⟩ := choose_some_aux hw rs' x r hsub hxl hx h
      have hrl : r ∈ rs := by
        rcases h1 with h1 | ⟨h1, _⟩
        · rw [h1]; exact hxl
        · exact hsub r h1
      refine ⟨hrl, h2, ?_⟩
      intro y hy hye
      rw [hsplit] at hy
      rcases List.mem_append.mp hy with hy | hy
      · exact absurd hye (hpre y hy)
      · rcases List.mem_cons.mp hy with hy | hy
        · subst hy
          rcases h1 with h1 | ⟨_, h1b⟩
          · rw [h1]; exact Better_irrefl y
          · intro hc; exact Better_irrefl y (Better_trans hw hxl hrl hxl hc h1b)
        · exact h3 y hy hye
    · simp only [hx] at h
      apply ih (pre ++ [x])
      · rw [hsplit]; simp
      · intro y hy
        rcases List.mem_append.mp hy with hy | hy
        · exact hpre y hy
        · simp at hy; subst hy; exact hx
      · exact h

/-! ### the two acceptor handlers -/

/-- an acceptor (data node) whose own log is newer than the proposed one refuses, and nothing changes -/
theorem handleProposal_refuse_newer (n self : Nat) (m : Member) (k host : Nat) (aof : AofId)
    (hd : m.arbiter = 0) (hn : compareAofId m.ownAof aof > 0) :
    handleProposal n self m k host aof = (.reject, m) := by
  unfold handleProposal classifyProposal
  simp [hd, hn]

theorem scanMembers_not_ok (rs sts : List Nat) (vs : List AofId) (a : AofId) (r : PropRes)
    (h : scanMembers rs sts vs a = some r) : r = .status ∨ r = .aofid := by
  induction rs generalizing sts vs with
  | nil => simp [scanMembers] at h
  | cons x rs ih =>
    cases sts with
    | nil => simp [scanMembers] at h
    | cons st sts =>
      cases vs with
      | nil => simp [scanMembers] at h
      | cons v vs =>
        simp only [scanMembers] at h
        split at h
        · left; injection h with h; exact h.symm
        · split at h
          · right; injection h with h; exact h.symm
          · exact ih sts vs h

/-- an entry with role LEADER that is online makes the member loop end with ERR_STATUS or, at an earlier entry, ERR_AOFID -/
theorem scanMembers_leader (rs sts : List Nat) (vs : List AofId) (a : AofId) (j : Nat)
    (hlen1 : rs.length = sts.length) (hlen2 : rs.length = vs.length) (hj : j < rs.length)
    (hr : getN rs j = ROLE_LEADER) (hs : getN sts j = STATUS_ONLINE) :
    scanMembers rs sts vs a = some .status ∨ scanMembers rs sts vs a = some .aofid := by
  induction rs generalizing sts vs j with
  | nil => simp at hj
  | cons x rs ih =>
    cases sts with
    | nil => simp at hlen1
    | cons st sts =>
      cases vs with
      | nil => simp at hlen2
      | cons v vs =>
        simp only [scanMembers]
        split
        · left; rfl
        · split
          · right; rfl
          · rename_i hnl _
            cases j with
            | zero =>
              simp only [getN] at hr hs
              exfalso; apply hnl; simp [hr, hs]
            | succ j =>
              simp only [getN] at hr hs
              exact ih sts vs j (by simpa using hlen1) (by simpa using hlen2) (by simpa using hj) hr hs

theorem handleProposal_ok {n self : Nat} {m : Member} {k host : Nat} {aof : AofId} {old : Nat} {m' : Member}
    (h : handleProposal n self m k host aof = (.ok old, m')) :
    m.latch = none ∧ m.pid < k ∧ m.cid < k ∧ old = m.pid ∧ m' = { m with pid := k } ∧
      getN m.roles self ≠ ROLE_LEADER ∧ scanMembers m.roles m.statuses m.views aof = none ∧
      ¬ (m.arbiter = 0 ∧ compareAofId m.ownAof aof > 0) := by
  unfold handleProposal at h
  cases hc : classifyProposal n self m k host aof with
  | ok o =>
    rw [hc] at h
    simp only [Prod.mk.injEq, PropRes.ok.injEq] at h
    obtain ⟨h1, h2⟩ := h
    unfold classifyProposal at hc
    split at hc
    · simp at hc
    · rename_i hrej
      split at hc
      · simp at hc
      · rename_i hrole
        split at hc
        · rename_i r hsc
          rcases scanMembers_not_ok _ _ _ _ _ hsc with hr | hr <;> rw [hr] at hc <;> simp at hc
        · rename_i hsc
          split at hc
          · simp at hc
          · split at hc
            · simp at hc
            · split at hc
              · simp at hc
              · split at hc
                · simp at hc
                · rename_i _ _ h4 h5
                  simp only [PropRes.ok.injEq] at hc
                  simp only [Bool.or_eq_true, decide_eq_true_eq, not_or, Nat.not_le, Option.isSome_iff_ne_none, ne_eq, Decidable.not_not] at h4
                  refine ⟨?_, h4.1, by omega, by omega, h2.symm, ?_, hsc, ?_⟩
                  · cases hl : m.latch with
                    | none => rfl
                    | some x => rw [hl] at h4; simp at h4
                  · simpa using hrole
                  · intro hh
                    apply hrej
                    simp [hh.1, hh.2]
  | reject => rw [hc] at h; simp at h
  | role => rw [hc] at h; simp at h
  | status => rw [hc] at h; simp at h
  | aofid => rw [hc] at h; simp at h
  | badHost => rw [hc] at h; simp at h
  | offline => rw [hc] at h; simp at h
  | propId x => rw [hc] at h; simp at h

theorem handleProposal_not_ok {n self : Nat} {m : Member} {k host : Nat} {aof : AofId} {r : PropRes} {m' : Member}
    (h : handleProposal n self m k host aof = (r, m')) (hr : ∀ o, r ≠ .ok o) : m' = m := by
  unfold handleProposal at h
  cases hc : classifyProposal n self m k host aof with
  | ok o => rw [hc] at h; simp only [Prod.mk.injEq] at h; exact absurd h.1.symm (hr o)
  | reject => rw [hc] at h; simp only [Prod.mk.injEq] at h; exact h.2.symm
  | role => rw [hc] at h; simp only [Prod.mk.injEq] at h; exact h.2.symm
  | status => rw [hc] at h; simp only [Prod.mk.injEq] at h; exact h.2.symm
  | aofid => rw [hc] at h; simp only [Prod.mk.injEq] at h; exact h.2.symm
  | badHost => rw [hc] at h; simp only [Prod.mk.injEq] at h; exact h.2.symm
  | offline => rw [hc] at h; simp only [Prod.mk.injEq] at h; exact h.2.symm
  | propId x => rw [hc] at h; simp only [Prod.mk.injEq] at h; exact h.2.symm

theorem handleCommit_ok {n : Nat} {m : Member} {f k host : Nat} {m' : Member}
    (h : handleCommit n m f k host = (.ok, m')) :
    m.pid = k ∧ m.cid < k ∧
      m' = { m with latch := some host, fromHost := some f, cid := k, commits := (k, host) :: m.commits } := by
  unfold handleCommit at h
  cases hc : classifyCommit n m k host with
  | ok =>
    rw [hc] at h
    simp only [Prod.mk.injEq, true_and] at h
    unfold classifyCommit at hc
    split at hc
    · simp at hc
    · split at hc
      · simp at hc
      · split at hc
        · simp at hc
        · rename_i _ h2 h3
          simp only [bne_iff_ne, ne_eq, Decidable.not_not] at h2
          exact ⟨h2, by omega, h.symm⟩
  | badHost => rw [hc] at h; simp at h
  | propId => rw [hc] at h; simp at h
  | commitId => rw [hc] at h; simp at h

theorem handleCommit_not_ok {n : Nat} {m : Member} {f k host : Nat} {r : CommitRes} {m' : Member}
    (h : handleCommit n m f k host = (r, m')) (hr : r ≠ .ok) : m' = m := by
  unfold handleCommit at h
  cases hc : classifyCommit n m k host with
  | ok => rw [hc] at h; simp only [Prod.mk.injEq] at h; exact absurd h.1.symm hr
  | badHost => rw [hc] at h; simp only [Prod.mk.injEq] at h; exact h.2.symm
  | propId => rw [hc] at h; simp only [Prod.mk.injEq] at h; exact h.2.symm
  | commitId => rw [hc] at h; simp only [Prod.mk.injEq] at h; exact h.2.symm

end Slock.Elect
