import Slock.Proofs.EngineSimTickCorr
/-! Clock-tick simulation (`sim_tick`): the entries of the expiry wheel still to be processed, against stage 1's holds (`PE`), and how
a sweep step on another entry leaves that relation alone. -/
namespace Slock.SimTick
open Slock Slock.Sim Slock.Engine2
open Slock.Engine (has)

theorem liveE_false_cases {s : DB} {e : Ent} (h : liveE s e = false) :
    (s.getKey e.key).hasE e.rid = false ∨ ((s.getKey e.key).getR e.rid).expried = true := by
  unfold liveE at h
  cases h1 : (s.getKey e.key).hasE e.rid with
  | false => exact Or.inl rfl
  | true =>
    rw [h1] at h
    simp only [Bool.true_and, Bool.not_eq_false'] at h
    exact Or.inr h

/-- a record with depth > 0 is a hold that has not ended, with an expiry-wheel entry -/
theorem liveE_of_depth {s : DB} (sy : Sy s) {e : Ent} (hh : (s.getKey e.key).hasRec e.rid) (hd : 0 < ((s.getKey e.key).getR e.rid).depth) :
    liveE s e = true := by
  have ge := Good.openKey sy.dbq.dbt.dbi sy.dbq.dbt.tight e.key
  have hfine : RecFine ((s.getKey e.key).getR e.rid) := recFine_of ge e.rid hh
  have hes := hfine.hold hd
  have hex : ((s.getKey e.key).getR e.rid).expried = false := by
    cases hx : ((s.getKey e.key).getR e.rid).expried with
    | false => rfl
    | true => have := hfine.ended hx; omega
  unfold liveE Key.hasE
  rw [(any_iff_hasRec _ _).mpr hh, hes, hex]; rfl

/-- the stage-1 hold `x` stands for the wheel entry `e` -/
structure PE (s : DB) (e : Ent) (x : Engine.Hold) : Prop where
  key : x.cmd.key = e.key
  lt : x.hid < s.seq
  nw : liveT s e = false
  live : liveE s e = true → (viewE s e).hid = x.hid
  dead : liveE s e = false → ∀ v ∈ (Key.abs (s.getKey e.key)).holders, v.hid ≠ x.hid

theorem PE.of_live {s : DB} {e : Ent} (sy : Sy s) (k1 : K1 (s.getKey e.key)) (h : liveE s e = true) : PE s e (viewE s e) := by
  obtain ⟨hh, hd, hm⟩ := liveE_facts sy h
  have hki := sy.dbk.getKey e.key
  refine ⟨?_, hki.hlt e.rid hh hd, ?_, fun _ => rfl, fun hd' => by rw [h] at hd'; exact absurd hd' (by simp)⟩
  · exact (k1.kh _ hm).trans (getKey_key s e.key)
  · exact (liveT_false_iff s e).mpr (hki.ht e.rid ((sy.dbkt.getKey e.key).hq e.rid hh hd))

/-- every hold stage 1 sees after a step was one before under the same identity, or was granted by the step -/
theorem holder_back {X : Nat → Prop} {seq0 : Nat} {k' k : Key} (F : WFK X seq0 k' k) {v' : Engine.Hold} (hv : v' ∈ (Key.abs k').holders) :
    ∃ y, k'.hasRec y ∧ 0 < (k'.getR y).depth ∧ v' = holdOf k' y ∧
      ((k.hasRec y ∧ (k'.getR y).hid = (k.getR y).hid ∧ 0 < (k.getR y).depth) ∨ ((k.getR y).timeouted = false ∧ seq0 ≤ (k'.getR y).hid)) := by
  rw [abs_holders] at hv
  obtain ⟨y, hy, e⟩ := List.mem_map.mp hv
  have hlv : k'.liveHolder y = true := (List.mem_filter.mp hy).2
  have hd : 0 < (k'.getR y).depth := by unfold Key.liveHolder at hlv; simpa using hlv
  have hh' := Slock.Sim.hasRec_of_live hlv
  refine ⟨y, hh', hd, e.symm, ?_⟩
  rcases F.hh y hh' hd with ⟨e1, e2⟩ | h2
  · exact Or.inl ⟨F.sub y hh', e1, e2⟩
  · exact Or.inr h2

/-- **a sweep step on another entry keeps `PE`** -/
theorem pe_step {s s' : DB} {e0 e : Ent} {x : Engine.Hold} (F : WFD e0.key e0.rid s' s) (hseq : s.seq ≤ s'.seq) (sy : Sy s) (sy' : Sy s')
    (h : PE s e x) : PE s' e x := by
  have Fk := F e.key
  have hki := sy.dbk.getKey e.key
  have kt := sy.dbkt.getKey e.key
  have hnw' : liveT s' e = false := by
    cases hl' : liveT s' e with
    | false => rfl
    | true =>
      have := Fk.nr e.rid (hasRec_of_liveT hl') ((liveT_iff s' e).mp hl')
      have hnw := h.nw
      rw [(liveT_iff s e).mpr this] at hnw; exact absurd hnw (by simp)
  refine ⟨h.key, Nat.lt_of_lt_of_le h.lt hseq, hnw', ?_, ?_⟩
  · intro hl'
    obtain ⟨hh', hd', _⟩ := liveE_facts sy' hl'
    rcases Fk.hh e.rid hh' hd' with ⟨e1, e2⟩ | ⟨e1, _⟩
    · have hl := liveE_of_depth sy (Fk.sub e.rid hh') e2
      have := h.live hl
      show ((s'.getKey e.key).getR e.rid).hid = x.hid
      rw [e1]; exact this
    · have := h.nw
      rw [(liveT_iff s e).mpr e1] at this; exact absurd this (by simp)
  · intro hd' v' hv' ehid
    obtain ⟨y, hh', hdy', ev, hcase⟩ := holder_back Fk hv'
    rcases hcase with ⟨hhy, e1, e2⟩ | ⟨_, e2⟩
    · have hmem := live_mem_holders kt y hhy e2
      have hhid : (holdOf (s.getKey e.key) y).hid = x.hid := by
        show ((s.getKey e.key).getR y).hid = x.hid
        rw [← e1, ← ehid, ev]; rfl
      cases hle : liveE s e with
      | false => exact h.dead hle _ hmem hhid
      | true =>
        obtain ⟨hh, hd, _⟩ := liveE_facts sy hle
        have : y = e.rid := hki.hinj y e.rid hhy hh e2 hd (by
          have := h.live hle
          show ((s.getKey e.key).getR y).hid = ((s.getKey e.key).getR e.rid).hid
          rw [show ((s.getKey e.key).getR y).hid = x.hid from hhid]; exact this.symm)
        subst this
        have := liveE_of_depth sy' hh' hdy'
        rw [this] at hd'; exact absurd hd' (by simp)
    · have h1 : v'.hid = ((s'.getKey e.key).getR y).hid := by rw [ev]; rfl
      have := h.lt
      omega

/-- the identities of the holds stage 1 sees under every key are the same -/
def HC (s' s : DB) : Prop := ∀ n, (Key.abs (s'.getKey n)).holders.map (·.hid) = (Key.abs (s.getKey n)).holders.map (·.hid)

/-- **a sweep step on another entry that keeps the hold identities stage 1 sees under the key** keeps liveness and the view -/
theorem liveE_step {s s' : DB} {e0 e : Ent} (hne : eid e ≠ eid e0) (F : WFD e0.key e0.rid s' s) (sy : Sy s) (sy' : Sy s') (hc : HC s' s) :
    liveE s' e = liveE s e ∧ (liveE s e = true → viewE s' e = viewE s e) := by
  have Fk := F e.key
  have hki := sy.dbk.getKey e.key
  have kt := sy.dbkt.getKey e.key
  have hold_lt : ∀ v ∈ (Key.abs (s.getKey e.key)).holders, v.hid < s.seq := by
    intro v hv
    rw [abs_holders] at hv
    obtain ⟨y, hy, ev⟩ := List.mem_map.mp hv
    have hlv : (s.getKey e.key).liveHolder y = true := (List.mem_filter.mp hy).2
    have hd : 0 < ((s.getKey e.key).getR y).depth := by unfold Key.liveHolder at hlv; simpa using hlv
    rw [← ev]; exact hki.hlt y (Slock.Sim.hasRec_of_live hlv) hd
  have hfwd : liveE s' e = true → liveE s e = true ∧ viewE s' e = viewE s e := by
    intro hl'
    obtain ⟨hh', hd', hm'⟩ := liveE_facts sy' hl'
    rcases Fk.hd e.rid (wfd_notX hne) hh' hd' with e1 | ⟨_, e2⟩
    · have hdep : ((s'.getKey e.key).getR e.rid).depth = ((s.getKey e.key).getR e.rid).depth := congrArg Engine.Hold.depth e1
      exact ⟨liveE_of_depth sy (Fk.sub e.rid hh') (by rw [← hdep]; exact hd'), e1⟩
    · exfalso
      have hin : (viewE s' e).hid ∈ (Key.abs (s.getKey e.key)).holders.map (·.hid) := by
        rw [← hc e.key]; exact List.mem_map.mpr ⟨_, hm', rfl⟩
      obtain ⟨v, hv, ev⟩ := List.mem_map.mp hin
      have := hold_lt v hv
      have e3 : (viewE s' e).hid = ((s'.getKey e.key).getR e.rid).hid := rfl
      omega
  cases hle : liveE s e with
  | false =>
    refine ⟨?_, fun h => absurd h (by simp)⟩
    cases hle' : liveE s' e with
    | false => rfl
    | true => rw [(hfwd hle').1] at hle; exact absurd hle (by simp)
  | true =>
    obtain ⟨hh, hd, hm⟩ := liveE_facts sy hle
    have hin : (viewE s e).hid ∈ (Key.abs (s'.getKey e.key)).holders.map (·.hid) := by
      rw [hc e.key]; exact List.mem_map.mpr ⟨_, hm, rfl⟩
    obtain ⟨v', hv', ev⟩ := List.mem_map.mp hin
    obtain ⟨y, hh', hdy', evy, hcase⟩ := holder_back Fk hv'
    have hle' : liveE s' e = true := by
      rcases hcase with ⟨hhy, e1, e2⟩ | ⟨_, e2⟩
      · have : y = e.rid := hki.hinj y e.rid hhy hh e2 hd (by
          show ((s.getKey e.key).getR y).hid = ((s.getKey e.key).getR e.rid).hid
          rw [← e1]
          have h1 : v'.hid = ((s'.getKey e.key).getR y).hid := by rw [evy]; rfl
          rw [← h1, ev]; rfl)
        subst this
        exact liveE_of_depth sy' hh' hdy'
      · exfalso
        have h1 : v'.hid = ((s'.getKey e.key).getR y).hid := by rw [evy]; rfl
        have h2 := hold_lt _ hm
        omega
    exact ⟨hle', fun _ => (hfwd hle').2⟩

end Slock.SimTick
