import Slock.Proofs.ConnStep
/-! `Good` / `Safe` along every event sequence. -/
namespace Slock.Conn

theorem good_stepInit {s : Server} (hg : Good s) (c cid : Nat) : Good (stepInit s c cid).1 := by
  unfold stepInit
  cases hx : s.conns[c]? with
  | none => exact hg
  | some x =>
    simp only []
    split
    · exact hg
    · rename_i hcond
      have ho : x.closed = false := by cases h : x.closed <;> simp_all
      have hk : x.kind = .binary := by cases h : x.kind <;> simp_all
      refine good_update hg hx _ _ s.owner ?_ ?_ ?_ rfl ?_ ?_ ?_ (fun _ => List.mem_cons_self ..)
      · intro h; simp [ho] at h
      · intro _; exact ⟨hg.openShape c x hx ho, hg.willsOpen c x hx ho⟩
      · intro d h
        have := hg.openShape c x hx ho
        simp only [this] at h; cases h
      · intro k hk'; exact List.mem_cons_of_mem _ hk'
      · intro k d hkd
        by_cases e : k = cid
        · subst e
          rw [aget_aput_self] at hkd; cases hkd
          exact .inl ⟨rfl, ho, rfl, rfl, List.mem_cons_self .., hk⟩
        · rw [aget_aput_ne _ _ _ _ e] at hkd
          refine .inr ?_
          split at hkd
          · rename_i hc
            obtain ⟨h1, h2⟩ := aget_adel_some _ _ _ _ hkd
            refine ⟨?_, h1⟩
            intro e'; subst e'
            obtain ⟨z, hz, _, _, e1, _⟩ := hg.clientsOk k d h1
            rw [hx] at hz; cases hz
            exact h2 e1.symm
          · rename_i hc
            refine ⟨?_, hkd⟩
            intro e'; subst e'
            obtain ⟨z, hz, _, b, e1, _⟩ := hg.clientsOk k d hkd
            rw [hx] at hz; cases hz
            exact hc ⟨b, by rw [e1]; exact hkd⟩
      · intro h; simp [ho] at h

theorem safe_stepInit {s : Server} (hs : Safe s) (c cid : Nat) : Safe (stepInit s c cid).1 := by
  unfold stepInit
  cases hx : s.conns[c]? with
  | none => exact hs
  | some x =>
    simp only []
    split
    · exact hs
    · exact safe_set hs hx _ _ s.owner id rfl

theorem good_stepWill {s : Server} (hg : Good s) (c tok : Nat) (imm sf : Bool) : Good (stepWill s c tok imm sf).1 := by
  unfold stepWill
  cases hx : s.conns[c]? with
  | none => exact hg
  | some x =>
    simp only []
    split
    · exact hg
    · rename_i hcond
      have ho : x.closed = false := by cases h : x.closed <;> simp_all
      refine good_update_minor hg hx _ s.owner rfl rfl rfl rfl rfl rfl ?_ ?_
      · intro h; rw [ho] at h; cases h
      · intro _
        simp only [List.map_append, List.map_cons, List.map_nil]
        rw [hg.willsOpen c x hx ho]

theorem safe_stepWill {s : Server} (hs : Safe s) (c tok : Nat) (imm sf : Bool) : Safe (stepWill s c tok imm sf).1 := by
  unfold stepWill
  cases hx : s.conns[c]? with
  | none => exact hs
  | some x =>
    simp only []
    split
    · exact hs
    · exact safe_set hs hx _ s.clients s.owner id rfl

theorem good_stepRequest {s : Server} (hg : Good s) (c tok : Nat) : Good (stepRequest s c tok).1 := by
  unfold stepRequest
  cases hx : s.conns[c]? with
  | none => exact hg
  | some x =>
    simp only []
    split
    · exact hg
    · rename_i hcond
      have ho : x.closed = false := by cases h : x.closed <;> simp_all
      cases hk : x.kind <;> simp only []
      · exact good_owner hg _
      · refine good_update_minor hg hx _ _ rfl rfl rfl rfl hk.symm rfl ?_ ?_
        · intro h; rw [ho] at h; cases h
        · intro _; exact hg.willsOpen c x hx ho

theorem safe_stepRequest {s : Server} (hs : Safe s) (c tok : Nat) : Safe (stepRequest s c tok).1 := by
  unfold stepRequest
  cases hx : s.conns[c]? with
  | none => exact hs
  | some x =>
    simp only []
    split
    · exact hs
    · cases hk : x.kind <;> simp only []
      · exact ⟨hs.engRange, hs.execOpen⟩
      · exact safe_set hs hx _ s.clients _ id hk.symm

/-! ### deliver -/
theorem isOpen_spec {s : Server} {d : Nat} (h : isOpen s d = true) : ∃ y, s.conns[d]? = some y ∧ y.closed = false := by
  unfold isOpen at h
  cases hd : s.conns[d]? with
  | none => rw [hd] at h; cases h
  | some y => rw [hd] at h; exact ⟨y, rfl, by cases hc : y.closed <;> simp_all⟩

theorem closed_of_target {s : Server} (hg : Good s) {o : Nat} {x : Conn} (hx : s.conns[o]? = some x) (ht : x.target ≠ .self) :
    x.closed = true := by
  cases hc : x.closed
  · exact absurd (hg.openShape o x hx hc) ht
  · rfl

theorem good_route {s : Server} (hg : Good s) (tok : Nat) : Good (route s tok).1 := by
  unfold route
  cases ho : aget s.owner tok with
  | none => exact hg
  | some o =>
    simp only []
    cases hx : s.conns[o]? with
    | none => exact hg
    | some x =>
      simp only []
      cases ht : x.target with
      | self => exact hg
      | conn d => exact hg
      | default =>
        simp only []
        split
        · exact hg
        · rename_i hnz
          cases hl : aget s.clients x.cid with
          | none => exact hg
          | some d =>
            simp only []
            split
            · rename_i hop
              obtain ⟨y, hy, hyo⟩ := isOpen_spec hop
              have hxc : x.closed = true := closed_of_target hg hx (by rw [ht]; simp)
              obtain ⟨a, b, cc⟩ := hg.closedShape o x hx hxc
              have hdo : d ≠ o := by
                intro e; subst e; rw [hx] at hy; cases hy; rw [hxc] at hyo; cases hyo
              refine good_update hg hx _ s.clients s.owner ?_ ?_ ?_ rfl (fun _ h => h) ?_ ?_ ?_
              · intro _; exact ⟨a, by simp, cc⟩
              · intro h; simp only [hxc] at h; cases h
              · intro d' h
                simp only [Target.conn.injEq] at h; subst h
                obtain ⟨z, hz, _, _, _, f, _⟩ := hg.clientsOk x.cid d hl
                rw [hy] at hz; cases hz
                exact ⟨hdo, hnz, y, hy, hyo, f⟩
              · intro k d' hk
                by_cases e : d' = o
                · subst e
                  obtain ⟨z, hz, zo, _⟩ := hg.clientsOk k d' hk
                  rw [hx] at hz; cases hz; rw [hxc] at zo; cases zo
                · exact .inr ⟨e, hk⟩
              · intro _; exact hg.willsClosed o x hx hxc
              · intro hh; exact hg.announcedOwn o x hx hh
            · exact hg

theorem safe_route {s : Server} (hs : Safe s) (tok : Nat) : Safe (route s tok).1 := by
  unfold route
  cases ho : aget s.owner tok with
  | none => exact hs
  | some o =>
    simp only []
    cases hx : s.conns[o]? with
    | none => exact hs
    | some x =>
      simp only []
      cases ht : x.target with
      | self => exact hs
      | conn d => exact hs
      | default =>
        simp only []
        split
        · exact hs
        · cases hl : aget s.clients x.cid with
          | none => exact hs
          | some d =>
            simp only []
            split
            · exact safe_set hs hx _ s.clients s.owner id rfl
            · exact hs

/-- a reply is `lost` only at an open text connection -/
theorem recvN_lost (s : Server) (fuel d tok e : Nat) (h : recvN s fuel d tok = .lost e) :
    ∃ y, s.conns[e]? = some y ∧ y.closed = false := by
  induction fuel generalizing d with
  | zero => simp [recvN] at h
  | succ n ih =>
    unfold recvN at h
    cases hd : s.conns[d]? with
    | none => simp [hd] at h
    | some y =>
      simp only [hd] at h
      cases hk : y.kind <;> simp only [hk] at h
      · split at h
        · cases h
        · split at h
          · cases h
          · split at h
            · cases h
            · exact ih _ h
      · split at h
        · cases h
        · split at h
          · cases h
          · rename_i hc
            split at h
            · cases h; exact ⟨y, hd, by cases hh : y.closed <;> simp_all⟩
            · cases h

/-- the connection a reply is lost at is open in the state `route` returns -/
theorem route_lost {s : Server} (hg : Good s) (tok e : Nat) (h : (route s tok).2 = .lost e) :
    ∃ y, (route s tok).1.conns[e]? = some y ∧ y.closed = false := by
  unfold route at h ⊢
  cases ho : aget s.owner tok with
  | none => simp [ho] at h
  | some o =>
    simp only [ho] at h ⊢
    cases hx : s.conns[o]? with
    | none => simp [hx] at h
    | some x =>
      simp only [hx] at h ⊢
      cases ht : x.target with
      | self => simp only [ht] at h ⊢; exact recvN_lost s _ _ _ _ h
      | conn d => simp only [ht] at h ⊢; exact recvN_lost s _ _ _ _ h
      | default =>
        simp only [ht] at h ⊢
        split
        · rename_i hz; simp [hz] at h
        · rename_i hz
          simp only [hz, if_false] at h
          cases hl : aget s.clients x.cid with
          | none => simp [hl] at h
          | some d =>
            simp only [hl] at h ⊢
            split
            · rename_i hop
              simp only [hop, if_true] at h
              obtain ⟨y, hy, hyo⟩ := recvN_lost s _ _ _ _ h
              have hxc : x.closed = true := closed_of_target hg hx (by rw [ht]; simp)
              have : e ≠ o := by intro e'; subst e'; rw [hx] at hy; cases hy; rw [hxc] at hyo; cases hyo
              exact ⟨y, by dsimp only; rw [get_set_ne this]; exact hy, hyo⟩
            · rename_i hop
              simp only [hop] at h
              exact recvN_lost s _ _ _ _ h

theorem good_settle {s : Server} (hg : Good s) (hs : Safe s) (dst : Dest)
    (hl : ∀ e, dst = .lost e → ∃ y, s.conns[e]? = some y ∧ y.closed = false)
    (hn : (settle s dst).1.dead = none) : Good (settle s dst).1 := by
  cases dst with
  | to d =>
    simp only [settle] at hn ⊢
    cases hd : s.conns[d]? with
    | none => exact hg
    | some y =>
      simp only []
      split
      · refine good_update_minor hg hd _ s.owner rfl rfl rfl rfl rfl rfl (fun _ => ⟨rfl, rfl⟩) ?_
        intro ho; exact hg.willsOpen d y hd ho
      · exact hg
  | lost d =>
    obtain ⟨y, hy, hyo⟩ := hl d rfl
    simp only [settle, hy] at hn ⊢
    have hg' : Good { s with conns := s.conns.set d { y with awaiting := 0 } } :=
      good_update_minor hg hy _ s.owner rfl rfl rfl rfl rfl rfl (fun _ => ⟨rfl, rfl⟩) (fun ho => hg.willsOpen d y hy ho)
    have hs' : Safe { s with conns := s.conns.set d { y with awaiting := 0 } } :=
      safe_set hs hy _ s.clients s.owner id rfl
    have hx' : ({ s with conns := s.conns.set d { y with awaiting := 0 } } : Server).conns[d]? = some { y with awaiting := 0 } :=
      get_set_self hy _
    refine good_doClose hg' hs' hx' hyo ?_
    cases hf : (doClose { s with conns := s.conns.set d { y with awaiting := 0 } } d { y with awaiting := 0 }).2.2 with
    | none => rfl
    | some f =>
      exfalso
      have hdd : (drainK (closeState { s with conns := s.conns.set d { y with awaiting := 0 } } d { y with awaiting := 0 }) d { y with awaiting := 0 }).2 = some f := by
        cases h2 : (drainK (closeState { s with conns := s.conns.set d { y with awaiting := 0 } } d { y with awaiting := 0 }) d { y with awaiting := 0 }).2 with
        | none => rw [doClose_none _ _ _ h2] at hf; cases hf
        | some f' => cases f; cases f'; rfl
      rw [doClose_some _ _ _ f hdd] at hn
      cases hn
  | dropped => exact hg
  | filtered => exact hg
  | loop => exact hg

theorem safe_settle {s : Server} (hs : Safe s) (dst : Dest) : Safe (settle s dst).1 := by
  cases dst with
  | to d =>
    simp only [settle]
    cases hd : s.conns[d]? with
    | none => exact hs
    | some y =>
      simp only []
      split
      · exact safe_set hs hd _ s.clients s.owner id rfl
      · exact hs
  | lost d =>
    simp only [settle]
    cases hd : s.conns[d]? with
    | none => exact hs
    | some y =>
      simp only []
      exact safe_doClose (safe_set hs hd { y with awaiting := 0 } s.clients s.owner id rfl) (get_set_self hd { y with awaiting := 0 })
  | dropped => exact hs
  | filtered => exact hs
  | loop => exact hs

theorem good_stepClose {s : Server} (hg : Good s) (hs : Safe s) (c : Nat) (hn : (stepClose s c).1.dead = none) :
    Good (stepClose s c).1 := by
  unfold stepClose at hn ⊢
  cases hx : s.conns[c]? with
  | none => exact hg
  | some x =>
    simp only [hx] at hn ⊢
    split
    · exact hg
    · rename_i hcl
      have ho : x.closed = false := by cases h : x.closed <;> simp_all
      split
      · exact good_update_minor hg hx _ s.owner rfl rfl rfl rfl rfl rfl (fun h => by rw [ho] at h; cases h) (fun _ => hg.willsOpen c x hx ho)
      · rename_i haw
        simp only [hcl, haw, if_false] at hn
        refine good_doClose hg hs hx ho ?_
        cases hf : (doClose s c x).2.2 with
        | none => rfl
        | some f =>
          exfalso
          have hdd : (drainK (closeState s c x) c x).2 = some f := by
            cases h2 : (drainK (closeState s c x) c x).2 with
            | none => rw [doClose_none _ _ _ h2] at hf; cases hf
            | some f' => cases f; cases f'; rfl
          rw [doClose_some _ _ _ f hdd] at hn
          cases hn

theorem safe_stepClose {s : Server} (hs : Safe s) (c : Nat) : Safe (stepClose s c).1 := by
  unfold stepClose
  cases hx : s.conns[c]? with
  | none => exact hs
  | some x =>
    simp only []
    split
    · exact hs
    · split
      · exact safe_set hs hx _ s.clients s.owner id rfl
      · exact safe_doClose hs hx

theorem safe_step {s : Server} (hs : Safe s) (e : Event) : Safe (step s e).1 := by
  unfold step
  cases hd : s.dead with
  | some f => exact hs
  | none =>
    simp only []
    cases e with
    | «open» k => have h := safe_open hs k; simp only [hd] at h; exact h
    | init c cid => dsimp only; exact safe_stepInit hs c cid
    | will c tok imm sf => dsimp only; exact safe_stepWill hs c tok imm sf
    | request c tok => dsimp only; exact safe_stepRequest hs c tok
    | deliver tok => dsimp only; exact safe_settle (safe_route hs tok) _
    | close c k => dsimp only; exact safe_stepClose hs c

theorem good_step {s : Server} (hg : s.dead = none → Good s) (hs : Safe s) (e : Event) (hn : (step s e).1.dead = none) :
    Good (step s e).1 := by
  unfold step at hn ⊢
  cases hd : s.dead with
  | some f => simp only [hd] at hn; cases hn
  | none =>
    have g := hg hd
    simp only [hd] at hn ⊢
    cases e with
    | «open» k => have h := good_open g hs k; simp only [hd] at h; exact h
    | init c cid => dsimp only; exact good_stepInit g c cid
    | will c tok imm sf => dsimp only; exact good_stepWill g c tok imm sf
    | request c tok => dsimp only; exact good_stepRequest g c tok
    | deliver tok =>
      dsimp only at hn ⊢
      exact good_settle (good_route g tok) (safe_route hs tok) _ (fun e' he' => route_lost g tok e' he') hn
    | close c k => dsimp only at hn ⊢; exact good_stepClose g hs c hn

theorem safe_init : Safe ({} : Server) := by
  constructor
  · intro e he; cases he
  · intro c x h; simp at h

theorem good_init : Good ({} : Server) := by
  constructor
  · intro c x h; simp at h
  · intro c x h; simp at h
  · intro c x d h; simp at h
  · intro k d h; simp [aget] at h
  · intro c x h; simp at h
  · intro c x h; simp at h
  · intro c x h; simp at h

theorem safe_fold (evs : List Event) : ∀ s : Server, Safe s → Safe (evs.foldl (fun s e => (step s e).1) s) := by
  induction evs with
  | nil => intro s hs; exact hs
  | cons e es ih => intro s hs; exact ih _ (safe_step hs e)

theorem safe_run (evs : List Event) : Safe (run evs) := safe_fold evs _ safe_init

theorem good_fold (evs : List Event) : ∀ s : Server, (s.dead = none → Good s) → Safe s →
    (evs.foldl (fun s e => (step s e).1) s).dead = none → Good (evs.foldl (fun s e => (step s e).1) s) := by
  induction evs with
  | nil => intro s hg _ hn; exact hg hn
  | cons e es ih =>
    intro s hg hs hn
    exact ih _ (fun h => good_step hg hs e h) (safe_step hs e) hn

theorem good_run (evs : List Event) (hn : (run evs).dead = none) : Good (run evs) :=
  good_fold evs _ (fun _ => good_init) safe_init hn

theorem route_dead (s : Server) (tok : Nat) : (route s tok).1.dead = s.dead := by
  unfold route
  cases aget s.owner tok with
  | none => rfl
  | some o =>
    simp only []
    cases s.conns[o]? with
    | none => rfl
    | some x =>
      simp only []
      cases x.target with
      | self => rfl
      | conn d => rfl
      | default =>
        simp only []
        split
        · rfl
        · cases aget s.clients x.cid with
          | none => rfl
          | some d => simp only []; split <;> rfl

theorem doClose_dead_none {s : Server} (hg : Good s) {c : Nat} {x : Conn} (hx : s.conns[c]? = some x) :
    (doClose s c x).1.dead = none := by
  have ha := doClose_alive hg hx
  have hdn : (drainK (closeState s c x) c x).2 = none := by
    cases h2 : (drainK (closeState s c x) c x).2 with
    | none => rfl
    | some f => rw [doClose_some _ _ _ f h2] at ha; cases ha
  rw [doClose_none _ _ _ hdn]

theorem settle_alive {s : Server} (hg : Good s) (hd : s.dead = none) (dst : Dest) : (settle s dst).1.dead = none := by
  cases dst with
  | to d =>
    simp only [settle]
    cases s.conns[d]? with
    | none => exact hd
    | some y => simp only []; split <;> exact hd
  | lost d =>
    simp only [settle]
    cases hy : s.conns[d]? with
    | none => exact hd
    | some y =>
      simp only []
      have hg' : Good { s with conns := s.conns.set d { y with awaiting := 0 } } :=
        good_update_minor hg hy _ s.owner rfl rfl rfl rfl rfl rfl (fun _ => ⟨rfl, rfl⟩) (fun ho => hg.willsOpen d y hy ho)
      exact doClose_dead_none hg' (get_set_self hy { y with awaiting := 0 })
  | dropped => exact hd
  | filtered => exact hd
  | loop => exact hd

/-- the server never dies: `Close` is never fatal in a reachable state -/
theorem step_alive {s : Server} (hg : Good s) (hd : s.dead = none) (e : Event) : (step s e).1.dead = none := by
  unfold step
  simp only [hd]
  cases e with
  | «open» k => dsimp only
  | init c cid =>
    dsimp only; unfold stepInit
    cases s.conns[c]? with
    | none => exact hd
    | some x => simp only []; split <;> exact hd
  | will c tok imm sf =>
    dsimp only; unfold stepWill
    cases s.conns[c]? with
    | none => exact hd
    | some x => simp only []; split <;> exact hd
  | request c tok =>
    dsimp only; unfold stepRequest
    cases s.conns[c]? with
    | none => exact hd
    | some x =>
      simp only []
      split
      · exact hd
      · cases x.kind <;> exact hd
  | deliver tok =>
    dsimp only
    show (settle (route s tok).1 (route s tok).2).1.dead = none
    exact settle_alive (good_route hg tok) (by rw [route_dead]; exact hd) _
  | close c k =>
    dsimp only; unfold stepClose
    cases hx : s.conns[c]? with
    | none => exact hd
    | some x =>
      simp only []
      split
      · exact hd
      · split
        · exact hd
        · exact doClose_dead_none hg hx

theorem alive_fold (evs : List Event) : ∀ s : Server, Good s → Safe s → s.dead = none →
    (evs.foldl (fun s e => (step s e).1) s).dead = none := by
  induction evs with
  | nil => intro s _ _ hd; exact hd
  | cons e es ih =>
    intro s hg hs hd
    have h1 := step_alive hg hd e
    exact ih _ (good_step (fun _ => hg) hs e h1) (safe_step hs e) h1

theorem run_alive (evs : List Event) : (run evs).dead = none := alive_fold evs _ good_init safe_init rfl

theorem good_run' (evs : List Event) : Good (run evs) := good_run evs (run_alive evs)

/-- once dead the state is frozen -/
theorem step_dead {s : Server} (e : Event) (f : Fatal) (h : s.dead = some f) : (step s e).1 = s := by
  unfold step; simp [h]

end Slock.Conn
