import Slock.Proofs.ConnStep
/-! `Good` / `Safe` along every event sequence. -/
namespace Slock.Conn

theorem good_stepInit {s : Server} (hg : Good s) (c cid : Nat) : Good (stepInit s c cid).1 := by
  unfold stepInit
  cases hx : s.conns[c]? with
  | none => exact hg
  | some x =>
    simp only []
    split
    · exact hg
    · rename_i hcond
      have ho : x.closed = false := by cases h : x.closed <;> simp_all
      have hk : x.kind = .binary := by cases h : x.kind <;> simp_all
      refine good_update hg hx _ _ s.owner ?_ ?_ ?_ rfl ?_ ?_ ?_ (fun _ => List.mem_cons_self ..)
      · intro h; simp [ho] at h
      · intro _; exact ⟨hg.openShape c x hx ho, hg.willsOpen c x hx ho⟩
      · intro d h
        have := hg.openShape c x hx ho
        simp only [this] at h; cases h
      · intro k hk'; exact List.mem_cons_of_mem _ hk'
      · intro k d hkd
        by_cases e : k = cid
        · subst e
          rw [aget_aput_self] at hkd; cases hkd
          exact .inl ⟨rfl, ho, rfl, rfl, List.mem_cons_self .., hk⟩
        · rw [aget_aput_ne _ _ _ _ e] at hkd
          refine .inr ?_
          split at hkd
          · rename_i hc
            obtain ⟨h1, h2⟩ := aget_adel_some _ _ _ _ hkd
            refine ⟨?_, h1⟩
            intro e'; subst e'
            obtain ⟨z, hz, _, _, e1, _⟩ := hg.clientsOk k d h1
            rw [hx] at hz; cases hz
            exact h2 e1.symm
          · rename_i hc
            refine ⟨?_, hkd⟩
            intro e'; subst e'
            obtain ⟨z, hz, _, b, e1, _⟩ := hg.clientsOk k d hkd
            rw [hx] at hz; cases hz
            exact hc ⟨b, by rw [e1]; exact hkd⟩
      · intro h; simp [ho] at h

theorem safe_stepInit {s : Server} (hs : Safe s) (c cid : Nat) : Safe (stepInit s c cid).1 := by
  unfold stepInit
  cases hx : s.conns[c]? with
  | none => exact hs
  | some x =>
    simp only []
    split
    · exact hs
    · exact safe_set hs hx _ _ s.owner id rfl

theorem good_stepWill {s : Server} (hg : Good s) (c tok : Nat) (imm sf : Bool) : Good (stepWill s c tok imm sf).1 := by
  unfold stepWill
  cases hx : s.conns[c]? with
  | none => exact hg
  | some x =>
    simp only []
    split
    · exact hg
    · rename_i hcond
      have ho : x.closed = false := by cases h : x.closed <;> simp_all
      refine good_update_minor hg hx _ s.owner rfl rfl rfl rfl rfl rfl ?_ ?_
      · intro h; rw [ho] at h; cases h
      · intro _
        simp only [List.map_append, List.map_cons, List.map_nil]
        rw [hg.willsOpen c x hx ho]

theorem safe_stepWill {s : Server} (hs : Safe s) (c tok : Nat) (imm sf : Bool) : Safe (stepWill s c tok imm sf).1 := by
  unfold stepWill
  cases hx : s.conns[c]? with
  | none => exact hs
  | some x =>
    simp only []
    split
    · exact hs
    · exact safe_set hs hx _ s.clients s.owner id rfl

theorem good_stepRequest {s : Server} (hg : Good s) (c tok : Nat) : Good (stepRequest s c tok).1 := by
  unfold stepRequest
  cases hx : s.conns[c]? with
  | none => exact hg
  | some x =>
    simp only []
    split
    · exact hg
    · rename_i hcond
      have ho : x.closed = false := by cases h : x.closed <;> simp_all
      cases hk : x.kind <;> simp only []
      · exact good_owner hg _
      · refine good_update_minor hg hx _ _ rfl rfl rfl rfl hk.symm rfl ?_ ?_
        · intro h; rw [ho] at h; cases h
        · intro _; exact hg.willsOpen c x hx ho

theorem safe_stepRequest {s : Server} (hs : Safe s) (c tok : Nat) : Safe (stepRequest s c tok).1 := by
  unfold stepRequest
  cases hx : s.conns[c]? with
  | none => exact hs
  | some x =>
    simp only []
    split
    · exact hs
    · cases hk : x.kind <;> simp only []
      · exact ⟨hs.engRange, hs.execOpen⟩
      · exact safe_set hs hx _ s.clients _ id hk.symm

/-! ### deliver -/
theorem isOpen_spec {s : Server} {d : Nat} (h : isOpen s d = true) : ∃ y, s.conns[d]? = some y ∧ y.closed = false := by
  unfold isOpen at h
  cases hd : s.conns[d]? with
  | none => rw [hd] at h; cases h
  | some y => rw [hd] at h; exact ⟨y, rfl, by cases hc : y.closed <;> simp_all⟩

theorem closed_of_target {s : Server} (hg : Good s) {o : Nat} {x : Conn} (hx : s.conns[o]? = some x) (ht : x.target ≠ .self) :
    x.closed = true := by
  cases hc : x.closed
  · exact absurd (hg.openShape o x hx hc) ht
  · rfl

theorem good_route {s : Server} (hg : Good s) (tok : Nat) : Good (route s tok).1 := by
  unfold route
  cases ho : aget s.owner tok with
  | none => exact hg
  | some o =>
    simp only []
    cases hx : s.conns[o]? with
    | none => exact hg
    | some x =>
      simp only []
      cases ht : x.target with
      | self => exact hg
      | conn d => exact hg
      | default =>
        simp only []
        split
        · exact hg
        · rename_i hnz
          cases hl : aget s.clients x.cid with
          | none => exact hg
          | some d =>
            simp only []
            split
            · rename_i hop
              obtain ⟨y, hy, hyo⟩ := isOpen_spec hop
              have hxc : x.closed = true := closed_of_target hg hx (by rw [ht]; simp)
              obtain ⟨a, b, cc⟩ := hg.closedShape o x hx hxc
              have hdo : d ≠ o := by
                intro e; subst e; rw [hx] at hy; cases hy; rw [hxc] at hyo; cases hyo
              refine good_update hg hx _ s.clients s.owner ?_ ?_ ?_ rfl (fun _ h => h) ?_ ?_ ?_
              · intro _; exact ⟨a, by simp, cc⟩
              · intro h; simp only [hxc] at h; cases h
              · intro d' h
                simp only [Target.conn.injEq] at h; subst h
                obtain ⟨z, hz, _, _, _, f, _⟩ := hg.clientsOk x.cid d hl
                rw [hy] at hz; cases hz
                exact ⟨hdo, hnz, y, hy, hyo, f⟩
              · intro k d' hk
                by_cases e : d' = o
                · subst e
                  obtain ⟨z, hz, zo, _⟩ := hg.clientsOk k d' hk
                  rw [hx] at hz; cases hz; rw [hxc] at zo; cases zo
                · exact .inr ⟨e, hk⟩
              · intro _; exact hg.willsClosed o x hx hxc
              · intro hh; exact hg.announcedOwn o x hx hh
            · exact hg

theorem safe_route {s : Server} (hs : Safe s) (tok : Nat) : Safe (route s tok).1 := by
  unfold route
  cases ho : aget s.owner tok with
  | none => exact hs
  | some o =>
    simp only []
    cases hx : s.conns[o]? with
    | none => exact hs
    | some x =>
      simp only []
      cases ht : x.target with
      | self => exact hs
      | conn d => exact hs
      | default =>
        simp only []
        split
        · exact hs
        · cases hl : aget s.clients x.cid with
          | none => exact hs
          | some d =>
            simp only []
            split
            · exact safe_set hs hx _ s.clients s.owner id rfl
            · exact hs

/-! ### close -/
theorem doClose_dead_none {s : Server} (hg : Good s) {c : Nat} {x : Conn} (hx : s.conns[c]? = some x) :
    (doClose s c x).1.dead = none := by
  have ha := doClose_alive hg hx
  have hdn : (drainK (closeState s c x) c x).2 = none := by
    cases h2 : (drainK (closeState s c x) c x).2 with
    | none => rfl
    | some f => rw [doClose_some _ _ _ f h2] at ha; cases ha
  rw [doClose_none _ _ _ hdn]

/-- alive, and both invariants -/
def GSA (s : Server) : Prop := Good s ∧ Safe s ∧ s.dead = none

theorem gsa_closeOne {s : Server} (h : GSA s) (c : Nat) : GSA (closeOne s c).1 := by
  obtain ⟨hg, hs, hd⟩ := h
  unfold closeOne
  cases hx : s.conns[c]? with
  | none => exact ⟨hg, hs, hd⟩
  | some x =>
    simp only []
    split
    · exact ⟨hg, hs, hd⟩
    · rename_i hcl
      have ho : x.closed = false := by cases h : x.closed <;> simp_all
      split
      · exact ⟨good_update_minor hg hx _ s.owner rfl rfl rfl rfl rfl rfl (fun h => by rw [ho] at h; cases h) (fun _ => hg.willsOpen c x hx ho),
          safe_set hs hx _ s.clients s.owner id rfl, hd⟩
      · exact ⟨good_doClose hg hs hx ho (doClose_alive hg hx), safe_doClose hs hx, doClose_dead_none hg hx⟩

theorem gsa_half {s : Server} (h : GSA s) {j : Nat} {x : Conn} (hx : s.conns[j]? = some x) :
    GSA { s with conns := s.conns.set j { x with halfClosed := true } } := by
  obtain ⟨hg, hs, hd⟩ := h
  exact ⟨good_update_minor hg hx _ s.owner rfl rfl rfl rfl rfl rfl (fun _ => ⟨rfl, rfl⟩) (fun ho => hg.willsOpen j x hx ho),
    safe_set hs hx _ s.clients s.owner id rfl, hd⟩

/-- every state `stepClose` can return is reached from `s` by `closeOne` steps and one `halfClosed` mark -/
theorem stepClose_ind (P : Server → Prop) (s : Server) (c : Nat) (h0 : P s)
    (h1 : ∀ t j, P t → P (closeOne t j).1)
    (h2 : ∀ (t : Server) (j : Nat) (x : Conn), P t → t.conns[j]? = some x →
      P { t with conns := t.conns.set j { x with halfClosed := true } }) :
    P (stepClose s c).1 := by
  unfold stepClose
  cases nestedOf s (streamOf s c) with
  | none => exact h1 s _ h0
  | some n =>
    simp only []
    have p1 := h1 s n h0
    cases hr : (closeOne s n).2 with
    | closed res f =>
      cases f with
      | none =>
        simp only []
        have p2 := h1 _ (streamOf s c) p1
        cases hr2 : (closeOne (closeOne s n).1 (streamOf s c)).2 <;> simp only [] <;> exact p2
      | some ff => simp only []; exact p1
    | deferred =>
      simp only []
      cases hx : (closeOne s n).1.conns[streamOf s c]? with
      | none => exact p1
      | some x => exact h2 _ _ x p1 hx
    | opened _ => exact p1
    | ignored => exact p1
    | inited _ => exact p1
    | ok => exact p1
    | routed _ => exact p1
    | routedClosed _ _ _ => exact p1
    | noop => exact p1

theorem gsa_stepClose {s : Server} (h : GSA s) (c : Nat) : GSA (stepClose s c).1 :=
  stepClose_ind GSA s c h (fun _ j ht => gsa_closeOne ht j) (fun _ _ _ ht hx => gsa_half ht hx)

theorem settle_state (s : Server) (d : Nat) (y : Conn) (hy : s.conns[d]? = some y) :
    (settle s (.lost d)).1 = (stepClose { s with conns := s.conns.set d { y with awaiting := 0 } } d).1 := by
  simp only [settle, hy]
  split <;> rfl

theorem gsa_settle {s : Server} (h : GSA s) (dst : Dest) : GSA (settle s dst).1 := by
  obtain ⟨hg, hs, hd⟩ := h
  cases dst with
  | to d =>
    simp only [settle]
    cases hy : s.conns[d]? with
    | none => exact ⟨hg, hs, hd⟩
    | some y =>
      simp only []
      split
      · exact ⟨good_update_minor hg hy _ s.owner rfl rfl rfl rfl rfl rfl (fun _ => ⟨rfl, rfl⟩) (fun ho => hg.willsOpen d y hy ho),
          safe_set hs hy _ s.clients s.owner id rfl, hd⟩
      · exact ⟨hg, hs, hd⟩
  | lost d =>
    cases hy : s.conns[d]? with
    | none => simp only [settle, hy]; exact ⟨hg, hs, hd⟩
    | some y =>
      rw [settle_state s d y hy]
      apply gsa_stepClose
      exact ⟨good_update_minor hg hy _ s.owner rfl rfl rfl rfl rfl rfl (fun _ => ⟨rfl, rfl⟩) (fun ho => hg.willsOpen d y hy ho),
        safe_set hs hy { y with awaiting := 0 } s.clients s.owner id rfl, hd⟩
  | dropped => exact ⟨hg, hs, hd⟩
  | filtered => exact ⟨hg, hs, hd⟩
  | loop => exact ⟨hg, hs, hd⟩

theorem route_dead (s : Server) (tok : Nat) : (route s tok).1.dead = s.dead := by
  unfold route
  cases aget s.owner tok with
  | none => rfl
  | some o =>
    simp only []
    cases s.conns[o]? with
    | none => rfl
    | some x =>
      simp only []
      cases x.target with
      | self => rfl
      | conn d => rfl
      | default =>
        simp only []
        split
        · rfl
        · cases aget s.clients x.cid with
          | none => rfl
          | some d => simp only []; split <;> rfl

/-! ### admin -/
theorem gsa_stepAdmin {s : Server} (h : GSA s) (c : Nat) : GSA (stepAdmin s c).1 := by
  obtain ⟨hg, hs, hd⟩ := h
  unfold stepAdmin
  cases hx : s.conns[c]? with
  | none => exact ⟨hg, hs, hd⟩
  | some x =>
    simp only []
    split
    · exact ⟨hg, hs, hd⟩
    · rename_i hcond
      have ho : x.closed = false := by cases h : x.closed <;> simp_all
      have g1 : Good { s with conns := s.conns.set c { x with nested := some s.conns.length } } :=
        good_update_minor hg hx _ s.owner rfl rfl rfl rfl rfl rfl (fun h => by rw [ho] at h; cases h) (fun _ => hg.willsOpen c x hx ho)
      have s1 : Safe { s with conns := s.conns.set c { x with nested := some s.conns.length } } :=
        safe_set hs hx _ s.clients s.owner id rfl
      exact ⟨good_open g1 s1 .text (some c), safe_open s1 .text (some c), hd⟩

/-! ### every event -/
theorem gsa_step {s : Server} (h : GSA s) (e : Event) : GSA (step s e).1 := by
  have hd := h.2.2
  unfold step
  simp only [hd]
  obtain ⟨hg, hs, _⟩ := h
  cases e with
  | «open» k =>
    have h1 := good_open hg hs k none
    have h2 := safe_open hs k none
    simp only [hd] at h1 h2
    exact ⟨h1, h2, rfl⟩
  | init c cid =>
    refine ⟨good_stepInit hg c cid, safe_stepInit hs c cid, ?_⟩
    dsimp only; unfold stepInit
    cases s.conns[c]? with
    | none => exact hd
    | some x => simp only []; split <;> exact hd
  | will c tok imm sf =>
    refine ⟨good_stepWill hg c tok imm sf, safe_stepWill hs c tok imm sf, ?_⟩
    dsimp only; unfold stepWill
    cases s.conns[c]? with
    | none => exact hd
    | some x => simp only []; split <;> exact hd
  | request c tok =>
    refine ⟨good_stepRequest hg c tok, safe_stepRequest hs c tok, ?_⟩
    dsimp only; unfold stepRequest
    cases s.conns[c]? with
    | none => exact hd
    | some x =>
      simp only []
      split
      · exact hd
      · cases x.kind <;> exact hd
  | deliver tok =>
    exact gsa_settle ⟨good_route hg tok, safe_route hs tok, by rw [route_dead]; exact hd⟩ _
  | close c k => exact gsa_stepClose ⟨hg, hs, hd⟩ c
  | admin c => exact gsa_stepAdmin ⟨hg, hs, hd⟩ c

theorem safe_init : Safe ({} : Server) := by
  constructor
  · intro e he; cases he
  · intro c x h; simp at h

theorem good_init : Good ({} : Server) := by
  constructor
  · intro c x h; simp at h
  · intro c x h; simp at h
  · intro c x d h; simp at h
  · intro k d h; simp [aget] at h
  · intro c x h; simp at h
  · intro c x h; simp at h
  · intro c x h; simp at h

theorem gsa_fold (evs : List Event) : ∀ s : Server, GSA s → GSA (evs.foldl (fun s e => (step s e).1) s) := by
  induction evs with
  | nil => intro s h; exact h
  | cons e es ih => intro s h; exact ih _ (gsa_step h e)

theorem gsa_run (evs : List Event) : GSA (run evs) := gsa_fold evs _ ⟨good_init, safe_init, rfl⟩

theorem safe_run (evs : List Event) : Safe (run evs) := (gsa_run evs).2.1
/-- the server never dies: `Close` is never fatal in a reachable state -/
theorem run_alive (evs : List Event) : (run evs).dead = none := (gsa_run evs).2.2
theorem good_run' (evs : List Event) : Good (run evs) := (gsa_run evs).1

/-- once dead the state is frozen -/
theorem step_dead {s : Server} (e : Event) (f : Fatal) (h : s.dead = some f) : (step s e).1 = s := by
  unfold step; simp [h]

end Slock.Conn
