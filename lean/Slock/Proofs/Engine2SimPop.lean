import Slock.Proofs.Engine2SimSX
/-! Simulation stage 2 → stage 1: popping tombstoned heads off the wait queue (`GetWaitLock`, `settleWait`) is invisible to stage 1; congruence
lemmas for the two halves of `Key.abs`. -/
namespace Slock.Sim
open Slock Slock.Engine2

/-- same `currentLock` / holder queue, same stage-1 view of the records they refer to ⇒ same holders -/
theorem abs_holders_congr {X : Nat → Prop} {k' k : Key} (hc : k'.current = k.current) (hl : k'.locks = k.locks) (p : PKeepX πA X k' k)
    (hx : ∀ y ∈ k.current.toList ++ k.locks, ¬ X y) (hd : ∀ y ∈ k.current.toList ++ k.locks, k'.hasRec y) :
    (Key.abs k').holders = (Key.abs k).holders := by
  rw [abs_holders, abs_holders, hc, hl]
  have hv : ∀ y ∈ k.current.toList ++ k.locks, πA (k'.getR y) = πA (k.getR y) := fun y hy => p.val y (hx y hy) (hd y hy)
  have hf : (k.current.toList ++ k.locks).filter (fun x => k'.liveHolder x) = (k.current.toList ++ k.locks).filter (fun x => k.liveHolder x) := by
    apply List.filter_congr
    intro x hx'
    unfold Key.liveHolder
    have e : (k'.getR x).depth = (k.getR x).depth := congrArg (fun t => t.1.depth) (hv x hx')
    rw [e]
  rw [hf]
  apply List.map_congr_left
  intro x hx'
  exact congrArg (fun t => t.1) (hv x (List.mem_filter.mp hx').1)

theorem abs_waiters_congr {X : Nat → Prop} {k' k : Key} (hw : k'.wait = k.wait) (p : PKeepX πA X k' k)
    (hx : ∀ y ∈ k.wait.map (·.rid), ¬ X y) (hd : ∀ y ∈ k.wait.map (·.rid), k'.hasRec y) :
    (Key.abs k').waiters = (Key.abs k).waiters := by
  rw [abs_waiters, abs_waiters, hw]
  have hv : ∀ y ∈ k.wait.map (·.rid), πA (k'.getR y) = πA (k.getR y) := fun y hy => p.val y (hx y hy) (hd y hy)
  have hf : (k.wait.map (·.rid)).filter (fun x => !k'.deadWaiter x) = (k.wait.map (·.rid)).filter (fun x => !k.deadWaiter x) := by
    apply List.filter_congr
    intro x hx'
    unfold Key.deadWaiter
    have e : (k'.getR x).timeouted = (k.getR x).timeouted := congrArg (fun t => t.2.2) (hv x hx')
    rw [e]
  rw [hf]
  apply List.map_congr_left
  intro x hx'
  exact congrArg (fun t => t.2.1) (hv x (List.mem_filter.mp hx').1)

theorem abs_ext {a b : Engine.Key} (h1 : a.key = b.key) (h2 : a.locked = b.locked) (h3 : a.holders = b.holders) (h4 : a.waiters = b.waiters)
    (h5 : a.waited = b.waited) : a = b := by
  cases a; cases b; simp_all

/-! ### the pop -/

theorem getR_free_self (k : Key) (x : Nat) : (k.free x).getR x = deadRec x := by
  apply getR_of_not_hasRec
  intro h
  have := Engine2.hasRec_free_sub k x x h
  by_cases hk : k.hasRec x
  · exact this.2 hk rfl
  · exact hk this.1

theorem deadWaiter_unref (k : Key) (x y : Nat) (hx : k.deadWaiter x = true) : (k.unref x).deadWaiter y = k.deadWaiter y := by
  by_cases e : y = x
  · subst e
    rw [hx]
    unfold Key.unref Key.deadWaiter
    simp only []
    split
    · rw [getR_free_self]; rfl
    · unfold Key.unrefOnly
      rw [getR_modRec_proj (·.timeouted) k y y _ (by intro _; rfl) (by intro _; rfl)]
      exact hx
  · exact deadWaiter_unref_other k x y e

theorem unref_fields (k : Key) (x : Nat) : (k.unref x).key = k.key ∧ (k.unref x).locked = k.locked := by
  unfold Key.unref Key.unrefOnly Key.free
  simp only []
  split
  · split <;> exact ⟨rfl, rfl⟩
  · exact ⟨rfl, rfl⟩

/-- the live requests of the queue, in order, as stage 1 sees them: unchanged by popping tombstoned heads -/
theorem waitSkip_live (l : List WEnt) (k : Key) (hl : k.wait = l) :
    (((waitSkip l k).1.wait.map (·.rid)).filter (fun x => !(waitSkip l k).1.deadWaiter x)).map (waiterOf (waitSkip l k).1) =
      ((l.map (·.rid)).filter (fun x => !k.deadWaiter x)).map (waiterOf k) ∧
    (waitSkip l k).1.key = k.key ∧ (waitSkip l k).1.locked = k.locked ∧ (waitSkip l k).1.waited = k.waited := by
  induction l generalizing k with
  | nil => unfold waitSkip; rw [hl]; exact ⟨rfl, rfl, rfl, rfl⟩
  | cons e rest ih =>
    unfold waitSkip
    split
    · rename_i hd
      obtain ⟨_, q2, _, q4, _⟩ := unref_queues { k with wait := rest, waitPopped := if k.waitPrio then k.waitPopped else k.waitPopped + 1 } e.rid
      obtain ⟨f1, f2⟩ := unref_fields { k with wait := rest, waitPopped := if k.waitPrio then k.waitPopped else k.waitPopped + 1 } e.rid
      obtain ⟨i1, i2, i3, i4⟩ := ih ({ k with wait := rest, waitPopped := if k.waitPrio then k.waitPopped else k.waitPopped + 1 }.unref e.rid) q2
      refine ⟨?_, i2.trans f1, i3.trans f2, i4.trans q4⟩
      rw [i1]
      have hdk : ({ k with wait := rest, waitPopped := if k.waitPrio then k.waitPopped else k.waitPopped + 1 } : Key).deadWaiter e.rid = true := hd
      have hdead : ∀ y, ({ k with wait := rest, waitPopped := if k.waitPrio then k.waitPopped else k.waitPopped + 1 }.unref e.rid).deadWaiter y = k.deadWaiter y :=
        fun y => deadWaiter_unref _ e.rid y hdk
      simp only [List.map_cons, List.filter, hd, Bool.not_true]
      have hf : (rest.map (·.rid)).filter (fun x => !({ k with wait := rest, waitPopped := if k.waitPrio then k.waitPopped else k.waitPopped + 1 }.unref e.rid).deadWaiter x) =
          (rest.map (·.rid)).filter (fun x => !k.deadWaiter x) := by
        apply List.filter_congr; intro x _; rw [hdead]
      rw [hf]
      apply List.map_congr_left
      intro x hx
      have hlive : k.deadWaiter x = false := by simpa using (List.mem_filter.mp hx).2
      have hne : x ≠ e.rid := by intro e'; rw [e'] at hlive; rw [hlive] at hd; exact absurd hd (by simp)
      unfold waiterOf
      rw [getR_unref_other _ _ _ hne]
      rfl
    · rw [hl]; exact ⟨rfl, rfl, rfl, rfl⟩

/-- **`GetWaitLock` is invisible to stage 1** -/
theorem abs_getWaitLock (k : Key) (rc : RCx k zero) : Key.abs k.getWaitLock.1 = Key.abs k := by
  obtain ⟨w1, w2, w3, w4⟩ := waitSkip_live k.wait k rfl
  obtain ⟨rc', c1, c2⟩ := waitSkip_rc zero_nonneg k.wait k rc rfl
  apply abs_ext
  · exact w2
  · exact w3
  · refine abs_holders_congr (X := fun _ => False) c1 c2 (PKeepX.of_pk (PKeep.getWaitLock ins_πA k)) (fun _ _ h => h) ?_
    intro y hy
    apply rc'.dang
    have : 0 < (waitSkip k.wait k).1.qRefs y := by
      apply qRefs_pos_of_holder
      show y ∈ (waitSkip k.wait k).1.current.toList ++ (waitSkip k.wait k).1.locks
      rw [c1, c2]; exact hy
    simp only [zero]; omega
  · rw [abs_waiters, abs_waiters]; exact w1
  · exact w4

end Slock.Sim
