import Slock.Proofs.ElectRun
/-!
The proposer-side bookkeeping seen from the candidate itself: the only steps (other than a restart) that can lower a
member's `proposalId` / `commitId` are the two assignments at the successful end of `DoProposal` / `DoCommit`.
-/
namespace Slock.Elect

/-- what the proposer-side bookkeeping (`DoRequests` completion, `DoVote`/`DoProposal`/`DoCommit` endings) may do to the
acceptor numbers of the candidate itself: nothing, or `proposalId = proposalIndex` at the successful end of DoProposal,
or `commitId = proposalId` at the successful end of DoCommit -/
def CandRel (m m' : Member) : Prop :=
  (m'.pid = m.pid ∨ (m.phase = .prop ∧ m'.phase = .commit ∧ m'.pid = m'.pidx)) ∧
  (m'.cid = m.cid ∨ (m.phase = .commit ∧ m'.phase = .won ∧ m'.cid = m.pid))

theorem candRel_checkComplete (n c : Nat) (m : Member) : CandRel m (checkComplete n c m).1 := by
  unfold checkComplete
  split
  · exact ⟨Or.inl rfl, Or.inl rfl⟩
  · cases hp : m.phase with
    | idle => exact ⟨Or.inl rfl, Or.inl rfl⟩
    | won => exact ⟨Or.inl rfl, Or.inl rfl⟩
    | vote =>
      simp only []
      unfold finishVote
      split
      · exact ⟨Or.inl rfl, Or.inl rfl⟩
      · split
        · exact ⟨Or.inl rfl, Or.inl rfl⟩
        · exact ⟨Or.inl rfl, Or.inl rfl⟩
    | prop =>
      simp only []
      unfold finishProposal
      split
      · exact ⟨Or.inl rfl, Or.inl rfl⟩
      · split
        · exact ⟨Or.inl rfl, Or.inl rfl⟩
        · exact ⟨Or.inr ⟨hp, rfl, rfl⟩, Or.inl rfl⟩
    | commit =>
      simp only []
      unfold finishCommit
      split
      · exact ⟨Or.inl rfl, Or.inl rfl⟩
      · exact ⟨Or.inl rfl, Or.inr ⟨hp, rfl, rfl⟩⟩


theorem candRel_of_eq {m m1 m' : Member} (h : CandRel m1 m') (hp : m1.pid = m.pid) (hc : m1.cid = m.cid)
    (hph : m1.phase = m.phase) : CandRel m m' := by
  unfold CandRel at *
  rw [hp, hc, hph] at h
  exact h

theorem candRel_recordError (n c : Nat) (m : Member) : CandRel m (recordError n c m).1 := by
  unfold recordError
  exact candRel_of_eq (candRel_checkComplete n c _) rfl rfl rfl

theorem candRel_recordVote (n c t : Nat) (m : Member) (r : VoteResp) (b : Bool) : CandRel m (recordVote n c t m r b).1 := by
  unfold recordVote
  split
  · exact ⟨Or.inl rfl, Or.inl rfl⟩
  · cases b
    · exact candRel_of_eq (candRel_checkComplete n c _) rfl rfl rfl
    · exact candRel_of_eq (candRel_checkComplete n c _) rfl rfl rfl

theorem candRel_recordProposal (n c : Nat) (m : Member) (r : PropRes) (b : Bool) : CandRel m (recordProposal n c m r b).1 := by
  unfold recordProposal
  split
  · exact ⟨Or.inl rfl, Or.inl rfl⟩
  · cases r with
    | ok o => exact candRel_of_eq (candRel_checkComplete n c _) rfl rfl rfl
    | reject => exact candRel_of_eq (candRel_checkComplete n c _) rfl rfl rfl
    | aofid => exact candRel_of_eq (candRel_checkComplete n c _) rfl rfl rfl
    | badHost => exact candRel_of_eq (candRel_checkComplete n c _) rfl rfl rfl
    | propId x =>
      simp only []
      split
      · exact candRel_of_eq (candRel_checkComplete n c _) rfl rfl rfl
      · exact candRel_of_eq (candRel_checkComplete n c _) rfl rfl rfl

theorem candRel_recordCommit (n c : Nat) (m : Member) (r : CommitRes) : CandRel m (recordCommit n c m r).1 := by
  unfold recordCommit
  split
  · exact ⟨Or.inl rfl, Or.inl rfl⟩
  · cases r <;> exact candRel_of_eq (candRel_checkComplete n c _) rfl rfl rfl

/-- one step seen from any member that is not being restarted by it: its numbers do not decrease, EXCEPT through the two
proposer-side assignments -/
def StepRel (m m' : Member) : Prop :=
  (m.pid ≤ m'.pid ∨ (m.phase = .prop ∧ m'.phase = .commit ∧ m'.pid = m'.pidx)) ∧
  (m.cid ≤ m'.cid ∨ (m.phase = .commit ∧ m'.phase = .won))

theorem StepRel.refl (m : Member) : StepRel m m := ⟨Or.inl (Nat.le_refl _), Or.inl (Nat.le_refl _)⟩

theorem StepRel.of_acc {m m' : Member} (h : AccRel m m') : StepRel m m' :=
  ⟨Or.inl h.mono.2.1, Or.inl h.mono.2.2⟩

theorem StepRel.of_cand {m m' : Member} (h : CandRel m m') : StepRel m m' := by
  obtain ⟨h1, h2⟩ := h
  constructor
  · rcases h1 with h1 | h1
    · left; omega
    · right; exact h1
  · rcases h2 with h2 | ⟨a, b, _⟩
    · left; omega
    · right; exact ⟨a, b⟩

theorem StepRel.of_acc_cand {m a m' : Member} (h1 : AccRel m a) (h2 : CandRel a m') : StepRel m m' := by
  obtain ⟨hp, hpid, hcid⟩ := h1.mono
  obtain ⟨c1, c2⟩ := h2
  constructor
  · rcases c1 with c1 | ⟨x, y, z⟩
    · left; omega
    · right; exact ⟨by rw [← hp]; exact x, y, z⟩
  · rcases c2 with c2 | ⟨x, y, _⟩
    · left; omega
    · right; exact ⟨by rw [← hp]; exact x, y⟩

theorem step_rel (s : State) (e : Event) (i : Nat) (hr : e ≠ .restart i) :
    StepRel (getM s.members i) (getM (step s e).1.members i) := by
  unfold step
  cases e with
  | start c =>
    simp only []
    split
    · rename_i hc
      split
      · by_cases hic : i = c
        · subst hic
          simp only [State.n] at hc
          rw [getM_setM_eq _ _ _ hc]
          exact ⟨Or.inl (Nat.le_refl _), Or.inl (Nat.le_refl _)⟩
        · simp only [getM_setM_ne _ _ _ _ hic]; exact StepRel.refl _
      · exact StepRel.refl _
    · exact StepRel.refl _
  | restart c =>
    have hci : i ≠ c := fun h => hr (by rw [h])
    simp only []
    split
    · simp only [getM_setM_ne _ _ _ _ hci]; exact StepRel.refl _
    · exact StepRel.refl _
  | save c =>
    simp only []
    split
    · rename_i hc
      by_cases hci : i = c
      · subst hci
        simp only [State.n] at hc
        rw [getM_setM_eq _ _ _ hc]
        exact ⟨Or.inl (Nat.le_refl _), Or.inl (Nat.le_refl _)⟩
      · simp only [getM_setM_ne _ _ _ _ hci]; exact StepRel.refl _
    · exact StepRel.refl _
  | deliverReq c t =>
    simp only []
    split
    · rename_i hct
      simp only [State.n] at hct
      split
      · exact StepRel.refl _
      · rename_i msg rest _
        cases msg with
        | voteReq a b =>
          simp only []
          by_cases htc : t = c
          · simp only [htc, if_true]
            by_cases hic : i = c
            · subst hic
              simp only [getM_setM_eq _ _ _ hct.1]
              exact StepRel.of_acc_cand (accRel_handleVote i (getM s.members i)) (candRel_recordVote _ _ _ _ _ _)
            · simp only [getM_setM_ne _ _ _ _ hic]; exact StepRel.refl _
          · simp only [htc, if_false]
            by_cases hit : i = t
            · subst hit
              simp only [getM_setM_eq _ _ _ hct.2]
              exact StepRel.of_acc (accRel_handleVote i (getM s.members i))
            · simp only [getM_setM_ne _ _ _ _ hit]; exact StepRel.refl _
        | propReq a b k host aof =>
          simp only []
          by_cases htc : t = c
          · simp only [htc, if_true]
            by_cases hic : i = c
            · subst hic
              simp only [getM_setM_eq _ _ _ hct.1]
              exact StepRel.of_acc_cand (accRel_handleProposal s.n (getM s.members i) k host aof) (candRel_recordProposal _ _ _ _ _)
            · simp only [getM_setM_ne _ _ _ _ hic]; exact StepRel.refl _
          · simp only [htc, if_false]
            by_cases hit : i = t
            · subst hit
              simp only [getM_setM_eq _ _ _ hct.2]
              exact StepRel.of_acc (accRel_handleProposal s.n (getM s.members i) k host aof)
            · simp only [getM_setM_ne _ _ _ _ hit]; exact StepRel.refl _
        | commitReq a b k host =>
          simp only []
          by_cases htc : t = c
          · simp only [htc, if_true]
            by_cases hic : i = c
            · subst hic
              simp only [getM_setM_eq _ _ _ hct.1]
              exact StepRel.of_acc_cand (accRel_handleCommit s.n (getM s.members i) i k host) (candRel_recordCommit _ _ _ _)
            · simp only [getM_setM_ne _ _ _ _ hic]; exact StepRel.refl _
          · simp only [htc, if_false]
            by_cases hit : i = t
            · subst hit
              simp only [getM_setM_eq _ _ _ hct.2]
              exact StepRel.of_acc (accRel_handleCommit s.n (getM s.members i) c k host)
            · simp only [getM_setM_ne _ _ _ _ hit]; exact StepRel.refl _
        | voteRep a b r => exact StepRel.refl _
        | propRep a b r => exact StepRel.refl _
        | commitRep a b r => exact StepRel.refl _
    · exact StepRel.refl _
  | deliverRep c t =>
    simp only []
    split
    · rename_i hct
      simp only [State.n] at hct
      split
      · exact StepRel.refl _
      · rename_i msg rest _
        by_cases hic : i = c
        · subst hic
          cases msg with
          | voteRep a b r =>
            simp only [getM_setM_eq _ _ _ hct.1]; exact StepRel.of_cand (candRel_recordVote _ _ _ _ _ _)
          | propRep a b r =>
            simp only [getM_setM_eq _ _ _ hct.1]; exact StepRel.of_cand (candRel_recordProposal _ _ _ _ _)
          | commitRep a b r =>
            simp only [getM_setM_eq _ _ _ hct.1]; exact StepRel.of_cand (candRel_recordCommit _ _ _ _)
          | voteReq a b => exact StepRel.refl _
          | propReq a b k host aof => exact StepRel.refl _
          | commitReq a b k host => exact StepRel.refl _
        · cases msg <;> simp only [getM_setM_ne _ _ _ _ hic] <;> exact StepRel.refl _
    · exact StepRel.refl _
  | dropReq c t =>
    simp only []
    split
    · rename_i hct
      simp only [State.n] at hct
      split
      · exact StepRel.refl _
      · rename_i msg rest _
        split
        · by_cases hic : i = c
          · subst hic
            simp only [getM_setM_eq _ _ _ hct.1]; exact StepRel.of_cand (candRel_recordError _ _ _)
          · simp only [getM_setM_ne _ _ _ _ hic]; exact StepRel.refl _
        · exact StepRel.refl _
    · exact StepRel.refl _
  | dropRep c t =>
    simp only []
    split
    · rename_i hct
      simp only [State.n] at hct
      split
      · exact StepRel.refl _
      · rename_i msg rest _
        split
        · by_cases hic : i = c
          · subst hic
            simp only [getM_setM_eq _ _ _ hct.1]; exact StepRel.of_cand (candRel_recordError _ _ _)
          · simp only [getM_setM_ne _ _ _ _ hic]; exact StepRel.refl _
        · exact StepRel.refl _
    · exact StepRel.refl _

end Slock.Elect
