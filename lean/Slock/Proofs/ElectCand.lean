import Slock.Proofs.ElectRun
/-!
Every member, candidates included. One step that is not a restart of member `i` changes `i` by an acceptor move
(`AccRel`: one of the handlers, or nothing) followed by a proposer-side move (`CandW`: the bookkeeping of `DoRequests`
and the endings of `DoVote` / `DoProposal` / `DoCommit`). After the repairs of D2 and D3 the proposer-side moves are:
nothing; the guarded raise of `proposalId` (only when unlatched, only upwards — the promise the proposal handler itself
would make); the release of a latch the member set ITSELF after its own failed commit round; the win.

From that: `proposalId` and `commitId` of EVERY member never decrease while it is not restarted, a latched member never
acknowledges a commit, and the number of commits a member acknowledged is bounded by 1 + the number of times it
released its own latch.
-/
namespace Slock.Elect

/-- the proposer-side part of a step, seen from the candidate `c` itself -/
def CandW (c : Nat) (m m' : Member) : Prop :=
  m'.commits = m.commits ∧
  ( -- bookkeeping only
    (m'.pid = m.pid ∧ m'.cid = m.cid ∧ m'.latch = m.latch ∧ m'.clears = m.clears ∧ m'.phase = m.phase ∧ m'.voteHost = m.voteHost)
    -- a round starts / ends without touching the acceptor fields: idle, vote, or into the proposal round with a voted host
  ∨ (m'.pid = m.pid ∧ m'.cid = m.cid ∧ m'.latch = m.latch ∧ m'.clears = m.clears ∧
      (m'.phase = .idle ∨ m'.phase = .vote ∨ (m'.phase = .prop ∧ m'.voteHost.isSome)))
    -- successful end of DoProposal: proposalId unchanged, or raised while not latched
  ∨ (m.phase = .prop ∧ m'.phase = .commit ∧ m'.voteHost = m.voteHost ∧ m'.cid = m.cid ∧ m'.latch = m.latch ∧ m'.clears = m.clears ∧
      (m'.pid = m.pid ∨ (m.latch = none ∧ m.pid < m'.pid)))
    -- failed end of DoCommit that releases the member's OWN latch
  ∨ (m.phase = .commit ∧ m'.phase = .idle ∧ m.fromHost = some c ∧ m'.latch = none ∧
      m'.clears = (if m.latch.isSome then m.clears + 1 else m.clears) ∧ m'.pid = m.pid ∧ m'.cid = m.cid)
    -- successful end of DoCommit
  ∨ (m.phase = .commit ∧ m'.phase = .won ∧ m'.latch = m.voteHost ∧ m'.cid = m.pid ∧ m'.pid = m.pid ∧ m'.clears = m.clears))

theorem CandW.refl (c : Nat) (m : Member) : CandW c m m := ⟨rfl, Or.inl ⟨rfl, rfl, rfl, rfl, rfl, rfl⟩⟩

theorem candW_checkComplete (n c : Nat) (m : Member) : CandW c m (checkComplete n c m).1 := by
  unfold checkComplete
  split
  · exact CandW.refl c m
  · cases hp : m.phase with
    | idle => exact CandW.refl c m
    | won => exact CandW.refl c m
    | vote =>
      simp only []
      unfold finishVote
      split
      · exact ⟨rfl, Or.inr (Or.inl ⟨rfl, rfl, rfl, rfl, Or.inl rfl⟩)⟩
      · split
        · exact ⟨rfl, Or.inr (Or.inl ⟨rfl, rfl, rfl, rfl, Or.inl rfl⟩)⟩
        · exact ⟨rfl, Or.inr (Or.inl ⟨rfl, rfl, rfl, rfl, Or.inr (Or.inr ⟨rfl, rfl⟩)⟩)⟩
    | prop =>
      simp only []
      unfold finishProposal
      split
      · exact ⟨rfl, Or.inr (Or.inl ⟨rfl, rfl, rfl, rfl, Or.inl rfl⟩)⟩
      · split
        · exact ⟨rfl, Or.inr (Or.inl ⟨rfl, rfl, rfl, rfl, Or.inl rfl⟩)⟩
        · refine ⟨rfl, Or.inr (Or.inr (Or.inl ⟨hp, rfl, rfl, rfl, rfl, rfl, ?_⟩))⟩
          simp only [beginCommit]
          by_cases hg : (decide (m.pid < m.round) && m.latch.isNone) = true
          · right
            rw [if_pos hg]
            simp only [Bool.and_eq_true, decide_eq_true_eq] at hg
            refine ⟨?_, hg.1⟩
            cases hl : m.latch with
            | none => rfl
            | some x => rw [hl] at hg; simp at hg
          · left
            rw [if_neg hg]
    | commit =>
      simp only []
      unfold finishCommit
      split
      · split
        · rename_i hf
          exact ⟨rfl, Or.inr (Or.inr (Or.inr (Or.inl ⟨hp, rfl, hf, rfl, rfl, rfl, rfl⟩)))⟩
        · exact ⟨rfl, Or.inr (Or.inl ⟨rfl, rfl, rfl, rfl, Or.inl rfl⟩)⟩
      · exact ⟨rfl, Or.inr (Or.inr (Or.inr (Or.inr ⟨hp, rfl, rfl, rfl, rfl, rfl⟩)))⟩

/-- `CandW` only looks at these fields of its first argument -/
theorem candW_of_eq {c : Nat} {m m1 m' : Member} (h : CandW c m1 m')
    (h1 : m1.pid = m.pid) (h2 : m1.cid = m.cid) (h3 : m1.latch = m.latch) (h4 : m1.clears = m.clears)
    (h5 : m1.phase = m.phase) (h6 : m1.voteHost = m.voteHost) (h7 : m1.fromHost = m.fromHost) (h8 : m1.commits = m.commits) :
    CandW c m m' := by
  unfold CandW at *
  rw [h1, h2, h3, h4, h5, h6, h7, h8] at h
  exact h

theorem candW_recordError (n c : Nat) (m : Member) : CandW c m (recordError n c m).1 := by
  unfold recordError
  exact candW_of_eq (candW_checkComplete n c _) rfl rfl rfl rfl rfl rfl rfl rfl

theorem candW_recordVote (n c t : Nat) (m : Member) (r : VoteResp) (b : Bool) : CandW c m (recordVote n c t m r b).1 := by
  unfold recordVote
  split
  · exact CandW.refl c m
  · cases b
    · exact candW_of_eq (candW_checkComplete n c _) rfl rfl rfl rfl rfl rfl rfl rfl
    · exact candW_of_eq (candW_checkComplete n c _) rfl rfl rfl rfl rfl rfl rfl rfl

theorem candW_recordProposal (n c : Nat) (m : Member) (r : PropRes) (b : Bool) : CandW c m (recordProposal n c m r b).1 := by
  unfold recordProposal
  split
  · exact CandW.refl c m
  · cases r with
    | propId x =>
      simp only []
      split
      · exact candW_of_eq (candW_checkComplete n c _) rfl rfl rfl rfl rfl rfl rfl rfl
      · exact candW_of_eq (candW_checkComplete n c _) rfl rfl rfl rfl rfl rfl rfl rfl
    | ok o => exact candW_of_eq (candW_checkComplete n c _) rfl rfl rfl rfl rfl rfl rfl rfl
    | reject => exact candW_of_eq (candW_checkComplete n c _) rfl rfl rfl rfl rfl rfl rfl rfl
    | role => exact candW_of_eq (candW_checkComplete n c _) rfl rfl rfl rfl rfl rfl rfl rfl
    | status => exact candW_of_eq (candW_checkComplete n c _) rfl rfl rfl rfl rfl rfl rfl rfl
    | aofid => exact candW_of_eq (candW_checkComplete n c _) rfl rfl rfl rfl rfl rfl rfl rfl
    | badHost => exact candW_of_eq (candW_checkComplete n c _) rfl rfl rfl rfl rfl rfl rfl rfl
    | offline => exact candW_of_eq (candW_checkComplete n c _) rfl rfl rfl rfl rfl rfl rfl rfl

theorem candW_recordCommit (n c : Nat) (m : Member) (r : CommitRes) : CandW c m (recordCommit n c m r).1 := by
  unfold recordCommit
  split
  · exact CandW.refl c m
  · cases r <;> exact candW_of_eq (candW_checkComplete n c _) rfl rfl rfl rfl rfl rfl rfl rfl

/-- decomposition of a step, for any member that the step does not restart -/
theorem step_decomp (s : State) (e : Event) (i : Nat) (hr : e ≠ .restart i) :
    ∃ a, AccRel (getM s.members i) a ∧ CandW i a (getM (step s e).1.members i) := by
  have triv : ∃ a, AccRel (getM s.members i) a ∧ CandW i a (getM s.members i) :=
    ⟨_, AccRel.refl _, CandW.refl _ _⟩
  unfold step
  cases e with
  | start c =>
    simp only []
    split
    · rename_i hc
      split
      · by_cases hic : i = c
        · subst hic
          simp only [State.n] at hc
          rw [getM_setM_eq _ _ _ hc]
          exact ⟨_, AccRel.refl _, rfl, Or.inr (Or.inl ⟨rfl, rfl, rfl, rfl, Or.inr (Or.inl rfl)⟩)⟩
        · simp only [getM_setM_ne _ _ _ _ hic]; exact triv
      · exact triv
    · exact triv
  | restart c =>
    have hci : i ≠ c := fun h => hr (by rw [h])
    simp only []
    split
    · simp only [getM_setM_ne _ _ _ _ hci]; exact triv
    · exact triv
  | save c =>
    simp only []
    split
    · rename_i hc
      by_cases hci : i = c
      · subst hci
        simp only [State.n] at hc
        rw [getM_setM_eq _ _ _ hc]
        exact ⟨_, AccRel.refl _, rfl, Or.inl ⟨rfl, rfl, rfl, rfl, rfl, rfl⟩⟩
      · simp only [getM_setM_ne _ _ _ _ hci]; exact triv
    · exact triv
  | deliverReq c t =>
    simp only []
    split
    · rename_i hct
      simp only [State.n] at hct
      split
      · exact triv
      · rename_i msg rest _
        cases msg with
        | voteReq a b =>
          simp only []
          by_cases htc : t = c
          · simp only [htc, if_true]
            by_cases hic : i = c
            · subst hic
              simp only [getM_setM_eq _ _ _ hct.1]
              exact ⟨_, accRel_handleVote i (getM s.members i), candW_recordVote _ _ _ _ _ _⟩
            · simp only [getM_setM_ne _ _ _ _ hic]; exact triv
          · simp only [htc, if_false]
            by_cases hit : i = t
            · subst hit
              simp only [getM_setM_eq _ _ _ hct.2]
              exact ⟨_, accRel_handleVote i (getM s.members i), CandW.refl _ _⟩
            · simp only [getM_setM_ne _ _ _ _ hit]; exact triv
        | propReq a b k host aof =>
          simp only []
          by_cases htc : t = c
          · simp only [htc, if_true]
            by_cases hic : i = c
            · subst hic
              simp only [getM_setM_eq _ _ _ hct.1]
              exact ⟨_, accRel_handleProposal s.n i (getM s.members i) k host aof, candW_recordProposal _ _ _ _ _⟩
            · simp only [getM_setM_ne _ _ _ _ hic]; exact triv
          · simp only [htc, if_false]
            by_cases hit : i = t
            · subst hit
              simp only [getM_setM_eq _ _ _ hct.2]
              exact ⟨_, accRel_handleProposal s.n i (getM s.members i) k host aof, CandW.refl _ _⟩
            · simp only [getM_setM_ne _ _ _ _ hit]; exact triv
        | commitReq a b k host =>
          simp only []
          by_cases htc : t = c
          · simp only [htc, if_true]
            by_cases hic : i = c
            · subst hic
              simp only [getM_setM_eq _ _ _ hct.1]
              exact ⟨_, accRel_handleCommit s.n (getM s.members i) i k host, candW_recordCommit _ _ _ _⟩
            · simp only [getM_setM_ne _ _ _ _ hic]; exact triv
          · simp only [htc, if_false]
            by_cases hit : i = t
            · subst hit
              simp only [getM_setM_eq _ _ _ hct.2]
              exact ⟨_, accRel_handleCommit s.n (getM s.members i) c k host, CandW.refl _ _⟩
            · simp only [getM_setM_ne _ _ _ _ hit]; exact triv
        | voteRep a b r => exact triv
        | propRep a b r => exact triv
        | commitRep a b r => exact triv
    · exact triv
  | deliverRep c t =>
    simp only []
    split
    · rename_i hct
      simp only [State.n] at hct
      split
      · exact triv
      · rename_i msg rest _
        by_cases hic : i = c
        · subst hic
          cases msg with
          | voteRep a b r =>
            simp only [getM_setM_eq _ _ _ hct.1]; exact ⟨_, AccRel.refl _, candW_recordVote _ _ _ _ _ _⟩
          | propRep a b r =>
            simp only [getM_setM_eq _ _ _ hct.1]; exact ⟨_, AccRel.refl _, candW_recordProposal _ _ _ _ _⟩
          | commitRep a b r =>
            simp only [getM_setM_eq _ _ _ hct.1]; exact ⟨_, AccRel.refl _, candW_recordCommit _ _ _ _⟩
          | voteReq a b => exact triv
          | propReq a b k host aof => exact triv
          | commitReq a b k host => exact triv
        · cases msg <;> simp only [getM_setM_ne _ _ _ _ hic] <;> exact triv
    · exact triv
  | dropReq c t =>
    simp only []
    split
    · rename_i hct
      simp only [State.n] at hct
      split
      · exact triv
      · rename_i msg rest _
        split
        · by_cases hic : i = c
          · subst hic
            simp only [getM_setM_eq _ _ _ hct.1]; exact ⟨_, AccRel.refl _, candW_recordError _ _ _⟩
          · simp only [getM_setM_ne _ _ _ _ hic]; exact triv
        · exact triv
    · exact triv
  | dropRep c t =>
    simp only []
    split
    · rename_i hct
      simp only [State.n] at hct
      split
      · exact triv
      · rename_i msg rest _
        split
        · by_cases hic : i = c
          · subst hic
            simp only [getM_setM_eq _ _ _ hct.1]; exact ⟨_, AccRel.refl _, candW_recordError _ _ _⟩
          · simp only [getM_setM_ne _ _ _ _ hic]; exact triv
        · exact triv
    · exact triv

/-! ### the invariant of every member that is not restarted -/

/-- `commitId ≤ proposalId`; a latched member has them equal (so it cannot acknowledge a commit, which needs
`commitId < proposalId`); a member in its proposal or commit round has a voted host; the acknowledged commits are at most
one per release of the member's own latch, plus one while it is latched -/
def Good (m : Member) : Prop :=
  m.cid ≤ m.pid ∧ (m.latch ≠ none → m.pid = m.cid) ∧
  ((m.phase = .prop ∨ m.phase = .commit) → m.voteHost.isSome = true) ∧
  m.commits.length ≤ m.clears + (if m.latch.isSome then 1 else 0)

theorem AccRel.good {m m' : Member} (h : AccRel m m') (hg : Good m) :
    Good m' ∧ m.pid ≤ m'.pid ∧ m.cid ≤ m'.cid ∧ (m'.commits ≠ m.commits → m.latch = none) := by
  obtain ⟨g1, g2, g3, g4⟩ := hg
  obtain ⟨hp, hc, hv, h⟩ := h
  rcases h with ⟨h1, h2, h3, h4⟩ | ⟨h1, h2, h3, h4, h5, h6⟩ | ⟨x, h1, h2, h3, h4, h5⟩
  · refine ⟨⟨by omega, ?_, by rw [hp, hv]; exact g3, by rw [h4, hc, h3]; exact g4⟩, by omega, by omega, fun hne => absurd h4 hne⟩
    rw [h3, h1, h2]; exact g2
  · refine ⟨⟨by omega, fun hl => absurd h5 hl, by rw [hp, hv]; exact g3, ?_⟩, by omega, by omega, fun _ => h1⟩
    rw [h6, hc, h5]; rw [h1] at g4; exact g4
  · have hln : m.latch = none := by
      cases hl : m.latch with
      | none => rfl
      | some y =>
        have := g2 (by rw [hl]; simp)
        omega
    refine ⟨⟨by omega, fun _ => by omega, by rw [hp, hv]; exact g3, ?_⟩, by omega, by omega, fun _ => hln⟩
    rw [h5, hc, h4]
    rw [hln] at g4
    simp at g4 ⊢
    omega

theorem CandW.good {c : Nat} {m m' : Member} (h : CandW c m m') (hg : Good m) :
    Good m' ∧ m.pid ≤ m'.pid ∧ m.cid ≤ m'.cid := by
  obtain ⟨g1, g2, g3, g4⟩ := hg
  obtain ⟨hcm, h⟩ := h
  rcases h with ⟨h1, h2, h3, h4, h5, h6⟩ | ⟨h1, h2, h3, h4, h5⟩ | ⟨p1, p2, h6, h2, h3, h4, h1⟩ | ⟨p1, p2, hf, h3, h4, h1, h2⟩ | ⟨p1, p2, h3, h2, h1, h4⟩
  · refine ⟨⟨by omega, by rw [h3, h1, h2]; exact g2, by rw [h5, h6]; exact g3, by rw [hcm, h4, h3]; exact g4⟩, by omega, by omega⟩
  · refine ⟨⟨by omega, by rw [h3, h1, h2]; exact g2, ?_, by rw [hcm, h4, h3]; exact g4⟩, by omega, by omega⟩
    intro hph
    rcases h5 with h5 | h5 | ⟨_, h5⟩
    · rw [h5] at hph; simp at hph
    · rw [h5] at hph; simp at hph
    · exact h5
  · have hv : m'.voteHost.isSome = true := by rw [h6]; exact g3 (Or.inl p1)
    rcases h1 with h1 | ⟨hl, h1⟩
    · exact ⟨⟨by omega, by rw [h3, h1, h2]; exact g2, fun _ => hv, by rw [hcm, h4, h3]; exact g4⟩, by omega, by omega⟩
    · exact ⟨⟨by omega, fun hl' => by rw [h3] at hl'; exact absurd hl hl', fun _ => hv, by rw [hcm, h4, h3]; exact g4⟩, by omega, by omega⟩
  · refine ⟨⟨by omega, fun hl => absurd h3 hl, ?_, ?_⟩, by omega, by omega⟩
    · intro hph; rw [p2] at hph; simp at hph
    · rw [hcm, h4, h3]
      cases hl : m.latch with
      | none => rw [hl] at g4; simpa using g4
      | some y => rw [hl] at g4; simp at g4 ⊢; omega
  · have hv : m.voteHost.isSome = true := g3 (Or.inr p1)
    refine ⟨⟨by omega, fun _ => by omega, ?_, ?_⟩, by omega, by omega⟩
    · intro hph; rw [p2] at hph; simp at hph
    · have hb : m.commits.length ≤ m.clears + 1 := by split at g4 <;> omega
      rw [hcm, h4, h3, hv]
      simpa using hb

/-- one step, any member that it does not restart -/
theorem step_good (s : State) (e : Event) (i : Nat) (hr : e ≠ .restart i) (hg : Good (getM s.members i)) :
    Good (getM (step s e).1.members i) ∧
    (getM s.members i).pid ≤ (getM (step s e).1.members i).pid ∧
    (getM s.members i).cid ≤ (getM (step s e).1.members i).cid ∧
    ((getM (step s e).1.members i).commits ≠ (getM s.members i).commits → (getM s.members i).latch = none) := by
  obtain ⟨a, h1, h2⟩ := step_decomp s e i hr
  obtain ⟨ga, p1, c1, l1⟩ := h1.good hg
  obtain ⟨gm, p2, c2⟩ := h2.good ga
  refine ⟨gm, by omega, by omega, ?_⟩
  intro hne
  apply l1
  rw [← h2.1]
  exact hne

/-- along any execution that does not restart member `i` -/
theorem run_good (es : List Event) : ∀ (s : State) (i : Nat), (∀ e ∈ es, e ≠ .restart i) → Good (getM s.members i) →
    Good (getM (run s es).members i) ∧
    (getM s.members i).pid ≤ (getM (run s es).members i).pid ∧
    (getM s.members i).cid ≤ (getM (run s es).members i).cid := by
  induction es with
  | nil => intro s i _ h; exact ⟨h, Nat.le_refl _, Nat.le_refl _⟩
  | cons e es ih =>
    intro s i hnr hg
    obtain ⟨g1, p1, c1, _⟩ := step_good s e i (hnr e (by simp)) hg
    obtain ⟨g2, p2, c2⟩ := ih (step s e).1 i (fun x hx => hnr x (by simp [hx])) g1
    simp only [run]
    exact ⟨g2, by omega, by omega⟩

theorem two_le_length_of_ne {α : Type} {l : List α} {a b : α} (ha : a ∈ l) (hb : b ∈ l) (hne : a ≠ b) : 2 ≤ l.length := by
  cases l with
  | nil => simp at ha
  | cons x l =>
    cases l with
    | nil =>
      simp at ha hb
      exact absurd (ha.trans hb.symm) hne
    | cons y l => simp

end Slock.Elect
