import Slock.Proofs.Engine2SimUpdOps
/-! Simulation stage 2 → stage 1: a queued request leaves the queue (cancel, timeout) — the record is tombstoned where it sits, stage 1
removes "the first waiter with that (RequestId, connection)"; `settleWait`. -/
namespace Slock.Sim
open Slock Slock.Engine2
open Slock.Engine (has)

/-- the identity stage 1's `removeWaiter` goes by -/
def rcOf (w : Engine.Waiter) : Nat × Nat := (w.cmd.req, w.conn)

theorem removeWaiter_map (l : List Nat) (f : Nat → Engine.Waiter) (x : Nat) (hx : x ∈ l) (hnd : (l.map (fun y => rcOf (f y))).Nodup) :
    Engine.removeWaiter (l.map f) (f x) = (l.filter (· != x)).map f := by
  induction l with
  | nil => simp at hx
  | cons a as ih =>
    simp only [List.map_cons, List.nodup_cons] at hnd
    unfold Engine.removeWaiter
    by_cases e : a = x
    · subst e
      simp only [List.map_cons, beq_self_eq_true, Bool.and_self, if_true, List.filter, bne_self_eq_false]
      symm
      congr 1
      apply List.filter_eq_self.mpr
      intro y hy
      have : y ≠ a := by
        intro e; subst e
        exact hnd.1 (List.mem_map.mpr ⟨y, hy, rfl⟩)
      simpa using this
    · have hxa : x ∈ as := by rcases List.mem_cons.mp hx with h | h; exact absurd h.symm e; exact h
      have hne : ¬ ((f a).cmd.req = (f x).cmd.req ∧ (f a).conn = (f x).conn) := by
        intro ⟨e1, e2⟩
        apply hnd.1
        have : rcOf (f a) = rcOf (f x) := by unfold rcOf; rw [e1, e2]
        rw [this]
        exact List.mem_map.mpr ⟨x, hxa, rfl⟩
      have hc : ((f a).cmd.req == (f x).cmd.req && (f a).conn == (f x).conn) = false := by
        cases h1 : ((f a).cmd.req == (f x).cmd.req && (f a).conn == (f x).conn) with
        | false => rfl
        | true =>
          simp only [Bool.and_eq_true, beq_iff_eq] at h1
          exact absurd h1 hne
      simp only [List.map_cons, hc, Bool.false_eq_true, if_false]
      have hax : (a != x) = true := by simpa using e
      simp only [List.filter, hax, List.map_cons]
      rw [ih hxa hnd.2]

def keyW (k : Engine.Key) (ws : List Engine.Waiter) : Engine.Key := { k with waiters := ws }

/-- **a live queued request is tombstoned** (by a step that keeps the queues and every other record's view): stage 1's `removeWaiter` -/
theorem abs_tomb {k k' : Key} (x : Nat) (hk : k'.key = k.key) (hlk : k'.locked = k.locked) (hw : k'.waited = k.waited) (q : k'.queues = k.queues)
    (p : PKeepX πA (· = x) k' k)
    (hrec : ∀ y ∈ k.current.toList ++ k.locks ++ k.wait.map (·.rid), k'.hasRec y)
    (hm : x ∈ k.wait.map (·.rid)) (hd : k.deadWaiter x = false) (hd' : k'.deadWaiter x = true)
    (hnot : x ∉ k.current.toList ++ k.locks) (wu : ((Key.abs k).waiters.map rcOf).Nodup) :
    Key.abs k' = keyW (Key.abs k) (Engine.removeWaiter (Key.abs k).waiters (waiterOf k x)) := by
  obtain ⟨q1, q2, q3⟩ := queues_eq q
  refine abs_ext hk hlk ?_ ?_ hw
  · exact abs_holders_congr q1 q2 p (fun y hy e => hnot (e ▸ hy)) (fun y hy => hrec y (List.mem_append_left _ hy))
  · show (Key.abs k').waiters = Engine.removeWaiter (Key.abs k).waiters (waiterOf k x)
    rw [abs_waiters] at wu ⊢
    rw [List.map_map] at wu
    rw [abs_waiters, q3, removeWaiter_map _ (waiterOf k) x (List.mem_filter.mpr ⟨hm, by rw [hd]; rfl⟩) wu, List.filter_filter]
    apply filter_map_congr_on
    intro y hy
    by_cases e : y = x
    · subst e
      rw [hd']
      exact ⟨by simp, fun h => by simp at h⟩
    · have hv := p.val y e (hrec y (List.mem_append_right _ hy))
      have ht : k'.deadWaiter y = k.deadWaiter y := timeouted_of_πA hv
      refine ⟨by rw [ht]; simp [e], fun _ => congrArg (fun t => t.2.1) hv⟩

/-- **`settleWait`** (pop tombstoned heads; `waited := false` when no live request is left) as stage 1 sees it -/
theorem abs_settleWait (k : Key) (rc : RCx k zero) :
    Key.abs k.settleWait = { Key.abs k with waited := if (Key.abs k).waiters.isEmpty then false else k.waited } := by
  have ha := abs_getWaitLock k rc
  unfold Key.settleWait
  cases hr : k.getWaitLock.2 with
  | none =>
    simp only [Option.isNone_none, if_true]
    have hw0 : k.getWaitLock.1.wait = [] := waitSkip_none k.wait k rfl hr
    have hws : (Key.abs k).waiters = [] := by rw [← ha, abs_waiters, hw0]; rfl
    rw [hws]
    simp only [List.isEmpty_nil, if_true]
    show ({ Key.abs k.getWaitLock.1 with waited := false } : Engine.Key) = _
    rw [ha]
    exact abs_ext rfl rfl rfl hws rfl
  | some rid =>
    simp only [Option.isNone_some, Bool.false_eq_true, if_false]
    obtain ⟨e, rest, hw, he, hd⟩ := getWaitLock_some k rid hr
    have hws : (Key.abs k).waiters ≠ [] := by
      rw [← ha, abs_waiters, hw]
      simp only [List.map_cons, List.filter, he, hd, Bool.not_false]
      simp
    have : (Key.abs k).waiters.isEmpty = false := by
      cases h : (Key.abs k).waiters with
      | nil => exact absurd h hws
      | cons _ _ => rfl
    rw [this, ha]
    simp only [Bool.false_eq_true, if_false]
    exact abs_ext rfl rfl rfl rfl rfl

def keyCancel (k : Engine.Key) (w : Engine.Waiter) : Engine.Key :=
  { k with waiters := Engine.removeWaiter k.waiters w, waited := if (Engine.removeWaiter k.waiters w).isEmpty then false else k.waited }

/-- the state after the request `x` has been taken out of the queue (tombstone, long-table entry, `settleWait`, `WaitCount--`):
shared by cancel and timeout -/
theorem tomb_live (s : DB) (hq : DBQ s) (c : Engine.Cmd) (x : Nat)
    (hm : x ∈ (s.getKey c.key).wait.map (·.rid)) (hd : (s.getKey c.key).deadWaiter x = false)
    (hwq : WQ (s.getKey c.key)) (hki : Engine.KeyInv (Key.abs (s.getKey c.key))) (wu : ((Key.abs (s.getKey c.key)).waiters.map rcOf).Nodup) :
    Live ((((s.openKey c.key).modR x (fun r => { r with timeouted := true })).dropLongT x).modK (·.settleWait)) (keyCancel (Key.abs (s.getKey c.key)) (waiterOf (s.getKey c.key) x)) ∧ SC (s.openKey c.key) ((((s.openKey c.key).modR x (fun r => { r with timeouted := true })).dropLongT x).modK (·.settleWait)) := by
  have hdbi := hq.dbt.dbi
  have ht := hq.dbt.tight
  have ge := Good.openKey hdbi ht c.key
  have le := ge.lv
  have ce := cur_openKey ht c.key
  have hq0 : 0 < (s.openKey c.key).k.qRefs x := qRefs_pos_of_wait_mem _ x hm
  have hh : (s.openKey c.key).k.hasRec x := le.rc.dang x (by simp only [zero]; omega)
  have l1 : Lv ((s.openKey c.key).modR x (fun r => { r with timeouted := true })) zero :=
    le.modR x _ (fun _ => rfl) (le.rc.modRec_plain x _ (fun _ => rfl) (fun _ => rfl) (fun _ => rfl)) (by
      intro r _ _ hf; simp at hf)
  have n1 : Nz ((s.openKey c.key).modR x (fun r => { r with timeouted := true })) none :=
    ge.nz.of_up (RecsUp.modRec _ x _ (fun _ => rfl) (fun _ h => ⟨h.pos, h.hold, h.ended, h.fin⟩))
  have hh1 : ((s.openKey c.key).modR x (fun r => { r with timeouted := true })).k.hasRec x := (hasRec_modR _ x x (fun r => { r with timeouted := true }) (by intro _; rfl)).mpr hh
  have l2 := l1.dropLongT zero_nonneg x hh1
  have n2 : Nz (((s.openKey c.key).modR x (fun r => { r with timeouted := true })).dropLongT x) none := by
    unfold W.dropLongT W.when
    split
    · rename_i hl
      exact n1.removeLongT zero_nonneg l1 x hq0 (tLong_isSome _ hl)
    · exact n1
  have l3 : Lv ((((s.openKey c.key).modR x (fun r => { r with timeouted := true })).dropLongT x).modK (·.settleWait)) zero := l2.modK _ (settleWait_rc zero_nonneg l2.rc) (RecsLe.settleWait _)
  have n3 : Nz ((((s.openKey c.key).modR x (fun r => { r with timeouted := true })).dropLongT x).modK (·.settleWait)) none := by
    have := nz_settleWait n2.nd n2.nz
    exact ⟨this.1, this.2⟩
  have c1 := ce.of_dk (dk_modR _ x (fun r => { r with timeouted := true }) (by intro _; rfl) (by intro _; rfl)) l1
  have c2 := c1.of_dk (dk_dropLongT _ x) l2
  have c3 := c2.of_dk (dk_modK _ (·.settleWait) (DepthKeep.settleWait _)) l3
  have g4 : Good ((((s.openKey c.key).modR x (fun r => { r with timeouted := true })).dropLongT x).modK (·.settleWait)) := ⟨l3, n3⟩
  -- stage 1's view
  have sx : SX (· = x) (s.openKey c.key) (((s.openKey c.key).modR x (fun r => { r with timeouted := true })).dropLongT x) := ((SX.refl (X := (· = x)) (s.openKey c.key)).modR_in x (fun r => { r with timeouted := true }) (by intro _; rfl) rfl).dropLongT x rfl
  obtain ⟨q1, q2, q3⟩ := queues_eq sx.q
  have hrec2 : ∀ y ∈ (s.openKey c.key).k.current.toList ++ (s.openKey c.key).k.locks ++ (s.openKey c.key).k.wait.map (·.rid), (((s.openKey c.key).modR x (fun r => { r with timeouted := true })).dropLongT x).k.hasRec y := by
    intro y hy
    apply l2.rc.dang
    have := qRefs_pos_of_any _ y hy
    have h0 := qRefs_of_queues sx.q y
    show 0 < ((((s.openKey c.key).modR x (fun r => { r with timeouted := true })).dropLongT x).k.qRefs y : Int) + 0
    omega
  have hx2 : (((s.openKey c.key).modR x (fun r => { r with timeouted := true })).dropLongT x).k.hasRec x := hrec2 x (List.mem_append_right _ hm)
  have hd2 : (((s.openKey c.key).modR x (fun r => { r with timeouted := true })).dropLongT x).k.deadWaiter x = true := by
    have p : PK (·.timeouted) (((s.openKey c.key).modR x (fun r => { r with timeouted := true })).dropLongT x) ((s.openKey c.key).modR x (fun r => { r with timeouted := true })) := pk_dropLongT ins_timeouted _ x (fun _ _ => rfl)
    have := p.val x hx2
    show ((((s.openKey c.key).modR x (fun r => { r with timeouted := true })).dropLongT x).k.getR x).timeouted = true
    rw [this]
    show (((s.openKey c.key).k.modRec x (fun r => { r with timeouted := true })).getR x).timeouted = true
    rw [getR_modRec_same _ x (fun r => { r with timeouted := true }) (by intro _; rfl) hh]
  have hnot : x ∉ (s.openKey c.key).k.current.toList ++ (s.openKey c.key).k.locks := by
    obtain ⟨e, he, hex⟩ := List.mem_map.mp hm
    have := hwq.sep e he (by rw [hex]; exact hd)
    rw [hex] at this; exact this
  have hlk2 : (((s.openKey c.key).modR x (fun r => { r with timeouted := true })).dropLongT x).k.locked = (s.openKey c.key).k.locked := ((FQ.modR _ _ _).trans (FQ.dropLongT _ _)).qt.locked
  have habs2 := abs_tomb x sx.key hlk2 sx.waited sx.q sx.p hrec2 hm hd hd2 hnot wu
  have habs3 : Key.abs ((((s.openKey c.key).modR x (fun r => { r with timeouted := true })).dropLongT x).modK (·.settleWait)).k = keyCancel (Key.abs (s.getKey c.key)) (waiterOf (s.getKey c.key) x) := by
    show Key.abs (((s.openKey c.key).modR x (fun r => { r with timeouted := true })).dropLongT x).k.settleWait = _
    rw [abs_settleWait _ l2.rc, habs2]
    have : (((s.openKey c.key).modR x (fun r => { r with timeouted := true })).dropLongT x).k.waited = (Key.abs (s.getKey c.key)).waited := sx.waited
    rw [this]
    rfl
  have hwq2 : WQ (((s.openKey c.key).modR x (fun r => { r with timeouted := true })).dropLongT x).k :=
    WQ.step (k := (s.getKey c.key)) hwq x q3 sx.p (wait_hasRec l2) (fun _ _ _ => hd2) (fun y hy => Or.inl (by
      show y ∈ (s.openKey c.key).k.current.toList ++ (s.openKey c.key).k.locks
      rw [← q1, ← q2]; exact hy))
  have hwq3 : WQ ((((s.openKey c.key).modR x (fun r => { r with timeouted := true })).dropLongT x).modK (·.settleWait)).k := by
    have h1 := WQ.getWaitLock (w := (((s.openKey c.key).modR x (fun r => { r with timeouted := true })).dropLongT x)) ⟨l2, n2⟩ hwq2
    show WQ (((s.openKey c.key).modR x (fun r => { r with timeouted := true })).dropLongT x).k.settleWait
    unfold Key.settleWait
    split
    · exact ⟨h1.nd, h1.sep, h1.cs⟩
    · exact h1
  have cn3 : CurNone ((((s.openKey c.key).modR x (fun r => { r with timeouted := true })).dropLongT x).modK (·.settleWait)).k := by
    have h0 : CurNone (((s.openKey c.key).modR x (fun r => { r with timeouted := true })).dropLongT x).k := (qi_getKey hq.qi c.key).cn.of_cl q1 q2
    obtain ⟨a1, a2⟩ := waitSkip_cl (((s.openKey c.key).modR x (fun r => { r with timeouted := true })).dropLongT x).k.wait (((s.openKey c.key).modR x (fun r => { r with timeouted := true })).dropLongT x).k
    show CurNone (((s.openKey c.key).modR x (fun r => { r with timeouted := true })).dropLongT x).k.settleWait
    unfold Key.settleWait
    split
    · exact h0.of_cl a1 a2
    · exact h0.of_cl a1 a2
  exact ⟨⟨g4, c3, cn3, hwq3, habs3⟩, ((SC.modR _ _ _).trans (SC.dropLongT _ _)).trans (SC.modK _ _)⟩

theorem keyCancel_fl (k : Engine.Key) (w : Engine.Waiter) : (keyCancel k w).waited = true → (keyCancel k w).waiters ≠ [] := by
  unfold keyCancel
  simp only []
  intro h e
  rw [e] at h
  simp at h

/-- **UNLOCK with the cancel flag hitting a queued request**: tombstone, `settleWait`, reclaim check, two replies, then the wake pass -/
theorem sim_unlock_cancel (s : DB) (hq : DBQ s) (c : Engine.Cmd) (data : Option Bytes) (x : Nat)
    (hcls : classifyUnlock s c = .cancel x)
    (hwq : WQ (s.getKey c.key)) (hki : Engine.KeyInv (Key.abs (s.getKey c.key))) (wu : ((Key.abs (s.getKey c.key)).waiters.map rcOf).Nodup) (m : Bool) :
    Equiv (Engine2.abs (applyUnlock s c data (.cancel x)).commit)
      (Engine.applyUnlock (Engine2.abs s) { c with mgr := m } (.cancel (waiterOf (s.getKey c.key) x))).1 ∧
    (applyUnlock s c data (.cancel x)).out.map (·.r) =
      (Engine.applyUnlock (Engine2.abs s) { c with mgr := m } (.cancel (waiterOf (s.getKey c.key) x))).2 := by
  have hdbi := hq.dbt.dbi
  have hkabs := abs_getKey s hdbi.kn c.key
  obtain ⟨hm, hd⟩ := classifyUnlock_cancel s c x hcls
  obtain ⟨lv, sc3⟩ := tomb_live s hq c x hm hd hwq hki wu
  have hgone0 : (s.openKey c.key).gone = false := by
    cases hg : (s.openKey c.key).gone with
    | false => rfl
    | true =>
      have hk : s.hasKey c.key = false := by simpa [DB.openKey] using hg
      have : (s.getKey c.key).wait = [] := by rw [getKey_of_not_hasKey s c.key hk]; rfl
      rw [this] at hm; simp at hm
  have hki1 : Engine.KeyInv (keyCancel (Key.abs (s.getKey c.key)) (waiterOf (s.getKey c.key) x)) := Engine.waiters_inv hki _ _
  have relC : Rel (((((s.openKey c.key).modR x (fun r => { r with timeouted := true })).dropLongT x).modK (·.settleWait)).ctr (fun y => { y with waitCount := y.waitCount - 1 })) { Engine2.abs s with ctr := (fun y => { y with waitCount := y.waitCount - 1 }) (Engine2.abs s).ctr } (keyCancel (Key.abs (s.getKey c.key)) (waiterOf (s.getKey c.key) x)) [] := by
    have r0 : Rel ((((s.openKey c.key).modR x (fun r => { r with timeouted := true })).dropLongT x).modK (·.settleWait)) (Engine2.abs s) (keyCancel (Key.abs (s.getKey c.key)) (waiterOf (s.getKey c.key) x)) [] :=
      Rel.of_live (sc3.gone.trans hgone0) (sc3.scal (scal_openKey s c.key)) (by rw [sc3.out]; rfl) hki1
        lv
    exact r0.ctr _
  have rel5 := (relC.removeIfZero (keyCancel_fl _ _)).ctr (fun y => { y with unLockCount := y.unLockCount + 1 })
  have rel6 := (rel5.reply c Engine.RESULT_LOCKED_ERROR 0 (((((((s.openKey c.key).modR x (fun r => { r with timeouted := true })).dropLongT x).modK (·.settleWait)).ctr (fun y => { y with waitCount := y.waitCount - 1 })).removeIfZero.ctr (fun y => { y with unLockCount := y.unLockCount + 1 })).lockData)).reply
    { ((s.openKey c.key).k.getR x).cmd with conn := ((s.openKey c.key).k.getR x).conn } Engine.RESULT_UNLOCK_ERROR 0
    (((((((s.openKey c.key).modR x (fun r => { r with timeouted := true })).dropLongT x).modK (·.settleWait)).ctr (fun y => { y with waitCount := y.waitCount - 1 })).removeIfZero.ctr (fun y => { y with unLockCount := y.unLockCount + 1 })).lockData)
  obtain ⟨r1, r2, r3⟩ := rel6.wake
  have hfin := sim_unlock_finish s hq c data (.cancel x) _ _ (by rw [Engine.wake_keys]) (by rw [Engine.wake_key]; exact getKey_key _ _) r1 r2 hcls
  unfold Engine.applyUnlock
  simp only []
  rw [hkabs]
  exact ⟨hfin, r3⟩

end Slock.Sim
