import Slock.Proofs.AckTab
import Slock.Proofs.AckConsRun
/-! M-ACK: the run-level statements behind C11 (counted quorum; conservation is in AckConsRun). -/
namespace Slock.Ack

/-- is `ev` a positive report (own flush or follower answer) for record id `id` -/
def okFor (id : Nat) (ev : Ev) : Bool := match reportOf ev with | some (i, _) => i == id | none => false
/-- how many positive reports for `id` the events contain -/
def counted (evs : List Ev) (id : Nat) : Nat := (evs.filter (okFor id)).length

theorem counted_append (a b : List Ev) (id : Nat) : counted (a ++ b) id = counted a id + counted b id := by
  unfold counted; simp [List.filter_append]

/-- the run, with for each event the events up to and including it and the replies it produced -/
def trace (db : DB) (pre : List Ev) : List Ev → List (List Ev × Ev × List Reply)
  | [] => []
  | e :: es => (pre ++ [e], e, (step db e).2) :: trace (step db e).1 (pre ++ [e]) es

/-- every positive report noted in a table entry is an event of the run so far -/
def TG (pre : List Ev) (db : DB) : Prop :=
  ∀ e ∈ db.tab, cnt e ≤ counted pre e.id ∧ ∀ who ∈ e.oks, ∃ ev ∈ pre, reportOf ev = some (e.id, who)

theorem TG_step {pre : List Ev} {db : DB} (h : TG pre db) (ev : Ev) : TG (pre ++ [ev]) (step db ev).1 := by
  intro e' he'
  rcases step_from db ev e' he' with hm | hz | ⟨e, hem, hid, who, hoks, hrep⟩
  · have := h e' hm
    refine ⟨by rw [counted_append]; omega, fun w hw => ?_⟩
    obtain ⟨x, hx, hr⟩ := this.2 w hw
    exact ⟨x, List.mem_append_left _ hx, hr⟩
  · unfold cnt; rw [hz]; exact ⟨Nat.zero_le _, by intro w hw; simp at hw⟩
  · have := h e hem
    constructor
    · unfold cnt at *; rw [hoks, counted_append, hid]
      have : counted [ev] e.id = 1 := by unfold counted okFor; simp [List.filter, hrep]
      simp; omega
    · intro w hw
      rw [hoks] at hw
      rcases List.mem_append.mp hw with hw | hw
      · obtain ⟨x, hx, hr⟩ := this.2 w hw
        exact ⟨x, List.mem_append_left _ hx, by rw [hid]; exact hr⟩
      · simp at hw; subst hw
        exact ⟨ev, by simp, by rw [hid]; exact hrep⟩

/-- what a SUCCED for a require-ack request can be: the event's own reply (LOCK / UNLOCK), or the last of the required number of positive reports -/
def SuccOk (cfg : Cfg) (t : List Ev × Ev × List Reply) (rp : Reply) : Prop :=
  (∃ c, t.2.1 = .lock c ∧ rp.rid = c.rid) ∨ (∃ c, t.2.1 = .unlock c ∧ rp.rid = c.rid) ∨
  (∃ id, okFor id t.2.1 = true ∧ counted t.1 id ≥ reqAcks cfg)

theorem step_succ {pre : List Ev} {db : DB} (ha : InvA db) (hk : InvK db) (ht : TG pre db) (ev : Ev) (rp : Reply)
    (hr : rp ∈ (step db ev).2) (hs : rp.result = R_SUCCED) (hack : rp.ack = true) : SuccOk db.cfg (pre ++ [ev], ev, (step db ev).2) rp := by
  have hnas : ∀ out : List Reply, NAS out → rp ∈ out → False := by
    intro out hn hm; have := hn rp hm hs; rw [hack] at this; exact absurd this (by decide)
  have hrep : ∀ id who ok, rp ∈ (opReport db id who ok).2 → reportOf ev = some (id, who) → SuccOk db.cfg (pre ++ [ev], ev, (step db ev).2) rp := by
    intro id who ok hm hre
    obtain ⟨_, e, he, hc⟩ := opReport_succ ha hk id who ok rp hm hs hack
    right; right
    refine ⟨id, by unfold okFor; simp [hre], ?_⟩
    have hem : e ∈ db.tab := List.mem_of_find?_eq_some he
    have hid : e.id = id := by have := List.find?_some he; simpa using this
    have := (ht e hem).1
    show counted (pre ++ [ev]) id ≥ reqAcks db.cfg
    rw [counted_append]
    have : counted [ev] id = 1 := by unfold counted okFor; simp [List.filter, hre]
    rw [hid] at *; omega
  cases ev with
  | lock c =>
    rcases opLock_own ha c rp hr with h | h
    · exact Or.inl ⟨c, rfl, h⟩
    · have := h hs; rw [hack] at this; exact absurd this (by decide)
  | unlock c =>
    rcases opUnlock_own ha c rp hr with h | h
    · exact Or.inr (Or.inl ⟨c, rfl, h⟩)
    · have := h hs; rw [hack] at this; exact absurd this (by decide)
  | tick => exact (hnas _ (opTick_nas ha) hr).elim
  | push k => exact (hnas _ (opPush_nas ha k false) hr).elim
  | pushW k => exact (hnas _ (opPush_nas ha k true) hr).elim
  | aofed id ok =>
    have hr' : rp ∈ (opAofed db id ok).2 := hr
    unfold opAofed at hr'
    split at hr'
    · have hok := (opReport_succ ha hk id none ok rp hr' hs hack).1
      subst hok
      exact hrep id none true hr' rfl
    · simp at hr'
  | acked id f ok =>
    have hr' : rp ∈ (opReport db id (some f) ok).2 := hr
    have hok := (opReport_succ ha hk id (some f) ok rp hr' hs hack).1
    subst hok
    exact hrep id (some f) true hr' rfl
  | role b => simp [step] at hr
  | closed b => simp [step] at hr
  | demote o => exact (hnas _ (opFailAll_nas ha o) hr).elim
  | flush o => exact (hnas _ (opFailAll_nas ha o) hr).elim

/-! ### the configuration never changes -/

@[simp] theorem removeLock_cfg (db : DB) (h : Nat) : (db.removeLock h).cfg = db.cfg := rfl
@[simp] theorem journalUnlock_cfg (db : DB) (h : Nat) (b : Bool) : (db.journalUnlock h b).cfg = db.cfg := by
  unfold DB.journalUnlock; split
  · simp only []; split <;> simp [pushJ_cfg]
  · rfl
@[simp] theorem pushLock_cfg (db : DB) (h : Nat) : (db.pushLock h).1.cfg = db.cfg := by
  unfold DB.pushLock; simp only []; split <;> simp [pushJ_cfg]
@[simp] theorem addExpried_cfg (db : DB) (h : Nat) : (db.addExpried h).cfg = db.cfg := rfl
@[simp] theorem addTimeOut_cfg (db : DB) (h : Nat) : (db.addTimeOut h).cfg = db.cfg := rfl
@[simp] theorem valueOp_cfg (db : DB) (h : Nat) (b : Bool) : (db.valueOp h b).cfg = db.cfg := by
  unfold DB.valueOp; simp only []; split; rfl; split <;> simp
@[simp] theorem addLock_cfg (db : DB) (h : Nat) : (db.addLock h).cfg = db.cfg := by unfold DB.addLock; simp
@[simp] theorem rollback_cfg (db : DB) (h : Nat) : (db.rollback h).cfg = db.cfg := by
  unfold DB.rollback; simp only []; split <;> simp
@[simp] theorem grant_cfg (db : DB) (h : Nat) : (db.grant h).1.cfg = db.cfg := by unfold DB.grant; simp
@[simp] theorem ackHold_cfg (db : DB) (h : Nat) : (db.ackHold h).cfg = db.cfg := by unfold DB.ackHold; simp
@[simp] theorem updateHold_cfg (db : DB) (h : Nat) (c : Cmd) : (db.updateHold h c).cfg = db.cfg := by
  unfold DB.updateHold; simp only []; split <;> simp
@[simp] theorem newRec_cfg (db : DB) (c : Cmd) : (db.newRec c).1.cfg = db.cfg := rfl

theorem applyWake_cfg (db : DB) (k : Nat) (b : WakeBranch) : (applyWake db k b).1.cfg = db.cfg := by
  cases b <;> unfold applyWake <;> simp

theorem wakeLoop_cfg (fuel : Nat) : ∀ (db : DB) (k : Nat) (out : List Reply), (wakeLoop fuel db k out).1.cfg = db.cfg := by
  induction fuel with
  | zero => intro db k out; rfl
  | succ n ih =>
    intro db k out
    unfold wakeLoop
    cases e : classifyWake db k with
    | stop => simp only []; split <;> simp
    | grant w => simp only []; rw [ih, applyWake_cfg]
    | ackGrant w => simp only []; rw [ih, applyWake_cfg]
    | ackFail w => simp only []; rw [ih, applyWake_cfg]

@[simp] theorem wake_cfg (db : DB) (k : Nat) (out : List Reply) : (db.wake k out).1.cfg = db.cfg := by
  unfold DB.wake; split; exact wakeLoop_cfg _ _ _ _; rfl

@[simp] theorem ackDone_cfg (db : DB) (hid : Nat) (ok : Bool) : (ackDone db hid ok).1.cfg = db.cfg := by
  unfold ackDone
  cases classifyAck db hid ok <;> unfold applyAck <;> simp

@[simp] theorem relockHold_cfg (db : DB) (c : Cmd) (h : Nat) : (db.relockHold c h).cfg = db.cfg := by
  unfold DB.relockHold; simp only []; split <;> split <;> simp [pushJ_tab, pushJ_cfg]
@[simp] theorem dropWaiter_cfg (db : DB) (hid : Nat) : (db.dropWaiter hid).cfg = db.cfg := by
  unfold DB.dropWaiter; simp only []; split <;> simp

theorem opLock_cfg (db : DB) (c : Cmd) : (opLock db c).1.cfg = db.cfg := by
  unfold opLock
  cases classifyLock db c with
  | stateError => rfl
  | ackWaiting h => rfl
  | relockRefused h => rfl
  | timeout => rfl
  | relock h => unfold applyLock; simp
  | grant => unfold applyLock; simp only []; split <;> simp
  | ackGrant => unfold applyLock; simp only []; split <;> simp
  | queue => unfold applyLock; simp

theorem opUnlock_cfg (db : DB) (c : Cmd) : (opUnlock db c).1.cfg = db.cfg := by
  unfold opUnlock
  cases classifyUnlock db c <;> unfold applyUnlock <;> simp [DB.bumpErr]

theorem fireTimeout_cfg (db : DB) (hid : Nat) : (fireTimeout db hid).1.cfg = db.cfg := by
  unfold fireTimeout; simp only []; split
  · simp
  · simp

theorem fireExpire_cfg (db : DB) (hid : Nat) : (fireExpire db hid).1.cfg = db.cfg := by
  unfold fireExpire; simp only []; split <;> simp

theorem sweepTimeout_cfg (db : DB) (c : Nat) : (sweepTimeout db c).1.cfg = db.cfg := by
  unfold sweepTimeout
  simp only []
  have h1 := foldl_inv (fun acc : DB × List Nat => acc.1.cfg = db.cfg) timeoutStep (fun b a hb => by
    unfold timeoutStep; simp only []; split; exact hb; exact hb) (slotT db c false) (db, []) rfl
  exact foldl_inv (fun acc : DB × List Reply => acc.1.cfg = db.cfg) fireTimeoutStep (fun b a hb => by
    unfold fireTimeoutStep; split; exact hb; simp only []; rw [fireTimeout_cfg]; exact hb) _ _ h1

theorem sweepExpire_cfg (db : DB) (c : Nat) : (sweepExpire db c).1.cfg = db.cfg := by
  unfold sweepExpire
  simp only []
  have h1 := foldl_inv (fun acc : DB × List Nat => acc.1.cfg = db.cfg) expireStep (fun b a hb => by
    unfold expireStep; simp only []; split; exact hb; exact hb) (slotE db c false) (db, []) rfl
  exact foldl_inv (fun acc : DB × List Reply => acc.1.cfg = db.cfg) fireExpireStep (fun b a hb => by
    unfold fireExpireStep; split; exact hb; simp only []; rw [fireExpire_cfg]; exact hb) _ _ h1

theorem opTick_cfg (db : DB) : (opTick db).1.cfg = db.cfg := by
  rw [opTick_eq]; dsimp only; rw [sweepExpire_cfg]; show (sweepTimeout (tickT db) (db.now + 1)).1.cfg = db.cfg; rw [sweepTimeout_cfg]; rfl

theorem opPush_cfg (db : DB) (k : Nat) (werr : Bool) : (opPush db k werr).1.cfg = db.cfg := by
  rw [opPush_eq]
  split
  · rfl
  · split
    · rfl
    · rename_i j _ _ hid _
      have h2 : (if (popJ db k).leader = true then (if j.isLock = true then leaderPushLock (popJ db k) (popJ db k).nextId hid
            else leaderPushUnLock (popJ db k) hid) else (popJ db k, [])).1.cfg = db.cfg := by
        split
        · split
          · unfold leaderPushLock; split; simp; rfl; split; simp; rfl; rfl
          · unfold leaderPushUnLock; split; simp [DB.dropEnt]; rfl; rfl
        · rfl
      dsimp only
      split
      · rw [ackDone_cfg]; exact h2
      · exact h2

theorem opReport_cfg (db : DB) (id : Nat) (who : Option Nat) (ok : Bool) : (opReport db id who ok).1.cfg = db.cfg := by
  unfold opReport
  split
  · rfl
  · simp only []
    split
    · simp [DB.dropEnt]
    · split
      · rfl
      · simp [DB.dropEnt]

theorem opFailAll_cfg (db : DB) (o : List Nat) : (opFailAll db o).1.cfg = db.cfg := by
  unfold opFailAll
  simp only []
  exact foldl_inv (fun acc : DB × List Reply => acc.1.cfg = db.cfg) failStep (fun b a hb => by
    unfold failStep; simp only []; rw [ackDone_cfg]; exact hb) _ _ rfl

theorem step_cfg (db : DB) (ev : Ev) : (step db ev).1.cfg = db.cfg := by
  cases ev with
  | lock c => exact opLock_cfg db c
  | unlock c => exact opUnlock_cfg db c
  | tick => exact opTick_cfg db
  | push k => exact opPush_cfg db k false
  | pushW k => exact opPush_cfg db k true
  | aofed id ok => show (opAofed db id ok).1.cfg = db.cfg; unfold opAofed; split; exact opReport_cfg _ _ _ _; rfl
  | acked id f ok => exact opReport_cfg _ _ _ _
  | role b => rfl
  | closed b => rfl
  | demote o => exact opFailAll_cfg db o
  | flush o => exact opFailAll_cfg db o

/-- **counted quorum, for every run.** -/
theorem trace_succ : ∀ (evs : List Ev) (pre : List Ev) (db : DB), Inv3 db → TG pre db →
    ∀ t ∈ trace db pre evs, ∀ rp ∈ t.2.2, rp.result = R_SUCCED → rp.ack = true → SuccOk db.cfg t rp := by
  intro evs
  induction evs with
  | nil => intro pre db _ _ t ht; simp [trace] at ht
  | cons e es ih =>
    intro pre db h3 ht t hmem rp hr hs hack
    have ha := h3.a
    have hk := h3.k
    unfold trace at hmem
    rcases List.mem_cons.mp hmem with h | h
    · subst h
      exact step_succ ha hk ht e rp hr hs hack
    · have := ih (pre ++ [e]) (step db e).1 (h3.step e) (TG_step ht e) t h rp hr hs hack
      rw [step_cfg] at this; exact this

end Slock.Ack
