import Slock.Proofs.Engine2Cur
/-! Stage-2 engine: nothing leaks — wake pass, and "the key record still has a lock record unless it was reclaimed". -/
namespace Slock.Engine2

/-- reference counts exact AND no record at count 0 -/
structure Good (w : W) : Prop where
  lv : Lv w zero
  nz : Nz w none

def GoodG (w : W) : Prop := w.gone = false → Good w
/-- a key record that is still linked has at least one lock record -/
def SettledG (w : W) : Prop := w.gone = false → w.k.recs ≠ []

theorem recs_ne_of_hasRec {k : Key} {x : Nat} (h : k.hasRec x) : k.recs ≠ [] := by
  obtain ⟨r, hr, _⟩ := h
  intro e; rw [e] at hr; simp at hr

/-- after the reclaim check a linked key record has a lock record -/
theorem settled_removeIfZero {w : W} {ex : Nat → Int} (h : w.gone = false → RCx w.k ex) : SettledG w.removeIfZero := by
  intro hg
  rcases removeIfZero_cases w with e | ⟨hg', _⟩
  · rw [e] at hg ⊢
    have hrc := h hg
    have hnz : w.k.refCount ≠ 0 := by
      intro hz
      have : w.removeIfZero.gone = true := by unfold W.removeIfZero; simp [hg, hz]
      rw [e, hg] at this; exact absurd this (by simp)
    intro hn
    have := hrc.mgr
    rw [hn] at this; simp at this; exact hnz this
  · rw [hg'] at hg; exact absurd hg (by simp)

theorem SettledG.of_ids {w w' : W} (h : SettledG w) (hi : w'.k.ids = w.k.ids) (hg : w'.gone = false → w.gone = false) : SettledG w' := by
  intro hg'
  have := h (hg hg')
  intro e
  apply this
  have hl : w'.k.ids.length = w.k.ids.length := by rw [hi]
  unfold Key.ids at hl
  simp only [List.length_map] at hl
  rw [e] at hl
  exact List.eq_nil_of_length_eq_zero hl.symm

theorem GoodG.of_good {w : W} (h : Good w) : GoodG w := fun _ => h

/-- `currentLock` of a linked key record points at a hold (depth > 0) -/
def CurG (w : W) : Prop := w.gone = false → CurLive w.k

theorem CurG.of_dk {w w' : W} (h : CurG w) (hg : w'.gone = false → w.gone = false) (d : DK w' w) (g : GoodG w') : CurG w' :=
  fun hg' => (h (hg hg')).of_dk d (g hg').lv

theorem gone_of_fr {w w' : W} (f : Fr w w') : w'.gone = false → w.gone = false := by
  intro hg
  cases h0 : w.gone with
  | false => rfl
  | true => rw [f.gone h0] at hg; exact absurd hg (by simp)

/-- the three facts carried through an operation: counts exact and ≥ 1, a linked key record has a record, `currentLock` is a hold -/
structure Tight (w : W) : Prop where
  good : GoodG w
  set : SettledG w
  cur : CurG w

/-! ### wake -/

theorem Good.wakeOne {w : W} (h : Good w) (rid : Nat) (e : WEnt) (rest : List WEnt) (hw : w.k.wait = e :: rest) (he : e.rid = rid)
    (hd : w.k.deadWaiter rid = false) : Good (w.wakeOne rid) ∧ (w.wakeOne rid).k.hasRec rid ∧ (CurLive w.k → CurLive (w.wakeOne rid).k) := by
  have hq : 0 < w.k.qRefs rid := by rw [← he]; exact qRefs_pos_of_wait w.k e rest hw
  have hh : w.k.hasRec rid := h.lv.rc.dang rid (by simp only [zero]; omega)
  have lv' := h.lv.wakeOne zero_nonneg rid hh hd
  obtain ⟨l, g, _⟩ := wake_prep zero_nonneg h.lv rid hh hd (fun c => { c with waitCount := c.waitCount - 1 })
  -- no record at count 0
  have n1 : Nz (w.modR rid (fun r => { r with timeouted := true })) none :=
    h.nz.of_up (RecsUp.modRec _ rid _ (fun _ => rfl) (fun _ h => ⟨h.pos, h.hold, h.ended, h.fin⟩))
  have l1 : Lv (w.modR rid (fun r => { r with timeouted := true })) zero :=
    h.lv.modR rid _ (fun _ => rfl) (h.lv.rc.modRec_plain rid _ (fun _ => rfl) (fun _ => rfl) (fun _ => rfl)) (by
      intro r _ _ hf; simp at hf)
  have g1 : (w.modR rid (fun r => { r with timeouted := true })).k.getR rid = { (w.k.getR rid) with timeouted := true } :=
    getR_modRec_same _ _ _ (fun _ => rfl) hh
  have n2 : Nz ((w.modR rid (fun r => { r with timeouted := true })).dropLongT rid) none := by
    unfold W.dropLongT W.when
    split
    · rename_i hl
      exact n1.removeLongT zero_nonneg l1 rid hq (tLong_isSome _ hl)
    · exact n1
  have n3 : Nz (((w.modR rid (fun r => { r with timeouted := true })).dropLongT rid).ctr (fun c => { c with waitCount := c.waitCount - 1 })) none :=
    ⟨n2.nd, n2.nz⟩
  have c2 : CurLive w.k → CurLive (((w.modR rid (fun r => { r with timeouted := true })).dropLongT rid).ctr (fun c => { c with waitCount := c.waitCount - 1 })).k :=
    fun hc => hc.of_dk (DK.trans (DK.of_k rfl) (DK.trans (dk_dropLongT _ _) (dk_modR w rid _ (by intro _; rfl) (by intro _; rfl)))) l
  unfold W.wakeOne at lv' ⊢
  simp only [] at lv' ⊢
  split
  · rename_i hex
    simp only [hex, if_true] at lv'
    exact ⟨⟨lv', (n3.weaken (some rid)).grant rid g.has⟩, (l.grant zero_nonneg rid g).2, fun hc => cur_grant (c2 hc) l rid g⟩
  · rename_i hex
    simp only [hex, if_false] at lv'
    refine ⟨⟨lv', n3.of_up ?_⟩, ?_, ?_⟩
    · exact RecsUp.trans (RecsUp.of_eq rfl) (RecsUp.trans (RecsUp.of_eq rfl) (up_grantNoHold _ _))
    · show ((((w.modR rid (fun r => { r with timeouted := true })).dropLongT rid).ctr (fun c => { c with waitCount := c.waitCount - 1 })).grantNoHold rid).k.hasRec rid
      rw [hasRec_of_ids (ids_grantNoHold _ rid)]; exact g.has
    · intro hc
      exact (c2 hc).of_dk (DK.trans (DK.of_k rfl) (DK.trans (DK.of_k rfl) (dk_grantNoHold _ _))) lv'

theorem good_wakePass (fuel : Nat) (w : W) (t : Tight w) : Tight (W.wakePass fuel w) := by
  induction fuel generalizing w with
  | zero => exact t
  | succ n ih =>
    have h := t.good
    have hs := t.set
    unfold W.wakePass
    simp only []
    have h1 : GoodG (w.modK (·.getWaitLock.1)) := by
      intro hg
      have hg' : w.gone = false := hg
      have g := h hg'
      refine ⟨g.lv.modK _ (getWaitLock_rc zero_nonneg g.lv.rc) (RecsLe.getWaitLock _), ?_⟩
      have := nz_getWaitLock g.nz.nd g.nz.nz
      exact ⟨this.1, this.2⟩
    have c1 : CurG (w.modK (·.getWaitLock.1)) := t.cur.of_dk (fun hg => hg) (dk_modK w _ (DepthKeep.getWaitLock _)) h1
    split
    · -- queue exhausted: waited := false, reclaim check
      have h2 : GoodG ((w.modK (·.getWaitLock.1)).modK clearWaited) := by
        intro hg
        have g := h1 hg
        exact ⟨g.lv.modK clearWaited (g.lv.rc.transfer rfl rfl (fun _ => rfl)) (RecsLe.of_eq rfl), ⟨g.nz.nd.of_recs rfl, g.nz.nz.of_recs rfl⟩⟩
      have h3 : GoodG ((w.modK (·.getWaitLock.1)).modK clearWaited).removeIfZero := by
        intro hg
        rcases removeIfZero_cases ((w.modK (·.getWaitLock.1)).modK clearWaited) with e | ⟨hg', _⟩
        · rw [e] at hg ⊢; exact h2 hg
        · rw [hg'] at hg; exact absurd hg (by simp)
      refine ⟨h3, settled_removeIfZero (fun hg => (h2 hg).lv.rc), ?_⟩
      exact c1.of_dk (fun hg => by
        have := gone_of_fr (Fr.removeIfZero ((w.modK (·.getWaitLock.1)).modK clearWaited)) hg
        exact this) (DK.trans (dk_removeIfZero _) (DepthKeep.of_eq rfl rfl)) h3
    · rename_i rid hr
      obtain ⟨e, rest, hw, he, hd⟩ := getWaitLock_some w.k rid hr
      have hset1 : SettledG (w.modK (·.getWaitLock.1)) := by
        intro hg
        have g := h1 hg
        have hq : 0 < (w.k.getWaitLock.1).qRefs rid := by rw [← he]; exact qRefs_pos_of_wait _ e rest hw
        exact recs_ne_of_hasRec (g.lv.rc.dang rid (by simp only [zero]; show 0 < ((w.k.getWaitLock.1).qRefs rid : Int) + 0; omega))
      split
      · exact ⟨h1, hset1, c1⟩
      · have hstep : Tight ((w.modK (·.getWaitLock.1)).wakeOne rid) := by
          have hgone : ((w.modK (·.getWaitLock.1)).wakeOne rid).gone = false → (w.modK (·.getWaitLock.1)).gone = false := by
            intro hg
            cases h0 : (w.modK (·.getWaitLock.1)).gone with
            | false => rfl
            | true => rw [(Fr.wakeOne (w.modK (·.getWaitLock.1)) rid).gone h0] at hg; exact absurd hg (by simp)
          refine ⟨fun hg => ?_, fun hg => ?_, fun hg => ?_⟩
          · exact ((h1 (hgone hg)).wakeOne rid e rest hw he hd).1
          · exact recs_ne_of_hasRec ((h1 (hgone hg)).wakeOne rid e rest hw he hd).2.1
          · exact ((h1 (hgone hg)).wakeOne rid e rest hw he hd).2.2 (c1 (hgone hg))
        exact ih _ hstep

theorem good_wake {w : W} (t : Tight w) : Tight w.wake := by
  unfold W.wake W.when
  split
  · exact good_wakePass _ _ t
  · exact t

end Slock.Engine2
