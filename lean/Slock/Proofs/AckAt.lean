import Slock.Proofs.AckCons
/-! M-ACK: following ONE record through a chain of updates. `At x db hid r base`: `r` is the record with identity `hid`, every other
record satisfies `QR`, and what all the OTHER records owe request `x` is `base` — a chain of updates of record `hid` keeps `base`. -/
namespace Slock.Ack

structure At (x : Rid) (db : DB) (hid : Nat) (r : Rec) (base : Int) : Prop where
  nd : (db.recs.map (·.hid)).Nodup
  fnd : findR db.recs hid = some r
  qo : ∀ r' ∈ db.recs, r'.hid ≠ hid → QR r'
  cfg : reqAcks db.cfg < NOACK
  bal : openN x db = base + openR x r

theorem At.start {db : DB} (x : Rid) (ha : InvA db) (hq : InvQ db) {hid : Nat} {r : Rec} (e : findR db.recs hid = some r) :
    At x db hid r (openN x db - openR x r) :=
  ⟨ha.nodup, e, fun r' hr' _ => hq.recs r' hr', hq.cfg, by omega⟩

theorem At.getR {x : Rid} {db : DB} {hid : Nat} {r : Rec} {base : Int} (h : At x db hid r base) : db.getR hid = r := by
  rw [getR_eq, h.fnd]; rfl

theorem At.hid_eq {x : Rid} {db : DB} {hid : Nat} {r : Rec} {base : Int} (h : At x db hid r base) : r.hid = hid :=
  (findR_some_mem h.fnd).2

theorem At.finish {x : Rid} {db : DB} {hid : Nat} {r : Rec} {base : Int} (h : At x db hid r base) (hr : QR r) :
    InvQ db ∧ openN x db = base + openR x r := by
  refine ⟨⟨?_, h.cfg⟩, h.bal⟩
  intro r' hr'
  by_cases e : r'.hid = hid
  · have h1 := findR_of_mem h.nd hr'
    rw [e, h.fnd] at h1
    have : r = r' := by simpa using h1
    rw [← this]; exact hr
  · exact h.qo r' hr' e

theorem At.modR {x : Rid} {db : DB} {hid : Nat} {r : Rec} {base : Int} (h : At x db hid r base) (f : Rec → Rec)
    (hf : ∀ r, (f r).hid = r.hid) : At x (db.modR hid f) hid (f r) base := by
  refine ⟨?_, ?_, ?_, h.cfg, ?_⟩
  · rw [modR_recs, map_hid_modRecs hid f hf]; exact h.nd
  · rw [modR_recs, findR_modRecs hid f hf]; simp [h.fnd]
  · intro r' hr' hne
    rcases mem_modRecs hr' with hm | ⟨r0, hr0, e⟩
    · exact h.qo r' hm hne
    · rw [e, hf] at hne; exact absurd (findR_some_mem hr0).2 hne
  · have := openN_modR_at x db hid f h.fnd
    have := h.bal
    omega

theorem At.frame {x : Rid} {db db' : DB} {hid : Nat} {r : Rec} {base : Int} (h : At x db hid r base)
    (e1 : db'.recs = db.recs) (e2 : db'.cfg = db.cfg) : At x db' hid r base :=
  ⟨by rw [e1]; exact h.nd, by rw [e1]; exact h.fnd, by rw [e1]; exact h.qo, by rw [e2]; exact h.cfg, by rw [openN_frame x e1]; exact h.bal⟩

/-- one record updated, plus changes outside `recs` / `cfg` -/
theorem At.modR' {x : Rid} {db db' : DB} {hid : Nat} {r : Rec} {base : Int} (h : At x db hid r base) (f : Rec → Rec)
    (e1 : db'.recs = modRecs hid f db.recs) (hf : ∀ r, (f r).hid = r.hid) (e2 : db'.cfg = db.cfg) : At x db' hid (f r) base :=
  (h.modR f hf).frame e1 e2

theorem At.modKey {x : Rid} {db : DB} {hid : Nat} {r : Rec} {base : Int} (h : At x db hid r base) (k : Nat) (f : Key → Key) :
    At x (db.modKey k f) hid r base := h.frame (by simp) (by simp)
theorem At.ctrMod {x : Rid} {db : DB} {hid : Nat} {r : Rec} {base : Int} (h : At x db hid r base) (f : Counters → Counters) :
    At x (db.ctrMod f) hid r base := h.frame rfl rfl

theorem At.toEnd {x : Rid} {db : DB} {hid : Nat} {r : Rec} {base : Int} (h : At x db hid r base) (a : Nat) :
    At x (db.toEnd a) hid r base := by
  refine ⟨nodup_toEnd h.nd a, ?_, ?_, h.cfg, ?_⟩
  · unfold DB.toEnd; simp only []; rw [findR_toEnd]; exact h.fnd
  · intro r' hr'; exact h.qo r' (mem_toEnd.mp hr')
  · rw [openN_toEnd]; exact h.bal

/-! ### the building blocks, in terms of the fields the accounting looks at -/

/-- `r'` differs from `r` at most in fields the accounting does not look at -/
def SameCore (r r' : Rec) : Prop :=
  r'.cmd = r.cmd ∧ r'.depth = r.depth ∧ r'.ack = r.ack ∧ r'.queued = r.queued ∧ r'.timeouted = r.timeouted ∧ r'.expried = r.expried

theorem SameCore.refl (r : Rec) : SameCore r r := ⟨rfl, rfl, rfl, rfl, rfl, rfl⟩
theorem SameCore.trans {a b c : Rec} (h1 : SameCore a b) (h2 : SameCore b c) : SameCore a c := by
  obtain ⟨a1, a2, a3, a4, a5, a6⟩ := h1
  obtain ⟨b1, b2, b3, b4, b5, b6⟩ := h2
  exact ⟨b1.trans a1, b2.trans a2, b3.trans a3, b4.trans a4, b5.trans a5, b6.trans a6⟩

theorem At.valueOp {x : Rid} {db : DB} {hid : Nat} {r : Rec} {base : Int} (h : At x db hid r base) (b : Bool) :
    ∃ r', At x (db.valueOp hid b) hid r' base ∧ SameCore r r' := by
  unfold DB.valueOp
  simp only []
  split
  · exact ⟨r, h, SameCore.refl r⟩
  · split
    · exact ⟨_, (h.modKey _ _).modR _ (by intro _; rfl), ⟨rfl, rfl, rfl, rfl, rfl, rfl⟩⟩
    · exact ⟨r, h.modKey _ _, SameCore.refl r⟩

theorem At.pushJ {x : Rid} {db : DB} {hid : Nat} {r : Rec} {base : Int} (h : At x db hid r base) (r0 : Rec) (b : Bool) :
    At x (db.pushJ r0 b).1 hid r base := h.frame (pushJ_recs db r0 b) (pushJ_cfg db r0 b)

theorem At.pushLock {x : Rid} {db : DB} {hid : Nat} {r : Rec} {base : Int} (h : At x db hid r base) :
    ∃ r', At x (db.pushLock hid).1 hid r' base ∧ SameCore r r' := by
  unfold DB.pushLock
  simp only []
  split
  · exact ⟨_, (h.pushJ _ _).modR _ (by intro _; rfl), ⟨rfl, rfl, rfl, rfl, rfl, rfl⟩⟩
  · exact ⟨r, h.pushJ _ _, SameCore.refl r⟩

theorem At.journalUnlock {x : Rid} {db : DB} {hid : Nat} {r : Rec} {base : Int} (h : At x db hid r base) (keep : Bool) :
    ∃ r', At x (db.journalUnlock hid keep) hid r' base ∧ SameCore r r' := by
  unfold DB.journalUnlock
  split
  · simp only []
    split
    · exact ⟨_, (h.pushJ _ _).modR _ (by intro _; rfl), ⟨rfl, rfl, rfl, rfl, rfl, rfl⟩⟩
    · exact ⟨r, h.pushJ _ _, SameCore.refl r⟩
  · exact ⟨r, h, SameCore.refl r⟩

theorem At.addExpried {x : Rid} {db : DB} {hid : Nat} {r : Rec} {base : Int} (h : At x db hid r base) :
    ∃ r', At x (db.addExpried hid) hid r' base ∧ r'.cmd = r.cmd ∧ r'.depth = r.depth ∧ r'.ack = r.ack ∧ r'.queued = r.queued ∧
      r'.timeouted = r.timeouted ∧ r'.expried = false := by
  unfold DB.addExpried
  exact ⟨_, h.modR' _ rfl (by intro _; rfl) rfl, rfl, rfl, rfl, rfl, rfl, rfl⟩

theorem At.addTimeOut {x : Rid} {db : DB} {hid : Nat} {r : Rec} {base : Int} (h : At x db hid r base) :
    ∃ r', At x (db.addTimeOut hid) hid r' base ∧ r'.cmd = r.cmd ∧ r'.depth = r.depth ∧ r'.ack = r.ack ∧ r'.queued = r.queued ∧
      r'.timeouted = false ∧ r'.expried = r.expried := by
  unfold DB.addTimeOut
  exact ⟨_, h.modR' _ rfl (by intro _; rfl) rfl, rfl, rfl, rfl, rfl, rfl, rfl⟩

theorem At.addLock {x : Rid} {db : DB} {hid : Nat} {r : Rec} {base : Int} (h : At x db hid r base) :
    ∃ r', At x (db.addLock hid) hid r' base ∧ r'.cmd = r.cmd ∧ r'.depth = 1 ∧ r'.ack = (if r.cmd.ack then 0 else r.ack) ∧ r'.queued = false ∧
      r'.timeouted = r.timeouted ∧ r'.expried = r.expried := by
  unfold DB.addLock
  exact ⟨_, ((h.modR _ (by intro _; rfl)).toEnd hid).modKey _ _, rfl, rfl, rfl, rfl, rfl, rfl⟩

theorem At.removeLock {x : Rid} {db : DB} {hid : Nat} {r : Rec} {base : Int} (h : At x db hid r base) :
    ∃ r', At x (db.removeLock hid) hid r' base ∧ r'.cmd = r.cmd ∧ r'.depth = 0 ∧ r'.ack = NOACK ∧ r'.queued = r.queued ∧
      r'.timeouted = r.timeouted ∧ r'.expried = r.expried := by
  unfold DB.removeLock
  exact ⟨_, h.modR _ (by intro _; rfl), rfl, rfl, rfl, rfl, rfl, rfl⟩

theorem At.rollback {x : Rid} {db : DB} {hid : Nat} {r : Rec} {base : Int} (h : At x db hid r base) :
    ∃ r', At x (db.rollback hid) hid r' base ∧ r'.cmd = r.cmd ∧ r'.depth = 0 ∧ r'.ack = NOACK ∧ r'.queued = r.queued ∧
      r'.timeouted = r.timeouted ∧ r'.expried = r.expried := by
  unfold DB.rollback
  simp only []
  have h1 : ∃ r1, At x (match (if (has (db.getR hid).cmd.flag F_DATA && (db.getR hid).pending) = true then (db.getR hid).undo else none) with
      | some u => ((db.modKey (db.getR hid).cmd.key (fun k => { k with locked := k.locked - (db.getR hid).depth })).modKey (db.getR hid).cmd.key
            (fun k => { k with cell := undoCell k.cell u })).modR hid (fun r => { r with undo := none })
      | none => db.modKey (db.getR hid).cmd.key (fun k => { k with locked := k.locked - (db.getR hid).depth })) hid r1 base ∧ SameCore r r1 := by
    split
    · exact ⟨_, ((h.modKey _ _).modKey _ _).modR _ (by intro _; rfl), ⟨rfl, rfl, rfl, rfl, rfl, rfl⟩⟩
    · exact ⟨r, h.modKey _ _, SameCore.refl r⟩
  obtain ⟨r1, h1, s1⟩ := h1
  obtain ⟨r2, h2, s2⟩ := h1.journalUnlock false
  obtain ⟨r3, h3, e1, e2, e3, e4, e5, e6⟩ := h2.removeLock
  obtain ⟨a1, a2, a3, a4, a5, a6⟩ := s1.trans s2
  exact ⟨r3, h3.ctrMod _, e1.trans a1, e2, e3, e4.trans a4, e5.trans a5, e6.trans a6⟩

end Slock.Ack
