import Slock.Proofs.Engine2RC
/-! Stage-2 engine: the reference-count invariant through the holder queue and the wait queue (lazy popping, compaction,
priority re-filing). -/
namespace Slock.Engine2

/-! ### `unref` / `free` leave the queues alone -/

theorem free_queues (k : Key) (rid : Nat) :
    (k.free rid).locks = k.locks ∧ (k.free rid).wait = k.wait ∧ (k.free rid).current = k.current ∧ (k.free rid).waited = k.waited ∧
    (k.free rid).waitPrio = k.waitPrio ∧ (k.free rid).locksPopped = k.locksPopped ∧ (k.free rid).waitPopped = k.waitPopped ∧
    (k.free rid).locksCap = k.locksCap ∧ (k.free rid).waitCap = k.waitCap := by
  unfold Key.free; split <;> simp

theorem unref_queues (k : Key) (rid : Nat) :
    (k.unref rid).locks = k.locks ∧ (k.unref rid).wait = k.wait ∧ (k.unref rid).current = k.current ∧ (k.unref rid).waited = k.waited ∧
    (k.unref rid).waitPrio = k.waitPrio ∧ (k.unref rid).locksPopped = k.locksPopped ∧ (k.unref rid).waitPopped = k.waitPopped ∧
    (k.unref rid).locksCap = k.locksCap ∧ (k.unref rid).waitCap = k.waitCap := by
  unfold Key.unref
  simp only []
  split
  · obtain ⟨a, b, c, d, e, f, g, h, i⟩ := free_queues (k.unrefOnly rid) rid
    exact ⟨a, b, c, d, e, f, g, h, i⟩
  · exact ⟨rfl, rfl, rfl, rfl, rfl, rfl, rfl, rfl, rfl⟩

theorem qRefs_unref (k : Key) (rid x : Nat) : (k.unref rid).qRefs x = k.qRefs x := by
  obtain ⟨a, b, c, _⟩ := unref_queues k rid
  unfold Key.qRefs; rw [a, b, c]

/-! ### counting -/

theorem count_filter_split (p : Nat → Bool) (l : List Nat) (x : Nat) :
    (l.filter p).count x + (l.filter (fun y => !p y)).count x = l.count x := by
  induction l with
  | nil => rfl
  | cons a as ih =>
    cases hp : p a <;> simp [List.filter, hp, List.count_cons] <;> omega

theorem count_map_filter_split (p : WEnt → Bool) (l : List WEnt) (x : Nat) :
    ((l.filter p).map (·.rid)).count x + ((l.filter (fun y => !p y)).map (·.rid)).count x = (l.map (·.rid)).count x := by
  induction l with
  | nil => rfl
  | cons a as ih =>
    cases hp : p a <;> simp [List.filter, hp, List.count_cons] <;> omega

def countIn (l : List Nat) : Nat → Int := fun y => (l.count y : Int)

/-- dropping a list of owed references one by one -/
theorem foldl_unref_rc {ex : Nat → Int} (d : List Nat) (hex : ∀ y ∈ d, 0 ≤ ex y) (k : Key) (h : RCx k (fun y => ex y + countIn d y)) :
    RCx (d.foldl (fun k x => k.unref x) k) ex := by
  induction d generalizing k with
  | nil => exact h.congr (fun x => by simp [countIn])
  | cons a as ih =>
    simp only [List.foldl_cons]
    apply ih (fun y hy => hex y (List.mem_cons_of_mem _ hy))
    have hpos : 0 < (k.qRefs a : Int) + (ex a + countIn (a :: as) a) := by
      have := hex a (by simp)
      simp only [countIn, List.count_cons_self]; omega
    refine (h.unref a hpos).congr ?_
    intro x
    simp only [countIn, delta, List.count_cons]
    by_cases e : x = a
    · subst e; simp; omega
    · have : (a == x) = false := by simpa using (fun e' : a = x => e e'.symm)
      simp [e, this]

theorem foldl_unrefW_rc {ex : Nat → Int} (d : List WEnt) (hex : ∀ y ∈ d, 0 ≤ ex y.rid) (k : Key)
    (h : RCx k (fun y => ex y + countIn (d.map (·.rid)) y)) :
    RCx (d.foldl (fun k x => k.unref x.rid) k) ex := by
  have : d.foldl (fun k x => k.unref x.rid) k = (d.map (·.rid)).foldl (fun k x => k.unref x) k := by
    rw [List.foldl_map]
  rw [this]
  refine foldl_unref_rc _ ?_ k h
  intro y hy
  obtain ⟨e, he, rfl⟩ := List.mem_map.mp hy
  exact hex e he

theorem foldl_unref_queues (d : List Nat) (k : Key) :
    (d.foldl (fun k x => k.unref x) k).locks = k.locks ∧ (d.foldl (fun k x => k.unref x) k).wait = k.wait ∧
    (d.foldl (fun k x => k.unref x) k).current = k.current := by
  induction d generalizing k with
  | nil => exact ⟨rfl, rfl, rfl⟩
  | cons a as ih =>
    simp only [List.foldl_cons]
    obtain ⟨a1, a2, a3⟩ := ih (k.unref a)
    obtain ⟨b1, b2, b3, _⟩ := unref_queues k a
    exact ⟨a1.trans b1, a2.trans b2, a3.trans b3⟩

/-! ### the holder queue -/

/-- `locks.Push(x)`: one owed reference (the caller has already counted it) becomes a queue entry -/
theorem locksPush_rc {k : Key} {ex : Nat → Int} (hex : ∀ y, 0 ≤ ex y) (rid : Nat) (h : RCx k (fun y => ex y + delta rid y)) :
    RCx (k.locksPush rid) ex := by
  unfold Key.locksPush
  simp only []
  split
  · refine h.transfer rfl rfl (fun x => ?_)
    simp only [Key.qRefs, List.count_append, List.count_singleton, delta]
    by_cases e : x = rid
    · subst e; simp; omega
    · have : (rid == x) = false := by simpa using (fun e' : rid = x => e e'.symm)
      simp [e, this]
  · split
    · rename_i he
      have he' : k.locks = [] := by simpa using he
      refine h.transfer rfl rfl (fun x => ?_)
      simp only [Key.qRefs, he', List.count_nil, List.count_singleton, delta]
      by_cases e : x = rid
      · subst e; simp; omega
      · have : (rid == x) = false := by simpa using (fun e' : rid = x => e e'.symm)
        simp [e, this]
    · apply foldl_unref_rc _ (fun y _ => hex y)
      have key : ∀ k1 : Key, k1.recs = k.recs → k1.refCount = k.refCount → k1.current = k.current → k1.wait = k.wait →
          k1.locks = k.locks.filter (fun x => k.liveHolder x) ++ [rid] →
          RCx k1 (fun y => ex y + countIn (k.locks.filter (fun x => !k.liveHolder x)) y) := by
        intro k1 h1 h2 h3 h4 h5
        refine h.transfer h1 h2 (fun x => ?_)
        have hs := count_filter_split (fun x => k.liveHolder x) k.locks x
        simp only [Key.qRefs, h3, h4, h5, List.count_append, List.count_singleton, delta, countIn]
        by_cases e : x = rid
        · subst e; simp; omega
        · have : (rid == x) = false := by simpa using (fun e' : rid = x => e e'.symm)
          simp [e, this]; omega
      split
      · exact key _ rfl rfl rfl rfl rfl
      · exact key _ rfl rfl rfl rfl rfl

/-- lazy popping of the holder queue; a live entry that is taken out is owed to the caller -/
theorem locksSkip_rc {ex : Nat → Int} (hex : ∀ y, 0 ≤ ex y) (take : Bool) (l : List Nat) (k : Key) (h : RCx k ex) (hl : k.locks = l) :
    RCx (locksSkip take l k).1
      (fun y => ex y + (match (locksSkip take l k).2 with | some x => if take then delta x y else 0 | none => 0)) ∧
    (locksSkip take l k).1.current = k.current ∧ (locksSkip take l k).1.wait = k.wait := by
  induction l generalizing k with
  | nil => exact ⟨h.congr (fun _ => by simp [locksSkip]), rfl, rfl⟩
  | cons x rest ih =>
    unfold locksSkip
    split
    · cases take with
      | true =>
        simp only [if_true]
        refine ⟨h.transfer rfl rfl (fun y => ?_), trivial, trivial⟩
        simp only [Key.qRefs, hl, List.count_cons, delta]
        by_cases e : y = x
        · subst e; simp; omega
        · have : (x == y) = false := by simpa using (fun e' : x = y => e e'.symm)
          simp [e, this]
      | false =>
        simp only [Bool.false_eq_true, if_false]
        exact ⟨h.congr (fun _ => by simp), trivial, trivial⟩
    · have h1 : RCx { k with locks := rest, locksPopped := k.locksPopped + 1 } (fun y => ex y + delta x y) := by
        refine h.transfer rfl rfl (fun y => ?_)
        simp only [Key.qRefs, hl, List.count_cons, delta]
        by_cases e : y = x
        · subst e; simp; omega
        · have : (x == y) = false := by simpa using (fun e' : x = y => e e'.symm)
          simp [e, this]
      have h2 : RCx ({ k with locks := rest, locksPopped := k.locksPopped + 1 }.unref x) ex := by
        refine (h1.unref x ?_).congr (fun y => by simp)
        have := hex x; simp only [delta, if_true]; omega
      obtain ⟨q1, q2, q3, _⟩ := unref_queues { k with locks := rest, locksPopped := k.locksPopped + 1 } x
      obtain ⟨r1, r2, r3⟩ := ih _ h2 q1
      exact ⟨r1, r2.trans q3, r3.trans q2⟩

/-- `RemoveLock` keeps the books -/
theorem removeLock_rc {k : Key} {ex : Nat → Int} (hex : ∀ y, 0 ≤ ex y) (h : RCx k ex) (rid : Nat) : RCx (k.removeLock rid) ex := by
  unfold Key.removeLock
  simp only []
  have h1 : RCx (k.modRec rid fun r => { r with depth := 0 }) ex := h.modRec_plain rid _ (fun _ => rfl) (fun _ => rfl) (fun _ => rfl)
  split
  · rename_i hc
    have hc' : k.current = some rid := by simpa [Key.modRec] using hc
    have hq : 0 < ((k.modRec rid fun r => { r with depth := 0 }).qRefs rid : Int) + ex rid := by
      have := hex rid; rw [qRefs_modRec]; simp only [Key.qRefs, hc', if_true]; omega
    have hh := h1.dang rid hq
    have h2 := h1.unrefOnly rid hh (by omega)
    have h3 : RCx { (k.modRec rid fun r => { r with depth := 0 }).unrefOnly rid with current := none } ex := by
      refine h2.transfer rfl rfl (fun y => ?_)
      simp only [Key.qRefs, Key.unrefOnly, Key.modRec, hc', delta]
      by_cases e : y = rid
      · subst e; simp; omega
      · have : ¬ (rid = y) := fun e' => e e'.symm
        simp [e, this]
    obtain ⟨s1, s2, s3⟩ := locksSkip_rc hex true _ _ h3 rfl
    refine s1.transfer rfl rfl (fun y => ?_)
    have hcur : (locksSkip true ({ (k.modRec rid fun r => { r with depth := 0 }).unrefOnly rid with current := none } : Key).locks
      { (k.modRec rid fun r => { r with depth := 0 }).unrefOnly rid with current := none }).1.current = none := s2
    simp only [Key.qRefs, hcur]
    cases (locksSkip true ({ (k.modRec rid fun r => { r with depth := 0 }).unrefOnly rid with current := none } : Key).locks
      { (k.modRec rid fun r => { r with depth := 0 }).unrefOnly rid with current := none }).2 with
    | none => simp
    | some x =>
      simp only [delta, if_true]
      by_cases e : y = x
      · subst e; simp; omega
      · have : ¬ (x = y) := fun e' => e e'.symm
        simp [e, this]
  · exact ((locksSkip_rc hex false _ _ h1 rfl).1).congr (fun y => by cases (locksSkip false _ _).2 <;> simp)

/-! ### the wait queue -/

theorem count_insertPrio (ws : List WEnt) (e : WEnt) (x : Nat) :
    ((insertPrio ws e).map (·.rid)).count x = (ws.map (·.rid)).count x + (if e.rid = x then 1 else 0) := by
  induction ws with
  | nil => by_cases h : e.rid = x <;> simp [insertPrio, List.count_cons, h]
  | cons a as ih =>
    unfold insertPrio
    split
    · by_cases h : e.rid = x <;> by_cases h2 : a.rid = x <;> simp [List.count_cons, h, h2]
    · simp only [List.map_cons, List.count_cons, ih]; omega

theorem count_foldl_insertPrio (l acc : List WEnt) (x : Nat) :
    ((l.foldl insertPrio acc).map (·.rid)).count x = (acc.map (·.rid)).count x + (l.map (·.rid)).count x := by
  induction l generalizing acc with
  | nil => simp
  | cons a as ih =>
    simp only [List.foldl_cons, ih, count_insertPrio, List.map_cons, List.count_cons]
    by_cases e : a.rid = x
    · simp [e]; omega
    · have : (a.rid == x) = false := by simpa using e
      simp [e, this]

/-- `RePushPriorityRingQueue` only reorders -/
theorem qRefs_rePush (k : Key) (x : Nat) : k.rePush.qRefs x = k.qRefs x := by
  unfold Key.rePush Key.qRefs
  simp only []
  rw [count_foldl_insertPrio]
  have : (k.wait.map (fun e => ({ e with prio := Slock.Engine.cmdPriority (k.getR e.rid).cmd } : WEnt))).map (·.rid) = k.wait.map (·.rid) := by
    rw [List.map_map]; rfl
  rw [this]; simp

theorem rePush_rc {k : Key} {ex : Nat → Int} (h : RCx k ex) : RCx k.rePush ex :=
  h.transfer rfl rfl (fun x => by rw [qRefs_rePush])

theorem count_append_single (l : List WEnt) (e : WEnt) (x : Nat) :
    ((l ++ [e]).map (·.rid)).count x = (l.map (·.rid)).count x + (if e.rid = x then 1 else 0) := by
  by_cases h : e.rid = x <;> simp [List.count_append, List.count_cons, h]

/-- `waitLocks.Push(e)`: a queue entry more, not yet counted in the record -/
theorem waitPush_rc {k : Key} {ex : Nat → Int} (hex : ∀ y, 0 ≤ ex y) (e : WEnt) (h : RCx k ex)
    (hnew : (k.wait.map (·.rid)).count e.rid = 0) :
    RCx (k.waitPush e) (fun y => ex y - delta e.rid y) := by
  unfold Key.waitPush
  have step : ∀ (k1 : Key) (sur : Nat → Int), k1.recs = k.recs → k1.refCount = k.refCount → k1.current = k.current → k1.locks = k.locks →
      (∀ x, ((k1.wait.map (·.rid)).count x : Int) + sur x = (k.wait.map (·.rid)).count x + (if e.rid = x then 1 else 0)) →
      RCx k1 (fun y => ex y - delta e.rid y + sur y) := by
    intro k1 sur h1 h2 h3 h4 h5
    refine h.transfer h1 h2 (fun x => ?_)
    have := h5 x
    simp only [Key.qRefs, h3, h4, delta]
    by_cases e' : e.rid = x
    · subst e'; simp at this ⊢; omega
    · have hne : ¬ (x = e.rid) := fun e'' => e' e''.symm
      simp [e', hne] at this ⊢; omega
  have step0 : ∀ (k1 : Key), k1.recs = k.recs → k1.refCount = k.refCount → k1.current = k.current → k1.locks = k.locks →
      (∀ x, (k1.wait.map (·.rid)).count x = (k.wait.map (·.rid)).count x + (if e.rid = x then 1 else 0)) →
      RCx k1 (fun y => ex y - delta e.rid y) := by
    intro k1 h1 h2 h3 h4 h5
    refine (step k1 (fun _ => 0) h1 h2 h3 h4 (fun x => by rw [h5 x]; split <;> simp)).congr (fun y => by simp)
  split
  · exact step0 _ rfl rfl rfl rfl (fun x => count_insertPrio _ _ _)
  · simp only []
    split
    · exact step0 _ rfl rfl rfl rfl (fun x => count_append_single _ _ _)
    · split
      · rename_i he
        have he' : k.wait = [] := by simpa using he
        exact step0 _ rfl rfl rfl rfl (fun x => by rw [he']; exact count_append_single [] e x)
      · -- compaction
        have hsplit := fun x => count_map_filter_split (fun y : WEnt => !k.deadWaiter y.rid) k.wait x
        have key : ∀ k1 : Key, k1.recs = k.recs → k1.refCount = k.refCount → k1.current = k.current → k1.locks = k.locks →
            k1.wait = k.wait.filter (fun x => !k.deadWaiter x.rid) ++ [e] →
            RCx k1 (fun y => (ex y - delta e.rid y) + countIn ((k.wait.filter (fun x => k.deadWaiter x.rid)).map (·.rid)) y) := by
          intro k1 h1 h2 h3 h4 h5
          refine step k1 _ h1 h2 h3 h4 (fun x => ?_)
          have hs := hsplit x
          simp only [Bool.not_not] at hs
          rw [h5, count_append_single]
          simp only [countIn]
          by_cases e' : e.rid = x <;> simp [e'] <;> omega
        apply foldl_unrefW_rc
        · intro y hy
          have hm : y ∈ k.wait := (List.mem_filter.mp hy).1
          have hne : y.rid ≠ e.rid := by
            intro e'
            have : 0 < (k.wait.map (·.rid)).count e.rid := List.count_pos_iff.mpr (List.mem_map.mpr ⟨y, hm, e'⟩)
            omega
          have := hex y.rid
          simp only [delta, hne, if_false]; omega
        · split
          · exact key _ rfl rfl rfl rfl rfl
          · exact key _ rfl rfl rfl rfl rfl

/-- `GetWaitLock`: lazy popping of the wait queue -/
theorem waitSkip_rc {ex : Nat → Int} (hex : ∀ y, 0 ≤ ex y) (l : List WEnt) (k : Key) (h : RCx k ex) (hl : k.wait = l) :
    RCx (waitSkip l k).1 ex ∧ (waitSkip l k).1.current = k.current ∧ (waitSkip l k).1.locks = k.locks := by
  induction l generalizing k with
  | nil => exact ⟨h, rfl, rfl⟩
  | cons e rest ih =>
    unfold waitSkip
    split
    · have h1 : RCx { k with wait := rest, waitPopped := if k.waitPrio then k.waitPopped else k.waitPopped + 1 } (fun y => ex y + delta e.rid y) := by
        refine h.transfer rfl rfl (fun y => ?_)
        simp only [Key.qRefs, hl, List.map_cons, List.count_cons, delta]
        by_cases e' : y = e.rid
        · subst e'; simp; omega
        · have : (e.rid == y) = false := by simpa using (fun e'' : e.rid = y => e' e''.symm)
          simp [e', this]
      have h2 : RCx ({ k with wait := rest, waitPopped := if k.waitPrio then k.waitPopped else k.waitPopped + 1 }.unref e.rid) ex := by
        refine (h1.unref e.rid ?_).congr (fun y => by simp)
        have := hex e.rid; simp only [delta, if_true]; omega
      obtain ⟨q1, q2, q3, _⟩ := unref_queues { k with wait := rest, waitPopped := if k.waitPrio then k.waitPopped else k.waitPopped + 1 } e.rid
      obtain ⟨r1, r2, r3⟩ := ih _ h2 q2
      exact ⟨r1, r2.trans q3, r3.trans q1⟩
    · exact ⟨h, rfl, rfl⟩

theorem getWaitLock_rc {k : Key} {ex : Nat → Int} (hex : ∀ y, 0 ≤ ex y) (h : RCx k ex) : RCx k.getWaitLock.1 ex :=
  (waitSkip_rc hex _ _ h rfl).1

theorem settleWait_rc {k : Key} {ex : Nat → Int} (hex : ∀ y, 0 ≤ ex y) (h : RCx k ex) : RCx k.settleWait ex := by
  unfold Key.settleWait
  split
  · exact (getWaitLock_rc hex h).transfer rfl rfl (fun _ => rfl)
  · exact getWaitLock_rc hex h

theorem hasRec_unref_other (k : Key) (rid x : Nat) (hx : x ≠ rid) : (k.unref rid).hasRec x ↔ k.hasRec x := by
  unfold Key.unref
  simp only []
  split
  · rw [hasRec_free _ _ _ hx]; unfold Key.unrefOnly; exact hasRec_modRec _ _ _ _ (by intro _; rfl)
  · unfold Key.unrefOnly; exact hasRec_modRec _ _ _ _ (by intro _; rfl)

theorem hasRec_foldl_unref (d : List Nat) (k : Key) (x : Nat) (hx : x ∉ d) : (d.foldl (fun k y => k.unref y) k).hasRec x ↔ k.hasRec x := by
  induction d generalizing k with
  | nil => exact Iff.rfl
  | cons a as ih =>
    simp only [List.foldl_cons]
    rw [ih _ (fun h => hx (List.mem_cons_of_mem _ h))]
    exact hasRec_unref_other _ _ _ (fun e => hx (by simp [e]))

theorem hasRec_waitPush (k : Key) (e : WEnt) (x : Nat) (hx : (k.wait.map (·.rid)).count x = 0) : (k.waitPush e).hasRec x ↔ k.hasRec x := by
  unfold Key.waitPush
  split
  · exact Iff.rfl
  · simp only []
    split
    · exact Iff.rfl
    · split
      · exact Iff.rfl
      · have hnd : x ∉ (k.wait.filter (fun y => k.deadWaiter y.rid)).map (·.rid) := by
          intro hm
          obtain ⟨y, hy, e'⟩ := List.mem_map.mp hm
          have : 0 < (k.wait.map (·.rid)).count x := List.count_pos_iff.mpr (List.mem_map.mpr ⟨y, (List.mem_filter.mp hy).1, e'⟩)
          omega
        have hf : ∀ k1 : Key, (List.foldl (fun k y => k.unref y.rid) k1 (k.wait.filter (fun y => k.deadWaiter y.rid))).hasRec x ↔ k1.hasRec x := by
          intro k1
          have : (k.wait.filter (fun y => k.deadWaiter y.rid)).foldl (fun k y => k.unref y.rid) k1 =
              ((k.wait.filter (fun y => k.deadWaiter y.rid)).map (·.rid)).foldl (fun k y => k.unref y) k1 := by rw [List.foldl_map]
          rw [this]; exact hasRec_foldl_unref _ _ _ hnd
        split
        · rw [hf]; exact Iff.rfl
        · rw [hf]; exact Iff.rfl

/-- `AddWaitLock`: queued and counted -/
theorem addWaitLock_rc {k : Key} {ex : Nat → Int} (hex : ∀ y, 0 ≤ ex y) (rid : Nat) (h : RCx k ex) (hh : k.hasRec rid)
    (hnew : (k.wait.map (·.rid)).count rid = 0) : RCx (k.addWaitLock rid) ex := by
  unfold Key.addWaitLock
  simp only []
  have h1 : ∀ k1 : Key, RCx k1 ex → k1.hasRec rid → (k1.wait.map (·.rid)).count rid = 0 →
      RCx { (k1.waitPush ⟨rid, Slock.Engine.cmdPriority (k.getR rid).cmd⟩).modRec rid (fun r => { r with refCount := r.refCount + 1 }) with waited := true } ex := by
    intro k1 hk1 hh1 hn1
    have hp := waitPush_rc hex ⟨rid, Slock.Engine.cmdPriority (k.getR rid).cmd⟩ hk1 hn1
    have hh2 : (k1.waitPush ⟨rid, Slock.Engine.cmdPriority (k.getR rid).cmd⟩).hasRec rid := (hasRec_waitPush _ _ _ hn1).mpr hh1
    exact ((hp.incr rid hh2).congr (fun y => by simp [delta])).transfer rfl rfl (fun _ => rfl)
  split
  · split
    · split
      · refine h1 _ (rePush_rc h) hh ?_
        have := qRefs_rePush k rid
        unfold Key.qRefs at this
        have hc : k.rePush.current = k.current := rfl
        have hl : k.rePush.locks = k.locks := rfl
        rw [hc, hl] at this
        omega
      · exact h1 _ h hh hnew
    · exact h1 _ h hh hnew
  · exact h1 _ h hh hnew

/-- `AddLock`: the record (already counted by the edit `f`: `refCount + 1`) becomes `currentLock` or a queue entry -/
theorem addLock_rc {k : Key} {ex : Nat → Int} (hex : ∀ y, 0 ≤ ex y) (rid : Nat) (f : Rec → Rec)
    (h : RCx (k.modRec rid f) (fun y => ex y + delta rid y)) : RCx (k.addLock rid f) ex := by
  unfold Key.addLock
  split
  · rename_i hc
    refine h.transfer rfl rfl (fun x => ?_)
    have hc' : (k.modRec rid f).current = none := hc
    simp only [Key.qRefs, hc', delta]
    by_cases e : x = rid
    · subst e; simp; omega
    · have : ¬ (rid = x) := fun e' => e e'.symm
      simp [e, this]
  · exact locksPush_rc hex rid h

end Slock.Engine2
