import Slock.Proofs.ReplSync
/-!
The handshake model (`Sync`): the system invariant `SInv`, one `…_step` lemma per event kind, and the induction over
event sequences of any length. Core Lean only.
-/
namespace Slock.Repl

/-! ### followers by name, and the number of registered channels -/

theorem getF_setF (fols : List (Nat × Fol)) (n m : Nat) (f : Fol) :
    getF (setF fols n f) m = if m = n then f else getF fols m := by
  induction fols with
  | nil =>
    simp only [setF, getF]
    by_cases h : n = m
    · simp [h]
    · have : ¬ m = n := fun e => h e.symm
      simp [h, this]
  | cons p fols ih =>
    obtain ⟨k, g⟩ := p
    simp only [setF]
    by_cases hk : k = n
    · simp only [hk, if_true, getF]
      by_cases h : n = m
      · simp [h]
      · have : ¬ m = n := fun e => h e.symm
        simp [h, this]
    · simp only [hk, if_false, getF]
      by_cases h : k = m
      · have : ¬ m = n := fun e => hk (h.trans e)
        simp [h, this]
      · simp only [h, if_false]; exact ih

def polledB (f : Fol) : Nat := if f.conn.polled then 1 else 0

def polledCount : List (Nat × Fol) → Nat
  | [] => 0
  | p :: r => polledB p.2 + polledCount r

theorem polledCount_setF (fols : List (Nat × Fol)) (n : Nat) (f' : Fol) :
    polledCount (setF fols n f') + polledB (getF fols n) = polledCount fols + polledB f' := by
  induction fols with
  | nil => simp [setF, getF, polledCount, polledB, Fol.new, Conn.polled]
  | cons p fols ih =>
    obtain ⟨k, g⟩ := p
    simp only [setF, getF]
    by_cases hk : k = n
    · simp only [hk, if_true, polledCount]; omega
    · simp only [hk, if_false, polledCount]; omega

theorem polledCount_pos (fols : List (Nat × Fol)) (n : Nat) (h : (getF fols n).conn.polled = true) : 0 < polledCount fols := by
  induction fols with
  | nil => simp [getF, Fol.new, Conn.polled] at h
  | cons p fols ih =>
    obtain ⟨k, g⟩ := p
    simp only [getF] at h
    by_cases hk : k = n
    · simp only [hk, if_true] at h
      simp only [polledCount, polledB, h, if_true]; omega
    · simp only [hk, if_false] at h
      have := ih h
      simp only [polledCount]; omega

/-! ### the invariant -/

/-- the cursor a transfer from scratch starts with: positioned by `Head` on record h (not yet written), or — empty buffer —
without a position (then h = 1: nothing has been published yet) -/
def HeadCur (h : Nat) (c : Cursor) : Prop :=
  (c.seq ≠ seqNone ∧ c.writed = false ∧ c.bufId = c.seq + 1 ∧ h = c.bufId) ∨ (c = newCursor ∧ h = 1)

/-- phase `stream`: the cursor's item is the last applied record (written) or the next one (not yet written); or the cursor
has no position yet and nothing has been applied -/
def StreamRest (f : Fol) : Prop :=
  (f.cur.seq ≠ seqNone ∧
    ((f.cur.writed = true ∧ f.cur.seq + 1 = f.log.length) ∨
     (f.cur.writed = false ∧ f.cur.seq = f.log.length ∧ f.cur.bufId = f.cur.seq + 1))) ∨
  (f.cur = newCursor ∧ f.log = [])

def ConnOk (f : Fol) : Prop :=
  match f.conn with
  | .off => True
  | .wait none => f.cur.seq ≠ seqNone ∧ f.cur.writed = true ∧ f.cur.seq + 1 = f.log.length
  | .wait (some h) => f.log = [] ∧ HeadCur h f.cur
  | .files h pos => f.log.length = pos ∧ pos + 1 ≤ h ∧ HeadCur h f.cur
  | .stream => StreamRest f

/-- One follower against a leader that has published `n` records: its applied log is `1 … m` with m ≤ n (a prefix of the
leader's log `1 … n`; during a transfer from scratch m = the number of file records received so far), its channel's cursor
is consistent with the buffer, and the phase-specific relation between cursor, log and reported id holds. -/
structure FolOk (q : Q) (n : Nat) (f : Fol) : Prop where
  cur : CurOk q f.cur
  has : CurHas q f.cur
  pre : Prefix1 f.log
  len : f.log.length ≤ n
  cid : f.curId = f.log.length     -- the id the follower would report is ALWAYS the id of the last record it has applied
  conn : ConnOk f

structure SInv (A : Nat) (s : Sync) (hist : List (Nat × Nat × Nat)) : Prop where
  q : Inv A s.q hist
  hok : HistOk hist
  hlen : hist.length = s.log.length
  log : Prefix1 s.log
  bnd : s.log.length < seqNone
  fol : ∀ n, FolOk s.q s.log.length (getF s.fols n)
  cnt : s.q.pollCount = polledCount s.fols

theorem prefix1_nil : Prefix1 [] := rfl

theorem folOk_new (q : Q) (n : Nat) : FolOk q n Fol.new :=
  ⟨curOk_new q, fun sid hs => (by cases hs), prefix1_nil, Nat.zero_le _, rfl, trivial⟩

theorem sinv_init (b m : Nat) : SInv 0 (Sync.init b m) [] := by
  refine ⟨inv_new b m, ?_, rfl, prefix1_nil, (by show 0 < seqNone; decide), ?_, rfl⟩
  · intro i r h; simp at h
  · intro n; exact folOk_new _ _

theorem SInv.mono_A {A s hist} (h : SInv A s hist) : SInv (A + 1) s hist :=
  ⟨h.q.mono (Nat.le_succ _), h.hok, h.hlen, h.log, h.bnd, h.fol, h.cnt⟩

theorem SInv.qseq {A s hist} (h : SInv A s hist) : s.q.seq = s.log.length := by rw [h.q.seq, h.hlen]

/-- replace the queue (same history) and one follower -/
theorem sinv_set {A A' : Nat} {s : Sync} {hist} (h : SInv A s hist) (q' : Q) (n : Nat) (f' : Fol)
    (hq : Inv A' q' hist)
    (hcur : ∀ c, CurOk s.q c → CurOk q' c) (hhas : ∀ c, CurHas s.q c → CurHas q' c)
    (hf : FolOk q' s.log.length f')
    (hcnt : q'.pollCount + polledB (getF s.fols n) = s.q.pollCount + polledB f') :
    SInv A' { s with q := q', fols := setF s.fols n f' } hist := by
  refine ⟨hq, h.hok, h.hlen, h.log, h.bnd, ?_, ?_⟩
  · intro m
    show FolOk q' s.log.length (getF (setF s.fols n f') m)
    rw [getF_setF]
    by_cases hm : m = n
    · simp only [hm, if_true]; exact hf
    · simp only [hm, if_false]
      have := h.fol m
      exact ⟨hcur _ this.cur, hhas _ this.has, this.pre, this.len, this.cid, this.conn⟩
  · show q'.pollCount = polledCount (setF s.fols n f')
    have := polledCount_setF s.fols n f'
    have := h.cnt
    omega

/-- replace one follower, queue untouched -/
theorem sinv_setF {A : Nat} {s : Sync} {hist} (h : SInv A s hist) (n : Nat) (f' : Fol)
    (hf : FolOk s.q s.log.length f') (hp : polledB f' = polledB (getF s.fols n)) :
    SInv A { s with fols := setF s.fols n f' } hist :=
  sinv_set h s.q n f' h.q (fun _ x => x) (fun _ x => x) hf (by omega)

/-! ### pollCount bookkeeping -/

theorem addPoll_pollCount (q : Q) (c : Cursor) : (addPoll q c).pollCount = (q.pollCount + 1) % W32 := by
  unfold addPoll
  generalize (q.pollCount + 1) % W32 = k
  exact (walk_pointwise { q with pollCount := k } incPollCount Same same_refl same_incPollCount (addStart q c)).2.2.2

theorem removePoll_pollCount (q : Q) (c : Cursor) : (removePoll q c).pollCount = (q.pollCount + W32 - 1) % W32 := by
  unfold removePoll
  generalize (q.pollCount + W32 - 1) % W32 = k
  exact (walk_pointwise { q with pollCount := k } incPollIndex Same same_refl same_incPollIndex c.cur).2.2.2

theorem push_pollCount (q : Q) (hf : ∀ it ∈ q.free, it.pollCount = M32) (id ord dlen : Nat) :
    (push q id ord dlen).pollCount = q.pollCount := by
  obtain ⟨_, _, _, _, _, _, _, _, _, p7, _⟩ := push_shape q id ord dlen hf
  exact p7

/-! ### event: append -/

theorem histOk_snoc {hist : List (Nat × Nat × Nat)} (h : HistOk hist) (ord dlen : Nat) :
    HistOk (hist ++ [(hist.length + 1, ord, dlen)]) := by
  intro i r hr
  by_cases hi : i < hist.length
  · rw [List.getElem?_append_left hi] at hr; exact h i r hr
  · by_cases hi2 : i = hist.length
    · subst hi2
      simp at hr
      rw [← hr]
    · rw [List.getElem?_eq_none (by simp; omega)] at hr; cases hr

theorem append_step {A s hist} (h : SInv A s hist) (dlen : Nat) (hb : s.log.length + 1 < seqNone) :
    SInv A (sstep s (.append dlen)).1 (hist ++ [(s.log.length + 1, s.log.length + 1, dlen)]) := by
  show SInv A { s with q := push s.q (s.log.length + 1) (s.log.length + 1) dlen, log := s.log ++ [s.log.length + 1] } _
  refine ⟨push_inv h.q _ _ _, ?_, ?_, prefix1_snoc h.log, ?_, ?_, ?_⟩
  · have := histOk_snoc h.hok (s.log.length + 1) dlen
    rw [h.hlen] at this; exact this
  · simp only [List.length_append, List.length_singleton, h.hlen]
  · simp only [List.length_append, List.length_singleton]; exact hb
  · intro n
    have := h.fol n
    refine ⟨push_curOk h.q this.cur _ _ _, fun sid hs => push_has _ _ _ (this.has sid hs), this.pre, ?_, this.cid, this.conn⟩
    have := this.len
    simp; omega
  · show (push s.q _ _ _).pollCount = polledCount s.fols
    rw [push_pollCount s.q h.q.freeMarked]; exact h.cnt

/-! ### event: connect -/

theorem head_new_cases {A q hist} (h : Inv A q hist) (hh : HistOk hist) (hq : q.seq < seqNone) :
    let r := head q newCursor
    CurOk q r.2 ∧ CurHas q r.2 ∧
      HeadCur (if r.1 = .ok then r.2.bufId else hist.length + 1) r.2 := by
  intro r
  by_cases hr : r.1 = .ok
  · have hp : head q newCursor = (.ok, r.2) := by rw [← hr]
    obtain ⟨g1, g2, g3, g4, it, hit, hcur⟩ := head_ok h hp
    have hb := hh _ _ g2
    simp only at hb
    refine ⟨g3, ?_, ?_⟩
    · intro sid hs; rw [hcur] at hs; cases hs; exact has_of_live hit
    · simp only [hr, if_true]
      exact Or.inl ⟨by omega, g4, hb, rfl⟩
  · obtain ⟨e1, e2⟩ := head_fail (q := q) (c := newCursor) hr
    have e1' : r.2 = newCursor := e1
    refine ⟨(by rw [e1']; exact curOk_new q), (by rw [e1']; intro sid hs; cases hs), ?_⟩
    simp only [hr, if_false]
    right
    refine ⟨e1', ?_⟩
    cases hh' : hist with
    | nil => rfl
    | cons a b => exact absurd e2 (h.nonempty (by rw [hh']; simp))

theorem connectFull_step {A s hist} (h : SInv A s hist) (n : Nat) (hoff : (getF s.fols n).conn = .off) :
    SInv A (connectFull s n).1 hist := by
  unfold connectFull
  simp only []
  have hc := head_new_cases h.q h.hok (by rw [h.qseq]; exact h.bnd)
  simp only [] at hc
  obtain ⟨c1, c2, c3⟩ := hc
  rw [h.hlen] at c3
  apply sinv_setF h n
  · exact ⟨c1, c2, prefix1_nil, Nat.zero_le _, rfl, ⟨rfl, c3⟩⟩
  · simp [polledB, hoff, Conn.polled]

theorem connect_step {A s hist} (h : SInv A s hist) (n : Nat) : SInv A (sstep s (.connect n)).1 hist := by
  show SInv A (connect s n).1 hist
  unfold connect
  simp only []
  by_cases hoff : (getF s.fols n).conn = .off
  · have hfo := h.fol n
    have hco : (getF s.fols n).curId = (getF s.fols n).log.length := hfo.cid
    simp only [hoff, ne_eq, not_true_eq_false, if_false]
    by_cases h0 : (getF s.fols n).curId = 0
    · simp only [h0, if_true]
      exact connectFull_step h n hoff
    · simp only [h0, if_false]
      by_cases hs : (search s.q (getF s.fols n).curId newCursor).1 = .ok
      · simp only [hs, if_true]
        have hp : search s.q (getF s.fols n).curId newCursor = (.ok, (search s.q (getF s.fols n).curId newCursor).2) := by rw [← hs]
        obtain ⟨_, g2, g3, _, _, g6, g7, it, hit, hcur⟩ := search_ok h.q hp
        have hb := h.hok _ _ g3
        simp only at hb
        apply sinv_setF h n
        · refine ⟨g6, ?_, hfo.pre, hfo.len, hco, ?_⟩
          · intro sid hsid
            have hsid' : (search s.q (getF s.fols n).curId newCursor).2.cur = some sid := hsid
            rw [hcur] at hsid'; cases hsid'; exact has_of_live hit
          · show ConnOk { getF s.fols n with conn := .wait none, cur := (search s.q (getF s.fols n).curId newCursor).2 }
            unfold ConnOk
            simp only []
            have := h.qseq
            have := h.bnd
            exact ⟨by omega, g7, by omega⟩
        · simp [polledB, hoff, Conn.polled]
      · simp only [hs, if_false]
        by_cases hend : (getF s.fols n).curId = s.log.length
        · -- unreachable: the newest record is always buffered, so Search finds it
          exfalso
          have hn : 0 < s.log.length := by omega
          have hne : hist ≠ [] := by intro e; rw [e] at h; have := h.hlen; simp at this; omega
          have hlive := h.q.nonempty hne
          have hlo := LiveOk.len h.q.liveOk
          have hlen : 0 < s.q.live.length := List.length_pos_iff.mpr hlive
          have hlt : s.log.length - 1 < hist.length := by rw [h.hlen]; omega
          obtain ⟨r, hr⟩ : ∃ r, hist[s.log.length - 1]? = some r := ⟨hist[s.log.length - 1], List.getElem?_eq_getElem hlt⟩
          have hid := h.hok _ _ hr
          apply hs
          apply search_hit h.q
          refine ⟨s.log.length - 1, r, ?_, hr, ?_⟩
          · have := h.hlen; omega
          · rw [hid, hend]; omega
        · simp only [hend, if_false]
          exact connectFull_step h n hoff
  · simp only [hoff, ne_eq, not_false_eq_true, if_true]
    exact h

/-! ### event: start (the "started" message: AddPoll) -/

theorem headCur_pos {h c} (hc : HeadCur h c) : 1 ≤ h := by
  rcases hc with ⟨_, _, a, b⟩ | ⟨_, b⟩ <;> omega

theorem start_step {A s hist} (h : SInv A s hist) (n : Nat) (hA : A + 1 < M32) :
    SInv (A + 1) (sstep s (.start n)).1 hist := by
  show SInv (A + 1) (start s n).1 hist
  have hfo := h.fol n
  have hw : ∀ f', FolOk (addPoll s.q (getF s.fols n).cur) s.log.length f' → polledB f' = 1 → polledB (getF s.fols n) = 0 →
      SInv (A + 1) { s with q := addPoll s.q (getF s.fols n).cur, fols := setF s.fols n f' } hist := by
    intro f' hf hp1 hp0
    apply sinv_set h _ n f' (addPoll_inv h.q) (fun _ x => addPoll_curOk x) (fun _ x sid hs => addPoll_has (x sid hs)) hf
    rw [addPoll_pollCount, hp1, hp0]
    have := h.q.pc
    have : (s.q.pollCount + 1) % W32 = s.q.pollCount + 1 := Nat.mod_eq_of_lt (by unfold M32 at hA; unfold W32; omega)
    omega
  unfold start
  simp only []
  split
  · rename_i hc
    have hco := hfo.conn; unfold ConnOk at hco; rw [hc] at hco
    apply hw
    · refine ⟨addPoll_curOk hfo.cur, fun sid hs => addPoll_has (hfo.has sid hs), hfo.pre, hfo.len, hfo.cid, ?_⟩
      show StreamRest _
      exact Or.inl ⟨hco.1, Or.inl ⟨hco.2.1, hco.2.2⟩⟩
    · simp [polledB, Conn.polled]
    · simp [polledB, hc, Conn.polled]
  · rename_i hh hc
    have hco := hfo.conn; unfold ConnOk at hco; rw [hc] at hco
    apply hw
    · refine ⟨addPoll_curOk hfo.cur, fun sid hs => addPoll_has (hfo.has sid hs), hfo.pre, hfo.len, hfo.cid, ?_⟩
      show ConnOk { getF s.fols n with conn := .files hh 0 }
      unfold ConnOk
      simp only []
      refine ⟨by rw [hco.1]; rfl, headCur_pos hco.2, hco.2⟩
    · simp [polledB, Conn.polled]
    · simp [polledB, hc, Conn.polled]
  · exact h.mono_A

/-! ### event: deliver in the file phase -/

theorem prefix1_get {l : List Nat} (h : Prefix1 l) {i x} (hx : l[i]? = some x) : x = i + 1 := by
  unfold Prefix1 at h
  rw [h] at hx
  have hi : i < l.length := by
    rcases Nat.lt_or_ge i l.length with hi | hi
    · exact hi
    · rw [List.getElem?_eq_none (by simp; exact hi)] at hx; cases hx
  rw [List.getElem?_range' (by exact hi)] at hx
  simp at hx; omega

theorem deliverFiles_step {A s hist} (h : SInv A s hist) (n hh pos : Nat) (hc : (getF s.fols n).conn = .files hh pos) :
    SInv A (sstep s (.deliver n)).1 hist := by
  show SInv A (deliver s n).1 hist
  have hfo := h.fol n
  have hco := hfo.conn; unfold ConnOk at hco; rw [hc] at hco
  obtain ⟨hpos, hle, hcur⟩ := hco
  have hdone : SInv A { s with fols := setF s.fols n { getF s.fols n with conn := .stream } } hist → pos + 1 = hh →
      SInv A { s with fols := setF s.fols n { getF s.fols n with conn := .stream } } hist := fun x _ => x
  have hstream : pos + 1 = hh → SInv A { s with fols := setF s.fols n { getF s.fols n with conn := .stream } } hist := by
    intro he
    apply sinv_setF h n
    · refine ⟨hfo.cur, hfo.has, hfo.pre, hfo.len, hfo.cid, ?_⟩
      show StreamRest _
      rcases hcur with ⟨a1, a2, a3, a4⟩ | ⟨b1, b2⟩
      · exact Or.inl ⟨a1, Or.inr ⟨a2, by show (getF s.fols n).cur.seq = (getF s.fols n).log.length; omega, a3⟩⟩
      · refine Or.inr ⟨b1, ?_⟩
        show (getF s.fols n).log = []
        exact List.length_eq_zero_iff.mp (by omega)
    · simp [polledB, hc, Conn.polled]
  unfold deliver
  simp only [hc]
  split
  · rename_i id hid
    have hidv := prefix1_get h.log hid
    have hposn : pos < s.log.length := by
      rcases Nat.lt_or_ge pos s.log.length with hi | hi
      · exact hi
      · rw [List.getElem?_eq_none hi] at hid; cases hid
    by_cases hlt : id < hh
    · simp only [hlt, if_true]
      apply sinv_setF h n
      · refine ⟨hfo.cur, hfo.has, ?_, ?_, ?_, ?_⟩
        · show Prefix1 ((getF s.fols n).log ++ [id])
          rw [hidv, ← hpos]; exact prefix1_snoc hfo.pre
        · show ((getF s.fols n).log ++ [id]).length ≤ s.log.length
          simp; omega
        · show id = ((getF s.fols n).log ++ [id]).length
          simp; omega
        · show ConnOk { getF s.fols n with log := (getF s.fols n).log ++ [id], curId := id, conn := .files hh (pos + 1) }
          unfold ConnOk
          simp only []
          refine ⟨by simp; omega, by omega, hcur⟩
      · simp [polledB, hc, Conn.polled]
    · simp only [hlt, if_false]
      exact hstream (by omega)
  · rename_i hid
    -- no record at `pos`: only possible when nothing has been published and the cursor has no position
    have hge : s.log.length ≤ pos := by
      rcases Nat.lt_or_ge pos s.log.length with hi | hi
      · rw [List.getElem?_eq_getElem hi] at hid; cases hid
      · exact hi
    apply hstream
    rcases hcur with ⟨a1, _, a3, a4⟩ | ⟨_, b2⟩
    · have := (hfo.cur a1).1
      rw [h.qseq] at this
      omega
    · have := hfo.len; omega

/-! ### event: deliver in the stream phase -/

theorem ack_cursor {q c q' c' b} (ha : ack q c = some (q', c', b)) (hw : c.writed = false) : c' = { c with writed := true } := by
  unfold ack at ha
  split at ha
  · rename_i hwt; rw [hw] at hwt; cases hwt
  · split at ha
    · cases ha
    · simp only [Option.some.injEq, Prod.mk.injEq] at ha
      exact ha.2.1.symm

/-- `Pop` for a cursor without a position: EOF on an empty buffer, else the oldest buffered record — never an error -/
theorem pop_fresh {A q hist} (h : Inv A q hist) :
    pop q newCursor = (.eof, newCursor) ∨ ∃ c', pop q newCursor = (.ok, c') ∧ c'.seq = tailSeq q := by
  have hlo := h.liveOk
  have e : pop q newCursor = popTail q newCursor := rfl
  rw [e]
  unfold popTail
  split
  · exact Or.inl rfl
  · rename_i t rest hl
    right
    have hne : ¬ (t.seq ≠ newCursor.seq + 1 ∧ t.seq ≠ 0 ∧ newCursor.seq ≠ seqNone) := fun x => x.2.2 rfl
    rw [if_neg hne]
    refine ⟨_, rfl, ?_⟩
    rw [hl] at hlo
    exact hlo.1

/-- the guard of `deliver` in the stream phase: a cursor WITHOUT a position (transfer from scratch answered on an empty
buffer) takes its first record only while record 1 is still buffered -/
def FreshGuard (q : Q) (f : Fol) : Prop := f.cur.seq = seqNone → tailSeq q = 0

instance (q : Q) (f : Fol) : Decidable (FreshGuard q f) := by unfold FreshGuard; exact inferInstance

theorem connOk_stream {f : Fol} (hc : f.conn = .stream) (h : StreamRest f) : ConnOk f := by
  unfold ConnOk; rw [hc]; exact h

theorem deliverStream_step {A s hist} (h : SInv A s hist) (n : Nat) (hA : A < M32) (hc : (getF s.fols n).conn = .stream)
    (hg : FreshGuard s.q (getF s.fols n)) :
    SInv A (sstep s (.deliver n)).1 hist := by
  show SInv A (deliver s n).1 hist
  have hfo := h.fol n
  have hco : StreamRest (getF s.fols n) := by have := hfo.conn; unfold ConnOk at this; rw [hc] at this; exact this
  have hpb : polledB (getF s.fols n) = 1 := by simp [polledB, hc, Conn.polled]
  have hqs := h.qseq
  have hbnd := h.bnd
  unfold deliver
  simp only [hc]
  unfold streamStep
  split
  · -- the item in hand is written and acknowledged
    rename_i hw
    split
    · rename_i hnone
      simp only []
      apply sinv_set h s.q n (getF s.fols n) h.q (fun _ x => x) (fun _ x => x) hfo (by omega)
    · rename_i q' c' b ha
      simp only []
      rcases hco with ⟨hpos, ⟨w, _⟩ | ⟨_, hseq, hbuf⟩⟩ | ⟨hnew, _⟩
      · rw [hw] at w; cases w
      · obtain ⟨_, _, a3, a4, a5, a6⟩ := ack_spec ha
        have hc' := ack_cursor ha hw
        have hlt := (hfo.cur hpos).1
        apply sinv_set h q' n _ (ack_inv h.q ha) (fun _ x => ack_curOk ha x) (fun _ x sid hs => ack_has ha (x sid hs))
        · refine ⟨ack_curOk_self ha hfo.cur, ?_, ?_, ?_, ?_, ?_⟩
          · intro sid hsid
            have hsid' : c'.cur = some sid := hsid
            rw [a6] at hsid'
            exact ack_has ha (hfo.has sid hsid')
          · show Prefix1 ((getF s.fols n).log ++ [(getF s.fols n).cur.bufId])
            rw [hbuf, hseq]; exact prefix1_snoc hfo.pre
          · show ((getF s.fols n).log ++ [(getF s.fols n).cur.bufId]).length ≤ s.log.length
            simp; omega
          · show (getF s.fols n).cur.bufId = ((getF s.fols n).log ++ [(getF s.fols n).cur.bufId]).length
            simp; omega
          · refine connOk_stream hc ?_
            refine Or.inl ⟨by show c'.seq ≠ seqNone; rw [a5]; exact hpos, Or.inl ⟨by show c'.writed = true; rw [hc'], ?_⟩⟩
            show c'.seq + 1 = ((getF s.fols n).log ++ [(getF s.fols n).cur.bufId]).length
            rw [a5]; simp; omega
        · rw [a4, hpb]; simp [polledB, hc, Conn.polled]
      · rw [hnew] at hw; cases hw
  · rename_i hw
    have hw' : (getF s.fols n).cur.writed = true := by
      cases hcw : (getF s.fols n).cur.writed with
      | true => rfl
      | false => exact absurd hcw hw
    simp only []
    split
    · -- Pop returned the next item
      rename_i hr
      simp only []
      have hp : pop s.q (getF s.fols n).cur = (.ok, (pop s.q (getF s.fols n).cur).2) := by rw [← hr]
      obtain ⟨g1, g2, g3, g4, g5, it, hit, hcur⟩ := pop_ok h.q hA hfo.cur hp
      have hb := h.hok _ _ g2
      simp only at hb
      apply sinv_set h s.q n _ h.q (fun _ x => x) (fun _ x => x)
      · refine ⟨g4, ?_, hfo.pre, hfo.len, hfo.cid, ?_⟩
        · intro sid hsid
          have hsid' : (pop s.q (getF s.fols n).cur).2.cur = some sid := hsid
          rw [hcur] at hsid'; cases hsid'; exact has_of_live hit
        · refine connOk_stream hc ?_
          refine Or.inl ⟨by show (pop s.q (getF s.fols n).cur).2.seq ≠ seqNone; omega, Or.inr ⟨g5, ?_, hb⟩⟩
          show (pop s.q (getF s.fols n).cur).2.seq = (getF s.fols n).log.length
          rcases hco with ⟨hpos, ⟨_, hseq⟩ | ⟨w, _⟩⟩ | ⟨hnew, hlog⟩
          · rcases g3 with g | g
            · exact absurd g hpos
            · omega
          · rw [hw'] at w; cases w
          · -- no position yet: the oldest buffered record, which is record 1 by the guard
            have hts := hg (by rw [hnew]; rfl)
            rcases pop_fresh h.q with e | ⟨c', e, es⟩
            · rw [hnew, e] at hr; cases hr
            · rw [hnew, e]; simp only []; rw [es, hts, hlog]; rfl
      · simp [polledB, hc, Conn.polled]
    · -- EOF: nothing to send
      simp only []
      apply sinv_set h s.q n (getF s.fols n) h.q (fun _ x => x) (fun _ x => x) hfo (by omega)
    · -- "out of buf": the channel closes; only a positioned cursor can get here
      rename_i hnok hneof
      simp only []
      have hpos_cnt : 0 < s.q.pollCount := by rw [h.cnt]; exact polledCount_pos s.fols n (by rw [hc]; rfl)
      rcases hco with ⟨hpos, ⟨_, _⟩ | ⟨w, _⟩⟩ | ⟨hnew, _⟩
      · apply sinv_set h _ n _ (removePoll_inv h.q hpos_cnt hA) (fun _ x => removePoll_curOk x)
          (fun _ x sid hs => removePoll_has (x sid hs))
        · exact ⟨removePoll_curOk hfo.cur, fun sid hs => removePoll_has (hfo.has sid hs), hfo.pre, hfo.len, hfo.cid, trivial⟩
        · rw [removePoll_pollCount, hpb]
          have : polledB { getF s.fols n with conn := Conn.off } = 0 := by simp [polledB, Conn.polled]
          rw [this]
          have := h.q.pc
          unfold M32 at hA
          unfold W32
          omega
      · rw [hw'] at w; cases w
      · exfalso
        rcases pop_fresh h.q with e | ⟨c', e, _⟩
        · rw [hnew, e] at hneof; exact hneof rfl
        · rw [hnew, e] at hnok; exact hnok rfl

/-! ### events: cut, restart on the same dir, restart on an empty dir -/

theorem dropChannel_step {A s hist} (h : SInv A s hist) (n : Nat) (hA : A < M32) (f' : Fol)
    (hoff : f'.conn = .off) (hcid : f'.curId = f'.log.length) (hpre : Prefix1 f'.log) (hlen : f'.log.length ≤ s.log.length)
    (hcur : f'.cur = (getF s.fols n).cur ∨ f'.cur = newCursor) :
    SInv A (dropChannel s n f') hist := by
  have hfo := h.fol n
  have hp0 : polledB f' = 0 := by simp [polledB, hoff, Conn.polled]
  unfold dropChannel
  simp only []
  by_cases hp : (getF s.fols n).conn.polled = true
  · simp only [hp, if_true]
    have hpos_cnt : 0 < s.q.pollCount := by rw [h.cnt]; exact polledCount_pos s.fols n hp
    apply sinv_set h _ n _ (removePoll_inv h.q hpos_cnt hA) (fun _ x => removePoll_curOk x)
      (fun _ x sid hs => removePoll_has (x sid hs))
    · refine ⟨?_, ?_, hpre, hlen, hcid, by unfold ConnOk; rw [hoff]; trivial⟩
      · rcases hcur with e | e <;> rw [e]
        · exact removePoll_curOk hfo.cur
        · exact curOk_new _
      · rcases hcur with e | e <;> rw [e]
        · exact fun sid hs => removePoll_has (hfo.has sid hs)
        · intro sid hs; cases hs
    · rw [removePoll_pollCount, hp0]
      have : polledB (getF s.fols n) = 1 := by simp [polledB, hp]
      rw [this]
      have := h.q.pc
      unfold M32 at hA
      unfold W32
      omega
  · simp only [hp, if_false]
    apply sinv_set h s.q n _ h.q (fun _ x => x) (fun _ x => x)
    · refine ⟨?_, ?_, hpre, hlen, hcid, by unfold ConnOk; rw [hoff]; trivial⟩
      · rcases hcur with e | e <;> rw [e]
        · exact hfo.cur
        · exact curOk_new _
      · rcases hcur with e | e <;> rw [e]
        · exact hfo.has
        · intro sid hs; cases hs
    · have : polledB (getF s.fols n) = 0 := by simp [polledB, hp]
      omega

theorem cut_step {A s hist} (h : SInv A s hist) (n : Nat) (hA : A < M32) :
    SInv A (sstep s (.cut n)).1 hist := by
  show SInv A (cut s n).1 hist
  unfold cut
  simp only []
  split
  · exact h
  · exact dropChannel_step h n hA _ rfl (h.fol n).cid (h.fol n).pre (h.fol n).len (Or.inl rfl)

theorem restartSame_step {A s hist} (h : SInv A s hist) (n : Nat) (hA : A < M32) :
    SInv A (sstep s (.restartSame n)).1 hist :=
  dropChannel_step h n hA _ rfl rfl (h.fol n).pre (h.fol n).len (Or.inl rfl)

theorem restartEmpty_step {A s hist} (h : SInv A s hist) (n : Nat) (hA : A < M32) :
    SInv A (sstep s (.restartEmpty n)).1 hist :=
  dropChannel_step h n hA Fol.new rfl rfl prefix1_nil (Nat.zero_le _) (Or.inr rfl)

/-! ### guards, and the induction over event sequences -/

/-- The side conditions of the events that remain after the two repairs (`fix: InitSync …`, `fix: AddPoll …`):
* `append`: fewer than 2^64-1 records (the cursor's "no position" value is not a real seq);
* `deliver` in the stream phase: a cursor without a position takes its first record while record 1 is still buffered
  (`C09_resync_fails_empty_buffer`, not repaired).
`connect` / `start` / `cut` / `restartSame` / `restartEmpty` need no guard. -/
def EvOk (s : Sync) : Ev → Prop
  | .append _ => s.log.length + 1 < seqNone
  | .deliver n => (getF s.fols n).conn = .stream → FreshGuard s.q (getF s.fols n)
  | _ => True

instance (s : Sync) (ev : Ev) : Decidable (EvOk s ev) := by
  cases ev <;> unfold EvOk <;> exact inferInstance

def SGuarded (s : Sync) : List Ev → Prop
  | [] => True
  | e :: es => EvOk s e ∧ SGuarded (sstep s e).1 es

instance sguardedDec : (s : Sync) → (es : List Ev) → Decidable (SGuarded s es)
  | _, [] => isTrue trivial
  | s, e :: es => @instDecidableAnd _ _ _ (sguardedDec (sstep s e).1 es)

def startsOf : Ev → Nat
  | .start _ => 1
  | _ => 0

def numStarts : List Ev → Nat
  | [] => 0
  | e :: es => startsOf e + numStarts es

theorem deliver_noop {s : Sync} {n : Nat} (h1 : ∀ a b, (getF s.fols n).conn ≠ .files a b) (h2 : (getF s.fols n).conn ≠ .stream) :
    (deliver s n).1 = s := by
  cases hc : (getF s.fols n).conn with
  | files a b => exact absurd hc (h1 a b)
  | stream => exact absurd hc h2
  | off => unfold deliver; simp only [hc]
  | wait o => unfold deliver; simp only [hc]

/-- ONE STEP, any event kind. -/
theorem sstep_inv {A s hist} (h : SInv A s hist) (ev : Ev) (hok : EvOk s ev) (hA : A + startsOf ev < M32) :
    ∃ hist', SInv (A + startsOf ev) (sstep s ev).1 hist' := by
  cases ev with
  | append dlen => exact ⟨_, append_step h dlen hok⟩
  | connect n => exact ⟨_, connect_step h n⟩
  | start n => exact ⟨_, start_step h n hA⟩
  | deliver n =>
    refine ⟨hist, ?_⟩
    cases hc : (getF s.fols n).conn with
    | files a b => exact deliverFiles_step h n a b hc
    | stream => exact deliverStream_step h n hA hc (hok hc)
    | off =>
      show SInv A (deliver s n).1 hist
      rw [deliver_noop (by intro a b; rw [hc]; intro e; cases e) (by rw [hc]; intro e; cases e)]; exact h
    | wait o =>
      show SInv A (deliver s n).1 hist
      rw [deliver_noop (by intro a b; rw [hc]; intro e; cases e) (by rw [hc]; intro e; cases e)]; exact h
  | cut n => exact ⟨_, cut_step h n hA⟩
  | restartSame n => exact ⟨_, restartSame_step h n hA⟩
  | restartEmpty n => exact ⟨_, restartEmpty_step h n hA⟩

/-- The invariant holds after EVERY guarded event sequence, of any length. -/
theorem srun_inv {A s hist} (evs : List Ev) (h : SInv A s hist) (hg : SGuarded s evs) (hA : A + numStarts evs < M32) :
    ∃ hist', SInv (A + numStarts evs) (srun s evs) hist' := by
  induction evs generalizing A s hist with
  | nil => exact ⟨hist, h⟩
  | cons e es ih =>
    obtain ⟨g1, g2⟩ := hg
    simp only [numStarts] at hA ⊢
    obtain ⟨h1, i1⟩ := sstep_inv h e g1 (by omega)
    obtain ⟨h2, i2⟩ := ih i1 g2 (by omega)
    rw [← Nat.add_assoc]
    exact ⟨h2, i2⟩

/-! ### what the invariant says about a follower -/

theorem range'_take (s a b : Nat) (h : a ≤ b) : List.range' s a = (List.range' s b).take a := by
  induction a generalizing s b with
  | zero => simp
  | succ a ih =>
    cases b with
    | zero => omega
    | succ b =>
      simp only [List.range'_succ, List.take_succ_cons]
      rw [ih (s + 1) b (by omega)]

/-- the follower's applied log is the first m records of the leader's log -/
theorem sinv_prefix {A s hist} (h : SInv A s hist) (n : Nat) :
    (getF s.fols n).log = s.log.take (getF s.fols n).log.length ∧ (getF s.fols n).log.length ≤ s.log.length := by
  have hf := h.fol n
  refine ⟨?_, hf.len⟩
  have h1 := hf.pre
  have h2 := h.log
  unfold Prefix1 at h1 h2
  rw [h2, ← range'_take 1 _ _ hf.len]
  exact h1

/-- connected, file phase finished, nothing more to deliver ⇒ the follower has applied the leader's whole log -/
theorem sinv_converge {A s hist} (h : SInv A s hist) (n : Nat) (hc : (getF s.fols n).conn = .stream)
    (hi : (sstep s (.deliver n)).2 = .idle) : (getF s.fols n).log = s.log := by
  have hf := h.fol n
  have hco : StreamRest (getF s.fols n) := by have := hf.conn; unfold ConnOk at this; rw [hc] at this; exact this
  have hqs := h.qseq
  have hbnd := h.bnd
  have hlen : (getF s.fols n).log.length = s.log.length := by
    have hi' : (deliver s n).2 = .idle := hi
    unfold deliver at hi'
    simp only [hc] at hi'
    unfold streamStep at hi'
    split at hi'
    · split at hi' <;> cases hi'
    · rename_i hw
      have hw' : (getF s.fols n).cur.writed = true := by
        cases hcw : (getF s.fols n).cur.writed with
        | true => rfl
        | false => exact absurd hcw hw
      simp only [] at hi'
      split at hi'
      · cases hi'
      · rename_i hr
        have hp : pop s.q (getF s.fols n).cur = (.eof, (pop s.q (getF s.fols n).cur).2) := by rw [← hr]
        obtain ⟨_, g⟩ := pop_eof h.q hp
        rcases hco with ⟨hpos, ⟨_, hseq⟩ | ⟨w, _⟩⟩ | ⟨hnew, hlog⟩
        · rcases g with g | g
          · have := (hf.cur hpos).1; omega
          · omega
        · rw [hw'] at w; cases w
        · rw [hlog]
          rcases g with g | g
          · simp; omega
          · rw [hnew] at g
            have : newCursor.seq = seqNone := rfl
            omega
      · cases hi'
  have h1 := hf.pre
  have h2 := h.log
  unfold Prefix1 at h1 h2
  rw [h1, h2, hlen]

end Slock.Repl
