import Slock.Proofs.Engine2Basic
/-! Stage-2 engine: the "no value state" invariant, key-record and working-state level.

A key record is value-free (`KN`) when it has no value cell and none of its lock records carries a pending value frame
(`Rec.data`). The value cell is written in three places only: `W.procData` (the value operation — a no-op without a frame),
`aofLockData` (sets the journalling bit of an EXISTING cell) and `W.removeIfZero` (clears it). A record's `data` is written by
`newRec` (the frame of the command) and cleared by the grants. So every helper keeps `KN`, provided the frames handed to
`procData` / `newLock` are `none`; the frame of a queued request is read back from `Rec.data`, which the invariant says is `none`.

This file: every helper of `Model/Engine2.lean` up to the wake pass. `Engine2CellNoneOps.lean`: LOCK / UNLOCK / the sweeps / runs. -/
namespace Slock.CellNone
open Slock Slock.Engine2

/-- a key record without value state: no cell, no lock record with a pending frame -/
structure KN (k : Key) : Prop where
  cell : k.cell = none
  data : ∀ r ∈ k.recs, r.data = none

/-- … every key record of the database -/
def DN (db : DB) : Prop := ∀ k ∈ db.keys, KN k

/-- … the database and the key record an operation works on -/
structure WN (w : W) : Prop where
  db : DN w.db
  k : KN w.k

/-! ### key records -/

theorem KN.newKey (n : Nat) : KN (newKey n) := ⟨rfl, fun r hr => by simp [Engine2.newKey] at hr⟩

theorem KN.getR {k : Key} (h : KN k) (rid : Nat) : (k.getR rid).data = none := by
  unfold Key.getR
  cases hf : k.recs.find? (·.rid == rid) with
  | none => rfl
  | some r => exact h.data r (List.mem_of_find?_eq_some hf)

/-- the cell is kept and no record appears -/
theorem KN.of_sub {k k' : Key} (h : KN k) (hc : k'.cell = k.cell) (hr : ∀ r ∈ k'.recs, r ∈ k.recs) : KN k' :=
  ⟨hc.trans h.cell, fun r hm => h.data r (hr r hm)⟩

/-- an edit of other fields -/
theorem KN.of_eq {k k' : Key} (h : KN k) (hc : k'.cell = k.cell) (hr : k'.recs = k.recs) : KN k' :=
  h.of_sub hc (fun r hm => by rw [hr] at hm; exact hm)

theorem KN.modRec {k : Key} (h : KN k) (rid : Nat) (f : Rec → Rec) (hf : ∀ r, r.data = none → (f r).data = none) : KN (k.modRec rid f) := by
  refine ⟨h.cell, ?_⟩
  intro r hr
  unfold Key.modRec at hr
  simp only [List.mem_map] at hr
  obtain ⟨x, hx, e⟩ := hr
  rw [← e]
  split
  · exact hf x (h.data x hx)
  · exact h.data x hx

theorem KN.free {k : Key} (h : KN k) (rid : Nat) : KN (k.free rid) := by
  unfold Key.free
  split
  · exact h.of_sub rfl (fun r hm => (List.mem_filter.mp hm).1)
  · exact h

theorem KN.unrefOnly {k : Key} (h : KN k) (rid : Nat) : KN (k.unrefOnly rid) := h.modRec rid _ (by intro _ hd; exact hd)

theorem KN.unref {k : Key} (h : KN k) (rid : Nat) : KN (k.unref rid) := by
  unfold Key.unref
  simp only []
  split
  · exact (h.unrefOnly rid).free rid
  · exact h.unrefOnly rid

theorem KN.foldl_unref (l : List Nat) {k : Key} (h : KN k) : KN (l.foldl (fun k x => k.unref x) k) := by
  induction l generalizing k with
  | nil => exact h
  | cons a as ih => simp only [List.foldl_cons]; exact ih (h.unref a)

theorem KN.foldl_unrefW (l : List WEnt) {k : Key} (h : KN k) : KN (l.foldl (fun k x => k.unref x.rid) k) := by
  induction l generalizing k with
  | nil => exact h
  | cons a as ih => simp only [List.foldl_cons]; exact ih (h.unref a.rid)

theorem KN.locksPush {k : Key} (h : KN k) (rid : Nat) : KN (k.locksPush rid) := by
  unfold Key.locksPush
  simp only []
  split
  · exact h.of_eq rfl rfl
  · split
    · exact h.of_eq rfl rfl
    · apply KN.foldl_unref
      split <;> exact h.of_eq rfl rfl

theorem KN.locksSkip (take : Bool) (l : List Nat) {k : Key} (h : KN k) : KN (locksSkip take l k).1 := by
  induction l generalizing k with
  | nil => exact h
  | cons x rest ih =>
    unfold Engine2.locksSkip
    split
    · split
      · exact h.of_eq rfl rfl
      · exact h
    · refine ih (KN.unref ?_ x)
      exact h.of_eq rfl rfl

theorem KN.removeLock {k : Key} (h : KN k) (rid : Nat) : KN (k.removeLock rid) := by
  unfold Key.removeLock
  simp only []
  have h1 : KN (k.modRec rid fun r => { r with depth := 0 }) := h.modRec rid _ (by intro _ hd; exact hd)
  split
  · have h2 : KN ({ (k.modRec rid fun r => { r with depth := 0 }).unrefOnly rid with current := none } : Key) :=
      (h1.unrefOnly rid).of_eq rfl rfl
    exact (KN.locksSkip true _ h2).of_eq rfl rfl
  · exact KN.locksSkip false _ h1

theorem KN.rePush {k : Key} (h : KN k) : KN k.rePush := h.of_eq rfl rfl

theorem KN.waitPush {k : Key} (h : KN k) (e : WEnt) : KN (k.waitPush e) := by
  unfold Key.waitPush
  split
  · exact h.of_eq rfl rfl
  · simp only []
    split
    · exact h.of_eq rfl rfl
    · split
      · exact h.of_eq rfl rfl
      · apply KN.foldl_unrefW
        split <;> exact h.of_eq rfl rfl

theorem KN.addWaitLock {k : Key} (h : KN k) (rid : Nat) : KN (k.addWaitLock rid) := by
  unfold Key.addWaitLock
  simp only []
  have step : ∀ k1 : Key, KN k1 →
      KN { (k1.waitPush ⟨rid, Slock.Engine.cmdPriority (k.getR rid).cmd⟩).modRec rid (fun r => { r with refCount := r.refCount + 1 }) with waited := true } :=
    fun k1 h1 => KN.of_eq ((h1.waitPush _).modRec rid _ (by intro _ hd; exact hd)) rfl rfl
  apply step
  split
  · split
    · split
      · exact h.rePush
      · exact h
    · exact h
  · exact h

theorem KN.waitSkip (l : List WEnt) {k : Key} (h : KN k) : KN (waitSkip l k).1 := by
  induction l generalizing k with
  | nil => exact h
  | cons e rest ih =>
    unfold Engine2.waitSkip
    split
    · refine ih (KN.unref ?_ e.rid)
      exact h.of_eq rfl rfl
    · exact h

theorem KN.getWaitLock {k : Key} (h : KN k) : KN k.getWaitLock.1 := KN.waitSkip _ h

theorem KN.clearWaited {k : Key} (h : KN k) : KN (clearWaited k) := h.of_eq rfl rfl

theorem KN.settleWait {k : Key} (h : KN k) : KN k.settleWait := by
  unfold Key.settleWait
  split
  · exact h.getWaitLock.clearWaited
  · exact h.getWaitLock

theorem KN.addLock {k : Key} (h : KN k) (rid : Nat) (f : Rec → Rec) (hf : ∀ r, r.data = none → (f r).data = none) : KN (k.addLock rid f) := by
  unfold Key.addLock
  split
  · exact (h.modRec rid f hf).of_eq rfl rfl
  · exact (h.modRec rid f hf).locksPush rid

theorem KN.addRec {k : Key} (h : KN k) (r : Rec) (hr : r.data = none) : KN (k.addRec r) := by
  refine ⟨h.cell, ?_⟩
  intro x hx
  unfold Key.addRec at hx
  simp only [List.mem_append, List.mem_singleton] at hx
  rcases hx with hx | hx
  · exact h.data x hx
  · rw [hx]; exact hr

/-- without a cell `AofLockData` can only clear a record's `aofData` mark -/
theorem KN.aofLockData {k : Key} (h : KN k) (b : Bool) (rid : Nat) : KN (aofLockData k b rid).1 := by
  unfold Engine2.aofLockData
  split
  · exact h.modRec rid _ (by intro _ hd; exact hd)
  · rw [h.cell]; exact h

/-! ### the database -/

theorem DN.init (now aofTime : Nat) : DN (DB.init now aofTime) := by intro k hk; simp [DB.init] at hk

theorem DN.of_keys {db db' : DB} (h : DN db) (e : db'.keys = db.keys) : DN db' := by
  intro k hk; rw [e] at hk; exact h k hk

theorem DN.getKey {db : DB} (h : DN db) (n : Nat) : KN (db.getKey n) := by
  cases hh : db.hasKey n with
  | true => exact h _ (getKey_mem db n hh)
  | false => rw [getKey_of_not_hasKey db n hh]; exact KN.newKey n

theorem DN.create {db : DB} (h : DN db) (n : Nat) : DN (db.create n) := by
  unfold DB.create
  split
  · exact h
  · intro k hk
    simp only [List.mem_append, List.mem_singleton] at hk
    rcases hk with hk | hk
    · exact h k hk
    · rw [hk]; exact KN.newKey n

theorem DN.setKey {db : DB} (h : DN db) {k : Key} (hk : KN k) : DN (db.setKey k) := by
  unfold DB.setKey
  split
  · intro x hx
    simp only [List.mem_map] at hx
    obtain ⟨y, hy, e⟩ := hx
    rw [← e]
    split
    · exact hk
    · exact h y hy
  · intro x hx
    simp only [List.mem_append, List.mem_singleton] at hx
    rcases hx with hx | hx
    · exact h x hx
    · rw [hx]; exact hk

theorem DN.dropKey {db : DB} (h : DN db) (n : Nat) : DN (db.dropKey n) := by
  intro k hk
  unfold DB.dropKey at hk
  exact h k (List.mem_filter.mp hk).1

/-! ### the working state -/

theorem WN.openKey {db : DB} (h : DN db) (n : Nat) : WN (db.openKey n) := ⟨h, h.getKey n⟩

theorem WN.enter {db : DB} (h : DN db) (n : Nat) : WN (db.enter n) := WN.openKey (h.create n) n

theorem WN.commit {w : W} (h : WN w) : DN w.commit := by
  unfold W.commit
  split
  · exact h.db
  · exact h.db.setKey h.k

theorem WN.modK {w : W} (h : WN w) (f : Key → Key) (hf : KN (f w.k)) : WN (w.modK f) := ⟨h.db, hf⟩

theorem WN.modR {w : W} (h : WN w) (rid : Nat) (f : Rec → Rec) (hf : ∀ r, r.data = none → (f r).data = none) : WN (w.modR rid f) :=
  ⟨h.db, h.k.modRec rid f hf⟩

theorem WN.when {w : W} (h : WN w) (b : Bool) (f : W → W) (hf : WN (f w)) : WN (w.when b f) := by
  cases b
  · exact h
  · exact hf

theorem WN.ctr {w : W} (h : WN w) (f : Counters → Counters) : WN (w.ctr f) := ⟨fun k hk => h.db k hk, h.k⟩
theorem WN.bumpErr {w : W} (h : WN w) : WN w.bumpErr := h.ctr _
theorem WN.reply {w : W} (h : WN w) (c : Cmd) (a b : Nat) (d : Option Bytes) : WN (w.reply c a b d) := ⟨h.db, h.k⟩
theorem WN.setOut {w : W} (h : WN w) (o : List Reply) : WN { w with out := o } := ⟨h.db, h.k⟩
theorem WN.wheelBroken {w : W} (h : WN w) : WN w.wheelBroken := ⟨fun k hk => h.db k hk, h.k⟩
theorem WN.ref {w : W} (h : WN w) (rid : Nat) : WN (w.ref rid) := h.modR rid _ (by intro _ hd; exact hd)

theorem WN.removeIfZero {w : W} (h : WN w) : WN w.removeIfZero := by
  unfold W.removeIfZero
  split
  · exact ⟨h.db.dropKey _, ⟨rfl, h.k.data⟩⟩
  · exact h

theorem WN.freeCheck {w : W} (h : WN w) (rid : Nat) : WN (w.freeCheck rid) := (h.modK _ (h.k.free rid)).removeIfZero

theorem WN.unrefCheck {w : W} (h : WN w) (rid : Nat) : WN (w.unrefCheck rid) := by
  unfold W.unrefCheck
  simp only []
  have h1 : WN (w.modK (·.unrefOnly rid)) := h.modK _ (h.k.unrefOnly rid)
  exact h1.when _ _ (h1.freeCheck rid)

/-- the value operation without a frame -/
theorem procData_none (w : W) (ct : Slock.Value.CmdType) (c : Cmd) (rid : Nat) : w.procData ct c none rid = w := rfl

theorem frameOf_none (c : Cmd) : frameOf c none = none := by unfold frameOf; split <;> rfl

/-- the frame a queued request kept: none -/
theorem WN.frameOf_getR {w : W} (h : WN w) (c : Cmd) (rid : Nat) : frameOf c (w.k.getR rid).data = none := by
  rw [h.k.getR rid]; exact frameOf_none c

/-! ### journalling -/

theorem WN.pushLockAof {w : W} (h : WN w) (rid flag : Nat) : WN (w.pushLockAof rid flag) := by
  unfold W.pushLockAof
  split
  · exact h
  · simp only []
    split
    · exact ⟨h.db, h.k.modRec rid _ (by intro _ hd; exact hd)⟩
    · exact ⟨fun k hk => h.db k hk, (h.k.aofLockData true rid).modRec rid _ (by intro _ hd; exact hd)⟩

theorem WN.pushLockAofN (n : Nat) {w : W} (h : WN w) (rid : Nat) : WN (W.pushLockAofN n w rid) := by
  induction n generalizing w with
  | zero => exact h
  | succ n ih => unfold W.pushLockAofN; exact ih (h.pushLockAof rid 0)

theorem WN.pushUnLockAof {w : W} (h : WN w) (rid : Nat) (lc : Cmd) (fa ia : Bool) (flag : Nat) : WN (w.pushUnLockAof rid lc fa ia flag) := by
  unfold W.pushUnLockAof
  split
  · exact h
  · split
    · exact ⟨h.db, h.k.modRec rid _ (by intro _ hd; exact hd)⟩
    · exact ⟨fun k hk => h.db k hk, (h.k.aofLockData false rid).modRec rid _ (by intro _ hd; exact hd)⟩

theorem WN.journalLock {w : W} (h : WN w) (rid flag : Nat) : WN (w.journalLock rid flag) := h.when _ _ (h.pushLockAof rid flag)
theorem WN.journalUnlock {w : W} (h : WN w) (rid : Nat) (fa ia : Bool) (flag : Nat) : WN (w.journalUnlock rid fa ia flag) :=
  h.when _ _ (h.pushUnLockAof rid _ fa ia flag)

/-! ### wheels -/

theorem WN.addTimeOut {w : W} (h : WN w) (rid : Nat) : WN (w.addTimeOut rid) :=
  ⟨fun k hk => h.db k hk, h.k.modRec rid _ (by intro _ hd; exact hd)⟩
theorem WN.schedExpried {w : W} (h : WN w) (rid : Nat) : WN (w.schedExpried rid) :=
  ⟨fun k hk => h.db k hk, h.k.modRec rid _ (by intro _ hd; exact hd)⟩
theorem WN.addExpried {w : W} (h : WN w) (rid : Nat) : WN (w.addExpried rid) := by
  unfold W.addExpried
  simp only []
  exact (h.schedExpried rid).when _ _ (WN.pushLockAofN _ (h.schedExpried rid) rid)
theorem WN.removeLongT {w : W} (h : WN w) (rid : Nat) : WN (w.removeLongT rid) :=
  h.modK _ ((h.k.modRec rid _ (by intro _ hd; exact hd)).unrefOnly rid)
theorem WN.removeLongE {w : W} (h : WN w) (rid : Nat) : WN (w.removeLongE rid) :=
  h.modK _ ((h.k.modRec rid _ (by intro _ hd; exact hd)).unrefOnly rid)
theorem WN.dropLongT {w : W} (h : WN w) (rid : Nat) : WN (w.dropLongT rid) := h.when _ _ (h.removeLongT rid)
theorem WN.dropLongE {w : W} (h : WN w) (rid : Nat) : WN (w.dropLongE rid) := h.when _ _ (h.removeLongE rid)
theorem WN.dropT {w : W} (h : WN w) (rid : Nat) : WN (w.dropT rid) := (h.modR rid _ (by intro _ hd; exact hd)).unrefCheck rid
theorem WN.dropE {w : W} (h : WN w) (rid : Nat) : WN (w.dropE rid) := (h.modR rid _ (by intro _ hd; exact hd)).unrefCheck rid
theorem WN.collectT {w : W} (h : WN w) (rid : Nat) : WN (w.collectT rid) := h.modR rid _ (by intro _ hd; exact hd)

/-! ### granting -/

/-- `GetOrNewLock` for a command without a frame -/
theorem WN.newLock {w : W} (h : WN w) (c : Cmd) : WN (w.newLock c none).1 :=
  ⟨fun k hk => h.db k hk, h.k.addRec _ rfl⟩

theorem WN.addLock {w : W} (h : WN w) (rid : Nat) : WN (w.addLock rid) :=
  h.modK _ (h.k.addLock rid _ (by intro _ hd; exact hd))

theorem WN.incLocked {w : W} (h : WN w) : WN (w.modK incLocked) := h.modK _ (h.k.of_eq rfl rfl)

theorem WN.grant {w : W} (h : WN w) (rid : Nat) : WN (w.grant rid) := by
  unfold W.grant
  simp only []
  have h2 : WN ((w.addLock rid).modK Engine2.incLocked) := (h.addLock rid).incLocked
  rw [h2.frameOf_getR, procData_none]
  exact (((((h2.modR rid _ (by intro _ _; rfl)).addExpried rid).ref rid).ctr _).reply _ _ _ _)

theorem WN.grantNoHold {w : W} (h : WN w) (rid : Nat) : WN (w.grantNoHold rid) := by
  unfold W.grantNoHold
  simp only []
  rw [h.frameOf_getR, procData_none]
  exact (h.when _ _ (h.pushLockAof rid 0)).modR rid _ (by intro _ _; rfl)

theorem updF_data (db : DB) (sole : Bool) (c : Cmd) (r : Rec) : (updF db sole c r).data = r.data := by
  unfold updF
  simp only []
  split <;> split <;> rfl

theorem WN.updateLocked {w : W} (h : WN w) (rid : Nat) (c : Cmd) : WN (w.updateLocked rid c) := by
  unfold W.updateLocked
  simp only []
  have h1 : WN (w.modR rid (updF w.db (!(w.k.getR rid).isAof && w.k.current == some rid && w.k.locks.isEmpty) c)) :=
    h.modR rid _ (fun r hd => by rw [updF_data]; exact hd)
  exact (h1.when _ _ (((h1.removeLongE rid).addExpried rid).ref rid)).modR rid _ (by intro _ hd; exact hd)

/-! ### wake pass -/

theorem WN.wakeOne {w : W} (h : WN w) (rid : Nat) : WN (w.wakeOne rid) := by
  unfold W.wakeOne
  simp only []
  have h2 : WN (((w.modR rid fun r => { r with timeouted := true }).dropLongT rid).ctr fun c => { c with waitCount := c.waitCount - 1 }) :=
    ((h.modR rid _ (by intro _ hd; exact hd)).dropLongT rid).ctr _
  split
  · exact h2.grant rid
  · exact (((h2.grantNoHold rid).ctr _).reply _ _ _ _)

theorem WN.wakePass (fuel : Nat) {w : W} (h : WN w) : WN (W.wakePass fuel w) := by
  induction fuel generalizing w with
  | zero => exact h
  | succ n ih =>
    unfold W.wakePass
    simp only []
    have h1 : WN (w.modK (·.getWaitLock.1)) := h.modK _ h.k.getWaitLock
    split
    · exact (h1.modK _ h1.k.clearWaited).removeIfZero
    · split
      · exact h1
      · exact ih (h1.wakeOne _)

theorem WN.wake {w : W} (h : WN w) : WN w.wake := h.when _ _ (WN.wakePass _ h)

end Slock.CellNone
