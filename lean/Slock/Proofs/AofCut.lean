import Slock.Proofs.AofFile
/-!
The start-up repair of a torn two-file tail: where `cutLoop` / `startupFiles` cut the record file and the value file of an
image whose record file holds complete records (and possibly a torn one) and whose value file is cut anywhere.
-/
namespace Slock.Aof

theorem wfbuf_le16 {b : Bytes} (h : WFBuf b) : le16 b 0 = 62 := by
  obtain ⟨body, rfl, _⟩ := h; rfl

theorem valuePrefix_le : ∀ (l : List Rec) (dc : Nat), valuePrefix l dc ≤ l.length
  | [], _ => by simp [valuePrefix]
  | x :: xs, dc => by
    cases hd : x.data with
    | none => have := valuePrefix_le xs dc; simp [valuePrefix, hd]; omega
    | some b =>
      by_cases h : b.length ≤ dc
      · have := valuePrefix_le xs (dc - b.length); simp [valuePrefix, hd, h]; omega
      · simp [valuePrefix, hd, h]

/-- The values of the records counted by `valuePrefix` fit into the first `dc` bytes. -/
theorem valuePrefix_fits : ∀ (l : List Rec) (dc : Nat), (encodeData (l.take (valuePrefix l dc))).length ≤ dc
  | [], _ => by simp [valuePrefix, encodeData]
  | x :: xs, dc => by
    cases hd : x.data with
    | none =>
      have := valuePrefix_fits xs dc
      simp only [valuePrefix, hd, Nat.add_comm 1, List.take_succ_cons, encodeData_cons, Option.getD_none, List.nil_append]
      exact this
    | some b =>
      by_cases h : b.length ≤ dc
      · have := valuePrefix_fits xs (dc - b.length)
        simp only [valuePrefix, hd, h, if_true, Nat.add_comm 1, List.take_succ_cons, encodeData_cons, Option.getD_some, List.length_append]
        omega
      · simp [valuePrefix, hd, h, encodeData]

theorem encodeData_take_prefix (l : List Rec) (j : Nat) :
    encodeData l = encodeData (l.take j) ++ encodeData (l.drop j) := by
  unfold encodeData
  rw [← List.flatMap_append, List.take_append_drop]

/-- `cutLoop` over complete records followed by a tail at which `ReadLock` reports end of file: nothing is cut when every value
is there; otherwise the cut is before the first record whose value is missing or short. -/
theorem cutLoop_values : ∀ (recs : List Rec) (tl : Bytes) (r dr : Rd) (dc : Nat) (buf : Bytes) (off doff fuel : Nat),
    (∀ x ∈ recs, WFRec x) → OldOK buf → r.Inv → r.s = encodeRecs recs ++ tl →
    (∀ r', r'.s = tl → r'.Inv → ∀ old, OldOK old → ∃ b, readLock r' old = .eof b) →
    dr.Inv → dr.s = (encodeData recs).take dc → recs.length < fuel →
    cutLoop fuel r (some dr) buf off doff =
      (if valuePrefix recs dc = recs.length then none
       else some (off + 64 * valuePrefix recs dc, doff + (encodeData (recs.take (valuePrefix recs dc))).length))
  | [], tl, r, dr, dc, buf, off, doff, fuel, _, hb, hi, hs, htl, _, _, hf => by
    obtain ⟨f, rfl⟩ : ∃ f, fuel = f + 1 := ⟨fuel - 1, by simp at hf; omega⟩
    obtain ⟨b, hb'⟩ := htl r (by simpa [encodeRecs] using hs) hi buf hb
    simp [cutLoop, hb', valuePrefix]
  | x :: rs, tl, r, dr, dc, buf, off, doff, fuel, hw, hb, hi, hs, htl, hdi, hds, hf => by
    obtain ⟨f, rfl⟩ : ∃ f, fuel = f + 1 := ⟨fuel - 1, by simp at hf; omega⟩
    obtain ⟨hxb, hxd⟩ := hw x (by simp)
    rw [encodeRecs_cons, List.append_assoc] at hs
    obtain ⟨r1, hs1, _, hi1, hrl⟩ := readLock_complete r x.buf (encodeRecs rs ++ tl) hi hxb hs
    have hw' : ∀ y ∈ rs, WFRec y := fun y hy => hw y (by simp [hy])
    have hf' : rs.length < f := by simp at hf; omega
    have hoff : off + 2 + le16 x.buf 0 = off + 64 := by rw [wfbuf_le16 hxb]
    cases hdat : x.data with
    | none =>
      rw [hdat] at hxd
      simp only at hxd
      have hds' : dr.s = (encodeData rs).take dc := by rw [hds, encodeData_cons, hdat]; rfl
      have ih := cutLoop_values rs tl r1 dr dc x.buf (off + 64) doff f hw' hxb.oldOK hi1 hs1 htl hdi hds' hf'
      simp only [cutLoop, hrl buf hb, hxd, Bool.false_eq_true, if_false, hoff, ih, valuePrefix, hdat]
      by_cases hv : valuePrefix rs dc = rs.length
      · simp [hv, Nat.add_comm 1]
      · have : ¬ 1 + valuePrefix rs dc = (x :: rs).length := by simp; omega
        simp only [hv, this, if_false, Nat.add_comm 1 (valuePrefix rs dc), List.take_succ_cons, encodeData_cons, hdat,
          Option.getD_none, List.nil_append]
        have e : off + 64 + 64 * valuePrefix rs dc = off + 64 * (valuePrefix rs dc + 1) := by omega
        have this' : ¬ valuePrefix rs dc + 1 = (x :: rs).length := by simp; omega
        rw [e, if_neg this']
    | some blob =>
      rw [hdat] at hxd
      obtain ⟨hhd, hbw⟩ := hxd
      by_cases hle : blob.length ≤ dc
      · have hsd : dr.s = blob ++ (encodeData rs).take (dc - blob.length) := by
          rw [hds, encodeData_cons, hdat]
          simp only [Option.getD_some]
          rw [List.take_append, List.take_of_length_le hle]
        obtain ⟨dr', hrd, hs', _, hi'⟩ := readLockData_complete dr blob _ hdi hbw hsd
        have ih := cutLoop_values rs tl r1 dr' (dc - blob.length) x.buf (off + 64) (doff + blob.length) f hw' hxb.oldOK hi1 hs1 htl hi' hs' hf'
        simp only [cutLoop, hrl buf hb, hhd, if_true, hoff, hrd, ih, valuePrefix, hdat, hle]
        by_cases hv : valuePrefix rs (dc - blob.length) = rs.length
        · simp [hv, Nat.add_comm 1]
        · have : ¬ 1 + valuePrefix rs (dc - blob.length) = (x :: rs).length := by simp; omega
          simp only [hv, this, if_false, Nat.add_comm 1 (valuePrefix rs (dc - blob.length)), List.take_succ_cons, encodeData_cons, hdat,
            Option.getD_some, List.length_append]
          have e : off + 64 + 64 * valuePrefix rs (dc - blob.length) = off + 64 * (valuePrefix rs (dc - blob.length) + 1) := by omega
          have this' : ¬ valuePrefix rs (dc - blob.length) + 1 = (x :: rs).length := by simp; omega
          rw [e, Nat.add_assoc, if_neg this']
      · have hsd : dr.s = blob.take dc := by
          rw [hds, encodeData_cons, hdat]
          simp only [Option.getD_some]
          rw [List.take_append_of_le_length (by omega)]
        have hno := readLockData_short dr blob dc hdi hbw hsd (by omega)
        simp only [cutLoop, hrl buf hb, hhd, if_true, hoff, hno, valuePrefix, hdat, hle, if_false]
        have : ¬ 0 = (x :: rs).length := by simp
        simp [this, encodeData]

theorem take_records (pre : List Rec) (tl : Bytes) (j : Nat) (hw : ∀ x ∈ pre, WFBuf x.buf) (hj : j ≤ pre.length) :
    (headerBytes ++ encodeRecs pre ++ tl).take (12 + 64 * j) = encodeFile (pre.take j) := by
  have hsplit : encodeRecs pre = encodeRecs (pre.take j) ++ encodeRecs (pre.drop j) := by
    rw [← encodeRecs_append, List.take_append_drop]
  have hl : (headerBytes ++ encodeRecs (pre.take j)).length = 12 + 64 * j := by
    rw [List.length_append, headerBytes_length, encodeRecs_length _ (fun x hx => hw x (List.mem_of_mem_take hx)), List.length_take]
    congr 2; omega
  rw [hsplit, ← List.append_assoc headerBytes, List.append_assoc (headerBytes ++ encodeRecs (pre.take j))]
  unfold encodeFile
  exact List.take_left' hl

theorem header_len_field (x : Bytes) : le16 (headerBytes ++ x) 10 = 0 := by
  simp [le16, byteAt, headerBytes, magic]

/-- What the start-up leaves on disk for an image with complete records `pre`, a tail `tl` at which the reader reports end of
file (nothing, or a torn record) and the value file cut at `dc`: untouched when every value is there; otherwise exactly the
records whose values are complete and exactly their values. -/
theorem startupFiles_cut (cfg : Nat) (buf0 : Bytes) (pre : List Rec) (tl : Bytes) (dc : Nat)
    (hw : ∀ x ∈ pre, WFRec x) (hb : OldOK buf0)
    (htl : ∀ r', r'.s = tl → r'.Inv → ∀ old, OldOK old → ∃ b, readLock r' old = .eof b) :
    startupFiles cfg buf0 (headerBytes ++ encodeRecs pre ++ tl) (some ((encodeData pre).take dc)) =
      (if valuePrefix pre dc = pre.length then (headerBytes ++ encodeRecs pre ++ tl, some ((encodeData pre).take dc))
       else (encodeFile (pre.take (valuePrefix pre dc)), some (encodeData (pre.take (valuePrefix pre dc))))) := by
  have hwb : ∀ x ∈ pre, WFBuf x.buf := fun x hx => (hw x hx).1
  unfold startupFiles
  have happ : headerBytes ++ encodeRecs pre ++ tl = headerBytes ++ (encodeRecs pre ++ tl) := List.append_assoc _ _ _
  obtain ⟨r, hr, hs, hi⟩ := readHeader_ok (bufioCap (fileBufSize cfg)) (encodeRecs pre ++ tl)
  rw [happ, hr, header_len_field]
  simp only [Option.map_some]
  have hlen : (headerBytes ++ (encodeRecs pre ++ tl)).length = 12 + 64 * pre.length + tl.length := by
    simp only [List.length_append, headerBytes_length, encodeRecs_length pre hwb]; omega
  rw [cutLoop_values pre tl r _ dc buf0 (12 + 0) 0 _ hw hb hi hs htl (Rd.open_inv _ _) rfl (by rw [hlen]; omega)]
  by_cases hv : valuePrefix pre dc = pre.length
  · simp [hv]
  · simp only [hv, if_false]
    have hj := valuePrefix_le pre dc
    have e1 : (headerBytes ++ (encodeRecs pre ++ tl)).take (12 + 0 + 64 * valuePrefix pre dc) = encodeFile (pre.take (valuePrefix pre dc)) := by
      rw [← happ]; simpa using take_records pre tl (valuePrefix pre dc) hwb hj
    have e2 : ((encodeData pre).take dc).take (0 + (encodeData (pre.take (valuePrefix pre dc))).length) = encodeData (pre.take (valuePrefix pre dc)) := by
      rw [List.take_take, Nat.zero_add, Nat.min_eq_left (valuePrefix_fits pre dc)]
      conv => lhs; rw [encodeData_take_prefix pre (valuePrefix pre dc)]
      exact List.take_left' rfl
    simp only [e1, Option.map_some, e2]

end Slock.Aof
