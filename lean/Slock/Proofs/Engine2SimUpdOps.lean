import Slock.Proofs.Engine2SimUpd
/-! Simulation stage 2 → stage 1: LOCK, the update of a hold and the re-lock (each ending in the wake pass). -/
namespace Slock.Sim
open Slock Slock.Engine2
open Slock.Engine (has)

theorem SX.trans {X : Nat → Prop} {a b c : W} (h1 : SX X a b) (h2 : SX X b c) : SX X a c :=
  ⟨h2.key.trans h1.key, h2.waited.trans h1.waited, h2.q.trans h1.q, h2.p.trans h1.p⟩

def keyRep (k : Engine.Key) (h h' : Engine.Hold) : Engine.Key := { k with holders := Engine.replaceHolder k.holders h h' }

/-- a hold has an expiry-wheel entry (`RecFine.hold`), and the entry caches the hold's back-off counter -/
def CkSync (k : Key) : Prop := ∀ y sc, k.liveHolder y = true → (k.getR y).eSched = some sc → sc.checked = (k.getR y).eChecked

/-- **LOCK with the update flag on a held LockId, different terms**: `UpdateLockedLock`, journal, reply, then the wake pass -/
theorem sim_lock_update (s : DB) (hq : DBQ s) (c : Engine.Cmd) (data : Option Bytes) (h : Nat)
    (hcls : classifyLock s c data = .update h)
    (hwq : WQ (s.getKey c.key)) (hki : Engine.KeyInv (Key.abs (s.getKey c.key))) (hnd : ((Key.abs (s.getKey c.key)).holders.map (·.hid)).Nodup) (hck : CkSync (s.getKey c.key)) :
    Equiv (Engine2.abs (applyLock s c data (.update h)).commit) (Engine.applyLock (Engine2.abs s) c (.update (holdOf (s.getKey c.key) h))).1 ∧
    (applyLock s c data (.update h)).out.map (·.r) = (Engine.applyLock (Engine2.abs s) c (.update (holdOf (s.getKey c.key) h))).2 := by
  have hdbi := hq.dbt.dbi
  have ht := hq.dbt.tight
  have hkabs := abs_getKey s hdbi.kn c.key
  have ge := Good.enter hdbi ht c.key
  have le := ge.lv
  have ce := cur_enter ht c.key
  have hm0 : h ∈ (s.getKey c.key).current.toList ++ (s.getKey c.key).locks := classifyLock_holder s c data h (by rw [hcls]; rfl)
  have hm : h ∈ (s.enter c.key).k.current.toList ++ (s.enter c.key).k.locks := by rw [enter_k]; exact hm0
  have hd0 : 0 < ((s.getKey c.key).getR h).depth := classifyLock_update_depth s c data h hcls (cur_getKey ht c.key)
  have hh := hasRec_of_holder le h hm
  have tx := update_tight_pre s hdbi ht c data h hh hd0
  -- the hold's record has an expiry entry
  have hfine : RecFine ((s.enter c.key).k.getR h) := ge.nz.nz _ (getR_mem hh) (by simp)
  have hd : 0 < ((s.enter c.key).k.getR h).depth := by rw [enter_k]; exact hd0
  have hsome := hfine.hold hd
  obtain ⟨sc, hsc⟩ := Option.isSome_iff_exists.mp hsome
  have hl0 : (s.enter c.key).k.liveHolder h = true := by unfold Key.liveHolder; simp only [decide_eq_true_eq]; exact hd
  have hck0 : sc.checked = ((s.enter c.key).k.getR h).eChecked := by
    have := hck h sc (by rw [← enter_k]; exact hl0) (by rw [← enter_k]; exact hsc)
    rw [← enter_k] at this; exact this
  -- the value operation touches nothing stage 1 sees
  have pg1 : PK πG ((s.enter c.key).procData .lock (lockCmdOf (s.enter c.key).k c (.update h)) (frameOf (lockCmdOf (s.enter c.key).k c (.update h)) data) h) (s.enter c.key) := pk_procData ins_πG _ _ _ _ _
  have hh1 : ((s.enter c.key).procData .lock (lockCmdOf (s.enter c.key).k c (.update h)) (frameOf (lockCmdOf (s.enter c.key).k c (.update h)) data) h).k.hasRec h := (keep_procData (s.enter c.key) .lock (lockCmdOf (s.enter c.key).k c (.update h)) (frameOf (lockCmdOf (s.enter c.key).k c (.update h)) data) h h).1.mpr hh
  have hπ1 := pg1.val h hh1
  have hsc1 : (((s.enter c.key).procData .lock (lockCmdOf (s.enter c.key).k c (.update h)) (frameOf (lockCmdOf (s.enter c.key).k c (.update h)) data) h).k.getR h).eSched = some sc := (congrArg (fun t => t.2.2.2.2.2.2.2) hπ1).trans hsc
  have hck1 : sc.checked = (((s.enter c.key).procData .lock (lockCmdOf (s.enter c.key).k c (.update h)) (frameOf (lockCmdOf (s.enter c.key).k c (.update h)) data) h).k.getR h).eChecked := hck0.trans (congrArg (fun t => t.2.2.2.2.2.2.1) hπ1).symm
  have hhold1 : holdOf ((s.enter c.key).procData .lock (lockCmdOf (s.enter c.key).k c (.update h)) (frameOf (lockCmdOf (s.enter c.key).k c (.update h)) data) h).k h = holdOf (s.getKey c.key) h := by
    unfold holdOf; rw [toHold_of_πG hπ1, enter_k]
  have sc1 : SC (s.enter c.key) ((s.enter c.key).procData .lock (lockCmdOf (s.enter c.key).k c (.update h)) (frameOf (lockCmdOf (s.enter c.key).k c (.update h)) data) h) := SC.procData _ _ _ _ _
  obtain ⟨t1, t2, t3, t4, t5, t6, t7, t8⟩ := upd_tail ((s.enter c.key).procData .lock (lockCmdOf (s.enter c.key).k c (.update h)) (frameOf (lockCmdOf (s.enter c.key).k c (.update h)) data) h) h (lockCmdOf (s.enter c.key).k c (.update h)) (!has (lockCmdOf (s.enter c.key).k c (.update h)).flag Slock.Engine.F_FROM_AOF) AOF_UPDATED hh1 (Engine2.abs s)
    (sc1.scal (scal_enter s c.key)) sc hsc1 hck1
  rw [hhold1] at t2 t3
  have sx : SX (· = h) (s.enter c.key) ((((s.enter c.key).procData .lock (lockCmdOf (s.enter c.key).k c (.update h)) (frameOf (lockCmdOf (s.enter c.key).k c (.update h)) data) h).updateLocked h (lockCmdOf (s.enter c.key).k c (.update h))).when (!has (lockCmdOf (s.enter c.key).k c (.update h)).flag Slock.Engine.F_FROM_AOF) (·.journalLock h AOF_UPDATED)) := SX.trans ((SX.refl (X := (· = h)) (s.enter c.key)).procData _ _ _ _) t7
  have pt : PK (·.timeouted) ((((s.enter c.key).procData .lock (lockCmdOf (s.enter c.key).k c (.update h)) (frameOf (lockCmdOf (s.enter c.key).k c (.update h)) data) h).updateLocked h (lockCmdOf (s.enter c.key).k c (.update h))).when (!has (lockCmdOf (s.enter c.key).k c (.update h)).flag Slock.Engine.F_FROM_AOF) (·.journalLock h AOF_UPDATED)) (s.enter c.key) := t8.trans (pk_procData ins_timeouted _ _ _ _ _)
  have hg3 : ((((s.enter c.key).procData .lock (lockCmdOf (s.enter c.key).k c (.update h)) (frameOf (lockCmdOf (s.enter c.key).k c (.update h)) data) h).updateLocked h (lockCmdOf (s.enter c.key).k c (.update h))).when (!has (lockCmdOf (s.enter c.key).k c (.update h)).flag Slock.Engine.F_FROM_AOF) (·.journalLock h AOF_UPDATED)).gone = false := t4.trans (sc1.gone.trans (enter_gone s c.key))
  have g3 := tx.good hg3
  have c3 := tx.cur hg3
  have hrec3 : ∀ y ∈ (s.enter c.key).k.current.toList ++ (s.enter c.key).k.locks ++ (s.enter c.key).k.wait.map (·.rid), ((((s.enter c.key).procData .lock (lockCmdOf (s.enter c.key).k c (.update h)) (frameOf (lockCmdOf (s.enter c.key).k c (.update h)) data) h).updateLocked h (lockCmdOf (s.enter c.key).k c (.update h))).when (!has (lockCmdOf (s.enter c.key).k c (.update h)).flag Slock.Engine.F_FROM_AOF) (·.journalLock h AOF_UPDATED)).k.hasRec y := by
    intro y hy
    apply g3.lv.rc.dang
    have := qRefs_pos_of_any _ y hy
    have h0 := qRefs_of_queues sx.q y
    show 0 < (((((s.enter c.key).procData .lock (lockCmdOf (s.enter c.key).k c (.update h)) (frameOf (lockCmdOf (s.enter c.key).k c (.update h)) data) h).updateLocked h (lockCmdOf (s.enter c.key).k c (.update h))).when (!has (lockCmdOf (s.enter c.key).k c (.update h)).flag Slock.Engine.F_FROM_AOF) (·.journalLock h AOF_UPDATED)).k.qRefs y : Int) + 0
    omega
  have hdep : (Engine.updateHold (Engine2.abs s) (holdOf (s.getKey c.key) h) (lockCmdOf (s.enter c.key).k c (.update h))).2.depth = (holdOf (s.getKey c.key) h).depth := Engine.updateHold_depth _ _ _
  have hl3 : ((((s.enter c.key).procData .lock (lockCmdOf (s.enter c.key).k c (.update h)) (frameOf (lockCmdOf (s.enter c.key).k c (.update h)) data) h).updateLocked h (lockCmdOf (s.enter c.key).k c (.update h))).when (!has (lockCmdOf (s.enter c.key).k c (.update h)).flag Slock.Engine.F_FROM_AOF) (·.journalLock h AOF_UPDATED)).k.liveHolder h = true := by
    have : (((((s.enter c.key).procData .lock (lockCmdOf (s.enter c.key).k c (.update h)) (frameOf (lockCmdOf (s.enter c.key).k c (.update h)) data) h).updateLocked h (lockCmdOf (s.enter c.key).k c (.update h))).when (!has (lockCmdOf (s.enter c.key).k c (.update h)).flag Slock.Engine.F_FROM_AOF) (·.journalLock h AOF_UPDATED)).k.getR h).depth = (Engine.updateHold (Engine2.abs s) (holdOf (s.getKey c.key) h) (lockCmdOf (s.enter c.key).k c (.update h))).2.depth := congrArg Engine.Hold.depth t2
    unfold Key.liveHolder; rw [this, hdep]; simp only [decide_eq_true_eq]; exact hd0
  have hwq0 : WQ (s.enter c.key).k := by rw [enter_k]; exact hwq
  have hnd0 : (Key.abs (s.enter c.key).k).holders.Nodup := by rw [enter_k]; exact nodup_of_hid hnd
  have habs3 : Key.abs ((((s.enter c.key).procData .lock (lockCmdOf (s.enter c.key).k c (.update h)) (frameOf (lockCmdOf (s.enter c.key).k c (.update h)) data) h).updateLocked h (lockCmdOf (s.enter c.key).k c (.update h))).when (!has (lockCmdOf (s.enter c.key).k c (.update h)).flag Slock.Engine.F_FROM_AOF) (·.journalLock h AOF_UPDATED)).k = keyRep (Key.abs (s.getKey c.key)) (holdOf (s.getKey c.key) h) (Engine.updateHold (Engine2.abs s) (holdOf (s.getKey c.key) h) (lockCmdOf (s.enter c.key).k c (.update h))).2 := by
    rw [abs_edit_holder h sx.key sx.waited sx.q sx.p pt hrec3 hm hl0 hl3 hwq0.sep hnd0, t2, t6]
    have : ((s.enter c.key).procData .lock (lockCmdOf (s.enter c.key).k c (.update h)) (frameOf (lockCmdOf (s.enter c.key).k c (.update h)) data) h).k.locked = (s.enter c.key).k.locked := procData_locked _ _ _ _ _
    rw [this, enter_k]
    rfl
  obtain ⟨q1, q2, q3⟩ := queues_eq sx.q
  have cn3 : CurNone ((((s.enter c.key).procData .lock (lockCmdOf (s.enter c.key).k c (.update h)) (frameOf (lockCmdOf (s.enter c.key).k c (.update h)) data) h).updateLocked h (lockCmdOf (s.enter c.key).k c (.update h))).when (!has (lockCmdOf (s.enter c.key).k c (.update h)).flag Slock.Engine.F_FROM_AOF) (·.journalLock h AOF_UPDATED)).k := by
    have := (qi_getKey hq.qi c.key).cn
    rw [← enter_k] at this
    exact this.of_cl q1 q2
  have hwq3 : WQ ((((s.enter c.key).procData .lock (lockCmdOf (s.enter c.key).k c (.update h)) (frameOf (lockCmdOf (s.enter c.key).k c (.update h)) data) h).updateLocked h (lockCmdOf (s.enter c.key).k c (.update h))).when (!has (lockCmdOf (s.enter c.key).k c (.update h)).flag Slock.Engine.F_FROM_AOF) (·.journalLock h AOF_UPDATED)).k := by
    refine WQ.step (k := (s.enter c.key).k) hwq0 h q3 sx.p (wait_hasRec g3.lv) ?_ (fun y hy => Or.inl (by rw [← q1, ← q2]; exact hy))
    intro x hx hxe
    have hx0 : x ∈ (s.enter c.key).k.wait := by rw [← q3]; exact hx
    have : (s.enter c.key).k.deadWaiter h = true := by
      cases hdd : (s.enter c.key).k.deadWaiter h with
      | true => rfl
      | false => exact absurd hm (hxe ▸ hwq0.sep x hx0 (by rw [hxe]; exact hdd))
    exact (pt.val h t1).trans this
  have hmem1 : holdOf (s.getKey c.key) h ∈ (Key.abs (s.getKey c.key)).holders := mem_abs_holders hm0 (by rw [← enter_k]; exact hl0)
  have hki1 : Engine.KeyInv (keyRep (Key.abs (s.getKey c.key)) (holdOf (s.getKey c.key) h) (Engine.updateHold (Engine2.abs s) (holdOf (s.getKey c.key) h) (lockCmdOf (s.enter c.key).k c (.update h))).2) := Engine.replace_inv hki hmem1 hdep
  have rel3 : Rel ((((s.enter c.key).procData .lock (lockCmdOf (s.enter c.key).k c (.update h)) (frameOf (lockCmdOf (s.enter c.key).k c (.update h)) data) h).updateLocked h (lockCmdOf (s.enter c.key).k c (.update h))).when (!has (lockCmdOf (s.enter c.key).k c (.update h)).flag Slock.Engine.F_FROM_AOF) (·.journalLock h AOF_UPDATED)) (Engine.updateHold (Engine2.abs s) (holdOf (s.getKey c.key) h) (lockCmdOf (s.enter c.key).k c (.update h))).1 (keyRep (Key.abs (s.getKey c.key)) (holdOf (s.getKey c.key) h) (Engine.updateHold (Engine2.abs s) (holdOf (s.getKey c.key) h) (lockCmdOf (s.enter c.key).k c (.update h))).2) [] :=
    Rel.of_live hg3 t3 (by rw [t5, sc1.out, enter_out]; rfl) hki1 ⟨g3, c3, cn3, hwq3, habs3⟩
  have rel4 := rel3.reply (lockCmdOf (s.enter c.key).k c (.update h)) Engine.RESULT_LOCKED_ERROR (((((s.enter c.key).procData .lock (lockCmdOf (s.enter c.key).k c (.update h)) (frameOf (lockCmdOf (s.enter c.key).k c (.update h)) data) h).updateLocked h (lockCmdOf (s.enter c.key).k c (.update h))).when (!has (lockCmdOf (s.enter c.key).k c (.update h)).flag Slock.Engine.F_FROM_AOF) (·.journalLock h AOF_UPDATED)).k.getR h).depth (s.enter c.key).lockData
  obtain ⟨r1, r2, r3⟩ := rel4.wake
  have hfin := sim_lock_finish s hq c data (.update h) _ _ (by rw [Engine.wake_keys, Engine.updateHold_db_keys]) (by rw [Engine.wake_key]; exact getKey_key _ _)
    r1 r2 hcls
  have hd3 : (((((s.enter c.key).procData .lock (lockCmdOf (s.enter c.key).k c (.update h)) (frameOf (lockCmdOf (s.enter c.key).k c (.update h)) data) h).updateLocked h (lockCmdOf (s.enter c.key).k c (.update h))).when (!has (lockCmdOf (s.enter c.key).k c (.update h)).flag Slock.Engine.F_FROM_AOF) (·.journalLock h AOF_UPDATED)).k.getR h).depth = (holdOf (s.getKey c.key) h).depth := (congrArg Engine.Hold.depth t2).trans hdep
  have hC : (lockCmdOf (s.enter c.key).k c (.update h)) = { c with lockId := (holdOf (s.getKey c.key) h).cmd.lockId } := by
    unfold lockCmdOf; rw [enter_k]; rfl
  rw [hd3] at hfin
  unfold Engine.applyLock
  simp only []
  rw [hkabs, ← hC]
  refine ⟨hfin, Eq.trans r3 ?_⟩
  rw [hd3]
  rfl

def keyRel1 (k : Engine.Key) (h h' : Engine.Hold) : Engine.Key := { k with holders := Engine.replaceHolder k.holders h h', locked := k.locked + 1 }
def ctrRelock (x : Engine.Counters) : Engine.Counters := { x with lockCount := x.lockCount + 1, lockedCount := x.lockedCount + 1 }

/-- **LOCK again on a held LockId (re-entrant)**: depth + 1, `UpdateLockedLock`, journal, counters, reply, then the wake pass -/
theorem sim_lock_relock (s : DB) (hq : DBQ s) (c : Engine.Cmd) (data : Option Bytes) (h : Nat)
    (hcls : classifyLock s c data = .relock h)
    (hwq : WQ (s.getKey c.key)) (hki : Engine.KeyInv (Key.abs (s.getKey c.key))) (hnd : ((Key.abs (s.getKey c.key)).holders.map (·.hid)).Nodup) (hck : CkSync (s.getKey c.key)) :
    Equiv (Engine2.abs (applyLock s c data (.relock h)).commit) (Engine.applyLock (Engine2.abs s) c (.relock (holdOf (s.getKey c.key) h))).1 ∧
    (applyLock s c data (.relock h)).out.map (·.r) = (Engine.applyLock (Engine2.abs s) c (.relock (holdOf (s.getKey c.key) h))).2 := by
  have hdbi := hq.dbt.dbi
  have ht := hq.dbt.tight
  have hkabs := abs_getKey s hdbi.kn c.key
  have ge := Good.enter hdbi ht c.key
  have le := ge.lv
  have ce := cur_enter ht c.key
  have hm0 : h ∈ (s.getKey c.key).current.toList ++ (s.getKey c.key).locks := classifyLock_holder s c data h (by rw [hcls]; rfl)
  have hm : h ∈ (s.enter c.key).k.current.toList ++ (s.enter c.key).k.locks := by rw [enter_k]; exact hm0
  have hd0 : 0 < ((s.getKey c.key).getR h).depth := classifyLock_relock s c data h hcls
  have hh := hasRec_of_holder le h hm
  have tx : Tight ((((((s.enter c.key).modR h (fun r => { r with depth := r.depth + 1 })).modK incLocked).procData .lock c (frameOf c data) h).updateLocked h c).when true (·.journalLock h AOF_UPDATED)) := relock_tight_pre s hdbi ht c data h hh hd0
  have hfine : RecFine ((s.enter c.key).k.getR h) := ge.nz.nz _ (getR_mem hh) (by simp)
  have hd : 0 < ((s.enter c.key).k.getR h).depth := by rw [enter_k]; exact hd0
  have hsome := hfine.hold hd
  obtain ⟨sc, hsc⟩ := Option.isSome_iff_exists.mp hsome
  have hl0 : (s.enter c.key).k.liveHolder h = true := by unfold Key.liveHolder; simp only [decide_eq_true_eq]; exact hd
  have hck0 : sc.checked = ((s.enter c.key).k.getR h).eChecked := by
    have := hck h sc (by rw [← enter_k]; exact hl0) (by rw [← enter_k]; exact hsc)
    rw [← enter_k] at this; exact this
  -- depth + 1, `locked` + 1, the value operation
  have pg1 : PK πG ((((s.enter c.key).modR h (fun r => { r with depth := r.depth + 1 })).modK incLocked).procData .lock c (frameOf c data) h) (((s.enter c.key).modR h (fun r => { r with depth := r.depth + 1 })).modK incLocked) := pk_procData ins_πG _ _ _ _ _
  have hhM : (((s.enter c.key).modR h (fun r => { r with depth := r.depth + 1 })).modK incLocked).k.hasRec h := (hasRec_modR _ h h (fun r => { r with depth := r.depth + 1 }) (by intro _; rfl)).mpr hh
  have hh1 : ((((s.enter c.key).modR h (fun r => { r with depth := r.depth + 1 })).modK incLocked).procData .lock c (frameOf c data) h).k.hasRec h := (keep_procData (((s.enter c.key).modR h (fun r => { r with depth := r.depth + 1 })).modK incLocked) .lock c (frameOf c data) h h).1.mpr hhM
  have gM : (((s.enter c.key).modR h (fun r => { r with depth := r.depth + 1 })).modK incLocked).k.getR h = { ((s.enter c.key).k.getR h) with depth := ((s.enter c.key).k.getR h).depth + 1 } :=
    getR_modRec_same _ h (fun r => { r with depth := r.depth + 1 }) (by intro _; rfl) hh
  have hπ1 : πG (((((s.enter c.key).modR h (fun r => { r with depth := r.depth + 1 })).modK incLocked).procData .lock c (frameOf c data) h).k.getR h) = πG ({ ((s.enter c.key).k.getR h) with depth := ((s.enter c.key).k.getR h).depth + 1 } : Rec) := by
    rw [pg1.val h hh1, gM]
  have hsc1 : (((((s.enter c.key).modR h (fun r => { r with depth := r.depth + 1 })).modK incLocked).procData .lock c (frameOf c data) h).k.getR h).eSched = some sc := (congrArg (fun t => t.2.2.2.2.2.2.2) hπ1).trans hsc
  have hck1 : sc.checked = (((((s.enter c.key).modR h (fun r => { r with depth := r.depth + 1 })).modK incLocked).procData .lock c (frameOf c data) h).k.getR h).eChecked := hck0.trans (congrArg (fun t => t.2.2.2.2.2.2.1) hπ1).symm
  have hhold1 : holdOf ((((s.enter c.key).modR h (fun r => { r with depth := r.depth + 1 })).modK incLocked).procData .lock c (frameOf c data) h).k h = ({ holdOf (s.getKey c.key) h with depth := (holdOf (s.getKey c.key) h).depth + 1 } : Engine.Hold) := by
    unfold holdOf; rw [toHold_of_πG hπ1, enter_k]; rfl
  have sc1 : SC (s.enter c.key) ((((s.enter c.key).modR h (fun r => { r with depth := r.depth + 1 })).modK incLocked).procData .lock c (frameOf c data) h) := ((SC.modR _ _ _).trans (SC.modK _ _)).trans (SC.procData _ _ _ _ _)
  obtain ⟨t1, t2, t3, t4, t5, t6, t7, t8⟩ := upd_tail ((((s.enter c.key).modR h (fun r => { r with depth := r.depth + 1 })).modK incLocked).procData .lock c (frameOf c data) h) h c true AOF_UPDATED hh1 (Engine2.abs s)
    (sc1.scal (scal_enter s c.key)) sc hsc1 hck1
  rw [hhold1] at t2 t3
  have sx : SX (· = h) (s.enter c.key) ((((((s.enter c.key).modR h (fun r => { r with depth := r.depth + 1 })).modK incLocked).procData .lock c (frameOf c data) h).updateLocked h c).when true (·.journalLock h AOF_UPDATED)) :=
    SX.trans ((((SX.refl (X := (· = h)) (s.enter c.key)).modR_in h (fun r => { r with depth := r.depth + 1 }) (by intro _; rfl) rfl).modK_same incLocked
      rfl rfl rfl rfl).procData _ _ _ _) t7
  have pt : PK (·.timeouted) ((((((s.enter c.key).modR h (fun r => { r with depth := r.depth + 1 })).modK incLocked).procData .lock c (frameOf c data) h).updateLocked h c).when true (·.journalLock h AOF_UPDATED)) (s.enter c.key) :=
    t8.trans ((pk_procData ins_timeouted _ _ _ _ _).trans ((pk_modK ((s.enter c.key).modR h (fun r => { r with depth := r.depth + 1 })) incLocked (PKeep.of_eq rfl)).trans
      (pk_modR (π := (·.timeouted)) (s.enter c.key) h _ (by intro _; rfl) (by intro _; rfl))))
  have hg3 : ((((((s.enter c.key).modR h (fun r => { r with depth := r.depth + 1 })).modK incLocked).procData .lock c (frameOf c data) h).updateLocked h c).when true (·.journalLock h AOF_UPDATED)).gone = false := t4.trans (sc1.gone.trans (enter_gone s c.key))
  have g3 := tx.good hg3
  have c3 := tx.cur hg3
  have hrec3 : ∀ y ∈ (s.enter c.key).k.current.toList ++ (s.enter c.key).k.locks ++ (s.enter c.key).k.wait.map (·.rid), ((((((s.enter c.key).modR h (fun r => { r with depth := r.depth + 1 })).modK incLocked).procData .lock c (frameOf c data) h).updateLocked h c).when true (·.journalLock h AOF_UPDATED)).k.hasRec y := by
    intro y hy
    apply g3.lv.rc.dang
    have := qRefs_pos_of_any _ y hy
    have h0 := qRefs_of_queues sx.q y
    show 0 < (((((((s.enter c.key).modR h (fun r => { r with depth := r.depth + 1 })).modK incLocked).procData .lock c (frameOf c data) h).updateLocked h c).when true (·.journalLock h AOF_UPDATED)).k.qRefs y : Int) + 0
    omega
  have hdep : (Engine.updateHold (Engine2.abs s) ({ holdOf (s.getKey c.key) h with depth := (holdOf (s.getKey c.key) h).depth + 1 } : Engine.Hold) c).2.depth = (holdOf (s.getKey c.key) h).depth + 1 := Engine.updateHold_depth _ _ _
  have hl3 : ((((((s.enter c.key).modR h (fun r => { r with depth := r.depth + 1 })).modK incLocked).procData .lock c (frameOf c data) h).updateLocked h c).when true (·.journalLock h AOF_UPDATED)).k.liveHolder h = true := by
    have : (((((((s.enter c.key).modR h (fun r => { r with depth := r.depth + 1 })).modK incLocked).procData .lock c (frameOf c data) h).updateLocked h c).when true (·.journalLock h AOF_UPDATED)).k.getR h).depth = (Engine.updateHold (Engine2.abs s) ({ holdOf (s.getKey c.key) h with depth := (holdOf (s.getKey c.key) h).depth + 1 } : Engine.Hold) c).2.depth := congrArg Engine.Hold.depth t2
    unfold Key.liveHolder; rw [this, hdep]; simp
  have hwq0 : WQ (s.enter c.key).k := by rw [enter_k]; exact hwq
  have hnd0 : (Key.abs (s.enter c.key).k).holders.Nodup := by rw [enter_k]; exact nodup_of_hid hnd
  have habs3 : Key.abs ((((((s.enter c.key).modR h (fun r => { r with depth := r.depth + 1 })).modK incLocked).procData .lock c (frameOf c data) h).updateLocked h c).when true (·.journalLock h AOF_UPDATED)).k = (keyRel1 (Key.abs (s.getKey c.key)) (holdOf (s.getKey c.key) h) (Engine.updateHold (Engine2.abs s) ({ holdOf (s.getKey c.key) h with depth := (holdOf (s.getKey c.key) h).depth + 1 } : Engine.Hold) c).2) := by
    rw [abs_edit_holder h sx.key sx.waited sx.q sx.p pt hrec3 hm hl0 hl3 hwq0.sep hnd0, t2, t6]
    have : ((((s.enter c.key).modR h (fun r => { r with depth := r.depth + 1 })).modK incLocked).procData .lock c (frameOf c data) h).k.locked = (s.enter c.key).k.locked + 1 := procData_locked _ _ _ _ _
    rw [this, enter_k]
    rfl
  obtain ⟨q1, q2, q3⟩ := queues_eq sx.q
  have cn3 : CurNone ((((((s.enter c.key).modR h (fun r => { r with depth := r.depth + 1 })).modK incLocked).procData .lock c (frameOf c data) h).updateLocked h c).when true (·.journalLock h AOF_UPDATED)).k := by
    have := (qi_getKey hq.qi c.key).cn
    rw [← enter_k] at this
    exact this.of_cl q1 q2
  have hwq3 : WQ ((((((s.enter c.key).modR h (fun r => { r with depth := r.depth + 1 })).modK incLocked).procData .lock c (frameOf c data) h).updateLocked h c).when true (·.journalLock h AOF_UPDATED)).k := by
    refine WQ.step (k := (s.enter c.key).k) hwq0 h q3 sx.p (wait_hasRec g3.lv) ?_ (fun y hy => Or.inl (by rw [← q1, ← q2]; exact hy))
    intro x hx hxe
    have hx0 : x ∈ (s.enter c.key).k.wait := by rw [← q3]; exact hx
    have : (s.enter c.key).k.deadWaiter h = true := by
      cases hdd : (s.enter c.key).k.deadWaiter h with
      | true => rfl
      | false => exact absurd hm (hxe ▸ hwq0.sep x hx0 (by rw [hxe]; exact hdd))
    exact (pt.val h t1).trans this
  have hmem1 : holdOf (s.getKey c.key) h ∈ (Key.abs (s.getKey c.key)).holders := mem_abs_holders hm0 (by rw [← enter_k]; exact hl0)
  have hki1 : Engine.KeyInv (keyRel1 (Key.abs (s.getKey c.key)) (holdOf (s.getKey c.key) h) (Engine.updateHold (Engine2.abs s) ({ holdOf (s.getKey c.key) h with depth := (holdOf (s.getKey c.key) h).depth + 1 } : Engine.Hold) c).2) := Engine.relock_inv hki hmem1 hdep
  have rel3 : Rel ((((((s.enter c.key).modR h (fun r => { r with depth := r.depth + 1 })).modK incLocked).procData .lock c (frameOf c data) h).updateLocked h c).when true (·.journalLock h AOF_UPDATED)) (Engine.updateHold (Engine2.abs s) ({ holdOf (s.getKey c.key) h with depth := (holdOf (s.getKey c.key) h).depth + 1 } : Engine.Hold) c).1 (keyRel1 (Key.abs (s.getKey c.key)) (holdOf (s.getKey c.key) h) (Engine.updateHold (Engine2.abs s) ({ holdOf (s.getKey c.key) h with depth := (holdOf (s.getKey c.key) h).depth + 1 } : Engine.Hold) c).2) [] :=
    Rel.of_live hg3 t3 (by rw [t5, sc1.out, enter_out]; rfl) hki1 ⟨g3, c3, cn3, hwq3, habs3⟩
  have rel4 := (rel3.ctr ctrRelock).reply c Engine.RESULT_SUCCED ((((((((s.enter c.key).modR h (fun r => { r with depth := r.depth + 1 })).modK incLocked).procData .lock c (frameOf c data) h).updateLocked h c).when true (·.journalLock h AOF_UPDATED)).ctr ctrRelock).k.getR h).depth (s.enter c.key).lockData
  obtain ⟨r1, r2, r3⟩ := rel4.wake
  have hfin := sim_lock_finish s hq c data (.relock h) _ _ (by rw [Engine.wake_keys]; exact Engine.updateHold_db_keys _ _ _)
    (by rw [Engine.wake_key]; exact getKey_key _ _) r1 r2 hcls
  have hd3 : ((((((((s.enter c.key).modR h (fun r => { r with depth := r.depth + 1 })).modK incLocked).procData .lock c (frameOf c data) h).updateLocked h c).when true (·.journalLock h AOF_UPDATED)).ctr ctrRelock).k.getR h).depth = (Engine.updateHold (Engine2.abs s) ({ holdOf (s.getKey c.key) h with depth := (holdOf (s.getKey c.key) h).depth + 1 } : Engine.Hold) c).2.depth := congrArg Engine.Hold.depth t2
  rw [hd3] at hfin
  unfold Engine.applyLock
  simp only []
  rw [hkabs]
  refine ⟨hfin, Eq.trans r3 ?_⟩
  rw [hd3]
  rfl

end Slock.Sim
