import Slock.Proofs.Engine2SimBase
import Slock.Proofs.EngineSimAux
/-! Stage 1's LOCK and UNLOCK respect `Sim.Equiv` (same scalar fields, same state under every key): they read the database through
`getKey` and the scalar fields only, and write it through `setKey`. New file; the stage-1 proof files are not edited. -/
namespace Slock.Sim
open Slock Slock.Engine

/-- same scalar fields -/
structure SE (a b : DB) : Prop where
  now : a.now = b.now
  tCheck : a.tCheck = b.tCheck
  eCheck : a.eCheck = b.eCheck
  seq : a.seq = b.seq
  leader : a.leader = b.leader
  ctr : a.ctr = b.ctr

/-- same state under every key -/
def KE (a b : DB) : Prop := ∀ n, a.getKey n = b.getKey n

theorem Equiv.se {a b : DB} (h : Equiv a b) : SE a b := ⟨h.now, h.tCheck, h.eCheck, h.seq, h.leader, h.ctr⟩
theorem Equiv.ke {a b : DB} (h : Equiv a b) : KE a b := h.keys
theorem Equiv.mk' {a b : DB} (s : SE a b) (k : KE a b) : Equiv a b := ⟨s.now, s.tCheck, s.eCheck, s.seq, s.leader, s.ctr, k⟩

theorem SE.refl (a : DB) : SE a a := ⟨rfl, rfl, rfl, rfl, rfl, rfl⟩

theorem KE.of_keys {a b a' b' : DB} (h : KE a b) (ha : a'.keys = a.keys) (hb : b'.keys = b.keys) : KE a' b' := by
  intro n
  have e1 : a'.getKey n = a.getKey n := by unfold DB.getKey; rw [ha]
  have e2 : b'.getKey n = b.getKey n := by unfold DB.getKey; rw [hb]
  rw [e1, e2]; exact h n

theorem KE.setKey {a b : DB} (h : KE a b) (k : Key) : KE (a.setKey k) (b.setKey k) := by
  intro n
  by_cases e : n = k.key
  · rw [e, getKey_setKey_same, getKey_setKey_same]
  · rw [getKey_setKey_other _ _ _ e, getKey_setKey_other _ _ _ e]; exact h n

theorem setKey_se (a : DB) (k : Key) : SE (a.setKey k) a := by
  unfold DB.setKey
  simp only []
  split <;> exact ⟨rfl, rfl, rfl, rfl, rfl, rfl⟩

theorem SE.trans {a b c : DB} (h1 : SE a b) (h2 : SE b c) : SE a c :=
  ⟨h1.now.trans h2.now, h1.tCheck.trans h2.tCheck, h1.eCheck.trans h2.eCheck, h1.seq.trans h2.seq, h1.leader.trans h2.leader, h1.ctr.trans h2.ctr⟩
theorem SE.symm {a b : DB} (h : SE a b) : SE b a := ⟨h.now.symm, h.tCheck.symm, h.eCheck.symm, h.seq.symm, h.leader.symm, h.ctr.symm⟩

/-- the common end of a state-changing branch -/
theorem Equiv.store {a b a' b' : DB} (h : Equiv a b) (s : SE a' b') (ha : a'.keys = a.keys) (hb : b'.keys = b.keys) (k : Key) :
    Equiv (a'.setKey k) (b'.setKey k) :=
  Equiv.mk' (((setKey_se a' k).trans s).trans (setKey_se b' k).symm) ((h.ke.of_keys ha hb).setKey k)

theorem grantHold_se {a b : DB} (h : SE a b) (k : Key) (c : Cmd) :
    SE (grantHold a k c).1 (grantHold b k c).1 ∧ (grantHold a k c).2 = (grantHold b k c).2 := by
  unfold grantHold
  simp only []
  rw [h.now, h.eCheck, h.seq, h.ctr]
  exact ⟨⟨rfl, h.tCheck, rfl, rfl, h.leader, rfl⟩, rfl⟩

theorem updateHold_se {a b : DB} (h : SE a b) (hd : Hold) (c : Cmd) :
    SE (updateHold a hd c).1 (updateHold b hd c).1 ∧ (updateHold a hd c).2 = (updateHold b hd c).2 := by
  unfold updateHold
  split
  · exact ⟨h, rfl⟩
  · simp only []
    rw [h.now, h.eCheck, h.seq]
    split
    · split
      · exact ⟨⟨rfl, h.tCheck, rfl, rfl, h.leader, h.ctr⟩, rfl⟩
      · exact ⟨h, rfl⟩
    · exact ⟨h, rfl⟩

theorem wakeIter_se {a b : DB} (h : SE a b) (k : Key) :
    (wakeIter a k = none ∧ wakeIter b k = none) ∨
    (∃ a' b' k' r, wakeIter a k = some (a', k', r) ∧ wakeIter b k = some (b', k', r) ∧ SE a' b') := by
  unfold wakeIter
  cases k.waiters with
  | nil => exact Or.inl ⟨rfl, rfl⟩
  | cons w rest =>
    simp only []
    split
    · exact Or.inl ⟨rfl, rfl⟩
    · split
      · right
        obtain ⟨s1, s2⟩ := grantHold_se (a := { a with ctr := { a.ctr with waitCount := a.ctr.waitCount - 1 } })
          (b := { b with ctr := { b.ctr with waitCount := b.ctr.waitCount - 1 } })
          ⟨h.now, h.tCheck, h.eCheck, h.seq, h.leader, by show ({ a.ctr with waitCount := a.ctr.waitCount - 1 } : Counters) = _; rw [h.ctr]⟩
          { k with waiters := rest } { w.cmd with conn := w.conn }
        refine ⟨_, _, _, _, rfl, ?_, s1⟩
        rw [s2]
      · right
        refine ⟨_, _, _, _, rfl, rfl, ⟨h.now, h.tCheck, h.eCheck, h.seq, h.leader, ?_⟩⟩
        show ({ ({ a.ctr with waitCount := a.ctr.waitCount - 1 } : Counters) with lockCount := _ } : Counters) = _
        rw [h.ctr]

theorem wakePass_se (fuel : Nat) {a b : DB} (h : SE a b) (k : Key) (out : List Reply) :
    SE (wakePass fuel a k out).1 (wakePass fuel b k out).1 ∧ (wakePass fuel a k out).2 = (wakePass fuel b k out).2 := by
  induction fuel generalizing a b k out with
  | zero => unfold wakePass; split <;> exact ⟨h, rfl⟩
  | succ n ih =>
    unfold wakePass
    split
    · exact ⟨h, rfl⟩
    · rcases wakeIter_se h k with ⟨e1, e2⟩ | ⟨a', b', k', r, e1, e2, s'⟩
      · rw [e1, e2]
        simp only []
        split <;> exact ⟨h, rfl⟩
      · rw [e1, e2]
        simp only []
        exact ih s' k' _

theorem wake_se {a b : DB} (h : SE a b) (k : Key) (out : List Reply) :
    SE (wake a k out).1 (wake b k out).1 ∧ (wake a k out).2 = (wake b k out).2 := wakePass_se _ h k out

/-- a wake pass on scalar-equal databases, stored back -/
theorem wake_store {a b a' b' : DB} (h : Equiv a b) (s : SE a' b') (ha : a'.keys = a.keys) (hb : b'.keys = b.keys) (k : Key) (out : List Reply) :
    Equiv ((wake a' k out).1.setKey (wake a' k out).2.1) ((wake b' k out).1.setKey (wake b' k out).2.1) ∧
    (wake a' k out).2.2 = (wake b' k out).2.2 := by
  obtain ⟨s1, s2⟩ := wake_se s k out
  rw [← s2]
  exact ⟨h.store s1 (by rw [wake_keys]; exact ha) (by rw [wake_keys]; exact hb) _, rfl⟩

theorem classifyLock_congr {a b : DB} (h : Equiv a b) (c : Cmd) : classifyLock a c = classifyLock b c := by
  unfold classifyLock
  rw [h.keys c.key, h.leader, h.now]

theorem classifyUnlock_congr {a b : DB} (h : Equiv a b) (c : Cmd) : classifyUnlock a c = classifyUnlock b c := by
  unfold classifyUnlock
  rw [h.keys c.key, h.leader]

/-- the key after a re-entrant lock, the database it is woken on -/
def relockKey (k : Key) (hd h1 : Hold) : Key := { k with holders := replaceHolder k.holders hd h1, locked := k.locked + 1 }
def relockDb (d : DB) : DB := { d with ctr := { d.ctr with lockCount := d.ctr.lockCount + 1, lockedCount := d.ctr.lockedCount + 1 } }

theorem applyLock_relock_eq (a : DB) (c : Cmd) (hd : Hold) :
    applyLock a c (.relock hd) =
      ((wake (relockDb (updateHold a { hd with depth := hd.depth + 1 } c).1)
          (relockKey (a.getKey c.key) hd (updateHold a { hd with depth := hd.depth + 1 } c).2)
          [mkReply c RESULT_SUCCED (relockKey (a.getKey c.key) hd (updateHold a { hd with depth := hd.depth + 1 } c).2).locked
            (updateHold a { hd with depth := hd.depth + 1 } c).2.depth]).1.setKey
        (wake (relockDb (updateHold a { hd with depth := hd.depth + 1 } c).1)
          (relockKey (a.getKey c.key) hd (updateHold a { hd with depth := hd.depth + 1 } c).2)
          [mkReply c RESULT_SUCCED (relockKey (a.getKey c.key) hd (updateHold a { hd with depth := hd.depth + 1 } c).2).locked
            (updateHold a { hd with depth := hd.depth + 1 } c).2.depth]).2.1,
       (wake (relockDb (updateHold a { hd with depth := hd.depth + 1 } c).1)
          (relockKey (a.getKey c.key) hd (updateHold a { hd with depth := hd.depth + 1 } c).2)
          [mkReply c RESULT_SUCCED (relockKey (a.getKey c.key) hd (updateHold a { hd with depth := hd.depth + 1 } c).2).locked
            (updateHold a { hd with depth := hd.depth + 1 } c).2.depth]).2.2) := rfl

def updKey (k : Key) (hd h1 : Hold) : Key := { k with holders := replaceHolder k.holders hd h1 }

theorem applyLock_update_eq (a : DB) (c : Cmd) (hd : Hold) :
    applyLock a c (.update hd) =
      ((wake (updateHold a hd { c with lockId := hd.cmd.lockId }).1
          (updKey (a.getKey c.key) hd (updateHold a hd { c with lockId := hd.cmd.lockId }).2)
          [mkReply { c with lockId := hd.cmd.lockId } RESULT_LOCKED_ERROR (a.getKey c.key).locked hd.depth]).1.setKey
        (wake (updateHold a hd { c with lockId := hd.cmd.lockId }).1
          (updKey (a.getKey c.key) hd (updateHold a hd { c with lockId := hd.cmd.lockId }).2)
          [mkReply { c with lockId := hd.cmd.lockId } RESULT_LOCKED_ERROR (a.getKey c.key).locked hd.depth]).2.1,
       (wake (updateHold a hd { c with lockId := hd.cmd.lockId }).1
          (updKey (a.getKey c.key) hd (updateHold a hd { c with lockId := hd.cmd.lockId }).2)
          [mkReply { c with lockId := hd.cmd.lockId } RESULT_LOCKED_ERROR (a.getKey c.key).locked hd.depth]).2.2) := rfl

def queueDb (d : DB) : DB := { d with seq := d.seq + 1, ctr := { d.ctr with waitCount := d.ctr.waitCount + 1 } }
def queueWaiter (tc sq now : Nat) (c : Cmd) : Waiter :=
  { cmd := c, conn := c.conn, timeoutT := (wheelAdd tc sq (timeoutDeadline now c) 1).1, sched := (wheelAdd tc sq (timeoutDeadline now c) 1).2 }
def queueKey (k : Key) (w : Waiter) : Key := { k with waiters := insertWaiter k.waiters w, waited := true }

theorem applyLock_queue_eq' (a : DB) (c : Cmd) :
    applyLock a c .queue = ((queueDb a).setKey (queueKey (a.getKey c.key) (queueWaiter a.tCheck a.seq a.now c)), []) := rfl

theorem queueDb_se {a b : DB} (s : SE a b) : SE (queueDb a) (queueDb b) :=
  ⟨s.now, s.tCheck, s.eCheck, by show a.seq + 1 = b.seq + 1; rw [s.seq], s.leader, by unfold queueDb; show ({ a.ctr with waitCount := _ } : Counters) = _; rw [s.ctr]⟩

theorem relockDb_se {a b : DB} (s : SE a b) : SE (relockDb a) (relockDb b) :=
  ⟨s.now, s.tCheck, s.eCheck, s.seq, s.leader, by unfold relockDb; show ({ a.ctr with lockCount := _, lockedCount := _ } : Counters) = _; rw [s.ctr]⟩

theorem applyLock_congr {a b : DB} (h : Equiv a b) (c : Cmd) (br : LockBranch) :
    Equiv (applyLock a c br).1 (applyLock b c br).1 ∧ (applyLock a c br).2 = (applyLock b c br).2 := by
  have hk := h.keys c.key
  cases br with
  | p0a | p0b | stateError | «show» _ | updateEqual _ | relockNoHold _ | relockRefused _ | unlockedWaitRefused | timeout =>
    simp only [applyLock, hk]
    exact ⟨h, trivial⟩
  | update hd =>
    rw [applyLock_update_eq, applyLock_update_eq, hk]
    obtain ⟨s1, s2⟩ := updateHold_se h.se hd { c with lockId := hd.cmd.lockId }
    rw [← s2]
    exact wake_store h s1 (updateHold_db_keys _ _ _) (updateHold_db_keys _ _ _) _ _
  | relock hd =>
    rw [applyLock_relock_eq, applyLock_relock_eq, hk]
    obtain ⟨s1, s2⟩ := updateHold_se h.se { hd with depth := hd.depth + 1 } c
    rw [← s2]
    exact wake_store h (relockDb_se s1) (updateHold_db_keys _ _ _) (updateHold_db_keys _ _ _) _ _
  | grant =>
    simp only [applyLock, hk]
    obtain ⟨s1, s2⟩ := grantHold_se h.se (b.getKey c.key) c
    rw [← s2]
    cases (b.getKey c.key).waited with
    | true =>
      simp only [if_true]
      exact wake_store h s1 (grantHold_db_keys _ _ _) (grantHold_db_keys _ _ _) _ _
    | false =>
      simp only [Bool.false_eq_true, if_false]
      exact ⟨h.store s1 (grantHold_db_keys _ _ _) (grantHold_db_keys _ _ _) _, trivial⟩
  | grantNoHold =>
    simp only [applyLock, hk]
    have s1 : SE { a with ctr := { a.ctr with lockCount := a.ctr.lockCount + 1 } } { b with ctr := { b.ctr with lockCount := b.ctr.lockCount + 1 } } :=
      ⟨h.now, h.tCheck, h.eCheck, h.seq, h.leader, by show ({ a.ctr with lockCount := a.ctr.lockCount + 1 } : Counters) = _; rw [h.ctr]⟩
    cases (b.getKey c.key).waited with
    | true =>
      simp only [if_true]
      exact wake_store h s1 rfl rfl _ _
    | false =>
      simp only [Bool.false_eq_true, if_false]
      exact ⟨h.store s1 rfl rfl _, trivial⟩
  | queue =>
    rw [applyLock_queue_eq', applyLock_queue_eq', hk, h.now, h.tCheck, h.seq]
    exact ⟨h.store (queueDb_se h.se) rfl rfl _, rfl⟩

theorem opLock_congr {a b : DB} (h : Equiv a b) (c : Cmd) : Equiv (opLock a c).1 (opLock b c).1 ∧ (opLock a c).2 = (opLock b c).2 := by
  unfold opLock
  rw [classifyLock_congr h c]
  exact applyLock_congr h c _

def cancelKey (k : Key) (w : Waiter) : Key :=
  { k with waiters := removeWaiter k.waiters w, waited := if (removeWaiter k.waiters w).isEmpty then false else k.waited }
def cancelDb (d : DB) : DB := { d with ctr := { d.ctr with waitCount := d.ctr.waitCount - 1, unLockCount := d.ctr.unLockCount + 1 } }
def decKey (k : Key) (h : Hold) : Key := { k with holders := replaceHolder k.holders h { h with depth := h.depth - 1 }, locked := k.locked - 1 }
def decDb (d : DB) : DB := { d with ctr := { d.ctr with unLockCount := d.ctr.unLockCount + 1, lockedCount := d.ctr.lockedCount - 1 } }
def relKey (k : Key) (h : Hold) : Key := { k with holders := removeHolder k.holders h, locked := k.locked - h.depth }
def relDb (d : DB) (n : Nat) : DB := { d with ctr := { d.ctr with unLockCount := d.ctr.unLockCount + n, lockedCount := d.ctr.lockedCount - n } }

theorem cancelDb_se {a b : DB} (s : SE a b) : SE (cancelDb a) (cancelDb b) :=
  ⟨s.now, s.tCheck, s.eCheck, s.seq, s.leader, by unfold cancelDb; show ({ a.ctr with waitCount := _, unLockCount := _ } : Counters) = _; rw [s.ctr]⟩
theorem decDb_se {a b : DB} (s : SE a b) : SE (decDb a) (decDb b) :=
  ⟨s.now, s.tCheck, s.eCheck, s.seq, s.leader, by unfold decDb; show ({ a.ctr with unLockCount := _, lockedCount := _ } : Counters) = _; rw [s.ctr]⟩
theorem relDb_se {a b : DB} (s : SE a b) (n : Nat) : SE (relDb a n) (relDb b n) :=
  ⟨s.now, s.tCheck, s.eCheck, s.seq, s.leader, by unfold relDb; show ({ a.ctr with unLockCount := _, lockedCount := _ } : Counters) = _; rw [s.ctr]⟩

theorem applyUnlock_cancel_eq (a : DB) (c : Cmd) (w : Waiter) :
    applyUnlock a c (.cancel w) =
      ((wake (cancelDb a) (cancelKey (a.getKey c.key) w) [mkReply c RESULT_LOCKED_ERROR (a.getKey c.key).locked 0,
          mkReply { w.cmd with conn := w.conn } RESULT_UNLOCK_ERROR (a.getKey c.key).locked 0]).1.setKey
        (wake (cancelDb a) (cancelKey (a.getKey c.key) w) [mkReply c RESULT_LOCKED_ERROR (a.getKey c.key).locked 0,
          mkReply { w.cmd with conn := w.conn } RESULT_UNLOCK_ERROR (a.getKey c.key).locked 0]).2.1,
       (wake (cancelDb a) (cancelKey (a.getKey c.key) w) [mkReply c RESULT_LOCKED_ERROR (a.getKey c.key).locked 0,
          mkReply { w.cmd with conn := w.conn } RESULT_UNLOCK_ERROR (a.getKey c.key).locked 0]).2.2) := rfl

theorem applyUnlock_dec_eq (a : DB) (c : Cmd) (h : Hold) (c' : Cmd) :
    applyUnlock a c (.dec h c') =
      ((wake (decDb a) (decKey (a.getKey c.key) h) [mkReply c' RESULT_SUCCED (decKey (a.getKey c.key) h).locked (h.depth - 1)]).1.setKey
        (wake (decDb a) (decKey (a.getKey c.key) h) [mkReply c' RESULT_SUCCED (decKey (a.getKey c.key) h).locked (h.depth - 1)]).2.1,
       (wake (decDb a) (decKey (a.getKey c.key) h) [mkReply c' RESULT_SUCCED (decKey (a.getKey c.key) h).locked (h.depth - 1)]).2.2) := rfl

theorem applyUnlock_release_eq (a : DB) (c : Cmd) (h : Hold) (c' : Cmd) :
    applyUnlock a c (.release h c') =
      ((wake (relDb a h.depth) (relKey (a.getKey c.key) h) [mkReply c' RESULT_SUCCED (relKey (a.getKey c.key) h).locked 0]).1.setKey
        (wake (relDb a h.depth) (relKey (a.getKey c.key) h) [mkReply c' RESULT_SUCCED (relKey (a.getKey c.key) h).locked 0]).2.1,
       (wake (relDb a h.depth) (relKey (a.getKey c.key) h) [mkReply c' RESULT_SUCCED (relKey (a.getKey c.key) h).locked 0]).2.2) := rfl

theorem bumpErr_equiv {a b : DB} (h : Equiv a b) : Equiv (bumpErr a) (bumpErr b) :=
  Equiv.mk' ⟨h.now, h.tCheck, h.eCheck, h.seq, h.leader, by unfold bumpErr; show ({ a.ctr with unlockErrorCount := _ } : Counters) = _; rw [h.ctr]⟩
    (h.ke.of_keys rfl rfl)

theorem applyUnlock_congr {a b : DB} (h : Equiv a b) (c : Cmd) (br : UnlockBranch) :
    Equiv (applyUnlock a c br).1 (applyUnlock b c br).1 ∧ (applyUnlock a c br).2 = (applyUnlock b c br).2 := by
  have hk := h.keys c.key
  cases br with
  | stateError | notLocked | unown | cancelNone =>
    simp only [applyUnlock, hk]
    exact ⟨bumpErr_equiv h, trivial⟩
  | cancel w =>
    rw [applyUnlock_cancel_eq, applyUnlock_cancel_eq, hk]
    exact wake_store h (cancelDb_se h.se) rfl rfl _ _
  | dec hd c' =>
    rw [applyUnlock_dec_eq, applyUnlock_dec_eq, hk]
    exact wake_store h (decDb_se h.se) rfl rfl _ _
  | release hd c' =>
    rw [applyUnlock_release_eq, applyUnlock_release_eq, hk]
    exact wake_store h (relDb_se h.se _) rfl rfl _ _

theorem opUnlock_congr {a b : DB} (h : Equiv a b) (c : Cmd) : Equiv (opUnlock a c).1 (opUnlock b c).1 ∧ (opUnlock a c).2 = (opUnlock b c).2 := by
  unfold opUnlock
  rw [classifyUnlock_congr h c]
  exact applyUnlock_congr h c _

theorem setLeader_congr {a b : DB} (h : Equiv a b) (l : Bool) : Equiv { a with leader := l } { b with leader := l } :=
  Equiv.mk' ⟨h.now, h.tCheck, h.eCheck, h.seq, rfl, h.ctr⟩ (h.ke.of_keys rfl rfl)

end Slock.Sim
