import Slock.Proofs.Queue2Lift
/-!
# C20 (part 2): final statements for the containers of server/lock.go

Model: `Slock/Model/Queue2.lean`.  `grow` (Go's `append` capacity growth) is universally quantified:
only `GrowOK grow : ∀ c, grow c > c` is used.  Abstractions: `Ring.abs`, `PRing.abs`, `HolderQ.abs`,
`WaitQ.abs : … → List Slot` (`Slot = Option Elem`, `none` = a nil lock pointer).
-/
namespace Slock.Queue2

/-! ## LockManagerRingQueue = FIFO -/

/-- RING, all operation sequences: from `NewLockManagerRingQueue(size)`, for every `size`, every
admissible `grow` and EVERY list of Push(x, x possibly nil) / Pop / Head / Len / IterNodes / MaxPriority /
in-place lock mutation, the ring produces exactly the observations of a plain FIFO list (including the
Go panic of MaxPriority when the first queued pointer is nil). -/
theorem ring_refines_fifo (grow : Nat → Nat) (hg : GrowOK grow) (size : Nat) (ops : List QOp) :
    runOps (Ring.step grow) (Ring.new size) ops = runOps fifoStep [] ops :=
  runOps_sim (Ring.step grow) fifoStep (fun q l => q.Inv ∧ q.abs = l)
    (fun q l op h => Ring.step_sim grow hg q l op h) _ _ ⟨Ring.new_inv size, Ring.new_abs size⟩ ops

/-- RING, Push across compaction (`copy` + reslice when full and `index > len/2`) and growth. -/
theorem ring_push (grow : Nat → Nat) (hg : GrowOK grow) (q : Ring) (x : Slot) (h : q.Inv) :
    ∃ q', q.push grow x = .ok q' ∧ q'.Inv ∧ q'.abs = q.abs ++ [x] := Ring.push_refines grow hg q x h

/-- RING, Pop. -/
theorem ring_pop (q : Ring) (h : q.Inv) :
    q.pop.1.Inv ∧ q.pop.1.abs = q.abs.tail ∧ q.pop.2 = q.abs.headD none := Ring.pop_refines q h

/-! ## LockManagerPriorityRingQueue = stable priority queue -/

/-- PRIORITY RING, all operation sequences: from `NewLockManagerPriorityRingQueue(size)`, for every
`size`, admissible `grow` and every operation list (in-place mutations must keep a lock's priority;
`Push(nil)` is a Go panic on both sides), the observations are exactly those of a list kept in stable
descending priority order (`specPushPrio`; `Pop`/`Head` take the first element; `MaxPriority` is the
priority of the first element or 0; `Len` the length; `IterNodes` concatenates to the list). -/
theorem prio_refines_stable_priority_queue (grow : Nat → Nat) (hg : GrowOK grow) (size : Nat)
    (ops : List QOp) (hops : ∀ op ∈ ops, PrioPreserving op) :
    runOps (PRing.step grow) (PRing.new size) ops = runOps prioStep [] ops :=
  runOps_sim_on PrioPreserving (PRing.step grow) prioStep (fun q l => q.Inv ∧ q.abs = l)
    (fun q l op hop h => PRing.step_sim grow hg q l op hop h) _ _
    ⟨PRing.new_inv size, PRing.new_abs size⟩ ops hops

/-- PRIORITY RING, Push = stable priority insert. -/
theorem prio_push (grow : Nat → Nat) (hg : GrowOK grow) (q : PRing) (e : Elem) (h : q.Inv) :
    ∃ q', q.push grow (some e) = .ok q' ∧ q'.Inv ∧ q'.abs = specPushPrio (some e) q.abs ∧ q'.size = q.size :=
  PRing.push_refines grow hg q e h

/-- PRIORITY RING, Pop. -/
theorem prio_pop (q : PRing) (h : q.Inv) :
    q.pop.1.Inv ∧ q.pop.1.abs = q.abs.tail ∧ q.pop.2 = q.abs.headD none := PRing.pop_refines q h

/-- What the specification means: `specPushPrio` keeps a descending list descending, adds exactly `x`,
and puts `x` behind all earlier elements of its own priority without reordering anything else. -/
theorem stable_insert_spec (x : Slot) (l : List Slot) (h : SortedDesc l) :
    SortedDesc (specPushPrio x l) ∧ (specPushPrio x l).Perm (x :: l) ∧
      ∀ p, (specPushPrio x l).filter (fun y => prioOf y == p) =
        l.filter (fun y => prioOf y == p) ++ [x].filter (fun y => prioOf y == p) :=
  ⟨specPushPrio_sorted x l h, specPushPrio_perm x l, fun p => specPushPrio_stable x l p h⟩

/-- `specSortPrio` is the stable descending sort (sorted, permutation, order kept per priority). -/
theorem stable_sort_spec (l : List Slot) :
    SortedDesc (specSortPrio l) ∧ (specSortPrio l).Perm l ∧
      ∀ p, (specSortPrio l).filter (fun y => prioOf y == p) = l.filter (fun y => prioOf y == p) :=
  specSortPrio_spec l

/-! ## LockManagerLockQueue (holder queue) = FIFO that may shed tombstones on Push -/

/-- HOLDER, Push of a non-nil lock in any representation (nil fastQueue, room left, all popped,
compaction, growth up to cap 128, switch to the scale queue): no panic, and the content becomes either
`old ++ [x]` with nothing dropped, or `(old without tombstoned (locked = 0) and nil entries) ++ [x]`
where the dropped locks are exactly the tombstoned ones, each with refCount decremented (those reaching
0 are the ones handed to FreeLock: `PushOut.freed`). -/
theorem holder_push (grow : Nat → Nat) (hg : GrowOK grow) (q : HolderQ) (e : Elem) (h : q.Inv) :
    ∃ q' o, q.push grow (some e) = .ok (q', o) ∧ q'.Inv ∧
      PushSpec holderLive q.abs q'.abs (some e) o.dropped := HolderQ.push_refines grow hg q e h

/-- Consequences of `PushSpec` (holder and wait): live entries are never lost or reordered, nothing is
invented, and only tombstoned locks are dropped. -/
theorem pushSpec_consequences (live : Elem → Bool) (old new : List Slot) (x : Slot) (d : List Elem)
    (h : PushSpec live old new x d) :
    new.filter (liveSlot live) = old.filter (liveSlot live) ++ [x].filter (liveSlot live) ∧
    new.Sublist (old ++ [x]) ∧
    ∀ e' ∈ d, ∃ e, e' = decRef e ∧ some e ∈ old ∧ live e = false := by
  rcases h with ⟨h1, h2⟩ | ⟨h1, h2⟩
  · subst h1 h2
    exact ⟨by simp, List.Sublist.refl _, by simp⟩
  · subst h1 h2
    refine ⟨by simp, List.Sublist.append List.filter_sublist (List.Sublist.refl _), ?_⟩
    intro e' he'
    obtain ⟨e, he, rfl⟩ := List.mem_map.mp he'
    exact ⟨e, rfl, (tombs_mem live old e).mp he⟩

/-- HOLDER, Pop (fast part first, then the scale queue). -/
theorem holder_pop (q : HolderQ) (h : q.Inv) :
    q.pop.1.Inv ∧ q.pop.1.abs = q.abs.tail ∧ q.pop.2 = q.abs.headD none := HolderQ.pop_refines q h

/-- HOLDER, Head / Len / IterNodes / Reset / Resize. -/
theorem holder_observers (q : HolderQ) (h : q.Inv) :
    q.head = q.abs.headD none ∧ q.len = (q.abs.length : Int) ∧
    q.iterNodes.1.flatten ++ (q.iterNodes.2.getD []) = q.abs ∧
    (q.reset.Inv ∧ q.reset.abs = []) ∧ q.resize = q :=
  ⟨HolderQ.head_refines q, HolderQ.len_refines q h, HolderQ.iterNodes_refines q,
    HolderQ.reset_refines q h, rfl⟩

/-! ## LockManagerWaitQueue -/

/-- WAIT, Push in FIFO mode (`fastIndex ≥ 0`): as the holder queue, tombstoned = `timeouted ||
ackCount != 0xff`; covers the fast queue, its compaction and growth, the switch to a ring of 64 and
pushes into that ring.  The queue stays in FIFO mode. -/
theorem wait_push_fifo (grow : Nat → Nat) (hg : GrowOK grow) (q : WaitQ) (e : Elem)
    (h : q.Inv) (hm : 0 ≤ q.fastIndex) :
    ∃ q' o, q.push grow (some e) = .ok (q', o) ∧ q'.Inv ∧ 0 ≤ q'.fastIndex ∧
      PushSpec waitLive q.abs q'.abs (some e) o.dropped := WaitQ.push_fifo_refines grow hg q e h hm

/-- WAIT, Push in priority mode (`fastIndex = -1`): the stable priority insert, nothing dropped. -/
theorem wait_push_prio (grow : Nat → Nat) (hg : GrowOK grow) (q : WaitQ) (e : Elem)
    (h : q.Inv) (hm : q.fastIndex < 0) :
    ∃ q', q.push grow (some e) = .ok (q', {}) ∧ q'.Inv ∧ q'.fastIndex < 0 ∧
      q'.abs = specPushPrio (some e) q.abs := WaitQ.push_prio_refines grow hg q e h hm

/-- WAIT, Pop in either mode; the mode is kept. -/
theorem wait_pop (q : WaitQ) (h : q.Inv) :
    q.pop.1.Inv ∧ q.pop.1.abs = q.abs.tail ∧ q.pop.2 = q.abs.headD none ∧
      (q.pop.1.fastIndex < 0 ↔ q.fastIndex < 0) := WaitQ.pop_refines q h

/-- WAIT, Head / Len / IterNodes / Reset (Reset returns to an empty FIFO-mode queue). -/
theorem wait_observers (q : WaitQ) (h : q.Inv) :
    q.head = q.abs.headD none ∧ q.len = (q.abs.length : Int) ∧ q.iterNodes.flatten = q.abs ∧
    (q.reset.Inv ∧ q.reset.abs = [] ∧ q.reset.fastIndex = 0) :=
  ⟨WaitQ.head_refines q h, WaitQ.len_refines q h, WaitQ.iterNodes_refines q, WaitQ.reset_refines q⟩

/-- WAIT, MaxPriority: the priority of the FIRST element (0 when empty).  In priority mode that is the
maximum; in FIFO mode it is NOT the maximum in general (see `wait_fifo_maxPriority_not_max`), and a nil
first entry is a Go panic. -/
theorem wait_maxPriority (q : WaitQ) (h : q.Inv) :
    q.maxPriority = match q.abs with
      | [] => .ok 0
      | none :: _ => if q.fastIndex < 0 then .ok 0 else .panic
      | some e :: _ => .ok e.priority := WaitQ.maxPriority_refines q h

/-- WAIT, RePushPriorityRingQueue from FIFO mode with no nil lock queued: priority mode afterwards and
content = stable descending sort of the old content (fast part first, then the ring, drained by Pop). -/
theorem wait_repush (grow : Nat → Nat) (hg : GrowOK grow) (q : WaitQ) (h : q.Inv)
    (hm : 0 ≤ q.fastIndex) (hnn : ∀ s ∈ q.abs, s ≠ none) :
    ∃ q', q.rePush grow = .ok q' ∧ q'.Inv ∧ q'.fastIndex < 0 ∧ q'.abs = specSortPrio q.abs :=
  WaitQ.rePush_refines grow hg q h hm hnn

/-- constructors establish the invariants with empty content -/
theorem constructors_ok (size : Nat) (b : Bool) :
    ((Ring.new size).Inv ∧ (Ring.new size).abs = []) ∧ ((PRing.new size).Inv ∧ (PRing.new size).abs = []) ∧
    (HolderQ.new.Inv ∧ HolderQ.new.abs = []) ∧ ((WaitQ.new b).Inv ∧ (WaitQ.new b).abs = []) ∧
    ((WaitQ.new b).fastIndex < 0 ↔ b = true) :=
  ⟨⟨Ring.new_inv _, Ring.new_abs _⟩, ⟨PRing.new_inv _, PRing.new_abs _⟩, ⟨HolderQ.new_inv, HolderQ.new_abs⟩,
    ⟨WaitQ.new_inv b, WaitQ.new_abs b⟩, by cases b <;> simp [WaitQ.new]⟩

/-! ## where the code does NOT behave like the specification (concrete witnesses) -/

def mkE (id prio : Nat) : Elem := ⟨id, prio, 0, 1, false, 255, 1⟩

/-- FIFO-mode wait queue: `MaxPriority()` is the priority of the head, not the maximum: content
[prio 0, prio 5] reports 0.  (Production: `AddWaitLock` re-pushes into priority order before it pushes a
lock whose priority differs from `MaxPriority()` of a non-empty queue, so a FIFO-mode queue only holds
locks of one priority there; a direct user of the container can reach it.) -/
theorem wait_fifo_maxPriority_not_max :
    (WaitQ.mk (some ⟨[some (mkE 1 0), some (mkE 2 5)], 8⟩) 0 .nil).maxPriority = .ok 0 := by decide

/-- A nil lock inside the ring makes RePushPriorityRingQueue stop draining early: the lock behind it is
lost (content [1, nil, 3] becomes [1]).  Needs `Push(nil)`, which no production caller does. -/
theorem wait_repush_loses_after_nil :
    (WaitQ.mk none 0 (.ring ⟨[some (mkE 1 0), none, some (mkE 3 0)], 64, 0⟩)).rePush (· + 1) =
      .ok ⟨none, -1, .prio ⟨[⟨⟨[some (mkE 1 0)], 16, 0⟩, 0⟩], 2, 16⟩⟩ := by decide

/-- A nil lock in the fast part makes RePushPriorityRingQueue panic (nil dereference in Push). -/
theorem wait_repush_nil_panics :
    (WaitQ.mk (some ⟨[none], 8⟩) 0 .nil).rePush (· + 1) = .panic := by decide

/-- `Push(nil)` then `MaxPriority()` on a ring is a Go panic (and the FIFO specification says so too). -/
theorem ring_maxPriority_nil_panics :
    runOps (Ring.step (· + 1)) (Ring.new 1) [.push none, .maxprio] = [.done, .panic] := by decide

end Slock.Queue2
