import Slock.Proofs.ReplQueue
/-!
The queue invariant `Inv` and the cursor invariant `CurOk`; what `Push` does to the lists; preservation by every
operation of the model. Core Lean only.
-/
namespace Slock.Repl

/-- `A` bounds the number of `AddPoll` calls so far (so that no live `pollCount` reaches the recycled mark `0xffffffff`);
`hist` is the sequence of records pushed so far. -/
structure Inv (A : Nat) (q : Q) (hist : List (Nat × Nat × Nat)) : Prop where
  live : ∃ k, LiveOk k q.live hist
  seq : q.seq = hist.length
  nonempty : hist ≠ [] → q.live ≠ []
  freeMarked : ∀ it ∈ q.free, it.pollCount = M32
  pc : q.pollCount ≤ A
  livePc : ∀ it ∈ q.live, it.pollCount ≤ A

/-- position of the oldest buffered record -/
def tailSeq (q : Q) : Nat := q.seq - q.live.length

theorem Inv.liveOk {A q hist} (h : Inv A q hist) : LiveOk (tailSeq q) q.live hist := by
  obtain ⟨k, hk⟩ := h.live
  have := LiveOk.len hk
  have hs := h.seq
  have : k = tailSeq q := by unfold tailSeq; omega
  rw [← this]; exact hk

theorem Inv.len_le {A q hist} (h : Inv A q hist) : q.live.length ≤ q.seq := by
  obtain ⟨k, hk⟩ := h.live
  have := LiveOk.len hk
  have hs := h.seq
  omega

theorem inv_new (b m : Nat) : Inv 0 (newQueue b m) [] := by
  refine ⟨⟨0, by simp [newQueue, LiveOk]⟩, rfl, fun h => absurd rfl h, ?_, Nat.le_refl _, ?_⟩
  · intro it hm
    simp only [newQueue, freshItems, List.mem_map] at hm
    obtain ⟨i, _, rfl⟩ := hm
    rfl
  · intro it hm; simp [newQueue] at hm

theorem Inv.mono {A B q hist} (h : Inv A q hist) (hab : A ≤ B) : Inv B q hist :=
  ⟨h.live, h.seq, h.nonempty, h.freeMarked, Nat.le_trans h.pc hab, fun it hm => Nat.le_trans (h.livePc it hm) hab⟩

/-! ### Push -/

theorem resetLoop_spec (bs : Nat) (it : Item) (rest free : List Item) (used : Nat) :
    ∃ fr, it :: rest = fr ++ (resetLoop bs it rest free used).1 :: (resetLoop bs it rest free used).2.1 ∧
      (resetLoop bs it rest free used).2.2.1 = free ++ fr.map recycle := by
  induction rest generalizing it free used with
  | nil => exact ⟨[], by simp [resetLoop]⟩
  | cons t rest ih =>
    unfold resetLoop
    by_cases hc : used ≥ bs ∧ t.pollIndex ≥ t.pollCount
    · simp only [hc, and_self, if_true]
      obtain ⟨fr, h1, h2⟩ := ih t (free ++ [recycle it]) (used - itemSize t)
      refine ⟨it :: fr, ?_, ?_⟩
      · simp only [List.cons_append]; rw [← h1]
      · rw [h2]; simp
    · simp only [hc, if_false]
      exact ⟨[], by simp⟩

theorem freshItems_marked (s c : Nat) : ∀ it ∈ freshItems s c, it.pollCount = M32 := by
  intro it hm
  simp only [freshItems, List.mem_map] at hm
  obtain ⟨i, _, rfl⟩ := hm
  rfl

theorem makeRoom_spec (q : Q) (hf : ∀ it ∈ q.free, it.pollCount = M32) :
    (makeRoom q).1.seq = q.seq ∧ (makeRoom q).1.pollCount = q.pollCount ∧
    (∃ pre, q.live = pre ++ (makeRoom q).1.live) ∧ (∀ it ∈ (makeRoom q).1.free, it.pollCount = M32) := by
  unfold makeRoom
  split
  · exact ⟨rfl, rfl, ⟨[], rfl⟩, hf⟩
  · refine ⟨rfl, rfl, ⟨[], rfl⟩, ?_⟩
    intro it hm
    rcases List.mem_append.mp hm with hm | hm
    · exact hf it hm
    · exact freshItems_marked _ _ it hm
  · split
    · exact ⟨rfl, rfl, ⟨[], rfl⟩, hf⟩
    · rename_i t rest hl
      obtain ⟨fr, h1, h2⟩ := resetLoop_spec q.bufSize t rest q.free (q.used - itemSize t)
      refine ⟨rfl, rfl, ⟨fr ++ [(resetLoop q.bufSize t rest q.free (q.used - itemSize t)).1], ?_⟩, ?_⟩
      · rw [hl, h1]; simp
      · intro it hm
        have hm' : it ∈ (resetLoop q.bufSize t rest q.free (q.used - itemSize t)).2.2.1 := hm
        rw [h2] at hm'
        rcases List.mem_append.mp hm' with hm' | hm'
        · exact hf it hm'
        · simp only [List.mem_map] at hm'
          obtain ⟨x, _, rfl⟩ := hm'
          rfl

theorem takeItem_spec (q : Q) (o : Option Item) (hf : ∀ it ∈ q.free, it.pollCount = M32) :
    (takeItem q o).1.seq = q.seq ∧ (takeItem q o).1.pollCount = q.pollCount ∧ (takeItem q o).1.live = q.live ∧
    (∀ it ∈ (takeItem q o).1.free, it.pollCount = M32) := by
  unfold takeItem
  split
  · exact ⟨rfl, rfl, rfl, hf⟩
  · split
    · rename_i f fr hfr
      exact ⟨rfl, rfl, rfl, fun it hm => hf it (by rw [hfr]; exact List.mem_cons_of_mem _ hm)⟩
    · rename_i hfr
      exact ⟨rfl, rfl, rfl, fun it hm => hf it hm⟩

/-- What `Push` does: drops a prefix of the linked list (the recycled records), appends the new record with the next
`seq`; recycled items stay marked. -/
theorem push_shape (q : Q) (id ord dlen : Nat) (hf : ∀ it ∈ q.free, it.pollCount = M32) :
    ∃ pre liveR new, q.live = pre ++ liveR ∧ (push q id ord dlen).live = liveR ++ [new] ∧ new.seq = q.seq ∧
      new.pollCount = q.pollCount ∧ content new = (id, ord, dlen) ∧ (push q id ord dlen).seq = q.seq + 1 ∧
      (push q id ord dlen).pollCount = q.pollCount ∧ (∀ it ∈ (push q id ord dlen).free, it.pollCount = M32) := by
  obtain ⟨m1, m2, ⟨pre, m3⟩, m4⟩ := makeRoom_spec q hf
  obtain ⟨t1, t2, t3, t4⟩ := takeItem_spec (makeRoom q).1 (makeRoom q).2 m4
  refine ⟨pre, (makeRoom q).1.live, fillItem (takeItem (makeRoom q).1 (makeRoom q).2).1 (takeItem (makeRoom q).1 (makeRoom q).2).2 id ord dlen, m3, ?_, ?_, ?_, ?_, ?_, ?_, ?_⟩
  · show (push q id ord dlen).live = _
    unfold push
    simp only []
    rw [t3]
  · simp only [fillItem]; rw [t1, m1]
  · simp only [fillItem]; rw [t2, m2]
  · rfl
  · unfold push; simp only []; rw [t1, m1]
  · unfold push; simp only []; rw [t2, m2]
  · unfold push; simp only []; exact t4

theorem push_live (q : Q) (id ord dlen : Nat) :
    (push q id ord dlen).live = (takeItem (makeRoom q).1 (makeRoom q).2).1.live ++
      [fillItem (takeItem (makeRoom q).1 (makeRoom q).2).1 (takeItem (makeRoom q).1 (makeRoom q).2).2 id ord dlen] := rfl

theorem push_free (q : Q) (id ord dlen : Nat) :
    (push q id ord dlen).free = (takeItem (makeRoom q).1 (makeRoom q).2).1.free := rfl

theorem push_inv {A q hist} (h : Inv A q hist) (id ord dlen : Nat) :
    Inv A (push q id ord dlen) (hist ++ [(id, ord, dlen)]) := by
  obtain ⟨pre, liveR, new, p1, p2, p3, p4, p5, p6, p7, p8⟩ := push_shape q id ord dlen h.freeMarked
  obtain ⟨k, hk⟩ := h.live
  rw [p1] at hk
  have hk2 := LiveOk.suffix hk
  refine ⟨⟨k + pre.length, ?_⟩, ?_, ?_, p8, ?_, ?_⟩
  · rw [p2, ← p5]
    exact LiveOk.append new hk2 (by rw [p3, h.seq])
  · rw [p6, h.seq]; simp
  · intro _; rw [p2]; simp
  · rw [p7]; exact h.pc
  · intro it hm
    rw [p2] at hm
    rcases List.mem_append.mp hm with hm | hm
    · exact h.livePc it (by rw [p1]; exact List.mem_append_right _ hm)
    · rw [List.mem_singleton.mp hm, p4]; exact h.pc

/-! ### Cursors -/

/-- A cursor that has a position holds a pointer, and if the record at its position is still linked then that pointer is
to exactly that item. -/
def CurOk (q : Q) (c : Cursor) : Prop :=
  c.seq ≠ seqNone → c.seq < q.seq ∧ ∃ sid, c.cur = some sid ∧ ∀ it ∈ q.live, it.seq = c.seq → it.sid = sid

theorem curOk_new (q : Q) : CurOk q newCursor := fun h => absurd rfl h

theorem push_curOk {A q hist c} (h : Inv A q hist) (hc : CurOk q c) (id ord dlen : Nat) :
    CurOk (push q id ord dlen) c := by
  intro hn
  obtain ⟨c1, sid, c2, c3⟩ := hc hn
  obtain ⟨pre, liveR, new, p1, p2, p3, _, _, p6, _, _⟩ := push_shape q id ord dlen h.freeMarked
  refine ⟨by rw [p6]; omega, sid, c2, ?_⟩
  intro it hm hs
  rw [p2] at hm
  rcases List.mem_append.mp hm with hm | hm
  · exact c3 it (by rw [p1]; exact List.mem_append_right _ hm) hs
  · rw [List.mem_singleton.mp hm, p3] at hs; omega

/-- after a cursor took the linked item `it` -/
theorem takeCur_curOk {A q hist} (h : Inv A q hist) (c : Cursor) {it : Item} (hm : it ∈ q.live) (w : Bool) :
    CurOk q (takeCur c it w) := by
  intro _
  have hl := h.liveOk
  refine ⟨?_, it.sid, rfl, ?_⟩
  · have := (LiveOk.mem hl hm).2.1; rw [h.seq]; exact this
  · intro x hx hs
    rw [LiveOk.seq_inj hl hx hm hs]

/-- updates of pollCount / pollIndex (AddPoll, RemovePoll, ack) -/
theorem curOk_pointwise {q q' : Q} {c} (hs : q'.seq = q.seq) (hp : Pointwise Same q.live q'.live) (hc : CurOk q c) :
    CurOk q' c := by
  intro hn
  obtain ⟨c1, sid, c2, c3⟩ := hc hn
  refine ⟨by rw [hs]; exact c1, sid, c2, ?_⟩
  intro it hm hsq
  obtain ⟨a, ha, s1, s2, _⟩ := Pointwise.mem_right hp it hm
  rw [s1]; exact c3 a ha (by rw [← s2]; exact hsq)

theorem same_refl (a : Item) : Same a a := ⟨rfl, rfl, rfl⟩
theorem same_incPollCount (a : Item) : Same a (incPollCount a) := ⟨rfl, rfl, rfl⟩
theorem same_incPollIndex (a : Item) : Same a (incPollIndex a) := ⟨rfl, rfl, rfl⟩

theorem walk_cases (q : Q) (f : Item → Item) (o : Option Nat) :
    walk q f o = q ∨
    (∃ sid l, o = some sid ∧ bumpFrom f q.live sid = some l ∧ walk q f o = { q with live := l }) ∨
    (∃ sid l, o = some sid ∧ bumpFrom f q.live sid = none ∧ bumpFrom f q.free sid = some l ∧ walk q f o = { q with free := l }) := by
  unfold walk
  split
  · exact Or.inl rfl
  · rename_i sid
    split
    · rename_i l h1
      exact Or.inr (Or.inl ⟨sid, l, rfl, h1, rfl⟩)
    · rename_i h1
      split
      · rename_i l h2
        exact Or.inr (Or.inr ⟨sid, l, rfl, h1, h2, rfl⟩)
      · exact Or.inl rfl

/-- `walk` (the loops of AddPoll / RemovePoll): both lists change pointwise; seq and pollCount of the queue stay. -/
theorem walk_pointwise (q : Q) (f : Item → Item) (R : Item → Item → Prop) (hr : ∀ a, R a a) (hf : ∀ a, R a (f a))
    (o : Option Nat) :
    Pointwise R q.live (walk q f o).live ∧ Pointwise R q.free (walk q f o).free ∧
      (walk q f o).seq = q.seq ∧ (walk q f o).pollCount = q.pollCount := by
  rcases walk_cases q f o with h | ⟨sid, l, _, h1, h⟩ | ⟨sid, l, _, _, h2, h⟩ <;> rw [h]
  · exact ⟨Pointwise.refl hr _, Pointwise.refl hr _, rfl, rfl⟩
  · exact ⟨bumpFrom_pointwise f hr hf h1, Pointwise.refl hr _, rfl, rfl⟩
  · exact ⟨Pointwise.refl hr _, bumpFrom_pointwise f hr hf h2, rfl, rfl⟩

theorem walk_live (q : Q) (f : Item → Item) (hf : ∀ a, Same a (f a)) (o : Option Nat) :
    Pointwise Same q.live (walk q f o).live ∧ (walk q f o).seq = q.seq ∧ (walk q f o).pollCount = q.pollCount :=
  let w := walk_pointwise q f Same same_refl hf o
  ⟨w.1, w.2.2.1, w.2.2.2⟩

theorem walk_free_pointwise (q : Q) (f : Item → Item) (R : Item → Item → Prop) (hr : ∀ a, R a a) (hf : ∀ a, R a (f a))
    (o : Option Nat) : Pointwise R q.free (walk q f o).free := (walk_pointwise q f R hr hf o).2.1

theorem walk_live_pointwise (q : Q) (f : Item → Item) (R : Item → Item → Prop) (hr : ∀ a, R a a) (hf : ∀ a, R a (f a))
    (o : Option Nat) : Pointwise R q.live (walk q f o).live := (walk_pointwise q f R hr hf o).1

theorem walk_free_untouched (q : Q) (f : Item → Item) (o : Option Nat)
    (hg : ∀ sid, o = some sid → ∀ it ∈ q.free, it.sid ≠ sid) : (walk q f o).free = q.free := by
  rcases walk_cases q f o with h | ⟨sid, l, _, h1, h⟩ | ⟨sid, l, ho, _, h2, h⟩ <;> rw [h]
  rw [bumpFrom_none (hg sid ho)] at h2
  cases h2

theorem bumpFrom_some_of_after {f : Item → Item} {l : List Item} {sid r} (h : after l sid = some r) :
    ∃ l', bumpFrom f l sid = some l' := by
  induction l with
  | nil => simp [after] at h
  | cons a l ih =>
    unfold after at h
    unfold bumpFrom
    by_cases ha : a.sid = sid
    · simp only [ha, if_true]; exact ⟨_, rfl⟩
    · simp only [ha, if_false] at h ⊢
      obtain ⟨l', hl⟩ := ih h
      exact ⟨a :: l', by rw [hl]; rfl⟩

/-- `AddPoll` never touches the free list: it walks only from an item that is not marked as recycled, and such an item is linked -/
theorem addPoll_walk_free {A q hist} (h : Inv A q hist) (c : Cursor) (n : Nat) :
    (walk { q with pollCount := n } incPollCount (addStart q c)).free = q.free := by
  unfold addStart
  split
  · rfl
  · rename_i sid hcur
    split
    · rename_i it nxt hloc
      by_cases hm : it.pollCount = M32 ∨ it.seq ≠ c.seq
      · rw [if_pos hm]; rfl
      · rw [if_neg hm]
        have hm1 : it.pollCount ≠ M32 := fun e => hm (Or.inl e)
        have hlive : ∃ r, after q.live sid = some r := by
          unfold locate at hloc
          split at hloc
          · rename_i r hr; exact ⟨r, hr⟩
          · rename_i hr
            obtain ⟨pre, hp, _⟩ := after_some hloc
            exact absurd (h.freeMarked it (by rw [hp]; simp)) hm1
        obtain ⟨r, hr⟩ := hlive
        obtain ⟨l', hl'⟩ := bumpFrom_some_of_after (f := incPollCount) hr
        rcases walk_cases { q with pollCount := n } incPollCount (some sid) with e | ⟨s2, l2, hs, _, e⟩ | ⟨s2, l2, hs, h1, _, _⟩
        · rw [e]
        · rw [e]
        · cases hs; rw [show ({ q with pollCount := n } : Q).live = q.live from rfl, hl'] at h1; cases h1
    · rename_i hloc
      -- a pointer that is in neither list (cannot happen): nothing is walked
      have h1 : after q.live sid = none := by
        unfold locate at hloc
        split at hloc
        · cases hloc
        · rename_i hr; exact hr
      have h2 : after q.free sid = none := by
        unfold locate at hloc
        split at hloc
        · cases hloc
        · exact hloc
      apply walk_free_untouched
      intro s2 hs; cases hs
      exact after_none h2

theorem addPoll_inv {A q hist c} (h : Inv A q hist) : Inv (A + 1) (addPoll q c) hist := by
  unfold addPoll
  have w := walk_live { q with pollCount := (q.pollCount + 1) % W32 } incPollCount same_incPollCount (addStart q c)
  have wf := addPoll_walk_free h c ((q.pollCount + 1) % W32)
  have wp := walk_live_pointwise { q with pollCount := (q.pollCount + 1) % W32 } incPollCount
    (fun a b => b.pollCount ≤ a.pollCount + 1) (fun a => Nat.le_succ _)
    (fun a => by simp only [incPollCount]; exact Nat.mod_le _ _) (addStart q c)
  obtain ⟨k, hk⟩ := h.live
  refine ⟨⟨k, LiveOk.pointwise w.1 hk⟩, ?_, ?_, ?_, ?_, ?_⟩
  · rw [w.2.1]; exact h.seq
  · intro hne
    have := h.nonempty hne
    have hl := Pointwise.length w.1
    intro he
    rw [he] at hl
    exact this (List.length_eq_zero_iff.mp hl)
  · rw [wf]; exact h.freeMarked
  · rw [w.2.2]
    show (q.pollCount + 1) % W32 ≤ A + 1
    have := Nat.mod_le (q.pollCount + 1) W32
    have := h.pc
    omega
  · intro it hm
    obtain ⟨a, ha, hr⟩ := Pointwise.mem_right wp it hm
    have := h.livePc a ha
    omega

theorem removePoll_inv {A q hist c} (h : Inv A q hist) (hp : 0 < q.pollCount) (hA : A < M32) : Inv A (removePoll q c) hist := by
  unfold removePoll
  have w := walk_live { q with pollCount := (q.pollCount + W32 - 1) % W32 } incPollIndex same_incPollIndex c.cur
  have wf := walk_free_pointwise { q with pollCount := (q.pollCount + W32 - 1) % W32 } incPollIndex
    (fun a b => b.pollCount = a.pollCount) (fun _ => rfl) (fun _ => rfl) c.cur
  have wp := walk_live_pointwise { q with pollCount := (q.pollCount + W32 - 1) % W32 } incPollIndex
    (fun a b => b.pollCount = a.pollCount) (fun _ => rfl) (fun _ => rfl) c.cur
  obtain ⟨k, hk⟩ := h.live
  refine ⟨⟨k, LiveOk.pointwise w.1 hk⟩, ?_, ?_, ?_, ?_, ?_⟩
  · rw [w.2.1]; exact h.seq
  · intro hne
    have := h.nonempty hne
    have hl := Pointwise.length w.1
    intro he
    rw [he] at hl
    exact this (List.length_eq_zero_iff.mp hl)
  · intro it hm
    obtain ⟨a, ha, hr⟩ := Pointwise.mem_right wf it hm
    rw [hr]; exact h.freeMarked a ha
  · rw [w.2.2]
    show (q.pollCount + W32 - 1) % W32 ≤ A
    have := h.pc
    unfold M32 at hA
    unfold W32
    omega
  · intro it hm
    obtain ⟨a, ha, hr⟩ := Pointwise.mem_right wp it hm
    rw [hr]; exact h.livePc a ha

theorem curOk_setPollCount {q : Q} {d} (n : Nat) (hc : CurOk q d) : CurOk { q with pollCount := n } d := by
  intro hn
  exact hc hn

theorem addPoll_curOk {q c d} (hc : CurOk q d) : CurOk (addPoll q c) d := by
  unfold addPoll
  generalize (q.pollCount + 1) % W32 = n
  have w := walk_live { q with pollCount := n } incPollCount same_incPollCount (addStart q c)
  exact curOk_pointwise w.2.1 w.1 (curOk_setPollCount n hc)

theorem removePoll_curOk {q c d} (hc : CurOk q d) : CurOk (removePoll q c) d := by
  unfold removePoll
  generalize (q.pollCount + W32 - 1) % W32 = n
  have w := walk_live { q with pollCount := n } incPollIndex same_incPollIndex c.cur
  exact curOk_pointwise w.2.1 w.1 (curOk_setPollCount n hc)

end Slock.Repl
