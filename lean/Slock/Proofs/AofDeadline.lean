import Slock.Model.Aof
/-!
Arithmetic of the two deadline ↔ remaining-lifetime conversions (`Aof.GetAofLockExpriedTime` when a record is written,
`Aof.GetLockCommandExpriedTime` + the expired-record filter of `LoadAofFile` when it is loaded), per expiry unit.
`d` = the hold's deadline, `c` = the second it was journalled (`c < d`: the sweeper journals live holds), `n ≥ c` = reload.
-/
namespace Slock.Aof

def IsSeconds (ef : Nat) : Prop :=
  ef &&& EXPRIED_FLAG_UNLIMITED_EXPRIED_TIME = 0 ∧ ef &&& EXPRIED_FLAG_MILLISECOND_TIME = 0 ∧ ef &&& EXPRIED_FLAG_MINUTE_TIME = 0
def IsMinutes (ef : Nat) : Prop :=
  ef &&& EXPRIED_FLAG_UNLIMITED_EXPRIED_TIME = 0 ∧ ef &&& EXPRIED_FLAG_MILLISECOND_TIME = 0 ∧ ef &&& EXPRIED_FLAG_MINUTE_TIME ≠ 0
def IsMillis (ef : Nat) : Prop :=
  ef &&& EXPRIED_FLAG_UNLIMITED_EXPRIED_TIME = 0 ∧ ef &&& EXPRIED_FLAG_MILLISECOND_TIME ≠ 0

theorem toI64_small (x : Nat) (h : x < 2 ^ 63) : toI64 x = x := by
  unfold toI64
  have : x % 2 ^ 64 = x := Nat.mod_eq_of_lt (by omega)
  simp [this, h]

theorem pushCommandTime_live (c d : Int) (h : c < d) : pushCommandTime c (some d) = c := by
  simp [pushCommandTime, h]

/-! ### seconds -/

theorem sec_deadline (ef e : Nat) (s : Int) (h : IsSeconds ef) : engineDeadline ef e s = some (s + e + 1) := by
  obtain ⟨hU, hMs, hMin⟩ := h
  simp [engineDeadline, hU, hMs, hMin]

theorem sec_write (ef e : Nat) (d c : Int) (h : IsSeconds ef) (h0 : 0 < d) (hc : c < d) (hov : d - c < 65536) :
    writeRemaining ef e (some d) c = (d - c).toNat := by
  obtain ⟨hU, hMs, hMin⟩ := h
  simp only [writeRemaining, hU, hMs, hMin, Option.getD_some, u16, ne_eq, not_true_eq_false, if_false]
  repeat' split
  all_goals omega

/-- The stored value saturates at 0xffff (a 65535-second hold journalled in the second of its grant has 65536 s left). -/
theorem sec_write_sat (ef e : Nat) (d c : Int) (h : IsSeconds ef) (h0 : 0 < d) (hov : 65536 ≤ d - c) :
    writeRemaining ef e (some d) c = 65535 := by
  obtain ⟨hU, hMs, hMin⟩ := h
  simp only [writeRemaining, hU, hMs, hMin, Option.getD_some, u16, ne_eq, not_true_eq_false, if_false]
  repeat' split
  all_goals omega

theorem sec_skip (ef rem : Nat) (c n : Int) (h : IsSeconds ef) (hc : 0 ≤ c) (hb : c + rem < 2 ^ 62) :
    skippedAt ef rem c.toNat n = decide (0 < rem ∧ c + rem ≤ n) := by
  obtain ⟨hU, hMs, hMin⟩ := h
  have : toI64 (c.toNat + rem) = c + rem := by rw [toI64_small _ (by omega)]; omega
  simp [skippedAt, hU, hMs, hMin, this]

theorem sec_load (ef rem : Nat) (c n : Int) (h : IsSeconds ef) (hcn : c ≤ n) (hel : n - c < 65536) :
    loadRemaining ef rem c n = rem - (n - c).toNat := by
  obtain ⟨hU, hMs, hMin⟩ := h
  have hm : (n - c) % 65536 = n - c := by omega
  simp only [loadRemaining, hU, hMs, hMin, u16, hm, ne_eq, not_true_eq_false, if_false]
  repeat' split
  all_goals omega

/-! ### minutes -/

theorem min_deadline (ef e : Nat) (s : Int) (h : IsMinutes ef) : engineDeadline ef e s = some (s + (e : Int) * 60 + 1) := by
  obtain ⟨hU, hMs, hMin⟩ := h
  simp [engineDeadline, hU, hMs, hMin]

/-- stored minutes = ⌈(d − c)/60⌉ (no uint16 overflow: at most 65535). -/
theorem min_write (ef e : Nat) (d c : Int) (h : IsMinutes ef) (hc : c < d) (hov : d - c ≤ 60 * 65535) :
    (writeRemaining ef e (some d) c : Int) = (d - c + 59) / 60 := by
  obtain ⟨hU, hMs, hMin⟩ := h
  simp only [writeRemaining, hU, hMs, Option.getD_some, u16, ne_eq, not_true_eq_false, if_false]
  repeat' split
  all_goals omega

/-- Saturation: more than 65535 minutes left (65535-minute hold journalled in the second of its grant) is stored as 65535. -/
theorem min_write_sat (ef e : Nat) (d c : Int) (h : IsMinutes ef) (hlo : 60 * 65535 < d - c) (hhi : d - c < 60 * 65536) :
    writeRemaining ef e (some d) c = 65535 := by
  obtain ⟨hU, hMs, hMin⟩ := h
  simp only [writeRemaining, hU, hMs, Option.getD_some, u16, ne_eq, not_true_eq_false, if_false]
  repeat' split
  all_goals omega

theorem min_skip (ef rem : Nat) (c n : Int) (h : IsMinutes ef) (hc : 0 ≤ c) (hb : c + rem * 60 < 2 ^ 62) :
    skippedAt ef rem c.toNat n = decide (c + (rem : Int) * 60 ≤ n) := by
  obtain ⟨hU, hMs, hMin⟩ := h
  have : toI64 (c.toNat + rem * 60) = c + (rem : Int) * 60 := by rw [toI64_small _ (by omega)]; omega
  simp [skippedAt, hMs, hMin, this]

/-- elapsed whole minutes as the loader counts them: rounded UP, and at least one. -/
def elapsedMinutes (el : Int) : Int := if el < 60 ∨ el % 60 ≠ 0 then el / 60 + 1 else el / 60

theorem min_load (ef rem : Nat) (c n : Int) (h : IsMinutes ef) (hcn : c ≤ n) (hel : n - c < 60 * 65535) :
    loadRemaining ef rem c n = rem - (elapsedMinutes (n - c)).toNat := by
  obtain ⟨hU, hMs, hMin⟩ := h
  simp only [loadRemaining, hU, hMs, u16, elapsedMinutes, ne_eq, not_true_eq_false, if_false]
  repeat' split
  all_goals omega

/-! ### milliseconds -/

theorem ms_deadline (ef e : Nat) (s : Int) (h : IsMillis ef) : engineDeadline ef e s = some (s + (e / 1000 : Nat) + 1) := by
  obtain ⟨hU, hMs⟩ := h
  simp [engineDeadline, hU, hMs]

theorem ms_write (ef e : Nat) (d : Option Int) (c : Int) (h : IsMillis ef) : writeRemaining ef e d c = e := by
  obtain ⟨hU, hMs⟩ := h
  simp [writeRemaining, hU, hMs]

theorem ms_load (ef e : Nat) (c n : Int) (h : IsMillis ef) : loadRemaining ef e c n = e := by
  obtain ⟨hU, hMs⟩ := h
  simp [loadRemaining, hU, hMs]

theorem ms_skip (ef e : Nat) (c n : Int) (h : IsMillis ef) (hc : 0 ≤ c) (hb : c + e < 2 ^ 62) :
    skippedAt ef e c.toNat n = decide (c + (e / 1000 : Nat) ≤ n) := by
  obtain ⟨hU, hMs⟩ := h
  have hle : e / 1000 ≤ e := Nat.div_le_self e 1000
  have : toI64 (c.toNat + e / 1000) = c + (e / 1000 : Nat) := by rw [toI64_small _ (by omega)]; omega
  simp [skippedAt, hMs, this]

end Slock.Aof
