import Slock.Proofs.Engine2SimInvUse
/-! Simulation stage 2 → stage 1: the SHAPE of the wait queue (`QS`): empty unless `waited`; the cached priority of an entry is the
priority of its record's command (while the record exists); priority mode: sorted by the cached priorities; FIFO mode: all cached
priorities equal; behind the head nothing sits in the holder queue. `QR k k'`: a step that can only shrink the queue. -/
namespace Slock.Sim
open Slock Slock.Engine2
open Slock.Engine (has)

/-- the priority of the request's command NOW -/
def prOf (k : Key) (rid : Nat) : Nat := Engine.cmdPriority (k.getR rid).cmd

structure QS (k : Key) : Prop where
  emp : k.waited = false → k.wait = []
  srt : k.waitPrio = true → (k.wait.map (·.prio)).Pairwise (· ≥ ·)
  eqc : k.waitPrio = false → ∀ e ∈ k.wait, ∀ e' ∈ k.wait, e.prio = e'.prio
  cch : ∀ e ∈ k.wait, k.hasRec e.rid → e.prio = prOf k e.rid
  dj : ∀ e ∈ k.wait.tail, e.rid ∉ k.current.toList ++ k.locks

theorem QS.newKey (n : Nat) : QS (Engine2.newKey n) :=
  ⟨fun _ => rfl, fun _ => by simp [Engine2.newKey], fun _ e he => by simp [Engine2.newKey] at he, fun e he => by simp [Engine2.newKey] at he,
   fun e he => by simp [Engine2.newKey] at he⟩

/-- the queue can only have shrunk; the records of what is left read the same; the holder queue gained nothing that sits behind the head -/
structure QR (k k' : Key) : Prop where
  sub : k'.wait.Sublist k.wait
  emp : k'.waited = false → k'.wait = []
  wp : k'.waitPrio = k.waitPrio
  rcd : ∀ e ∈ k'.wait, k'.hasRec e.rid → k.hasRec e.rid ∧ prOf k' e.rid = prOf k e.rid
  hq : ∀ y ∈ k'.current.toList ++ k'.locks, y ∈ k.current.toList ++ k.locks ∨ y ∉ k'.wait.tail.map (·.rid)

theorem tail_sublist_tail {α : Type} {l' l : List α} (h : l'.Sublist l) : l'.tail.Sublist l.tail := by
  induction h with
  | slnil => exact List.Sublist.refl _
  | cons a h ih =>
    rename_i l1 l2
    cases l1 with
    | nil => exact List.nil_sublist _
    | cons x xs => exact (List.tail_sublist _).trans h
  | cons_cons a h _ => exact h

theorem QS.of_qr {k k' : Key} (h : QS k) (r : QR k k') : QS k' := by
  refine ⟨r.emp, fun hp => ?_, fun hp e he e' he' => ?_, fun e he hh => ?_, fun e he hm => ?_⟩
  · exact (h.srt (r.wp ▸ hp)).sublist (List.Sublist.map _ r.sub)
  · exact h.eqc (r.wp ▸ hp) e (r.sub.subset he) e' (r.sub.subset he')
  · obtain ⟨a, b⟩ := r.rcd e he hh
    rw [b]; exact h.cch e (r.sub.subset he) a
  · rcases r.hq e.rid hm with h1 | h1
    · exact h.dj e ((tail_sublist_tail r.sub).subset he) h1
    · exact h1 (List.mem_map.mpr ⟨e, he, rfl⟩)

theorem QR.trans {a b c : Key} (h1 : QR a b) (h2 : QR b c) : QR a c := by
  refine ⟨h2.sub.trans h1.sub, h2.emp, h2.wp.trans h1.wp, fun e he hh => ?_, fun y hy => ?_⟩
  · obtain ⟨x, y⟩ := h2.rcd e he hh
    obtain ⟨x', y'⟩ := h1.rcd e (h2.sub.subset he) x
    exact ⟨x', y.trans y'⟩
  · rcases h2.hq y hy with h3 | h3
    · rcases h1.hq y h3 with h4 | h4
      · exact Or.inl h4
      · right
        intro hm
        exact h4 ((List.Sublist.map _ (tail_sublist_tail h2.sub)).subset hm)
    · exact Or.inr h3

/-- command of a record: all `QS` reads of it -/
def π2 (r : Rec) : Engine.Cmd := r.cmd
theorem ins_π2 : Ins π2 := ⟨fun _ _ => rfl, fun _ _ => rfl, fun _ _ => rfl, fun _ _ => rfl⟩

/-- same queues, `waited`, mode; every surviving record keeps its command -/
theorem QR.of_pk2 {k k' : Key} (q : k'.queues = k.queues) (hwd : k'.waited = k.waited) (hwp : k'.waitPrio = k.waitPrio)
    (he : k.waited = false → k.wait = []) (p : PKeep π2 k' k) : QR k k' := by
  obtain ⟨q1, q2, q3⟩ := queues_eq q
  refine ⟨by rw [q3]; exact List.Sublist.refl _, fun h => by rw [q3]; exact he (hwd ▸ h), hwp, fun e _ hh => ?_, fun y hy => Or.inl (by rw [← q1, ← q2]; exact hy)⟩
  exact ⟨p.sub e.rid hh, by unfold prOf; exact congrArg Engine.cmdPriority (p.val e.rid hh)⟩

theorem pk2_of_πI {k k' : Key} (p : PKeep πI k' k) : PKeep π2 k' k := ⟨p.sub, fun y hy => congrArg (fun t => t.2.1) (p.val y hy)⟩

theorem QR.of_ik {w w' : W} (d : IK w w') (he : w.k.waited = false → w.k.wait = []) : QR w.k w'.k :=
  QR.of_pk2 d.q d.wd d.wp he (pk2_of_πI d.p)

end Slock.Sim
