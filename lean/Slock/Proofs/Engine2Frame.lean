import Slock.Proofs.Engine2Basic
/-! Stage-2 engine: frame facts — which parts of the working state (`W`: database, key record, replies) each helper
leaves untouched. The value cell is touched ONLY by `W.procData` (the value operation), by the journalling helpers
(they set the cell's `isAof` bit, nothing else) and by `W.removeIfZero` (a reclaimed key record loses its cell). -/
namespace Slock.Engine2
open Slock.Value (Cell getLockData)

/-- the value part of a cell: everything but the journalling bit -/
def vstrip (c : Option Cell) : Option (Bytes × Bytes × Nat) := c.map (fun x => (x.data, x.extra, x.ctype))

theorem getLockData_congr {a b : Option Cell} (h : vstrip a = vstrip b) : getLockData a = getLockData b := by
  cases a with
  | none => cases b with
    | none => rfl
    | some y => simp [vstrip] at h
  | some x => cases b with
    | none => simp [vstrip] at h
    | some y =>
      simp only [vstrip, Option.map_some, Option.some.injEq, Prod.mk.injEq] at h
      simp [getLockData, Cell.hasData, h.1, h.2.2]

theorem vstrip_setAof (c : Cell) (b : Bool) : vstrip (some { c with isAof := b }) = vstrip (some c) := rfl

/-! ### key-record helpers never touch `cell` / `key` -/

@[simp] theorem modRec_cell (k : Key) (rid : Nat) (f : Rec → Rec) : (k.modRec rid f).cell = k.cell := rfl
@[simp] theorem modRec_key (k : Key) (rid : Nat) (f : Rec → Rec) : (k.modRec rid f).key = k.key := rfl
@[simp] theorem modRec_locked (k : Key) (rid : Nat) (f : Rec → Rec) : (k.modRec rid f).locked = k.locked := rfl
@[simp] theorem modRec_waited (k : Key) (rid : Nat) (f : Rec → Rec) : (k.modRec rid f).waited = k.waited := rfl
@[simp] theorem setRec_locked (k : Key) (r : Rec) : (k.setRec r).locked = k.locked := rfl
@[simp] theorem setRec_waited (k : Key) (r : Rec) : (k.setRec r).waited = k.waited := rfl
@[simp] theorem setRec_cell (k : Key) (r : Rec) : (k.setRec r).cell = k.cell := rfl
@[simp] theorem setRec_key (k : Key) (r : Rec) : (k.setRec r).key = k.key := rfl
@[simp] theorem free_cell (k : Key) (rid : Nat) : (k.free rid).cell = k.cell := by unfold Key.free; split <;> rfl
@[simp] theorem free_key (k : Key) (rid : Nat) : (k.free rid).key = k.key := by unfold Key.free; split <;> rfl
@[simp] theorem unrefOnly_cell (k : Key) (rid : Nat) : (k.unrefOnly rid).cell = k.cell := rfl
@[simp] theorem unrefOnly_key (k : Key) (rid : Nat) : (k.unrefOnly rid).key = k.key := rfl
@[simp] theorem unref_cell (k : Key) (rid : Nat) : (k.unref rid).cell = k.cell := by unfold Key.unref; simp only []; split <;> simp
@[simp] theorem unref_key (k : Key) (rid : Nat) : (k.unref rid).key = k.key := by unfold Key.unref; simp only []; split <;> simp

theorem foldl_unref_cell (l : List Nat) (k : Key) : (l.foldl (fun k x => k.unref x) k).cell = k.cell := by
  induction l generalizing k with
  | nil => rfl
  | cons a as ih => simp only [List.foldl_cons]; rw [ih]; simp
theorem foldl_unref_key (l : List Nat) (k : Key) : (l.foldl (fun k x => k.unref x) k).key = k.key := by
  induction l generalizing k with
  | nil => rfl
  | cons a as ih => simp only [List.foldl_cons]; rw [ih]; simp
theorem foldl_unrefW_cell (l : List WEnt) (k : Key) : (l.foldl (fun k x => k.unref x.rid) k).cell = k.cell := by
  induction l generalizing k with
  | nil => rfl
  | cons a as ih => simp only [List.foldl_cons]; rw [ih]; simp
theorem foldl_unrefW_key (l : List WEnt) (k : Key) : (l.foldl (fun k x => k.unref x.rid) k).key = k.key := by
  induction l generalizing k with
  | nil => rfl
  | cons a as ih => simp only [List.foldl_cons]; rw [ih]; simp

@[simp] theorem locksPush_cell (k : Key) (rid : Nat) : (k.locksPush rid).cell = k.cell := by
  unfold Key.locksPush; simp only []
  split
  · rfl
  · split
    · rfl
    · split <;> simp [foldl_unref_cell]
@[simp] theorem locksPush_key (k : Key) (rid : Nat) : (k.locksPush rid).key = k.key := by
  unfold Key.locksPush; simp only []
  split
  · rfl
  · split
    · rfl
    · split <;> simp [foldl_unref_key]

theorem locksSkip_cell (take : Bool) (l : List Nat) (k : Key) : (locksSkip take l k).1.cell = k.cell := by
  induction l generalizing k with
  | nil => rfl
  | cons x rest ih =>
    unfold locksSkip
    split
    · split <;> rfl
    · rw [ih]; simp
theorem locksSkip_key (take : Bool) (l : List Nat) (k : Key) : (locksSkip take l k).1.key = k.key := by
  induction l generalizing k with
  | nil => rfl
  | cons x rest ih =>
    unfold locksSkip
    split
    · split <;> rfl
    · rw [ih]; simp

@[simp] theorem removeLock_cell (k : Key) (rid : Nat) : (k.removeLock rid).cell = k.cell := by
  unfold Key.removeLock; simp only []
  split
  · simp [locksSkip_cell]
  · simp [locksSkip_cell]
@[simp] theorem removeLock_key (k : Key) (rid : Nat) : (k.removeLock rid).key = k.key := by
  unfold Key.removeLock; simp only []
  split
  · simp [locksSkip_key]
  · simp [locksSkip_key]

@[simp] theorem rePush_cell (k : Key) : k.rePush.cell = k.cell := rfl
@[simp] theorem rePush_key (k : Key) : k.rePush.key = k.key := rfl

@[simp] theorem waitPush_cell (k : Key) (e : WEnt) : (k.waitPush e).cell = k.cell := by
  unfold Key.waitPush; simp only []
  split
  · rfl
  · split
    · rfl
    · split
      · rfl
      · split <;> simp [foldl_unrefW_cell]
@[simp] theorem waitPush_key (k : Key) (e : WEnt) : (k.waitPush e).key = k.key := by
  unfold Key.waitPush; simp only []
  split
  · rfl
  · split
    · rfl
    · split
      · rfl
      · split <;> simp [foldl_unrefW_key]

@[simp] theorem addWaitLock_cell (k : Key) (rid : Nat) : (k.addWaitLock rid).cell = k.cell := by
  unfold Key.addWaitLock; simp only [modRec_cell, waitPush_cell]
  split
  · split
    · split <;> simp
    · rfl
  · rfl
@[simp] theorem addWaitLock_key (k : Key) (rid : Nat) : (k.addWaitLock rid).key = k.key := by
  unfold Key.addWaitLock; simp only [modRec_key, waitPush_key]
  split
  · split
    · split <;> simp
    · rfl
  · rfl

theorem waitSkip_cell (l : List WEnt) (k : Key) : (waitSkip l k).1.cell = k.cell := by
  induction l generalizing k with
  | nil => rfl
  | cons e rest ih =>
    unfold waitSkip
    split
    · rw [ih]; simp
    · rfl
theorem waitSkip_key (l : List WEnt) (k : Key) : (waitSkip l k).1.key = k.key := by
  induction l generalizing k with
  | nil => rfl
  | cons e rest ih =>
    unfold waitSkip
    split
    · rw [ih]; simp
    · rfl
@[simp] theorem getWaitLock_cell (k : Key) : k.getWaitLock.1.cell = k.cell := waitSkip_cell _ _
@[simp] theorem getWaitLock_key (k : Key) : k.getWaitLock.1.key = k.key := waitSkip_key _ _

end Slock.Engine2

namespace Slock.Engine2
open Slock.Value (Cell getLockData)

/-! ### … nor `locked` -/
@[simp] theorem free_locked (k : Key) (rid : Nat) : (k.free rid).locked = k.locked := by unfold Key.free; split <;> rfl
@[simp] theorem unrefOnly_locked (k : Key) (rid : Nat) : (k.unrefOnly rid).locked = k.locked := rfl
@[simp] theorem unref_locked (k : Key) (rid : Nat) : (k.unref rid).locked = k.locked := by unfold Key.unref; simp only []; split <;> simp
theorem foldl_unref_locked (l : List Nat) (k : Key) : (l.foldl (fun k x => k.unref x) k).locked = k.locked := by
  induction l generalizing k with
  | nil => rfl
  | cons a as ih => simp only [List.foldl_cons]; rw [ih]; simp
theorem foldl_unrefW_locked (l : List WEnt) (k : Key) : (l.foldl (fun k x => k.unref x.rid) k).locked = k.locked := by
  induction l generalizing k with
  | nil => rfl
  | cons a as ih => simp only [List.foldl_cons]; rw [ih]; simp
@[simp] theorem locksPush_locked (k : Key) (rid : Nat) : (k.locksPush rid).locked = k.locked := by
  unfold Key.locksPush; simp only []
  split
  · rfl
  · split
    · rfl
    · split <;> simp [foldl_unref_locked]
theorem locksSkip_locked (take : Bool) (l : List Nat) (k : Key) : (locksSkip take l k).1.locked = k.locked := by
  induction l generalizing k with
  | nil => rfl
  | cons x rest ih =>
    unfold locksSkip
    split
    · split <;> rfl
    · rw [ih]; simp
@[simp] theorem removeLock_locked (k : Key) (rid : Nat) : (k.removeLock rid).locked = k.locked := by
  unfold Key.removeLock; simp only []
  split
  · simp [locksSkip_locked]
  · simp [locksSkip_locked]
/-! ### … nor `waited` (holder side) -/
@[simp] theorem free_waited (k : Key) (rid : Nat) : (k.free rid).waited = k.waited := by unfold Key.free; split <;> rfl
@[simp] theorem unrefOnly_waited (k : Key) (rid : Nat) : (k.unrefOnly rid).waited = k.waited := rfl
@[simp] theorem unref_waited (k : Key) (rid : Nat) : (k.unref rid).waited = k.waited := by unfold Key.unref; simp only []; split <;> simp
theorem foldl_unref_waited (l : List Nat) (k : Key) : (l.foldl (fun k x => k.unref x) k).waited = k.waited := by
  induction l generalizing k with
  | nil => rfl
  | cons a as ih => simp only [List.foldl_cons]; rw [ih]; simp
theorem foldl_unrefW_waited (l : List WEnt) (k : Key) : (l.foldl (fun k x => k.unref x.rid) k).waited = k.waited := by
  induction l generalizing k with
  | nil => rfl
  | cons a as ih => simp only [List.foldl_cons]; rw [ih]; simp
@[simp] theorem locksPush_waited (k : Key) (rid : Nat) : (k.locksPush rid).waited = k.waited := by
  unfold Key.locksPush; simp only []
  split
  · rfl
  · split
    · rfl
    · split <;> simp [foldl_unref_waited]
theorem locksSkip_waited (take : Bool) (l : List Nat) (k : Key) : (locksSkip take l k).1.waited = k.waited := by
  induction l generalizing k with
  | nil => rfl
  | cons x rest ih =>
    unfold locksSkip
    split
    · split <;> rfl
    · rw [ih]; simp
@[simp] theorem removeLock_waited (k : Key) (rid : Nat) : (k.removeLock rid).waited = k.waited := by
  unfold Key.removeLock; simp only []
  split
  · simp [locksSkip_waited]
  · simp [locksSkip_waited]
@[simp] theorem waitPush_locked (k : Key) (e : WEnt) : (k.waitPush e).locked = k.locked := by
  unfold Key.waitPush; simp only []
  split
  · rfl
  · split
    · rfl
    · split
      · rfl
      · split <;> simp [foldl_unrefW_locked]
@[simp] theorem addWaitLock_locked (k : Key) (rid : Nat) : (k.addWaitLock rid).locked = k.locked := by
  unfold Key.addWaitLock; simp only [modRec_locked, waitPush_locked]
  split
  · split
    · split <;> simp [Key.rePush]
    · rfl
  · rfl
theorem waitSkip_locked (l : List WEnt) (k : Key) : (waitSkip l k).1.locked = k.locked := by
  induction l generalizing k with
  | nil => rfl
  | cons e rest ih =>
    unfold waitSkip
    split
    · rw [ih]; simp
    · rfl
@[simp] theorem getWaitLock_locked (k : Key) : k.getWaitLock.1.locked = k.locked := waitSkip_locked _ _

/-! ### `W` helpers: basic projections -/

@[simp] theorem reply_out (w : W) (c : Cmd) (a b : Nat) (d : Option Bytes) :
    (w.reply c a b d).out = w.out ++ [{ r := Slock.Engine.mkReply c a w.k.locked b, data := d }] := rfl
@[simp] theorem reply_k (w : W) (c : Cmd) (a b : Nat) (d : Option Bytes) : (w.reply c a b d).k = w.k := rfl
@[simp] theorem reply_db (w : W) (c : Cmd) (a b : Nat) (d : Option Bytes) : (w.reply c a b d).db = w.db := rfl
@[simp] theorem reply_gone (w : W) (c : Cmd) (a b : Nat) (d : Option Bytes) : (w.reply c a b d).gone = w.gone := rfl

@[simp] theorem ctr_out (w : W) (f : Counters → Counters) : (w.ctr f).out = w.out := rfl
@[simp] theorem ctr_k (w : W) (f : Counters → Counters) : (w.ctr f).k = w.k := rfl
@[simp] theorem ctr_gone (w : W) (f : Counters → Counters) : (w.ctr f).gone = w.gone := rfl
@[simp] theorem ctr_leader (w : W) (f : Counters → Counters) : (w.ctr f).db.leader = w.db.leader := rfl
@[simp] theorem ctr_aofOut (w : W) (f : Counters → Counters) : (w.ctr f).db.aofOut = w.db.aofOut := rfl
@[simp] theorem ctr_now (w : W) (f : Counters → Counters) : (w.ctr f).db.now = w.db.now := rfl
@[simp] theorem ctr_lockData (w : W) (f : Counters → Counters) : (w.ctr f).lockData = w.lockData := rfl
@[simp] theorem bumpErr_out (w : W) : w.bumpErr.out = w.out := rfl
@[simp] theorem bumpErr_k (w : W) : w.bumpErr.k = w.k := rfl
@[simp] theorem bumpErr_gone (w : W) : w.bumpErr.gone = w.gone := rfl
@[simp] theorem bumpErr_lockData (w : W) : w.bumpErr.lockData = w.lockData := rfl

@[simp] theorem modK_out (w : W) (f : Key → Key) : (w.modK f).out = w.out := rfl
@[simp] theorem modK_k (w : W) (f : Key → Key) : (w.modK f).k = f w.k := rfl
@[simp] theorem modK_db (w : W) (f : Key → Key) : (w.modK f).db = w.db := rfl
@[simp] theorem modK_gone (w : W) (f : Key → Key) : (w.modK f).gone = w.gone := rfl
@[simp] theorem modR_out (w : W) (rid : Nat) (f : Rec → Rec) : (w.modR rid f).out = w.out := rfl
@[simp] theorem modR_k (w : W) (rid : Nat) (f : Rec → Rec) : (w.modR rid f).k = w.k.modRec rid f := rfl
@[simp] theorem modR_db (w : W) (rid : Nat) (f : Rec → Rec) : (w.modR rid f).db = w.db := rfl
@[simp] theorem modR_gone (w : W) (rid : Nat) (f : Rec → Rec) : (w.modR rid f).gone = w.gone := rfl
@[simp] theorem modR_lockData (w : W) (rid : Nat) (f : Rec → Rec) : (w.modR rid f).lockData = w.lockData := rfl
theorem when_true (w : W) (f : W → W) : w.when true f = f w := rfl
theorem when_false (w : W) (f : W → W) : w.when false f = w := rfl

/-! `removeIfZero` -/
@[simp] theorem removeIfZero_out (w : W) : w.removeIfZero.out = w.out := by unfold W.removeIfZero; split <;> rfl
@[simp] theorem removeIfZero_key (w : W) : w.removeIfZero.k.key = w.k.key := by unfold W.removeIfZero; split <;> rfl
@[simp] theorem removeIfZero_locked (w : W) : w.removeIfZero.k.locked = w.k.locked := by unfold W.removeIfZero; split <;> rfl
@[simp] theorem removeIfZero_leader (w : W) : w.removeIfZero.db.leader = w.db.leader := by
  unfold W.removeIfZero; split <;> simp [DB.dropKey]
@[simp] theorem removeIfZero_aofOut (w : W) : w.removeIfZero.db.aofOut = w.db.aofOut := by
  unfold W.removeIfZero; split <;> simp [DB.dropKey]
@[simp] theorem removeIfZero_now (w : W) : w.removeIfZero.db.now = w.db.now := by
  unfold W.removeIfZero; split <;> simp [DB.dropKey]
theorem removeIfZero_gone_mono (w : W) (h : w.gone = true) : w.removeIfZero.gone = true := by
  unfold W.removeIfZero; split <;> simp_all
/-- either nothing happened, or the record was reclaimed and lost its cell -/
theorem removeIfZero_cases (w : W) :
    w.removeIfZero = w ∨ (w.removeIfZero.gone = true ∧ w.removeIfZero.k.cell = none ∧ w.gone = false ∧ w.k.refCount = 0 ∧
      w.removeIfZero.db = w.db.dropKey w.k.key) := by
  unfold W.removeIfZero
  split
  · right; simp_all
  · left; rfl
theorem removeIfZero_of_nonzero (w : W) (h : w.k.refCount ≠ 0) : w.removeIfZero = w := by
  unfold W.removeIfZero
  have : (w.k.refCount == 0) = false := by simpa using h
  simp [this]

/-! `procData`: the only place where the value changes -/
@[simp] theorem procData_out (w : W) (ct : Slock.Value.CmdType) (c : Cmd) (f : Option Bytes) (rid : Nat) :
    (w.procData ct c f rid).out = w.out := by
  unfold W.procData; split
  · rfl
  · simp only []; split <;> rfl
@[simp] theorem procData_gone (w : W) (ct : Slock.Value.CmdType) (c : Cmd) (f : Option Bytes) (rid : Nat) :
    (w.procData ct c f rid).gone = w.gone := by
  unfold W.procData; split
  · rfl
  · simp only []; split <;> rfl
@[simp] theorem procData_key (w : W) (ct : Slock.Value.CmdType) (c : Cmd) (f : Option Bytes) (rid : Nat) :
    (w.procData ct c f rid).k.key = w.k.key := by
  unfold W.procData; split
  · rfl
  · simp only []; split
    · rfl
    · simp only []; split <;> rfl
@[simp] theorem procData_leader (w : W) (ct : Slock.Value.CmdType) (c : Cmd) (f : Option Bytes) (rid : Nat) :
    (w.procData ct c f rid).db.leader = w.db.leader := by
  unfold W.procData; split
  · rfl
  · simp only []; split <;> rfl
@[simp] theorem procData_aofOut (w : W) (ct : Slock.Value.CmdType) (c : Cmd) (f : Option Bytes) (rid : Nat) :
    (w.procData ct c f rid).db.aofOut = w.db.aofOut := by
  unfold W.procData; split
  · rfl
  · simp only []; split <;> rfl
@[simp] theorem procData_now (w : W) (ct : Slock.Value.CmdType) (c : Cmd) (f : Option Bytes) (rid : Nat) :
    (w.procData ct c f rid).db.now = w.db.now := by
  unfold W.procData; split
  · rfl
  · simp only []; split <;> rfl
@[simp] theorem procData_none (w : W) (ct : Slock.Value.CmdType) (c : Cmd) (rid : Nat) : w.procData ct c none rid = w := rfl
@[simp] theorem procData_locked (w : W) (ct : Slock.Value.CmdType) (c : Cmd) (f : Option Bytes) (rid : Nat) :
    (w.procData ct c f rid).k.locked = w.k.locked := by
  unfold W.procData; split
  · rfl
  · simp only []; split
    · rfl
    · simp only []; split <;> rfl

@[simp] theorem procData_waited (w : W) (ct : Slock.Value.CmdType) (c : Cmd) (f : Option Bytes) (rid : Nat) :
    (w.procData ct c f rid).k.waited = w.k.waited := by
  unfold W.procData; split
  · rfl
  · simp only []; split
    · rfl
    · simp only []; split <;> rfl

/-- **the value operation**: the cell after `procData` is `processFrame` of the cell before, with the context of the call site -/
theorem procData_spec (w : W) (ct : Slock.Value.CmdType) (c : Cmd) (f : Bytes) (rid : Nat) (cell' : Option Cell)
    (h : Slock.Value.processFrame (frameCtx w.k ct c) w.k.cell f = .ok cell') :
    (w.procData ct c (some f) rid).k.cell = cell' ∧ (w.procData ct c (some f) rid).db = w.db := by
  unfold W.procData
  simp only [h]
  split <;> simp

/-! journalling: sets `isAof` bits, appends to `aofOut` only on the leader -/
theorem aofLockData_vstrip (k : Key) (b : Bool) (rid : Nat) : vstrip (aofLockData k b rid).1.cell = vstrip k.cell := by
  unfold aofLockData
  split
  · rfl
  · split
    · rename_i c hc
      split
      · simp [vstrip, hc]
      · rfl
    · rfl
@[simp] theorem aofLockData_key (k : Key) (b : Bool) (rid : Nat) : (aofLockData k b rid).1.key = k.key := by
  unfold aofLockData
  split
  · rfl
  · split
    · split <;> rfl
    · rfl
@[simp] theorem aofLockData_locked (k : Key) (b : Bool) (rid : Nat) : (aofLockData k b rid).1.locked = k.locked := by
  unfold aofLockData
  split
  · rfl
  · split
    · split <;> rfl
    · rfl

@[simp] theorem aofLockData_waited (k : Key) (b : Bool) (rid : Nat) : (aofLockData k b rid).1.waited = k.waited := by
  unfold aofLockData
  split
  · rfl
  · split
    · split <;> rfl
    · rfl
@[simp] theorem removeIfZero_waited (w : W) : w.removeIfZero.k.waited = w.k.waited := by unfold W.removeIfZero; split <;> rfl

end Slock.Engine2
