import Slock.Proofs.Engine2Fut
/-! Stage-2 engine: every LOCK / UNLOCK branch, the wake pass and every sweep step are `Ok` steps (wheel entries: gone, unchanged, or fresh). -/
namespace Slock.Engine2
open Slock.Engine (has)

theorem updF_πT (db : DB) (s : Bool) (c : Cmd) (r : Rec) : (updF db s c r).tSched = r.tSched := (updF_fields db s c r).2.2.1
theorem updF_πE (db : DB) (s : Bool) (c : Cmd) (r : Rec) : πE (updF db s c r) = πE r := by
  unfold updF πE
  simp only []
  split <;> split <;> cases r.eSched <;> rfl

namespace Ok
variable {ct ce : Nat} {w0 w : W}

theorem updateLocked (h : Ok ct ce w0 w) (rid : Nat) (c : Cmd) : Ok ct ce w0 (w.updateLocked rid c) := by
  unfold W.updateLocked
  simp only []
  refine Ok.modR_eq ?_ rid (fun r => { r with conn := c.conn }) (by intro _; rfl) (by intro _; rfl) (by intro _; rfl)
  have hf := updF_fields w.db (!(w.k.getR rid).isAof && w.k.current == some rid && w.k.locks.isEmpty) c
  refine Ok.when (h.modR rid _ (fun r => (hf r).1) (fun r => ⟨Step.of_eq (by unfold πT; rw [updF_πT]), Step.of_eq (updF_πE _ _ _ r)⟩)) _ _ ?_
  intro h'
  exact ((h'.removeLongE rid).addExpried rid).ref rid

theorem grantNoHold (h : Ok ct ce w0 w) (rid : Nat) : Ok ct ce w0 (w.grantNoHold rid) := by
  unfold W.grantNoHold
  simp only []
  refine Ok.modR_eq ?_ rid (fun r => { r with data := none }) (by intro _; rfl) (by intro _; rfl) (by intro _; rfl)
  exact Ok.when (h.procData _ _ _ _) _ (·.pushLockAof rid 0) (fun h' => h'.pushLockAof rid 0)

theorem newLock (h : Ok ct ce w0 w) (c : Cmd) (d : Option Bytes) : Ok ct ce w0 (w.newLock c d).1 :=
  h.key rfl rfl (KS.addRec w.k _ rfl rfl)

theorem addLock (h : Ok ct ce w0 w) (rid : Nat) : Ok ct ce w0 (w.addLock rid) := by
  unfold W.addLock
  have hf := addLockF_fields w.db w.k
  exact h.modK_pk _ (PKeep.addLock ins_πT w.k rid _ (fun r => (hf r).1) (fun r => by unfold πT; rw [(hf r).2.2.2.1]))
    (PKeep.addLock ins_πE w.k rid _ (fun r => (hf r).1) (fun r => by unfold πE; rw [(hf r).2.2.1]))

theorem grant (h : Ok ct ce w0 w) (rid : Nat) : Ok ct ce w0 (w.grant rid) := by
  unfold W.grant
  simp only []
  have h1 := (h.addLock rid).modK_recs incLocked rfl
  have h2 := h1.procData .lock (((w.addLock rid).modK incLocked).k.getR rid).cmd
    (frameOf (((w.addLock rid).modK incLocked).k.getR rid).cmd (((w.addLock rid).modK incLocked).k.getR rid).data) rid
  have h3 := h2.modR_eq rid (fun r => { r with data := none }) (by intro _; rfl) (by intro _; rfl) (by intro _; rfl)
  exact ((((h3.addExpried rid).ref rid).ctr _).reply _ _ _ _)

theorem wakeOne (h : Ok ct ce w0 w) (rid : Nat) : Ok ct ce w0 (w.wakeOne rid) := by
  unfold W.wakeOne
  simp only []
  have h2 := ((h.modR_eq rid (fun r => { r with timeouted := true }) (by intro _; rfl) (by intro _; rfl) (by intro _; rfl)).dropLongT rid).ctr
    (fun c => { c with waitCount := c.waitCount - 1 })
  split
  · exact h2.grant rid
  · exact ((h2.grantNoHold rid).ctr _).reply _ _ _ _

theorem wakePass (fuel : Nat) (h : Ok ct ce w0 w) : Ok ct ce w0 (W.wakePass fuel w) := by
  induction fuel generalizing w with
  | zero => exact h
  | succ n ih =>
    unfold W.wakePass
    simp only []
    have h1 := h.modK_pk (·.getWaitLock.1) (PKeep.getWaitLock ins_πT _) (PKeep.getWaitLock ins_πE _)
    split
    · exact (h1.modK_recs clearWaited rfl).removeIfZero
    · split
      · exact h1
      · exact ih (h1.wakeOne _)

theorem wake (h : Ok ct ce w0 w) : Ok ct ce w0 w.wake := by
  unfold W.wake
  exact h.when _ _ (fun h' => h'.wakePass _)

theorem bumpErr (h : Ok ct ce w0 w) : Ok ct ce w0 w.bumpErr := h.ctr _

end Ok

/-! ### whole branches -/

theorem ok_enter {ct ce : Nat} (db : DB) (n : Nat) (h1 : ct < db.tCheck) (h2 : ce < db.eCheck) : Ok ct ce (db.openKey n) (db.enter n) := by
  obtain ⟨_, _, _, _, _, _, c1, c2, _⟩ := create_fields db n
  refine ⟨by rw [enter_db, c1]; exact h1, by rw [enter_db, c2]; exact h2, ?_, by rw [enter_db, c1]; rfl, by rw [enter_db, c2]; rfl⟩
  rw [enter_k]; exact KS.refl _ _ _

theorem applyLock_ok {ct ce : Nat} (db : DB) (h1 : ct < db.tCheck) (h2 : ce < db.eCheck) (c : Cmd) (data : Option Bytes) (b : LockBranch) :
    Ok ct ce (db.openKey c.key) (applyLock db c data b) := by
  have ho : Ok ct ce (db.openKey c.key) (db.openKey c.key) := Ok.refl h1 h2
  have he := ok_enter (ct := ct) (ce := ce) db c.key h1 h2
  cases b with
  | p0a => exact ho.reply _ _ _ _
  | p0b => exact ho.key rfl rfl (KS.refl _ _ _)
  | stateError => exact he.removeIfZero.reply _ _ _ _
  | «show» cur => exact he.reply _ _ _ _
  | updateEqual h => exact he.reply _ _ _ _
  | updateEqualData h => exact (he.procData _ _ _ _).reply _ _ _ _
  | update h =>
    simp only [applyLock]
    exact ((((he.procData _ _ _ _).updateLocked h _).when _ _ (fun h' => h'.journalLock h AOF_UPDATED)).reply _ _ _ _).wake
  | relockNoHold h => exact he.reply _ _ _ _
  | relock h =>
    simp only [applyLock]
    exact (((((((he.modR_eq h (fun r => { r with depth := r.depth + 1 }) (by intro _; rfl) (by intro _; rfl) (by intro _; rfl)).modK_recs incLocked rfl).procData
      _ _ _ _).updateLocked h c).journalLock h AOF_UPDATED).ctr _).reply _ _ _ _).wake
  | relockRefused h => exact he.reply _ _ _ _
  | unlockedWaitRefused => exact he.reply _ _ _ _
  | grant =>
    simp only [applyLock]
    exact ((he.newLock c data).grant _).when _ _ (fun h' => h'.wake)
  | grantNoHold =>
    simp only [applyLock]
    exact (((((he.newLock c data).grantNoHold _).freeCheck _).ctr _).reply _ _ _ _).when _ _ (fun h' => h'.wake)
  | queue =>
    simp only [applyLock]
    exact ((((he.newLock c data).modK_pk (·.addWaitLock _) (PKeep.addWaitLock ins_πT _ _) (PKeep.addWaitLock ins_πE _ _)).addTimeOut _).ref _).ctr _
  | timeout =>
    simp only [applyLock]
    exact ((he.newLock c data).freeCheck _).reply _ _ _ _

theorem applyUnlock_ok {ct ce : Nat} (db : DB) (h1 : ct < db.tCheck) (h2 : ce < db.eCheck) (c : Cmd) (data : Option Bytes) (b : UnlockBranch) :
    Ok ct ce (db.openKey c.key) (applyUnlock db c data b) := by
  have ho : Ok ct ce (db.openKey c.key) (db.openKey c.key) := Ok.refl h1 h2
  cases b with
  | noManager => exact ho.bumpErr.key rfl rfl (KS.refl _ _ _)
  | stateError | notLocked | unown | cancelNone => exact ho.bumpErr.reply _ _ _ _
  | cancel x =>
    simp only [applyUnlock]
    exact ((((((((ho.modR_eq x (fun r => { r with timeouted := true }) (by intro _; rfl) (by intro _; rfl) (by intro _; rfl)).dropLongT x).modK_pk (·.settleWait)
      (PKeep.settleWait ins_πT _) (PKeep.settleWait ins_πE _)).ctr _).removeIfZero).ctr _).reply _ _ _ _).reply _ _ _ _).wake
  | dec h c' =>
    simp only [applyUnlock]
    exact ((((((ho.modR_eq h (fun r => { r with depth := r.depth - 1 }) (by intro _; rfl) (by intro _; rfl) (by intro _; rfl)).modK_recs
      (fun k => { k with locked := k.locked - 1 }) rfl).procData _ _ _ _).journalUnlock h _ true AOF_UPDATED).ctr _).reply _ _ _ _).wake
  | release h c' =>
    simp only [applyUnlock]
    exact (((((((((ho.modR_eq h (fun r => { r with expried := true }) (by intro _; rfl) (by intro _; rfl) (by intro _; rfl)).modK_recs
      (fun k => { k with locked := k.locked - ((db.openKey c.key).k.getR h).depth }) rfl).procData _ _ _ _).dropLongE h).journalUnlock h _ false 0).modK_pk
      (·.removeLock h) (PKeep.removeLock ins_πT (fun _ _ => rfl) _ h) (PKeep.removeLock ins_πE (fun _ _ => rfl) _ h)).when _ _
      (fun h' => h'.freeCheck h)).ctr _).reply _ _ _ _).wake

end Slock.Engine2
