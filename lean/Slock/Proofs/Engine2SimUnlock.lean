import Slock.Proofs.Engine2SimLock
import Slock.Proofs.Engine2SimSc
/-! Simulation stage 2 → stage 1: UNLOCK, one level of a re-entrant hold (`dec`); the edit of one holder record in general. -/
namespace Slock.Sim
open Slock Slock.Engine2
open Slock.Engine (has)

/-- the common end of an UNLOCK branch -/
theorem sim_unlock_finish (s : DB) (hq : DBQ s) (c : Engine.Cmd) (data : Option Bytes) (b : UnlockBranch) (a1 : Engine.DB) (k' : Engine.Key)
    (hkeys : a1.keys = (Engine2.abs s).keys) (hk' : k'.key = c.key) (hsc : Scal a1 (applyUnlock s c data b).db)
    (hloc : Loc (applyUnlock s c data b) k') (hcls : classifyUnlock s c = b) :
    Equiv (Engine2.abs (applyUnlock s c data b).commit) (a1.setKey k') := by
  have hdbi := hq.dbt.dbi
  have hkn' := (opUnlock_dbi s hdbi c data).kn
  unfold opUnlock at hkn'
  simp only [] at hkn'
  rw [hcls] at hkn'
  have f := applyUnlock_fr s c data b
  have hs := (hdbi.openKey c.key).of_fr f
  refine sim_commit s c.key _ _ f (getKey_key _ _) (fun _ _ => rfl) hs hdbi.kn hkn' a1 k' hk' ?_ hsc.now hsc.tCheck hsc.eCheck
    hsc.seq hsc.leader hsc.ctr hloc
  intro n
  unfold Engine.DB.getKey
  rw [hkeys]

theorem scal_openKey (s : DB) (n : Nat) : Scal (Engine2.abs s) (s.openKey n).db := ⟨rfl, rfl, rfl, rfl, rfl, rfl⟩

/-- **the edit of one live holder record** (a step that keeps the queues and every other record's stage-1 view): stage 1's
`replaceHolder` of that hold, given that the live holds are pairwise distinct -/
theorem abs_edit_holder {k k' : Key} (h : Nat) (hk : k'.key = k.key) (hw : k'.waited = k.waited) (q : k'.queues = k.queues)
    (p : PKeepX πA (· = h) k' k) (pt : PKeep (·.timeouted) k' k)
    (hrec : ∀ y ∈ k.current.toList ++ k.locks ++ k.wait.map (·.rid), k'.hasRec y)
    (hm : h ∈ k.current.toList ++ k.locks) (hl : k.liveHolder h = true) (hl' : k'.liveHolder h = true)
    (sep : ∀ e ∈ k.wait, k.deadWaiter e.rid = false → e.rid ∉ k.current.toList ++ k.locks)
    (hnd : (Key.abs k).holders.Nodup) :
    Key.abs k' = { Key.abs k with holders := Engine.replaceHolder (Key.abs k).holders (holdOf k h) (holdOf k' h), locked := k'.locked } := by
  obtain ⟨q1, q2, q3⟩ := queues_eq q
  have hv : ∀ y ∈ k.current.toList ++ k.locks ++ k.wait.map (·.rid), y ≠ h → πA (k'.getR y) = πA (k.getR y) :=
    fun y hy hne => p.val y hne (hrec y hy)
  refine abs_ext hk (show (Key.abs k').locked = k'.locked from rfl) ?_ ?_ hw
  · show (Key.abs k').holders = Engine.replaceHolder (Key.abs k).holders (holdOf k h) (holdOf k' h)
    rw [abs_holders] at hnd ⊢
    rw [abs_holders, q1, q2]
    have hf : (k.current.toList ++ k.locks).filter (fun x => k'.liveHolder x) = (k.current.toList ++ k.locks).filter (fun x => k.liveHolder x) := by
      apply List.filter_congr
      intro x hx
      by_cases e : x = h
      · rw [e, hl, hl']
      · unfold Key.liveHolder
        have : (k'.getR x).depth = (k.getR x).depth := congrArg (fun t => t.1.depth) (hv x (List.mem_append_left _ hx) e)
        rw [this]
    rw [hf]
    refine (replaceHolder_map _ (holdOf k) (holdOf k') h (List.mem_filter.mpr ⟨hm, hl⟩) hnd ?_).symm
    intro y hy hne
    exact congrArg (fun t => t.1) (hv y (List.mem_append_left _ (List.mem_filter.mp hy).1) hne)
  · show (Key.abs k').waiters = (Key.abs k).waiters
    rw [abs_waiters, abs_waiters, q3]
    apply filter_map_congr_on
    intro y hy
    have hyr := hrec y (List.mem_append_right _ hy)
    have ht : k'.deadWaiter y = k.deadWaiter y := pt.val y hyr
    refine ⟨by rw [ht], fun hlive => ?_⟩
    have hne : y ≠ h := by
      intro e
      obtain ⟨x, hx, hxe⟩ := List.mem_map.mp hy
      have hd : k.deadWaiter x.rid = false := by
        rw [hxe]
        cases hdd : k.deadWaiter y with
        | false => rfl
        | true => rw [hdd] at hlive; simp at hlive
      exact sep x hx hd (by rw [hxe, e]; exact hm)
    exact congrArg (fun t => t.2.1) (hv y (List.mem_append_right _ hy) hne)

def keyDec (k : Engine.Key) (h : Engine.Hold) : Engine.Key :=
  { k with holders := Engine.replaceHolder k.holders h { h with depth := h.depth - 1 }, locked := k.locked - 1 }
def ctrDec (x : Engine.Counters) : Engine.Counters := { x with unLockCount := x.unLockCount + 1, lockedCount := x.lockedCount - 1 }

theorem mem_abs_holders {k : Key} {h : Nat} (hm : h ∈ k.current.toList ++ k.locks) (hl : k.liveHolder h = true) :
    holdOf k h ∈ (Key.abs k).holders := by
  rw [abs_holders]
  exact List.mem_map.mpr ⟨h, List.mem_filter.mpr ⟨hm, hl⟩, rfl⟩

/-- **UNLOCK of one level of a re-entrant hold**, then the wake pass -/
theorem sim_unlock_dec (s : DB) (hq : DBQ s) (c : Engine.Cmd) (data : Option Bytes) (h : Nat) (c' : Engine.Cmd)
    (hcls : classifyUnlock s c = .dec h c')
    (hwq : WQ (s.getKey c.key)) (hki : Engine.KeyInv (Key.abs (s.getKey c.key))) (hnd : (Key.abs (s.getKey c.key)).holders.Nodup)
    (m m' : Bool) :
    Equiv (Engine2.abs (applyUnlock s c data (.dec h c')).commit)
      (Engine.applyUnlock (Engine2.abs s) { c with mgr := m } (.dec (holdOf (s.getKey c.key) h) { c' with mgr := m' })).1 ∧
    (applyUnlock s c data (.dec h c')).out.map (·.r) =
      (Engine.applyUnlock (Engine2.abs s) { c with mgr := m } (.dec (holdOf (s.getKey c.key) h) { c' with mgr := m' })).2 := by
  have hdbi := hq.dbt.dbi
  have ht := hq.dbt.tight
  have hkabs := abs_getKey s hdbi.kn c.key
  have ge := Good.openKey hdbi ht c.key
  have le := ge.lv
  have ce := cur_openKey ht c.key
  have hm : h ∈ (s.openKey c.key).k.current.toList ++ (s.openKey c.key).k.locks := classifyUnlock_holder s c h (by rw [hcls]; rfl)
  have hd : 1 < ((s.openKey c.key).k.getR h).depth := classifyUnlock_dec_depth s c c' h hcls
  have hh := hasRec_of_holder le h hm
  have hgone0 : (s.openKey c.key).gone = false := by
    cases hg : (s.openKey c.key).gone with
    | false => rfl
    | true =>
      have hk : s.hasKey c.key = false := by simpa [DB.openKey] using hg
      have : (s.openKey c.key).k.recs = [] := by
        show (s.getKey c.key).recs = []
        rw [getKey_of_not_hasKey s c.key hk]; rfl
      exact absurd this (recs_ne_of_hasRec hh)
  -- the chain of `applyUnlock_tight`
  have l1 : Lv ((s.openKey c.key).modR h (fun r => { r with depth := r.depth - 1 })) zero :=
    le.modR_plain h _ (fun _ => rfl) (fun _ => rfl) (fun _ => rfl) (fun _ => rfl) (fun _ => rfl)
  have n1 : Nz ((s.openKey c.key).modR h (fun r => { r with depth := r.depth - 1 })) none :=
    ge.nz.modR_at h _ (fun _ => rfl) (fun _ hf => ⟨hf.pos, fun _ => hf.hold (by omega), fun hx => by
      have := hf.ended hx; simp only []; omega, fun hz => by simp only [] at hz; omega⟩)
  have c1 : CurLive ((s.openKey c.key).modR h (fun r => { r with depth := r.depth - 1 })).k :=
    ce.modDepth h _ (fun _ => rfl) hh (by simp only []; omega)
  have hh1 : ((s.openKey c.key).modR h (fun r => { r with depth := r.depth - 1 })).k.hasRec h := (hasRec_modR _ h h _ (by intro _; rfl)).mpr hh
  have g2 : Good (((s.openKey c.key).modR h (fun r => { r with depth := r.depth - 1 })).modK (fun k => { k with locked := k.locked - 1 })) :=
    ⟨l1.modK _ (l1.rc.transfer rfl rfl (fun _ => rfl)) (RecsLe.of_eq rfl), n1.modK_eq _ rfl⟩
  have c2 : CurLive (((s.openKey c.key).modR h (fun r => { r with depth := r.depth - 1 })).modK (fun k => { k with locked := k.locked - 1 })).k := c1
  have g3 := g2.of_up (g2.lv.procData .unlock c' (frameOf c' data) h) (up_procData _ _ _ _ _)
  have c3 := c2.of_dk (dk_procData _ .unlock c' (frameOf c' data) h) g3.lv
  have hh3 := (keep_procData (((s.openKey c.key).modR h (fun r => { r with depth := r.depth - 1 })).modK (fun k => { k with locked := k.locked - 1 }))
    .unlock c' (frameOf c' data) h h).1.mpr hh1
  have g4 := g3.of_up (g3.lv.journalUnlock h (has c'.flag Slock.Engine.F_FROM_AOF) true AOF_UPDATED) (up_journalUnlock _ _ _ _ _)
  have c4 := c3.of_dk (dk_journalUnlock _ h (has c'.flag Slock.Engine.F_FROM_AOF) true AOF_UPDATED) g4.lv
  have hh4 := (hasRec_of_ids (ids_journalUnlock _ h (has c'.flag Slock.Engine.F_FROM_AOF) true AOF_UPDATED) h).mpr hh3
  have sx : SX (· = h) (s.openKey c.key) (((((s.openKey c.key).modR h (fun r => { r with depth := r.depth - 1 })).modK (fun k => { k with locked := k.locked - 1 })).procData .unlock c' (frameOf c' data) h).journalUnlock h (has c'.flag Slock.Engine.F_FROM_AOF) true AOF_UPDATED) :=
    ((((SX.refl (X := (· = h)) (s.openKey c.key)).modR_in h (fun r => { r with depth := r.depth - 1 }) (by intro _; rfl) rfl).modK_same
      (fun k => { k with locked := k.locked - 1 }) rfl rfl rfl rfl).procData .unlock c' (frameOf c' data) h).journalUnlock h _ true AOF_UPDATED
  have pt : PK (·.timeouted) (((((s.openKey c.key).modR h (fun r => { r with depth := r.depth - 1 })).modK (fun k => { k with locked := k.locked - 1 })).procData .unlock c' (frameOf c' data) h).journalUnlock h (has c'.flag Slock.Engine.F_FROM_AOF) true AOF_UPDATED) (s.openKey c.key) :=
    (pk_journalUnlock ins_timeouted _ h _ true AOF_UPDATED).trans ((pk_procData ins_timeouted _ .unlock c' (frameOf c' data) h).trans
      ((pk_modK ((s.openKey c.key).modR h (fun r => { r with depth := r.depth - 1 })) (fun k => { k with locked := k.locked - 1 }) (PKeep.of_eq rfl)).trans (pk_modR (π := (·.timeouted)) (s.openKey c.key) h _ (by intro _; rfl) (by intro _; rfl))))
  have pa : PK πA (((((s.openKey c.key).modR h (fun r => { r with depth := r.depth - 1 })).modK (fun k => { k with locked := k.locked - 1 })).procData .unlock c' (frameOf c' data) h).journalUnlock h (has c'.flag Slock.Engine.F_FROM_AOF) true AOF_UPDATED) (((s.openKey c.key).modR h (fun r => { r with depth := r.depth - 1 })).modK (fun k => { k with locked := k.locked - 1 })) :=
    (pk_journalUnlock ins_πA _ h _ true AOF_UPDATED).trans (pk_procData ins_πA _ .unlock c' (frameOf c' data) h)
  have sc : SC (s.openKey c.key) (((((s.openKey c.key).modR h (fun r => { r with depth := r.depth - 1 })).modK (fun k => { k with locked := k.locked - 1 })).procData .unlock c' (frameOf c' data) h).journalUnlock h (has c'.flag Slock.Engine.F_FROM_AOF) true AOF_UPDATED) :=
    (((SC.modR _ _ _).trans (SC.modK _ _)).trans (SC.procData _ _ _ _ _)).trans (SC.journalUnlock _ _ _ _ _)
  have hlk : (((((s.openKey c.key).modR h (fun r => { r with depth := r.depth - 1 })).modK (fun k => { k with locked := k.locked - 1 })).procData .unlock c' (frameOf c' data) h).journalUnlock h (has c'.flag Slock.Engine.F_FROM_AOF) true AOF_UPDATED).k.locked = (s.getKey c.key).locked - 1 := by
    rw [(FQ.journalUnlock _ _ _ _ _).qt.locked, procData_locked]; rfl
  have hl0 : (s.openKey c.key).k.liveHolder h = true := by unfold Key.liveHolder; simp only [decide_eq_true_eq]; omega
  have hrj : (((((s.openKey c.key).modR h (fun r => { r with depth := r.depth - 1 })).modK (fun k => { k with locked := k.locked - 1 })).procData .unlock c' (frameOf c' data) h).journalUnlock h (has c'.flag Slock.Engine.F_FROM_AOF) true AOF_UPDATED).k.getR h = (((((s.openKey c.key).modR h (fun r => { r with depth := r.depth - 1 })).modK (fun k => { k with locked := k.locked - 1 })).procData .unlock c' (frameOf c' data) h).journalUnlock h (has c'.flag Slock.Engine.F_FROM_AOF) true AOF_UPDATED).k.getR h := rfl
  have hπ : πA ((((((s.openKey c.key).modR h (fun r => { r with depth := r.depth - 1 })).modK (fun k => { k with locked := k.locked - 1 })).procData .unlock c' (frameOf c' data) h).journalUnlock h (has c'.flag Slock.Engine.F_FROM_AOF) true AOF_UPDATED).k.getR h) = πA ({ ((s.openKey c.key).k.getR h) with depth := ((s.openKey c.key).k.getR h).depth - 1 } : Rec) := by
    have := pa.val h hh4
    rw [this]
    show πA (((s.openKey c.key).k.modRec h (fun r => { r with depth := r.depth - 1 })).getR h) = _
    rw [getR_modRec_same _ _ _ (by intro _; rfl) hh]
  have hhold : holdOf (((((s.openKey c.key).modR h (fun r => { r with depth := r.depth - 1 })).modK (fun k => { k with locked := k.locked - 1 })).procData .unlock c' (frameOf c' data) h).journalUnlock h (has c'.flag Slock.Engine.F_FROM_AOF) true AOF_UPDATED).k h = { holdOf (s.getKey c.key) h with depth := (holdOf (s.getKey c.key) h).depth - 1 } := by
    have := congrArg (fun t => t.1) hπ
    exact this
  have hlj : (((((s.openKey c.key).modR h (fun r => { r with depth := r.depth - 1 })).modK (fun k => { k with locked := k.locked - 1 })).procData .unlock c' (frameOf c' data) h).journalUnlock h (has c'.flag Slock.Engine.F_FROM_AOF) true AOF_UPDATED).k.liveHolder h = true := by
    have : ((((((s.openKey c.key).modR h (fun r => { r with depth := r.depth - 1 })).modK (fun k => { k with locked := k.locked - 1 })).procData .unlock c' (frameOf c' data) h).journalUnlock h (has c'.flag Slock.Engine.F_FROM_AOF) true AOF_UPDATED).k.getR h).depth = ((s.openKey c.key).k.getR h).depth - 1 := congrArg (fun t => t.1.depth) hπ
    unfold Key.liveHolder; rw [this]; simp only [decide_eq_true_eq]; omega
  have hrecj : ∀ y ∈ (s.openKey c.key).k.current.toList ++ (s.openKey c.key).k.locks ++ (s.openKey c.key).k.wait.map (·.rid), (((((s.openKey c.key).modR h (fun r => { r with depth := r.depth - 1 })).modK (fun k => { k with locked := k.locked - 1 })).procData .unlock c' (frameOf c' data) h).journalUnlock h (has c'.flag Slock.Engine.F_FROM_AOF) true AOF_UPDATED).k.hasRec y := by
    intro y hy
    apply g4.lv.rc.dang
    have := qRefs_pos_of_any _ y hy
    have h0 := qRefs_of_queues sx.q y
    show 0 < ((((((s.openKey c.key).modR h (fun r => { r with depth := r.depth - 1 })).modK (fun k => { k with locked := k.locked - 1 })).procData .unlock c' (frameOf c' data) h).journalUnlock h (has c'.flag Slock.Engine.F_FROM_AOF) true AOF_UPDATED).k.qRefs y : Int) + 0
    omega
  have habsj : Key.abs (((((s.openKey c.key).modR h (fun r => { r with depth := r.depth - 1 })).modK (fun k => { k with locked := k.locked - 1 })).procData .unlock c' (frameOf c' data) h).journalUnlock h (has c'.flag Slock.Engine.F_FROM_AOF) true AOF_UPDATED).k = keyDec (Key.abs (s.getKey c.key)) (holdOf (s.getKey c.key) h) := by
    rw [abs_edit_holder h sx.key sx.waited sx.q sx.p pt hrecj hm hl0 hlj hwq.sep hnd, hhold, hlk]
    rfl
  obtain ⟨q1, q2, q3⟩ := queues_eq sx.q
  have cnj : CurNone (((((s.openKey c.key).modR h (fun r => { r with depth := r.depth - 1 })).modK (fun k => { k with locked := k.locked - 1 })).procData .unlock c' (frameOf c' data) h).journalUnlock h (has c'.flag Slock.Engine.F_FROM_AOF) true AOF_UPDATED).k := (qi_getKey hq.qi c.key).cn.of_cl q1 q2
  have hwqj : WQ (((((s.openKey c.key).modR h (fun r => { r with depth := r.depth - 1 })).modK (fun k => { k with locked := k.locked - 1 })).procData .unlock c' (frameOf c' data) h).journalUnlock h (has c'.flag Slock.Engine.F_FROM_AOF) true AOF_UPDATED).k := by
    refine WQ.step (k := (s.getKey c.key)) hwq h q3 sx.p (wait_hasRec g4.lv) ?_ (fun y hy => Or.inl (by show y ∈ (s.openKey c.key).k.current.toList ++ (s.openKey c.key).k.locks; rw [← q1, ← q2]; exact hy))
    intro x hx hxe
    have hx0 : x ∈ (s.openKey c.key).k.wait := by rw [← q3]; exact hx
    have : (s.getKey c.key).deadWaiter h = true := by
      cases hdd : (s.getKey c.key).deadWaiter h with
      | true => rfl
      | false => exact absurd hm (hxe ▸ hwq.sep x hx0 (by rw [hxe]; exact hdd))
    exact (pt.val h hh4).trans this
  have hmem1 := mem_abs_holders hm hl0
  have hd1 : 1 < (holdOf (s.getKey c.key) h).depth := hd
  have relj : Rel (((((s.openKey c.key).modR h (fun r => { r with depth := r.depth - 1 })).modK (fun k => { k with locked := k.locked - 1 })).procData .unlock c' (frameOf c' data) h).journalUnlock h (has c'.flag Slock.Engine.F_FROM_AOF) true AOF_UPDATED) (Engine2.abs s) (keyDec (Key.abs (s.getKey c.key)) (holdOf (s.getKey c.key) h)) [] :=
    Rel.of_live (sc.gone.trans hgone0) (sc.scal (scal_openKey s c.key)) (by rw [sc.out]; rfl) (Engine.dec_inv hki hmem1 hd1)
      ⟨g4, c4, cnj, hwqj, habsj⟩
  have rel5 := (relj.ctr ctrDec).reply c' Engine.RESULT_SUCCED (((((((s.openKey c.key).modR h (fun r => { r with depth := r.depth - 1 })).modK (fun k => { k with locked := k.locked - 1 })).procData .unlock c' (frameOf c' data) h).journalUnlock h (has c'.flag Slock.Engine.F_FROM_AOF) true AOF_UPDATED).ctr ctrDec).k.getR h).depth (((s.openKey c.key).modR h (fun r => { r with depth := r.depth - 1 })).modK (fun k => { k with locked := k.locked - 1 })).lockData
  obtain ⟨r1, r2, r3⟩ := rel5.wake
  have hfin := sim_unlock_finish s hq c data (.dec h c') _ _ (by rw [Engine.wake_keys]) (by rw [Engine.wake_key]; exact getKey_key _ _) r1 r2 hcls
  have hdep : (((((((s.openKey c.key).modR h (fun r => { r with depth := r.depth - 1 })).modK (fun k => { k with locked := k.locked - 1 })).procData .unlock c' (frameOf c' data) h).journalUnlock h (has c'.flag Slock.Engine.F_FROM_AOF) true AOF_UPDATED).ctr ctrDec).k.getR h).depth = (holdOf (s.getKey c.key) h).depth - 1 := congrArg (fun t => t.1.depth) hπ
  rw [hdep] at hfin
  unfold Engine.applyUnlock
  simp only []
  rw [hkabs]
  refine ⟨hfin, Eq.trans r3 ?_⟩
  rw [hdep]
  rfl

end Slock.Sim
