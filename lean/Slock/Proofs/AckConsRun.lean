import Slock.Proofs.AckKOps4
/-! M-ACK: the balance for journal delivery, reports and demotion; for every event; for every run. The one place where the balance needs
more than the record-local invariant `QR` is the delivery of a LOCK record to the leader: `ProcessLeaderPushLock` arms the counter of the
lock it points at, which keeps the balance only if that lock is dead or still waiting for it — `InvK.kj`, part of the counting invariant. -/
namespace Slock.Ack

theorem opPush_cons (x : Rid) {db : DB} (ha : InvA db) (hk : InvK db) (hq : InvQ db) (k : Nat) (werr : Bool) :
    InvQ (opPush db k werr).1 ∧ answered x (opPush db k werr).2 + openN x (opPush db k werr).1 = openN x db := by
  rw [opPush_eq]
  split
  · exact ⟨hq, by simp⟩
  · rename_i j hj
    have hjm : j ∈ db.journal := List.mem_of_find?_eq_some hj
    have ha1 := ha.popJ k
    have hq1 := hq.popJ k
    have eo : openN x (popJ db k) = openN x db := openN_frame x rfl
    split
    · exact ⟨hq1, by simp; exact eo⟩
    · rename_i hid hh
      have hgr : ∀ a, (popJ db k).getR a = db.getR a := fun a => getR_frame rfl a
      have h2 : InvA (if (popJ db k).leader = true then (if j.isLock = true then leaderPushLock (popJ db k) (popJ db k).nextId hid
            else leaderPushUnLock (popJ db k) hid) else (popJ db k, [])).1 ∧
          InvQ (if (popJ db k).leader = true then (if j.isLock = true then leaderPushLock (popJ db k) (popJ db k).nextId hid
            else leaderPushUnLock (popJ db k) hid) else (popJ db k, [])).1 ∧
          answered x (if (popJ db k).leader = true then (if j.isLock = true then leaderPushLock (popJ db k) (popJ db k).nextId hid
            else leaderPushUnLock (popJ db k) hid) else (popJ db k, [])).2 +
          openN x (if (popJ db k).leader = true then (if j.isLock = true then leaderPushLock (popJ db k) (popJ db k).nextId hid
            else leaderPushUnLock (popJ db k) hid) else (popJ db k, [])).1 = openN x db := by
        split
        · rename_i hl
          split
          · rename_i hil
            have hjr := ha.jrn j hjm hil hid hh
            have := leaderPushLock_cons x ha1 hq1 (popJ db k).nextId hid (fun _ hd => by rw [hgr] at hd ⊢; exact hk.pushGuard hjm hil hh hd)
            exact ⟨ha1.leaderPushLock _ _ hjr.1 (by rw [hgr]; exact hjr.2), this.1, by rw [this.2]; exact eo⟩
          · have := leaderPushUnLock_cons x ha1 hq1 hid
            exact ⟨ha1.leaderPushUnLock _, this.1, by rw [this.2]; exact eo⟩
        · exact ⟨ha1, hq1, by simp; exact eo⟩
      dsimp only
      split
      · have := ackDone_cons x h2.1 h2.2.1 hid false
        exact ⟨this.1, by dsimp only; rw [answered_append]; have := this.2; have := h2.2.2; omega⟩
      · exact ⟨h2.2.1, h2.2.2⟩

/-- `DoAckLock(lock, true)` on a pending record needs only distinct identities (no wake pass is started) -/
theorem ackDone_true_cons (x : Rid) {db : DB} (hn : (db.recs.map (·.hid)).Nodup) (hq : InvQ db) (hid : Nat) (hp : (db.getR hid).pending = true) :
    InvQ (ackDone db hid true).1 ∧ answered x (ackDone db hid true).2 + openN x (ackDone db hid true).1 = openN x db := by
  unfold ackDone
  have hqr := hq.getR hid
  have hpr := present_of (Or.inl hp)
  have hnq := not_queued_of_pending hqr hp
  have hs : At x db hid (db.getR hid) (openN x db - openR x (db.getR hid)) := ⟨hn, hpr, fun r' hr' _ => hq.recs r' hr', hq.cfg, by omega⟩
  have h0 := hs.modR (fun r => { r with timeouted := true }) (by intro _; rfl)
  have hopen : openR x (db.getR hid) = hit x (db.getR hid).cmd.rid := by
    rw [openR_eq, hnq, hp]; unfold hit b2i; simp
  have hcl : classifyAck db hid true = .update ∨ classifyAck db hid true = .succeed := by
    unfold classifyAck; simp only [hp, Bool.not_true, Bool.false_eq_true, if_false, if_true]
    split
    · exact Or.inl rfl
    · exact Or.inr rfl
  rcases hcl with e | e <;> rw [e] <;> unfold applyAck <;> simp only []
  · have h1 := h0.modR (fun r => { r with ack := NOACK, undo := none }) (by intro _; rfl)
    obtain ⟨hq', hb⟩ := h1.finish (QR_of (by simp) (by intro _; exact ⟨rfl, by simp [Rec.pending], hnq⟩) (by simp [hnq]) (Nat.le_refl _))
    refine ⟨hq', ?_⟩
    rw [h0.getR, answered_mk x _ _ _ _ _ (by decide), hb]
    have : openR x ({ ({ (db.getR hid) with timeouted := true } : Rec) with ack := NOACK, undo := none } : Rec) = 0 := by
      rw [openR_eq]; simp [hnq, Rec.pending, b2i]
    simp only [] at this ⊢
    omega
  · have h1 := h0.modR (fun r => { r with ack := NOACK, undo := none, expT := r.startT + r.cmd.expried + 1 }) (by intro _; rfl)
    obtain ⟨r2, h2, c1, c2, c3, c4, c5, c6⟩ := h1.addExpried
    obtain ⟨hq', hb⟩ := h2.finish (QR_of (by rw [c5]; simp) (by intro _; exact ⟨c5, (pending_false_iff _).mpr c3, by rw [c4]; exact hnq⟩)
      (by rw [c4]; simp [hnq]) (by rw [c3]; exact Nat.le_refl _))
    refine ⟨hq', ?_⟩
    rw [h0.getR, answered_mk x _ _ _ _ _ (by decide), hb]
    have : openR x r2 = 0 := by rw [openR_eq, c4, (pending_false_iff _).mpr c3]; simp [hnq, b2i]
    simp only [] at this ⊢
    omega

theorem opReport_cons (x : Rid) {db : DB} (ha : InvA db) (hq : InvQ db) (id : Nat) (who : Option Nat) (ok : Bool) :
    InvQ (opReport db id who ok).1 ∧ answered x (opReport db id who ok).2 + openN x (opReport db id who ok).1 = openN x db := by
  unfold opReport
  split
  · exact ⟨hq, by simp⟩
  · rename_i e he
    have hem : e ∈ db.tab := List.mem_of_find?_eq_some he
    simp only []
    split
    · have := ackDone_cons x (ha.dropEnt id) (hq.dropEnt id) e.hid false
      exact ⟨this.1, by rw [this.2]; exact openN_frame x rfl⟩
    · rename_i hc
      have hp : (db.getR e.hid).pending = true := by
        cases hh : (db.getR e.hid).pending with
        | true => rfl
        | false => simp [hh] at hc
      have hge := (ha.tabOk e hem).2.2 hp
      have hle := (hq.getR e.hid).2.2.2
      have hne : (db.getR e.hid).ack ≠ NOACK := (pending_iff _).mp hp
      have hdec : decU8 (db.getR e.hid).ack < NOACK := by unfold decU8 NOACK at *; split <;> omega
      have hk := pendingKeep_cons x hq e.hid decU8 hp hdec
      split
      · exact ⟨hk.1.frame rfl rfl, by simp only [answered_nil, Int.zero_add]; exact (openN_frame x rfl).trans hk.2⟩
      · have hp1 : (((db.modR e.hid (fun r => { r with ack := decU8 r.ack })).dropEnt id).getR e.hid).pending = true := by
          show ((db.modR e.hid (fun r => { r with ack := decU8 r.ack })).getR e.hid).pending = true
          rw [getR_modR db e.hid _ (by intro _; rfl)]
          simp only [if_true]
          rw [present_of (Or.inl hp)]
          simp
          unfold Rec.pending; simp only []
          have : decU8 (db.getR e.hid).ack ≠ NOACK := by omega
          simpa using this
        have hn1 : (((db.modR e.hid (fun r => { r with ack := decU8 r.ack })).dropEnt id).recs.map (·.hid)).Nodup := by
          show ((modRecs e.hid _ db.recs).map (·.hid)).Nodup
          rw [map_hid_modRecs _ _ (by intro _; rfl)]; exact ha.nodup
        have := ackDone_true_cons x hn1 (hk.1.dropEnt id) e.hid hp1
        exact ⟨this.1, by rw [this.2]; exact (openN_frame x rfl).trans hk.2⟩

theorem opFailAll_cons (x : Rid) {db : DB} (ha : InvA db) (hq : InvQ db) (order : List Nat) :
    InvQ (opFailAll db order).1 ∧ answered x (opFailAll db order).2 + openN x (opFailAll db order).1 = openN x db := by
  unfold opFailAll
  simp only []
  have h1 := foldl_inv (Bal x (openN x db)) failStep (fun b a hb => by
      obtain ⟨ha', hq', hb'⟩ := hb
      unfold failStep
      have := ackDone_cons x ha' hq' a false
      exact ⟨ha'.ackDone a false, this.1, by simp only []; rw [answered_append]; have := this.2; omega⟩)
    (order.filterMap (fun id => (db.findId id).map (·.hid)) ++ (db.tab.filter (fun e => !order.contains e.id)).map (·.hid)) (db, [])
    ⟨ha, hq, by simp⟩
  generalize List.foldl failStep (db, []) _ = acc at h1 ⊢
  have e : openN x ({ acc.1 with tab := [] } : DB) = openN x acc.1 := openN_frame x rfl
  exact ⟨h1.2.1.frame rfl rfl, by rw [e]; exact h1.2.2⟩

/-- the request an event brings -/
def delta (x : Rid) : Ev → Int
  | .lock c => hit x c.rid
  | .unlock c => hit x c.rid
  | _ => 0

theorem step_cons (x : Rid) {db : DB} (ha : InvA db) (hk : InvK db) (hq : InvQ db) (e : Ev) :
    InvQ (step db e).1 ∧ answered x (step db e).2 + openN x (step db e).1 = openN x db + delta x e := by
  cases e with
  | lock c => exact opLock_cons x ha hq c
  | unlock c => exact opUnlock_cons x ha hq c
  | tick =>
    show InvQ (opTick db).1 ∧ answered x (opTick db).2 + openN x (opTick db).1 = openN x db + 0
    have := opTick_cons x ha hq; exact ⟨this.1, by have := this.2; omega⟩
  | push k =>
    show InvQ (opPush db k false).1 ∧ answered x (opPush db k false).2 + openN x (opPush db k false).1 = openN x db + 0
    have := opPush_cons x ha hk hq k false; exact ⟨this.1, by have := this.2; omega⟩
  | pushW k =>
    show InvQ (opPush db k true).1 ∧ answered x (opPush db k true).2 + openN x (opPush db k true).1 = openN x db + 0
    have := opPush_cons x ha hk hq k true; exact ⟨this.1, by have := this.2; omega⟩
  | aofed id ok =>
    show InvQ (opAofed db id ok).1 ∧ answered x (opAofed db id ok).2 + openN x (opAofed db id ok).1 = openN x db + 0
    unfold opAofed
    split
    · have := opReport_cons x ha hq id none ok; exact ⟨this.1, by have := this.2; omega⟩
    · exact ⟨hq, by simp⟩
  | acked id f ok =>
    show InvQ (opReport db id (some f) ok).1 ∧ answered x (opReport db id (some f) ok).2 + openN x (opReport db id (some f) ok).1 = openN x db + 0
    have := opReport_cons x ha hq id (some f) ok; exact ⟨this.1, by have := this.2; omega⟩
  | role b =>
    show InvQ ({ db with leader := b } : DB) ∧ answered x [] + openN x ({ db with leader := b } : DB) = openN x db + 0
    exact ⟨hq.frame rfl rfl, by simp only [answered_nil, Int.zero_add, Int.add_zero]; exact openN_frame x rfl⟩
  | closed b =>
    show InvQ ({ db with closed := b } : DB) ∧ answered x [] + openN x ({ db with closed := b } : DB) = openN x db + 0
    exact ⟨hq.frame rfl rfl, by simp only [answered_nil, Int.zero_add, Int.add_zero]; exact openN_frame x rfl⟩
  | demote o =>
    show InvQ (opFailAll db o).1 ∧ answered x (opFailAll db o).2 + openN x (opFailAll db o).1 = openN x db + 0
    have := opFailAll_cons x ha hq o; exact ⟨this.1, by have := this.2; omega⟩
  | flush o =>
    show InvQ (opFailAll db o).1 ∧ answered x (opFailAll db o).2 + openN x (opFailAll db o).1 = openN x db + 0
    have := opFailAll_cons x ha hq o; exact ⟨this.1, by have := this.2; omega⟩

def issued (x : Rid) : List Ev → Int
  | [] => 0
  | e :: es => delta x e + issued x es

/-- the three invariants together (each step of one needs the others in the state before) -/
structure Inv3 (db : DB) : Prop where
  a : InvA db
  k : InvK db
  q : InvQ db

theorem Inv3.step {db : DB} (h : Inv3 db) (e : Ev) : Inv3 (step db e).1 :=
  ⟨h.a.step e, InvK.step h.a h.k h.q e, (step_cons ((0, 0) : Rid) h.a h.k h.q e).1⟩

theorem Inv3.run {db : DB} (h : Inv3 db) (evs : List Ev) : Inv3 (run db evs) := by
  unfold Slock.Ack.run
  exact foldl_inv Inv3 (fun d e => (Slock.Ack.step d e).1) (fun d e hd => hd.step e) evs db h

theorem runOut_cons (x : Rid) : ∀ (evs : List Ev) {db : DB}, Inv3 db →
    Inv3 (runOut db evs).1 ∧ answered x (runOut db evs).2.flatten + openN x (runOut db evs).1 = openN x db + issued x evs := by
  intro evs
  induction evs with
  | nil => intro db h; exact ⟨h, by simp [runOut, issued]⟩
  | cons e es ih =>
    intro db h
    have h1 := step_cons x h.a h.k h.q e
    have h2 := ih (h.step e)
    unfold runOut
    simp only [List.flatten_cons, issued]
    refine ⟨h2.1, ?_⟩
    rw [answered_append]
    have := h1.2; have := h2.2
    omega

theorem InvQ.init (cfg : Cfg) (now : Nat) (hc : reqAcks cfg < NOACK) : InvQ (DB.init cfg now) :=
  ⟨by intro r hr; simp [DB.init] at hr, hc⟩

theorem Inv3.init (cfg : Cfg) (now : Nat) (hc : reqAcks cfg < NOACK) : Inv3 (DB.init cfg now) :=
  ⟨InvA.init cfg now, InvK.init cfg now hc, InvQ.init cfg now hc⟩

end Slock.Ack
