import Slock.Proofs.EngineSimCongr
import Slock.Proofs.EngineSimTickSQ
/-! Stage 1 (M-ENGINE): the steps of the two timer sweeps respect `Sim.Equiv` (same scalar fields, same state under every key) — they read
the database through `getKey` and write it through `setKey`; the entry lists they work on are `Equiv`-invariant under `SQ` (distinct
sequence numbers) and distinct key ids. New file for the clock-tick simulation (`sim_tick`). -/
namespace Slock.SimTick
open Slock Slock.Engine Slock.Sim

/-! ### the steps, with the working key named -/

/-- the re-armed request -/
def rearmW (tc sq : Nat) (w : Waiter) : Waiter :=
  { w with timeoutT := (wheelAdd tc sq w.timeoutT (w.sched.checked + 1)).1, sched := (wheelAdd tc sq w.timeoutT (w.sched.checked + 1)).2 }
/-- the key with every request carrying `w`'s (RequestId, connection) replaced by `w'` -/
def mapW (k : Key) (w w' : Waiter) : Key :=
  { k with waiters := k.waiters.map (fun x => if x.cmd.req == w.cmd.req && x.conn == w.conn then w' else x) }
def seqUp (d : DB) : DB := { d with seq := d.seq + 1 }

theorem rearmWaiter_eq (d : DB) (w : Waiter) :
    rearmWaiter d w = (seqUp d).setKey (mapW (d.getKey w.cmd.key) w (rearmW d.tCheck d.seq w)) := rfl

def rearmH (ec sq : Nat) (h : Hold) : Hold :=
  { h with expT := (wheelAdd ec sq h.expT (h.sched.checked + 1)).1, sched := (wheelAdd ec sq h.expT (h.sched.checked + 1)).2 }
def replK (k : Key) (h h' : Hold) : Key := { k with holders := replaceHolder k.holders h h' }

theorem rearmHold_eq' (d : DB) (h : Hold) :
    rearmHold d h = (seqUp d).setKey (replK (d.getKey h.cmd.key) h (rearmH d.eCheck d.seq h)) := rfl

/-- the key after a queued request has been taken out (cancel, timeout) -/
def outK (k : Key) (w : Waiter) : Key :=
  { k with waiters := removeWaiter k.waiters w, waited := if (removeWaiter k.waiters w).isEmpty then false else k.waited }
def toDb (d : DB) : DB := { d with ctr := { d.ctr with waitCount := d.ctr.waitCount - 1, timeoutedCount := d.ctr.timeoutedCount + 1 } }
def toReply (k : Key) (w : Waiter) : Reply := mkReply { w.cmd with conn := w.conn } RESULT_TIMEOUT k.locked 0

theorem fireTimeout_eq (d : DB) (key : Nat) (w : Waiter) :
    fireTimeout d key w =
      ((wake (toDb d) (outK (d.getKey key) w) [toReply (d.getKey key) w]).1.setKey (wake (toDb d) (outK (d.getKey key) w) [toReply (d.getKey key) w]).2.1,
       (wake (toDb d) (outK (d.getKey key) w) [toReply (d.getKey key) w]).2.2) := rfl

/-- the key after a hold has ended -/
def endK (k : Key) (h : Hold) : Key := { k with holders := removeHolder k.holders h, locked := k.locked - h.depth }
def exDb (d : DB) (n : Nat) : DB := { d with ctr := { d.ctr with lockedCount := d.ctr.lockedCount - n, expriedCount := d.ctr.expriedCount + 1 } }
def exReply (k : Key) (h : Hold) : Reply := mkReply { h.cmd with conn := h.conn } RESULT_EXPRIED (k.locked - h.depth) 0

theorem fireExpire_eq (d : DB) (key : Nat) (h : Hold) :
    fireExpire d key h =
      ((wake (exDb d h.depth) (endK (d.getKey key) h) [exReply (d.getKey key) h]).1.setKey (wake (exDb d h.depth) (endK (d.getKey key) h) [exReply (d.getKey key) h]).2.1,
       (wake (exDb d h.depth) (endK (d.getKey key) h) [exReply (d.getKey key) h]).2.2) := rfl

theorem seqUp_se {a b : DB} (s : SE a b) : SE (seqUp a) (seqUp b) :=
  ⟨s.now, s.tCheck, s.eCheck, by show a.seq + 1 = b.seq + 1; rw [s.seq], s.leader, s.ctr⟩
theorem toDb_se {a b : DB} (s : SE a b) : SE (toDb a) (toDb b) :=
  ⟨s.now, s.tCheck, s.eCheck, s.seq, s.leader, by unfold toDb; show ({ a.ctr with waitCount := _, timeoutedCount := _ } : Counters) = _; rw [s.ctr]⟩
theorem exDb_se {a b : DB} (s : SE a b) (n : Nat) : SE (exDb a n) (exDb b n) :=
  ⟨s.now, s.tCheck, s.eCheck, s.seq, s.leader, by unfold exDb; show ({ a.ctr with lockedCount := _, expriedCount := _ } : Counters) = _; rw [s.ctr]⟩

/-! ### congruence of the steps -/

theorem rearmWaiter_congr {a b : DB} (h : Equiv a b) (w : Waiter) : Equiv (rearmWaiter a w) (rearmWaiter b w) := by
  rw [rearmWaiter_eq, rearmWaiter_eq, h.keys, h.tCheck, h.seq]
  exact h.store (seqUp_se h.se) rfl rfl _

theorem rearmHold_congr {a b : DB} (h : Equiv a b) (x : Hold) : Equiv (rearmHold a x) (rearmHold b x) := by
  rw [rearmHold_eq', rearmHold_eq', h.keys, h.eCheck, h.seq]
  exact h.store (seqUp_se h.se) rfl rfl _

theorem fireTimeout_congr {a b : DB} (h : Equiv a b) (key : Nat) (w : Waiter) :
    Equiv (fireTimeout a key w).1 (fireTimeout b key w).1 ∧ (fireTimeout a key w).2 = (fireTimeout b key w).2 := by
  rw [fireTimeout_eq, fireTimeout_eq, h.keys]
  exact wake_store h (toDb_se h.se) rfl rfl _ _

theorem fireExpire_congr {a b : DB} (h : Equiv a b) (key : Nat) (x : Hold) :
    Equiv (fireExpire a key x).1 (fireExpire b key x).1 ∧ (fireExpire a key x).2 = (fireExpire b key x).2 := by
  rw [fireExpire_eq, fireExpire_eq, h.keys]
  exact wake_store h (exDb_se h.se _) rfl rfl _ _

/-- two accumulators of a sweep: `Equiv` databases, the same second component -/
def AccEq {β : Type} (x y : DB × β) : Prop := Equiv x.1 y.1 ∧ x.2 = y.2

theorem timeoutStep_congr {x y : DB × List Waiter} (h : AccEq x y) (w : Waiter) : AccEq (timeoutStep x w) (timeoutStep y w) := by
  unfold timeoutStep
  rw [h.1.now, h.2]
  split
  · exact ⟨rearmWaiter_congr h.1 w, rfl⟩
  · exact ⟨h.1, rfl⟩

theorem expireStep_congr {x y : DB × List Hold} (h : AccEq x y) (w : Hold) : AccEq (expireStep x w) (expireStep y w) := by
  unfold expireStep
  rw [h.1.now, h.2]
  split
  · exact ⟨rearmHold_congr h.1 w, rfl⟩
  · exact ⟨h.1, rfl⟩

theorem fireTimeoutStep_congr {x y : DB × List Reply} (h : AccEq x y) (w : Waiter) : AccEq (fireTimeoutStep x w) (fireTimeoutStep y w) := by
  unfold fireTimeoutStep
  rw [h.1.keys, h.2]
  cases (y.1.getKey w.cmd.key).waiters.find? (fun x => x.cmd.req == w.cmd.req && x.conn == w.conn) with
  | none => exact ⟨h.1, h.2⟩
  | some w' =>
    obtain ⟨e1, e2⟩ := fireTimeout_congr h.1 w.cmd.key w'
    exact ⟨e1, by show y.2 ++ _ = y.2 ++ _; rw [e2]⟩

theorem fireExpireStep_congr {x y : DB × List Reply} (h : AccEq x y) (w : Hold) : AccEq (fireExpireStep x w) (fireExpireStep y w) := by
  unfold fireExpireStep
  rw [h.1.keys, h.2]
  cases (y.1.getKey w.cmd.key).holders.find? (·.hid == w.hid) with
  | none => exact ⟨h.1, h.2⟩
  | some w' =>
    obtain ⟨e1, e2⟩ := fireExpire_congr h.1 w.cmd.key w'
    exact ⟨e1, by show y.2 ++ _ = y.2 ++ _; rw [e2]⟩

theorem foldl_congr {α β : Type} (f : DB × β → α → DB × β) (hf : ∀ x y a, AccEq x y → AccEq (f x a) (f y a)) (l : List α) (x y : DB × β)
    (h : AccEq x y) : AccEq (l.foldl f x) (l.foldl f y) := by
  induction l generalizing x y with
  | nil => exact h
  | cons a as ih => simp only [List.foldl_cons]; exact ih _ _ (hf x y a h)

/-! ### the entry lists -/

theorem slotWaiters_congr {a b : DB} (h : Equiv a b) (ka : KN a) (kb : KN b) (sa : SQ a) (c : Nat) : slotWaiters a c = slotWaiters b c :=
  sortedW_congr ka kb sa (sa.transfer ka kb h.keys h.seq) h.keys _
theorem longWaiters_congr {a b : DB} (h : Equiv a b) (ka : KN a) (kb : KN b) (sa : SQ a) (c : Nat) : longWaiters a c = longWaiters b c :=
  sortedW_congr ka kb sa (sa.transfer ka kb h.keys h.seq) h.keys _
theorem slotHolds_congr {a b : DB} (h : Equiv a b) (ka : KN a) (kb : KN b) (sa : SQ a) (c : Nat) : slotHolds a c = slotHolds b c :=
  sortedH_congr ka kb sa (sa.transfer ka kb h.keys h.seq) h.keys _
theorem longHolds_congr {a b : DB} (h : Equiv a b) (ka : KN a) (kb : KN b) (sa : SQ a) (c : Nat) : longHolds a c = longHolds b c :=
  sortedH_congr ka kb sa (sa.transfer ka kb h.keys h.seq) h.keys _

/-! ### the sweeps -/

theorem sweepTimeout_congr {a b : DB} (h : Equiv a b) (ka : KN a) (kb : KN b) (sa : SQ a) (c : Nat) :
    Equiv (sweepTimeout a c).1 (sweepTimeout b c).1 ∧ (sweepTimeout a c).2 = (sweepTimeout b c).2 := by
  unfold sweepTimeout timeoutPass1
  simp only []
  rw [slotWaiters_congr h ka kb sa c, longWaiters_congr h ka kb sa c]
  have p1 := foldl_congr timeoutStep (fun x y w hxy => timeoutStep_congr hxy w) (slotWaiters b c) (a, []) (b, []) ⟨h, rfl⟩
  rw [p1.2]
  exact foldl_congr fireTimeoutStep (fun x y w hxy => fireTimeoutStep_congr hxy w) _ _ _ ⟨p1.1, rfl⟩

theorem sweepExpire_congr {a b : DB} (h : Equiv a b) (ka : KN a) (kb : KN b) (sa : SQ a) (c : Nat) :
    Equiv (sweepExpire a c).1 (sweepExpire b c).1 ∧ (sweepExpire a c).2 = (sweepExpire b c).2 := by
  unfold sweepExpire expirePass1
  simp only []
  rw [slotHolds_congr h ka kb sa c, longHolds_congr h ka kb sa c]
  have p1 := foldl_congr expireStep (fun x y w hxy => expireStep_congr hxy w) (slotHolds b c) (a, []) (b, []) ⟨h, rfl⟩
  rw [p1.2]
  exact foldl_congr fireExpireStep (fun x y w hxy => fireExpireStep_congr hxy w) _ _ _ ⟨p1.1, rfl⟩

end Slock.SimTick
