import Slock.Proofs.EngineSimTickRel
import Slock.Proofs.EngineSimTickKT
import Slock.Proofs.EngineSimTickLong
/-! Clock-tick simulation (`sim_tick`): the sweeper edits the wheel entry of ONE live queued request (re-arm; collecting a due
long-table entry): stage 1 replaces "every request with that (RequestId, connection)" — with distinct pairs, that one. -/
namespace Slock.SimTick
open Slock Slock.Sim Slock.Engine2
open Slock.Engine (has)

theorem nodup_map_inj {α β : Type} (f : α → β) (l : List α) (hn : (l.map f).Nodup) {a b : α} (ha : a ∈ l) (hb : b ∈ l) (e : f a = f b) : a = b := by
  induction l with
  | nil => simp at ha
  | cons x xs ih =>
    simp only [List.map_cons, List.nodup_cons] at hn
    rcases List.mem_cons.mp ha with h1 | h1
    · rcases List.mem_cons.mp hb with h2 | h2
      · rw [h1, h2]
      · exfalso; apply hn.1; rw [← h1, e]; exact List.mem_map.mpr ⟨b, h2, rfl⟩
    · rcases List.mem_cons.mp hb with h2 | h2
      · exfalso; apply hn.1; rw [← h2, ← e]; exact List.mem_map.mpr ⟨a, h1, rfl⟩
      · exact ih hn.2 h1 h2

/-- the stage-1 replacement of the request(s) carrying `w`'s (RequestId, connection) by `w'` -/
def replW (w w' : Engine.Waiter) (v : Engine.Waiter) : Engine.Waiter := if v.cmd.req == w.cmd.req && v.conn == w.conn then w' else v

theorem mapW_eq (k : Engine.Key) (w w' : Engine.Waiter) : mapW k w w' = { k with waiters := k.waiters.map (replW w w') } := rfl

/-- **the view of one live queued request changes** (by a step that keeps the queues and every other record's view) -/
theorem abs_edit_waiter {k k' : Key} (x : Nat) (hk : k'.key = k.key) (hlk : k'.locked = k.locked) (hw : k'.waited = k.waited) (q : k'.queues = k.queues)
    (p : PKeepX πA (· = x) k' k)
    (hrec : ∀ y ∈ k.current.toList ++ k.locks ++ k.wait.map (·.rid), k'.hasRec y)
    (hm : x ∈ k.wait.map (·.rid)) (hd : k.deadWaiter x = false) (hd' : k'.deadWaiter x = false)
    (hnot : x ∉ k.current.toList ++ k.locks) (wu : ((Key.abs k).waiters.map rcOf).Nodup) :
    Key.abs k' = mapW (Key.abs k) (waiterOf k x) (waiterOf k' x) := by
  obtain ⟨q1, q2, q3⟩ := queues_eq q
  rw [mapW_eq]
  refine abs_ext hk hlk ?_ ?_ hw
  · exact abs_holders_congr q1 q2 p (fun y hy e => hnot (e ▸ hy)) (fun y hy => hrec y (List.mem_append_left _ hy))
  · show (Key.abs k').waiters = (Key.abs k).waiters.map (replW (waiterOf k x) (waiterOf k' x))
    rw [abs_waiters] at wu ⊢
    rw [List.map_map] at wu
    rw [abs_waiters, q3, List.map_map]
    have hxm : x ∈ (k.wait.map (·.rid)).filter (fun y => !k.deadWaiter y) := List.mem_filter.mpr ⟨hm, by rw [hd]; rfl⟩
    apply filter_map_congr_on
    intro y hy
    by_cases e : y = x
    · subst e
      rw [hd, hd']
      refine ⟨rfl, fun _ => ?_⟩
      simp [Function.comp, replW]
    · have hv := p.val y e (hrec y (List.mem_append_right _ hy))
      have ht : k'.deadWaiter y = k.deadWaiter y := timeouted_of_πA hv
      refine ⟨by rw [ht], fun hl => ?_⟩
      have hym : y ∈ (k.wait.map (·.rid)).filter (fun y => !k.deadWaiter y) := List.mem_filter.mpr ⟨hy, hl⟩
      have hne : rcOf (waiterOf k y) ≠ rcOf (waiterOf k x) := fun e' => e (nodup_map_inj _ _ wu hym hxm e')
      have hc : ((waiterOf k y).cmd.req == (waiterOf k x).cmd.req && (waiterOf k y).conn == (waiterOf k x).conn) = false := by
        cases h1 : ((waiterOf k y).cmd.req == (waiterOf k x).cmd.req && (waiterOf k y).conn == (waiterOf k x).conn) with
        | false => rfl
        | true =>
          simp only [Bool.and_eq_true, beq_iff_eq] at h1
          exfalso; apply hne; unfold rcOf; rw [h1.1, h1.2]
      show waiterOf k' y = replW (waiterOf k x) (waiterOf k' x) (waiterOf k y)
      unfold replW
      rw [hc]
      exact congrArg (fun t => t.2.1) hv

/-- in terms of `clr`: the request's `long` flag is cleared -/
theorem mapW_unlong (k : Engine.Key) (w : Engine.Waiter) (hw : w ∈ k.waiters) (wu : (k.waiters.map rcOf).Nodup) :
    mapW k w (unlong w) = clrK [rcId k.key w] k := by
  rw [mapW_eq]
  unfold clrK
  congr 1
  apply List.map_congr_left
  intro v hv
  unfold replW clr
  by_cases e : v = w
  · subst e
    simp
  · have hne : rcOf v ≠ rcOf w := fun e' => e (nodup_map_inj rcOf _ wu hv hw e')
    have hc : (v.cmd.req == w.cmd.req && v.conn == w.conn) = false := by
      cases h1 : (v.cmd.req == w.cmd.req && v.conn == w.conn) with
      | false => rfl
      | true =>
        simp only [Bool.and_eq_true, beq_iff_eq] at h1
        exfalso; apply hne; unfold rcOf; rw [h1.1, h1.2]
    have hn : rcId k.key v ∉ [rcId k.key w] := by
      intro hm
      simp only [List.mem_singleton, rcId, Prod.mk.injEq, true_and] at hm
      apply hne; unfold rcOf; rw [hm.1, hm.2]
    rw [hc, if_neg hn]
    simp

end Slock.SimTick
