import Slock.Model.TextCmd
/-! Helper lemmas for M-TEXT: which converter inputs can reach a Go index panic (C13 text part). -/
namespace Slock.Text

theorem idx_none_iff (l : List Bytes) (i : Nat) : idx l i = none ↔ l.length ≤ i := by
  unfold idx; simp

theorem idx_some_lt (l : List Bytes) (i : Nat) (v : Bytes) (h : idx l i = some v) : i < l.length := by
  unfold idx at h
  have := (List.getElem?_eq_some_iff.mp h).1
  exact this

/-- `ConvertArgs2Flag` never indexes out of range (the guard `i+1 >= len(args)` precedes `args[i+1]`) -/
theorem argsFlag_no_panic (fuel : Nat) (tail : List Bytes) (i : Nat) (h : Hdr) :
    argsFlag fuel tail i h ≠ .panic := by
  induction fuel generalizing i h with
  | zero => simp [argsFlag]
  | succ n ih =>
    rw [argsFlag]
    cases hk : idx tail i with
    | none => simp
    | some kw =>
      have hi := idx_some_lt _ _ _ hk
      simp only []
      repeat' split
      all_goals first
        | exact ih _ _
        | (simp; done)
        | (exfalso
           rename_i hc _ h1
           have := (idx_none_iff _ _).mp h1
           omega)

theorem convertArgs2Flag_no_panic (h : Hdr) (tail : List Bytes) :
    convertArgs2Flag h tail ≠ .panic := argsFlag_no_panic _ _ _ _

/-- `ConvertTextLockAndUnLockCommand` never indexes out of range: the even-length guard makes every `args[i+1]`
valid and `args[i+2:]` is at worst empty; by induction on the recursion depth (EXECUTE nests the converter). -/
theorem lock_no_panic_aux (ctx : Ctx) (f : Nat) :
    (∀ (name : Bytes) (rest : List Bytes) (c : LockCmd) (hasId : Bool), rest.length < f → rest.length % 2 = 0 →
        lockLoop f ctx name rest c hasId ≠ .panic) ∧
    (∀ (args : List Bytes), args.length < f → lockConv f ctx args ≠ .panic) := by
  induction f with
  | zero => exact ⟨fun _ _ _ _ h => by omega, fun _ h => by omega⟩
  | succ n ih =>
    obtain ⟨ihL, ihC⟩ := ih
    constructor
    · intro name rest c hasId hlen hpar
      match rest, hlen, hpar with
      | [], _, _ =>
        rw [lockLoop]
        simp only []
        repeat' split
        all_goals simp
      | [_], _, hp => simp at hp
      | kw :: v :: rest', hl, hp =>
        have hl' : rest'.length < n := by simp at hl; omega
        have hp' : rest'.length % 2 = 0 := by simp at hp; omega
        have hsub := ihC rest' hl'
        rw [lockLoop]
        extract_lets
        by_cases h0 : upper kw = kLOCK_ID
        · rw [if_pos h0]; exact ihL _ _ _ _ hl' hp'
        rw [if_neg h0]
        by_cases h1 : upper kw = kFLAG
        · rw [if_pos h1]
          cases atoi v with
          | none => simp
          | some x => exact ihL _ _ _ _ hl' hp'
        rw [if_neg h1]
        by_cases h2 : upper kw = kTIMEOUT
        · rw [if_pos h2]
          cases atoi v with
          | none => simp
          | some x => exact ihL _ _ _ _ hl' hp'
        rw [if_neg h2]
        by_cases h3 : upper kw = kEXPRIED
        · rw [if_pos h3]
          cases atoi v with
          | none => simp
          | some x => exact ihL _ _ _ _ hl' hp'
        rw [if_neg h3]
        by_cases h4 : upper kw = kCOUNT
        · rw [if_pos h4]
          cases atoi v with
          | none => simp
          | some x => exact ihL _ _ _ _ hl' hp'
        rw [if_neg h4]
        by_cases h5 : upper kw = kRCOUNT
        · rw [if_pos h5]
          cases atoi v with
          | none => simp
          | some x => exact ihL _ _ _ _ hl' hp'
        rw [if_neg h5]
        by_cases h6 : upper kw = kWILL
        · rw [if_pos h6]
          cases atoi v with
          | none => simp
          | some x =>
            dsimp only
            by_cases hw : x > 0 ∧ name ≠ kPUSH
            · rw [if_pos hw]; exact ihL _ _ _ _ hl' hp'
            · rw [if_neg hw]; exact ihL _ _ _ _ hl' hp'
        rw [if_neg h6]
        by_cases h7 : upper kw = kSET
        · rw [if_pos h7]; exact ihL _ _ _ _ hl' hp'
        rw [if_neg h7]
        by_cases h8 : upper kw = kUNSET
        · rw [if_pos h8]; exact ihL _ _ _ _ hl' hp'
        rw [if_neg h8]
        by_cases h9 : upper kw = kINCR
        · rw [if_pos h9]
          cases atoi v with
          | none => simp
          | some x => exact ihL _ _ _ _ hl' hp'
        rw [if_neg h9]
        by_cases h10 : upper kw = kAPPEND
        · rw [if_pos h10]; exact ihL _ _ _ _ hl' hp'
        rw [if_neg h10]
        by_cases h11 : upper kw = kSHIFT
        · rw [if_pos h11]
          cases atoi v with
          | none => simp
          | some x => exact ihL _ _ _ _ hl' hp'
        rw [if_neg h11]
        by_cases h12 : upper kw = kEXECUTE
        · rw [if_pos h12]
          cases hs : lockConv n ctx rest' with
          | ok sub => exact ihL _ _ _ _ hl' hp'
          | err e => simp
          | panic => exact absurd hs hsub
        rw [if_neg h12]
        by_cases h13 : upper kw = kPUSH
        · rw [if_pos h13]; exact ihL _ _ _ _ hl' hp'
        rw [if_neg h13]
        by_cases h14 : upper kw = kPOP
        · rw [if_pos h14]
          cases atoi v with
          | none => simp
          | some x => exact ihL _ _ _ _ hl' hp'
        rw [if_neg h14]
        exact ihL _ _ _ _ hl' hp'
    · intro args hlen
      rw [lockConv]
      by_cases hbad : args.length < 2 ∨ args.length % 2 ≠ 0
      · rw [if_pos hbad]; simp
      · rw [if_neg hbad]
        have h2 : 2 ≤ args.length := by omega
        cases h0 : idx args 0 with
        | none => have := (idx_none_iff _ _).mp h0; omega
        | some a0 =>
          cases h1 : idx args 1 with
          | none => have := (idx_none_iff _ _).mp h1; omega
          | some a1 =>
            simp only []
            apply ihL
            · simp; omega
            · simp; omega

theorem convertLock_no_panic' (ctx : Ctx) (args : List Bytes) : convertLock ctx args ≠ .panic :=
  (lock_no_panic_aux ctx (args.length + 1)).2 args (by omega)

end Slock.Text
