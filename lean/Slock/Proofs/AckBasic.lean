import Slock.Model.Ack
/-! M-ACK: frame lemmas for the primitive state updates (which component each one touches), record lookup after an update. -/
namespace Slock.Ack

/-! ### components untouched by key / counter updates -/

theorem setKey_eq (db : DB) (k : Key) : ∃ ks, db.setKey k = { db with keys := ks } := by
  unfold DB.setKey; split <;> exact ⟨_, rfl⟩

@[simp] theorem setKey_recs (db : DB) (k : Key) : (db.setKey k).recs = db.recs := by
  obtain ⟨ks, h⟩ := setKey_eq db k; rw [h]
@[simp] theorem setKey_tab (db : DB) (k : Key) : (db.setKey k).tab = db.tab := by
  obtain ⟨ks, h⟩ := setKey_eq db k; rw [h]
@[simp] theorem setKey_journal (db : DB) (k : Key) : (db.setKey k).journal = db.journal := by
  obtain ⟨ks, h⟩ := setKey_eq db k; rw [h]
@[simp] theorem setKey_nextHid (db : DB) (k : Key) : (db.setKey k).nextHid = db.nextHid := by
  obtain ⟨ks, h⟩ := setKey_eq db k; rw [h]
@[simp] theorem setKey_nextId (db : DB) (k : Key) : (db.setKey k).nextId = db.nextId := by
  obtain ⟨ks, h⟩ := setKey_eq db k; rw [h]
@[simp] theorem setKey_leader (db : DB) (k : Key) : (db.setKey k).leader = db.leader := by
  obtain ⟨ks, h⟩ := setKey_eq db k; rw [h]
@[simp] theorem setKey_closed (db : DB) (k : Key) : (db.setKey k).closed = db.closed := by
  obtain ⟨ks, h⟩ := setKey_eq db k; rw [h]
@[simp] theorem setKey_cfg (db : DB) (k : Key) : (db.setKey k).cfg = db.cfg := by
  obtain ⟨ks, h⟩ := setKey_eq db k; rw [h]
@[simp] theorem setKey_now (db : DB) (k : Key) : (db.setKey k).now = db.now := by
  obtain ⟨ks, h⟩ := setKey_eq db k; rw [h]
@[simp] theorem setKey_seq (db : DB) (k : Key) : (db.setKey k).seq = db.seq := by
  obtain ⟨ks, h⟩ := setKey_eq db k; rw [h]
@[simp] theorem setKey_tCheck (db : DB) (k : Key) : (db.setKey k).tCheck = db.tCheck := by
  obtain ⟨ks, h⟩ := setKey_eq db k; rw [h]
@[simp] theorem setKey_eCheck (db : DB) (k : Key) : (db.setKey k).eCheck = db.eCheck := by
  obtain ⟨ks, h⟩ := setKey_eq db k; rw [h]

@[simp] theorem modKey_recs (db : DB) (k : Nat) (f : Key → Key) : (db.modKey k f).recs = db.recs := by unfold DB.modKey; simp
@[simp] theorem modKey_tab (db : DB) (k : Nat) (f : Key → Key) : (db.modKey k f).tab = db.tab := by unfold DB.modKey; simp
@[simp] theorem modKey_journal (db : DB) (k : Nat) (f : Key → Key) : (db.modKey k f).journal = db.journal := by unfold DB.modKey; simp
@[simp] theorem modKey_nextHid (db : DB) (k : Nat) (f : Key → Key) : (db.modKey k f).nextHid = db.nextHid := by unfold DB.modKey; simp
@[simp] theorem modKey_nextId (db : DB) (k : Nat) (f : Key → Key) : (db.modKey k f).nextId = db.nextId := by unfold DB.modKey; simp
@[simp] theorem modKey_leader (db : DB) (k : Nat) (f : Key → Key) : (db.modKey k f).leader = db.leader := by unfold DB.modKey; simp
@[simp] theorem modKey_closed (db : DB) (k : Nat) (f : Key → Key) : (db.modKey k f).closed = db.closed := by unfold DB.modKey; simp
@[simp] theorem modKey_cfg (db : DB) (k : Nat) (f : Key → Key) : (db.modKey k f).cfg = db.cfg := by unfold DB.modKey; simp
@[simp] theorem modKey_now (db : DB) (k : Nat) (f : Key → Key) : (db.modKey k f).now = db.now := by unfold DB.modKey; simp
@[simp] theorem modKey_seq (db : DB) (k : Nat) (f : Key → Key) : (db.modKey k f).seq = db.seq := by unfold DB.modKey; simp
@[simp] theorem modKey_tCheck (db : DB) (k : Nat) (f : Key → Key) : (db.modKey k f).tCheck = db.tCheck := by unfold DB.modKey; simp
@[simp] theorem modKey_eCheck (db : DB) (k : Nat) (f : Key → Key) : (db.modKey k f).eCheck = db.eCheck := by unfold DB.modKey; simp

@[simp] theorem ctrMod_recs (db : DB) (f : Counters → Counters) : (db.ctrMod f).recs = db.recs := rfl
@[simp] theorem ctrMod_tab (db : DB) (f : Counters → Counters) : (db.ctrMod f).tab = db.tab := rfl
@[simp] theorem ctrMod_journal (db : DB) (f : Counters → Counters) : (db.ctrMod f).journal = db.journal := rfl
@[simp] theorem ctrMod_nextHid (db : DB) (f : Counters → Counters) : (db.ctrMod f).nextHid = db.nextHid := rfl
@[simp] theorem ctrMod_nextId (db : DB) (f : Counters → Counters) : (db.ctrMod f).nextId = db.nextId := rfl
@[simp] theorem ctrMod_leader (db : DB) (f : Counters → Counters) : (db.ctrMod f).leader = db.leader := rfl
@[simp] theorem ctrMod_closed (db : DB) (f : Counters → Counters) : (db.ctrMod f).closed = db.closed := rfl
@[simp] theorem ctrMod_cfg (db : DB) (f : Counters → Counters) : (db.ctrMod f).cfg = db.cfg := rfl
@[simp] theorem ctrMod_keys (db : DB) (f : Counters → Counters) : (db.ctrMod f).keys = db.keys := rfl
@[simp] theorem ctrMod_now (db : DB) (f : Counters → Counters) : (db.ctrMod f).now = db.now := rfl
@[simp] theorem ctrMod_seq (db : DB) (f : Counters → Counters) : (db.ctrMod f).seq = db.seq := rfl
@[simp] theorem ctrMod_tCheck (db : DB) (f : Counters → Counters) : (db.ctrMod f).tCheck = db.tCheck := rfl
@[simp] theorem ctrMod_eCheck (db : DB) (f : Counters → Counters) : (db.ctrMod f).eCheck = db.eCheck := rfl

@[simp] theorem modR_recs (db : DB) (h : Nat) (f : Rec → Rec) : (db.modR h f).recs = modRecs h f db.recs := rfl
@[simp] theorem modR_tab (db : DB) (h : Nat) (f : Rec → Rec) : (db.modR h f).tab = db.tab := rfl
@[simp] theorem modR_journal (db : DB) (h : Nat) (f : Rec → Rec) : (db.modR h f).journal = db.journal := rfl
@[simp] theorem modR_nextHid (db : DB) (h : Nat) (f : Rec → Rec) : (db.modR h f).nextHid = db.nextHid := rfl
@[simp] theorem modR_nextId (db : DB) (h : Nat) (f : Rec → Rec) : (db.modR h f).nextId = db.nextId := rfl
@[simp] theorem modR_leader (db : DB) (h : Nat) (f : Rec → Rec) : (db.modR h f).leader = db.leader := rfl
@[simp] theorem modR_closed (db : DB) (h : Nat) (f : Rec → Rec) : (db.modR h f).closed = db.closed := rfl
@[simp] theorem modR_cfg (db : DB) (h : Nat) (f : Rec → Rec) : (db.modR h f).cfg = db.cfg := rfl
@[simp] theorem modR_keys (db : DB) (h : Nat) (f : Rec → Rec) : (db.modR h f).keys = db.keys := rfl
@[simp] theorem modR_now (db : DB) (h : Nat) (f : Rec → Rec) : (db.modR h f).now = db.now := rfl
@[simp] theorem modR_seq (db : DB) (h : Nat) (f : Rec → Rec) : (db.modR h f).seq = db.seq := rfl
@[simp] theorem modR_tCheck (db : DB) (h : Nat) (f : Rec → Rec) : (db.modR h f).tCheck = db.tCheck := rfl
@[simp] theorem modR_eCheck (db : DB) (h : Nat) (f : Rec → Rec) : (db.modR h f).eCheck = db.eCheck := rfl

@[simp] theorem toEnd_tab (db : DB) (h : Nat) : (db.toEnd h).tab = db.tab := rfl
@[simp] theorem toEnd_journal (db : DB) (h : Nat) : (db.toEnd h).journal = db.journal := rfl
@[simp] theorem toEnd_nextHid (db : DB) (h : Nat) : (db.toEnd h).nextHid = db.nextHid := rfl
@[simp] theorem toEnd_nextId (db : DB) (h : Nat) : (db.toEnd h).nextId = db.nextId := rfl
@[simp] theorem toEnd_leader (db : DB) (h : Nat) : (db.toEnd h).leader = db.leader := rfl
@[simp] theorem toEnd_closed (db : DB) (h : Nat) : (db.toEnd h).closed = db.closed := rfl
@[simp] theorem toEnd_cfg (db : DB) (h : Nat) : (db.toEnd h).cfg = db.cfg := rfl
@[simp] theorem toEnd_keys (db : DB) (h : Nat) : (db.toEnd h).keys = db.keys := rfl
@[simp] theorem toEnd_now (db : DB) (h : Nat) : (db.toEnd h).now = db.now := rfl
@[simp] theorem toEnd_seq (db : DB) (h : Nat) : (db.toEnd h).seq = db.seq := rfl

/-! ### record lookup -/

def findR (rs : List Rec) (h : Nat) : Option Rec := rs.find? (·.hid == h)

theorem getR_eq (db : DB) (h : Nat) : db.getR h = (findR db.recs h).getD (deadRec h) := rfl

theorem findR_some_mem {rs : List Rec} {h : Nat} {r : Rec} (e : findR rs h = some r) : r ∈ rs ∧ r.hid = h := by
  unfold findR at e
  exact ⟨List.mem_of_find?_eq_some e, by have := List.find?_some e; simpa using this⟩

/-- the record `getR` returns is a member of the list, or the inert placeholder -/
theorem getR_mem_or_dead (db : DB) (h : Nat) : db.getR h ∈ db.recs ∨ db.getR h = deadRec h := by
  rw [getR_eq]
  cases e : findR db.recs h with
  | none => right; rfl
  | some r => left; exact (findR_some_mem e).1

theorem getR_hid (db : DB) (h : Nat) : (db.getR h).hid = h := by
  rw [getR_eq]
  cases e : findR db.recs h with
  | none => rfl
  | some r => exact (findR_some_mem e).2

theorem findR_modRecs (hid : Nat) (f : Rec → Rec) (hf : ∀ r, (f r).hid = r.hid) (rs : List Rec) (h : Nat) :
    findR (modRecs hid f rs) h = if h = hid then (findR rs h).map f else findR rs h := by
  induction rs with
  | nil => unfold modRecs findR; simp
  | cons r rs ih =>
    unfold modRecs
    by_cases e1 : r.hid = hid
    · have : (r.hid == hid) = true := by simpa using e1
      rw [if_pos this]
      unfold findR
      by_cases e2 : h = hid
      · subst e2
        simp [List.find?, hf, e1]
      · have hb : (hid == h) = false := by
          have : ¬ hid = h := fun hh => e2 hh.symm
          simpa using this
        simp [List.find?, hf, e1, e2, hb]
    · have : (r.hid == hid) = false := by simpa using e1
      rw [this]
      simp only [Bool.false_eq_true, if_false]
      unfold findR at ih ⊢
      by_cases e3 : r.hid = h
      · have : ¬ h = hid := by omega
        simp [List.find?, e3, this]
      · have e3' : (r.hid == h) = false := by simpa using e3
        simp only [List.find?, e3']
        exact ih

theorem getR_modR (db : DB) (hid : Nat) (f : Rec → Rec) (hf : ∀ r, (f r).hid = r.hid) (h : Nat) :
    (db.modR hid f).getR h = if h = hid then (if (findR db.recs h).isSome then f (db.getR h) else db.getR h) else db.getR h := by
  rw [getR_eq, getR_eq, modR_recs, findR_modRecs hid f hf]
  by_cases e : h = hid
  · simp only [e, if_true]
    cases findR db.recs hid <;> simp
  · simp [e]

theorem getR_modR_ne (db : DB) (hid : Nat) (f : Rec → Rec) (hf : ∀ r, (f r).hid = r.hid) (h : Nat) (hne : h ≠ hid) :
    (db.modR hid f).getR h = db.getR h := by
  rw [getR_modR db hid f hf]; simp [hne]

theorem mem_modRecs {hid : Nat} {f : Rec → Rec} {rs : List Rec} {x : Rec} (hx : x ∈ modRecs hid f rs) :
    x ∈ rs ∨ ∃ r, findR rs hid = some r ∧ x = f r := by
  induction rs with
  | nil => unfold modRecs at hx; simp at hx
  | cons r rs ih =>
    unfold modRecs at hx
    by_cases e1 : (r.hid == hid) = true
    · rw [if_pos e1] at hx
      rcases List.mem_cons.mp hx with h | h
      · right; exact ⟨r, by unfold findR; simp [List.find?, e1], h⟩
      · left; exact List.mem_cons_of_mem _ h
    · have e1' : (r.hid == hid) = false := by simpa using e1
      rw [e1'] at hx
      simp only [Bool.false_eq_true, if_false] at hx
      rcases List.mem_cons.mp hx with h | h
      · left; rw [h]; exact List.mem_cons_self
      · rcases ih h with h' | ⟨r', hr', hx'⟩
        · left; exact List.mem_cons_of_mem _ h'
        · right; exact ⟨r', by unfold findR at hr' ⊢; simp only [List.find?, e1']; exact hr', hx'⟩

/-- a property of every record survives `modR` if the update keeps it on the record it touches -/
theorem forall_modR {P : Rec → Prop} (db : DB) (hid : Nat) (f : Rec → Rec) (hall : ∀ r ∈ db.recs, P r)
    (hf : ∀ r ∈ db.recs, r.hid = hid → P r → P (f r)) : ∀ r ∈ (db.modR hid f).recs, P r := by
  intro x hx
  rcases mem_modRecs hx with h | ⟨r, hr, e⟩
  · exact hall x h
  · have := findR_some_mem hr
    rw [e]; exact hf r this.1 this.2 (hall r this.1)

theorem mem_toEnd {db : DB} {hid : Nat} {x : Rec} : x ∈ (db.toEnd hid).recs ↔ x ∈ db.recs := by
  unfold DB.toEnd
  simp only [List.mem_append, List.mem_filter]
  constructor
  · rintro (h | h) <;> exact h.1
  · intro h
    by_cases e : x.hid = hid
    · right; exact ⟨h, by simpa using e⟩
    · left; exact ⟨h, by simpa using e⟩

theorem findR_toEnd (rs : List Rec) (hid h : Nat) :
    findR (rs.filter (·.hid != hid) ++ rs.filter (·.hid == hid)) h = findR rs h := by
  unfold findR
  rw [List.find?_append]
  by_cases e : h = hid
  · subst e
    have h1 : (rs.filter (·.hid != h)).find? (·.hid == h) = none := by
      rw [List.find?_eq_none]; intro x hx
      have := (List.mem_filter.mp hx).2
      simpa using this
    rw [h1]; simp only [Option.none_or]
    rw [List.find?_filter]
    congr 1; funext x
    by_cases ex : x.hid = h <;> simp [ex]
  · have h2 : (rs.filter (·.hid != hid)).find? (·.hid == h) = rs.find? (·.hid == h) := by
      rw [List.find?_filter]
      congr 1; funext x
      by_cases ex : x.hid = h
      · have : ¬ h = hid := e
        simp [ex, this]
      · simp [ex]
    rw [h2]
    cases e3 : rs.find? (·.hid == h) with
    | some r => simp
    | none =>
      simp only [Option.none_or]
      rw [List.find?_eq_none] at e3 ⊢
      intro x hx; exact e3 x (List.mem_filter.mp hx).1

@[simp] theorem getR_toEnd (db : DB) (hid h : Nat) : (db.toEnd hid).getR h = db.getR h := by
  rw [getR_eq, getR_eq]; unfold DB.toEnd; simp only []; rw [findR_toEnd]

end Slock.Ack
