import Slock.Proofs.QueueLong
/-! C20: `Shrink` inside its precondition. -/
namespace Slock.Queue

/-- the states/arguments in which `Shrink` does nothing: a positive size smaller than the head node, or the
(never reached: only Shrink itself increments the counter) `shrinkNodeSize >= nodeSize` -/
def ShrinkNoop (q : Q) (sz : Nat) : Prop := (sz ≠ 0 ∧ sz < q.hqs) ∨ q.shrinkNodeSize ≥ q.nodeSize

instance (q : Q) (sz : Nat) : Decidable (ShrinkNoop q sz) := by unfold ShrinkNoop; exact inferInstance

/-- **Shrink** inside its precondition: returns 0 and changes nothing (content and invariant trivially kept).
Outside it Shrink frees the head node while it is in use: `shrink_breaks_len`. -/
theorem shrink_refines {q : Q} (h : QInv q) (sz : Nat) (hp : ShrinkNoop q sz) : shrink q sz = .ok (q, 0) := by
  have hqs := h.hqs
  unfold shrink
  rcases hp with ⟨h1, h2⟩ | h3
  · have c : ¬ sz ≥ q.hqs := by omega
    simp only [h1, if_false, Res.pure_eq, Res.ok_bind, shrinkLoop, size, hqs, c]
  · by_cases c0 : sz = 0
    · simp only [c0, if_true, size, hqs, Res.ok_bind, shrinkLoop, Nat.le_refl, ge_iff_le, h3, Res.pure_eq]
    · simp only [c0, if_false, Res.pure_eq, Res.ok_bind, shrinkLoop, size, hqs]
      by_cases c : sz ≥ q.hqs
      · simp [c, show q.nodeSize ≤ q.shrinkNodeSize from h3]
      · simp [c]

end Slock.Queue
