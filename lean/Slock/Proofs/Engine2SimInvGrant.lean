import Slock.Proofs.Engine2SimInvSteps
/-! Simulation stage 2 → stage 1: `KI` through the grant (`AddLock` … `AddExpried`), the wake pass. -/
namespace Slock.Sim
open Slock Slock.Engine2
open Slock.Engine (has)

theorem locksPush_nodup (k : Key) (rid : Nat) (hn : k.locks.Nodup) (hr : rid ∉ k.locks) : (k.locksPush rid).locks.Nodup := by
  unfold Key.locksPush
  simp only []
  split
  · exact List.nodup_append.mpr ⟨hn, by simp, by intro a ha b hb; simp at hb; rw [hb]; intro e; exact hr (e ▸ ha)⟩
  · split
    · simp
    · rw [(foldl_unref_queues _ _).1]
      have hk : (k.locks.filter (fun x => k.liveHolder x) ++ [rid]).Nodup :=
        List.nodup_append.mpr ⟨(List.filter_sublist).nodup hn, by simp, by
          intro a ha b hb; simp at hb; rw [hb]; intro e; exact hr (e ▸ (List.mem_filter.mp ha).1)⟩
      split <;> exact hk

theorem addLock_nodup (k : Key) (rid : Nat) (f : Rec → Rec) (hn : (k.current.toList ++ k.locks).Nodup) (hr : rid ∉ k.current.toList ++ k.locks) :
    ((k.addLock rid f).current.toList ++ (k.addLock rid f).locks).Nodup := by
  unfold Key.addLock
  cases hc : k.current with
  | none =>
    rw [hc] at hn hr
    simp only [Option.toList_none, List.nil_append] at hn hr
    show ([rid] ++ k.locks).Nodup
    exact List.nodup_append.mpr ⟨by simp, hn, by intro a ha b hb; simp at ha; rw [ha]; intro e; exact hr (e ▸ hb)⟩
  | some c =>
    rw [hc] at hn hr
    simp only []
    rw [locksPush_cur]
    have hc' : (k.modRec rid f).current = some c := hc
    rw [hc']
    show ([c] ++ ((k.modRec rid f).locksPush rid).locks).Nodup
    have hn' : ([c] ++ k.locks).Nodup := hn
    obtain ⟨_, h2, h3⟩ := List.nodup_append.mp hn'
    have hrl : rid ∉ k.locks := fun hm => hr (List.mem_append_right _ hm)
    have hrc : rid ≠ c := fun e => hr (by simp [e])
    refine List.nodup_append.mpr ⟨by simp, locksPush_nodup (k.modRec rid f) rid h2 hrl, ?_⟩
    intro a ha b hb
    simp at ha
    rw [ha]
    rcases locksPush_sub (k.modRec rid f) rid b hb with h4 | h4
    · exact h3 c (by simp) b h4
    · rw [h4]; exact fun e => hrc e.symm

/-- every other record reads the same after the grant -/
theorem grant_othersI (w : W) (rid : Nat) : PKeepX πI (· = rid) (w.grant rid).k w.k := by
  have hf := addLockF_fields w.db w.k
  have p1 : PKeepX πI (· = rid) ((w.addLock rid).modK incLocked).k w.k := by
    show PKeepX πI (· = rid) (incLocked (w.k.addLock rid (addLockF w.db w.k))) w.k
    refine PKeepX.trans (b := w.k.addLock rid (addLockF w.db w.k)) (PKeepX.of_eq rfl) ?_
    unfold Key.addLock
    split
    · exact PKeepX.trans (b := w.k.modRec rid (addLockF w.db w.k)) (PKeepX.of_eq rfl) (PKeepX.modRec (X := (· = rid)) w.k rid _ (fun r => (hf r).1) rfl)
    · exact (PKeepX.of_pk (PKeep.locksPush ins_πI _ rid)).trans (PKeepX.modRec (X := (· = rid)) w.k rid _ (fun r => (hf r).1) rfl)
  rw [grant_eq]
  generalize (w.addLock rid).modK incLocked = s0 at p1
  have p2 : PKeepX πI (· = rid) (grantMid s0 rid).k s0.k := by
    unfold grantMid
    exact (PKeepX.modRec (X := (· = rid)) _ rid (fun r => { r with data := none }) (fun _ => rfl) rfl).trans (PKeepX.of_pk (pk_procData ins_πI _ _ _ _ _))
  have p3 : PKeepX πI (· = rid) ((grantMid s0 rid).addExpried rid).k (grantMid s0 rid).k := by
    unfold W.addExpried
    simp only []
    refine (PKeepX.of_pk (pk_when _ _ _ (pk_pushLockAofN ins_πI _ _ _))).trans ?_
    unfold W.schedExpried
    exact PKeepX.modRec (X := (· = rid)) _ rid _ (fun _ => rfl) rfl
  have p4 : PKeepX πI (· = rid) (((grantMid s0 rid).addExpried rid).ref rid).k ((grantMid s0 rid).addExpried rid).k :=
    PKeepX.modRec (X := (· = rid)) _ rid (fun r => { r with refCount := r.refCount + 1 }) (fun _ => rfl) rfl
  exact (p4.trans (p3.trans p2)).trans p1

/-- the granted record: identity = the sequence number spent on it, depth 1, the new entry caches the counter -/
theorem grant_recI (w : W) (rid : Nat) (hh : w.k.hasRec rid) :
    ((w.grant rid).k.getR rid).hid = w.db.seq ∧ ((w.grant rid).k.getR rid).depth = 1 ∧
    ((w.grant rid).k.getR rid).conn = (w.k.getR rid).conn ∧ ((w.grant rid).k.getR rid).cmd = (w.k.getR rid).cmd ∧
    (∀ sc, ((w.grant rid).k.getR rid).eSched = some sc → sc.checked = ((w.grant rid).k.getR rid).eChecked) := by
  have hf := addLockF_fields w.db w.k
  have hm := addLockF_more w.db w.k
  obtain ⟨g0, hh0⟩ := keep_addLock w.k rid (addLockF w.db w.k) (fun r => (hf r).1) (fun r => (hf r).2.2.2.2.2.1) hh
  have hh0' : ((w.addLock rid).modK incLocked).k.hasRec rid := hh0
  have g0' : ((w.addLock rid).modK incLocked).k.getR rid = addLockF w.db w.k (w.k.getR rid) := g0
  obtain ⟨_, hG⟩ := grantTail_rec ((w.addLock rid).modK incLocked) rid hh0'
  rw [← grant_eq, g0'] at hG
  unfold πG at hG
  simp only [Prod.mk.injEq, Rec.armE] at hG
  obtain ⟨b1, b2, b3, b4, _, _, b7, b8⟩ := hG
  refine ⟨by rw [b1, (hm _).1], by rw [b4, (hf _).2.2.2.2.2.1], by rw [b3, (hf _).2.2.2.2.2.2.2.2], by rw [b2, (hf _).2.2.2.2.2.2.1], ?_⟩
  intro sc hsc
  rw [b8] at hsc
  rw [← Option.some.inj hsc, wheelAdd_checked, b7]

theorem WI.grant {w : W} (h : WI w) (rid : Nat) (g : Grantable w.k rid) (hnot : rid ∉ w.k.current.toList ++ w.k.locks) : WI (w.grant rid) := by
  obtain ⟨s1, _⟩ := grant_scal w rid
  obtain ⟨r1, r2, r3, r4, r5⟩ := grant_recI w rid g.has
  obtain ⟨_, _, r6⟩ := grant_rec w rid g.has
  obtain ⟨w1, _, _⟩ := grant_wait_t w rid
  have hq : (w.grant rid).k.current.toList ++ (w.grant rid).k.locks =
      (w.k.addLock rid (addLockF w.db w.k)).current.toList ++ (w.k.addLock rid (addLockF w.db w.k)).locks := by
    rw [grant_eq]
    obtain ⟨q1, q2, _⟩ := queues_eq (grantTail_sx ((w.addLock rid).modK incLocked) rid).q
    rw [q1, q2]; rfl
  refine KI.step1 (k := w.k) h rid (by rw [s1]; exact Nat.le_succ _) (grant_othersI w rid) (grant_sub w rid)
    (by rw [hq]; exact addLock_nodup w.k rid _ h.ln hnot) (by rw [w1]; exact h.nd) ?_ ?_ ?_ ?_ ?_
  · intro _; rw [r3, r4]; exact h.cs rid g.has
  · intro _; exact r5
  · intro _ _; rw [r1, s1]; exact Nat.lt_succ_self _
  · intro _ _ y _ hy hd e
    have := h.hlt y hy hd
    rw [r1] at e
    omega
  · intro _; rw [r6]; exact g.tomb

/-! ### the wake pass -/

theorem KI.getWaitLock {seq : Nat} {k : Key} (h : KI seq k) : KI seq k.getWaitLock.1 := by
  obtain ⟨pre, hp⟩ := waitSkip_suffix k.wait k rfl
  obtain ⟨c1, c2⟩ := waitSkip_cl k.wait k
  refine h.of_pk_sub ?_ ?_ (PKeep.getWaitLock ins_πI k)
  · show (k.getWaitLock.1.current.toList ++ k.getWaitLock.1.locks).Sublist _
    have e1 : k.getWaitLock.1.current = k.current := c1
    have e2 : k.getWaitLock.1.locks = k.locks := c2
    rw [e1, e2]; exact List.Sublist.refl _
  · have : (k.wait.map (·.rid)) = pre.map (·.rid) ++ k.getWaitLock.1.wait.map (·.rid) := by
      show (k.wait.map (·.rid)) = pre.map (·.rid) ++ (waitSkip k.wait k).1.wait.map (·.rid)
      rw [← List.map_append, ← hp]
    rw [this]
    exact List.sublist_append_right _ _

theorem KI.settleWait {seq : Nat} {k : Key} (h : KI seq k) : KI seq k.settleWait := by
  have h1 := h.getWaitLock
  unfold Key.settleWait
  split
  · exact ⟨h1.cs, h1.ck, h1.hlt, h1.hinj, h1.ht, h1.nd, h1.ln⟩
  · exact h1

theorem WI.wakePre {w : W} (h : WI w) (rid : Nat) : WI (wakePre w rid) := by
  unfold Slock.Sim.wakePre
  have h1 : WI (w.modR rid (fun r => { r with timeouted := true })) :=
    h.modR1 rid _ (fun _ => rfl) (fun x => x) (fun x => x) (fun hd => ⟨hd, rfl⟩) (fun _ => rfl)
  exact (h1.ik (IK.dropLongT _ rid)).ik (IK.ctr _ _)

theorem WI.wakeOne {w : W} (h : WI w) (l : Lv w zero) (rid : Nat) (hh : w.k.hasRec rid) (hd : w.k.deadWaiter rid = false) : WI (w.wakeOne rid) := by
  obtain ⟨_, g2, _⟩ := wake_prep zero_nonneg l rid hh hd (fun c => { c with waitCount := c.waitCount - 1 })
  have g2' : Grantable (Slock.Sim.wakePre w rid).k rid := g2
  have hp := h.wakePre rid
  have hnot : rid ∉ w.k.current.toList ++ w.k.locks := by
    intro hm
    have := h.ht rid hm
    unfold Key.deadWaiter at hd
    rw [this] at hd; exact absurd hd (by simp)
  obtain ⟨q1, q2, _⟩ := queues_eq (wakePre_sx w rid).q
  rw [wakeOne_eq]
  split
  · exact hp.grant rid g2' (by rw [q1, q2]; exact hnot)
  · exact ((hp.ik (IK.grantNoHold _ rid)).ik (IK.ctr _ _)).ik (IK.reply _ _ _ _ _)

theorem WI.modK_getWaitLock {w : W} (h : WI w) : WI (w.modK (·.getWaitLock.1)) := KI.getWaitLock h

theorem WI.wakePass (fuel : Nat) (w : W) (h : WI w) (g : Good w) : WI (W.wakePass fuel w) := by
  induction fuel generalizing w with
  | zero => exact h
  | succ n ih =>
    unfold W.wakePass
    simp only []
    have g1 := good_getWaitLock g
    have h1 := h.modK_getWaitLock
    split
    · have h2 : WI ((w.modK (·.getWaitLock.1)).modK clearWaited) := KI.of_pk h1 rfl (PKeep.of_eq rfl)
      exact h2.removeIfZero
    · rename_i rid hr
      split
      · exact h1
      · obtain ⟨e, rest, hw, he, hd⟩ := getWaitLock_some w.k rid hr
        obtain ⟨g2, _, _⟩ := g1.wakeOne rid e rest hw he hd
        have hh : (w.modK (·.getWaitLock.1)).k.hasRec rid := by
          have := wait_hasRec g1.lv e (by show e ∈ w.k.getWaitLock.1.wait; rw [hw]; simp)
          rw [he] at this; exact this
        exact ih _ (h1.wakeOne g1.lv rid hh hd) g2

theorem WI.wakePass_nil (fuel : Nat) (w : W) (h : WI w) (hw : w.k.wait = []) : WI (W.wakePass fuel w) := by
  cases fuel with
  | zero => exact h
  | succ n =>
    unfold W.wakePass
    simp only []
    have e : w.k.getWaitLock = (w.k, none) := by unfold Key.getWaitLock; rw [hw]; rfl
    rw [e]
    simp only []
    have e1 : w.modK (·.getWaitLock.1) = w := by
      show ({ w with k := w.k.getWaitLock.1 } : W) = w
      rw [e]
    rw [e1]
    have h2 : WI (w.modK clearWaited) := KI.of_pk h rfl (PKeep.of_eq rfl)
    exact h2.removeIfZero

/-- the wake pass at the end of a branch (a reclaimed key record has an empty queue) -/
theorem WI.wake {w : W} (h : WI w) (g : w.gone = false → Good w) (hgw : w.gone = true → w.k.wait = []) : WI w.wake := by
  unfold W.wake W.when
  split
  · cases hg : w.gone with
    | false => exact WI.wakePass _ w h (g hg)
    | true => exact WI.wakePass_nil _ w h (hgw hg)
  · exact h

end Slock.Sim
