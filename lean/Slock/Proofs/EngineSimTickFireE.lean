import Slock.Proofs.EngineSimTickVisitE
/-! Clock-tick simulation (`sim_tick`): `doExpried` of one collected hold (`W.fireExpire`) where the hold is not deferred (on the leader):
the entry of a record whose hold has ended is dropped (stuttering); a live hold ends — `RemoveLock`, the sweeper's reference dropped,
EXPRIED sent, then the wake pass — stage 1's `fireExpire` of that hold. -/
namespace Slock.SimTick
open Slock Slock.Sim Slock.Engine2
open Slock.Engine (has)

def exR (r : Rec) : Rec := { r with expried := true }
def subL (n : Nat) (k : Key) : Key := { k with locked := k.locked - n }
def ctrE (n : Nat) (y : Engine.Counters) : Engine.Counters := { y with lockedCount := y.lockedCount - n, expriedCount := y.expriedCount + 1 }

/-- the state just before `RemoveLock` -/
def preE (w : W) (rid : Nat) : W :=
  ((w.modR rid exR).modK (subL (w.k.getR rid).depth)).when (w.k.getR rid).isAof (·.pushUnLockAof rid (w.k.getR rid).cmd false false AOF_EXPRIED)

theorem fireExpire_live_eq (w : W) (rid : Nat) (hT : w.k.hasE rid = true) (hl : (w.k.getR rid).expried = false)
    (hdf : deferExpiry w.db (w.k.getR rid) = false) :
    w.fireExpire rid = (((((preE w rid).modK (·.removeLock rid)).dropE rid).ctr (ctrE (w.k.getR rid).depth)).reply
      { (w.k.getR rid).cmd with conn := (w.k.getR rid).conn } Engine.RESULT_EXPRIED 0
      ((((preE w rid).modK (·.removeLock rid)).dropE rid).ctr (ctrE (w.k.getR rid).depth)).lockData).wake := by
  unfold W.fireExpire
  simp only [hT, hl, hdf, Bool.not_true, Bool.false_eq_true, if_false]
  rfl

theorem preE_sc (w : W) (rid : Nat) : SC w (preE w rid) :=
  ((SC.modR w rid exR).trans (SC.modK _ _)).trans (SC.when _ _ _ (SC.pushUnLockAof _ _ _ _ _ _))

/-- the hold `rid` ends: the state after `RemoveLock` -/
theorem expire_live {w : W} (h : WSt w) (rid : Nat) (hT : w.k.hasE rid = true) (hl : (w.k.getR rid).expried = false) :
    Live ((preE w rid).modK (·.removeLock rid)) (endK (Key.abs w.k) (holdOf w.k rid)) ∧
    (((preE w rid).modK (·.removeLock rid)).k.hasRec rid ∧ (((preE w rid).modK (·.removeLock rid)).k.getR rid).eSched.isSome = true ∧
      (((preE w rid).modK (·.removeLock rid)).k.getR rid).depth = 0) := by
  have hs := hasE_spec _ rid hT
  have hdep := depth_pos_of_live h.good rid hs hl
  have g := h.good
  have l := g.lv
  -- reference counts
  have l1 : Lv (w.modR rid exR) zero := l.modR_plain rid exR (fun _ => rfl) (fun _ => rfl) (fun _ => rfl) (fun _ => rfl) (fun _ => rfl)
  have n1 : Nz (w.modR rid exR) (some rid) := (g.nz.weaken (some rid)).modR_ex rid exR (fun _ => rfl)
  have c1 := h.cl.of_dk (dk_modR w rid exR (fun _ => rfl) (fun _ => rfl)) l1
  have hh1 : (w.modR rid exR).k.hasRec rid := (hasRec_modR w rid rid exR (fun _ => rfl)).mpr hs.1
  have g1 : (w.modR rid exR).k.getR rid = exR (w.k.getR rid) := getR_modRec_same w.k rid exR (fun _ => rfl) hs.1
  have l2 : Lv ((w.modR rid exR).modK (subL (w.k.getR rid).depth)) zero := l1.modK _ (l1.rc.transfer rfl rfl (fun _ => rfl)) (RecsLe.of_eq rfl)
  have n2 : Nz ((w.modR rid exR).modK (subL (w.k.getR rid).depth)) (some rid) := n1.modK_eq _ rfl
  have c2 : CurLive ((w.modR rid exR).modK (subL (w.k.getR rid).depth)).k := c1
  have l3 : Lv (preE w rid) zero := l2.when _ _ (l2.pushUnLockAof _ _ _ _ _)
  have n3 : Nz (preE w rid) (some rid) :=
    n2.of_up (up_when _ _ (·.pushUnLockAof rid (w.k.getR rid).cmd false false AOF_EXPRIED) (up_pushUnLockAof _ _ _ _ _ _))
  have c3 : CurLive (preE w rid).k := c2.of_dk (dk_when _ (w.k.getR rid).isAof (·.pushUnLockAof rid (w.k.getR rid).cmd false false AOF_EXPRIED)
    (dk_pushUnLockAof _ _ _ _ _ _)) l3
  -- what stage 1 sees before `RemoveLock`
  have sx : SX (fun _ => False) w (preE w rid) :=
    SX.when (((SX.refl (X := fun _ => False) w).modR_eq rid exR (fun _ => rfl) (fun _ => rfl)).modK_same (subL (w.k.getR rid).depth) rfl rfl rfl rfl) _ _
      (fun h' => h'.pushUnLockAof rid _ false false AOF_EXPRIED)
  obtain ⟨q1, q2, q3⟩ := queues_eq sx.q
  have hlk3 : (preE w rid).k.locked = w.k.locked - (w.k.getR rid).depth := by
    show (((w.modR rid exR).modK (subL (w.k.getR rid).depth)).when _ _).k.locked = _
    rw [(FQ.when _ _ _ (FQ.pushUnLockAof _ _ _ _ _ _)).qt.locked]
    rfl
  have hπH : PK πH (preE w rid) w :=
    (pk_when _ _ _ (pk_pushUnLockAof ins_πH _ _ _ _ _ _)).trans ((pk_modK (w.modR rid exR) (subL (w.k.getR rid).depth) (PKeep.of_eq rfl)).trans
      (pk_modR (π := πH) w rid exR (fun _ => rfl) (fun _ => rfl)))
  have hπE : PK (·.eSched) (preE w rid) w :=
    (pk_when _ _ _ (pk_pushUnLockAof ins_eSched _ _ _ _ _ _)).trans ((pk_modK (w.modR rid exR) (subL (w.k.getR rid).depth) (PKeep.of_eq rfl)).trans
      (pk_modR (π := (·.eSched)) w rid exR (fun _ => rfl) (fun _ => rfl)))
  have hπX : PK (·.expried) (preE w rid) (w.modR rid exR) :=
    (pk_when _ _ _ (pk_pushUnLockAof ins_expried _ _ _ _ _ _)).trans (pk_modK (w.modR rid exR) (subL (w.k.getR rid).depth) (PKeep.of_eq rfl))
  have hrec3 : ∀ y ∈ w.k.current.toList ++ w.k.locks ++ w.k.wait.map (·.rid), (preE w rid).k.hasRec y := by
    intro y hy
    apply l3.rc.dang
    have := qRefs_pos_of_any w.k y hy
    have h0 := qRefs_of_queues sx.q y
    show 0 < ((preE w rid).k.qRefs y : Int) + 0
    omega
  have hh3 : (preE w rid).k.hasRec rid := hrec3 rid (List.mem_append_left _ (h.kt.hq rid hs.1 hdep))
  have hd3 : ((preE w rid).k.getR rid).depth = (w.k.getR rid).depth := congrArg (fun t => t.2.1) (hπH.val rid hh3)
  have he3 : ((preE w rid).k.getR rid).eSched = (w.k.getR rid).eSched := hπE.val rid hh3
  have hx3 : ((preE w rid).k.getR rid).expried = true := by
    rw [hπX.val rid hh3, g1]; rfl
  have wi3 : WI (preE w rid) :=
    ((h.wi.ik (IK.modR _ rid exR (fun _ => rfl) (fun _ => rfl))).ik (IK.modK _ (subL (w.k.getR rid).depth) rfl rfl rfl rfl)).ik
      (IK.when _ _ _ (IK.pushUnLockAof _ _ _ _ _ _))
  have hholders3 : (Key.abs (preE w rid).k).holders = (Key.abs w.k).holders :=
    abs_holders_congr q1 q2 sx.p (fun _ _ h' => h') (fun y hy => hrec3 y (List.mem_append_left _ hy))
  have hwaiters3 : (Key.abs (preE w rid).k).waiters = (Key.abs w.k).waiters :=
    abs_waiters_congr q3 sx.p (fun _ _ h' => h') (fun y hy => hrec3 y (List.mem_append_right _ hy))
  have hhold3 : holdOf (preE w rid).k rid = holdOf w.k rid := congrArg (fun t => t.1) (sx.p.val rid (fun h' => h') hh3)
  -- `RemoveLock`
  have l4 : Lv ((preE w rid).modK (·.removeLock rid)) zero := l3.modK (·.removeLock rid) (removeLock_rc zero_nonneg l3.rc rid) (RecsLe.removeLock _ _)
  have n4 : Nz ((preE w rid).modK (·.removeLock rid)) (some rid) := by
    have := nz_removeLock n3.nd rid n3.nz
    exact ⟨this.1, this.2⟩
  have c4 : CurLive ((preE w rid).modK (·.removeLock rid)).k := CurLive.removeLock c3 rid (hasRec_current l4)
  have hes3 : ((preE w rid).k.getR rid).eSched.isSome = true := by rw [he3]; exact hs.2
  obtain ⟨m1, m2, _⟩ := removeLock_keep zero_nonneg l3.rc rid rid hh3 (wheel_of_e hes3)
  have hes4 : (((preE w rid).modK (·.removeLock rid)).k.getR rid).eSched.isSome = true := by
    show (((preE w rid).k.removeLock rid).getR rid).eSched.isSome = true
    rw [m2]; exact hes3
  have hd4 : (((preE w rid).modK (·.removeLock rid)).k.getR rid).depth = 0 := removeLock_depth _ rid m1
  have hx4 : (((preE w rid).modK (·.removeLock rid)).k.getR rid).expried = true := by
    have p : PKeep (·.expried) ((preE w rid).k.removeLock rid) (preE w rid).k := PKeep.removeLock ins_expried (fun _ _ => rfl) _ rid
    show (((preE w rid).k.removeLock rid).getR rid).expried = true
    rw [p.val rid m1]; exact hx3
  have n4' : Nz ((preE w rid).modK (·.removeLock rid)) none := by
    refine n4.clear rid (fun hh => ⟨?_, ?_, fun _ => hd4, fun _ _ => hx4⟩)
    · have := l4.rc.refCount_of hh
      have hw := wheel_of_e hes4
      simp only [zero] at this
      omega
    · intro hd; rw [hd4] at hd; exact absurd hd (by simp)
  have wi4 : WI ((preE w rid).modK (·.removeLock rid)) := KI.removeLock wi3 rid
  have cn4 : CurNone ((preE w rid).modK (·.removeLock rid)).k := (h.cn.of_cl q1 q2).removeLock rid
  have hm3 : rid ∈ (preE w rid).k.current.toList ++ (preE w rid).k.locks := by rw [q1, q2]; exact h.kt.hq rid hs.1 hdep
  have hl3 : (preE w rid).k.liveHolder rid = true := by unfold Key.liveHolder; rw [hd3]; simpa using hdep
  have hnd3 : (Key.abs (preE w rid).k).holders.Nodup := by rw [hholders3]; exact nodup_of_hid h.wi.hidNodup
  have hrec5 : ∀ y ∈ (preE w rid).k.wait.map (·.rid), ((preE w rid).k.removeLock rid).hasRec y := by
    intro y hy
    obtain ⟨e, he, hey⟩ := List.mem_map.mp hy
    have := wait_hasRec l4 e (by show e ∈ ((preE w rid).k.removeLock rid).wait; rw [removeLock_wait]; exact he)
    rw [← hey]; exact this
  have habs4 : Key.abs ((preE w rid).modK (·.removeLock rid)).k = endK (Key.abs w.k) (holdOf w.k rid) := by
    show Key.abs ((preE w rid).k.removeLock rid) = _
    rw [abs_removeLock (preE w rid).k rid hm3 hl3 hh3 c3 hnd3 wi3.wq.sep hrec5, hhold3, hholders3]
    refine abs_ext sx.key ?_ rfl hwaiters3 sx.waited
    show (preE w rid).k.locked = w.k.locked - (holdOf w.k rid).depth
    rw [hlk3]; rfl
  exact ⟨⟨⟨l4, n4'⟩, c4, cn4, wi4.wq, habs4⟩, m1, hes4, hd4⟩

theorem endK_fl (k : Engine.Key) (x : Engine.Hold) (h : k.waited = true → k.waiters ≠ []) : (endK k x).waited = true → (endK k x).waiters ≠ [] := h

/-- **`doExpried` of a live hold**, working-state level: the state before the wake pass -/
theorem fireE_rel {w : W} (h : WSt w) (a : Engine.DB) (sc : Scal a w.db) (out1 : List Engine.Reply) (ho : w.out.map (·.r) = out1) (rid : Nat)
    (hT : w.k.hasE rid = true) (hl : (w.k.getR rid).expried = false) :
    Rel (((((preE w rid).modK (·.removeLock rid)).dropE rid).ctr (ctrE (w.k.getR rid).depth)).reply
        { (w.k.getR rid).cmd with conn := (w.k.getR rid).conn } Engine.RESULT_EXPRIED 0
        ((((preE w rid).modK (·.removeLock rid)).dropE rid).ctr (ctrE (w.k.getR rid).depth)).lockData)
      (exDb a (w.k.getR rid).depth) (endK (Key.abs w.k) (holdOf w.k rid))
      (out1 ++ [exReply (Key.abs w.k) (holdOf w.k rid)]) := by
  have hs := hasE_spec _ rid hT
  have hdep := depth_pos_of_live h.good rid hs hl
  obtain ⟨lv, m1, m2, m3⟩ := expire_live h rid hT hl
  have sc4 : SC w ((preE w rid).modK (·.removeLock rid)) := (preE_sc w rid).trans (SC.modK _ _)
  have ki1 : Engine.KeyInv (endK (Key.abs w.k) (holdOf w.k rid)) := Engine.release_inv h.k1.ki (live_mem_holders h.kt rid hs.1 hdep)
  have r4 : Rel ((preE w rid).modK (·.removeLock rid)) a (endK (Key.abs w.k) (holdOf w.k rid)) out1 :=
    Rel.of_live (sc4.gone.trans h.hg) (sc4.scal sc) (by rw [sc4.out]; exact ho) ki1 lv
  have r5 := rel_dropE r4 (endK_fl _ _ h.k1.fl) rid (fun _ => ⟨m1, m2, m3⟩)
  have r6 := r5.ctr (ctrE (w.k.getR rid).depth)
  exact r6.reply { (w.k.getR rid).cmd with conn := (w.k.getR rid).conn } Engine.RESULT_EXPRIED 0
    ((((preE w rid).modK (·.removeLock rid)).dropE rid).ctr (ctrE (w.k.getR rid).depth)).lockData

/-- **`doExpried` of a live hold (not deferred)** is stage 1's `fireExpire` -/
theorem sim_fireE_live (s : DB) (hq : DBQ s) (hk : DBK s) (hkt : DBKT s) (key rid : Nat) (k1 : K1 (s.getKey key))
    (hT : (s.getKey key).hasE rid = true) (hl : ((s.getKey key).getR rid).expried = false)
    (hdf : deferExpiry s ((s.getKey key).getR rid) = false) :
    Equiv (Engine2.abs (fireExpire s key rid).1) (Engine.fireExpire (Engine2.abs s) key (holdOf (s.getKey key) rid)).1 ∧
    (fireExpire s key rid).2.map (·.r) = (Engine.fireExpire (Engine2.abs s) key (holdOf (s.getKey key) rid)).2 := by
  have hs := hasE_spec _ rid hT
  have hws := ws_open s hq hk hkt key k1 (openKey_live_of_hasRec s key rid hs.1)
  have rel := fireE_rel hws (Engine2.abs s) (scal_openKey s key) [] rfl rid hT hl
  obtain ⟨r1, r2, r3⟩ := rel.wake
  unfold fireExpire
  simp only []
  have hdf' : deferExpiry (s.openKey key).db ((s.openKey key).k.getR rid) = false := hdf
  rw [fireExpire_live_eq _ rid hT hl hdf', fireExpire_eq, abs_getKey s hq.dbt.dbi.kn key]
  have ek : (s.openKey key).k = s.getKey key := rfl
  rw [ek] at r1 r2 r3 ⊢
  simp only [List.nil_append] at r1 r2 r3
  have ed : (holdOf (s.getKey key) rid).depth = ((s.getKey key).getR rid).depth := rfl
  rw [ed]
  refine ⟨?_, r3⟩
  have f := W.fireExpire_fr (s.openKey key) rid
  rw [fireExpire_live_eq _ rid hT hl hdf', ek] at f
  have hdbi := hq.dbt.dbi
  have hsd := (hdbi.openKey key).of_fr f
  have hkn' := (fireExpireStep_dbi (s, []) ⟨key, rid, 0⟩ hdbi).kn
  unfold fireExpireStep fireExpire at hkn'
  simp only [] at hkn'
  rw [fireExpire_live_eq _ rid hT hl hdf', ek] at hkn'
  exact sim_commit s key _ _ f (getKey_key _ _) (fun _ _ => rfl) hsd hdbi.kn hkn' _ _ (by rw [Engine.wake_key]; exact getKey_key s key)
    (fun n => by unfold Engine.DB.getKey; rw [Engine.wake_keys]; rfl) r1.now r1.tCheck r1.eCheck r1.seq r1.leader r1.ctr r2

/-- **`doExpried` of an entry whose record's hold has ended** (no such entry, or `expried` set): a stuttering step, no reply -/
theorem sim_fireE_stutter (s : DB) (hq : DBQ s) (hk : DBK s) (key rid : Nat) (k1 : K1 (s.getKey key))
    (h : (s.getKey key).hasE rid = false ∨ ((s.getKey key).getR rid).expried = true) :
    Equiv (Engine2.abs (fireExpire s key rid).1) (Engine2.abs s) ∧ (fireExpire s key rid).2 = [] := by
  have r0 := rel_open s hq key (hk.getKey key) k1.ki
  unfold fireExpire W.fireExpire
  simp only []
  cases hT : (s.getKey key).hasE rid with
  | false =>
    have : (s.openKey key).k.hasE rid = false := hT
    simp only [this, Bool.not_false, if_true]
    exact ⟨rel_commit_same s hq key _ (Fr.wheelBroken _) (rel_wheelBroken r0), rfl⟩
  | true =>
    have hT' : (s.openKey key).k.hasE rid = true := hT
    have hto : ((s.openKey key).k.getR rid).expried = true := by
      rcases h with h | h
      · rw [hT] at h; exact absurd h (by simp)
      · exact h
    simp only [hT', Bool.not_true, Bool.false_eq_true, if_false, hto, if_true]
    have hs := hasE_spec _ rid hT
    have ge := Good.openKey hq.dbt.dbi hq.dbt.tight key
    have hd0 : ((s.openKey key).k.getR rid).depth = 0 := (recFine_of ge rid hs.1).ended hto
    have r1 := rel_dropE r0 k1.fl rid (fun _ => ⟨hs.1, hs.2, hd0⟩)
    refine ⟨rel_commit_same s hq key _ (Fr.dropE _ _) r1, ?_⟩
    have := r1.out
    simpa using this

end Slock.SimTick
