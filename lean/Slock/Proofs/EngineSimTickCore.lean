import Slock.Proofs.EngineSimTickSweepE
import Slock.Proofs.EngineSimTickKTRun
/-! Clock-tick simulation: **one second of server time** (`opTick`: clock + 1, timeout sweep, expiry sweep) of the record-level model on the
leader is stage 1's `opTick` — working form, over the invariant bundles `Sy` (record level) and `I1` (stage 1). -/
namespace Slock.SimTick
open Slock Slock.Sim Slock.Engine2
open Slock.Engine (has)

theorem Sy.of_keys {s s' : DB} (h : Sy s) (h1 : s'.keys = s.keys) (h2 : s'.keyCount = s.keyCount) (h3 : s'.nextRid = s.nextRid) (h4 : s'.seq = s.seq) : Sy s' :=
  ⟨h.dbq.of_keys h1 h2 h3, h.dbk.of_keys h1 h4, h.dbkt.of_keys h1⟩

theorem opTick2_eq (s : DB) :
    opTick s = ((sweepExpire { (sweepTimeout { s with now := s.now + 1, tCheck := s.now + 1 + 1 } (s.now + 1)).1 with eCheck := s.now + 1 + 1 } (s.now + 1)).1,
      (sweepTimeout { s with now := s.now + 1, tCheck := s.now + 1 + 1 } (s.now + 1)).2 ++
      (sweepExpire { (sweepTimeout { s with now := s.now + 1, tCheck := s.now + 1 + 1 } (s.now + 1)).1 with eCheck := s.now + 1 + 1 } (s.now + 1)).2) := rfl

theorem opTick1_eq (a : Engine.DB) :
    Engine.opTick a = ((Engine.sweepExpire { (Engine.sweepTimeout { a with now := a.now + 1, tCheck := a.now + 1 + 1 } (a.now + 1)).1 with eCheck := a.now + 1 + 1 } (a.now + 1)).1,
      (Engine.sweepTimeout { a with now := a.now + 1, tCheck := a.now + 1 + 1 } (a.now + 1)).2 ++
      (Engine.sweepExpire { (Engine.sweepTimeout { a with now := a.now + 1, tCheck := a.now + 1 + 1 } (a.now + 1)).1 with eCheck := a.now + 1 + 1 } (a.now + 1)).2) := rfl

theorem sim_tick_core (s : DB) (a : Engine.DB) (sy : Sy s) (i1 : I1 a) (he : Equiv (Engine2.abs s) a) (hld : s.leader = true) :
    Sy (opTick s).1 ∧ I1 (Engine.opTick a).1 ∧ Equiv (Engine2.abs (opTick s).1) (Engine.opTick a).1 ∧
    (opTick s).2.map (·.r) = (Engine.opTick a).2 := by
  rw [opTick2_eq, opTick1_eq]
  simp only []
  have hnow : s.now = a.now := he.now
  rw [← hnow]
  -- the clock moves
  have sy0 : Sy { s with now := s.now + 1, tCheck := s.now + 1 + 1 } := sy.of_keys rfl rfl rfl rfl
  have i0 : I1 { a with now := s.now + 1, tCheck := s.now + 1 + 1 } := i1.of_keys_eq rfl (Nat.le_refl _)
  have he0 : Equiv (Engine2.abs { s with now := s.now + 1, tCheck := s.now + 1 + 1 }) { a with now := s.now + 1, tCheck := s.now + 1 + 1 } :=
    ⟨rfl, rfl, he.eCheck, he.seq, he.leader, he.ctr, fun n => he.keys n⟩
  obtain ⟨t1, t2, t3, t4⟩ := sim_sweepT _ _ (s.now + 1) sy0 i0 he0
  have hl1 : (sweepTimeout { s with now := s.now + 1, tCheck := s.now + 1 + 1 } (s.now + 1)).1.leader = true :=
    (sweepTimeout_journal _ _).1.trans hld
  have sy2 : Sy { (sweepTimeout { s with now := s.now + 1, tCheck := s.now + 1 + 1 } (s.now + 1)).1 with eCheck := s.now + 1 + 1 } :=
    t1.of_keys rfl rfl rfl rfl
  have i2 : I1 { (Engine.sweepTimeout { a with now := s.now + 1, tCheck := s.now + 1 + 1 } (s.now + 1)).1 with eCheck := s.now + 1 + 1 } :=
    t2.of_keys_eq rfl (Nat.le_refl _)
  have he2 : Equiv (Engine2.abs { (sweepTimeout { s with now := s.now + 1, tCheck := s.now + 1 + 1 } (s.now + 1)).1 with eCheck := s.now + 1 + 1 })
      { (Engine.sweepTimeout { a with now := s.now + 1, tCheck := s.now + 1 + 1 } (s.now + 1)).1 with eCheck := s.now + 1 + 1 } :=
    ⟨t3.now, t3.tCheck, rfl, t3.seq, t3.leader, t3.ctr, fun n => t3.keys n⟩
  obtain ⟨u1, u2, u3, u4⟩ := sim_sweepE _ _ (s.now + 1) sy2 i2 he2 hl1
  exact ⟨u1, u2, u3, by rw [List.map_append, t4, u4]⟩

end Slock.SimTick
