import Slock.Proofs.Engine2Recs
/-! Stage-2 engine: the value cell through a whole LOCK / UNLOCK (for C15, engine part). -/
namespace Slock.Engine2
open Slock.Value (Cell getLockData processFrame)
open Slock.Engine (has mkReply)

theorem commit_getKey (w : W) (hg : w.gone = false) : w.commit.getKey w.k.key = w.k := by
  unfold W.commit; simp only [hg, Bool.false_eq_true, if_false]; exact getKey_setKey_same _ _

theorem commit_of_gone (w : W) (hg : w.gone = true) : w.commit = w.db := by unfold W.commit; simp [hg]

/-- the key record an operation ends with, as the database shows it afterwards: the record itself, or nothing (reclaimed) -/
theorem commit_cases (w : W) (n : Nat) (hk : w.k.key = n) (hr : w.gone = true → w.db.hasKey n = false) :
    (w.gone = false ∧ w.commit.getKey n = w.k) ∨ (w.gone = true ∧ w.commit.hasKey n = false) := by
  cases hg : w.gone with
  | false => left; exact ⟨rfl, by rw [← hk]; exact commit_getKey w hg⟩
  | true => right; exact ⟨rfl, by rw [commit_of_gone w hg]; exact hr hg⟩

theorem applyLock_key (db : DB) (c : Cmd) (data : Option Bytes) (b : LockBranch) : (applyLock db c data b).k.key = c.key := by
  rw [(applyLock_fr db c data b).key, (lockBase_db db c b).2.2.2.1]; exact getKey_key _ _

theorem applyUnlock_key (db : DB) (c : Cmd) (data : Option Bytes) (b : UnlockBranch) : (applyUnlock db c data b).k.key = c.key := by
  rw [(applyUnlock_fr db c data b).key]; exact getKey_key _ _

theorem lockBase_goneOK (db : DB) (c : Cmd) (b : LockBranch) : (lockBase db c b).gone = true → (lockBase db c b).db.hasKey c.key = false := by
  cases b <;> simp [lockBase, enter_gone, DB.openKey]

/-- a chain of steps that may reclaim the record only through `removeIfZero`: "gone ⇒ unlinked" is kept -/
structure GoneOK (n : Nat) (w : W) : Prop where
  key : w.k.key = n
  ok : w.gone = true → w.db.hasKey n = false

theorem GoneOK.of_fq {n : Nat} {w w' : W} (h : GoneOK n w) (f : FQ w w') (hk : w'.db.keys = w.db.keys) : GoneOK n w' :=
  ⟨f.fr.key.trans h.key, fun hg => by rw [hasKey_congr hk]; exact h.ok (by rw [← f.qt.gone]; exact hg)⟩

theorem GoneOK.removeIfZero {n : Nat} {w : W} (h : GoneOK n w) : GoneOK n w.removeIfZero := by
  refine ⟨by rw [removeIfZero_key]; exact h.key, fun hg => ?_⟩
  cases h0 : w.gone with
  | true =>
    have : w.removeIfZero = w := by unfold W.removeIfZero; simp [h0]
    rw [this]; exact h.ok h0
  | false =>
    have := (removeIfZero_reclaimed w hg h0).2
    rw [removeIfZero_key, h.key] at this; exact this

theorem GoneOK.reply {n : Nat} {w : W} (h : GoneOK n w) (c : Cmd) (a b : Nat) (d : Option Bytes) : GoneOK n (w.reply c a b d) :=
  ⟨h.key, h.ok⟩

theorem GoneOK.enter (db : DB) (n : Nat) : GoneOK n (db.enter n) :=
  ⟨by rw [enter_k]; exact getKey_key _ _, fun hg => by rw [enter_gone] at hg; exact absurd hg (by simp)⟩
theorem GoneOK.openKey (db : DB) (n : Nat) : GoneOK n (db.openKey n) :=
  ⟨getKey_key _ _, fun hg => by simpa [DB.openKey] using hg⟩

/-- what the database shows for the key afterwards -/
theorem GoneOK.commit {n : Nat} {w : W} (h : GoneOK n w) :
    (w.gone = false ∧ w.commit.getKey n = w.k) ∨ (w.gone = true ∧ w.commit.hasKey n = false) := commit_cases w n h.key h.ok

/-! ### a refused LOCK leaves the value alone -/

def LockBranch.refuses : LockBranch → Bool
  | .p0a | .p0b | .stateError | .show _ | .updateEqual _ | .relockRefused _ | .unlockedWaitRefused | .timeout => true
  | _ => false

theorem newLock_keys (w : W) (c : Cmd) (d : Option Bytes) : (w.newLock c d).1.db.keys = w.db.keys := rfl

theorem refused_lock_cell (db : DB) (c : Cmd) (data : Option Bytes) (b : LockBranch) (hb : b.refuses = true) :
    ((applyLock db c data b).commit.getKey c.key).cell = (db.getKey c.key).cell ∨ (applyLock db c data b).commit.hasKey c.key = false := by
  have fin : ∀ w : W, GoneOK c.key w → (w.gone = false → w.k.cell = (db.getKey c.key).cell) →
      (w.commit.getKey c.key).cell = (db.getKey c.key).cell ∨ w.commit.hasKey c.key = false := by
    intro w h hc
    rcases h.commit with ⟨hg, e⟩ | ⟨_, e⟩
    · left; rw [e]; exact hc hg
    · right; exact e
  cases b with
  | p0a => exact fin _ ((GoneOK.openKey db c.key).reply _ _ _ _) (fun _ => rfl)
  | p0b => exact fin _ ⟨getKey_key _ _, (GoneOK.openKey db c.key).ok⟩ (fun _ => rfl)
  | stateError =>
    simp only [applyLock]
    refine fin _ ((GoneOK.enter db c.key).removeIfZero.reply _ _ _ _) ?_
    intro hg
    rcases removeIfZero_cases (db.enter c.key) with e | ⟨hg', _⟩
    · simp only [reply_k]; rw [e, enter_k]
    · simp only [reply_gone] at hg; rw [hg'] at hg; exact absurd hg (by simp)
  | «show» cur => exact fin _ ((GoneOK.enter db c.key).reply _ _ _ _) (fun _ => by simp only [applyLock, reply_k]; rw [enter_k])
  | updateEqual h => exact fin _ ((GoneOK.enter db c.key).reply _ _ _ _) (fun _ => by simp only [applyLock, reply_k]; rw [enter_k])
  | relockRefused h => exact fin _ ((GoneOK.enter db c.key).reply _ _ _ _) (fun _ => by simp only [applyLock, reply_k]; rw [enter_k])
  | unlockedWaitRefused => exact fin _ ((GoneOK.enter db c.key).reply _ _ _ _) (fun _ => by simp only [applyLock, reply_k]; rw [enter_k])
  | timeout =>
    simp only [applyLock]
    have h1 : GoneOK c.key ((db.enter c.key).newLock c data).1 := (GoneOK.enter db c.key).of_fq (FQ.newLock _ _ _) rfl
    have h2 : GoneOK c.key (((db.enter c.key).newLock c data).1.modK (·.free ((db.enter c.key).newLock c data).2)) :=
      h1.of_fq (FQ.modK _ _ (by simp) (by simp) (by simp)) rfl
    refine fin _ (h2.removeIfZero.reply _ _ _ _) ?_
    intro hg
    unfold W.freeCheck at hg ⊢
    rcases removeIfZero_cases (((db.enter c.key).newLock c data).1.modK (·.free ((db.enter c.key).newLock c data).2)) with e | ⟨hg', _⟩
    · simp only [reply_k]; rw [e]; simp [W.newLock, enter_k, Key.addRec]
    · simp only [reply_gone] at hg; rw [hg'] at hg; exact absurd hg (by simp)
  | updateEqualData _ | update _ | relockNoHold _ | relock _ | grant | grantNoHold | queue => simp [LockBranch.refuses] at hb

/-! ### a refused UNLOCK leaves the whole key record alone -/

def UnlockBranch.refuses : UnlockBranch → Bool
  | .noManager | .stateError | .notLocked | .unown | .cancelNone => true
  | _ => false

theorem refused_unlock_key (db : DB) (c : Cmd) (data : Option Bytes) (b : UnlockBranch) (hb : b.refuses = true) (n : Nat) :
    (applyUnlock db c data b).commit.getKey n = db.getKey n := by
  have fin : ∀ w : W, w.k = db.getKey c.key → w.gone = (!db.hasKey c.key) → w.db.keys = db.keys → w.commit.getKey n = db.getKey n := by
    intro w hk hg hdb
    cases hh : db.hasKey c.key with
    | false =>
      rw [commit_of_gone w (by rw [hg, hh]; rfl)]
      unfold DB.getKey DB.findKey; rw [hdb]
    | true =>
      have hgf : w.gone = false := by rw [hg, hh]; rfl
      unfold W.commit; simp only [hgf, Bool.false_eq_true, if_false]
      by_cases e : n = c.key
      · subst e
        have := getKey_setKey_same w.db w.k
        rw [hk, getKey_key] at this; rw [hk]; exact this
      · rw [getKey_setKey_other _ _ _ (by rw [hk, getKey_key]; exact e)]
        unfold DB.getKey DB.findKey; rw [hdb]
  cases b with
  | noManager => exact fin _ rfl rfl rfl
  | stateError | notLocked | unown | cancelNone => exact fin _ rfl rfl rfl
  | cancel _ | dec _ _ | release _ _ => simp [UnlockBranch.refuses] at hb

/-! ### an accepted value-carrying request: the cell afterwards is `processFrame` of the cell before -/

/-- the `Ctx` a call site of `ProcessLockData` has: `locked` as the site has already adjusted it -/
def ctxAt (k : Key) (locked : Nat) (ct : Slock.Value.CmdType) (c : Cmd) : Slock.Value.Ctx :=
  ⟨locked, k.waited, ct, updOrZero c, has c.flag Slock.Engine.F_FROM_AOF, false⟩

theorem value_after (n : Nat) (wf : W) (hk : wf.k.key = n) (hg : wf.gone = false) : wf.commit.getKey n = wf.k := by
  have := commit_getKey wf hg
  rw [hk] at this; exact this

theorem pushUnLockAof_waited (w : W) (rid : Nat) (lc : Cmd) (fa ia : Bool) (flag : Nat) :
    (w.pushUnLockAof rid lc fa ia flag).k.waited = w.k.waited := by
  unfold W.pushUnLockAof
  split
  · rfl
  · split
    · simp
    · simp

theorem journalUnlock_waited (w : W) (rid : Nat) (a b : Bool) (fl : Nat) : (w.journalUnlock rid a b fl).k.waited = w.k.waited := by
  unfold W.journalUnlock W.when
  split
  · exact pushUnLockAof_waited _ _ _ _ _ _
  · rfl

theorem wake_of_not_waited (w : W) (h : w.k.waited = false) : w.wake = w := by unfold W.wake; rw [h]; rfl

theorem pushLockAof_waited (w : W) (rid flag : Nat) : (w.pushLockAof rid flag).k.waited = w.k.waited := by
  unfold W.pushLockAof
  split
  · rfl
  · simp only []
    split
    · rfl
    · exact aofLockData_waited w.k true rid

theorem pushLockAofN_waited (n : Nat) (w : W) (rid : Nat) : (W.pushLockAofN n w rid).k.waited = w.k.waited := by
  induction n generalizing w with
  | zero => rfl
  | succ n ih => unfold W.pushLockAofN; exact (ih _).trans (pushLockAof_waited _ _ _)

theorem journalLock_waited (w : W) (rid flag : Nat) : (w.journalLock rid flag).k.waited = w.k.waited := by
  unfold W.journalLock W.when
  split
  · exact pushLockAof_waited _ _ _
  · rfl

theorem addExpried_waited (w : W) (rid : Nat) : (w.addExpried rid).k.waited = w.k.waited := by
  unfold W.addExpried W.when
  simp only []
  split
  · exact (pushLockAofN_waited _ _ _).trans rfl
  · rfl

theorem updateLocked_waited (w : W) (rid : Nat) (c : Cmd) : (w.updateLocked rid c).k.waited = w.k.waited := by
  unfold W.updateLocked W.when
  simp only []
  split
  · show (((w.modR rid _).removeLongE rid).addExpried rid).k.waited = w.k.waited
    rw [addExpried_waited]; rfl
  · rfl

/-- re-lock (`L1f`) on a key nobody waits for (a wake pass follows the reply): `locked` already counts the new level -/
theorem relock_value (db : DB) (c : Cmd) (data : Option Bytes) (h : Nat) (f : Bytes) (cell' : Option Cell)
    (hw : (db.getKey c.key).waited = false) (hf : frameOf c data = some f)
    (hp : processFrame (ctxAt (db.getKey c.key) ((db.getKey c.key).locked + 1) .lock c) (db.getKey c.key).cell f = .ok cell') :
    vstrip ((applyLock db c data (.relock h)).commit.getKey c.key).cell = vstrip cell' := by
  have hkey := applyLock_key db c data (.relock h)
  simp only [applyLock] at hkey ⊢
  rw [hf] at hkey ⊢
  have hspec := procData_spec (((db.enter c.key).modR h (fun r => { r with depth := r.depth + 1 })).modK incLocked) .lock c f h cell'
    (by simpa [frameCtx, ctxAt, incLocked, enter_k] using hp)
  rw [← hspec.1]
  have q := ((FQ.updateLocked ((((db.enter c.key).modR h (fun r => { r with depth := r.depth + 1 })).modK incLocked).procData .lock c (some f) h) h c).trans
    (FQ.journalLock _ h AOF_UPDATED)).trans (FQ.ctr _ (fun x => { x with lockCount := x.lockCount + 1, lockedCount := x.lockedCount + 1 }))
  rw [wake_of_not_waited _ (by
    simp only [reply_k, ctr_k]
    rw [journalLock_waited, updateLocked_waited, procData_waited]
    show (db.enter c.key).k.waited = false
    rw [enter_k]; exact hw)] at hkey ⊢
  rw [value_after c.key _ hkey (by simp only [reply_gone]; rw [q.qt.gone]; simp [enter_gone])]
  simp only [reply_k]; exact q.qt.cell

/-- update (`L1d`, answered LOCKED_ERROR, which the reading note of C15 counts as accepted) -/
theorem update_value (db : DB) (c : Cmd) (data : Option Bytes) (h : Nat) (f : Bytes) (cell' : Option Cell)
    (hw : (db.getKey c.key).waited = false) (hf : frameOf (lockCmdOf (db.getKey c.key) c (.update h)) data = some f)
    (hp : processFrame (ctxAt (db.getKey c.key) (db.getKey c.key).locked .lock (lockCmdOf (db.getKey c.key) c (.update h)))
      (db.getKey c.key).cell f = .ok cell') :
    vstrip ((applyLock db c data (.update h)).commit.getKey c.key).cell = vstrip cell' := by
  have hkey := applyLock_key db c data (.update h)
  simp only [applyLock] at hkey ⊢
  rw [enter_k, hf] at hkey ⊢
  have hspec := procData_spec (db.enter c.key) .lock (lockCmdOf (db.getKey c.key) c (.update h)) f h cell'
    (by simpa [frameCtx, ctxAt, enter_k] using hp)
  rw [← hspec.1]
  have q := (FQ.updateLocked ((db.enter c.key).procData .lock (lockCmdOf (db.getKey c.key) c (.update h)) (some f) h) h
    (lockCmdOf (db.getKey c.key) c (.update h))).trans
    (FQ.when _ (!has (lockCmdOf (db.getKey c.key) c (.update h)).flag Slock.Engine.F_FROM_AOF) (·.journalLock h AOF_UPDATED) (FQ.journalLock _ _ _))
  rw [wake_of_not_waited _ (by
    simp only [reply_k]
    have hwhen : ∀ (w : W) (b : Bool), (w.when b (·.journalLock h AOF_UPDATED)).k.waited = w.k.waited := by
      intro w b; cases b
      · rfl
      · exact journalLock_waited w h AOF_UPDATED
    rw [hwhen, updateLocked_waited, procData_waited, enter_k]; exact hw)] at hkey ⊢
  rw [value_after c.key _ hkey (by simp only [reply_gone]; rw [q.qt.gone]; simp [enter_gone])]
  simp only [reply_k]; exact q.qt.cell

/-- unlock of one level (`U4`) on a key nobody waits for: `locked` already lowered -/
theorem dec_value (db : DB) (c : Cmd) (data : Option Bytes) (h : Nat) (c' : Cmd) (f : Bytes) (cell' : Option Cell)
    (hk : db.hasKey c.key = true) (hw : (db.getKey c.key).waited = false) (hf : frameOf c' data = some f)
    (hp : processFrame (ctxAt (db.getKey c.key) ((db.getKey c.key).locked - 1) .unlock c') (db.getKey c.key).cell f = .ok cell') :
    vstrip ((applyUnlock db c data (.dec h c')).commit.getKey c.key).cell = vstrip cell' := by
  have hkey := applyUnlock_key db c data (.dec h c')
  simp only [applyUnlock] at hkey ⊢
  rw [hf] at hkey ⊢
  have hspec := procData_spec (((db.openKey c.key).modR h (fun r => { r with depth := r.depth - 1 })).modK
    (fun k => { k with locked := k.locked - 1 })) .unlock c' f h cell' (by simpa [frameCtx, ctxAt, DB.openKey] using hp)
  rw [← hspec.1]
  have q := (FQ.journalUnlock ((((db.openKey c.key).modR h (fun r => { r with depth := r.depth - 1 })).modK
    (fun k => { k with locked := k.locked - 1 })).procData .unlock c' (some f) h) h (has c'.flag Slock.Engine.F_FROM_AOF) true AOF_UPDATED).trans
    (FQ.ctr _ (fun y => { y with unLockCount := y.unLockCount + 1, lockedCount := y.lockedCount - 1 }))
  have hwt := journalUnlock_waited
  rw [wake_of_not_waited _ (by simp only [reply_k, ctr_k]; rw [hwt]; simpa [DB.openKey] using hw)] at hkey ⊢
  rw [value_after c.key _ hkey (by simp only [reply_gone]; rw [q.qt.gone]; simp [DB.openKey, hk])]
  simp only [reply_k]; exact q.qt.cell

end Slock.Engine2
