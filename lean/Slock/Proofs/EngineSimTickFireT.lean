import Slock.Proofs.EngineSimTickVisitT
/-! Clock-tick simulation (`sim_tick`): `doTimeOut` of one collected request (`W.fireTimeout`): the entry of a record that is not a live
request any more is dropped (stuttering); a live request is tombstoned where it sits, the wait queue settled, the sweeper's reference
dropped, TIMEOUT sent, then the wake pass — stage 1's `fireTimeout` of that request. -/
namespace Slock.SimTick
open Slock Slock.Sim Slock.Engine2
open Slock.Engine (has)

def tombR (r : Rec) : Rec := { r with timeouted := true }

theorem outK_eq_keyCancel (k : Engine.Key) (w : Engine.Waiter) : outK k w = keyCancel k w := rfl

/-- the request `x` is taken out of the queue: tombstone, `settleWait` -/
theorem tombT_live {w : W} (h : WSt w) (x : Nat) (hh : w.k.hasRec x) (hd : w.k.deadWaiter x = false) :
    Live ((w.modR x tombR).modK (·.settleWait)) (outK (Key.abs w.k) (waiterOf w.k x)) := by
  have hl : (w.k.getR x).timeouted = false := hd
  have hm : x ∈ w.k.wait.map (·.rid) := h.kt.wq x hh hl
  have ge := h.good
  have le := ge.lv
  have l1 : Lv (w.modR x tombR) zero :=
    le.modR x tombR (fun _ => rfl) (le.rc.modRec_plain x tombR (fun _ => rfl) (fun _ => rfl) (fun _ => rfl)) (by
      intro r _ _ hf; exact absurd hf (by simp [tombR]))
  have n1 : Nz (w.modR x tombR) none :=
    ge.nz.of_up (RecsUp.modRec _ x tombR (fun _ => rfl) (fun _ h => ⟨h.pos, h.hold, h.ended, h.fin⟩))
  have l3 : Lv ((w.modR x tombR).modK (·.settleWait)) zero := l1.modK _ (settleWait_rc zero_nonneg l1.rc) (RecsLe.settleWait _)
  have n3 : Nz ((w.modR x tombR).modK (·.settleWait)) none := by
    have := nz_settleWait n1.nd n1.nz
    exact ⟨this.1, this.2⟩
  have c1 := h.cl.of_dk (dk_modR w x tombR (fun _ => rfl) (fun _ => rfl)) l1
  have c3 := c1.of_dk (dk_modK _ (·.settleWait) (DepthKeep.settleWait _)) l3
  have sx : SX (· = x) w (w.modR x tombR) := (SX.refl (X := (· = x)) w).modR_in x tombR (fun _ => rfl) rfl
  have hrec1 : ∀ y ∈ w.k.current.toList ++ w.k.locks ++ w.k.wait.map (·.rid), (w.modR x tombR).k.hasRec y :=
    fun y hy => (hasRec_modR w x y tombR (fun _ => rfl)).mpr (h.hrec y hy)
  have hd1 : (w.modR x tombR).k.deadWaiter x = true := by
    show ((w.k.modRec x tombR).getR x).timeouted = true
    rw [getR_modRec_same _ x tombR (fun _ => rfl) hh]; rfl
  have hnot : x ∉ w.k.current.toList ++ w.k.locks := by
    intro hmm
    have := h.wi.ht x hmm
    rw [this] at hl; exact absurd hl (by simp)
  have habs1 := abs_tomb x sx.key rfl sx.waited sx.q sx.p hrec1 hm hd hd1 hnot h.k1.wu
  have habs3 : Key.abs ((w.modR x tombR).modK (·.settleWait)).k = outK (Key.abs w.k) (waiterOf w.k x) := by
    show Key.abs (w.modR x tombR).k.settleWait = _
    rw [abs_settleWait _ l1.rc, habs1]
    have : (w.modR x tombR).k.waited = (Key.abs w.k).waited := rfl
    rw [this]
    rfl
  have hwq1 : WQ (w.modR x tombR).k :=
    WQ.step (k := w.k) h.wi.wq x rfl sx.p (wait_hasRec l1) (fun _ _ _ => hd1) (fun y hy => Or.inl hy)
  have hwq3 : WQ ((w.modR x tombR).modK (·.settleWait)).k := by
    have h1 := WQ.getWaitLock (w := w.modR x tombR) ⟨l1, n1⟩ hwq1
    show WQ (w.modR x tombR).k.settleWait
    unfold Key.settleWait
    split
    · exact ⟨h1.nd, h1.sep, h1.cs⟩
    · exact h1
  have cn3 : CurNone ((w.modR x tombR).modK (·.settleWait)).k := by
    have h0 : CurNone (w.modR x tombR).k := h.cn.of_cl rfl rfl
    obtain ⟨a1, a2⟩ := waitSkip_cl (w.modR x tombR).k.wait (w.modR x tombR).k
    show CurNone (w.modR x tombR).k.settleWait
    unfold Key.settleWait
    split
    · exact h0.of_cl a1 a2
    · exact h0.of_cl a1 a2
  exact ⟨⟨l3, n3⟩, c3, cn3, hwq3, habs3⟩

theorem outK_fl (k : Engine.Key) (w : Engine.Waiter) : (outK k w).waited = true → (outK k w).waiters ≠ [] := by
  unfold outK
  simp only []
  intro h e
  rw [e] at h
  simp at h

def ctrW (y : Engine.Counters) : Engine.Counters := { y with waitCount := y.waitCount - 1 }
def ctrT (y : Engine.Counters) : Engine.Counters := { y with timeoutedCount := y.timeoutedCount + 1 }

theorem fireTimeout_live_eq (w : W) (rid : Nat) (hT : w.k.hasT rid = true) (hl : (w.k.getR rid).timeouted = false) :
    w.fireTimeout rid = ((((((w.modR rid tombR).modK (·.settleWait)).ctr ctrW).dropT rid).ctr ctrT).reply
      { (w.k.getR rid).cmd with conn := (w.k.getR rid).conn } Engine.RESULT_TIMEOUT 0
      (((((w.modR rid tombR).modK (·.settleWait)).ctr ctrW).dropT rid).ctr ctrT).lockData).wake := by
  unfold W.fireTimeout
  simp only [hT, hl, Bool.not_true, Bool.false_eq_true, if_false]
  rfl

/-- **`doTimeOut` of a live request**, working-state level: the state before the wake pass -/
theorem fireT_rel {w : W} (h : WSt w) (a : Engine.DB) (sc : Scal a w.db) (out1 : List Engine.Reply) (ho : w.out.map (·.r) = out1) (rid : Nat)
    (hT : w.k.hasT rid = true) (hl : (w.k.getR rid).timeouted = false) :
    Rel ((((((w.modR rid tombR).modK (·.settleWait)).ctr ctrW).dropT rid).ctr ctrT).reply
        { (w.k.getR rid).cmd with conn := (w.k.getR rid).conn } Engine.RESULT_TIMEOUT 0
        (((((w.modR rid tombR).modK (·.settleWait)).ctr ctrW).dropT rid).ctr ctrT).lockData)
      { ({ a with ctr := ctrW a.ctr } : Engine.DB) with ctr := ctrT (ctrW a.ctr) } (outK (Key.abs w.k) (waiterOf w.k rid))
      (out1 ++ [toReply (Key.abs w.k) (waiterOf w.k rid)]) := by
  have hs := hasT_spec _ rid hT
  have lv := tombT_live h rid hs.1 hl
  have hg2 : ((w.modR rid tombR).modK (·.settleWait)).gone = false := h.hg
  have ki1 : Engine.KeyInv (outK (Key.abs w.k) (waiterOf w.k rid)) := Engine.waiters_inv h.k1.ki _ _
  have r2 : Rel ((w.modR rid tombR).modK (·.settleWait)) a (outK (Key.abs w.k) (waiterOf w.k rid)) out1 := Rel.of_live hg2 sc ho ki1 lv
  have r3 := r2.ctr ctrW
  -- the record still carries the sweeper's reference, tombstoned
  have l1 : Lv (w.modR rid tombR) zero :=
    h.good.lv.modR rid tombR (fun _ => rfl) (h.good.lv.rc.modRec_plain rid tombR (fun _ => rfl) (fun _ => rfl) (fun _ => rfl)) (by
      intro r _ _ hf; exact absurd hf (by simp [tombR]))
  have hh1 : (w.modR rid tombR).k.hasRec rid := (hasRec_modR w rid rid tombR (fun _ => rfl)).mpr hs.1
  have g1 : (w.modR rid tombR).k.getR rid = tombR (w.k.getR rid) := getR_modRec_same w.k rid tombR (fun _ => rfl) hs.1
  have ht1 : ((w.modR rid tombR).k.getR rid).tSched.isSome = true := by rw [g1]; exact hs.2
  obtain ⟨k1, k2⟩ := settleWait_keep zero_nonneg l1.rc rid hh1 (wheel_of_t ht1)
  have r4 := rel_dropT r3 (outK_fl _ _) rid (fun _ => ⟨k1, by
      show ((w.modR rid tombR).k.settleWait.getR rid).tSched.isSome = true
      rw [k2.tSched]; exact ht1, by
      show ((w.modR rid tombR).k.settleWait.getR rid).timeouted = true
      rw [k2.timeouted, g1]; rfl⟩)
  have r5 := r4.ctr ctrT
  have r6 := r5.reply { (w.k.getR rid).cmd with conn := (w.k.getR rid).conn } Engine.RESULT_TIMEOUT 0
    (((((w.modR rid tombR).modK (·.settleWait)).ctr ctrW).dropT rid).ctr ctrT).lockData
  exact r6

/-- the stage-1 database a timeout works on, in the form the record-level chain produces it -/
theorem toDb_eq (a : Engine.DB) : ({ ({ a with ctr := ctrW a.ctr } : Engine.DB) with ctr := ctrT (ctrW a.ctr) } : Engine.DB) = toDb a := rfl

/-- **`doTimeOut` of a live request** is stage 1's `fireTimeout` -/
theorem sim_fireT_live (s : DB) (hq : DBQ s) (hk : DBK s) (hkt : DBKT s) (key rid : Nat) (k1 : K1 (s.getKey key))
    (hT : (s.getKey key).hasT rid = true) (hl : ((s.getKey key).getR rid).timeouted = false) :
    Equiv (Engine2.abs (fireTimeout s key rid).1) (Engine.fireTimeout (Engine2.abs s) key (waiterOf (s.getKey key) rid)).1 ∧
    (fireTimeout s key rid).2.map (·.r) = (Engine.fireTimeout (Engine2.abs s) key (waiterOf (s.getKey key) rid)).2 := by
  have hs := hasT_spec _ rid hT
  have hws := ws_open s hq hk hkt key k1 (openKey_live_of_hasRec s key rid hs.1)
  have rel := fireT_rel hws (Engine2.abs s) (scal_openKey s key) [] rfl rid hT hl
  obtain ⟨r1, r2, r3⟩ := rel.wake
  rw [toDb_eq] at r1 r2 r3
  unfold fireTimeout
  simp only []
  rw [fireTimeout_live_eq _ rid hT hl, fireTimeout_eq, abs_getKey s hq.dbt.dbi.kn key]
  have ek : (s.openKey key).k = s.getKey key := rfl
  rw [ek] at r1 r2 r3 ⊢
  simp only [List.nil_append] at r1 r2 r3
  refine ⟨?_, r3⟩
  have f := W.fireTimeout_fr (s.openKey key) rid
  rw [fireTimeout_live_eq _ rid hT hl, ek] at f
  have hdbi := hq.dbt.dbi
  have hsd := (hdbi.openKey key).of_fr f
  have hkn' := (fireTimeoutStep_dbi (s, []) ⟨key, rid, 0⟩ hdbi).kn
  unfold fireTimeoutStep fireTimeout at hkn'
  simp only [] at hkn'
  rw [fireTimeout_live_eq _ rid hT hl, ek] at hkn'
  exact sim_commit s key _ _ f (getKey_key _ _) (fun _ _ => rfl) hsd hdbi.kn hkn' _ _ (by rw [Engine.wake_key]; exact getKey_key s key)
    (fun n => by unfold Engine.DB.getKey; rw [Engine.wake_keys]; rfl) r1.now r1.tCheck r1.eCheck r1.seq r1.leader r1.ctr r2

/-- **`doTimeOut` of an entry whose record is not a live request any more** (no such entry, or tombstoned): a stuttering step, no reply -/
theorem sim_fireT_stutter (s : DB) (hq : DBQ s) (hk : DBK s) (key rid : Nat) (k1 : K1 (s.getKey key))
    (h : (s.getKey key).hasT rid = false ∨ ((s.getKey key).getR rid).timeouted = true) :
    Equiv (Engine2.abs (fireTimeout s key rid).1) (Engine2.abs s) ∧ (fireTimeout s key rid).2 = [] := by
  have r0 := rel_open s hq key (hk.getKey key) k1.ki
  unfold fireTimeout W.fireTimeout
  simp only []
  cases hT : (s.getKey key).hasT rid with
  | false =>
    have : (s.openKey key).k.hasT rid = false := hT
    simp only [this, Bool.not_false, if_true]
    exact ⟨rel_commit_same s hq key _ (Fr.wheelBroken _) (rel_wheelBroken r0), rfl⟩
  | true =>
    have hT' : (s.openKey key).k.hasT rid = true := hT
    have hto : ((s.openKey key).k.getR rid).timeouted = true := by
      rcases h with h | h
      · rw [hT] at h; exact absurd h (by simp)
      · exact h
    simp only [hT', Bool.not_true, Bool.false_eq_true, if_false, hto, if_true]
    have hs := hasT_spec _ rid hT
    have r1 := rel_dropT r0 k1.fl rid (fun _ => ⟨hs.1, hs.2, hto⟩)
    refine ⟨rel_commit_same s hq key _ (Fr.dropT _ _) r1, ?_⟩
    have := r1.out
    simpa using this

end Slock.SimTick
