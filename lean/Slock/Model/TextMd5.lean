/-!
MD5 (RFC 1321) as an executable core-Lean function, used only by the model DRIVER so that key/id normalisation can
be compared byte for byte with Go's `crypto/md5`.  Nothing is proved about it: the theorems take the hash as an
opaque parameter `h : Bytes → Bytes` with the single assumption `∀ x, (h x).length = 16`.
-/
namespace Slock.Text.Md5

def K : Array UInt32 := #[
  0xd76aa478, 0xe8c7b756, 0x242070db, 0xc1bdceee, 0xf57c0faf, 0x4787c62a, 0xa8304613, 0xfd469501,
  0x698098d8, 0x8b44f7af, 0xffff5bb1, 0x895cd7be, 0x6b901122, 0xfd987193, 0xa679438e, 0x49b40821,
  0xf61e2562, 0xc040b340, 0x265e5a51, 0xe9b6c7aa, 0xd62f105d, 0x02441453, 0xd8a1e681, 0xe7d3fbc8,
  0x21e1cde6, 0xc33707d6, 0xf4d50d87, 0x455a14ed, 0xa9e3e905, 0xfcefa3f8, 0x676f02d9, 0x8d2a4c8a,
  0xfffa3942, 0x8771f681, 0x6d9d6122, 0xfde5380c, 0xa4beea44, 0x4bdecfa9, 0xf6bb4b60, 0xbebfbc70,
  0x289b7ec6, 0xeaa127fa, 0xd4ef3085, 0x04881d05, 0xd9d4d039, 0xe6db99e5, 0x1fa27cf8, 0xc4ac5665,
  0xf4292244, 0x432aff97, 0xab9423a7, 0xfc93a039, 0x655b59c3, 0x8f0ccc92, 0xffeff47d, 0x85845dd1,
  0x6fa87e4f, 0xfe2ce6e0, 0xa3014314, 0x4e0811a1, 0xf7537e82, 0xbd3af235, 0x2ad7d2bb, 0xeb86d391]

def S : Array UInt32 := #[
  7, 12, 17, 22, 7, 12, 17, 22, 7, 12, 17, 22, 7, 12, 17, 22,
  5, 9, 14, 20, 5, 9, 14, 20, 5, 9, 14, 20, 5, 9, 14, 20,
  4, 11, 16, 23, 4, 11, 16, 23, 4, 11, 16, 23, 4, 11, 16, 23,
  6, 10, 15, 21, 6, 10, 15, 21, 6, 10, 15, 21, 6, 10, 15, 21]

def rotl (x n : UInt32) : UInt32 := (x <<< n) ||| (x >>> (32 - n))

def le32 (b0 b1 b2 b3 : UInt8) : UInt32 :=
  b0.toUInt32 ||| (b1.toUInt32 <<< 8) ||| (b2.toUInt32 <<< 16) ||| (b3.toUInt32 <<< 24)

def bytes32 (x : UInt32) : List UInt8 :=
  [x.toUInt8, (x >>> 8).toUInt8, (x >>> 16).toUInt8, (x >>> 24).toUInt8]

def pad (msg : List UInt8) : List UInt8 :=
  let n := msg.length
  let zeros := (55 + 64 - n % 64) % 64
  let bits := n * 8
  msg ++ [0x80] ++ List.replicate zeros 0 ++ (List.range 8).map (fun i => (bits / 2 ^ (8 * i)).toUInt8)

def wordsOf (blk : Array UInt8) : Array UInt32 :=
  (Array.range 16).map (fun i => le32 (blk.getD (4 * i) 0) (blk.getD (4 * i + 1) 0) (blk.getD (4 * i + 2) 0) (blk.getD (4 * i + 3) 0))

structure St where
  a : UInt32
  b : UInt32
  c : UInt32
  d : UInt32

def round (m : Array UInt32) (st : St) (i : Nat) : St :=
  let (f, g) :=
    if i < 16 then ((st.b &&& st.c) ||| ((~~~ st.b) &&& st.d), i)
    else if i < 32 then ((st.d &&& st.b) ||| ((~~~ st.d) &&& st.c), (5 * i + 1) % 16)
    else if i < 48 then (st.b ^^^ st.c ^^^ st.d, (3 * i + 5) % 16)
    else (st.c ^^^ (st.b ||| (~~~ st.d)), (7 * i) % 16)
  let f' := f + st.a + K.getD i 0 + m.getD g 0
  { a := st.d, d := st.c, c := st.b, b := st.b + rotl f' (S.getD i 0) }

def block (st : St) (blk : Array UInt8) : St :=
  let m := wordsOf blk
  let r := (List.range 64).foldl (round m) st
  { a := st.a + r.a, b := st.b + r.b, c := st.c + r.c, d := st.d + r.d }

def blocks : Nat → Array UInt8 → Nat → St → St
  | 0, _, _, st => st
  | n + 1, p, off, st => blocks n p (off + 64) (block st (p.extract off (off + 64)))

def sum (msg : List UInt8) : List UInt8 :=
  let p := (pad msg).toArray
  let st := blocks (p.size / 64) p 0 { a := 0x67452301, b := 0xefcdab89, c := 0x98badcfe, d := 0x10325476 }
  bytes32 st.a ++ bytes32 st.b ++ bytes32 st.c ++ bytes32 st.d

end Slock.Text.Md5
