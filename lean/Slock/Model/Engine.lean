/-
M-ENGINE (stage 1): the per-key lock state machine of server/db.go (`Lock`, `UnLock`, `wakeUpWaitLocks`,
`cancelWaitLock`, `doTimeOut`, `doExpried`, the two second-granularity timer wheels) for the core command
subset, without value frames, acks, millisecond timers or journalling. Written to mirror the code that
exists (hand-kept counters included). Core Lean only: the driver links this file.

One function call = one shard-mutex critical section (`lockEnter`, `unlockEnter`, `wakeIter`, `fireTimeout`,
`fireExpire`) — the only places the real code synchronises. The sequential operations of the E-seq harness
(`opLock`, `opUnlock`, `opTick`) are fixed compositions of those steps.
-/
namespace Slock.Engine

/-! ### constants (checked against the regenerated `Slock.Gen.C` in Proofs/EngineConsts) -/
def RESULT_SUCCED := 0
def RESULT_LOCKED_ERROR := 5
def RESULT_UNLOCK_ERROR := 6
def RESULT_UNOWN_ERROR := 7
def RESULT_TIMEOUT := 8
def RESULT_EXPRIED := 9
def RESULT_STATE_ERROR := 10

def F_SHOW := 1
def F_UPDATE := 2
def F_FROM_AOF := 4
def F_CONCURRENT := 8
/-- LOCK_FLAG_CONTAINS_DATA: stage 1 has no value cell; the only thing it knows about the flag is that an update carrying it is never
treated as 'same terms' (the real code takes that shortcut only for a journalled value, which stage 1 never has). -/
def F_CONTAINS_DATA := 0x20
def UF_FIRST := 1
def UF_CANCEL := 2
def TF_PRIORITY := 0x10
def TF_MINUTE := 0x40
def TF_WAIT_UNLOCK := 0x200
def TF_NO_RESET := 0x2000
def EF_MINUTE := 0x40
def EF_ZERO_AOF := 0x100
def EF_NO_RESET := 0x2000
def EF_UNLIMITED := 0x4000
def INF_TIME : Nat := 0x7fffffffffffffff
def MAX_WAIT : Nat := 8

def has (x flag : Nat) : Bool := x &&& flag != 0

structure Cmd where
  req : Nat
  conn : Nat
  flag : Nat
  lockId : Nat
  key : Nat
  tflag : Nat
  timeout : Nat
  eflag : Nat
  expried : Nat
  count : Nat
  rcount : Nat
  /-- UNLOCK only: does a key record (manager) exist? Its lifetime depends on lazily freed lock records,
  which stage 1 does not model; the harness supplies the bit, the model uses it only to choose between the
  two refusals of an unlock that reaches a non-leader (STATE_ERROR vs UNLOCK_ERROR on an unknown key). -/
  mgr : Bool := true
  deriving Repr, DecidableEq, Inhabited

/-- A wheel entry: the second at which the sweeper next looks at the record. -/
structure Sched where
  visit : Nat
  long : Bool
  seq : Nat
  checked : Nat
  deriving Repr, DecidableEq, Inhabited

structure Hold where
  hid : Nat          -- identity of the lock record (two live holds may share a LockId)
  cmd : Cmd          -- the command that last set the hold's terms (`lock.command`)
  conn : Nat         -- `lock.protocol`
  depth : Nat        -- `lock.locked`
  startT : Nat
  expT : Nat
  sched : Sched      -- expiry wheel
  deriving Repr, DecidableEq, Inhabited

structure Waiter where
  cmd : Cmd
  conn : Nat
  timeoutT : Nat
  sched : Sched      -- timeout wheel
  deriving Repr, DecidableEq, Inhabited

structure Key where
  key : Nat
  locked : Nat               -- `lockManager.locked`, the hand-kept depth counter
  holders : List Hold        -- live holds in grant order; head = `currentLock`
  waiters : List Waiter      -- live queued requests in the order `GetWaitLock` returns them
  waited : Bool              -- `lockManager.waited`
  deriving Repr, DecidableEq, Inhabited

structure Counters where
  lockCount : Nat := 0
  unLockCount : Nat := 0
  lockedCount : Int := 0
  waitCount : Int := 0
  timeoutedCount : Nat := 0
  expriedCount : Nat := 0
  unlockErrorCount : Nat := 0
  deriving Repr, DecidableEq, Inhabited

structure Reply where
  conn : Nat
  req : Nat
  result : Nat
  lcount : Nat
  lrcount : Nat
  lockId : Nat
  count : Nat
  rcount : Nat
  deriving Repr, DecidableEq, Inhabited

structure DB where
  keys : List Key := []
  now : Nat
  tCheck : Nat       -- `checkTimeoutTime`
  eCheck : Nat       -- `checkExpriedTime`
  seq : Nat := 0
  leader : Bool := true
  ctr : Counters := {}
  deriving Repr, DecidableEq, Inhabited

def DB.init (now : Nat) : DB := { now := now, tCheck := now + 1, eCheck := now + 1 }

def emptyKey (k : Nat) : Key := { key := k, locked := 0, holders := [], waiters := [], waited := false }

def DB.getKey (db : DB) (k : Nat) : Key := (db.keys.find? (·.key == k)).getD (emptyKey k)

def Key.isEmpty (k : Key) : Bool := k.holders.isEmpty && k.waiters.isEmpty && k.locked == 0 && !k.waited

/-- store a key state; keys without any state are dropped (stage 1 has no lazily-freed records) -/
def DB.setKey (db : DB) (k : Key) : DB :=
  let rest := db.keys.filter (·.key != k.key)
  { db with keys := if k.isEmpty then rest else rest ++ [k] }

def mkReply (c : Cmd) (result lcount lrcount : Nat) : Reply :=
  { conn := c.conn, req := c.req, result := result, lcount := lcount % 65536, lrcount := lrcount % 256,
    lockId := c.lockId, count := c.count, rcount := c.rcount }

/-! ### time arithmetic -/

def timeoutDeadline (now : Nat) (c : Cmd) : Nat :=
  if has c.tflag TF_MINUTE then now + c.timeout * 60 + 1 else now + c.timeout + 1

def expiryDeadline (now : Nat) (c : Cmd) : Nat :=
  if has c.eflag EF_UNLIMITED then INF_TIME
  else if has c.eflag EF_MINUTE then now + c.expried * 60 + 1 else now + c.expried + 1

def initChecked (c : Cmd) (startT expT : Nat) : Nat :=
  if has c.eflag EF_ZERO_AOF && expT - startT > 5 then MAX_WAIT + 1 else 1

/-- `AddTimeOut` / `AddExpried`: where a record with deadline `d` and back-off `n` is put, given the
wheel's `check` time. Returns the (possibly raised) deadline and the schedule. -/
def wheelAdd (check seq : Nat) (d n : Nat) : Nat × Sched :=
  if n > MAX_WAIT then
    let d' := if d < check then check else d
    (d', { visit := d', long := true, seq := seq, checked := n })
  else
    let v := check + n
    let v := if d < v then (if d < check then check else d) else v
    (d, { visit := v, long := false, seq := seq, checked := n })

/-! ### admission -/

/-- `LockDB.doLock` for the core subset (no less-lock-version flag). -/
def doLock (k : Key) (c : Cmd) : Bool :=
  if k.locked == 0 then true
  else if c.count == 0 then false
  else
    match k.holders.head? with
    | none => false   -- unreachable under the invariant (locked > 0 ⇒ a current lock exists); the Go code would dereference nil
    | some cur =>
      if k.locked ≥ 0xffff then
        if k.locked ≥ 0x7fffffff then false
        else cur.cmd.count == 0xffff && c.count == 0xffff
      else k.locked ≤ cur.cmd.count && k.locked ≤ c.count

def cmdPriority (c : Cmd) : Nat := if has c.tflag TF_PRIORITY then c.rcount else 0

/-- `doCheckLockWaitPriority`: newcomer's priority strictly above the head waiter's. -/
def checkWaitPriority (k : Key) (c : Cmd) : Bool :=
  match k.waiters.head? with
  | none => c.rcount > 0
  | some w => c.rcount > cmdPriority w.cmd

/-- stable priority insertion (what inline → ring → priority ring implement together) -/
def insertWaiter (ws : List Waiter) (w : Waiter) : List Waiter :=
  match ws with
  | [] => [w]
  | x :: xs => if cmdPriority w.cmd > cmdPriority x.cmd then w :: x :: xs else x :: insertWaiter xs w

def findHolder (k : Key) (lockId : Nat) : Option Hold := k.holders.find? (·.cmd.lockId == lockId)

/-- replace the first record equal to `h` by `h'` (records carry a unique `hid`, so this is "that record") -/
def replaceHolder (hs : List Hold) (h h' : Hold) : List Hold :=
  match hs with
  | [] => []
  | x :: rest => if x = h then h' :: rest else x :: replaceHolder rest h h'

/-- remove the first record equal to `h` -/
def removeHolder (hs : List Hold) (h : Hold) : List Hold :=
  match hs with
  | [] => []
  | x :: rest => if x = h then rest else x :: removeHolder rest h

/-! ### granting (`AddLock` + counters), shared by the direct grant and the wake-up grant -/

structure St where
  db : DB
  out : List Reply := []

/-- Make `c` a new holder of `k` at time `db.now` (Expried > 0). -/
def grantHold (db : DB) (k : Key) (c : Cmd) : DB × Key :=
  let expT := expiryDeadline db.now c
  let n := initChecked c db.now expT
  let (expT', sc) := wheelAdd db.eCheck db.seq expT n
  let h : Hold := { hid := db.seq, cmd := c, conn := c.conn, depth := 1, startT := db.now, expT := expT', sched := sc }
  let k' := { k with holders := k.holders ++ [h], locked := k.locked + 1 }
  let ctr := { db.ctr with lockCount := db.ctr.lockCount + 1, lockedCount := db.ctr.lockedCount + 1 }
  ({ db with seq := db.seq + 1, ctr := ctr }, k')

/-- `UpdateLockedLock` + the long-table move, for a re-lock or an update of hold `h` by command `c`. -/
def updateHold (db : DB) (h : Hold) (c : Cmd) : DB × Hold :=
  if has c.eflag EF_UNLIMITED && c.expried ≥ 0xffff then
    -- terms (command, connection) change, times and schedule do not
    (db, { h with cmd := c, conn := c.conn })
  else
    let expT := expiryDeadline db.now c
    let checked := if has c.eflag EF_NO_RESET then h.sched.checked else initChecked c db.now expT
    if h.sched.long then
      if expT != h.expT then
        let (expT', sc) := wheelAdd db.eCheck db.seq expT checked
        ({ db with seq := db.seq + 1 }, { h with cmd := c, conn := c.conn, startT := db.now, expT := expT', sched := sc })
      else (db, { h with cmd := c, conn := c.conn, startT := db.now, expT := expT, sched := { h.sched with checked := checked } })
    else (db, { h with cmd := c, conn := c.conn, startT := db.now, expT := expT, sched := { h.sched with checked := checked } })

def absDiff (a b : Nat) : Nat := if a > b then a - b else b - a

/-- `LockManager.CheckLockedEqual` (second / minute units). -/
def checkLockedEqual (now : Nat) (h : Hold) (c : Cmd) : Bool :=
  let countEq := c.count == h.cmd.count && c.rcount == h.cmd.rcount &&
    (has c.tflag TF_PRIORITY == has h.cmd.tflag TF_PRIORITY)
  if has c.eflag EF_UNLIMITED then
    if c.expried == 0xffff then countEq else h.expT == INF_TIME && countEq
  else if has c.eflag EF_MINUTE then
    absDiff (now + c.expried * 60 + 1) h.expT ≤ 60 && countEq
  else absDiff (now + c.expried + 1) h.expT ≤ 1 && countEq

/-! ### wake pass -/

/-- one iteration of `wakeUpWaitLocks`' loop; `none` = the pass is over -/
def wakeIter (db : DB) (k : Key) : Option (DB × Key × Reply) :=
  match k.waiters with
  | [] => none
  | w :: rest =>
    if !doLock k w.cmd then none
    else
      let k1 := { k with waiters := rest }
      let db1 := { db with ctr := { db.ctr with waitCount := db.ctr.waitCount - 1 } }
      if w.cmd.expried > 0 then
        let (db2, k2) := grantHold db1 k1 { w.cmd with conn := w.conn }
        some (db2, k2, mkReply { w.cmd with conn := w.conn } RESULT_SUCCED k2.locked 1)
      else
        let db2 := { db1 with ctr := { db1.ctr with lockCount := db1.ctr.lockCount + 1 } }
        some (db2, k1, mkReply { w.cmd with conn := w.conn } RESULT_SUCCED k1.locked 0)

/-- the whole pass; fuel = number of waiters (each iteration removes one) -/
def wakePass (fuel : Nat) (db : DB) (k : Key) (out : List Reply) : DB × Key × List Reply :=
  if !k.waited then (db, k, out)
  else
    match fuel with
    | 0 => (db, k, out)
    | fuel + 1 =>
      match wakeIter db k with
      | some (db', k', r) => wakePass fuel db' k' (out ++ [r])
      | none =>
        if k.waiters.isEmpty then (db, { k with waited := false }, out) else (db, k, out)

def wake (db : DB) (k : Key) (out : List Reply) : DB × Key × List Reply :=
  wakePass (k.waiters.length + 1) db k out

/-! ### LOCK -/

inductive LockBranch
  | p0a | p0b | stateError
  | show (cur : Hold)
  | updateEqual (h : Hold) | update (h : Hold)
  | relockNoHold (h : Hold) | relock (h : Hold) | relockRefused (h : Hold)
  | unlockedWaitRefused
  | grant | grantNoHold | queue | timeout
  deriving Repr, DecidableEq

def classifyLock (db : DB) (c : Cmd) : LockBranch :=
  let k := db.getKey c.key
  if has c.flag F_CONCURRENT && c.timeout == 0 && c.count < 0xffff && k.locked > c.count then .p0a
  else if has c.flag F_CONCURRENT && c.timeout == 0 && k.locked == 0 && has c.tflag TF_WAIT_UNLOCK then .p0b
  else if !db.leader && !has c.flag F_FROM_AOF then .stateError
  else
    let afterHeld (waited : Bool) : LockBranch :=
      if (!waited || (has c.tflag TF_PRIORITY && checkWaitPriority k c)) && doLock k c then
        (if c.expried > 0 then .grant else .grantNoHold)
      else if c.timeout > 0 then .queue else .timeout
    if k.locked > 0 then
      match (if has c.flag F_SHOW then k.holders.head? else none) with
      | some cur =>
        if !has c.flag F_UPDATE then .show cur
        else
          -- show ∧ update: the command takes the oldest holder's LockId and continues as an update of it
          if !has c.flag F_CONTAINS_DATA && checkLockedEqual db.now cur c then .updateEqual cur else .update cur
      | none =>
        match findHolder k c.lockId with
        | some h =>
          if has c.flag F_UPDATE then
            if !has c.flag F_CONTAINS_DATA && checkLockedEqual db.now h c then .updateEqual h else .update h
          else if h.depth < 0xff && h.depth ≤ c.rcount && !has c.tflag TF_PRIORITY then
            (if c.expried == 0 then .relockNoHold h else .relock h)
          else .relockRefused h
        | none => afterHeld k.waited
    else if has c.tflag TF_WAIT_UNLOCK then
      if k.waited && c.count == 0 then .unlockedWaitRefused else afterHeld true
    else afterHeld false

def applyLock (db : DB) (c : Cmd) : LockBranch → DB × List Reply
  | .p0a => (db, [mkReply c RESULT_TIMEOUT (db.getKey c.key).locked 0])
  | .p0b => (db, [mkReply c RESULT_TIMEOUT 0 0])
  | .stateError => (db, [mkReply c RESULT_STATE_ERROR (db.getKey c.key).locked 0])
  | .show cur =>
    let c' := { c with lockId := cur.cmd.lockId, timeout := cur.cmd.timeout, tflag := cur.cmd.tflag,
                       expried := cur.cmd.expried, eflag := cur.cmd.eflag, count := cur.cmd.count, rcount := cur.cmd.rcount }
    (db, [mkReply c' RESULT_UNOWN_ERROR (db.getKey c.key).locked cur.depth])
  | .updateEqual h =>
    let c' := { c with lockId := h.cmd.lockId }
    (db, [mkReply c' RESULT_LOCKED_ERROR (db.getKey c.key).locked h.depth])
  | .update h =>
    let k := db.getKey c.key
    let c' := { c with lockId := h.cmd.lockId }
    let (db1, h') := updateHold db h c'
    let k' := { k with holders := replaceHolder k.holders h h' }
    -- (fix: C04) the update may have raised the hold's Count: a wake pass follows the reply
    let (db2, k2, out) := wake db1 k' [mkReply c' RESULT_LOCKED_ERROR k.locked h.depth]
    (db2.setKey k2, out)
  | .relockNoHold h => (db, [mkReply c RESULT_SUCCED (db.getKey c.key).locked h.depth])
  | .relock h =>
    let k := db.getKey c.key
    let (db1, h1) := updateHold db { h with depth := h.depth + 1 } c
    let k' := { k with holders := replaceHolder k.holders h h1, locked := k.locked + 1 }
    let db2 := { db1 with ctr := { db1.ctr with lockCount := db1.ctr.lockCount + 1, lockedCount := db1.ctr.lockedCount + 1 } }
    -- (fix: C04) the re-lock replaces the hold's command (its Count may be higher): a wake pass follows the reply
    let (db3, k3, out) := wake db2 k' [mkReply c RESULT_SUCCED k'.locked h1.depth]
    (db3.setKey k3, out)
  | .relockRefused h => (db, [mkReply c RESULT_LOCKED_ERROR (db.getKey c.key).locked h.depth])
  | .unlockedWaitRefused => (db, [mkReply c RESULT_UNOWN_ERROR (db.getKey c.key).locked 0])
  | .grant =>
    let k := db.getKey c.key
    let (db1, k1) := grantHold db k c
    let r := mkReply c RESULT_SUCCED k1.locked 1
    let (db2, k2, out) := if k.waited then wake db1 k1 [r] else (db1, k1, [r])
    (db2.setKey k2, out)
  | .grantNoHold =>
    let k := db.getKey c.key
    let db1 := { db with ctr := { db.ctr with lockCount := db.ctr.lockCount + 1 } }
    let r := mkReply c RESULT_SUCCED k.locked 0
    let (db2, k2, out) := if k.waited then wake db1 k [r] else (db1, k, [r])
    (db2.setKey k2, out)
  | .queue =>
    let k := db.getKey c.key
    let d := timeoutDeadline db.now c
    let (d', sc) := wheelAdd db.tCheck db.seq d 1
    let w : Waiter := { cmd := c, conn := c.conn, timeoutT := d', sched := sc }
    let k' := { k with waiters := insertWaiter k.waiters w, waited := true }
    let db1 := { db with seq := db.seq + 1, ctr := { db.ctr with waitCount := db.ctr.waitCount + 1 } }
    (db1.setKey k', [])
  | .timeout => (db, [mkReply c RESULT_TIMEOUT (db.getKey c.key).locked 0])

def opLock (db : DB) (c : Cmd) : DB × List Reply := applyLock db c (classifyLock db c)

/-! ### UNLOCK -/

inductive UnlockBranch
  | stateError
  | notLocked                   -- U1
  | unown                       -- U2
  | cancelNone | cancel (w : Waiter)
  | dec (h : Hold) (c' : Cmd)   -- U4: one level
  | release (h : Hold) (c' : Cmd)   -- U5 / depth 1
  deriving Repr, DecidableEq

/-- the LAST live waiter with the LockId (that is what `cancelWaitLock`'s scan keeps) -/
def findCancel (ws : List Waiter) (lockId : Nat) : Option Waiter :=
  (ws.filter (·.cmd.lockId == lockId)).getLast?

def removeWaiter (ws : List Waiter) (w : Waiter) : List Waiter :=
  match ws with
  | [] => []
  | x :: xs => if x.cmd.req == w.cmd.req && x.conn == w.conn then xs else x :: removeWaiter xs w

def classifyUnlock (db : DB) (c : Cmd) : UnlockBranch :=
  let k := db.getKey c.key
  if !db.leader && !has c.flag F_FROM_AOF && (c.mgr || !k.isEmpty) then .stateError
  else if k.locked == 0 then
    if has c.flag UF_CANCEL then
      (match findCancel k.waiters c.lockId with | some w => .cancel w | none => .cancelNone)
    else .notLocked
  else
    let go (h : Hold) (c' : Cmd) : UnlockBranch :=
      if h.depth > 1 && c'.rcount > 0 && !has c'.tflag TF_PRIORITY then .dec h c' else .release h c'
    match findHolder k c.lockId with
    | some h => go h c
    | none =>
      if has c.flag UF_FIRST then
        match k.holders.head? with
        | some h =>
          go h { c with lockId := h.cmd.lockId, expried := h.cmd.expried, eflag := h.cmd.eflag, timeout := h.cmd.timeout,
                        tflag := h.cmd.tflag, count := h.cmd.count, rcount := h.cmd.rcount }
        | none => .unown
      else if has c.flag UF_CANCEL then
        (match findCancel k.waiters c.lockId with | some w => .cancel w | none => .cancelNone)
      else .unown

def bumpErr (db : DB) : DB := { db with ctr := { db.ctr with unlockErrorCount := db.ctr.unlockErrorCount + 1 } }

def applyUnlock (db : DB) (c : Cmd) : UnlockBranch → DB × List Reply
  | .stateError => (bumpErr db, [mkReply c RESULT_STATE_ERROR (db.getKey c.key).locked 0])
  | .notLocked => (bumpErr db, [mkReply c RESULT_UNLOCK_ERROR 0 0])
  | .unown => (bumpErr db, [mkReply c RESULT_UNOWN_ERROR (db.getKey c.key).locked 0])
  | .cancelNone => (bumpErr db, [mkReply c RESULT_UNLOCK_ERROR (db.getKey c.key).locked 0])
  | .cancel w =>
    let k := db.getKey c.key
    let ws := removeWaiter k.waiters w
    let k' := { k with waiters := ws, waited := if ws.isEmpty then false else k.waited }
    let db1 := { db with ctr := { db.ctr with waitCount := db.ctr.waitCount - 1, unLockCount := db.ctr.unLockCount + 1 } }
    -- (fix: C04) the cancelled request may have been the head of the queue: a wake pass follows the two replies
    let (db2, k2, out) := wake db1 k' [mkReply c RESULT_LOCKED_ERROR k.locked 0,
                                       mkReply { w.cmd with conn := w.conn } RESULT_UNLOCK_ERROR k.locked 0]
    (db2.setKey k2, out)
  | .dec h c' =>
    let k := db.getKey c.key
    let h' := { h with depth := h.depth - 1 }
    let k1 := { k with holders := replaceHolder k.holders h h', locked := k.locked - 1 }
    let db1 := { db with ctr := { db.ctr with unLockCount := db.ctr.unLockCount + 1, lockedCount := db.ctr.lockedCount - 1 } }
    let (db2, k2, out) := wake db1 k1 [mkReply c' RESULT_SUCCED k1.locked h'.depth]
    (db2.setKey k2, out)
  | .release h c' =>
    let k := db.getKey c.key
    let k1 := { k with holders := removeHolder k.holders h, locked := k.locked - h.depth }
    let db1 := { db with ctr := { db.ctr with unLockCount := db.ctr.unLockCount + h.depth, lockedCount := db.ctr.lockedCount - h.depth } }
    let (db2, k2, out) := wake db1 k1 [mkReply c' RESULT_SUCCED k1.locked 0]
    (db2.setKey k2, out)

def opUnlock (db : DB) (c : Cmd) : DB × List Reply := applyUnlock db c (classifyUnlock db c)

/-! ### timer sweeps -/

/-- `doTimeOut` for a live waiter. No wake pass here (the code has none). -/
def fireTimeout (db : DB) (key : Nat) (w : Waiter) : DB × List Reply :=
  let k := db.getKey key
  let ws := removeWaiter k.waiters w
  let k' := { k with waiters := ws, waited := if ws.isEmpty then false else k.waited }
  let db1 := { db with ctr := { db.ctr with waitCount := db.ctr.waitCount - 1, timeoutedCount := db.ctr.timeoutedCount + 1 } }
  -- (fix: C04) the timed-out request may have been the head of the queue: a wake pass follows the reply
  let (db2, k2, out) := wake db1 k' [mkReply { w.cmd with conn := w.conn } RESULT_TIMEOUT k.locked 0]
  (db2.setKey k2, out)

/-- `doExpried` for a live hold on the leader. -/
def fireExpire (db : DB) (key : Nat) (h : Hold) : DB × List Reply :=
  let k := db.getKey key
  let k1 := { k with holders := removeHolder k.holders h, locked := k.locked - h.depth }
  let db1 := { db with ctr := { db.ctr with lockedCount := db.ctr.lockedCount - h.depth, expriedCount := db.ctr.expriedCount + 1 } }
  let (db2, k2, out) := wake db1 k1 [mkReply { h.cmd with conn := h.conn } RESULT_EXPRIED k1.locked 0]
  (db2.setKey k2, out)

def insertBySeq {α} (seqOf : α → Nat) (x : α) : List α → List α
  | [] => [x]
  | y :: ys => if seqOf x < seqOf y then x :: y :: ys else y :: insertBySeq seqOf x ys

def sortBySeq {α} (seqOf : α → Nat) (l : List α) : List α := l.foldl (fun acc x => insertBySeq seqOf x acc) []

def allWaiters (db : DB) : List Waiter := db.keys.flatMap (·.waiters)
def allHolds (db : DB) : List Hold := db.keys.flatMap (·.holders)

def updateWaiter (db : DB) (w w' : Waiter) : DB :=
  let k := db.getKey w.cmd.key
  db.setKey { k with waiters := k.waiters.map (fun x => if x.cmd.req == w.cmd.req && x.conn == w.conn then w' else x) }

def updateHoldIn (db : DB) (h h' : Hold) : DB :=
  let k := db.getKey h.cmd.key
  db.setKey { k with holders := replaceHolder k.holders h h' }

def slotWaiters (db : DB) (c : Nat) : List Waiter :=
  sortBySeq (·.sched.seq) ((allWaiters db).filter (fun w => w.sched.visit == c && !w.sched.long))
def longWaiters (db : DB) (c : Nat) : List Waiter :=
  sortBySeq (·.sched.seq) ((allWaiters db).filter (fun w => w.sched.visit == c && w.sched.long))
def slotHolds (db : DB) (c : Nat) : List Hold :=
  sortBySeq (·.sched.seq) ((allHolds db).filter (fun h => h.sched.visit == c && !h.sched.long))
def longHolds (db : DB) (c : Nat) : List Hold :=
  sortBySeq (·.sched.seq) ((allHolds db).filter (fun h => h.sched.visit == c && h.sched.long))

/-- a visited record whose deadline is still ahead: back-off +1 and re-arm (`AddTimeOut` again) -/
def rearmWaiter (d : DB) (w : Waiter) : DB :=
  let r := wheelAdd d.tCheck d.seq w.timeoutT (w.sched.checked + 1)
  updateWaiter { d with seq := d.seq + 1 } w { w with timeoutT := r.1, sched := r.2 }

def rearmHold (d : DB) (h : Hold) : DB :=
  let r := wheelAdd d.eCheck d.seq h.expT (h.sched.checked + 1)
  updateHoldIn { d with seq := d.seq + 1 } h { h with expT := r.1, sched := r.2 }

/-- the collecting critical section: visit one slot entry -/
def timeoutStep (acc : DB × List Waiter) (w : Waiter) : DB × List Waiter :=
  if w.timeoutT > acc.1.now then (rearmWaiter acc.1 w, acc.2) else (acc.1, acc.2 ++ [w])

def expireStep (acc : DB × List Hold) (h : Hold) : DB × List Hold :=
  if h.expT > acc.1.now then (rearmHold acc.1 h, acc.2) else (acc.1, acc.2 ++ [h])

/-- pass 1 of `checkTimeTimeOut(c, now)`: re-arm what is not due; returns the records to fire, in firing order
(due slot entries, then the long-table entries of second `c`). -/
def timeoutPass1 (db : DB) (c : Nat) : DB × List Waiter :=
  let r := (slotWaiters db c).foldl timeoutStep (db, [])
  (r.1, r.2 ++ longWaiters db c)

def expirePass1 (db : DB) (c : Nat) : DB × List Hold :=
  let r := (slotHolds db c).foldl expireStep (db, [])
  (r.1, r.2 ++ longHolds db c)

/-- fire one collected request, if it is still queued (mirrors `if lock.timeouted { … return }` in `doTimeOut`) -/
def fireTimeoutStep (acc : DB × List Reply) (w : Waiter) : DB × List Reply :=
  match (acc.1.getKey w.cmd.key).waiters.find? (fun x => x.cmd.req == w.cmd.req && x.conn == w.conn) with
  | some w' => ((fireTimeout acc.1 w.cmd.key w').1, acc.2 ++ (fireTimeout acc.1 w.cmd.key w').2)
  | none => acc

/-- fire one collected hold, if that record is still a live holder (an earlier firing of this pass cannot have
removed it sequentially; the lookup mirrors `if lock.expried { … return }`) -/
def fireExpireStep (acc : DB × List Reply) (h : Hold) : DB × List Reply :=
  match (acc.1.getKey h.cmd.key).holders.find? (·.hid == h.hid) with
  | some h' => ((fireExpire acc.1 h.cmd.key h').1, acc.2 ++ (fireExpire acc.1 h.cmd.key h').2)
  | none => acc

/-- `checkTimeTimeOut(c, now)` -/
def sweepTimeout (db : DB) (c : Nat) : DB × List Reply :=
  let p := timeoutPass1 db c
  p.2.foldl fireTimeoutStep (p.1, [])

/-- `checkTimeExpried(c, now)` -/
def sweepExpire (db : DB) (c : Nat) : DB × List Reply :=
  let p := expirePass1 db c
  p.2.foldl fireExpireStep (p.1, [])

/-- one second of server time: clock +1, timeout sweep of that second, expiry sweep of that second -/
def opTick (db : DB) : DB × List Reply :=
  let now := db.now + 1
  let db0 := { db with now := now, tCheck := now + 1 }
  let (db1, o1) := sweepTimeout db0 now
  let db2 := { db1 with eCheck := now + 1 }
  let (db3, o2) := sweepExpire db2 now
  (db3, o1 ++ o2)

end Slock.Engine
