import Slock.Gen.Consts
/-
M-DEQUE, part 1: the segmented doubling deque of /repo/server/queue.go.

One model serves the three textual copies `LockManagerQueue`, `LockQueue`, `LockCommandQueue`
(identical modulo the element type; the harness drives all three against this model).
Elements are `Option Nat`: `some id` = a non-nil pointer, `none` = nil (a hole / an empty cell).

The model mirrors the 17 Go fields and the arithmetic of every method, quirks included.
Go facts that are modelled explicitly:

* `headQueue` / `tailQueue` are slices ALIASING one node array.  `Ref.node j` = "aliases the array that
  currently lives in `queues[j]`", `Ref.nil` = a nil slice, `Ref.dead k` = aliases an array that has been
  removed from `queues` (only `Shrink` produces this: it nils `queues[headNodeIndex]` but keeps `headQueue`);
  such arrays are kept in `dead` so that head and tail may still share one of them.
* every index / slice expression is bounds-checked: out of range or nil ⇒ `Res.panic`.
* `queueSize` is an `int32` that can wrap in `mallocQueue` (`*2`) and in `Resize`
  (`baseQueueSize * int32(uint32(1)<<uint32(tailNodeIndex))`): it is an `Int` with explicit `wrap32`;
  `make([]T, n)` with `n < 0` panics.
* all other fields are non-negative whenever they are observable; the two places where the Go code would
  STORE a negative index and carry on (only possible with `baseNodeSize = 0`, outside the property's
  "from 1 up" quantifier) return `Res.unmodelled`, never a default value.
* not modelled: int32 overflow of element COUNTS (needs > 2^31 cells) and out-of-memory.

Core Lean only (linked into `slockmodel`).
-/
namespace Slock.Queue

abbrev Elem := Option Nat
abbrev Arr := List Elem

inductive Ref
  | nil
  | node (j : Nat)
  | dead (k : Nat)
  deriving DecidableEq, Repr, Inhabited

/-- Outcome of running Go code: a value, a run-time panic, or "left the modelled domain". -/
inductive Res (α : Type)
  | ok (a : α)
  | panic
  | unmodelled
  deriving Repr, DecidableEq

namespace Res
@[inline] def bind {α β : Type} : Res α → (α → Res β) → Res β
  | .ok a, f => f a
  | .panic, _ => .panic
  | .unmodelled, _ => .unmodelled
instance : Monad Res where
  pure := .ok
  bind := Res.bind
end Res

def maxMalloc : Nat := Slock.Gen.C.QUEUE_MAX_MALLOC_SIZE

/-- int32 wrap-around. -/
def wrap32 (x : Int) : Int := (x + 2147483648) % 4294967296 - 2147483648

/-- `int32(uint32(1) << uint32(n))` -/
def shl1 (n : Nat) : Int := if n < 31 then (2 ^ n : Nat) else if n = 31 then -2147483648 else 0

structure Q where
  hqi : Nat            -- headQueueIndex
  hqs : Nat            -- headQueueSize
  headQueue : Ref
  tqi : Nat            -- tailQueueIndex
  tqs : Nat            -- tailQueueSize
  tailQueue : Ref
  hni : Nat            -- headNodeIndex
  tni : Nat            -- tailNodeIndex
  queues : List (Option Arr)
  sizes : List Nat     -- nodeQueueSizes
  baseNodeSize : Nat
  nodeIndex : Nat
  nodeSize : Nat
  shrinkNodeSize : Nat
  baseQueueSize : Nat
  queueSize : Int
  rellac : Nat         -- rellacTailNodeIndex
  dead : List Arr      -- arrays no longer in `queues` but still aliased (see `Ref.dead`)
  deriving Repr

/-- `New…Queue(baseNodeSize, nodeSize, queueSize)`; `queues[0]` with `nodeSize = 0` panics. -/
def newQueue (baseNodeSize nodeSize queueSize : Nat) : Res Q :=
  if nodeSize = 0 then .panic
  else if baseNodeSize = 0 then .unmodelled
  else .ok
    { hqi := 0, hqs := queueSize, headQueue := .node 0, tqi := 0, tqs := queueSize, tailQueue := .node 0,
      hni := 0, tni := 0,
      queues := some (List.replicate queueSize none) :: List.replicate (nodeSize - 1) none,
      sizes := queueSize :: List.replicate (nodeSize - 1) 0,
      baseNodeSize := baseNodeSize, nodeIndex := 0, nodeSize := nodeSize, shrinkNodeSize := 0,
      baseQueueSize := queueSize, queueSize := queueSize, rellac := 0, dead := [] }

/-! ### primitive accesses -/

/-- `self.queues[j]` (value) -/
def slot (q : Q) (j : Nat) : Res (Option Arr) :=
  match q.queues[j]? with
  | some s => .ok s
  | none => .panic

/-- `self.nodeQueueSizes[j]` -/
def size (q : Q) (j : Nat) : Res Nat :=
  match q.sizes[j]? with
  | some s => .ok s
  | none => .panic

/-- `x = self.queues[j]` taken as an alias. -/
def mkRef (q : Q) (j : Nat) : Res Ref :=
  match q.queues[j]? with
  | none => .panic
  | some none => .ok .nil
  | some (some _) => .ok (.node j)

def refArr (q : Q) : Ref → Option Arr
  | .nil => none
  | .node j => (q.queues[j]?).join
  | .dead k => q.dead[k]?

/-- `r[i]` -/
def readRef (q : Q) (r : Ref) (i : Nat) : Res Elem :=
  match refArr q r with
  | none => .panic
  | some a =>
    match a[i]? with
    | some e => .ok e
    | none => .panic

/-- `r[i] = v` -/
def writeRef (q : Q) (r : Ref) (i : Nat) (v : Elem) : Res Q :=
  match r with
  | .nil => .panic
  | .node j =>
    match q.queues[j]? with
    | some (some a) => if i < a.length then .ok { q with queues := q.queues.set j (some (a.set i v)) } else .panic
    | _ => .panic
  | .dead k =>
    match q.dead[k]? with
    | some a => if i < a.length then .ok { q with dead := q.dead.set k (a.set i v) } else .panic
    | none => .panic

/-- The array in slot `i` is about to be overwritten: aliases to it keep it alive in `dead`. -/
def detach (q : Q) (i : Nat) : Q :=
  match q.queues[i]? with
  | some (some a) =>
    if q.headQueue = .node i ∨ q.tailQueue = .node i then
      { q with dead := q.dead ++ [a],
               headQueue := if q.headQueue = .node i then .dead q.dead.length else q.headQueue,
               tailQueue := if q.tailQueue = .node i then .dead q.dead.length else q.tailQueue }
    else q
  | _ => q

/-- `self.queues[i] = v` where `v` is nil or a fresh array. -/
def setSlot (q : Q) (i : Nat) (v : Option Arr) : Res Q :=
  if i < q.queues.length then
    let q1 := detach q i
    .ok { q1 with queues := q1.queues.set i v }
  else .panic

/-- `self.nodeQueueSizes[i] = n` -/
def setSize (q : Q) (i : Nat) (n : Nat) : Res Q :=
  if i < q.sizes.length then .ok { q with sizes := q.sizes.set i n } else .panic

/-- `self.queues[i] = nil; self.nodeQueueSizes[i] = 0` -/
def freeNode (q : Q) (i : Nat) : Res Q := do
  let q ← setSlot q i none
  setSize q i 0

/-! ### mallocQueue / freeQueue -/

/-- `queueSize*2` capped at `QUEUE_MAX_MALLOC_SIZE` (int32 arithmetic). -/
def doubled (queueSize : Int) : Int :=
  let d := wrap32 (queueSize * 2)
  if d > (maxMalloc : Int) then (maxMalloc : Int) else d

def mallocQueue (q0 : Q) : Res Q := do
  let tni := q0.tni + 1
  let q : Q := { q0 with tni := tni, tqi := 0 }
  let q ←
    (if tni ≥ q.nodeSize then
      let qs := doubled q.queueSize
      if qs < 0 then Res.panic
      else Res.ok { q with queueSize := qs, queues := q.queues ++ [some (List.replicate qs.toNat none)],
                           sizes := q.sizes ++ [qs.toNat], nodeIndex := q.nodeIndex + 1, nodeSize := q.nodeSize + 1 }
    else
      match q.queues[tni]? with
      | none => Res.panic
      | some (some _) => Res.ok q
      | some none =>
        let qs := doubled q.queueSize
        if qs < 0 then Res.panic
        else if tni < q.sizes.length then
          -- the slot is nil, so no alias can point at it: a plain store
          Res.ok { q with queueSize := qs, queues := q.queues.set tni (some (List.replicate qs.toNat none)),
                          sizes := q.sizes.set tni qs.toNat, nodeIndex := q.nodeIndex + 1 }
        else Res.panic)
  let r ← mkRef q tni
  let s ← size q tni
  pure { q with tailQueue := r, tqs := s }

/-- loop of `freeQueue`: `for nodeIndex > t { free nodeIndex; nodeIndex--; queueSize = sizes[nodeIndex] }` -/
def freeLoop (t : Nat) : Nat → Q → Res Q
  | 0, q => .ok q
  | fuel + 1, q =>
    if q.nodeIndex > t then do
      let q ← freeNode q q.nodeIndex
      -- nodeIndex > t ≥ 0, so nodeIndex-1 ≥ 0
      let q : Q := { q with nodeIndex := q.nodeIndex - 1 }
      let s ← size q q.nodeIndex
      freeLoop t fuel { q with queueSize := s }
    else .ok q

def freeQueue (q : Q) : Res Q :=
  if q.nodeSize ≤ q.baseNodeSize then .ok q
  else
    let t := if q.tni < q.baseNodeSize - 1 then q.baseNodeSize - 1 else q.tni
    freeLoop t q.nodeIndex q

/-! ### Push / PushLeft / Pop / PopRight / Head / Tail -/

def push (q : Q) (x : Elem) : Res Q := do
  let q ← writeRef q q.tailQueue q.tqi x
  let q : Q := { q with tqi := q.tqi + 1 }
  if q.tqi ≥ q.tqs then mallocQueue q else pure q

/-- `(q', true)` = nil error, `(q, false)` = `errors.New("full")`. -/
def pushLeft (q : Q) (x : Elem) : Res (Q × Bool) :=
  if q.hni ≤ 0 ∧ q.hqi ≤ 0 then .ok (q, false)
  else do
    let q ←
      (if q.hqi = 0 then do
        -- headQueueIndex-- < 0 ; here headNodeIndex > 0
        let hni := q.hni - 1
        let s ← size q hni
        let r ← mkRef q hni
        -- headQueueIndex = size-1 = -1 makes the store below panic
        if s = 0 then Res.panic
        else Res.ok { q with hni := hni, hqi := s - 1, headQueue := r, hqs := s }
      else Res.ok { q with hqi := q.hqi - 1 })
    let q ← writeRef q q.headQueue q.hqi x
    pure (q, true)

/-- the emptiness test shared by Pop / PopRight / Head / Tail -/
def isEmpty (q : Q) : Bool := decide (q.tqi ≤ q.hqi) && decide (q.tni ≤ q.hni)

def pop (q : Q) : Res (Q × Elem) :=
  if isEmpty q then .ok (q, none)
  else do
    let x ← readRef q q.headQueue q.hqi
    let q ← writeRef q q.headQueue q.hqi none
    let q : Q := { q with hqi := q.hqi + 1 }
    if q.hqi ≥ q.hqs then do
      let hni := q.hni + 1
      let r ← mkRef q hni
      let s ← size q hni
      pure ({ q with hni := hni, hqi := 0, headQueue := r, hqs := s }, x)
    else pure (q, x)

def popRight (q : Q) : Res (Q × Elem) :=
  if isEmpty q then .ok (q, none)
  else do
    let q ←
      (if q.tqi = 0 then
        if q.tni = 0 then Res.panic      -- nodeQueueSizes[-1]
        else do
          let tni := q.tni - 1
          let s ← size q tni
          let r ← mkRef q tni
          if s = 0 then Res.panic        -- tailQueueIndex = -1 makes the read below panic
          else Res.ok { q with tni := tni, tqi := s - 1, tailQueue := r, tqs := s }
      else Res.ok { q with tqi := q.tqi - 1 })
    let x ← readRef q q.tailQueue q.tqi
    let q ← writeRef q q.tailQueue q.tqi none
    pure (q, x)

def head (q : Q) : Res Elem :=
  if isEmpty q then .ok none else readRef q q.headQueue q.hqi

def tail (q : Q) : Res Elem :=
  if isEmpty q then .ok none
  else if q.tqi = 0 then
    if q.tni = 0 then .ok none
    else do
      let a ← slot q (q.tni - 1)
      let s ← size q (q.tni - 1)
      match a with
      | none => .panic
      | some a =>
        if s = 0 then .panic
        else match a[s - 1]? with
          | some e => .ok e
          | none => .panic
  else readRef q q.tailQueue (q.tqi - 1)

/-! ### Shrink -/

def shrinkLoop : Nat → Q → Nat → Nat → Res (Q × Nat)
  | 0, q, _, acc => .ok (q, acc)
  | fuel + 1, q, sz, acc => do
    let s ← size q q.hni
    if sz ≥ s then
      if q.shrinkNodeSize ≥ q.nodeSize then pure (q, acc)
      else do
        let q ← freeNode q q.hni
        let q : Q := { q with shrinkNodeSize := q.shrinkNodeSize + 1 }
        if q.hni = 0 then pure (q, acc + s)
        else shrinkLoop fuel { q with hni := q.hni - 1 } (sz - s) (acc + s)
    else pure (q, acc)

def shrink (q : Q) (sz : Nat) : Res (Q × Nat) := do
  let sz ← (if sz = 0 then size q q.hni else pure sz)
  -- every iteration that continues decrements headNodeIndex, and stops at 0
  shrinkLoop (q.hni + 1) q sz 0

/-! ### Reset / Rellac -/

/-- `for nodeIndex >= base { free nodeIndex; nodeIndex-- }` followed (in both callers) by
`queueSize = nodeQueueSizes[nodeIndex]`, which panics when the loop ran down to -1. -/
def dropLoop (base : Nat) : Nat → Q → Res Q
  | 0, q => .ok q
  | fuel + 1, q =>
    if q.nodeIndex ≥ base then do
      let q ← freeNode q q.nodeIndex
      if q.nodeIndex = 0 then Res.panic
      else dropLoop base fuel { q with nodeIndex := q.nodeIndex - 1 }
    else .ok q

/-- the common tail of Reset / Rellac / Restructuring: both cursors back to cell 0 of node 0 -/
def rewind (q : Q) : Res Q := do
  let r ← mkRef q 0
  let s ← size q 0
  pure { q with hni := 0, hqi := 0, headQueue := r, tailQueue := r, tni := 0, tqi := 0, hqs := s, tqs := s }

def reset (q : Q) : Res Q := do
  let q ← dropLoop q.baseNodeSize (q.nodeIndex + 1) q
  let s ← size q q.nodeIndex
  let q ← rewind { q with queueSize := s }
  pure { q with rellac := 0 }

def rellac (q : Q) : Res Q := do
  let q ←
    (if q.rellac ≥ q.tni then do
      -- Go int32 arithmetic, `/` truncates toward zero
      let b : Int := (q.rellac : Int) + Int.tdiv ((q.nodeIndex : Int) - (q.rellac : Int)) 2
      let b : Int := if b < (q.baseNodeSize : Int) then (q.baseNodeSize : Int) else b
      let q ← dropLoop b.toNat (q.nodeIndex + 1) q
      let s ← size q q.nodeIndex
      Res.ok { q with queueSize := s }
    else Res.ok q)
  let q : Q := { q with rellac := q.tni }
  rewind q

/-! ### Resize -/

/-- `for i := a; i < a+n; i++ { free i }` -/
def freeRange : Nat → Nat → Q → Res Q
  | _, 0, q => .ok q
  | a, n + 1, q => do
    let q ← freeNode q a
    freeRange (a + 1) n q

/-- `queues[t] = queues[i]; sizes[t] = sizes[i]; queues[i] = nil; sizes[i] = 0` (the array moves, aliases follow it) -/
def moveSlot (q : Q) (i t : Nat) : Res Q := do
  let v ← slot q i
  let s ← size q i
  let q ← setSlot q t v
  let q : Q := match v with
    | some _ => { q with headQueue := if q.headQueue = .node i then .node t else q.headQueue,
                         tailQueue := if q.tailQueue = .node i then .node t else q.tailQueue }
    | none => q
  let q ← setSize q t s
  let q : Q := { q with queues := q.queues.set i none }
  setSize q i 0

def moveRange (m : Nat) : Nat → Nat → Q → Res Q
  | _, 0, q => .ok q
  | i, n + 1, q => do
    let q ← moveSlot q i (i - m)
    moveRange m (i + 1) n q

def resize (q : Q) : Res Q :=
  if q.hni ≤ q.baseNodeSize then .ok q
  else do
    let hni := q.hni
    let tni := q.tni
    let base := q.baseNodeSize
    let q ← freeRange base (hni - base) q
    let m := hni - base
    let cnt := tni + 1 - hni
    let q ← moveRange m hni cnt q
    if base + cnt = 0 then Res.unmodelled      -- nodeIndex = -1 would be stored
    else if tni < m then Res.unmodelled        -- tailNodeIndex < 0 would be stored
    else
      pure { q with nodeIndex := base + cnt - 1,
                    queueSize := wrap32 ((q.baseQueueSize : Int) * shl1 tni),
                    hni := hni - m, tni := tni - m }

/-! ### Restructuring (queue.go) and the db.go copies for `LongWaitLockQueue` -/

/-- `for k := k; k < k+n; k++ { x := queues[j][k]; if x != nil { queues[j][k] = nil; Push(x) } }`.
(The Go loop re-reads its bound `nodeQueueSizes[j]` every iteration; it cannot change while the loop runs:
a node whose size is positive and whose array is nil panics on the first read, and `mallocQueue` only
writes the size of a nil node.) -/
def restrRange (j : Nat) : Nat → Nat → Q → Res Q
  | _, 0, q => .ok q
  | k, n + 1, q => do
    let a ← slot q j
    match a with
    | none => Res.panic
    | some a =>
      match a[k]? with
      | none => Res.panic
      | some none => restrRange j (k + 1) n q
      | some (some x) => do
        let q : Q := { q with queues := q.queues.set j (some (a.set k none)) }
        let q ← push q (some x)
        restrRange j (k + 1) n q

/-- `for j := j; j < j+n; j++ { for k < sizes[j] … }` -/
def restrNodes : Nat → Nat → Q → Res Q
  | _, 0, q => .ok q
  | j, n + 1, q => do
    let s ← size q j
    let q ← restrRange j 0 s q
    restrNodes (j + 1) n q

/-- `for T > tni+1 { free T; T-- }`, returns the final `T` -/
def restrFree : Nat → Nat → Q → Res (Q × Nat)
  | 0, T, q => .ok (q, T)
  | fuel + 1, T, q =>
    if T > q.tni + 1 then do
      let q ← freeNode q T
      restrFree fuel (T - 1) q
    else .ok (q, T)

def restructuring (q : Q) : Res Q := do
  let T := q.tni
  let K := q.tqi
  let q ← rewind q
  let q ← restrNodes 0 T q
  let q ← restrRange T 0 K q
  let (q, T') ← restrFree T T q
  let d := T - T'                       -- nodeIndex-- once per freed node
  if q.nodeIndex < d then Res.panic     -- nodeQueueSizes[negative]
  else do
    let q : Q := { q with nodeIndex := q.nodeIndex - d }
    let s ← size q q.nodeIndex
    pure { q with queueSize := s, rellac := 0 }

/-! ### Len / IterNodes / IterNodeQueues -/

def sumSizes (q : Q) : Nat → Nat → Res Nat
  | _, 0 => .ok 0
  | i, n + 1 => do
    let s ← size q i
    let r ← sumSizes q (i + 1) n
    pure (s + r)

def len (q : Q) : Res Int :=
  if q.tni ≤ q.hni then .ok ((q.tqi : Int) - (q.hqi : Int))
  else do
    let s ← size q q.hni
    let m ← sumSizes q (q.hni + 1) (q.tni - (q.hni + 1))
    pure ((s : Int) - (q.hqi : Int) + (m : Int) + (q.tqi : Int))

/-- `len(self.IterNodes())` = `len(queues[hni : tni+1])` -/
def iterNodes (q : Q) : Res Nat :=
  if q.hni ≤ q.tni + 1 ∧ q.tni + 1 ≤ q.queues.length then .ok (q.tni + 1 - q.hni) else .panic

/-- `a[lo:hi]` for an array whose cap equals its len; nil has len 0 -/
def sliceArr (a : Option Arr) (lo hi : Nat) : Res Arr :=
  let l := match a with | some a => a | none => []
  if lo ≤ hi ∧ hi ≤ l.length then .ok ((l.take hi).drop lo) else .panic

/-- the cell range `[lo, hi)` of node `hni+index` that `IterNodeQueues(index)` exposes -/
def iterBounds (q : Q) (index : Nat) : Res (Nat × Nat) := do
  let n := q.hni + index
  if n = q.hni then
    if n = q.tni then pure (q.hqi, q.tqi)
    else do
      let s ← size q n
      pure (q.hqi, s)
  else if n = q.tni then pure (0, q.tqi)
  else do
    let s ← size q n
    pure (0, s)

def iterNodeQueues (q : Q) (index : Nat) : Res Arr := do
  let n := q.hni + index
  let a ← slot q n
  let (lo, hi) ← iterBounds q index
  sliceArr a lo hi

def iterFrom (q : Q) : Nat → Nat → Res (List Arr)
  | _, 0 => .ok []
  | i, n + 1 => do
    let a ← iterNodeQueues q i
    let r ← iterFrom q (i + 1) n
    pure (a :: r)

/-- `for i := range q.IterNodes() { q.IterNodeQueues(i) }` as production code iterates -/
def iterAll (q : Q) : Res (List Arr) := do
  let n ← iterNodes q
  iterFrom q 0 n

/-- `nodeQueues := q.IterNodeQueues(i); nodeQueues[p] = nil` for the `pos`-th cell of the iteration
(how db.go punches holes).  `(q, false)` when `pos` is beyond the iteration. -/
def holeFrom (q : Q) : Nat → Nat → Nat → Res (Q × Bool)
  | _, 0, _ => .ok (q, false)
  | i, n + 1, pos => do
    let a ← iterNodeQueues q i
    if pos < a.length then do
      let (lo, _) ← iterBounds q i
      match q.queues[q.hni + i]? with
      | some (some arr) => pure ({ q with queues := q.queues.set (q.hni + i) (some (arr.set (lo + pos) none)) }, true)
      | _ => Res.panic
    else holeFrom q (i + 1) n (pos - a.length)

def hole (q : Q) (pos : Nat) : Res (Q × Bool) := do
  let n ← iterNodes q
  holeFrom q 0 n pos

/-! ### `LongWaitLockQueue` (db.go 19–60) and `restructuringLong{TimeOut,Expried}Queue` -/

structure LongQ where
  q : Q
  lockCount : Int
  freeCount : Int
  /-- `lock.longWaitIndex` per element id: (node, cell+1); absent = 0 -/
  idx : List (Nat × Nat × Nat)
  deriving Repr

def LongQ.setIdx (l : LongQ) (id n c : Nat) : LongQ :=
  { l with idx := (id, n, c) :: l.idx.filter (fun e => e.1 != id) }

def LongQ.clearIdx (l : LongQ) (id : Nat) : LongQ :=
  { l with idx := l.idx.filter (fun e => e.1 != id) }

def longPush (l : LongQ) (id : Nat) : Res LongQ := do
  let l1 := l.setIdx id l.q.tni (l.q.tqi + 1)
  let q ← push l.q (some id)
  pure { l1 with q := q, lockCount := l.lockCount + 1 }

def longPop (l : LongQ) : Res (LongQ × Elem) := do
  let (q, x) ← pop l.q
  match x with
  | none => pure ({ l with q := q }, none)
  | some id => pure ({ (l.clearIdx id) with q := q, lockCount := l.lockCount - 1 }, some id)

/-- `lock.longWaitIndex` of lock `id`: (node, cell+1); (0, 0) when the lock carries none -/
def lookIdx (l : LongQ) (id : Nat) : Nat × Nat :=
  match l.idx.find? (fun e => e.1 == id) with
  | some e => (e.2.1, e.2.2)
  | none => (0, 0)

/-- `queues[idx>>32][int32(idx&0xffffffff)-1] = nil` -/
def longRemove (l : LongQ) (id : Nat) : Res LongQ :=
  let n := (lookIdx l id).1
  let c := (lookIdx l id).2
  if c = 0 then .panic       -- index -1
  else
    match l.q.queues[n]? with
    | some (some a) =>
      if c - 1 < a.length then
        .ok { (l.clearIdx id) with q := { l.q with queues := l.q.queues.set n (some (a.set (c - 1) none)) },
                                     freeCount := l.freeCount + 1 }
      else .panic
    | _ => .panic

/-- `queueSize = baseQueueSize * int32(uint32(1)<<uint32(tailNodeIndex))`, capped at `QUEUE_MAX_MALLOC_SIZE` -/
def longQueueSize (baseQueueSize T' : Nat) : Int :=
  let qs := wrap32 ((baseQueueSize : Int) * shl1 T')
  if qs > (maxMalloc : Int) then (maxMalloc : Int) else qs

def longRestrRange (j : Nat) : Nat → Nat → LongQ → Res LongQ
  | _, 0, l => .ok l
  | k, n + 1, l => do
    let a ← slot l.q j
    match a with
    | none => Res.panic
    | some a =>
      match a[k]? with
      | none => Res.panic
      | some none => longRestrRange j (k + 1) n l
      | some (some x) => do
        let l : LongQ := { l with q := { l.q with queues := l.q.queues.set j (some (a.set k none)) } }
        let l ← longPush l x
        longRestrRange j (k + 1) n l

def longRestrNodes : Nat → Nat → LongQ → Res LongQ
  | _, 0, l => .ok l
  | j, n + 1, l => do
    let s ← size l.q j
    let l ← longRestrRange j 0 s l
    longRestrNodes (j + 1) n l

/-- db.go 886–932 (and its Expried twin): like `Restructuring`, but (since the repair) ALL nodes behind node `tailNodeIndex+1` are freed, starting at `nodeIndex`, and
`queueSize` is recomputed from `baseQueueSize`; an emptied queue is `Reset` by `FreeLongWaitLockQueue`
(the harness gives the free list room, so the Reset always happens). -/
def longRestructuring (l : LongQ) : Res LongQ := do
  let T := l.q.tni
  let K := l.q.tqi
  let q ← rewind l.q
  let l : LongQ := { l with q := q, lockCount := 0, freeCount := 0 }
  let l ← longRestrNodes 0 T l
  let l ← longRestrRange T 0 K l
  -- since the repair of /repo: `tailNodeIndex = nodeIndex` first, so spare nodes behind the old tail node are
  -- freed too, and `nodeIndex--` once per freed node
  let N := l.q.nodeIndex
  let (q, T') ← restrFree N N l.q
  let d := N - T'
  let q : Q := { q with queueSize := longQueueSize q.baseQueueSize T' }
  let n ← len q
  if q.nodeIndex < d then
    -- nodeIndex would be stored negative: Reset (empty queue) panics on nodeQueueSizes[negative]
    if n = 0 then Res.panic else Res.unmodelled
  else do
    let q : Q := { q with nodeIndex := q.nodeIndex - d }
    if n = 0 then do
      let q ← reset q
      pure { l with q := q, lockCount := -1, freeCount := -1 }
    else pure { l with q := q }

end Slock.Queue
