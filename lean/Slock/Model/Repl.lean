/-
M-REPL: the replication ring buffer of /repo/server/replication.go (`ReplicationBufferQueue`, its cursor) and an
abstract model of the SYNC handshake (`ReplicationServer.handleInitSync`, `sendFiles`, `SendProcess`;
`ReplicationClient.sendSyncCommand`, `InitSync`, `recvFiles`, `ProcessAofAppend`).

Part (a) — the buffer queue, field for field:

* the two singly linked lists `tailItem → … → headItem` (buffered records, oldest first) and
  `freeTailItem → … → freeHeadItem` (recycled items) are `live` / `free : List Item`; `nextItem` of an item is the
  element that follows it in the list it is in (every Go item is in exactly one of the two lists whenever the queue's
  write lock is not held).  An item's identity (the Go pointer a cursor keeps in `currentItem`) is `sid`.
* an item's 64-byte `buf` is abstracted to `(id, ord)`: `id` = bytes 3‥18 (the 16-byte aof id `Search` compares),
  `ord` = the rest of the payload (the harness stores the push ordinal there).  `buf` is NOT cleared when an item is
  recycled, so stale content stays readable through the free list — modelled.  `data` is its length (`nil` = 0).
* `pollCount`, `pollIndex` (uint32, wrapping; `0xffffffff` in `pollCount` marks a recycled item), `seq`,
  `usedBufferSize`, `bufferSize` doubling while `< maxBufferSize`, `dupCount`, `ResetQueueItems` exactly as written.
* `manager == nil` branch of `Push` (no `glock.Wait`): with a manager the writer first releases the lock for 10 ms,
  which is the same as other operations being scheduled before the push.
* `SendProcess`'s `atomic.AddUint32(&cursor.currentItem.pollIndex, 1)` after writing an item is the operation `ack`.
* NOT modelled: wrap-around of the uint64 `seq` / `usedBufferSize` / `bufferSize` (needs 2^64 pushes / bytes); theorems
  state `q.seq < seqNone` where it matters.

Part (b) — the handshake: see `Sync` below.

Core Lean only (linked into `slockmodel`).
-/
namespace Slock.Repl

def M32 : Nat := 0xffffffff
def W32 : Nat := 0x100000000
/-- `0xffffffffffffffff`: the `seq` of a cursor that has no position yet -/
def seqNone : Nat := 0xffffffffffffffff

structure Item where
  sid : Nat
  id : Nat
  ord : Nat
  dlen : Nat
  pollCount : Nat
  pollIndex : Nat
  seq : Nat
  deriving Repr, DecidableEq, Inhabited

structure Q where
  live : List Item
  free : List Item
  nextSid : Nat
  seq : Nat
  used : Nat
  bufSize : Nat
  maxSize : Nat
  pollCount : Nat
  dupCount : Nat
  deriving Repr, DecidableEq, Inhabited

structure Cursor where
  cur : Option Nat      -- currentItem (sid)
  bufId : Nat           -- copy of the item's buf (= currentAofId after Pop/Head/Search)
  bufOrd : Nat
  dlen : Nat
  seq : Nat
  writed : Bool
  deriving Repr, DecidableEq, Inhabited

/-- `ReplicationBufferQueueItem.Init` on zeroed memory -/
def freshItem (sid : Nat) : Item :=
  { sid := sid, id := 0, ord := 0, dlen := 0, pollCount := M32, pollIndex := 0, seq := 0 }

/-- `InitFreeQueueItems(count)`: `count` new items appended to the free list -/
def freshItems (start count : Nat) : List Item := (List.range count).map (fun i => freshItem (start + i))

def newQueue (bufSize maxSize : Nat) : Q :=
  { live := [], free := freshItems 0 (bufSize / 64), nextSid := bufSize / 64, seq := 0, used := 0,
    bufSize := bufSize, maxSize := maxSize, pollCount := 0, dupCount := 0 }

/-- `NewReplicationBufferQueueCursor` -/
def newCursor : Cursor := { cur := none, bufId := 0, bufOrd := 0, dlen := 0, seq := seqNone, writed := true }

def itemSize (it : Item) : Nat := 64 + it.dlen

/-- what `ResetQueueItems` does to an item it moves to the free list (`buf` is kept) -/
def recycle (it : Item) : Item := { it with dlen := 0, pollCount := M32, pollIndex := 0, seq := 0 }

/-- The loop of `ResetQueueItems`: `it` is the detached `queueItem` (size already subtracted), `rest` the list from
`tailItem`. -/
def resetLoop (bufSize : Nat) : Item → List Item → List Item → Nat → Item × List Item × List Item × Nat
  | it, [], free, used => (it, [], free, used)
  | it, t :: rest, free, used =>
    if used ≥ bufSize ∧ t.pollIndex ≥ t.pollCount then
      resetLoop bufSize t rest (free ++ [recycle it]) (used - itemSize t)
    else (it, t :: rest, free, used)

inductive Room
  | none | grow | evict
  deriving Repr, DecidableEq

/-- the decision at the top of `Push` (manager = nil) -/
def roomOf (q : Q) : Room :=
  match q.live with
  | [] => .none
  | t :: _ =>
    if q.free.isEmpty ∨ q.used ≥ q.bufSize then
      (if t.pollIndex < t.pollCount ∧ q.bufSize < q.maxSize then .grow else .evict)
    else .none

/-- first half of `Push`: make room; returns the item `ResetQueueItems` handed back, if any -/
def makeRoom (q : Q) : Q × Option Item :=
  match roomOf q with
  | .none => (q, none)
  | .grow =>
    ({ q with free := q.free ++ freshItems q.nextSid (q.bufSize / 64), nextSid := q.nextSid + q.bufSize / 64,
              bufSize := q.bufSize * 2, dupCount := (q.dupCount + 1) % W32 }, none)
  | .evict =>
    match q.live with
    | [] => (q, none)
    | t :: rest =>
      let r := resetLoop q.bufSize t rest q.free (q.used - itemSize t)
      ({ q with live := r.2.1, free := r.2.2.1, used := r.2.2.2 }, some r.1)

/-- second part: take an item from the free list, or allocate one -/
def takeItem (q : Q) : Option Item → Q × Item
  | some it => (q, it)
  | none =>
    match q.free with
    | f :: fr => ({ q with free := fr }, f)
    | [] => ({ q with nextSid := q.nextSid + 1 }, { freshItem q.nextSid with pollCount := 0 })

def fillItem (q : Q) (it : Item) (id ord dlen : Nat) : Item :=
  { it with id := id, ord := ord, dlen := dlen, pollCount := q.pollCount, pollIndex := 0, seq := q.seq }

def push (q : Q) (id ord dlen : Nat) : Q :=
  let r := makeRoom q
  let t := takeItem r.1 r.2
  let q2 := t.1
  { q2 with live := q2.live ++ [fillItem q2 t.2 id ord dlen], used := q2.used + (64 + dlen), seq := q2.seq + 1 }

/-- the item with identity `sid` in `l` and the items linked after it -/
def after : List Item → Nat → Option (Item × List Item)
  | [], _ => none
  | it :: l, sid => if it.sid = sid then some (it, l) else after l sid

/-- dereference a cursor's `currentItem` -/
def locate (q : Q) (sid : Nat) : Option (Item × List Item) :=
  match after q.live sid with
  | some r => some r
  | none => after q.free sid

inductive PopRes
  | ok | eof | oob | nf | panic
  deriving Repr, DecidableEq

def takeCur (c : Cursor) (it : Item) (writed : Bool) : Cursor :=
  { c with cur := some it.sid, bufId := it.id, bufOrd := it.ord, dlen := it.dlen, seq := it.seq, writed := writed }

/-- `Pop`, branch `currentItem == nil || currentItem.pollCount == 0xffffffff` -/
def popTail (q : Q) (c : Cursor) : PopRes × Cursor :=
  match q.live with
  | [] => (.eof, c)
  | t :: _ =>
    if t.seq ≠ c.seq + 1 ∧ t.seq ≠ 0 ∧ c.seq ≠ seqNone then (.oob, c) else (.ok, takeCur c t false)

def pop (q : Q) (c : Cursor) : PopRes × Cursor :=
  match c.cur with
  | none => popTail q c
  | some sid =>
    match locate q sid with
    | none => (.panic, c)   -- a Go pointer cannot dangle; unreachable (every sid handed out stays in a list)
    | some (it, nxt) =>
      if it.pollCount = M32 then popTail q c
      else if it.seq ≠ c.seq then (.oob, c)
      else match nxt with
        | [] => (.eof, c)
        | n :: _ => (.ok, takeCur c n false)

def head (q : Q) (c : Cursor) : PopRes × Cursor :=
  match q.live.getLast? with
  | none => (.eof, c)
  | some it => (.ok, takeCur c it false)

def search (q : Q) (id : Nat) (c : Cursor) : PopRes × Cursor :=
  match q.live with
  | [] => (.eof, c)
  | _ :: _ =>
    match q.live.find? (fun it => it.id = id) with
    | none => (.nf, c)
    | some it => (.ok, takeCur c it true)

/-- apply `f` to the item `sid` and everything linked after it -/
def bumpFrom (f : Item → Item) : List Item → Nat → Option (List Item)
  | [], _ => none
  | it :: l, sid => if it.sid = sid then some ((it :: l).map f) else (bumpFrom f l sid).map (it :: ·)

/-- apply `f` to the item `sid` only -/
def bumpOne (f : Item → Item) : List Item → Nat → Option (List Item)
  | [], _ => none
  | it :: l, sid => if it.sid = sid then some (f it :: l) else (bumpOne f l sid).map (it :: ·)

def walk (q : Q) (f : Item → Item) : Option Nat → Q
  | none => q
  | some sid =>
    match bumpFrom f q.live sid with
    | some l => { q with live := l }
    | none =>
      match bumpFrom f q.free sid with
      | some l => { q with free := l }
      | none => q

def incPollCount (it : Item) : Item := { it with pollCount := (it.pollCount + 1) % W32 }
def incPollIndex (it : Item) : Item := { it with pollIndex := (it.pollIndex + 1) % W32 }

/-- where `AddPoll` starts walking: the cursor's item — unless that item has been recycled since the cursor was positioned
(it is marked `0xffffffff` or carries another `seq`), then nowhere (the cursor's next `Pop` reports "out of buf") -/
def addStart (q : Q) (c : Cursor) : Option Nat :=
  match c.cur with
  | none => none
  | some sid =>
    match locate q sid with
    | some (it, _) => if it.pollCount = M32 ∨ it.seq ≠ c.seq then none else some sid
    | none => some sid

def addPoll (q : Q) (c : Cursor) : Q :=
  walk { q with pollCount := (q.pollCount + 1) % W32 } incPollCount (addStart q c)

def removePoll (q : Q) (c : Cursor) : Q :=
  walk { q with pollCount := (q.pollCount + W32 - 1) % W32 } incPollIndex c.cur

/-- `SendProcess` after writing the cursor's item: `writed = true; currentItem.pollIndex++`.
Result `none` = nil dereference. -/
def ack (q : Q) (c : Cursor) : Option (Q × Cursor × Bool) :=
  if c.writed then some (q, c, false)
  else match c.cur with
    | none => none
    | some sid =>
      let q' := match bumpOne incPollIndex q.live sid with
        | some l => { q with live := l }
        | none =>
          match bumpOne incPollIndex q.free sid with
          | some l => { q with free := l }
          | none => q
      some (q', { c with writed := true }, true)

/-- `handleInitSync`, search failed but the reported id is the manager's `currentAofId`: wait at the end -/
def seekEnd (q : Q) (c : Cursor) : Cursor :=
  { c with cur := none, seq := (if q.seq = 0 then seqNone else q.seq - 1), writed := true }

/-! ### A system of one queue and named cursors; operation sequences -/

inductive Op
  | push (id ord dlen : Nat)
  | cursor (n : Nat)
  | add (n : Nat)
  | rm (n : Nat)
  | pop (n : Nat)
  | ack (n : Nat)
  | head (n : Nat)
  | search (n : Nat) (id : Nat)
  deriving Repr, DecidableEq

inductive Obs
  | done
  | res (r : PopRes) (c : Cursor)
  | acked (b : Bool)
  | noCursor
  deriving Repr, DecidableEq

structure Sys where
  q : Q
  cs : List (Nat × Cursor)
  deriving Repr, DecidableEq

def getC (cs : List (Nat × Cursor)) (n : Nat) : Option Cursor :=
  match cs with
  | [] => none
  | (m, c) :: r => if m = n then some c else getC r n

def setC (cs : List (Nat × Cursor)) (n : Nat) (c : Cursor) : List (Nat × Cursor) :=
  match cs with
  | [] => [(n, c)]
  | (m, d) :: r => if m = n then (n, c) :: r else (m, d) :: setC r n c

def Sys.init (bufSize maxSize : Nat) : Sys := { q := newQueue bufSize maxSize, cs := [] }

def step (s : Sys) : Op → Sys × Obs
  | .push id ord dlen => ({ s with q := push s.q id ord dlen }, .done)
  | .cursor n => ({ s with cs := setC s.cs n newCursor }, .done)
  | .add n =>
    match getC s.cs n with
    | none => (s, .noCursor)
    | some c => ({ s with q := addPoll s.q c }, .done)
  | .rm n =>
    match getC s.cs n with
    | none => (s, .noCursor)
    | some c => ({ s with q := removePoll s.q c }, .done)
  | .pop n =>
    match getC s.cs n with
    | none => (s, .noCursor)
    | some c => let r := pop s.q c; ({ s with cs := setC s.cs n r.2 }, .res r.1 r.2)
  | .head n =>
    match getC s.cs n with
    | none => (s, .noCursor)
    | some c => let r := head s.q c; ({ s with cs := setC s.cs n r.2 }, .res r.1 r.2)
  | .search n id =>
    match getC s.cs n with
    | none => (s, .noCursor)
    | some c => let r := search s.q id c; ({ s with cs := setC s.cs n r.2 }, .res r.1 r.2)
  | .ack n =>
    match getC s.cs n with
    | none => (s, .noCursor)
    | some c =>
      match ack s.q c with
      | none => (s, .res .panic c)
      | some (q', c', b) => ({ q := q', cs := setC s.cs n c' }, .acked b)

def run (s : Sys) : List Op → Sys
  | [] => s
  | op :: ops => run (step s op).1 ops

/-- the records pushed by an operation sequence, in order: `(id, ord, dlen)` -/
def pushedOf : List Op → List (Nat × Nat × Nat)
  | [] => []
  | .push id ord dlen :: ops => (id, ord, dlen) :: pushedOf ops
  | _ :: ops => pushedOf ops

/-! ### Part (b): the SYNC handshake, abstractly

Leader: `log` = ids of the persisted records, record number k has id k (ids grow with (AofIndex, AofOffset)) and was
pushed into the buffer with seq k-1 (`append` = AOF append + `ReplicationManager.PushLock`). `manager.currentAofId` =
id of the newest record.

Follower `f`: `curId` = `ReplicationClient.currentAofId` (0 = none), `log` = the records it has applied (appended to its own
AOF and replayed) since its last reset, in arrival order; `conn`; `cur` = the cursor of the `ReplicationServer` serving it.

Events (each is one atomic step; a cut is an event at a message boundary):
* `append dlen` — the leader persists and publishes record `log.length + 1`.
* `connect f` — `sendSyncCommand` + `handleInitSync`, decided exactly as the code does: reported id empty → `Head`; the answer H
  is the newest buffered id (next id to be written if the buffer is empty); the client resets its log (`aof.Reset`, `FlushDB`);
  known id → `Search`: found → the cursor is positioned on it; not found but equal to the manager's current id → wait at the
  end; otherwise `ERR_NOT_FOUND` → the client clears its id and repeats the request with an empty id. The channel is now in
  `wait`: the leader waits for the client's "started" message (`waitStarted`) — pushes may happen in between.
* `start f` — the "started" message arrived: `addServerChannel` (AddPoll on the cursor as positioned at `connect`); after a
  transfer from scratch the file phase begins (the client's `curId` stays empty until the first record arrives — before the
  repair `fix: … InitSync` it stored `curId := H` here), after a resume the stream begins.
* `deliver f` — phase `files H pos`: the next persisted record with id < H is transferred and applied (`curId :=` its id),
  or the end marker switches to `stream`; phase `stream`: one iteration of `SendProcess`: the item in hand is written
  (applied by the follower, `curId :=` its id) and acknowledged, else `Pop` (error → the channel closes, RemovePoll).
  NOT modelled: `LoadAofFile`'s filter that drops records whose own deadline has passed (every record < H is transferred;
  i.e. no record expires during the run).
* `cut f` — the connection is lost, both processes live on: RemovePoll (if added), `conn := off`; the follower keeps `curId`
  and its log and will reconnect.
* `restartSame f` — the follower process is killed and restarted on the SAME data dir: as `cut`, and `curId` is re-read from
  its own AOF (= the last record it has applied).
* `restartEmpty f` — … restarted on an EMPTY data dir: as `cut`, `curId := 0`, log empty.
-/

inductive Conn
  | off
  | wait (h : Option Nat)   -- handshake answered, "started" not yet received: `some h` = transfer from scratch up to h, `none` = resume
  | files (h pos : Nat)
  | stream
  deriving Repr, DecidableEq

structure Fol where
  curId : Nat
  log : List Nat
  conn : Conn
  cur : Cursor
  deriving Repr, DecidableEq

def Fol.new : Fol := { curId := 0, log := [], conn := .off, cur := newCursor }

structure Sync where
  q : Q
  log : List Nat
  fols : List (Nat × Fol)
  deriving Repr, DecidableEq

def Sync.init (bufSize maxSize : Nat) : Sync := { q := newQueue bufSize maxSize, log := [], fols := [] }

def getF : List (Nat × Fol) → Nat → Fol
  | [], _ => Fol.new
  | (m, f) :: r, n => if m = n then f else getF r n

def setF : List (Nat × Fol) → Nat → Fol → List (Nat × Fol)
  | [], n, f => [(n, f)]
  | (m, g) :: r, n, f => if m = n then (n, f) :: r else (m, g) :: setF r n f

inductive Ev
  | append (dlen : Nat)
  | connect (f : Nat)
  | start (f : Nat)
  | deliver (f : Nat)
  | cut (f : Nat)
  | restartSame (f : Nat)
  | restartEmpty (f : Nat)
  deriving Repr, DecidableEq

inductive SObs
  | ok
  | full (h : Nat)            -- empty id: file transfer up to h, then live stream
  | retryFull (h : Nat)       -- ERR_NOT_FOUND, client cleared its id, full transfer
  | resume (id : Nat)         -- known id found in the buffer
  | atEnd (id : Nat)          -- not in the buffer but equal to the manager's current id
  | file (id : Nat)
  | filesDone
  | send (id : Nat)
  | popped (id : Nat)
  | idle
  | outOfBuf
  | noop
  deriving Repr, DecidableEq

/-- the channel's cursor is registered with the buffer (AddPoll done, RemovePoll not yet) -/
def Conn.polled : Conn → Bool
  | .files _ _ => true
  | .stream => true
  | _ => false

/-- `handleInitSync` with an empty id, and the client's reaction (`aof.Reset`, `FlushDB`) -/
def connectFull (s : Sync) (n : Nat) : Sync × Nat :=
  let r := head s.q newCursor
  let h := if r.1 = .ok then r.2.bufId else s.log.length + 1
  ({ s with fols := setF s.fols n { curId := 0, log := [], conn := .wait (some h), cur := r.2 } }, h)

def connect (s : Sync) (n : Nat) : Sync × SObs :=
  let f := getF s.fols n
  if f.conn ≠ .off then (s, .noop)
  else if f.curId = 0 then
    let r := connectFull s n
    (r.1, .full r.2)
  else
    let r := search s.q f.curId newCursor
    if r.1 = .ok then
      ({ s with fols := setF s.fols n { f with conn := .wait none, cur := r.2 } }, .resume f.curId)
    else if f.curId = s.log.length then
      ({ s with fols := setF s.fols n { f with conn := .wait none, cur := seekEnd s.q newCursor } }, .atEnd f.curId)
    else
      let r := connectFull s n
      (r.1, .retryFull r.2)

/-- the client's "started" message: `addServerChannel`; the file phase / the stream begins -/
def start (s : Sync) (n : Nat) : Sync × SObs :=
  let f := getF s.fols n
  match f.conn with
  | .wait none => ({ s with q := addPoll s.q f.cur, fols := setF s.fols n { f with conn := .stream } }, .ok)
  | .wait (some h) => ({ s with q := addPoll s.q f.cur, fols := setF s.fols n { f with conn := .files h 0 } }, .ok)
  | _ => (s, .noop)

/-- one iteration of `SendProcess` for the channel serving follower `f` (phase `stream`) -/
def streamStep (q : Q) (f : Fol) : Q × Fol × SObs :=
  if f.cur.writed = false then
    match ack q f.cur with
    | none => (q, f, .noop)
    | some (q', c', _) => (q', { f with log := f.log ++ [f.cur.bufId], curId := f.cur.bufId, cur := c' }, .send f.cur.bufId)
  else
    let r := pop q f.cur
    match r.1 with
    | .ok => (q, { f with cur := r.2 }, .popped r.2.bufId)
    | .eof => (q, f, .idle)
    | _ => (removePoll q f.cur, { f with conn := .off }, .outOfBuf)

def deliver (s : Sync) (n : Nat) : Sync × SObs :=
  let f := getF s.fols n
  match f.conn with
  | .files h pos =>
    match s.log[pos]? with
    | some id =>
      if id < h then
        ({ s with fols := setF s.fols n { f with log := f.log ++ [id], curId := id, conn := .files h (pos + 1) } }, .file id)
      else ({ s with fols := setF s.fols n { f with conn := .stream } }, .filesDone)
    | none => ({ s with fols := setF s.fols n { f with conn := .stream } }, .filesDone)
  | .stream =>
    let r := streamStep s.q f
    ({ s with q := r.1, fols := setF s.fols n r.2.1 }, r.2.2)
  | _ => (s, .noop)

/-- the channel of follower `n` goes away (`removeServerChannel` if it had been added); the follower becomes `f'` -/
def dropChannel (s : Sync) (n : Nat) (f' : Fol) : Sync :=
  let f := getF s.fols n
  { s with q := (if f.conn.polled then removePoll s.q f.cur else s.q), fols := setF s.fols n f' }

def cut (s : Sync) (n : Nat) : Sync × SObs :=
  let f := getF s.fols n
  if f.conn = .off then (s, .noop) else (dropChannel s n { f with conn := .off }, .ok)

def restartSame (s : Sync) (n : Nat) : Sync × SObs :=
  let f := getF s.fols n
  (dropChannel s n { f with conn := .off, curId := f.log.length }, .ok)

def restartEmpty (s : Sync) (n : Nat) : Sync × SObs :=
  (dropChannel s n Fol.new, .ok)

def sstep (s : Sync) : Ev → Sync × SObs
  | .append dlen =>
    let id := s.log.length + 1
    ({ s with q := push s.q id id dlen, log := s.log ++ [id] }, .ok)
  | .connect n => connect s n
  | .start n => start s n
  | .deliver n => deliver s n
  | .cut n => cut s n
  | .restartSame n => restartSame s n
  | .restartEmpty n => restartEmpty s n

def srun (s : Sync) : List Ev → Sync
  | [] => s
  | e :: es => srun (sstep s e).1 es

/-! ### `SendProcess`'s 4 KB batch buffer

`wire` = the records written to the socket so far, in order; `wbuf` = the records copied into the 4096-byte batch buffer and not
yet written; `windex` = bytes used in it. One call of `sendRec` is the `if !self.bufferCursor.writed { … }` block of `SendProcess`
for a record with `d` data bytes (`d = 0`: `data == nil`): a record with data is first preceded by a flush if it does not fit
(`rule windex d`, in the code `windex + 64 + d > 4096`); if it is larger than the buffer (`64 + d > 4096`) header and data are
written directly, else it is copied behind the waiting ones; the buffer is flushed when `windex > 4032`; `Pop` = EOF / error
flushes too (`Batch.flush`). -/
structure Batch where
  wire : List Nat
  wbuf : List Nat
  windex : Nat
  deriving Repr, DecidableEq

def Batch.empty : Batch := { wire := [], wbuf := [], windex := 0 }

def Batch.flush (b : Batch) : Batch := { wire := b.wire ++ b.wbuf, wbuf := [], windex := 0 }

/-- the condition as written in replication.go -/
def codeRule (windex d : Nat) : Bool := decide (windex + 64 + d > 4096)

def sendRec (rule : Nat → Nat → Bool) (b : Batch) (id d : Nat) : Batch :=
  let b1 : Batch :=
    if d > 0 then
      let b0 := if rule b.windex d then b.flush else b
      if 64 + d > 4096 then { b0 with wire := b0.wire ++ [id] }
      else { b0 with wbuf := b0.wbuf ++ [id], windex := b0.windex + 64 + d }
    else { b with wbuf := b.wbuf ++ [id], windex := b.windex + 64 }
  if b1.windex > 4032 then b1.flush else b1

def sendAll (rule : Nat → Nat → Bool) : Batch → List (Nat × Nat) → Batch
  | b, [] => b
  | b, (id, d) :: rs => sendAll rule (sendRec rule b id d) rs

end Slock.Repl
