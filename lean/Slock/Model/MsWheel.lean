/-!
# M-MSWHEEL — the millisecond stage of wait timeouts and hold expiries

`LockDB.AddMillisecondTimeOut` / `checkMillisecondTimeOut` (and the `…Expried` twins, same shape): a request whose unit flag is
"milliseconds" with value `T` is PARKED until wall-clock millisecond `nowMs + T % 3000`; when the park ends it is either fired
at once (`T < 3000`) or handed to the SECOND wheel with the deadline `start + T / 1000 + 1` (`start` = the server second in which
the request was made), where M-ENGINE's wheel takes over. Wall time is in milliseconds, server time in seconds.
-/
namespace Slock.Ms

def QLEN : Nat := 3000

/-- wall millisecond at which the park ends (the goroutine sleeps until then) -/
def parkEnd (nowMs T : Nat) : Nat := nowMs + T % QLEN

inductive Next where
  | fire                       -- answered TIMEOUT / EXPRIED when the park ends
  | second (deadline : Nat)    -- handed to the second wheel with this deadline (server seconds)
  deriving Repr, DecidableEq

def afterPark (start T : Nat) : Next :=
  if T ≥ QLEN then .second (start + T / 1000 + 1) else .fire

/-- One request end to end, given when things happen in wall time:
`t0` request (wall ms), `p` the moment the park goroutine wakes (`p ≥ parkEnd t0 T`), `f` the moment the second wheel's sweep
for the deadline second runs (wall ms; only used when handed over). Result: wall ms at which the request is answered. -/
def answeredAt (t0 T p f : Nat) : Nat :=
  match afterPark (t0 / 1000) T with
  | .fire => p
  | .second _ => f

/-- `doExpried` on a node that is NOT the leader, for a replicated (journalled) hold reached through a call site that does not force the
expiry: nothing is sent, the hold is re-armed `REARM` seconds ahead. -/
def REARM : Nat := 30
def followerDefer (now : Nat) : Nat := now + REARM

def showNext : Next → String
  | .fire => "fire"
  | .second d => s!"second:{d}"

end Slock.Ms
