/-!
# M-MSWHEEL — the millisecond stage of wait timeouts and hold expiries

`LockDB.AddMillisecondTimeOut` / `checkMillisecondTimeOut` (and the `…Expried` twins, same shape): a request whose unit flag is
"milliseconds" with value `T` is PARKED until wall-clock millisecond `nowMs + T % 3000`; when the park ends it is either fired
at once (`T < 3000`) or handed to the SECOND wheel with the deadline `start + T / 1000 + 1` (`start` = the server second in which
the request was made), where M-ENGINE's wheel takes over. Wall time is in milliseconds, server time in seconds.
-/
namespace Slock.Ms

def QLEN : Nat := 3000

/-- wall millisecond at which the park ends (the goroutine sleeps until then) -/
def parkEnd (nowMs T : Nat) : Nat := nowMs + T % QLEN

inductive Next where
  | fire                       -- answered TIMEOUT / EXPRIED when the park ends
  | second (deadline : Nat)    -- handed to the second wheel with this deadline (server seconds)
  deriving Repr, DecidableEq

def afterPark (start T : Nat) : Next :=
  if T ≥ QLEN then .second (start + T / 1000 + 1) else .fire

/-- One request end to end, given when things happen in wall time:
`t0` request (wall ms), `p` the moment the park goroutine wakes (`p ≥ parkEnd t0 T`), `f` the moment the second wheel's sweep
for the deadline second runs (wall ms; only used when handed over). Result: wall ms at which the request is answered. -/
def answeredAt (t0 T p f : Nat) : Nat :=
  match afterPark (t0 / 1000) T with
  | .fire => p
  | .second _ => f

/-- `doExpried` on a node that is NOT the leader, for a replicated (journalled) hold reached through a call site that does not force the
expiry: nothing is sent, the hold is re-armed `REARM` seconds ahead. -/
def REARM : Nat := 30
def followerDefer (now : Nat) : Nat := now + REARM

def showNext : Next → String
  | .fire => "fire"
  | .second d => s!"second:{d}"

/-! ## Re-term: a hold is given new terms while its expiry entry sits somewhere

`LockDB.Lock`, the UPDATE branch (`LOCK_FLAG_UPDATE_WHEN_LOCKED`) and the RE-LOCK branch below it (same LockId, depth ≤ Rcount, value ≠ 0).
The decision modelled here is what happens to the hold's EXPIRY ENTRY at that moment. The entry is in one of four places: the second wheel
(`wheel`), the long table (`long`: `longWaitIndex > 0`), parked in a slot of the millisecond table (`parked`), or back in the second wheel
after its park (`handed`). Units: seconds and milliseconds (the minute unit and the unlimited flag are left out: the harness does not use
them). Server time in seconds. -/

inductive Place where
  | wheel | long | parked | handed
  deriving Repr, DecidableEq

inductive Reterm where
  /-- answered, nothing changed: the hold keeps its command and its deadline (the "same terms" shortcut of an update) -/
  | ignored
  /-- the hold record carries `deadline`; its entry is in the second wheel (`long = false`: where it was, or freshly pushed by `AddExpried`)
      or still in the long table under the unchanged deadline (`long = true`) -/
  | secondAt (deadline : Nat) (long : Bool)
  /-- taken out of the long table and parked in the millisecond table (`AddMillisecondExpried`); the record carries `deadline` -/
  | reparked (deadline : Nat)
  /-- the entry stays in its OLD millisecond slot; the record carries the new command and `deadline` -/
  | staleParked (deadline : Nat)
  deriving Repr, DecidableEq

/-- `LockManager.UpdateLockedLock`: the deadline second written into the hold record (`startTime` becomes `now`) -/
def newDeadline (now : Nat) (ms : Bool) (val : Nat) : Nat := now + (if ms then val / 1000 else val) + 1

/-- `LockManager.CheckLockedEqual` for the second and the millisecond unit: the "same terms, nothing to do" test of an update.
`countsEq` = `checkLockedCountEqual`. Second unit: the deadline the new terms would give is within one second of the current one.
Millisecond unit: the counts only. -/
def sameTerms (now expT : Nat) (ms : Bool) (val : Nat) (countsEq : Bool) : Bool :=
  if ms then countsEq
  else
    let d := now + val + 1
    (if d > expT then decide (d - expT ≤ 1) else decide (expT - d ≤ 1)) && countsEq

/-- the expiry-flag word the harness sends for a unit -/
def eflagOf (ms : Bool) : Nat := if ms then 1024 else 0

/-- What the update (`isUpdate = true`) / re-lock (`false`) does with the expiry entry. A re-lock has no shortcut. Only an entry in the
long table is ever moved (`currentLock.longWaitIndex > 0`): to the millisecond table for millisecond terms, to the second wheel
(`expriedCheckedCount` was reset to 1 by `UpdateLockedLock`) for second terms with a changed deadline. Everywhere else the record is
rewritten and the entry is left where it is. -/
def reterm (place : Place) (isUpdate countsEq : Bool) (now expT : Nat) (ms : Bool) (val : Nat) : Reterm :=
  if isUpdate && sameTerms now expT ms val countsEq then .ignored
  else
    let d := newDeadline now ms val
    match place with
    | .long => if ms then .reparked d else if d = expT then .secondAt d true else .secondAt d false
    | .parked => .staleParked d
    | .wheel => .secondAt d false
    | .handed => .secondAt d false

/-- a stale entry when its OLD park ends: the park goroutine reads the value of the hold's CURRENT command — the new one, in whatever unit
it was given — as milliseconds, counted from the new `startTime` (= the second of the update) -/
def staleAfterPark (now val : Nat) : Next := afterPark now val

def showReterm (now val : Nat) : Reterm → String
  | .ignored => "ignored"
  | .secondAt d false => s!"second:{d}"
  | .secondAt d true => s!"second:{d}:long"
  | .reparked d => s!"reparked:{d}"
  | .staleParked d => s!"stale:{d}:{showNext (staleAfterPark now val)}"

def parsePlace : String → Option Place
  | "wheel" => some .wheel
  | "long" => some .long
  | "parked" => some .parked
  | "handed" => some .handed
  | _ => none

end Slock.Ms
