/-
M-QUEUE2: the four containers of /repo/server/lock.go lines 11-534
  LockManagerRingQueue, LockManagerPriorityRingQueue,
  LockManagerLockQueue  (holder queue: inline fastQueue -> LockManagerScaleLockQueue),
  LockManagerWaitQueue  (inline fastQueue -> ring -> priority ring, RePushPriorityRingQueue).
Core Lean only (the driver links this).  The model mirrors the Go fields and branches.

Modelling decisions (all of them are also exercised by the differential harness, which prints
len / cap / index after every operation):

* A `*Lock` is an `Elem` VALUE carrying the fields the queue code reads (`locked`, `timeouted`,
  `ackCount`, `refCount`, the priority derived from `command.TimeoutFlag & 0x0010` / `command.Rcount`,
  and a key standing for `command.LockId`).  A slice entry is `Option Elem`, `none` = nil pointer.
  Pointer identity is the `id`.  In-place mutation of a lock that sits in a queue (tombstoning) is the
  function `kill…`, which rewrites every copy with that id.  Faithful as long as a lock object is not
  stored twice in one container (production never does: AddLock / AddWaitLock push a lock once).
* A Go slice is its visible part (`List Slot`, the Go `len`) plus its `cap`.  The array cells between
  `len` and `cap` are never READ by any of the modelled functions (every read is at an index `< len`,
  `copy` + reslice shrink `len`, and `append` writes a cell before it becomes visible), so they are not
  represented.  `append` on a full slice allocates `grow cap` cells: `grow` is a parameter.
* The compaction loops of `LockManagerLockQueue.Push` / `LockManagerWaitQueue.Push` shuffle kept
  entries to the front of the array in place and then reslice to the kept count; the model computes
  the kept list directly (`compact`); the cells behind it are unobservable as explained above.
* Where Go panics (nil dereference, index out of range) the result is `Res.panic`.
* Holder queue only: the scale queue `NewLockManagerScaleLockQueue(1, 8, 256)` (the segmented deque
  `LockQueue` of queue.go + the `maps` table) is represented ABSTRACTLY by a FIFO `List Slot` plus an
  association list keyed by the lock-id key.  That the deque really behaves like this list is the
  deque refinement theorem of `Slock.Queue` (Model/Queue.lean, Proofs/Queue*.lean); `Resize` is the
  identity on the abstract content.  `LockQueue.Push` never returns an error (queue.go:418-425).
-/
namespace Slock.Queue2

structure Elem where
  id : Nat
  /-- `command.Rcount` if `command.TimeoutFlag & TIMEOUT_FLAG_RCOUNT_IS_PRIORITY (0x0010) != 0`, else 0 -/
  priority : Nat
  /-- stands for `command.LockId` ([16]byte) -/
  lockIdKey : Nat
  locked : Nat
  timeouted : Bool
  ackCount : Nat
  refCount : Nat
  deriving DecidableEq, Repr, Inhabited

abbrev Slot := Option Elem

/-- Result of a Go call that may panic. -/
inductive Res (α : Type) where
  | ok (a : α)
  | panic
  deriving Repr, DecidableEq

def Res.bind {α β : Type} : Res α → (α → Res β) → Res β
  | .ok a, f => f a
  | .panic, _ => .panic

/-- `uint8` decrement (`refCount--`). -/
def dec8 (n : Nat) : Nat := (n + 255) % 256

/-- `append(s, x)` for a slice with visible part `data` and capacity `cap`: new visible part, new cap. -/
def goAppend (grow : Nat → Nat) (data : List Slot) (cap : Nat) (x : Slot) : List Slot × Nat :=
  if data.length < cap then (data ++ [x], cap) else (data ++ [x], grow cap)

/-! ## LockManagerRingQueue (lock.go:20-81) -/

structure Ring where
  queue : List Slot
  cap : Nat
  index : Nat
  deriving Repr, DecidableEq

def Ring.new (size : Nat) : Ring := ⟨[], size, 0⟩

/-- Push after the bounds check of `self.queue[self.index:]`. -/
def Ring.pushCore (grow : Nat → Nat) (q : Ring) (x : Slot) : Ring :=
  let q1 : Ring :=
    if q.queue.length = q.cap ∧ q.index > q.queue.length / 2 then
      -- copy(self.queue, self.queue[self.index:]); self.queue = self.queue[:len-index]; index = 0
      ⟨q.queue.drop q.index, q.cap, 0⟩
    else q
  let r := goAppend grow q1.queue q1.cap x
  ⟨r.1, r.2, q1.index⟩

/-- lock.go:29-38.  `self.queue[self.index:]` panics when `index > len`. -/
def Ring.push (grow : Nat → Nat) (q : Ring) (x : Slot) : Res Ring :=
  if q.queue.length = q.cap ∧ q.index > q.queue.length / 2 ∧ q.index > q.queue.length then .panic
  else .ok (q.pushCore grow x)

/-- lock.go:40-52 -/
def Ring.pop (q : Ring) : Ring × Slot :=
  if q.index ≥ q.queue.length then (q, none)
  else
    let lock := (q.queue[q.index]?).getD none
    let queue := q.queue.set q.index none
    if q.index + 1 ≥ queue.length then (⟨[], q.cap, 0⟩, lock)
    else (⟨queue, q.cap, q.index + 1⟩, lock)

/-- lock.go:54-59 -/
def Ring.head (q : Ring) : Slot :=
  if q.index ≥ q.queue.length then none else (q.queue[q.index]?).getD none

/-- lock.go:61-66 -/
def Ring.iterNodes (q : Ring) : List (List Slot) :=
  if q.index < q.queue.length then [q.queue.drop q.index] else []

/-- lock.go:68-77: `self.queue[self.index].command` is a nil dereference on a nil entry. -/
def Ring.maxPriority (q : Ring) : Res Nat :=
  if q.index ≥ q.queue.length then .ok 0
  else match (q.queue[q.index]?).getD none with
    | none => .panic
    | some e => .ok e.priority

/-- lock.go:79-81 (Go `int`) -/
def Ring.len (q : Ring) : Int := (q.queue.length : Int) - (q.index : Int)

def killSlot (f : Elem → Elem) (id : Nat) : Slot → Slot
  | none => none
  | some e => if e.id = id then some (f e) else some e

def Ring.mapId (f : Elem → Elem) (id : Nat) (q : Ring) : Ring :=
  { q with queue := q.queue.map (killSlot f id) }

/-! ## LockManagerPriorityRingQueue (lock.go:83-187) -/

structure PNode where
  ring : Ring
  priority : Nat
  deriving Repr, DecidableEq

structure PRing where
  nodes : List PNode
  /-- `cap(self.priorityNodes)` -/
  nodesCap : Nat
  size : Nat
  deriving Repr, DecidableEq

def PRing.new (size : Nat) : PRing := ⟨[], 2, size⟩

/-- first loop of Push: the first node with the lock's priority receives it -/
def pushExisting (grow : Nat → Nat) (p : Nat) (x : Slot) : List PNode → Option (Res (List PNode))
  | [] => none
  | n :: ns =>
    if n.priority = p then
      some (match n.ring.push grow x with
        | .ok r => .ok ({ n with ring := r } :: ns)
        | .panic => .panic)
    else match pushExisting grow p x ns with
      | none => none
      | some (.ok ns') => some (.ok (n :: ns'))
      | some .panic => some .panic

/-- the `else` loop of Push (two or more nodes): insert before the first node of lower priority -/
def insertNode (node : PNode) : List PNode → List PNode
  | [] => [node]
  | n :: ns => if node.priority > n.priority then node :: n :: ns else n :: insertNode node ns

/-- lock.go:97-138.  `lock.command` on a nil lock panics. -/
def PRing.push (grow : Nat → Nat) (q : PRing) (x : Slot) : Res PRing :=
  match x with
  | none => .panic
  | some e =>
    match pushExisting grow e.priority x q.nodes with
    | some (.ok ns) => .ok { q with nodes := ns }
    | some .panic => .panic
    | none =>
      match (Ring.new q.size).push grow x with
      | .panic => .panic
      | .ok r =>
        let node : PNode := ⟨r, e.priority⟩
        match q.nodes with
        | [] => .ok { q with nodes := [node] }
        | [n0] =>
          if n0.priority > node.priority then .ok { q with nodes := [n0, node] }
          else .ok { q with nodes := [node, n0] }
        | ns => .ok { q with nodes := insertNode node ns, nodesCap := ns.length + 1 }

def popNodes : List PNode → List PNode × Slot
  | [] => ([], none)
  | n :: ns =>
    match n.ring.pop with
    | (r, some e) => ({ n with ring := r } :: ns, some e)
    | (r, none) =>
      let rest := popNodes ns
      ({ n with ring := r } :: rest.1, rest.2)

/-- lock.go:140-148.  A node whose ring pop returns nil has still executed that pop. -/
def PRing.pop (q : PRing) : PRing × Slot :=
  let r := popNodes q.nodes
  ({ q with nodes := r.1 }, r.2)

def headNodes : List PNode → Slot
  | [] => none
  | n :: ns => match n.ring.head with
    | some e => some e
    | none => headNodes ns

/-- lock.go:150-158 -/
def PRing.head (q : PRing) : Slot := headNodes q.nodes

/-- lock.go:160-166 -/
def PRing.iterNodes (q : PRing) : List (List Slot) := q.nodes.flatMap (fun n => n.ring.iterNodes)

def maxPrioNodes : List PNode → Nat
  | [] => 0
  | n :: ns => match n.ring.head with
    | some _ => n.priority
    | none => maxPrioNodes ns

/-- lock.go:168-179 -/
def PRing.maxPriority (q : PRing) : Nat := maxPrioNodes q.nodes

/-- lock.go:181-187 -/
def PRing.len (q : PRing) : Int := (q.nodes.map (fun n => n.ring.len)).foldl (· + ·) 0

def PRing.mapId (f : Elem → Elem) (id : Nat) (q : PRing) : PRing :=
  { q with nodes := q.nodes.map (fun n => { n with ring := n.ring.mapId f id }) }

/-! ## the inline fast queue shared by holder and wait queue -/

structure FastQ where
  data : List Slot
  cap : Nat
  deriving Repr, DecidableEq

/-- The compaction loop (lock.go:232-249 / 430-447) over the entries `fastQueue[fastIndex:]`:
kept entries in order, and the dropped locks after `refCount--`.  nil entries are skipped. -/
def compact (live : Elem → Bool) : List Slot → List Slot × List Elem
  | [] => ([], [])
  | none :: rest => compact live rest
  | some e :: rest =>
    let r := compact live rest
    if live e then (some e :: r.1, r.2) else (r.1, { e with refCount := dec8 e.refCount } :: r.2)

/-- holder queue: `queuedLock.locked > 0` -/
def holderLive (e : Elem) : Bool := decide (e.locked > 0)
/-- wait queue: NOT `(queuedLock.timeouted || queuedLock.ackCount != 0xff)` -/
def waitLive (e : Elem) : Bool := !(e.timeouted || decide (e.ackCount ≠ 255))

/-- What a Push reports besides the new state: the locks whose refCount it decremented
(after the decrement); those that reached 0 were handed to `manager.FreeLock`. -/
structure PushOut where
  dropped : List Elem := []
  deriving Repr, DecidableEq

def PushOut.freed (o : PushOut) : List Nat := (o.dropped.filter (fun e => e.refCount = 0)).map (·.id)

/-! ## LockManagerLockQueue (lock.go:189-371) -/

structure Scale where
  /-- abstract content of the segmented deque, head first -/
  q : List Slot
  /-- `maps`, keyed by lock id -/
  maps : List (Nat × Elem)
  deriving Repr, DecidableEq

def Scale.new : Scale := ⟨[], []⟩

def mapsInsert (k : Nat) (e : Elem) (m : List (Nat × Elem)) : List (Nat × Elem) :=
  (k, e) :: m.filter (fun p => p.1 ≠ k)

/-- `err := self.scaleQueue.Push(lock); if err == nil { maps[lock.command.LockId] = lock }` -/
def Scale.push (s : Scale) (x : Slot) : Res Scale :=
  match x with
  | none => .panic
  | some e => .ok ⟨s.q ++ [x], mapsInsert e.lockIdKey e s.maps⟩

structure HolderQ where
  fast : Option FastQ
  fastIndex : Nat
  scale : Option Scale
  deriving Repr, DecidableEq

def HolderQ.new : HolderQ := ⟨none, 0, none⟩

/-- lock.go:208-266 -/
def HolderQ.push (grow : Nat → Nat) (q : HolderQ) (x : Slot) : Res (HolderQ × PushOut) :=
  match q.scale with
  | some s =>
    match s.push x with
    | .ok s' => .ok ({ q with scale := some s' }, {})
    | .panic => .panic
  | none =>
    match q.fast with
    | none => .ok ({ q with fast := some ⟨[x], 6⟩ }, {})
    | some f =>
      if f.data.length < f.cap then .ok ({ q with fast := some ⟨f.data ++ [x], f.cap⟩ }, {})
      else if q.fastIndex ≥ f.data.length then
        let r := goAppend grow [] f.cap x   -- fastQueue[:0] then append
        .ok ({ q with fast := some ⟨r.1, r.2⟩, fastIndex := 0 }, {})
      else
        let c := compact holderLive (f.data.drop q.fastIndex)
        if c.1.length < f.data.length then
          let r := goAppend grow c.1 f.cap x   -- fastQueue[:currentIndex] then append
          .ok ({ q with fast := some ⟨r.1, r.2⟩, fastIndex := 0 }, ⟨c.2⟩)
        else if f.cap ≤ 128 then
          let r := goAppend grow f.data f.cap x
          .ok ({ q with fast := some ⟨r.1, r.2⟩ }, ⟨c.2⟩)
        else
          match Scale.new.push x with
          | .ok s => .ok ({ q with scale := some s }, ⟨c.2⟩)
          | .panic => .panic

def Scale.pop (s : Scale) : Scale × Slot :=
  match s.q with
  | [] => (s, none)
  | x :: rest => ({ s with q := rest }, x)

/-- lock.go:268-279 -/
def HolderQ.pop (q : HolderQ) : HolderQ × Slot :=
  match q.fast with
  | some f =>
    if q.fastIndex < f.data.length then
      ({ q with fast := some ⟨f.data.set q.fastIndex none, f.cap⟩, fastIndex := q.fastIndex + 1 },
        (f.data[q.fastIndex]?).getD none)
    else match q.scale with
      | some s => let r := s.pop; ({ q with scale := some r.1 }, r.2)
      | none => (q, none)
  | none =>
    match q.scale with
    | some s => let r := s.pop; ({ q with scale := some r.1 }, r.2)
    | none => (q, none)

/-- lock.go:281-289 -/
def HolderQ.head (q : HolderQ) : Slot :=
  match q.fast with
  | some f =>
    if q.fastIndex < f.data.length then (f.data[q.fastIndex]?).getD none
    else match q.scale with
      | some s => s.q.head?.getD none
      | none => none
  | none =>
    match q.scale with
    | some s => s.q.head?.getD none
    | none => none

def getLockFast (k : Nat) : List Slot → Res (Option Elem)
  | [] => .ok none
  | none :: _ => .panic
  | some e :: rest => if e.locked > 0 ∧ e.lockIdKey = k then .ok (some e) else getLockFast k rest

/-- lock.go:291-308.  `lock.locked` on a nil entry panics. -/
def HolderQ.getLock (q : HolderQ) (k : Nat) : Res (Option Elem) :=
  let scalePart : Option Elem := match q.scale with
    | some s => (s.maps.find? (fun p => p.1 = k)).map (·.2)
    | none => none
  match q.fast with
  | some f =>
    match getLockFast k (f.data.drop q.fastIndex) with
    | .panic => .panic
    | .ok (some e) => .ok (some e)
    | .ok none => .ok scalePart
  | none => .ok scalePart

/-- lock.go:310-314 -/
def HolderQ.removeLock (q : HolderQ) (k : Nat) : HolderQ :=
  match q.scale with
  | some s => { q with scale := some { s with maps := s.maps.filter (fun p => p.1 ≠ k) } }
  | none => q

/-- lock.go:316-327: first node = the fast part (an empty node when only the scale queue exists);
the second component is the scale queue's abstract content when there is a scale queue
(its split into segments is a deque internal). -/
def HolderQ.iterNodes (q : HolderQ) : List (List Slot) × Option (List Slot) :=
  let fastNodes : List (List Slot) :=
    match q.fast with
    | some f =>
      if q.fastIndex < f.data.length then [f.data.drop q.fastIndex]
      else if q.scale.isSome then [[]] else []
    | none => if q.scale.isSome then [[]] else []
  (fastNodes, q.scale.map (·.q))

/-- lock.go:342-346: `LockQueue.Resize` keeps the deque content (deque theorem). -/
def HolderQ.resize (q : HolderQ) : HolderQ := q

/-- lock.go:348-358 -/
def HolderQ.reset (q : HolderQ) : HolderQ :=
  match q.fast with
  | some f =>
    if f.cap > 6 then ⟨none, 0, none⟩
    else if f.data.length > 0 then ⟨some ⟨[], f.cap⟩, 0, none⟩
    else ⟨some f, 0, none⟩
  | none => ⟨none, q.fastIndex, none⟩

/-- lock.go:360-371 -/
def HolderQ.len (q : HolderQ) : Int :=
  match q.scale, q.fast with
  | none, none => 0
  | none, some f => (f.data.length : Int) - q.fastIndex
  | some s, none => s.q.length
  | some s, some f => (f.data.length : Int) - q.fastIndex + s.q.length

def HolderQ.mapId (g : Elem → Elem) (id : Nat) (q : HolderQ) : HolderQ :=
  { q with
    fast := q.fast.map (fun f => { f with data := f.data.map (killSlot g id) })
    scale := q.scale.map (fun s => ⟨s.q.map (killSlot g id),
      s.maps.map (fun p => (p.1, if p.2.id = id then g p.2 else p.2))⟩) }

/-! ## LockManagerWaitQueue (lock.go:373-534) -/

/-- the `ringQueue ILockManagerRingQueue` field: nil, a ring, or a priority ring -/
inductive WRing where
  | nil
  | ring (r : Ring)
  | prio (p : PRing)
  deriving Repr, DecidableEq

structure WaitQ where
  fast : Option FastQ
  /-- Go `int`; -1 marks priority mode -/
  fastIndex : Int
  ring : WRing
  deriving Repr, DecidableEq

/-- lock.go:379-384 -/
def WaitQ.new (priorityQueue : Bool) : WaitQ :=
  if priorityQueue then ⟨none, -1, .prio (PRing.new 16)⟩ else ⟨none, 0, .nil⟩

def WRing.push (grow : Nat → Nat) (w : WRing) (x : Slot) : Res WRing :=
  match w with
  | .nil => .panic
  | .ring r => match r.push grow x with
    | .ok r' => .ok (.ring r')
    | .panic => .panic
  | .prio p => match p.push grow x with
    | .ok p' => .ok (.prio p')
    | .panic => .panic

def WRing.pop : WRing → WRing × Slot
  | .nil => (.nil, none)
  | .ring r => let o := r.pop; (.ring o.1, o.2)
  | .prio p => let o := p.pop; (.prio o.1, o.2)

def WRing.head : WRing → Slot
  | .nil => none
  | .ring r => r.head
  | .prio p => p.head

def WRing.iterNodes : WRing → List (List Slot)
  | .nil => []
  | .ring r => r.iterNodes
  | .prio p => p.iterNodes

def WRing.maxPriority : WRing → Res Nat
  | .nil => .ok 0
  | .ring r => r.maxPriority
  | .prio p => .ok p.maxPriority

def WRing.len : WRing → Int
  | .nil => 0
  | .ring r => r.len
  | .prio p => p.len

/-- the fast part is consulted: `fastQueue != nil && fastIndex < len(fastQueue) && fastIndex >= 0` -/
def WaitQ.fastActive (q : WaitQ) : Option FastQ :=
  match q.fast with
  | some f => if q.fastIndex < f.data.length ∧ q.fastIndex ≥ 0 then some f else none
  | none => none

/-- lock.go:409-461 -/
def WaitQ.push (grow : Nat → Nat) (q : WaitQ) (x : Slot) : Res (WaitQ × PushOut) :=
  match q.ring with
  | .ring _ | .prio _ =>
    match q.ring.push grow x with
    | .ok w => .ok ({ q with ring := w }, {})
    | .panic => .panic
  | .nil =>
    match q.fast with
    | none => .ok ({ q with fast := some ⟨[x], 8⟩ }, {})
    | some f =>
      if f.data.length < f.cap then .ok ({ q with fast := some ⟨f.data ++ [x], f.cap⟩ }, {})
      else if q.fastIndex ≥ f.data.length then
        let r := goAppend grow [] f.cap x   -- fastQueue[:0] then append
        .ok ({ q with fast := some ⟨r.1, r.2⟩, fastIndex := 0 }, {})
      else if q.fastIndex < 0 then .panic   -- fastQueue[-1]
      else
        let c := compact waitLive (f.data.drop q.fastIndex.toNat)
        if c.1.length < f.data.length then
          let r := goAppend grow c.1 f.cap x
          .ok ({ q with fast := some ⟨r.1, r.2⟩, fastIndex := 0 }, ⟨c.2⟩)
        else if f.cap ≤ 128 then
          let r := goAppend grow f.data f.cap x
          .ok ({ q with fast := some ⟨r.1, r.2⟩ }, ⟨c.2⟩)
        else
          match (Ring.new 64).push grow x with
          | .ok r => .ok ({ q with ring := .ring r }, ⟨c.2⟩)
          | .panic => .panic

/-- lock.go:463-474 -/
def WaitQ.pop (q : WaitQ) : WaitQ × Slot :=
  match q.fastActive with
  | some f =>
    ({ q with fast := some ⟨f.data.set q.fastIndex.toNat none, f.cap⟩, fastIndex := q.fastIndex + 1 },
      (f.data[q.fastIndex.toNat]?).getD none)
  | none => let r := q.ring.pop; ({ q with ring := r.1 }, r.2)

/-- lock.go:476-484 -/
def WaitQ.head (q : WaitQ) : Slot :=
  match q.fastActive with
  | some f => (f.data[q.fastIndex.toNat]?).getD none
  | none => q.ring.head

/-- lock.go:486-496 -/
def WaitQ.reset (q : WaitQ) : WaitQ :=
  match q.fast with
  | some f =>
    if f.cap > 8 then ⟨none, 0, .nil⟩
    else if f.data.length > 0 then ⟨some ⟨[], f.cap⟩, 0, .nil⟩
    else ⟨some f, 0, .nil⟩
  | none => ⟨none, 0, .nil⟩

/-- lock.go:498-507 -/
def WaitQ.iterNodes (q : WaitQ) : List (List Slot) :=
  (match q.fastActive with
   | some f => [f.data.drop q.fastIndex.toNat]
   | none => []) ++ q.ring.iterNodes

/-- lock.go:509-521 -/
def WaitQ.maxPriority (q : WaitQ) : Res Nat :=
  match q.fastActive with
  | some f =>
    match (f.data[q.fastIndex.toNat]?).getD none with
    | none => .panic
    | some e => .ok e.priority
  | none => q.ring.maxPriority

/-- lock.go:523-534 -/
def WaitQ.len (q : WaitQ) : Int :=
  match q.fast with
  | none => q.ring.len
  | some f =>
    if q.fastIndex < 0 then q.ring.len
    else (f.data.length : Int) - q.fastIndex + q.ring.len

/-- `for … { ringQueue.Push(x) }` -/
def pushAll (grow : Nat → Nat) : PRing → List Slot → Res PRing
  | p, [] => .ok p
  | p, x :: xs => match p.push grow x with
    | .ok p' => pushAll grow p' xs
    | .panic => .panic

/-- `lock := old.Pop(); for lock != nil { new.Push(lock); lock = old.Pop() }` — stops at the first nil
that Pop returns (empty, or a nil entry).  `fuel` bounds the loop; `old.len + 1` pops always suffice. -/
def drainInto (grow : Nat → Nat) : Nat → WRing → PRing → Res PRing
  | 0, _, p => .ok p
  | fuel + 1, w, p =>
    match w.pop with
    | (_, none) => .ok p
    | (w', some e) => match p.push grow (some e) with
      | .ok p' => drainInto grow fuel w' p'
      | .panic => .panic

/-- `self.fastQueue[self.fastIndex:]` when the fast part is consulted, else nothing -/
def WaitQ.fastSlice (q : WaitQ) : List Slot :=
  match q.fastActive with
  | some f => f.data.drop q.fastIndex.toNat
  | none => []

/-- lock.go:386-407 -/
def WaitQ.rePush (grow : Nat → Nat) (q : WaitQ) : Res WaitQ :=
  if q.fastIndex < 0 then .ok q
  else
    let fromFast : List Slot := q.fastSlice
    let fast' : Option FastQ := match q.fastActive with
      | some f => some ⟨[], f.cap⟩
      | none => q.fast
    match pushAll grow (PRing.new 16) fromFast with
    | .panic => .panic
    | .ok p =>
      match drainInto grow (q.ring.len.toNat + 1) q.ring p with
      | .panic => .panic
      | .ok p' => .ok ⟨fast', -1, .prio p'⟩

def WRing.mapId (g : Elem → Elem) (id : Nat) : WRing → WRing
  | .nil => .nil
  | .ring r => .ring (r.mapId g id)
  | .prio p => .prio (p.mapId g id)

def WaitQ.mapId (g : Elem → Elem) (id : Nat) (q : WaitQ) : WaitQ :=
  { q with
    fast := q.fast.map (fun f => { f with data := f.data.map (killSlot g id) })
    ring := q.ring.mapId g id }

/-! ## the production caller of the wait queue: LockManager.AddWaitLock (lock.go:774-792)

`waitLocks == nil` is `none`.  The caller switches a FIFO wait queue to priority order the first
time a lock arrives whose priority differs from `MaxPriority()` of a non-empty queue. -/
structure WaitMgr where
  waitLocks : Option WaitQ
  waited : Bool
  deriving Repr, DecidableEq

def WaitMgr.new : WaitMgr := ⟨none, false⟩

def WaitMgr.addWaitLock (grow : Nat → Nat) (m : WaitMgr) (e : Elem) : Res (WaitMgr × PushOut) :=
  let pre : Res WaitQ :=
    match m.waitLocks with
    | none => .ok (WaitQ.new false)
    | some q =>
      if m.waited ∧ q.fastIndex ≥ 0 then
        if q.head ≠ none then
          match q.maxPriority with
          | .panic => .panic
          | .ok mp => if e.priority ≠ mp then q.rePush grow else .ok q
        else .ok q
      else .ok q
  match pre with
  | .panic => .panic
  | .ok q =>
    -- `self.waitLocks.Push(lock); lock.refCount++`: Push does not read the refCount of the pushed
    -- lock, so the lock is stored with the incremented (uint8) count right away
    match q.push grow (some { e with refCount := (e.refCount + 1) % 256 }) with
    | .panic => .panic
    | .ok (q', o) => .ok (⟨some q', true⟩, o)

/-! ## Go 1.23 `growslice` for `[]*Lock` (8-byte pointer elements, amd64) — used by the driver only.
runtime/slice.go nextslicecap + runtime/msize.go roundupsize (malloc header of 8 bytes for
pointerful objects above 512 bytes) + runtime/sizeclasses.go. -/

def classToSize : List Nat := [0, 8, 16, 24, 32, 48, 64, 80, 96, 112, 128, 144, 160, 176, 192, 208, 224, 240,
  256, 288, 320, 352, 384, 416, 448, 480, 512, 576, 640, 704, 768, 896, 1024, 1152, 1280, 1408, 1536, 1792,
  2048, 2304, 2688, 3072, 3200, 3456, 4096, 4864, 5376, 6144, 6528, 6784, 6912, 8192, 9472, 9728, 10240,
  10880, 12288, 13568, 14336, 16384, 18432, 19072, 20480, 21760, 24576, 27264, 28672, 32768]

/-- smallest size class that holds `n` bytes (what the two `size_to_class` tables encode) -/
def sizeClassOf (n : Nat) : Nat := (classToSize.find? (fun c => n ≤ c)).getD n

def roundupsizePtr (size : Nat) : Nat :=
  if size ≤ 32768 - 8 then
    let req := if size > 512 then size + 8 else size
    sizeClassOf req - (req - size)
  else (size + 8191) / 8192 * 8192

def nextCapLoop : Nat → Nat → Nat → Nat
  | 0, newcap, _ => newcap
  | fuel + 1, newcap, newLen =>
    let nc := newcap + (newcap + 768) / 4
    if nc ≥ newLen then nc else nextCapLoop fuel nc newLen

/-- capacity after `append(s, x)` on a full `[]*Lock` of capacity `oldCap` -/
def goGrow (oldCap : Nat) : Nat :=
  let newLen := oldCap + 1
  let newcap :=
    if newLen > 2 * oldCap then newLen
    else if oldCap < 256 then 2 * oldCap
    else nextCapLoop 64 oldCap newLen
  roundupsizePtr (newcap * 8) / 8

end Slock.Queue2
