/-
M-CODEC: a 64-byte wire layout as a table, with generic encode/decode.
The concrete tables live in `Slock/Gen/Layouts.lean`, which is REGENERATED from
/repo's Encode/Decode methods on every run. Core Lean only (the driver links this).
-/
namespace Slock.Layout

abbrev Byte := UInt8
abbrev Bytes := List UInt8

inductive Kind | int | bytes | str | lpstr
  deriving DecidableEq, Repr, Inhabited

/-- Where an encoded byte comes from. `undef` = the encoder does not write the offset. -/
inductive Src
  | const (v : Nat)
  | field (f i : Nat)
  | str (f i : Nat)
  | undef
  deriving DecidableEq, Repr, Inhabited

structure StrDec where
  field : Nat
  start : Nat
  stop : Nat
  lenField : Option Nat
  deriving DecidableEq, Repr

structure Field where
  name : String
  width : Nat
  kind : Kind
  deriving DecidableEq, Repr, Inhabited

structure Layout where
  name : String
  fields : List Field
  enc : List Src
  dec : List (List Nat)
  strDecs : List StrDec
  strCaps : List (Nat × Nat)
  /-- `(f, n)`: Decode returns an error when integer field `f` exceeds `n` (checked before any slice that depends on it). -/
  decGuards : List (Nat × Nat)
  deriving Repr

/-- A value: one byte list per field (integers little-endian, strings as their bytes). -/
abbrev Val := List Bytes

def byteOf (v : Val) (old : Bytes) (o : Nat) : Src → Byte
  | .const c => c.toUInt8
  | .field f i => (v.getD f []).getD i 0
  | .str f i => (v.getD f []).getD i 0
  | .undef => old.getD o 0

/-- `encode` writes into an existing buffer `old`; offsets the encoder never assigns keep `old`'s byte. -/
def encodeAux (v : Val) (old : Bytes) : Nat → List Src → Bytes
  | _, [] => []
  | o, s :: ss => byteOf v old o s :: encodeAux v old (o + 1) ss

def encode (L : Layout) (v : Val) (old : Bytes) : Bytes := encodeAux v old 0 L.enc

def decodeInt (b : Bytes) (offs : List Nat) : Bytes := offs.map (fun o => b.getD o 0)

def region (b : Bytes) (start n : Nat) : Bytes := (List.range n).map (fun i => b.getD (start + i) 0)

def dropZeros : Bytes → Bytes
  | [] => []
  | x :: xs => if x = 0 then dropZeros xs else x :: xs

/-- `strings.Trim(s, "\x00")`: strip NULs at both ends. -/
def trim0 (b : Bytes) : Bytes := (dropZeros (dropZeros b).reverse).reverse

/-- Decoding a field. `none` = the Go code panics (slice bounds out of range). -/
def decodeField (L : Layout) (b : Bytes) (f : Nat) : Option Bytes :=
  match (L.fields.getD f default).kind with
  | .int | .bytes => some (decodeInt b (L.dec.getD f []))
  | .str =>
    match L.strDecs.find? (fun sd => sd.field == f) with
    | some sd => some (trim0 (region b sd.start (sd.stop - sd.start)))
    | none => some []
  | .lpstr =>
    match L.strDecs.find? (fun sd => sd.field == f) with
    | some sd =>
      match sd.lenField with
      | some lf =>
        let n := ((decodeInt b (L.dec.getD lf [])).getD 0 0).toNat
        if sd.start + n ≤ 64 then some (region b sd.start n) else none
      | none => some []
    | none => some []

def fromLE : Bytes → Nat
  | [] => 0
  | b :: bs => b.toNat + 256 * fromLE bs

inductive DecResult
  | ok (v : Val)
  | err      -- Decode returned an error
  | panic    -- Decode panics (slice bounds out of range)
  deriving DecidableEq, Repr

def guardRefuses (L : Layout) (b : Bytes) : Bool :=
  L.decGuards.any (fun (f, n) => fromLE (decodeInt b (L.dec.getD f [])) > n)

/-- Decoding a whole frame. -/
def decode (L : Layout) (b : Bytes) : DecResult :=
  if guardRefuses L b then .err
  else if (List.range L.fields.length).all (fun f => (decodeField L b f).isSome) then
    .ok ((List.range L.fields.length).map (fun f => (decodeField L b f).getD []))
  else .panic

/-- Every length-prefixed string is protected by a guard that keeps its slice inside the frame. -/
def decodeSafe (L : Layout) : Bool :=
  (List.range L.fields.length).all (fun f =>
    match (L.fields.getD f default).kind with
    | .lpstr =>
      match L.strDecs.find? (fun sd => sd.field == f) with
      | some sd =>
        match sd.lenField with
        | some lf => (L.dec.getD lf []).length == 1 && L.decGuards.any (fun (g, n) => g == lf && sd.start + n ≤ 64)
        | none => true
      | none => true
    | _ => true)

/-! ### Decidable table conditions (checked by `decide` on every generated table) -/

def encAt (L : Layout) (o : Nat) : Src := L.enc.getD o .undef

/-- Every int/bytes field is decoded from offsets that the encoder fills with exactly that byte. -/
def intFieldOK (L : Layout) (f : Nat) : Bool :=
  let fd := L.fields.getD f default
  let offs := L.dec.getD f []
  offs.length == fd.width &&
    (List.range fd.width).all (fun i => encAt L (offs.getD i 64) == .field f i)

def strFieldOK (L : Layout) (f : Nat) : Bool :=
  match L.strDecs.find? (fun sd => sd.field == f) with
  | none => false
  | some sd =>
    let n := sd.stop - sd.start
    sd.start + n ≤ 64 && (L.fields.getD f default).width == n &&
      (List.range n).all (fun i => encAt L (sd.start + i) == .str f i)

def lpstrFieldOK (L : Layout) (f : Nat) : Bool :=
  match L.strDecs.find? (fun sd => sd.field == f) with
  | none => false
  | some sd =>
    let n := (L.fields.getD f default).width
    match sd.lenField with
    | none => false
    | some lf =>
      sd.start + n ≤ 64 && (L.fields.getD lf default).width == 1 && intFieldOK L lf &&
        (List.range n).all (fun i => encAt L (sd.start + i) == .str f i)

def fieldOK (L : Layout) (f : Nat) : Bool :=
  match (L.fields.getD f default).kind with
  | .int | .bytes => intFieldOK L f
  | .str => strFieldOK L f
  | .lpstr => lpstrFieldOK L f

/-- encode-then-decode condition. -/
def consistent (L : Layout) : Bool :=
  L.enc.length == 64 && L.dec.length == L.fields.length &&
    (List.range L.fields.length).all (fieldOK L)

/-- decode-then-encode condition: every offset written from a field is one that field is decoded from. -/
def coversAt (L : Layout) (o : Nat) : Bool :=
  match encAt L o with
  | .field f i => (L.dec.getD f []).getD i 64 == o && (L.dec.getD f []).length == (L.fields.getD f default).width
  | _ => true

def covers (L : Layout) : Bool := (List.range 64).all (coversAt L)

/-- all 64 offsets are written by the encoder -/
def total (L : Layout) : Bool := L.enc.length == 64 && L.enc.all (fun s => s != .undef)

/-- (name, first offset, width) of each int/bytes field whose bytes are contiguous and ascending — the README view. -/
def offsetsTable (L : Layout) : List (String × Nat × Nat) :=
  (List.range L.fields.length).filterMap (fun f =>
    let fd := L.fields.getD f default
    match L.dec.getD f [] with
    | [] => none
    | o :: rest => if (o :: rest) == (List.range fd.width).map (o + ·) then some (fd.name, o, fd.width) else none)

def wellTyped (L : Layout) (v : Val) : Bool :=
  v.length == L.fields.length && (List.range L.fields.length).all (fun f =>
    match (L.fields.getD f default).kind with
    | .int | .bytes => (v.getD f []).length == (L.fields.getD f default).width
    | _ => true)

/-! ### little-endian integers (the field-level reading of `byte(x >> 8k)` / `uintN(b0) | uintN(b1)<<8 …`) -/

def toLE : Nat → Nat → Bytes
  | 0, _ => []
  | w + 1, n => (n % 256).toUInt8 :: toLE w (n / 256)

def pad (s : Bytes) (n : Nat) : Bytes := (List.range n).map (fun i => s.getD i 0)

end Slock.Layout
