import Slock.Gen.Consts
/-!
# M-TRANS — the connection layer of ONE node that is (mostly) not the leader, and an abstract leader
(server/server.go `checkProtocol` / `handle`, server/transparency.go, server/db.go `CheckProbableLock`)

Core-only executable model. It mirrors the code that exists (oddities included):

* `Server.checkProtocol` gives a new connection a plain `Binary/TextServerProtocol` when the node is the leader at its
  first request and a `Transparency*ServerProtocol` wrapper otherwise; `Server.handle` re-decides at every request:
  the `Process` loop that is running returns `AGAIN` when the role no longer fits it, and the request is re-dispatched —
  to the local engine when the node is the leader now, to the transparency object otherwise (a wrapper is created once
  and never removed: `wrapped`; `plainLoop` = which loop is running).
* `Transparency{Binary,Text}ServerProtocol.CheckClient`: the link (`TransparencyBinaryClientProtocol`) the connection
  already has while its socket is up; otherwise a new one is dialled only in state FOLLOWER / SYNC and only while the
  manager knows a leader address (`OpenClient`; the dial fails on a dead address). `Open` first re-sends the connection's
  INIT command when it has one.
* binary LOCK / UNLOCK: `DbId = 0xff` ⇒ UNKNOWN_DB; LOCK with the concurrent-check flag and Timeout 0 is answered
  TIMEOUT from the node's OWN lock table (`CheckProbableLock`) before anything else; no link ⇒ STATE_ERROR (all three
  replies are built from the command: RequestId, DbId, LockId, LockKey, Count, Rcount copied); otherwise the command is
  written to the link unchanged and remembered as the LATEST in-flight one (`latestCommandType`, `latestRequestId`).
* INIT: registered locally, remembered as the wrapper's `initCommand`, forwarded (at `Open` when the link is new, else by
  `Write` — in that case the link's own `initCommand` stays what it was and the leader's answer is DROPPED by the filter
  in `processBinaryProcotol`); no link ⇒ InitResult STATE_ERROR. CALL LIST_LOCK / LIST_LOCKED / LIST_WAIT are forwarded
  (no link ⇒ CallResult STATE_ERROR); every other command is answered locally.
* text LOCK / UNLOCK / value-writing commands: converted, written to the link, `lockRequestId := RequestId`, and the
  handler BLOCKS in `<-lockWaiter`; PUSH: written, `+OK` at once; no link ⇒ `-ERR Leader Server Error`.
* `checkProtocol` hands the FIRST bytes of a text connection (one read of at most 64 bytes) to
  `TransparencyTextServerProtocol.ProcessParse`, which delegates to the PLAIN `TextServerProtocol.ProcessParse` and its
  plain handler table: a first text command that fits those 64 bytes is executed by the node's own handlers (its own
  engine decides — and refuses, by the engine's role gate), it is never forwarded (`Event.request c short q`).
* the link's reader (`Process` → `processBinaryProcotol` / `processTextProcotol`): binary — EVERY LockResult / CallResult
  is written to the client whatever its RequestId; an InitResult only when its RequestId is the link's `initCommand`'s,
  with `InitType := (InitType & 1) | 2 | GetInitCommandState()`; text — only a LockResult whose RequestId is
  `lockRequestId`; a result whose RequestId is the latest one clears `latestCommandType` (`Write` records the command as
  the latest one before its bytes leave — repaired; it used to record it afterwards, and an answer that overtook the
  bookkeeping left an answered command as the latest one).
* a frame the reader goroutine of a freshly opened link reads before `CheckClient` has attached the link object to its
  connection is dropped unseen (`Event.unattached`: in practice the answer to the INIT that `Open` re-sends).
* will commands (WILL_LOCK / WILL_UNLOCK frames, text `… WILL 1`) are queued on the connection whatever the role; when a
  connection that has a wrapper closes, `Transparency*ServerProtocol.Close` writes them to the leader over the link
  `CheckClient` yields — and drops them when there is none (also on a node that has meanwhile become the leader).
  While it writes, the link's reader relays the leader's answers (to the re-sent INIT, to the first wills) to the client
  that has gone; the second such write fails and the reader closes the link: the wills not written by then are lost
  (`Event.closeCut c k`).
* link loss (`rollbackLatestCommand`): a RESULT_ERROR result is fabricated for the LATEST in-flight command only (a
  `LockResultCommand` with every other field zero for LOCK / UNLOCK / INIT, a `CallResultCommand` for CALL) and pushed
  through the same relay function; earlier in-flight commands get nothing. The link object then reconnects on its own
  (`processFinish` → `RetryOpen`, re-sending its INIT) while the node is not the leader and knows a live address, but it
  is attached to no connection any more (`serverProtocol = nil`): everything it reads is dropped (`orphans`).
* `TransparencyManager.ChangeLeader(a)`: closes the socket of every link when the address changes or is cleared.

The leader is abstract: `Event.leaderMsg c m` = "frame `m` arrives on the link of connection `c`" — its content is an
input. Ghost fields (never read by the transition function): `Link.pend` (RequestIds of the LOCK / UNLOCK commands
written to this link instance which the leader has not answered yet), `Conn.asked` (RequestIds of the requests received), `Conn.got` (RequestIds of the
lock / unlock results handed to the client, in order), `Node.orphans`.
Granularity: one event = one complete reaction; a `Write` to a link whose socket is up succeeds.
-/
namespace Slock.Trans
open Slock.Gen

inductive Role where
  | init | leader | follower | sync | config | vote | close
  deriving DecidableEq, Repr, Inhabited

inductive Addr where
  | none | live | dead
  deriving DecidableEq, Repr, Inhabited

inductive Kind where
  | binary | text
  deriving DecidableEq, Repr, Inhabited

/-- the wire command types a link can remember in `latestCommandType` -/
inductive CType where
  | lock | unlock | init | call
  deriving DecidableEq, Repr, Inhabited

/-- every field of a LOCK / UNLOCK command (`data` = the data frame, `[]` = none) -/
structure LockCmd where
  rid : Nat
  flag : Nat
  dbId : Nat
  lockId : Nat
  lockKey : Nat
  timeoutFlag : Nat
  timeout : Nat
  expriedFlag : Nat
  expried : Nat
  count : Nat
  rcount : Nat
  data : List Nat
  deriving DecidableEq, Repr, Inhabited

/-- a `LockResultCommand` as it is on the wire -/
structure LockRes where
  ct : CType
  rid : Nat
  result : Nat
  flag : Nat
  dbId : Nat
  lockId : Nat
  lockKey : Nat
  lcount : Nat
  count : Nat
  lrcount : Nat
  rcount : Nat
  data : List Nat
  deriving DecidableEq, Repr, Inhabited

/-- how the text handler treats the converted command -/
inductive TextMode where
  | wait      -- LOCK / UNLOCK: block for the result, render it as a lock result
  | push      -- PUSH: fire and forget, `+OK`
  | value     -- SET (value-writing command): block, render by the command's own writer
  deriving DecidableEq, Repr, Inhabited

/-- what the node's own lock table says about the key (input of `CheckProbableLock`) -/
inductive Replica where
  | noDb
  | noMgr
  | mgr (locked : Nat) (data : List Nat)
  deriving DecidableEq, Repr, Inhabited

inductive Req where
  | lk (ct : CType) (m : TextMode) (c : LockCmd) (rep : Replica)
  | init (rid cid : Nat)
  | call (rid : Nat) (fw : Bool)       -- fw: LIST_LOCK / LIST_LOCKED / LIST_WAIT
  | will (ct : CType) (c : LockCmd)    -- WILL_LOCK / WILL_UNLOCK (text: LOCK / UNLOCK … WILL 1), `ct` = what it runs as
  | other
  deriving DecidableEq, Repr, Inhabited

/-- a frame sent to the leader -/
inductive Fwd where
  | lk (ct : CType) (c : LockCmd)
  | init (rid cid : Nat)
  | call (rid : Nat)
  deriving DecidableEq, Repr, Inhabited

/-- a frame arriving from the leader -/
inductive LeaderMsg where
  | lockRes (r : LockRes)
  | initRes (rid result itype : Nat)
  | callRes (rid result : Nat) (content : List Nat)
  | other
  deriving DecidableEq, Repr, Inhabited

inductive TextErr where
  | unknownDb | leaderServerError
  deriving DecidableEq, Repr, Inhabited

inductive ToClient where
  | lockRes (r : LockRes)                         -- binary: the frame
  | textRes (r : LockRes)                         -- text: `WriteTextLockAndUnLockCommandResult r`
  | valueRes (r : LockRes)                        -- text: `WriteTextSetCommandResult r`
  | initRes (rid result itype : Nat)
  | callRes (rid result : Nat) (content : List Nat)
  | textErr (e : TextErr)
  | textOk
  deriving DecidableEq, Repr, Inhabited

structure Link where
  latestT : Option CType := none
  latestR : Nat := 0
  /-- the link's own `initCommand` (RequestId, ClientId): what `Open` sent first and `RetryOpen` re-sends -/
  initC : Option (Nat × Nat) := none
  /-- RequestId of the link's `initResultCommand` -/
  initRes : Option Nat := none
  /-- ghost -/
  pend : List Nat := []
  deriving DecidableEq, Repr, Inhabited

structure Conn where
  kind : Kind
  closed : Bool := false
  wrapped : Bool := false
  /-- `none` before the first request; `some true` = the plain `Process` loop runs, `some false` = the wrapper's -/
  plainLoop : Option Bool := none
  link : Option Link := none
  /-- the wrapper's `initCommand` (RequestId, ClientId) -/
  initCmd : Option (Nat × Nat) := none
  /-- text: `lockRequestId` of the blocked handler and how it renders the result -/
  awaiting : Option (Nat × TextMode) := none
  /-- text: the peer went away while the handler is blocked -/
  half : Bool := false
  /-- `willCommands` of the (inner) protocol object, in registration order -/
  wills : List (CType × LockCmd) := []
  /-- ghost -/
  asked : List Nat := []
  /-- ghost -/
  got : List Nat := []
  deriving DecidableEq, Repr, Inhabited

structure Node where
  role : Role := .sync
  addr : Addr := .live
  conns : List Conn := []
  orphans : Nat := 0
  deriving DecidableEq, Repr, Inhabited

inductive Tag where
  | ok | ign | busy | deferred
  | loc (again : Bool)          -- handed to the node's own engine / handler
  | refused                     -- answered by a refusal fabricated here
  | probed                      -- answered from the node's own lock table (`CheckProbableLock`)
  | forwarded (again : Bool)
  | stored                      -- a will command was queued on the connection
  | relayed | dropped | nolink
  | down
  deriving DecidableEq, Repr, Inhabited

structure Out where
  tag : Tag
  client : List (Nat × ToClient) := []
  fwd : List (Nat × Fwd) := []
  deriving DecidableEq, Repr, Inhabited

/-! ### constants and small functions -/

def Role.opens : Role → Bool
  | .follower | .sync => true
  | _ => false

/-- `SLock.GetInitCommandState` (the manager's and the replication manager's leader address are set together here) -/
def initState (role : Role) (addr : Addr) : Nat :=
  (if role = .leader then 12 else if addr = .none then 0 else 8) + (if role = .close then 16 else 0)

def rewriteInitType (role : Role) (addr : Addr) (t : Nat) : Nat := (t % 2) ||| 2 ||| initState role addr

/-- `LockDB.CheckProbableLock` -/
def probe (c : LockCmd) (rep : Replica) : Option (Nat × List Nat) :=
  if c.flag &&& C.LOCK_FLAG_CONCURRENT_CHECK ≠ 0 ∧ c.timeout = 0 then
    match rep with
    | .noDb => none
    | .noMgr => if c.timeoutFlag &&& C.TIMEOUT_FLAG_LOCK_WAIT_WHEN_UNLOCK ≠ 0 then some (0, []) else none
    | .mgr locked data =>
      if c.count < 65535 ∧ locked > c.count then some (locked % 65536, data)
      else if locked = 0 ∧ c.timeoutFlag &&& C.TIMEOUT_FLAG_LOCK_WAIT_WHEN_UNLOCK ≠ 0 then some (0, [])
      else none
  else none

/-- `ProcessLockResultCommand(command, result, lcount, lrcount, data)` -/
def localRes (ct : CType) (c : LockCmd) (result lcount lrcount : Nat) (data : List Nat) : LockRes :=
  { ct := ct, rid := c.rid, result := result, flag := if data = [] then 0 else C.LOCK_FLAG_CONTAINS_DATA, dbId := c.dbId,
    lockId := c.lockId, lockKey := c.lockKey, lcount := lcount, count := c.count, lrcount := lrcount, rcount := c.rcount,
    data := data }

/-- `rollbackLatestCommand`: `LockResultCommand{ResultCommand: {CommandType, RequestId, Result: RESULT_ERROR}}` -/
def rollbackRes (ct : CType) (rid : Nat) : LockRes :=
  { ct := ct, rid := rid, result := C.RESULT_ERROR, flag := 0, dbId := 0, lockId := 0, lockKey := 0, lcount := 0, count := 0,
    lrcount := 0, rcount := 0, data := [] }

def renderText (m : TextMode) (r : LockRes) : ToClient :=
  match m with
  | .value => .valueRes r
  | _ => .textRes r

/-- a fresh link as `OpenClient(initCommand)` + `Open` leave it -/
def newLink (ic : Option (Nat × Nat)) : Link :=
  match ic with
  | none => {}
  | some (r, cid) => { latestT := some .init, latestR := r, initC := some (r, cid) }

def openFwd (ic : Option (Nat × Nat)) : List Fwd :=
  match ic with
  | none => []
  | some (r, cid) => [.init r cid]

/-- `CheckClient` for a connection whose wrapper holds `ic` (text wrappers hold none): the link to write to, whether
it is new, and what `Open` already sent -/
def checkClient (s : Node) (x : Conn) (ic : Option (Nat × Nat)) : Option (Link × Bool × List Fwd) :=
  match x.link with
  | some l => some (l, false, [])
  | none => if s.role.opens ∧ s.addr = .live then some (newLink ic, true, openFwd ic) else none

/-- `Write(command)`: the command is on the wire and remembered as the latest one -/
def setLatest (l : Link) (t : CType) (r : Nat) : Link :=
  { l with latestT := some t, latestR := r, pend := if t = .lock ∨ t = .unlock then l.pend ++ [r] else l.pend }

def clearLatest (l : Link) (r : Nat) : Link := if l.latestR = r then { l with latestT := none } else l

/-- `early`: the leader's answer was read by the link's reader goroutine before `Write` (on the connection's own
goroutine) returned. Since the repair of `TransparencyBinaryClientProtocol.Write` (the command is recorded as the latest
one BEFORE its bytes leave, and the previous record is put back when the write fails) the comparison with
`latestRequestId` sees the command whichever goroutine runs first: the flag has NO effect any more. (Before the repair an
early answer cleared nothing, and `Write` then recorded a command that had already been answered.) -/
def clearLatestE (_early : Bool) (l : Link) (r : Nat) : Link := clearLatest l r

/-- the link after the leader's answer to `r` was read -/
def answered (early : Bool) (l : Link) (r : Nat) : Link := clearLatestE early l r

/-- … a lock result (ghost: the command is no longer pending) -/
def answeredLk (early : Bool) (l : Link) (r : Nat) : Link := { clearLatestE early l r with pend := l.pend.erase r }

/-- the RequestId of the lock / unlock result a client message carries -/
def lockShaped : ToClient → Option Nat
  | .lockRes r => if r.ct = .lock ∨ r.ct = .unlock then some r.rid else none
  | .textRes r => some r.rid
  | .valueRes r => some r.rid
  | _ => none

/-- ghost bookkeeping: the client was handed `m` -/
def addGot (x : Conn) (m : ToClient) : Conn :=
  match lockShaped m with
  | some rid => { x with got := x.got ++ [rid] }
  | none => x

def reqRid : Req → Option Nat
  | .lk _ _ c _ => some c.rid
  | .init rid _ => some rid
  | .call rid _ => some rid
  | .will _ c => some c.rid
  | .other => none

/-! ### a request -/

inductive Branch where
  | ign | busy
  | loc
  | refuse (m : ToClient)
  | probed (r : LockRes)
  | fwdLk (ct : CType) (c : LockCmd) (l : Link) (isNew : Bool) (pre : List Fwd) (await : Option (Nat × TextMode)) (ack : Option ToClient)
  | fwdInit (rid cid : Nat) (l : Link) (isNew : Bool)
  | initRefused (rid cid : Nat)
  | fwdCall (rid : Nat) (l : Link) (isNew : Bool) (pre : List Fwd)
  deriving DecidableEq, Repr

def classify (s : Node) (x : Conn) (short : Bool) (q : Req) : Branch :=
  if x.closed then .ign
  else if x.awaiting.isSome then .busy
  else if s.role = .leader then .loc
  else if x.kind = .text ∧ x.plainLoop = none ∧ short then .loc
  else
    match q with
    | .other => .loc
    | .lk ct m c rep =>
      match x.kind with
      | .binary =>
        if c.dbId = 255 then .refuse (.lockRes (localRes ct c C.RESULT_UNKNOWN_DB 0 0 []))
        else
          match (if ct = .lock then probe c rep else none) with
          | some (lc, d) => .probed (localRes ct c C.RESULT_TIMEOUT lc 0 d)
          | none =>
            match checkClient s x x.initCmd with
            | none => .refuse (.lockRes (localRes ct c C.RESULT_STATE_ERROR 0 0 []))
            | some (l, n, pre) => .fwdLk ct c l n pre none none
      | .text =>
        if c.dbId = 255 then .refuse (.textErr .unknownDb)
        else
          match checkClient s x none with
          | none => .refuse (.textErr .leaderServerError)
          | some (l, n, pre) =>
            match m with
            | .push => .fwdLk ct c l n pre none (some .textOk)
            | _ => .fwdLk ct c l n pre (some (c.rid, m)) none
    | .init rid cid =>
      match x.kind with
      | .text => .loc
      | .binary =>
        match checkClient s x (some (rid, cid)) with
        | none => .initRefused rid cid
        | some (l, n, _) => .fwdInit rid cid l n
    | .will _ _ => .ign      -- handled by `stepWill` before `classify` is consulted
    | .call rid fw =>
      match x.kind with
      | .text => .loc
      | .binary =>
        if !fw then .loc
        else
          match checkClient s x x.initCmd with
          | none => .refuse (.callRes rid C.RESULT_STATE_ERROR [])
          | some (l, n, pre) => .fwdCall rid l n pre

/-- the dispatch bookkeeping of `Server.handle` for an accepted request -/
def dispatched (s : Node) (x : Conn) (rid : Option Nat := none) : Conn × Bool :=
  let plain := decide (s.role = .leader)
  ({ x with plainLoop := some plain, wrapped := x.wrapped || !plain,
            asked := match rid with | some r => x.asked ++ [r] | none => x.asked },
   match x.plainLoop with
   | none => false
   | some p => p != plain)

/-- the connection record and the output of an accepted request (`rid` = its RequestId, for the ghost `asked`) -/
def applyConn (s : Node) (c : Nat) (x : Conn) (rid : Option Nat) : Branch → Conn × Out
  | .ign => (x, { tag := .ign })
  | .busy => (x, { tag := .busy })
  | .loc =>
    let d := dispatched s x rid
    (d.1, { tag := .loc d.2 })
  | .refuse m =>
    let d := dispatched s x rid
    (addGot d.1 m, { tag := .refused, client := [(c, m)] })
  | .probed r =>
    let d := dispatched s x rid
    (addGot d.1 (.lockRes r), { tag := .probed, client := [(c, .lockRes r)] })
  | .fwdLk ct cmd l _ pre await ack =>
    let d := dispatched s x rid
    ({ d.1 with link := some (setLatest l ct cmd.rid), awaiting := await },
     { tag := .forwarded d.2, client := (match ack with | some a => [(c, a)] | none => []),
       fwd := (pre ++ [Fwd.lk ct cmd]).map (fun f => (c, f)) })
  | .fwdInit rid' cid l isNew =>
    let d := dispatched s x rid
    -- a new link sent the INIT in `Open` (and is in the state `newLink` left it); an existing one gets it by `Write`
    let l' := if isNew then l else setLatest l .init rid'
    ({ d.1 with link := some l', initCmd := some (rid', cid) }, { tag := .forwarded d.2, fwd := [(c, .init rid' cid)] })
  | .initRefused rid' cid =>
    let d := dispatched s x rid
    ({ d.1 with initCmd := some (rid', cid) },
     { tag := .refused, client := [(c, .initRes rid' C.RESULT_STATE_ERROR (2 ||| initState s.role s.addr))] })
  | .fwdCall rid' l _ pre =>
    let d := dispatched s x rid
    ({ d.1 with link := some (setLatest l .call rid') },
     { tag := .forwarded d.2, fwd := (pre ++ [Fwd.call rid']).map (fun f => (c, f)) })

/-- a will command: whatever the node's role and whichever protocol object the connection has, it is pushed onto the
(inner) object's `willCommands` (binary: no answer; text: `+OK`) -/
def willConn (s : Node) (c : Nat) (x : Conn) (ct : CType) (cmd : LockCmd) : Conn × Out :=
  if x.closed then (x, { tag := .ign })
  else if x.awaiting.isSome then (x, { tag := .busy })
  else
    let d := dispatched s x (some cmd.rid)
    ({ d.1 with wills := x.wills ++ [(ct, cmd)] },
     { tag := .stored, client := match x.kind with | .text => [(c, .textOk)] | .binary => [] })

def stepRequest (s : Node) (c : Nat) (short : Bool) (q : Req) : Node × Out :=
  match s.conns[c]? with
  | none => (s, { tag := .ign })
  | some x =>
    match q with
    | .will ct cmd =>
      let r := willConn s c x ct cmd
      ({ s with conns := s.conns.set c r.1 }, r.2)
    | _ =>
      let r := applyConn s c x (reqRid q) (classify s x short q)
      ({ s with conns := s.conns.set c r.1 }, r.2)

/-! ### a frame from the leader -/

def msgRid : LeaderMsg → Option Nat
  | .lockRes r => some r.rid
  | .initRes rid _ _ => some rid
  | .callRes rid _ _ => some rid
  | .other => none

/-- the write of a relayed result to a text client whose peer is gone fails: `handle` closes the connection -/
def textDeliver (x : Conn) (l : Link) (m : TextMode) (r : LockRes) (c : Nat) : Conn × List (Nat × ToClient) :=
  if x.half then ({ x with closed := true, link := none, awaiting := none, half := false }, [])
  else (addGot { x with link := some l, awaiting := none } (renderText m r), [(c, renderText m r)])

/-- `processBinaryProcotol` / `processTextProcotol` for connection `x` with link `l`: the connection afterwards and
what its client receives -/
def relay (s : Node) (c : Nat) (x : Conn) (l : Link) (m : LeaderMsg) (early : Bool := false) : Conn × List (Nat × ToClient) :=
  match x.kind with
  | .binary =>
    match m with
    | .lockRes r => (addGot { x with link := some (answeredLk early l r.rid) } (.lockRes r), [(c, .lockRes r)])
    | .callRes rid res content => ({ x with link := some (answered early l rid) }, [(c, .callRes rid res content)])
    | .initRes rid res it =>
      let l₁ := answered early l rid
      if l₁.initC.map (·.1) ≠ some rid then ({ x with link := some l₁ }, [])
      else if l₁.initRes.isSome ∧ l₁.initRes ≠ some rid then ({ x with link := some l₁ }, [])
      else
        let l₂ := { l₁ with initRes := if res = 0 then some rid else none }
        ({ x with link := some l₂ }, [(c, .initRes rid res (rewriteInitType s.role s.addr it))])
    | .other => (x, [])
  | .text =>
    match m with
    | .lockRes r =>
      let l₁ := answeredLk early l r.rid
      match x.awaiting with
      | some (a, md) => if a = r.rid then textDeliver x l₁ md r c else ({ x with link := some l₁ }, [])
      | none => ({ x with link := some l₁ }, [])
    | _ => (x, [])

def willFwd (x : Conn) : List Fwd := x.wills.map (fun w => Fwd.lk w.1 w.2)

/-- `Transparency*ServerProtocol.Close`: the will commands are WRITTEN TO THE LEADER over the link `CheckClient` yields
(an INIT the connection announced goes first when the link has to be opened for it); without a link they are dropped.
A connection that never got a wrapper runs them through the node's own engine instead (nothing is forwarded). -/
def closeFwd (s : Node) (x : Conn) : List Fwd :=
  if x.wrapped ∧ x.wills ≠ [] then
    match checkClient s x (match x.kind with | .binary => x.initCmd | .text => none) with
    | some (_, _, pre) => pre ++ willFwd x
    | none => []
  else []

def stepLeaderMsg (s : Node) (c : Nat) (m : LeaderMsg) (early : Bool) : Node × Out :=
  match s.conns[c]? with
  | none => (s, { tag := .nolink })
  | some x =>
    match x.link with
    | none => (s, { tag := .nolink })
    | some l =>
      let r := relay s c x l m early
      -- a half-closed text connection closes when the answer cannot be written: its wills go out over the link it has
      let fw := if r.1.closed ∧ !x.closed then willFwd x else []
      ({ s with conns := s.conns.set c r.1 },
       { tag := if r.2 = [] then .dropped else .relayed, client := r.2, fwd := fw.map (fun f => (c, f)) })

/-! ### link loss -/

/-- the message `rollbackLatestCommand` fabricates -/
def rollbackMsg (l : Link) : Option LeaderMsg :=
  match l.latestT with
  | none => none
  | some .call => some (.callRes l.latestR C.RESULT_ERROR [])
  | some ct => some (.lockRes (rollbackRes ct l.latestR))

/-- does the detached link object reconnect (`processFinish` → `RetryOpen`)? -/
def retries (s : Node) : Bool := s.role ≠ .leader ∧ s.addr = .live

/-- `rollbackLatestCommand` + `processFinish` for the link `l` of connection `x` -/
def dropLink (s : Node) (c : Nat) (x : Conn) (l : Link) : Conn × List (Nat × ToClient) × List (Nat × Fwd) :=
  let r := match rollbackMsg l with
    | some m => relay s c x l m
    | none => (x, [])
  let x' := if r.1.closed then r.1 else { r.1 with link := none }
  -- (a half-closed text connection closes here: its wrapper has no link any more, `CheckClient` may open a new one)
  let fw := if r.1.closed ∧ !x.closed then closeFwd s { x with link := none } else []
  (x', r.2, (if retries s then (openFwd l.initC).map (fun f => (c, f)) else []) ++ fw.map (fun f => (c, f)))

def stepLinkDown (s : Node) (c : Nat) : Node × Out :=
  match s.conns[c]? with
  | none => (s, { tag := .nolink })
  | some x =>
    match x.link with
    | none => (s, { tag := .nolink })
    | some l =>
      let r := dropLink s c x l
      ({ s with conns := s.conns.set c r.1, orphans := if retries s then s.orphans + 1 else s.orphans },
       { tag := .down, client := r.2.1, fwd := r.2.2 })

/-- every link loses its socket (`ChangeLeader` with a changed or cleared address), connection by connection -/
def dropAll (s : Node) : Nat → List Conn → List Conn × List (Nat × ToClient) × List (Nat × Fwd) × Nat
  | _, [] => ([], [], [], 0)
  | i, x :: xs =>
    let rest := dropAll s (i + 1) xs
    match x.link with
    | none => (x :: rest.1, rest.2.1, rest.2.2.1, rest.2.2.2)
    | some l =>
      let r := dropLink s i x l
      (r.1 :: rest.1, r.2.1 ++ rest.2.1, r.2.2 ++ rest.2.2.1, rest.2.2.2 + 1)

def stepLeader (s : Node) (a : Addr) : Node × Out :=
  let s₁ := { s with addr := a }
  if a ≠ s.addr ∨ a = .none then
    let r := dropAll s₁ 0 s.conns
    ({ s₁ with conns := r.1, orphans := if retries s₁ then s.orphans + r.2.2.2 else 0 },
     { tag := .down, client := r.2.1, fwd := r.2.2.1 })
  else (s₁, { tag := .ok })

/-! ### the rest -/

def stepClose (s : Node) (c : Nat) (cut : Option Nat := none) : Node × Out :=
  match s.conns[c]? with
  | none => (s, { tag := .ign })
  | some x =>
    if x.closed then (s, { tag := .ign })
    else if x.awaiting.isSome then ({ s with conns := s.conns.set c { x with half := true } }, { tag := .deferred })
    else
      -- `cut = some k`: only the first k frames went out. Two causes in the real code: (1) while `Close` is still writing, the
      -- link's reader relays the leader's first answers to the client that has gone; the second such write fails,
      -- `processBinaryProcotol` returns the error, `Process` returns and CLOSES the link — the remaining will commands find
      -- "client not open"; (2) `Close` closes the link's socket right after the last write while answers of the leader are
      -- still unread: the kernel answers with RST and discards what has not left the send queue yet.
      let fw := match cut with | none => closeFwd s x | some k => (closeFwd s x).take k
      ({ s with conns := s.conns.set c { x with closed := true, link := none } },
       { tag := if fw = [] then .ok else .down, fwd := fw.map (fun f => (c, f)) })

inductive Event where
  | accept (k : Kind)
  | request (c : Nat) (short : Bool) (q : Req)    -- short: the whole command arrived in the connection's first 64-byte read
  | leaderMsg (c : Nat) (m : LeaderMsg) (early : Bool)
  /-- a frame was read from the freshly opened link of `c` BEFORE `CheckClient` had attached the link object to the
  connection (`clientProtocol.serverProtocol = self` comes after `OpenClient` has started the reader goroutine): the reader
  sees `serverProtocol == nil` and drops the frame without looking at it -/
  | unattached (c : Nat)
  | linkDown (c : Nat)
  | role (r : Role)
  | leader (a : Addr)
  | close (c : Nat)
  /-- the client closes connection `c`, and the link's own reader closes the link after `k` of the frames
  `Transparency*ServerProtocol.Close` has to write (INIT, will commands) have gone out: the rest is lost -/
  | closeCut (c : Nat) (k : Nat)
  deriving DecidableEq, Repr

def step (s : Node) : Event → Node × Out
  | .accept k => ({ s with conns := s.conns ++ [{ kind := k }] }, { tag := .ok })
  | .request c short q => stepRequest s c short q
  | .leaderMsg c m early => stepLeaderMsg s c m early
  | .unattached _ => (s, { tag := .dropped })
  | .linkDown c => stepLinkDown s c
  | .role r => ({ s with role := r }, { tag := .ok })
  | .leader a => stepLeader s a
  | .close c => stepClose s c
  | .closeCut c k => stepClose s c (some k)

def runFrom (s : Node) (evs : List Event) : Node := evs.foldl (fun s e => (step s e).1) s

def run (evs : List Event) : Node := runFrom {} evs

def runOut : Node → List Event → List Out
  | _, [] => []
  | s, e :: es => (step s e).2 :: runOut (step s e).1 es

end Slock.Trans
