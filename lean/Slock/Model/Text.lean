import Slock.Gen.Consts
/-!
M-TEXT (part 1): the RESP request parser of `protocol/textparse.go` (`TextParser.ParseRequest`, driven the way
`TextServerProtocol.Process` drives it), the response parser `TextParser.ParseResponse` (driven the way
`client.TextClientProtocol.Read` drives it; one automaton, `PState.resp` says which entry point runs it: stages 1–4 are
literally the same code in both), `BuildRequest`, `BuildResponse`, and Go's `strconv.Atoi`/`ParseInt(·,10,64)`.

The parser is a per-byte automaton.  Its persistent state `PState` is exactly what the Go struct keeps between two
`ParseRequest` calls (`stage`, `carg[:cargIndex]`, `cargIndex`, `cargLen`, `args`, `argsCount`).  What the Go code keeps
only WITHIN one buffer (one chunk = one `ReadFromConn`) is the chunk-local state `Loc`:

* `prev`  — `rbuf[bufIndex-1]`, the previous byte of THIS chunk (`none` at a chunk start: the test
  `bufIndex > 0 && rbuf[bufIndex-1] != '\r'` is vacuous there, so a lone LF is accepted at a chunk start and rejected
  mid-chunk);
* `phase` — where the `case 4` handler is: `entry` (the handler is (re-)entered: at a chunk start, or right after the
  `$<len>` line), `data left` (inside the block copy, `left` bytes to go), `scan` (the trailing `for` loop that looks
  for LF).

`got` mirrors `cargIndex` in stage 4 byte for byte: `+1` per copied byte (= the partial-copy arithmetic
`cargIndex += bufLen - bufIndex`), `:= self.cargLen` when the block copy completes.  (Before the repair
"fix: TextParser sets cargIndex to the argument's full length…" the code assigned the LOCAL remaining length there,
which made the parser depend on the chunking; the model followed that and the counterexample was a theorem.)

Core Lean only.  A Go index panic is the explicit outcome `panic`.
-/
namespace Slock.Text

abbrev Bytes := List UInt8

/-! ## strconv.Atoi / ParseInt(s, 10, 64) -/

def digitVal (b : UInt8) : Option Nat :=
  if 48 ≤ b.toNat ∧ b.toNat ≤ 57 then some (b.toNat - 48) else none

def parseDigits : Bytes → Nat → Option Nat
  | [], acc => some acc
  | b :: bs, acc =>
    match digitVal b with
    | some d => parseDigits bs (acc * 10 + d)
    | none => none

/-- optional single sign, at least one decimal digit, nothing else; value must fit int64. -/
def atoi (s : Bytes) : Option Int :=
  match s with
  | [] => none
  | b :: rest =>
    if b = 45 then
      if rest.isEmpty then none else
      match parseDigits rest 0 with
      | some n => if n ≤ 9223372036854775808 then some (-(n : Int)) else none
      | none => none
    else if b = 43 then
      if rest.isEmpty then none else
      match parseDigits rest 0 with
      | some n => if n < 9223372036854775808 then some (n : Int) else none
      | none => none
    else
      match parseDigits (b :: rest) 0 with
      | some n => if n < 9223372036854775808 then some (n : Int) else none
      | none => none

def digitByte (d : Nat) : UInt8 := (48 + d).toUInt8

/-- `%d` of a non-negative number, most significant digit first (`fuel` ≥ number of digits). -/
def decDigits : Nat → Nat → Bytes
  | 0, _ => []
  | f + 1, n => if n < 10 then [digitByte n] else decDigits f (n / 10) ++ [digitByte (n % 10)]

def natToDec (n : Nat) : Bytes := decDigits (n + 1) n

def intToDec (i : Int) : Bytes :=
  if i < 0 then 45 :: natToDec i.natAbs else natToDec i.toNat

/-! ## the request parser -/

inductive Stage | s0 | s1 | s2 | s3 | s4 | s5 | s6
  deriving DecidableEq, Repr, Inhabited

inductive Phase
  | entry
  | data (left : Nat)
  | scan
  deriving DecidableEq, Repr, Inhabited

structure PState where
  stage : Stage := .s0
  /-- `carg[:cargIndex]` while in stage 1 / 3 -/
  num : Bytes := []
  /-- `cargIndex` while in stage 4 -/
  got : Nat := 0
  cargLen : Int := 0
  args : List Bytes := []
  argsCount : Int := 0
  /-- which entry point drives the automaton: `ParseRequest` (false) or `ParseResponse` (true) -/
  resp : Bool := false
  /-- `argsType`: 0 request, 1 `+`, 2 `-`, 3 `$`, 4 `*` -/
  ty : Nat := 0
  deriving DecidableEq, Repr, Inhabited

structure Loc where
  prev : Option UInt8 := none
  phase : Phase := .entry
  deriving DecidableEq, Repr, Inhabited

def MAX_CARG_LEN : Nat := 128

inductive Step
  | cont (s : PState) (l : Loc)
  | emit (cmd : List Bytes) (s : PState) (l : Loc)
  | err
  | panic
  deriving DecidableEq, Repr

/-- `bufIndex > 0 && rbuf[bufIndex-1] != '\r'` -/
def lfBad : Option UInt8 → Bool
  | some p => p != 13
  | none => false

inductive NumOut
  | more (num : Bytes)
  | done (v : Int)
  | err
  deriving DecidableEq, Repr

/-- the inner loops of stages 1 and 3 (one byte) -/
def numStep (num : Bytes) (prev : Option UInt8) (b : UInt8) : NumOut :=
  if b = 10 then
    if lfBad prev then .err
    else match atoi num with
      | some v => .done v
      | none => .err
  else if b = 13 then .more num
  else if num.length ≥ MAX_CARG_LEN then .err
  else .more (num ++ [b])

/-- `self.args[len(self.args)-1] += …` (one byte); `none` = index −1 -/
def appendLast : List Bytes → UInt8 → Option (List Bytes)
  | [], _ => none
  | [a], b => some [a ++ [b]]
  | a :: a' :: as, b => (appendLast (a' :: as) b).map (a :: ·)

def dataByte (s : PState) (b : UInt8) (left : Nat) : Step :=
  match (if s.got = 0 then some (s.args ++ [[b]]) else appendLast s.args b) with
  | none => .panic
  | some args' =>
    if left ≤ 1 then .cont { s with args := args', got := s.cargLen.toNat } ⟨some b, .scan⟩
    else .cont { s with args := args', got := s.got + 1 } ⟨some b, .data (left - 1)⟩

def scanByte (s : PState) (l : Loc) (b : UInt8) : Step :=
  if b = 10 then
    if lfBad l.prev then .err
    else
      let args' := if s.cargLen = 0 then s.args ++ [[]] else s.args
      if (args'.length : Int) < s.argsCount then
        .cont { s with args := args', got := 0, cargLen := 0, stage := .s2 } ⟨some b, .entry⟩
      else
        -- stage 0: ParseRequest returns, Process dispatches `args` and calls Reset()
        .emit args' { s with args := [], argsCount := 0, got := 0, cargLen := 0, stage := .s0 } ⟨some b, .entry⟩
  else .cont s ⟨some b, .scan⟩

def step4 (s : PState) (l : Loc) (b : UInt8) : Step :=
  match l.phase with
  | .entry =>
    let rem := s.cargLen - (s.got : Int)
    if rem > 0 then dataByte s b rem.toNat else scanByte s l b
  | .data left => dataByte s b left
  | .scan => scanByte s l b

/-- `strings.TrimRight(s, "\r")` -/
def stripCR (s : Bytes) : Bytes := (s.reverse.dropWhile (· = 13)).reverse

/-- `self.args[k] = f(self.args[k])`; `none` = index out of range -/
def modifyAt (args : List Bytes) (k : Nat) (f : Bytes → Bytes) : Option (List Bytes) :=
  match args[k]? with
  | some a => some (args.set k (f a))
  | none => none

/-- stage 0 of `ParseResponse`: the reply kind -/
def step0R (s : PState) (b : UInt8) : Step :=
  if b = 43 then .cont { s with args := s.args ++ [[]], argsCount := 0, ty := 1, stage := .s5 } ⟨some b, .entry⟩
  else if b = 45 then .cont { s with args := s.args ++ [[], []], argsCount := 0, ty := 2, stage := .s6 } ⟨some b, .entry⟩
  else if b = 36 then .cont { s with ty := 3, stage := .s3 } ⟨some b, .entry⟩
  else if b = 42 then .cont { s with ty := 4, stage := .s1 } ⟨some b, .entry⟩
  else .err

/-- stage 5: the text of a `+` reply (`args[0]`) or the message of a `-` reply (`args[1]`), byte by byte
(after the repair "fix: ParseResponse accumulates the text of + and - replies byte-exactly across reads …":
every byte before the LF is appended, the trailing CRs are stripped at the LF) -/
def step5 (s : PState) (l : Loc) (b : UInt8) : Step :=
  let k := if s.ty = 2 then 1 else 0
  if b = 10 then
    match modifyAt s.args k stripCR with
    | none => .panic
    | some args' =>
      if lfBad l.prev then .err
      else .emit args' { s with args := [], argsCount := 0, stage := .s0 } ⟨some b, .entry⟩
  else
    match modifyAt s.args k (· ++ [b]) with
    | none => .panic
    | some args' => .cont { s with args := args' } ⟨some b, .entry⟩

/-- stage 6: the type word of a `-` reply (`args[0]`), up to the first blank or the LF -/
def step6 (s : PState) (l : Loc) (b : UInt8) : Step :=
  if b = 32 then
    match modifyAt s.args 0 stripCR with
    | none => .panic
    | some args' => .cont { s with args := args', stage := .s5 } ⟨some b, .entry⟩
  else if b = 10 then
    match modifyAt s.args 0 stripCR with
    | none => .panic
    | some args' =>
      if lfBad l.prev then .err
      else .emit args' { s with args := [], argsCount := 0, stage := .s0 } ⟨some b, .entry⟩
  else
    match modifyAt s.args 0 (· ++ [b]) with
    | none => .panic
    | some args' => .cont { s with args := args' } ⟨some b, .entry⟩

def step (s : PState) (l : Loc) (b : UInt8) : Step :=
  match s.stage with
  | .s0 =>
    if s.resp then step0R s b
    else if b = 42 then .cont { s with ty := 0, stage := .s1 } ⟨some b, .entry⟩ else .err
  | .s1 =>
    match numStep s.num l.prev b with
    | .more n => .cont { s with num := n } ⟨some b, .entry⟩
    | .done v => .cont { s with argsCount := v, num := [], stage := .s2 } ⟨some b, .entry⟩
    | .err => .err
  | .s2 => if b = 36 then .cont { s with stage := .s3 } ⟨some b, .entry⟩ else .err
  | .s3 =>
    match numStep s.num l.prev b with
    | .more n => .cont { s with num := n } ⟨some b, .entry⟩
    | .done v => .cont { s with cargLen := v, num := [], got := 0, stage := .s4 } ⟨some b, .entry⟩
    | .err => .err
  | .s4 => step4 s l b
  | .s5 => if s.resp then step5 s l b else .err   -- unreachable from `ParseRequest`
  | .s6 => if s.resp then step6 s l b else .err

abbrev Cmds := List (List Bytes)

/-- what the caller takes at each finished parse: `(argsType, args)` -/
abbrev Replies := List (Nat × List Bytes)

inductive Run
  | ok (cmds : Replies) (s : PState) (l : Loc)
  | err (cmds : Replies)
  | panic (cmds : Replies)
  deriving DecidableEq, Repr

/-- one buffer, from the given chunk-local state -/
def runBytes (s : PState) (l : Loc) (acc : Replies) : Bytes → Run
  | [] => .ok acc s l
  | b :: bs =>
    match step s l b with
    | .cont s' l' => runBytes s' l' acc bs
    | .emit c s' l' => runBytes s' l' (acc ++ [(s'.ty, c)]) bs
    | .err => .err acc
    | .panic => .panic acc

/-- `Process`: one `ReadFromConn` per chunk; the chunk-local state starts fresh in every chunk.
(An empty read never happens — `conn.Read` returns ≥ 1 byte or an error — and is a no-op here.) -/
def feed (s : PState) (acc : Replies) : List Bytes → Run
  | [] => .ok acc s {}
  | c :: cs =>
    match runBytes s {} acc c with
    | .ok acc' s' _ => feed s' acc' cs
    | r => r

def parseAll (chunks : List Bytes) : Run := feed {} [] chunks

inductive Status | done | pending | err | panic
  deriving DecidableEq, Repr

/-- request side: the argument lists -/
def Run.outcome : Run → Cmds × Status
  | .ok c s _ => (c.map (·.2), if s.stage = .s0 then .done else .pending)
  | .err c => (c.map (·.2), .err)
  | .panic c => (c.map (·.2), .panic)

/-- response side: `(argsType, args)` per reply -/
def Run.outcomeR : Run → Replies × Status
  | .ok c s _ => (c, if s.stage = .s0 then .done else .pending)
  | .err c => (c, .err)
  | .panic c => (c, .panic)

/-- `client.TextClientProtocol.Read`: the same loop around `ParseResponse` -/
def parseAllR (chunks : List Bytes) : Run := feed { resp := true } [] chunks

/-! ## BuildRequest / BuildResponse -/

def crlf : Bytes := [13, 10]

/-- `$<len>\r\n<arg>\r\n` -/
def bulk (a : Bytes) : Bytes := 36 :: (natToDec a.length ++ (crlf ++ (a ++ crlf)))

def bulks : List Bytes → Bytes
  | [] => []
  | a :: as => bulk a ++ bulks as

def buildRequest (args : List Bytes) : Bytes := 42 :: (natToDec args.length ++ (crlf ++ bulks args))

def buildResponse (isSuccess : Bool) (message : Bytes) (results : List Bytes) : Bytes :=
  if !isSuccess then 45 :: (message ++ crlf)
  else match results with
    | [] => 43 :: (message ++ crlf)
    | [r] => bulk r
    | rs => 42 :: (natToDec rs.length ++ (crlf ++ bulks rs))

end Slock.Text
